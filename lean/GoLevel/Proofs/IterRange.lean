import GoLevel.Proofs.IterView
/-!
# Range restriction commutes with visibility; facts about the specification cursor

Core Lean only.
-/
namespace GoLevel

section
variable {c : UCmp} (hl : LawfulUCmp c)
include hl

/-- for an entry the DB can hold, "not below `probe(S, keyMaxSeq)`" is "user key not below `S`" -/
theorem ge_probeMax (e : Entry) (S : Bytes) (hkind : e.kind ≤ Gen.keyTypeVal) (hseq : e.seq ≤ Gen.keyMaxSeq) :
    (icmp c e.key (probe S Gen.keyMaxSeq) != .lt) = (c.cmp e.ukey S != .lt) := by
  cases hc : c.cmp e.ukey S with
  | lt =>
    have : icmp c e.key (probe S Gen.keyMaxSeq) = .lt :=
      (icmp_order hl _ _).2 (.inl (by simpa [probe, Entry.ukey] using hc))
    simp [this]
  | eq =>
    have hu := hl.eq_of _ _ hc
    have := (ge_probe_same_key hl e.key S Gen.keyMaxSeq hu hkind).2 hseq
    simp [this]
  | gt =>
    have : icmp c e.key (probe S Gen.keyMaxSeq) = .gt := by
      have hc' : c.cmp e.key.ukey (probe S Gen.keyMaxSeq).ukey = .gt := by simpa [probe, Entry.ukey] using hc
      simp [icmp, hc']
    simp [this]

theorem lt_probeMax (e : Entry) (L : Bytes) (hkind : e.kind ≤ Gen.keyTypeVal) (hseq : e.seq ≤ Gen.keyMaxSeq) :
    (icmp c e.key (probe L Gen.keyMaxSeq) == .lt) = (c.cmp e.ukey L == .lt) := by
  have := ge_probeMax hl e L hkind hseq
  cases h1 : icmp c e.key (probe L Gen.keyMaxSeq) <;> cases h2 : c.cmp e.ukey L <;> simp_all

/-- the internal range `[probe(Start, max), probe(Limit, max))` cuts the raw entries by user key -/
theorem sliceOf_probe (es : List Entry) (start limit : Option Bytes)
    (hk : ∀ e ∈ es, e.kind ≤ Gen.keyTypeVal) (hq : ∀ e ∈ es, e.seq ≤ Gen.keyMaxSeq) :
    sliceOf c es (start.map (probe · Gen.keyMaxSeq)) (limit.map (probe · Gen.keyMaxSeq))
      = es.filter (fun e => inRange c start limit e.ukey) := by
  simp only [sliceOf]
  apply List.filter_congr
  intro e he
  simp only [inRange]
  congr 1
  · cases start with
    | none => rfl
    | some S => exact ge_probeMax hl e S (hk e he) (hq e he)
  · cases limit with
    | none => rfl
    | some L => exact lt_probeMax hl e L (hk e he) (hq e he)

/-- visibility inside a range-restricted list is visibility in the whole list -/
theorem isVisible_filter (es : List Entry) (seq : Nat) (g : Bytes → Bool) (e : Entry) (hg : g e.ukey = true) :
    isVisible c (es.filter (fun e => g e.ukey)) seq e = isVisible c es seq e := by
  simp only [isVisible]
  congr 1
  rw [List.all_filter]
  apply List.all_congr rfl
  intro e'
  by_cases hc : c.cmp e'.ukey e.ukey = .eq
  · have := hl.eq_of _ _ hc
    simp [this, hg]
  · simp [hc]

/-- **range restriction commutes with the view**: the visible pairs of the sliced raw list are the visible
pairs of the whole list whose key lies in `[Start, Limit)` -/
theorem visible_slice (es : List Entry) (seq : Nat) (start limit : Option Bytes) :
    visible c (es.filter (fun e => inRange c start limit e.ukey)) seq
      = (visible c es seq).filter (fun p => inRange c start limit p.1) := by
  simp only [visible]
  rw [List.filter_map]
  congr 1
  rw [List.filter_filter, List.filter_filter]
  apply List.filter_congr
  intro e _
  by_cases hg : inRange c start limit e.ukey = true
  · rw [isVisible_filter hl es seq (inRange c start limit) e hg]
    simp [hg, Bool.and_comm]
  · simp [hg]

end

/-! ## facts about the specification cursor -/

namespace Cursor
variable {α κ : Type}

/-- position after a sequence of calls -/
def after (xs : List α) (ge : κ → α → Bool) : Pos → List (Call κ) → Pos
  | p, [] => p
  | p, cl :: cs => after xs ge (step xs ge cl p) cs

theorem run_append (xs : List α) (ge : κ → α → Bool) (p : Pos) (cs ds : List (Call κ)) :
    run xs ge p (cs ++ ds) = run xs ge p cs ++ run xs ge (after xs ge p cs) ds := by
  induction cs generalizing p with
  | nil => rfl
  | cons cl cs ih => simp only [List.cons_append, run, after, ih]

/-- whatever the cursor shows is an element of the list -/
theorem run_mem (xs : List α) (ge : κ → α → Bool) (p : Pos) (cs : List (Call κ)) (x : α)
    (h : some x ∈ run xs ge p cs) : x ∈ xs := by
  induction cs generalizing p with
  | nil => simp [run] at h
  | cons cl cs ih =>
    simp only [run, List.mem_cons] at h
    rcases h with h | h
    · cases hp : step xs ge cl p with
      | soi => rw [hp] at h; simp [get] at h
      | eoi => rw [hp] at h; simp [get] at h
      | «at» i => rw [hp] at h; simp only [get] at h; exact List.mem_of_getElem? h.symm
    · exact ih _ h

/-- `Seek(k)` shows the first element passing the test, whatever came before -/
theorem run_seek (xs : List α) (ge : κ → α → Bool) (p : Pos) (cs : List (Call κ)) (k : κ) :
    run xs ge p (cs ++ [.seek k]) = run xs ge p cs ++ [xs.find? (ge k)] := by
  rw [run_append]
  simp only [run, step, get_seek]

theorem run_next_from (xs : List α) (ge : κ → α → Bool) (n : Nat) : ∀ (i : Nat), i + n = xs.length → 0 < n →
    run xs ge (.at (i)) (List.replicate n .next) = ((xs.drop (i + 1)).map some) ++ [none] := by
  induction n with
  | zero => intro i _ h; omega
  | succ n ih =>
    intro i hi _
    simp only [List.replicate_succ, run, step, next]
    by_cases hn : n = 0
    · subst hn
      have : ¬ i + 1 < xs.length := by omega
      rw [if_neg this]
      simp only [get, List.replicate_zero, run]
      rw [List.drop_of_length_le (by omega)]; rfl
    · have : i + 1 < xs.length := by omega
      rw [if_pos this, ih (i + 1) (by omega) (by omega)]
      simp only [get]
      rw [List.getElem?_eq_getElem this]
      conv => rhs; rw [List.drop_eq_getElem_cons this]
      rfl

/-- **walking `First, Next, Next, …`** shows every element exactly once, in list order, then stops -/
theorem run_first_next (xs : List α) (ge : κ → α → Bool) (p : Pos) :
    run xs ge p (.first :: List.replicate xs.length .next) = xs.map some ++ [none] := by
  cases xs with
  | nil => simp [run, step, first, get]
  | cons x xs =>
    simp only [run, step, first, List.isEmpty_cons, Bool.false_eq_true, if_false, get]
    rw [run_next_from (x :: xs) ge (x :: xs).length 0 (by simp) (by simp)]
    simp

/-- the symmetric walk `Last, Prev, Prev, …` -/
theorem run_prev_from (xs : List α) (ge : κ → α → Bool) (n : Nat) : ∀ (i : Nat), n = i + 1 → i < xs.length →
    run xs ge (.at i) (List.replicate n .prev) = ((xs.take i).reverse.map some) ++ [none] := by
  induction n with
  | zero => intro i h; omega
  | succ n ih =>
    intro i hi hlt
    simp only [List.replicate_succ, run, step, prev]
    by_cases hz : i = 0
    · subst hz
      have : n = 0 := by omega
      subst this
      simp [get, run]
    · rw [if_neg hz, ih (i - 1) (by omega) (by omega)]
      simp only [get]
      have h1 : i - 1 < xs.length := by omega
      rw [List.getElem?_eq_getElem h1]
      have h2 : xs.take i = xs.take (i - 1) ++ [xs[i - 1]] := by
        have : i = (i - 1) + 1 := by omega
        conv => lhs; rw [this]
        rw [List.take_add_one]
        simp [List.getElem?_eq_getElem h1]
      have h3 : (xs.take i).reverse = xs[i - 1] :: (xs.take (i - 1)).reverse := by
        rw [h2, List.reverse_append]; rfl
      rw [h3]; rfl

theorem run_last_prev (xs : List α) (ge : κ → α → Bool) (p : Pos) :
    run xs ge p (.last :: List.replicate xs.length .prev) = xs.reverse.map some ++ [none] := by
  cases hx : xs with
  | nil => simp [run, step, last, get]
  | cons x ys =>
    rw [← hx]
    have hlen : 0 < xs.length := by rw [hx]; simp
    simp only [run, step, last]
    have hne : xs.isEmpty = false := by rw [hx]; rfl
    simp only [hne, Bool.false_eq_true, if_false, get]
    rw [run_prev_from xs ge xs.length (xs.length - 1) (by omega) (by omega)]
    rw [List.getElem?_eq_getElem (by omega)]
    have h4 : xs = xs.take (xs.length - 1) ++ [xs[xs.length - 1]'(by omega)] := by
      have h := List.take_add_one (l := xs) (i := xs.length - 1)
      rw [List.getElem?_eq_getElem (by omega)] at h
      have h2 : xs.length - 1 + 1 = xs.length := by omega
      rw [h2, List.take_length] at h
      simpa using h
    have h5 : xs.reverse = xs[xs.length - 1]'(by omega) :: (xs.take (xs.length - 1)).reverse := by
      conv => lhs; rw [h4]
      rw [List.reverse_append]; rfl
    rw [h5]; rfl

end Cursor
end GoLevel
