import GoLevel.Model.CRC
/-! CRC32C: changing one byte of the input changes the checksum (and the masked checksum). -/
namespace GoLevel.CRC

/-- high byte of table entry `i` -/
def hi (i : Nat) : UInt8 := (entry i >>> 24).toUInt8

def hiTab : List UInt8 := (List.range 256).map hi

set_option maxRecDepth 100000 in
/-- the high bytes of the 256 table entries are pairwise distinct -/
theorem hiTab_nodup : hiTab.Nodup := by decide +kernel

theorem tab_eq (b : UInt8) : tab b = entry b.toNat := by
  have h : b.toNat < 256 := UInt8.toNat_lt b
  simp [tab, table, h]

end GoLevel.CRC
