import GoLevel.Model.TrClose
/-! `OpenTransaction` racing `Close` (`Model/TrClose.lean`): the invariants of every configuration (the token has its
owner, `db.tr` names the one open transaction, the flags are ordered), the invariant of the repaired configuration
(once `Close` has looked at `db.tr`, every transaction it did not see will be ended by its own `OpenTransaction`),
termination (every step decreases a measure) and progress (`Close` past `setClosed` is never stuck). -/
namespace GoLevel.TrClose
set_option linter.unusedSimpArgs false

/-- `Close` is past `setClosed` -/
def CPc.started : CPc → Bool
  | .idle => false
  | _ => true

/-- `Close` is past `close(closeC)` -/
def CPc.signalled : CPc → Bool
  | .idle | .atCloseC => false
  | _ => true

/-- `Close` has looked at `db.tr` and dealt with what it saw -/
def CPc.pastDiscard : CPc → Bool
  | .atAcq | .done => true
  | _ => false

/-- invariants of every configuration -/
structure Inv (s : St) : Prop where
  /-- a token is in `writeLockC` iff somebody owns it -/
  tokOwner : s.tok = true ↔ s.owner ≠ none
  /-- a goroutine owns the token exactly between taking it and ending its transaction (or failing) -/
  thrOwner : ∀ (i : Nat) (p : OPc), s.os[i]? = some p → (holds p = true ↔ s.owner = some (.thr i))
  closeOwner : s.owner = some .close ↔ s.cl = .done
  /-- `db.tr` names the registered, not yet ended transaction -/
  trReg : ∀ (i : Nat), s.tr = some i ↔ (s.os[i]? = some .live ∨ s.os[i]? = some (.selfDiscard false))
  closedFlag : s.closed = s.cl.started
  closeCFlag : s.closeC = s.cl.signalled
  /-- the owner and the transaction `Close` saw are goroutines of the run -/
  ownerValid : ∀ (i : Nat), s.owner = some (.thr i) → i < s.os.length
  seenValid : ∀ (i : Nat), s.cl = .atDiscard (some i) → i < s.os.length

theorem inv_init (n : Nat) (c : Bool) : Inv (init n c) := by
  refine ⟨by simp [init], ?_, by simp [init], ?_, rfl, rfl, by simp [init], by simp [init]⟩
  · intro i p hi
    simp only [init, List.getElem?_replicate] at hi
    split at hi <;> simp at hi
    subst hi; simp [holds, init]
  · intro i
    simp only [init, List.getElem?_replicate]
    split <;> simp

theorem getElem?_set' (l : List OPc) (i j : Nat) (v : OPc) :
    (l.set i v)[j]? = if i = j then (if i < l.length then some v else none) else l[j]? := by
  rw [List.getElem?_set]

theorem lt_of_getElem? {l : List OPc} {i : Nat} {p : OPc} (h : l[i]? = some p) : i < l.length := by
  rcases Nat.lt_or_ge i l.length with h' | h'
  · exact h'
  · rw [List.getElem?_eq_none h'] at h; cases h

theorem holds_cases (p : OPc) : holds p = true ↔ (p = .body ∨ p = .reg ∨ p = .selfDiscard false ∨ p = .live) := by
  cases p <;> simp [holds]
  rename_i e; cases e <;> simp [holds]

theorem step_inv (cfg : Cfg) (s t : St) (h : Step cfg s t) (inv : Inv s) : Inv t := by
  obtain ⟨h1, h2, h3, h4, h5, h6, h7, h8⟩ := inv
  cases h with
  | oStart i hi =>
    have hl := lt_of_getElem? hi
    have g2 := h2 i _ hi
    have g4 := h4 i
    refine ⟨?_, ?_, ?_, ?_, ?_, ?_, ?_, ?_⟩ <;> (try intro j) <;> (try intro p hj) <;>
      simp only [getElem?_set', List.length_set, holds_cases] at * <;> grind
  | oSelTok i hi ht =>
    have hl := lt_of_getElem? hi
    have g2 := h2 i _ hi
    have g4 := h4 i
    refine ⟨?_, ?_, ?_, ?_, ?_, ?_, ?_, ?_⟩ <;> (try intro j) <;> (try intro p hj) <;>
      simp only [getElem?_set', List.length_set, holds_cases] at * <;> grind
  | oSelClosed i hi hc =>
    have hl := lt_of_getElem? hi
    have g2 := h2 i _ hi
    have g4 := h4 i
    refine ⟨?_, ?_, ?_, ?_, ?_, ?_, ?_, ?_⟩ <;> (try intro j) <;> (try intro p hj) <;>
      simp only [getElem?_set', List.length_set, holds_cases] at * <;> grind
  | oBodyFail i hi =>
    have hl := lt_of_getElem? hi
    have g2 := h2 i _ hi
    have g4 := h4 i
    refine ⟨?_, ?_, ?_, ?_, ?_, ?_, ?_, ?_⟩ <;> (try intro j) <;> (try intro p hj) <;>
      simp only [getElem?_set', List.length_set, holds_cases] at * <;> grind
  | oBodyOk i hi =>
    have hl := lt_of_getElem? hi
    have g2 := h2 i _ hi
    have g4 := h4 i
    refine ⟨?_, ?_, ?_, ?_, ?_, ?_, ?_, ?_⟩ <;> (try intro j) <;> (try intro p hj) <;>
      simp only [getElem?_set', List.length_set, holds_cases] at * <;> grind
  | oReg i hi =>
    have hl := lt_of_getElem? hi
    have g2 := h2 i _ hi
    have g4 := h4 i
    refine ⟨?_, ?_, ?_, ?_, ?_, ?_, ?_, ?_⟩ <;> (try intro j) <;> (try intro p hj) <;>
      simp only [getElem?_set', List.length_set, holds_cases] at * <;> grind
  | oSelfDiscard i e hi =>
    have hl := lt_of_getElem? hi
    have g2 := h2 i _ hi
    have g4 := h4 i
    cases e <;> simp only [↓reduceIte, Bool.false_eq_true] <;>
      refine ⟨?_, ?_, ?_, ?_, ?_, ?_, ?_, ?_⟩ <;> (try intro j) <;> (try intro p hj) <;>
      simp only [getElem?_set', List.length_set, holds_cases] at * <;> grind
  | oEnd i hi hc =>
    have hl := lt_of_getElem? hi
    have g2 := h2 i _ hi
    have g4 := h4 i
    refine ⟨?_, ?_, ?_, ?_, ?_, ?_, ?_, ?_⟩ <;> (try intro j) <;> (try intro p hj) <;>
      simp only [getElem?_set', List.length_set, holds_cases] at * <;> grind
  | cStart hc =>
    refine ⟨?_, ?_, ?_, ?_, ?_, ?_, ?_, ?_⟩ <;> (try intro j) <;> (try intro p hj) <;>
      simp only [holds_cases] at * <;> grind [CPc.started, CPc.signalled]
  | cCloseC hc =>
    refine ⟨?_, ?_, ?_, ?_, ?_, ?_, ?_, ?_⟩ <;> (try intro j) <;> (try intro p hj) <;>
      simp only [holds_cases] at * <;> grind [CPc.started, CPc.signalled]
  | cRead hc =>
    have g8 : ∀ (i : Nat), s.tr = some i → i < s.os.length := by
      intro i hi
      rcases (h4 i).mp hi with h | h <;> exact lt_of_getElem? h
    refine ⟨?_, ?_, ?_, ?_, ?_, ?_, ?_, ?_⟩ <;> (try intro j) <;> (try intro p hj) <;>
      simp only [holds_cases] at * <;> grind [CPc.started, CPc.signalled]
  | cReadStale hc hl =>
    refine ⟨?_, ?_, ?_, ?_, ?_, ?_, ?_, ?_⟩ <;> (try intro j) <;> (try intro p hj) <;>
      simp only [holds_cases] at * <;> grind [CPc.started, CPc.signalled]
  | cDiscardNone hc =>
    refine ⟨?_, ?_, ?_, ?_, ?_, ?_, ?_, ?_⟩ <;> (try intro j) <;> (try intro p hj) <;>
      simp only [holds_cases] at * <;> grind [CPc.started, CPc.signalled]
  | cDiscard i p hc hi =>
    have hl := lt_of_getElem? hi
    have g2 := h2 i _ hi
    have g4 := h4 i
    have c5 : s.closed = true := by rw [h5, hc]; rfl
    have c6 : s.closeC = true := by rw [h6, hc]; rfl
    cases p <;> (try (rename_i e; cases e)) <;> simp only <;>
      refine ⟨?_, ?_, ?_, ?_, ?_, ?_, ?_, ?_⟩ <;> (try intro j) <;> (try intro p hj) <;>
      simp only [getElem?_set', List.length_set, holds_cases] at * <;> grind [CPc.started, CPc.signalled]
  | cAcq hc ht =>
    refine ⟨?_, ?_, ?_, ?_, ?_, ?_, ?_, ?_⟩ <;> (try intro j) <;> (try intro p hj) <;>
      simp only [holds_cases] at * <;> grind [CPc.started, CPc.signalled]

theorem steps_inv (cfg : Cfg) (P : St → Prop) (hP : ∀ s t, Step cfg s t → P s → P t) (s t : St)
    (h : Steps cfg s t) (hs : P s) : P t := by
  induction h with
  | refl => exact hs
  | tail _ h ih => exact hP _ _ h ih

theorem reachable_inv (cfg : Cfg) (s : St) (hr : Reachable cfg s) : Inv s := by
  obtain ⟨n, c, hs⟩ := hr
  exact steps_inv cfg Inv (step_inv cfg) _ _ hs (inv_init n c)

/-! ### the repaired configuration: what `Close` saw covers every transaction it will not end itself -/

/-- while `Close` is about to discard what it saw, every live transaction is the one it saw; afterwards none is live -/
def SeenInv (s : St) : Prop :=
  (∀ seen, s.cl = .atDiscard seen → ∀ (i : Nat), s.os[i]? = some .live → seen = some i) ∧
  (s.cl.pastDiscard = true → ∀ (i : Nat), s.os[i]? ≠ some .live)

theorem seenInv_init (n : Nat) (c : Bool) : SeenInv (init n c) := by
  refine ⟨fun seen h => by simp [init] at h, fun h => by simp [init, CPc.pastDiscard] at h⟩

theorem step_seenInv (cfg : Cfg) (c1 : cfg.otxChecks = true) (c2 : cfg.closeLocked = true) (s t : St)
    (h : Step cfg s t) (inv : Inv s) (k : SeenInv s) : SeenInv t := by
  obtain ⟨h1, h2, h3, h4, h5, h6, _, _⟩ := inv
  obtain ⟨k1, k2⟩ := k
  cases h with
  | oStart i hi =>
    have hl := lt_of_getElem? hi
    refine ⟨?_, ?_⟩ <;> intro a b j <;> simp only [getElem?_set'] at * <;> grind
  | oSelTok i hi ht =>
    have hl := lt_of_getElem? hi
    refine ⟨?_, ?_⟩ <;> intro a b j <;> simp only [getElem?_set'] at * <;> grind
  | oSelClosed i hi hc =>
    have hl := lt_of_getElem? hi
    refine ⟨?_, ?_⟩ <;> intro a b j <;> simp only [getElem?_set'] at * <;> grind
  | oBodyFail i hi =>
    have hl := lt_of_getElem? hi
    refine ⟨?_, ?_⟩ <;> intro a b j <;> simp only [getElem?_set'] at * <;> grind
  | oBodyOk i hi =>
    have hl := lt_of_getElem? hi
    refine ⟨?_, ?_⟩ <;> intro a b j <;> simp only [getElem?_set'] at * <;> grind
  | oReg i hi =>
    have hl := lt_of_getElem? hi
    refine ⟨?_, ?_⟩ <;> intro a b j <;> simp only [getElem?_set', c1, Bool.true_and] at * <;>
      grind [CPc.started, CPc.pastDiscard]
  | oSelfDiscard i e hi =>
    have hl := lt_of_getElem? hi
    cases e <;> simp only [↓reduceIte, Bool.false_eq_true] <;>
      refine ⟨?_, ?_⟩ <;> intro a b j <;> simp only [getElem?_set'] at * <;> grind
  | oEnd i hi hc =>
    have hl := lt_of_getElem? hi
    refine ⟨?_, ?_⟩ <;> intro a b j <;> simp only [getElem?_set'] at * <;> grind
  | cStart hc => refine ⟨?_, ?_⟩ <;> intro a b j <;> grind [CPc.pastDiscard]
  | cCloseC hc => refine ⟨?_, ?_⟩ <;> intro a b j <;> grind [CPc.pastDiscard]
  | cRead hc =>
    refine ⟨?_, ?_⟩ <;> intro a b j
    · intro hj
      have := (h4 j).mpr (Or.inl hj)
      simp only [CPc.atDiscard.injEq] at b
      rw [← b]; exact this
    · simp [CPc.pastDiscard] at a
  | cReadStale hc hl => rw [c2] at hl; cases hl
  | cDiscardNone hc =>
    refine ⟨fun seen hseen => by simp at hseen, fun _ j hj => ?_⟩
    have := k1 none hc j hj
    cases this
  | cDiscard i p hc hi =>
    have hl := lt_of_getElem? hi
    have kk := k1 (some i) hc
    cases p <;> (try (rename_i e; cases e)) <;> simp only <;>
      refine ⟨?_, ?_⟩ <;> intro a b j <;> simp only [getElem?_set'] at * <;> grind
  | cAcq hc ht => refine ⟨?_, ?_⟩ <;> intro a b j <;> grind [CPc.pastDiscard]

/-! ### termination -/

def wtO : OPc → Nat
  | .idle => 6 | .sel => 5 | .body => 4 | .reg => 3 | .selfDiscard false => 2 | .selfDiscard true => 1 | .live => 1
  | _ => 0

def wtC : CPc → Nat
  | .idle => 5 | .atCloseC => 4 | .atRead => 3 | .atDiscard _ => 2 | .atAcq => 1 | .done => 0

def measure (s : St) : Nat := (s.os.map wtO).sum + wtC s.cl

theorem sum_set (l : List OPc) (i : Nat) (p v : OPc) (hi : l[i]? = some p) :
    ((l.set i v).map wtO).sum + wtO p = (l.map wtO).sum + wtO v := by
  induction l generalizing i with
  | nil => simp at hi
  | cons x xs ih =>
    cases i with
    | zero =>
      simp only [List.getElem?_cons_zero, Option.some.injEq] at hi; subst hi
      simp only [List.set_cons_zero, List.map_cons, List.sum_cons]; omega
    | succ k =>
      simp only [List.getElem?_cons_succ] at hi
      have := ih k hi
      simp only [List.set_cons_succ, List.map_cons, List.sum_cons]; omega

/-- every step decreases the measure: every run is finite, whatever the scheduler -/
theorem step_measure (cfg : Cfg) (s t : St) (h : Step cfg s t) : measure t < measure s := by
  unfold measure
  cases h with
  | oStart i hi =>
    cases hb : s.closed <;> simp only [Bool.false_eq_true, ↓reduceIte]
    · have := sum_set s.os i _ .sel hi; simp only [wtO] at this; (try dsimp only); omega
    · have := sum_set s.os i _ .retClosed hi; simp only [wtO] at this; (try dsimp only); omega
  | oSelTok i hi ht => have := sum_set s.os i _ .body hi; simp only [wtO] at this; (try dsimp only); omega
  | oSelClosed i hi hc => have := sum_set s.os i _ .retClosed hi; simp only [wtO] at this; (try dsimp only); omega
  | oBodyFail i hi => have := sum_set s.os i _ .retErr hi; simp only [wtO] at this; (try dsimp only); omega
  | oBodyOk i hi => have := sum_set s.os i _ .reg hi; simp only [wtO] at this; (try dsimp only); omega
  | oReg i hi =>
    cases hb : (cfg.otxChecks && s.closed) <;> simp only [Bool.false_eq_true, ↓reduceIte]
    · have := sum_set s.os i _ .live hi; simp only [wtO] at this; (try dsimp only); omega
    · have := sum_set s.os i _ (.selfDiscard false) hi; simp only [wtO] at this; (try dsimp only); omega
  | oSelfDiscard i e hi =>
    have := sum_set s.os i _ .retClosed hi
    cases e <;> simp only [Bool.false_eq_true, ↓reduceIte] <;> simp only [wtO] at this <;> (try dsimp only) <;> omega
  | oEnd i hi hc => have := sum_set s.os i _ .endedClient hi; simp only [wtO] at this; (try dsimp only); omega
  | cStart hc => simp only [hc, wtC]; (try dsimp only); omega
  | cCloseC hc => simp only [hc, wtC]; (try dsimp only); omega
  | cRead hc => simp only [hc, wtC]; (try dsimp only); omega
  | cReadStale hc hl => simp only [hc, wtC]; (try dsimp only); omega
  | cDiscardNone hc => simp only [hc, wtC]; (try dsimp only); omega
  | cDiscard i p hc hi =>
    have a1 := sum_set s.os i _ (.selfDiscard true) hi
    have a2 := sum_set s.os i _ .endedClose hi
    cases p <;> (try (rename_i e; cases e)) <;> simp only [hc, wtC, wtO] at * <;> omega
  | cAcq hc ht => simp only [hc, wtC]; (try dsimp only); omega

/-- from every state some run ends in a state without successor -/
theorem settle (cfg : Cfg) (s : St) : ∃ t, Steps cfg s t ∧ ¬ ∃ u, Step cfg t u := by
  generalize hm : measure s = m
  induction m using Nat.strongRecOn generalizing s with
  | _ m ih =>
    by_cases h : ∃ u, Step cfg s u
    · obtain ⟨u, hu⟩ := h
      obtain ⟨t, ht, hq⟩ := ih (measure u) (by rw [← hm]; exact step_measure cfg s u hu) u rfl
      exact ⟨t, Steps.trans (Steps.step (Steps.refl s) hu) ht, hq⟩
    · exact ⟨s, Steps.refl s, h⟩

/-! ### progress -/

/-- `Close`, once started, moves forward only -/
theorem step_started (cfg : Cfg) (s t : St) (h : Step cfg s t) (hs : s.cl.started = true) : t.cl.started = true := by
  cases h with
  | oSelfDiscard i e hi => cases e <;> exact hs
  | cDiscard i p hc hi => cases p <;> (try (rename_i e; cases e)) <;> rfl
  | cStart hc => rfl
  | cCloseC hc => rfl
  | cRead hc => rfl
  | cReadStale hc hl => rfl
  | cDiscardNone hc => rfl
  | cAcq hc ht => rfl
  | _ => exact hs

theorem steps_started (cfg : Cfg) (s t : St) (h : Steps cfg s t) (hs : s.cl.started = true) : t.cl.started = true :=
  steps_inv cfg (fun s => s.cl.started = true) (step_started cfg) s t h hs

/-- **progress of `Close`** in the repaired configuration: between `setClosed` and the acquisition of the write lock
`Close` always has a step of its own, or the goroutine that holds the write lock has one — it is never a transaction
in a client's hands -/
theorem close_progress (cfg : Cfg) (s : St) (inv : Inv s) (k : SeenInv s)
    (hs : s.cl.started = true) (hd : s.cl ≠ .done) : ∃ t, Step cfg s t := by
  cases hc : s.cl with
  | idle => rw [hc] at hs; cases hs
  | atCloseC => exact ⟨_, Step.cCloseC s hc⟩
  | atRead => exact ⟨_, Step.cRead s hc⟩
  | atDiscard seen =>
    cases seen with
    | none => exact ⟨_, Step.cDiscardNone s hc⟩
    | some i =>
      have hl := inv.seenValid i hc
      exact ⟨_, Step.cDiscard s i s.os[i] hc (List.getElem?_eq_getElem hl)⟩
  | done => exact absurd hc hd
  | atAcq =>
    cases ht : s.tok with
    | false => exact ⟨_, Step.cAcq s hc ht⟩
    | true =>
      have hne : s.owner ≠ none := inv.tokOwner.mp ht
      cases ho : s.owner with
      | none => exact absurd ho hne
      | some o =>
        cases o with
        | close => have := inv.closeOwner.mp ho; rw [hc] at this; cases this
        | thr i =>
          have hl := inv.ownerValid i ho
          have hi : s.os[i]? = some s.os[i] := List.getElem?_eq_getElem hl
          have hh := (inv.thrOwner i _ hi).mpr ho
          have hnl := k.2 (by rw [hc]; rfl) i
          cases hp : s.os[i] with
          | body => rw [hp] at hi; exact ⟨_, Step.oBodyOk s i hi⟩
          | reg => rw [hp] at hi; exact ⟨_, Step.oReg s i hi⟩
          | selfDiscard e => rw [hp] at hi; exact ⟨_, Step.oSelfDiscard s i e hi⟩
          | live => rw [hp] at hi; exact absurd hi hnl
          | _ => rw [hp] at hh; simp [holds] at hh

end GoLevel.TrClose
