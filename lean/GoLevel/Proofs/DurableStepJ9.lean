import GoLevel.Proofs.DurableStepJ8
/-!
Job steps, part 9: `install` (`setVersion` + `recordCommited`).
-/
namespace GoLevel.Dur

theorem installJob_facts (s : St) (d : Disk) (j : Job) (e : MRec) :
    (installJob s d j e).kind = j.kind ∧ (installJob s d j e).outs = j.outs ∧
    (installJob s d j e).mkJournal = j.mkJournal ∧ (installJob s d j e).edit = j.edit ∧
    (installJob s d j e).rmJournals = j.rmJournals ∧
    ∃ l, (installJob s d j e).pc = .rmJ l ∧
      (∀ n ∈ l, n ∈ j.rmJournals ∨ (j.kind = .recovFinal ∧ n < s.jcur)) ∧
      ((installJob s d j e).rmTables = j.rmTables ∧ j.kind ≠ .recovFinal ∨
       j.kind = .recovFinal ∧ ∀ t ∈ (installJob s d j e).rmTables, t ∉ applyEdit s.live e) := by
  unfold installJob
  by_cases hk : j.kind = .recovFinal
  · rw [if_pos hk]
    refine ⟨rfl, rfl, rfl, rfl, rfl, _, rfl, ?_, Or.inr ⟨hk, ?_⟩⟩
    · intro n hn
      simp only [List.mem_append, List.mem_filter, decide_eq_true_eq] at hn
      rcases hn with h1 | ⟨_, h2⟩
      · exact Or.inl h1
      · exact Or.inr ⟨hk, h2⟩
    · intro t ht
      simp only [List.mem_filter, Bool.not_eq_true', List.contains_eq_mem, decide_eq_false_iff_not] at ht
      exact ht.2
  · rw [if_neg hk]
    exact ⟨rfl, rfl, rfl, rfl, rfl, _, rfl, fun n hn => Or.inl hn, Or.inl ⟨rfl, hk⟩⟩

theorem inv_job_install {cfg : Cfg} {s : St} {d : Disk} (h : Inv cfg s d) {j : Job}
    (hj : s.job = some j) (hpc : j.pc = .install) {rot : Bool}
    {s' : St} {d' : Disk} (hs : stepJob cfg s d j rot .ok = some (s', d')) : Inv cfg s' d' := by
  have hok := h.job
  rw [hj] at hok
  have hok : JobOK cfg s d j := hok
  obtain ⟨e, he⟩ := hok.edit_some (by rw [hpc]; rfl)
  rw [stepJob_install hpc he] at hs
  simp only [Option.some.injEq, Prod.mk.injEq] at hs
  obtain ⟨rfl, rfl⟩ := hs
  have hnr : ∀ m, j.pc ≠ .rotRemove m := by rw [hpc]; intro m hm; cases hm
  have hl0 : s.limbo = none := h.limbo_none_of_post hj he (by rw [hpc]; rfl)
  have hfd := (h.mfd hj).fd hj hnr hl0
  have hfacts := installJob_facts s d j e
  generalize installJob s d j e = j' at hfacts ⊢
  obtain ⟨k1, k2, k3, k4, k5, l, hl, hlmem, hrt⟩ := hfacts
  show Inv cfg
    (s.upd j' s.nextFile (applyEdit s.live e) (e.jn.getD s.stJn) (e.sq.getD s.stSq) s.manifestFd s.manifestOpen) d
  -- the manifest clause at `install`
  have hman := hok.manifest
  unfold JobManifestOK at hman
  rw [he] at hman
  simp only [hpc, JobManifest] at hman
  obtain ⟨hopen, hsett⟩ := hman
  obtain ⟨mf, v0, v, hparts, hlv, hvl, hvok, hmono⟩ := h.disk.last
  have hcur := hparts.cur
  unfold Settled at hsett
  obtain ⟨hun, hmir⟩ := holds_some hsett hcur
  rw [hlv] at hmir
  obtain ⟨m1, m2, m3⟩ : MirrorE s e v := hmir
  have hph := h.not_crashed hj
  have hb := h.bounds hph
  have hpc' : ∀ m, j'.pc ≠ .rotRemove m := by intro m hm; rw [hl] at hm; cases hm
  have hmfd' : MfdOK (s.upd j' s.nextFile (applyEdit s.live e) (e.jn.getD s.stJn) (e.sq.getD s.stSq)
      s.manifestFd s.manifestOpen) d := MfdOK.of_fd (j := j') rfl hpc' hfd
  have hnbc : j'.pc.beforeCommit = true → False := by intro hb'; rw [hl] at hb'; cases hb'
  have hk'post : j'.pc.uninstalled = false := by rw [hl]; rfl
  -- the journals to remove lie below the journal number of the new view
  have hnxv : ∀ n ∈ l, n < v.jn := by
    intro n hn
    by_cases hkc : j.kind = .compaction ∨ j.kind = .tr
    · have hkind := hok.kind
      unfold JobKindOK at hkind
      rcases hkc with hkc | hkc <;> rw [hkc] at hkind
      all_goals
        rcases hlmem n hn with h1 | ⟨hk, _⟩
        · rw [hkind.2.2.1] at h1; cases h1
        · rw [hkc] at hk; cases hk
    · obtain ⟨_, hjs, _⟩ := (hok.edit_nums he).2.1 (fun hx => hkc (Or.inl hx))
      have hjs := hjs (fun hx => hkc (Or.inr hx))
      obtain ⟨x, ex⟩ := Option.isSome_iff_exists.1 hjs
      have hvjn : v.jn = x := by rw [m2, ex]; rfl
      have hlt := h.rmJournals_lt hj he
      rw [ex] at hlt
      simp only [Option.getD_some] at hlt
      rw [hvjn]
      rcases hlmem n hn with h1 | ⟨hk, h2⟩
      · exact hlt n h1
      · -- `jcur` is the journal the final commit names
        have hmk := hok.mkj
        have hkind := hok.kind
        unfold JobKindOK at hkind
        rw [hk] at hkind
        simp only at hkind
        obtain ⟨_, hkind⟩ := hkind
        rw [holds_iff] at hkind
        obtain ⟨r, _, _, _, _, hkind⟩ := hkind
        rw [holds_iff] at hkind
        obtain ⟨y, hy, hkind⟩ := hkind
        rw [he] at hkind
        obtain ⟨hejn, _⟩ : e.jn = some y ∧ e.sq = some s.seq := hkind
        rw [ex] at hejn; cases hejn
        unfold MkJournalOK at hmk
        rw [hy] at hmk
        simp only at hmk
        rw [if_neg (by rw [hpc]; rintro (h3 | h3) <;> cases h3)] at hmk
        show n < x
        rw [← hmk.2.1]; exact h2
  constructor
  · exact h.disk
  · exact h.mm
  · intro _
    exact hb.of_same rfl (h.seqHi_step hj rfl rfl rfl k1 (fun hb' => (hnbc hb').elim)) (Nat.le_refl _)
      (fun hr => ⟨hr, Nat.le_refl _⟩)
  · intro hr
    have hrun := h.run hr
    apply RunOK.job_step (d' := d) hrun j' s.nextFile _ _ _ s.manifestFd s.manifestOpen
      (Nat.le_refl _) rfl ⟨hmfd', hrun.mfd.2⟩ hrun.nums.2
      (hrun.hnc_post (j' := j') hok hj hr k1 hk'post (fun hkc => by
        obtain ⟨x1, x2⟩ := (hok.edit_nums he).1 hkc
        rw [x1, x2]; exact ⟨rfl, rfl⟩))
    · exact holds_of_some hparts.cur (holds_of_some hparts.hv0 (holds_of_some hparts.cur
        (holds_of_some hparts.hv0 (Nat.le_refl _))))
    · exact LimboOK.of_none hl0
  · intro hr
    have hrec := h.recov hr
    refine hrec.imp (fun r hrr => ?_)
    apply RecOK.job_step (d' := d) hrr j' s.nextFile _ _ _ s.manifestFd s.manifestOpen
      (Nat.le_refl _) rfl hmfd' hrr.nums.2.1 (fun hb' => (hnbc hb').elim)
    · exact holds_of_some hlv (holds_of_some hlv (Nat.le_refl _))
    · exact hrr.rel.imp (fun v hv => hv.2)
  · intro hcr; exact absurd hcr hph
  · show JobOK cfg _ _ j'
    apply JobOK.late_next (d' := d) hok (by rw [hpc]; exact ⟨(by intro x; cases x), rfl⟩) j'
      ⟨k1, k2, k3, k4, k5⟩ (by rw [hl]; exact ⟨(by intro x; cases x), rfl⟩) s.nextFile _ _ _ s.manifestFd
      s.manifestOpen (Nat.le_refl _) rfl (fun _ => rfl)
    · rcases hrt with ⟨h1, h2⟩ | ⟨h1, _⟩
      · rcases hok.one.2 with h3 | h3 | h3
        · left; rw [h1]; exact h3
        · exact absurd h3 h2
        · right; right; rw [k1]; exact h3
      · right; left; rw [k1]; exact h1
    · unfold JobManifestOK
      rw [k4, he]
      simp only [hl, JobManifest]
      refine ⟨hopen, ?_, fun y hy => ?_⟩
      · unfold Settled
        rw [hcur]
        simp only [Holds]
        refine ⟨hun, ?_⟩
        rw [hlv]
        exact (MirrorL.of_none (s := s.upd j' s.nextFile (applyEdit s.live e) (e.jn.getD s.stJn) (e.sq.getD s.stSq)
          s.manifestFd s.manifestOpen) hl0).2 ⟨m1, m2, m3⟩
      · show e.jn.getD s.stJn = y
        rw [hy]; rfl
    · intro hb'; exact (hnbc hb').elim
    · rw [hlv]
      simp only [Holds]
      unfold RemovalsOK
      rw [hl]
      simp only
      refine ⟨fun n hn => ⟨Or.inl (hnxv n hn), fun y hy => ?_⟩, fun t ht => ?_, fun hkc => ?_,
        fun hn => (by rw [k4, he] at hn; cases hn)⟩
      rotate_right
      · -- a compaction or a transaction removes no journal
        rw [k1] at hkc
        have hkind := hok.kind
        unfold JobKindOK at hkind
        apply List.eq_nil_iff_forall_not_mem.2
        intro n hn
        rcases hkc with hkc | hkc <;> rw [hkc] at hkind
        all_goals
          rcases hlmem n hn with h1 | ⟨hk, _⟩
          · rw [hkind.2.2.1] at h1; cases h1
          · rw [hkc] at hk; cases hk
      · -- the journal `newMem` made is the one the edit names
        have hkind := hok.kind
        unfold JobKindOK at hkind
        rw [k3] at hy
        rcases hok.kinds with hk | hk | hk | hk | hk <;> rw [hk] at hkind <;> simp only at hkind
        rotate_right
        · rw [hkind.2.1] at hy; cases hy
        · obtain ⟨_, hkind⟩ := hkind
          split at hkind
          · rw [hkind.2.2.2.2.1] at hy; cases hy
          · rw [hkind.2.2.2] at hy; cases hy
          · exact absurd hkind id
        · rw [hkind.2.1] at hy; cases hy
        · obtain ⟨_, hkind⟩ := hkind
          rw [holds_iff] at hkind
          obtain ⟨r, _, _, _, _, hkind⟩ := hkind
          rw [holds_iff] at hkind
          obtain ⟨z, hz, hkind⟩ := hkind
          rw [he] at hkind
          obtain ⟨hejn, _⟩ : e.jn = some z ∧ e.sq = some s.seq := hkind
          rw [hy] at hz; cases hz
          have := hnxv n hn
          rw [m2, hejn] at this
          exact this
        · rw [hkind.2.1] at hy; cases hy
      · rcases hrt with ⟨h1, hne⟩ | ⟨_, h2⟩
        · rw [h1] at ht
          rcases hok.one.2 with h3 | h3 | h3
          · rw [h3] at ht; cases ht
          · exact absurd h3 hne
          · -- a compaction removes its inputs: the edit deletes them
            have hin := hok.inputs
            rw [he] at hin
            have hin : InputsOK s d j e := hin
            unfold InputsOK at hin
            rw [if_pos h3] at hin
            obtain ⟨_, _, hdel, hdlt, _⟩ := hin
            rw [← hdel] at ht
            rw [m1]
            intro hmem
            rcases mem_applyEdit.1 hmem with ⟨_, hnd, _⟩ | hadd
            · exact hnd ht
            · have hsh := hok.shape
              rw [he] at hsh
              rw [hsh.1] at hadd
              obtain ⟨o, ho, ho1⟩ := List.mem_map.1 hadd
              have := hdlt t ht o ho
              omega
        · rw [m1]; exact h2 t ht
    · intro hn; rw [he] at hn; cases hn
    · intro hkc
      rcases hrt with ⟨h1, _⟩ | ⟨hk, _⟩
      · exact h1
      · rcases hkc with hkc | hkc <;> rw [hkc] at hk <;> cases hk
    · intro hb'; exact (hnbc hb').elim
    · intro _
      have := hok.committed (by rw [hpc]; rfl)
      exact this

end GoLevel.Dur
