import GoLevel.Proofs.TableW
/-! Reader side of C13: what `NewReader` / `find` / iteration compute on a file of the written shape. -/
namespace GoLevel.C13
open GoLevel GoLevel.TableAux BlockWriter TableWriter

/-- the checksum function yields 32-bit values (it is a masked CRC-32) -/
def Cksum32 (cksum : Bytes → Nat) : Prop := ∀ bs, cksum bs < 2 ^ 32

theorem withTrailer_length (cksum : Bytes → Nat) (p : Bytes) : (withTrailer cksum p).length = p.length + 5 := by
  simp [withTrailer, le32, leN_length]

/-- reading back a block that sits in the file at its handle -/
theorem readRawBlock_at {cksum : Bytes → Nat} (hck : Cksum32 cksum) (A P B : Bytes) (verify : Bool) :
    readRawBlock cksum (A ++ (withTrailer cksum P ++ B)) ⟨A.length, P.length⟩ verify = some P := by
  unfold readRawBlock
  have hlen := withTrailer_length cksum P
  have h5 : Gen.blockTrailerLen = 5 := rfl
  simp only [h5, List.drop_left]
  rw [List.take_left' hlen]
  simp only [hlen, Nat.lt_irrefl, if_false]
  have hd1 : (withTrailer cksum P).drop (P.length + 1) = le32 (cksum (P ++ [blockTypeByte])) ++ [] := by
    simp only [withTrailer, List.append_nil]
    rw [List.drop_left' (by simp)]
  have ht1 : (withTrailer cksum P).take (P.length + 1) = P ++ [blockTypeByte] := by
    simp only [withTrailer]
    rw [List.take_left' (by simp)]
  have hd0 : (withTrailer cksum P).drop P.length = blockTypeByte :: le32 (cksum (P ++ [blockTypeByte])) := by
    simp only [withTrailer, List.append_assoc]
    rw [List.drop_left]; rfl
  rw [hd1, ht1, hd0, rd32_le32 _ (hck _)]
  simp
  simp only [withTrailer, List.append_assoc]
  rw [List.take_left' rfl]

theorem BH.decode_encode (h : BH) (rest : Bytes) (ho : h.offset < 2 ^ 64) (hl : h.length < 2 ^ 64) :
    BH.decode (h.encode ++ rest) = some (h, h.encode.length) := by
  unfold BH.decode BH.encode
  rw [List.append_assoc, readUvarint_uvarint _ ho]
  simp only [List.drop_left]
  rw [readUvarint_uvarint _ hl]
  simp

theorem BH.encode_length_le (h : BH) (ho : h.offset < 2 ^ 32) (hl : h.length < 2 ^ 32) : h.encode.length ≤ 10 := by
  have := uvarint_length_le5 _ ho
  have := uvarint_length_le5 _ hl
  simp [BH.encode]; omega

theorem footer_length (m i : BH) (hm : m.encode.length ≤ 10) (hi : i.encode.length ≤ 10) :
    (footer m i).length = 48 := by
  have h8 : Gen.tableMagic.length = 8 := rfl
  have h48 : Gen.footerLen = 48 := rfl
  simp only [footer, List.length_append, List.length_replicate, h8, h48]
  omega

theorem encEntry_length_ge (k v : Bytes) : k.length + v.length ≤ (encEntry 0 k v).length := by
  simp [encEntry]; omega

theorem smallKV_of_enc1 (l : List KV) : ∀ n prev, (encFrom 1 n prev l).length < 2 ^ 64 → SmallKV l := by
  induction l with
  | nil => intro n prev _ kv hkv; simp at hkv
  | cons a t ih =>
    intro n prev h kv hkv
    obtain ⟨k, v⟩ := a
    have hsh : nSharedAt 1 n prev k = 0 := by simp [nSharedAt, Nat.mod_one]
    simp only [encFrom, hsh, List.length_append] at h
    have := encEntry_length_ge k v
    rcases List.mem_cons.mp hkv with rfl | hm
    · exact ⟨by simp only; omega, by simp only; omega⟩
    · exact ih (n + 1) k (by omega) kv hm

def metaB (cfg : TableCfg) (cs : List (List KV)) (fb : Option Bytes) : Bytes :=
  Block.build cfg.restartInterval (metaKVs cfg (dataBytes cfg cs).length fb)

def ixB (cfg : TableCfg) (cs : List (List KV)) : Bytes := Block.build 1 (ixE cfg 0 cs [])

def metaBHOf (cfg : TableCfg) (cs : List (List KV)) (fb : Option Bytes) : BH :=
  ⟨(dataBytes cfg cs ++ filterSection cfg fb).length, (metaB cfg cs fb).length⟩

def indexBHOf (cfg : TableCfg) (cs : List (List KV)) (fb : Option Bytes) : BH :=
  ⟨(dataBytes cfg cs ++ filterSection cfg fb ++ withTrailer cfg.cksum (metaB cfg cs fb)).length, (ixB cfg cs).length⟩

theorem tableFile_eq (cfg : TableCfg) (cs : List (List KV)) (fb : Option Bytes) :
    tableFile cfg cs fb = dataBytes cfg cs ++ filterSection cfg fb ++ withTrailer cfg.cksum (metaB cfg cs fb) ++
      withTrailer cfg.cksum (ixB cfg cs) ++ footer (metaBHOf cfg cs fb) (indexBHOf cfg cs fb) := rfl

theorem tableFile_length (cfg : TableCfg) (cs : List (List KV)) (fb : Option Bytes)
    (hm : (metaBHOf cfg cs fb).encode.length ≤ 10) (hi : (indexBHOf cfg cs fb).encode.length ≤ 10) :
    (tableFile cfg cs fb).length = (dataBytes cfg cs).length + (filterSection cfg fb).length +
      ((metaB cfg cs fb).length + 5) + ((ixB cfg cs).length + 5) + 48 := by
  rw [tableFile_eq]
  simp only [List.length_append, withTrailer_length, footer_length _ _ hm hi]

/-- size facts that follow from `file.length < 2^32` -/
structure Sizes (cfg : TableCfg) (cs : List (List KV)) (fb : Option Bytes) : Prop where
  file : (tableFile cfg cs fb).length < 2 ^ 32
  mOff : (metaBHOf cfg cs fb).offset < 2 ^ 32
  mLen : (metaBHOf cfg cs fb).length < 2 ^ 32
  iOff : (indexBHOf cfg cs fb).offset < 2 ^ 32
  iLen : (indexBHOf cfg cs fb).length < 2 ^ 32
  foot : (footer (metaBHOf cfg cs fb) (indexBHOf cfg cs fb)).length = 48

theorem sizes_of (cfg : TableCfg) (cs : List (List KV)) (fb : Option Bytes)
    (h : (tableFile cfg cs fb).length < 2 ^ 32) : Sizes cfg cs fb := by
  have hl : (tableFile cfg cs fb).length = (dataBytes cfg cs).length + (filterSection cfg fb).length +
      ((metaB cfg cs fb).length + 5) + ((ixB cfg cs).length + 5) +
      (footer (metaBHOf cfg cs fb) (indexBHOf cfg cs fb)).length := by
    rw [tableFile_eq]
    simp only [List.length_append, withTrailer_length]
  have h1 : (metaBHOf cfg cs fb).offset < 2 ^ 32 := by
    simp only [metaBHOf, List.length_append]; omega
  have h2 : (metaBHOf cfg cs fb).length < 2 ^ 32 := by
    simp only [metaBHOf]; omega
  have h3 : (indexBHOf cfg cs fb).offset < 2 ^ 32 := by
    simp only [indexBHOf, List.length_append, withTrailer_length]; omega
  have h4 : (indexBHOf cfg cs fb).length < 2 ^ 32 := by
    simp only [indexBHOf]; omega
  exact ⟨h, h1, h2, h3, h4, footer_length _ _ (BH.encode_length_le _ h1 h2) (BH.encode_length_le _ h3 h4)⟩

theorem isPrefixOf'_append (a b : Bytes) : isPrefixOf' a (a ++ b) = true := by
  induction a with
  | nil => cases b <;> rfl
  | cons x t ih => simp [isPrefixOf', ih]

theorem readBlock_at {cksum : Bytes → Nat} (hck : Cksum32 cksum) (A B : Bytes) (ri : Nat) (kvs : List KV)
    (verify : Bool) (hsz : (Block.build ri kvs).length < 2 ^ 32) :
    readBlock cksum (A ++ (withTrailer cksum (Block.build ri kvs) ++ B)) ⟨A.length, (Block.build ri kvs).length⟩ verify
      = some (layoutR (enc ri kvs) (restartsOf ri kvs)) := by
  unfold readBlock
  rw [readRawBlock_at hck]
  simp only
  rw [read_build ri kvs hsz]
  congr 2
  rw [build_eq]

/-- the metaindex loop of `NewReader` on a written metaindex block -/
theorem metaLoop_written (cfg : TableCfg) (dl : Nat) (fb : Option Bytes) (hfb : fb.isSome = cfg.filter.isSome)
    (hdl : dl < 2 ^ 64) (hbl : ∀ b, fb = some b → b.length < 2 ^ 64)
    (hname : ∀ pol, cfg.filter = some pol → (filterMetaKey pol).length < 2 ^ 64) (tail : Bytes) :
    metaLoop cfg.filter ((enc cfg.restartInterval (metaKVs cfg dl fb)).length + 1)
      (enc cfg.restartInterval (metaKVs cfg dl fb) ++ tail) (enc cfg.restartInterval (metaKVs cfg dl fb)).length [] none
      = (cfg.filter, fb.map fun b => ⟨dl, b.length⟩) := by
  cases hf : cfg.filter with
  | none =>
    have : fb = none := by
      cases fb with
      | none => rfl
      | some b => simp [hf] at hfb
    subst this
    simp [metaKVs, hf, enc, encFrom, metaLoop, Block.step]
  | some pol =>
    obtain ⟨b, rfl⟩ : ∃ b, fb = some b := by
      cases fb with
      | none => simp [hf] at hfb
      | some b => exact ⟨b, rfl⟩
    have hk := hname pol hf
    have hb := hbl b rfl
    have hv : (BH.encode ⟨dl, b.length⟩).length < 2 ^ 64 := by
      have := uvarint_length_le 9 dl (by have : (2:Nat)^64 ≤ 128^10 := by decide
                                         omega)
      have := uvarint_length_le 9 b.length (by have : (2:Nat)^64 ≤ 128^10 := by decide
                                               omega)
      simp [BH.encode]; omega
    simp only [metaKVs, hf, enc]
    rw [metaLoop, step_encFrom cfg.restartInterval 0 [] [] _ _ [] tail hk hv (by simp)]
    simp only [filterMetaKey, isPrefixOf'_append, if_true, List.drop_left]
    have := BH.decode_encode ⟨dl, b.length⟩ [] hdl hb
    rw [List.append_nil] at this
    rw [this]
    simp

/-- the written file with the raw bytes `M` in the place of the metaindex block (payload ‖ type ‖ checksum) -/
def tableFileM (cfg : TableCfg) (cs : List (List KV)) (fb : Option Bytes) (M : Bytes) : Bytes :=
  dataBytes cfg cs ++ filterSection cfg fb ++ M ++ withTrailer cfg.cksum (ixB cfg cs) ++
    footer (metaBHOf cfg cs fb) (indexBHOf cfg cs fb)

theorem tableFile_eqM (cfg : TableCfg) (cs : List (List KV)) (fb : Option Bytes) :
    tableFile cfg cs fb = tableFileM cfg cs fb (withTrailer cfg.cksum (metaB cfg cs fb)) := rfl

theorem tableFileM_length (cfg : TableCfg) (cs : List (List KV)) (fb : Option Bytes) (M : Bytes)
    (hM : M.length = (metaB cfg cs fb).length + 5) :
    (tableFileM cfg cs fb M).length = (tableFile cfg cs fb).length := by
  rw [tableFile_eqM]
  simp only [tableFileM, List.length_append, withTrailer_length, hM]

theorem decodeGo_true (src : Bytes) :
    BH.decodeGo true src = match BH.decode src with
      | some (bh, n) => .ok bh n
      | none => .bad := by
  unfold BH.decodeGo BH.decode
  cases readUvarint src with
  | none => simp
  | some p =>
    obtain ⟨off, n⟩ := p
    simp only
    cases readUvarint (src.drop n) with
    | none => simp
    | some q => rfl

/-- the footer part and the index read of `NewReader` on a written file whose metaindex block region holds `M` -/
theorem open_facts (cfg : TableCfg) (hck : Cksum32 cfg.cksum) (cs : List (List KV)) (fb : Option Bytes) (M : Bytes)
    (hM : M.length = (metaB cfg cs fb).length + 5) (hsz : (tableFile cfg cs fb).length < 2 ^ 32) :
    Table.footerHandlesX .repaired (tableFileM cfg cs fb M) = .ok (metaBHOf cfg cs fb, indexBHOf cfg cs fb) ∧
    (metaBHOf cfg cs fb).inFile ((tableFileM cfg cs fb M).length - Gen.footerLen) = true ∧
    (indexBHOf cfg cs fb).inFile ((tableFileM cfg cs fb M).length - Gen.footerLen) = true ∧
    readBlock cfg.cksum (tableFileM cfg cs fb M) (indexBHOf cfg cs fb) true =
      some (layoutR (enc 1 (ixE cfg 0 cs [])) (restartsOf 1 (ixE cfg 0 cs []))) := by
  have S := sizes_of cfg cs fb hsz
  have h48 : Gen.footerLen = 48 := rfl
  have h8 : Gen.tableMagic.length = 8 := rfl
  have hlen : (tableFileM cfg cs fb M).length = (dataBytes cfg cs ++ filterSection cfg fb ++
      M ++ withTrailer cfg.cksum (ixB cfg cs)).length + 48 := by
    simp only [tableFileM]
    rw [List.length_append, S.foot]
  have hfoot : (tableFileM cfg cs fb M).drop ((tableFileM cfg cs fb M).length - 48) =
      footer (metaBHOf cfg cs fb) (indexBHOf cfg cs fb) := by
    rw [hlen]
    simp only [tableFileM]
    rw [List.drop_left' (by omega)]
  have hmagic : (footer (metaBHOf cfg cs fb) (indexBHOf cfg cs fb)).drop (48 - 8) = Gen.tableMagic := by
    have hm10 := BH.encode_length_le _ S.mOff S.mLen
    have hi10 := BH.encode_length_le _ S.iOff S.iLen
    simp only [footer, h48, h8]
    rw [List.drop_left' (by simp; omega)]
  have hdm : BH.decode (footer (metaBHOf cfg cs fb) (indexBHOf cfg cs fb)) =
      some (metaBHOf cfg cs fb, (metaBHOf cfg cs fb).encode.length) := by
    simp only [footer, List.append_assoc]
    exact BH.decode_encode _ _ (by have := S.mOff; omega) (by have := S.mLen; omega)
  have hdi : BH.decode ((footer (metaBHOf cfg cs fb) (indexBHOf cfg cs fb)).drop (metaBHOf cfg cs fb).encode.length) =
      some (indexBHOf cfg cs fb, (indexBHOf cfg cs fb).encode.length) := by
    simp only [footer, List.append_assoc, List.drop_left]
    exact BH.decode_encode _ _ (by have := S.iOff; omega) (by have := S.iLen; omega)
  have hri : readBlock cfg.cksum (tableFileM cfg cs fb M) (indexBHOf cfg cs fb) true =
      some (layoutR (enc 1 (ixE cfg 0 cs [])) (restartsOf 1 (ixE cfg 0 cs []))) := by
    have e : tableFileM cfg cs fb M = (dataBytes cfg cs ++ filterSection cfg fb ++ M) ++
          (withTrailer cfg.cksum (ixB cfg cs) ++ footer (metaBHOf cfg cs fb) (indexBHOf cfg cs fb)) := by
      simp only [tableFileM, List.append_assoc]
    have hA : (indexBHOf cfg cs fb) = ⟨(dataBytes cfg cs ++ filterSection cfg fb ++ M).length, (ixB cfg cs).length⟩ := by
      simp only [indexBHOf, List.length_append, withTrailer_length, hM]
    rw [e, hA]
    exact readBlock_at hck (dataBytes cfg cs ++ filterSection cfg fb ++ M) _ _ _ true S.iLen
  have hge : ¬ ((tableFileM cfg cs fb M).length < 48) := by omega
  refine ⟨?_, ?_, ?_, hri⟩
  · unfold Table.footerHandlesX
    simp only [h48, h8, hge, if_false, hfoot, hmagic, ne_eq, not_true_eq_false, ReaderFix.repaired, decodeGo_true, hdm, hdi]
  · have h1 := S.mOff
    simp only [BH.inFile, h48, hlen, metaBHOf, List.length_append, withTrailer_length, hM, Bool.and_eq_true, decide_eq_true_eq]
    omega
  · simp only [BH.inFile, h48, hlen, indexBHOf, List.length_append, withTrailer_length, hM, Bool.and_eq_true, decide_eq_true_eq]
    omega

/-- what `NewReader` makes of a written file -/
theorem open_shape (cfg : TableCfg) (hck : Cksum32 cfg.cksum) (cs : List (List KV)) (fb : Option Bytes)
    (hfb : fb.isSome = cfg.filter.isSome) (hsz : (tableFile cfg cs fb).length < 2 ^ 32)
    (hname : ∀ pol, cfg.filter = some pol → (filterMetaKey pol).length < 2 ^ 64) (v : Bool) :
    ∃ t, Table.open cfg v (tableFile cfg cs fb) = some t ∧ t.cmp = cfg.cmp ∧ t.cksum = cfg.cksum ∧
      t.verify = v ∧ t.file = tableFile cfg cs fb ∧
      t.index = layoutR (enc 1 (ixE cfg 0 cs [])) (restartsOf 1 (ixE cfg 0 cs [])) ∧
      t.dataEnd = (dataBytes cfg cs).length ∧
      t.filter = (match cfg.filter, fb with
        | some pol, some b =>
          (readFilterBlock cfg.cksum (tableFile cfg cs fb) ⟨(dataBytes cfg cs).length, b.length⟩).map fun r => (pol, r)
        | _, _ => none) := by
  have S := sizes_of cfg cs fb hsz
  obtain ⟨hfh, hinM, hinI, hri⟩ := open_facts cfg hck cs fb (withTrailer cfg.cksum (metaB cfg cs fb))
    (withTrailer_length _ _) hsz
  rw [← tableFile_eqM] at hfh hinM hinI hri
  have hrm : readBlock cfg.cksum (tableFile cfg cs fb) (metaBHOf cfg cs fb) true =
      some (layoutR (enc cfg.restartInterval (metaKVs cfg (dataBytes cfg cs).length fb))
        (restartsOf cfg.restartInterval (metaKVs cfg (dataBytes cfg cs).length fb))) := by
    have e : tableFile cfg cs fb = (dataBytes cfg cs ++ filterSection cfg fb) ++
        (withTrailer cfg.cksum (metaB cfg cs fb) ++
          (withTrailer cfg.cksum (ixB cfg cs) ++ footer (metaBHOf cfg cs fb) (indexBHOf cfg cs fb))) := by
      rw [tableFile_eq]; simp only [List.append_assoc]
    rw [e]
    exact readBlock_at hck (dataBytes cfg cs ++ filterSection cfg fb) _ _ _ true S.mLen
  have hdl : (dataBytes cfg cs).length < 2 ^ 64 := by
    have := S.mOff; simp only [metaBHOf, List.length_append] at this; omega
  have hbl : ∀ b, fb = some b → b.length < 2 ^ 64 := by
    intro b hb
    have := S.mOff
    simp only [metaBHOf, List.length_append, hb, filterSection, withTrailer_length] at this
    omega
  have hml := metaLoop_written cfg (dataBytes cfg cs).length fb hfb hdl hbl hname
  unfold Table.open Table.openE Table.openX
  rw [hfh]
  simp only [Table.openBody, hinM, hinI, ReaderFix.repaired, readBlockX, if_true, hrm, hri, Bool.and_self, Bool.not_true,
    Bool.and_false, Bool.false_eq_true, if_false]
  simp only [layoutR, hml]
  cases hf : cfg.filter with
  | none =>
    have : fb = none := by
      cases fb with
      | none => rfl
      | some b => simp [hf] at hfb
    subst this
    refine ⟨_, rfl, rfl, rfl, rfl, rfl, rfl, ?_, rfl⟩
    simp [metaBHOf, filterSection]
  | some pol =>
    obtain ⟨b, rfl⟩ : ∃ b, fb = some b := by
      cases fb with
      | none => simp [hf] at hfb
      | some b => exact ⟨b, rfl⟩
    refine ⟨_, rfl, rfl, rfl, rfl, rfl, rfl, rfl, ?_⟩
    simp only [Option.map_some, Option.getD_some]
    cases readFilterBlock cfg.cksum (tableFile cfg cs (some b)) ⟨(dataBytes cfg cs).length, b.length⟩ <;> rfl

theorem entries_layout (ri : Nat) (c : List KV) (hs : SmallKV c) :
    (layoutR (enc ri c) (restartsOf ri c)).entries = some c := by
  unfold BlockR.entries layoutR
  exact scan_encFrom ri c _ 0 [] [] _ hs (by have := encFrom_length_ge ri c 0 []; simp [enc]; omega) (by simp)

theorem dataBytes_cons (cfg : TableCfg) (c : List KV) (rest : List (List KV)) :
    dataBytes cfg (c :: rest) = blockBytes cfg c ++ dataBytes cfg rest := by
  simp [dataBytes]

/-- reading the data block behind an index entry of a written table -/
theorem dataBlock_at (t : TableR) (cfg : TableCfg) (hck : Cksum32 cfg.cksum) (hc : t.cksum = cfg.cksum)
    (pre post : Bytes) (c : List KV) (hf : t.file = pre ++ (blockBytes cfg c ++ post))
    (hsz : t.file.length < 2 ^ 32) :
    t.dataBlock ⟨pre.length, (Block.build cfg.restartInterval c).length⟩ =
      some (layoutR (enc cfg.restartInterval c) (restartsOf cfg.restartInterval c)) := by
  unfold TableR.dataBlock
  rw [hc, hf]
  have : (Block.build cfg.restartInterval c).length < 2 ^ 32 := by
    rw [hf] at hsz
    simp only [List.length_append, blockBytes, withTrailer_length] at hsz
    omega
  exact readBlock_at hck pre post _ c t.verify this

theorem BH.decode_encode' (h : BH) (ho : h.offset < 2 ^ 64) (hl : h.length < 2 ^ 64) :
    BH.decode h.encode = some (h, h.encode.length) := by
  have := BH.decode_encode h [] ho hl
  rwa [List.append_nil] at this

/-- following all index entries of a written table yields the chunks -/
theorem blocksOf_ixE (t : TableR) (cfg : TableCfg) (hck : Cksum32 cfg.cksum) (hc : t.cksum = cfg.cksum)
    (hsz : t.file.length < 2 ^ 32) (tl : List KV) :
    ∀ (cs : List (List KV)) (pre post : Bytes), t.file = pre ++ (dataBytes cfg cs ++ post) →
      (∀ c ∈ cs, SmallKV c) → t.blocksOf (ixE cfg pre.length cs tl) = some cs := by
  intro cs
  induction cs with
  | nil => intro pre post _ _; rfl
  | cons c rest ih =>
    intro pre post hf hs
    rw [dataBytes_cons, List.append_assoc] at hf
    have hpl : pre.length + (blockBytes cfg c).length ≤ t.file.length := by
      rw [hf]; simp only [List.length_append]; omega
    have hbl : (Block.build cfg.restartInterval c).length ≤ (blockBytes cfg c).length := by
      simp [blockBytes, withTrailer_length]
    simp only [ixE, TableR.blocksOf]
    rw [BH.decode_encode' _ (by simp only; omega) (by simp only; omega)]
    simp only
    rw [dataBlock_at t cfg hck hc pre _ c hf hsz]
    simp only
    rw [entries_layout _ c (hs c (List.mem_cons_self ..))]
    have := ih (pre ++ blockBytes cfg c) post (by rw [hf]; simp only [List.append_assoc])
      (fun x hx => hs x (List.mem_cons_of_mem _ hx))
    rw [List.length_append] at this
    rw [this]

theorem smallKV_ix' (cfg : TableCfg) (cs : List (List KV)) (h2 : (ixB cfg cs).length < 2 ^ 32) :
    SmallKV (ixE cfg 0 cs []) := by
  have h1 := build_length 1 (ixE cfg 0 cs [])
  exact smallKV_of_enc1 _ 0 [] (by simp only [ixB] at h2; simp only [enc] at h1; omega)

theorem smallKV_ix (cfg : TableCfg) (cs : List (List KV)) (fb : Option Bytes)
    (hsz : (tableFile cfg cs fb).length < 2 ^ 32) : SmallKV (ixE cfg 0 cs []) :=
  smallKV_ix' cfg cs (sizes_of cfg cs fb hsz).iLen

theorem tableFile_data_prefix (cfg : TableCfg) (cs : List (List KV)) (fb : Option Bytes) :
    ∃ post, tableFile cfg cs fb = [] ++ (dataBytes cfg cs ++ post) :=
  ⟨filterSection cfg fb ++ (withTrailer cfg.cksum (metaB cfg cs fb) ++
      (withTrailer cfg.cksum (ixB cfg cs) ++ footer (metaBHOf cfg cs fb) (indexBHOf cfg cs fb))),
    by rw [tableFile_eq]; simp only [List.append_assoc, List.nil_append]⟩

/-- C13(c) on the shape level -/
theorem entries_written (cfg : TableCfg) (hck : Cksum32 cfg.cksum) (cs : List (List KV)) (fb : Option Bytes)
    (hfb : fb.isSome = cfg.filter.isSome) (hsz : (tableFile cfg cs fb).length < 2 ^ 32)
    (hname : ∀ pol, cfg.filter = some pol → (filterMetaKey pol).length < 2 ^ 64) (v : Bool)
    (hs : ∀ c ∈ cs, SmallKV c) :
    ∃ t, Table.open cfg v (tableFile cfg cs fb) = some t ∧ t.entries = some cs.flatten := by
  obtain ⟨t, ho, _, hc, _, hfile, hidx, _, _⟩ := open_shape cfg hck cs fb hfb hsz hname v
  refine ⟨t, ho, ?_⟩
  unfold TableR.entries
  rw [hidx, entries_layout 1 _ (smallKV_ix cfg cs fb hsz)]
  simp only
  obtain ⟨post, hpost⟩ := tableFile_data_prefix cfg cs fb
  have := blocksOf_ixE t cfg hck hc (by rw [hfile]; exact hsz) [] cs [] post (by rw [hfile]; exact hpost) hs
  simp only [List.length_nil] at this
  rw [this]
  rfl

end GoLevel.C13
