import GoLevel.Proofs.CacheTableOps
/-! Hash table of the cache (C17), part 5: `Cache.getBucket`, the resize, and what `mBucket.get` /
`mBucket.delete` do to the set of nodes. -/
namespace GoLevel.CacheT

/-- Well-formed table: well-formed chain, the current head has no frozen bucket (only a successor freezes
buckets), no panic so far. -/
structure TWF (hashfn : Nat → Nat → Nat) (t : Table) : Prop where
  chain : WFChain hashfn t.heads
  nf : ∀ h ps, t.heads = h :: ps → ∀ i, (h.bucket i).state ≠ .frozen
  bug : t.bug = false

/-- Node `x` is in the table. -/
def Mem (t : Table) (x : TNode) : Prop := MemC t.heads x

theorem vnodes_init {h : Head} {ps : List Head} {i : Nat} (hi : i < h.buckets.length)
    (hst : (h.bucket i).state ≠ .uninit) : vnodes (h :: ps) i = (h.bucket i).nodes := by
  unfold vnodes; rw [if_neg (by omega), if_pos hst]

/-- `Cache.getBucket(hash)`: the bucket `hash mod len` of the current head is initialised afterwards; nothing else
is visible. -/
theorem getBucket_ok {hashfn : Nat → Nat → Nat} {t : Table} (hwf : TWF hashfn t) {h : Head} {ps : List Head}
    (hh : t.heads = h :: ps) (hash : Nat) :
    (getBucket t hash).2 = hash % h.buckets.length ∧ TWF hashfn (getBucket t hash).1 ∧
    (∀ x, Mem (getBucket t hash).1 x ↔ Mem t x) ∧
    (getBucket t hash).1.statNodes = t.statNodes ∧ (getBucket t hash).1.nextId = t.nextId ∧
    ∃ h1 ps1, (getBucket t hash).1.heads = h1 :: ps1 ∧ h1.buckets.length = h.buckets.length ∧
      (h1.bucket (hash % h.buckets.length)).state = .init := by
  have hw := hwf.chain
  rw [hh] at hw
  have hpos := hw.headOK.pos
  have hi : hash % h.buckets.length < h.buckets.length := Nat.mod_lt _ hpos
  obtain ⟨ps', h1, hw1, he1, hs1, hn1, hl1⟩ := initBucket_ok hw hi
  have hlen : (initHead h (h :: ps) (hash % h.buckets.length)).buckets.length = h.buckets.length := by
    unfold initHead; split <;> simp
  have hnf1 : ∀ j, ((initHead h (h :: ps) (hash % h.buckets.length)).bucket j).state ≠ .frozen := by
    intro j
    rw [initHead_bucket hi]; split
    · simp
    · exact hwf.nf h ps hh j
  have hg : getBucket t hash =
      ({ t with bug := t.bug || false, heads := initHead h (h :: ps) (hash % h.buckets.length) :: ps' },
        hash % h.buckets.length) := by
    unfold getBucket
    rw [hh]
    simp only [land_mask hw.headOK, h1]
  rw [hg]
  refine ⟨rfl, ⟨hw1, ?_, by simp [hwf.bug]⟩, fun x => ?_, rfl, rfl, _, _, rfl, hlen, ?_⟩
  · intro h2 ps2 heq j
    simp only [List.cons.injEq] at heq
    rw [← heq.1]; exact hnf1 j
  · unfold Mem; simp only []; rw [hh]; exact memC_equiv he1 x
  · have h2 := hnf1 (hash % h.buckets.length)
    cases hst : ((initHead h (h :: ps) (hash % h.buckets.length)).bucket (hash % h.buckets.length)).state with
    | init => rfl
    | uninit => exact absurd hst hs1
    | frozen => exact absurd hst h2

/-- The current head after `mBucket.get`/`mBucket.delete` rewrote bucket `i` (whatever happened to its counters). -/
theorem upd_chain_ok {hashfn : Nat → Nat → Nat} {h h' : Head} {ps : List Head} {i : Nat} {b' : Bucket}
    (hw : WFChain hashfn (h :: ps)) (hnf : ∀ j, (h.bucket j).state ≠ .frozen) (hi : i < h.buckets.length)
    (hst : (h.bucket i).state = .init) (hm : h'.mask = h.mask) (hb : h'.buckets = h.buckets.set i b')
    (hst' : b'.state = .init) (hok : BucketOK hashfn h.buckets.length i b'.nodes) :
    WFChain hashfn (h' :: ps) ∧ (∀ j, (h'.bucket j).state ≠ .frozen) ∧ h'.buckets.length = h.buckets.length ∧
    ∀ x, MemC (h' :: ps) x ↔ (x ∈ b'.nodes ∨ (MemC (h :: ps) x ∧ x.hash % h.buckets.length ≠ i)) := by
  obtain ⟨hw', hl, hv⟩ := update_ok hw hi hm hb (by rw [hst]; simp) hst' hok
  refine ⟨hw', fun j => ?_, hl, fun x => ?_⟩
  · rw [bucket_of_set hb hi]; split
    · rw [hst']; simp
    · exact hnf j
  · rw [memC_cons, memC_cons, hl]
    constructor
    · rintro ⟨j, hj, hx⟩
      rw [hv j] at hx
      by_cases hji : j = i
      · rw [if_pos hji] at hx; exact Or.inl hx
      · rw [if_neg hji] at hx
        have := memC_bucket hw hj hx
        exact Or.inr ⟨⟨j, hj, hx⟩, by rw [this.2]; exact hji⟩
    · rintro (hx | ⟨⟨j, hj, hx⟩, hne⟩)
      · exact ⟨i, hi, by rw [hv i, if_pos rfl]; exact hx⟩
      · have := memC_bucket hw hj hx
        have hji : j ≠ i := by rw [← this.2]; exact hne
        exact ⟨j, hj, by rw [hv j, if_neg hji]; exact hx⟩

/-- The resize at the end of `mBucket.get` / `mBucket.delete`. -/
theorem resize_ok {hashfn : Nat → Nat → Nat} {t : Table} {h : Head} {ps : List Head} {n : Nat} {g : Bool}
    (hw : WFChain hashfn (h :: ps)) (hnf : ∀ j, (h.bucket j).state ≠ .frozen) (hb : t.bug = false)
    (hn : n = 2 * h.buckets.length ∨ h.buckets.length = 2 * n) :
    TWF hashfn (resize t h ps n g) ∧ (∀ x, Mem (resize t h ps n g) x ↔ MemC (h :: ps) x) ∧
    (resize t h ps n g).statNodes = t.statNodes ∧ (resize t h ps n g).nextId = t.nextId := by
  unfold resize
  by_cases hr : h.resizeInProgress = true
  · rw [if_pos hr]
    refine ⟨⟨hw, ?_, hb⟩, fun x => Iff.rfl, rfl, rfl⟩
    intro h2 ps2 heq j
    simp only [List.cons.injEq] at heq
    rw [← heq.1]; exact hnf j
  · rw [if_neg hr]
    have hw2 : WFChain hashfn ({ h with resizeInProgress := true } :: ps) :=
      wf_head hw rfl rfl (fun j hj hst => hw.2.1 j hj hst) (fun j hj => hj)
    have he2 : Equiv ({ h with resizeInProgress := true } :: ps) (h :: ps) :=
      equiv_head rfl rfl (fun j => ⟨Iff.rfl, fun _ => rfl⟩)
    obtain ⟨hw3, hm3⟩ := push_ok hw2 (n := n) hn
    refine ⟨⟨hw3, ?_, hb⟩, fun x => ?_, rfl, rfl⟩
    · intro h2 ps2 heq j
      simp only [List.cons.injEq] at heq
      rw [← heq.1, newHead_bucket]; simp
    · unfold Mem; simp only []
      rw [hm3 x]; exact memC_equiv he2 x

theorem hit_some_iff {x : List TNode} (hs : Sorted x) (ns key : Nat) (n : TNode) :
    hit x (search x ns key) ns key = some n ↔ (n ∈ x ∧ keyEq ns key n = true) := by
  rw [← search_hit_iff hs]
  unfold hit keyEq
  cases hx : x[search x ns key]? with
  | none => simp
  | some m =>
    simp only [Option.some.injEq]
    by_cases hk : (m.ns == ns && m.key == key) = true
    · rw [if_pos hk]
      constructor
      · intro h; have := Option.some.inj h; subst this; exact ⟨rfl, hk⟩
      · intro h; rw [h.1]
    · rw [if_neg hk]
      constructor
      · intro h; cases h
      · intro h; rw [h.1] at hk; exact absurd h.2 hk

theorem hit_none_iff {x : List TNode} (hs : Sorted x) (ns key : Nat) :
    hit x (search x ns key) ns key = none ↔ ∀ n ∈ x, keyEq ns key n = false := by
  constructor
  · intro h n hn
    cases hk : keyEq ns key n with
    | false => rfl
    | true => have := (hit_some_iff hs ns key n).mpr ⟨hn, hk⟩; rw [h] at this; cases this
  · intro h
    cases hh : hit x (search x ns key) ns key with
    | none => rfl
    | some n => have := (hit_some_iff hs ns key n).mp hh; rw [h n this.1] at this; cases this.2

/-- A node of the table with key (ns,key) is in bucket `hashfn ns key mod len`. -/
theorem mem_key_bucket {hashfn : Nat → Nat → Nat} {h : Head} {ps : List Head} (hw : WFChain hashfn (h :: ps))
    {ns key : Nat} {n : TNode} (hm : MemC (h :: ps) n) (hk : keyEq ns key n = true) :
    n ∈ vnodes (h :: ps) (hashfn ns key % h.buckets.length) := by
  obtain ⟨j, hj, hx⟩ := memC_cons.mp hm
  have := memC_bucket hw hj hx
  simp only [keyEq, Bool.and_eq_true, beq_iff_eq] at hk
  rw [← hk.1, ← hk.2, ← this.1, this.2]; exact hx

end GoLevel.CacheT
