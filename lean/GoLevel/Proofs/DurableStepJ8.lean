import GoLevel.Proofs.DurableStepJ7
/-!
Job steps, part 8: `rotRemove` and `install`.
-/
namespace GoLevel.Dur

theorem inv_rotRemove_core {cfg : Cfg} {s : St} {d : Disk} (h : Inv cfg s d) {j : Job}
    (hj : s.job = some j) {m : Nat} (hpc : j.pc = .rotRemove m) (ms : Files (LogFile MRec))
    (hms : ∀ c, d.current = some c → lookup ms c = lookup d.manifests c)
    (hnd : ms.Pairwise (fun p q => p.1 ≠ q.1)) :
    Inv cfg { s with manifestFd := some m, manifestOpen := true, job := some { j with pc := .install } }
      { d with manifests := ms } := by
  have hok := h.job
  rw [hj] at hok
  have hok : JobOK cfg s d j := hok
  obtain ⟨e, he⟩ := hok.edit_some (by rw [hpc]; rfl)
  have hl : s.limbo = none := h.limbo_none_of_post hj he (by rw [hpc]; rfl)
  -- the manifest clause
  have hman := hok.manifest
  unfold JobManifestOK at hman
  rw [he] at hman
  simp only [hpc, JobManifest] at hman
  obtain ⟨hc, hfdne, hman⟩ := hman
  have hcm : curManifest { d with manifests := ms } = curManifest d := curManifest_other hms
  have hph := h.not_crashed hj
  have hb := h.bounds hph
  let j' : Job := { j with pc := .install }
  have hup : ({ s with manifestFd := some m, manifestOpen := true, job := some j' } : St) =
      s.upd j' s.nextFile s.live s.stJn s.stSq (some m) true := rfl
  have hmfd' : MfdOK (s.upd j' s.nextFile s.live s.stJn s.stSq (some m) true) { d with manifests := ms } := by
    unfold MfdOK
    simp only [St.upd, Option.map_some]
    exact Or.inl hc.symm
  have hlv : lastView cfg { d with manifests := ms } = lastView cfg d := by unfold lastView; rw [hcm]
  obtain ⟨mf, v0, v, hparts, hlast, hvl, hvok, hmono⟩ := h.disk.last
  have hcl : Holds d.current (· < s.nextFile) := h.cur_lt hj
  rw [hup]
  constructor
  · exact h.disk.frame (d' := { d with manifests := ms }) hcm rfl (fun _ _ _ _ _ _ _ _ => rfl) h.disk.tnodup hnd
      (fun _ hx => hx) (fun _ hx => hx)
  · exact h.mm.of_same hcm rfl
  · intro _
    exact hb.of_same hcm (h.seqHi_step hj rfl rfl rfl rfl (fun hb' => nomatch hb')) (Nat.le_refl _)
      (fun hr => ⟨hr, Nat.le_refl _⟩)
  · intro hr
    have hrun := h.run hr
    apply RunOK.job_step (d' := { d with manifests := ms }) hrun j' s.nextFile s.live s.stJn s.stSq (some m) true
      (Nat.le_refl _) rfl ⟨hmfd', rfl⟩ hcl
      (hrun.hnc_post (j' := j') hok hj hr rfl rfl (fun _ => ⟨rfl, rfl⟩))
    · rw [hcm]
      exact holds_of_some hparts.cur (holds_of_some hparts.hv0 (holds_of_some hparts.cur
        (holds_of_some hparts.hv0 (Nat.le_refl _))))
    · exact LimboOK.of_none hl
  · intro hr
    have hrec := h.recov hr
    refine hrec.imp (fun r hrr => ?_)
    apply RecOK.job_step (d' := { d with manifests := ms }) hrr j' s.nextFile s.live s.stJn s.stSq (some m) true
      (Nat.le_refl _) rfl hmfd' hcl (fun hb' => by cases hb')
    · rw [hlv]
      exact holds_of_some hlast (holds_of_some hlast (Nat.le_refl _))
    · rw [hlv]
      exact hrr.rel.imp (fun v hv => hv.2)
  · intro hcr; exact absurd hcr hph
  · show JobOK cfg _ _ j'
    apply JobOK.late_next (d' := { d with manifests := ms }) hok (by rw [hpc]; exact ⟨(by intro x; cases x), rfl⟩) j'
      ⟨rfl, rfl, rfl, rfl, rfl⟩ ⟨(by intro x; cases x), rfl⟩ s.nextFile s.live s.stJn s.stSq (some m) true
      (Nat.le_refl _) rfl (fun _ => rfl) hok.one.2
    · unfold JobManifestOK
      show match j.edit with
        | some e => JobManifest cfg _ _ e .install
        | none => _
      rw [he]
      simp only [JobManifest]
      refine ⟨rfl, ?_⟩
      unfold Settled
      rw [hcm, hlv]
      refine hman.imp (fun mf1 hmf1 => ⟨fun _ _ => hmf1.1, hmf1.2⟩)
    · intro hb'; cases hb'
    · rw [hlv]
      exact hok.removals.imp (fun v _ => late_not_rm (j := j')
        ⟨(by intro l x; cases x), (by intro l x; cases x), (by intro l x; cases x)⟩)
    · intro hn; rw [he] at hn; cases hn
    · exact fun _ => rfl
    · exact fun _ => rfl
    · intro _
      have := hok.committed (by rw [hpc]; rfl)
      rw [hlv]
      exact this


theorem inv_job_rotRemove {cfg : Cfg} {s : St} {d : Disk} (h : Inv cfg s d) {j : Job}
    (hj : s.job = some j) {m : Nat} (hpc : j.pc = .rotRemove m) {rot : Bool}
    {s' : St} {d' : Disk} (hs : stepJob cfg s d j rot .ok = some (s', d')) : Inv cfg s' d' := by
  have hok := h.job
  rw [hj] at hok
  have hok : JobOK cfg s d j := hok
  obtain ⟨e, he⟩ := hok.edit_some (by rw [hpc]; rfl)
  have hman := hok.manifest
  unfold JobManifestOK at hman
  rw [he] at hman
  simp only [hpc, JobManifest] at hman
  obtain ⟨hc, hfdne, _⟩ := hman
  have hl : s.limbo = none := h.limbo_none_of_post hj he (by rw [hpc]; rfl)
  rw [stepJob_rotRemove hpc] at hs
  simp only [Option.some.injEq, Prod.mk.injEq] at hs
  obtain ⟨rfl, rfl⟩ := hs
  have hst : ({ s with manifestFd := some m, manifestOpen := true, manifestFailed := false, limbo := none,
                       job := some { j with pc := .install } } : St) =
      { ({ s with manifestFd := some m, manifestOpen := true, job := some { j with pc := .install } } : St) with
        manifestFailed := false } := by
    cases s
    simp only at hl
    simp only [hl]
  rw [hst]
  have hlb : ∀ b, ({ s with manifestFd := some m, manifestOpen := true, job := some { j with pc := .install } } : St).limbo.isSome = true → b = true := by
    intro b hx
    have : s.limbo.isSome = true := hx
    rw [hl] at this; cases this
  cases hf : s.manifestFd with
  | none =>
    simp only
    exact (inv_rotRemove_core h hj hpc d.manifests (fun _ _ => rfl) h.disk.mnodup).set_manifestFailed false (hlb _)
  | some old =>
    simp only
    refine (inv_rotRemove_core h hj hpc (d.manifests.erase old) ?_
      (pairwise_erase _ h.disk.mnodup)).set_manifestFailed false (hlb _)
    intro c hcc
    rw [hc] at hcc; cases hcc
    rw [lookup_erase, if_neg (fun ec => hfdne (by rw [hf, ec]))]


/-- the journals a job will remove lie below the journal number its edit sets -/
theorem Inv.rmJournals_lt {cfg : Cfg} {s : St} {d : Disk} (h : Inv cfg s d) {j : Job} (hj : s.job = some j)
    {e : MRec} (he : j.edit = some e) : ∀ n ∈ j.rmJournals, n < e.jn.getD 0 := by
  have hok := h.job
  rw [hj] at hok
  have hok : JobOK cfg s d j := hok
  have hkind := hok.kind
  unfold JobKindOK at hkind
  intro n hn
  rcases hok.kinds with hk | hk | hk | hk | hk <;> rw [hk] at hkind <;> simp only at hkind
  rotate_right 2
  · rw [hkind.2.2.1] at hn; cases hn
  · rw [hkind.2.2.1] at hn; cases hn
  · obtain ⟨hph, hkind⟩ := hkind
    have hrun := h.run hph
    rcases frozenOK_iff.1 hrun.frozen with ⟨h1, _⟩ | ⟨fz, jf, h1, h2, f1, _⟩
    · rw [h1] at hkind; simp at hkind
    rw [h1, h2, he] at hkind
    simp only at hkind
    obtain ⟨_, hejn, _, hrm, _⟩ := hkind
    rw [hrm] at hn
    simp only [List.mem_singleton] at hn
    subst hn
    rw [hejn]; exact f1
  · obtain ⟨hph, _, hkind⟩ := hkind
    have hrec := h.recov hph
    rw [holds_iff] at hrec hkind
    obtain ⟨r, hr, hrec⟩ := hrec
    obtain ⟨r', hr', hkind⟩ := hkind
    rw [hr] at hr'; cases hr'
    rw [holds_iff] at hkind
    obtain ⟨o, ho, hrm, _, hkind⟩ := hkind
    rw [holds_iff] at hkind
    obtain ⟨x, hx, hkind⟩ := hkind
    rw [he] at hkind
    obtain ⟨hejn, _⟩ : e.jn = some x ∧ e.sq = some s.seq := hkind
    rw [hrm] at hn
    simp only [List.mem_singleton] at hn
    subst hn
    rw [hejn]
    apply hrec.ofdLt n ho x
    cases ht : r.todo with
    | nil => rw [ht] at hx; cases hx
    | cons y ys => rw [ht] at hx; cases hx; exact List.mem_cons_self
  · obtain ⟨hph, hkind⟩ := hkind
    rw [holds_iff] at hkind
    obtain ⟨r, hr, _, ⟨_, hlt⟩, _, hkind⟩ := hkind
    rw [holds_iff] at hkind
    obtain ⟨x, hx, hkind⟩ := hkind
    rw [he] at hkind
    obtain ⟨hejn, _⟩ : e.jn = some x ∧ e.sq = some s.seq := hkind
    have := hlt n hn
    rw [hx] at this
    rw [hejn]; exact this

end GoLevel.Dur
