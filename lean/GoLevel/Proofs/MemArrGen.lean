import GoLevel.Proofs.MemArrIter
import GoLevel.Proofs.MemDBIterSim
/-! Iterator moves after a `Reset` (generation counter, repairs of D31/D32): on the ideal list with generations
(`MemDB.GIter`) and on the arrays — a positioned iterator of an older generation is exhausted in the direction of the
move, absolute moves re-position it on the new table (C14). -/
set_option linter.unusedSectionVars false
set_option linter.unusedSimpArgs false
set_option linter.unusedVariables false

namespace GoLevel.MemDB
variable {cmp : Cmp}

/-- the generation is consistent: a positioned iterator belongs to the current generation -/
def GIter.consistent (x : GIter) (g : Nat) : Prop := x.it.node.isSome → x.gen = g

theorem GIter.step_consistent (db : DB) (g : Nat) (c : Call Bytes) (x : GIter) (h : x.consistent g) :
    (GIter.step cmp db g c x).it = Iter.step cmp db c x.it ∧ (GIter.step cmp db g c x).consistent g := by
  cases c with
  | first => exact ⟨rfl, fun _ => rfl⟩
  | last => exact ⟨rfl, fun _ => rfl⟩
  | seek k => exact ⟨rfl, fun _ => rfl⟩
  | next =>
    simp only [GIter.step, Iter.step, Iter.next]
    cases hn : x.it.node with
    | none =>
      by_cases hf : x.it.forward = true
      · simp only [hf, Bool.not_true, Bool.false_eq_true, if_false]
        exact ⟨trivial, h⟩
      · have : x.it.forward = false := by simpa using hf
        simp only [this, Bool.not_false, if_true]
        exact ⟨trivial, fun _ => rfl⟩
    | some k =>
      have hg : x.gen = g := h (by simp [hn])
      simp only [hg, bne_self_eq_false, Bool.false_eq_true, if_false]
      refine ⟨?_, fun _ => rfl⟩
      simp [Iter.next, hn]
  | prev =>
    simp only [GIter.step, Iter.step, Iter.prev]
    cases hn : x.it.node with
    | none =>
      by_cases hf : x.it.forward = true
      · simp only [hf, if_true]
        exact ⟨trivial, fun _ => rfl⟩
      · have : x.it.forward = false := by simpa using hf
        simp only [this, Bool.false_eq_true, if_false]
        exact ⟨trivial, h⟩
    | some k =>
      have hg : x.gen = g := h (by simp [hn])
      simp only [hg, bne_self_eq_false, Bool.false_eq_true, if_false]
      refine ⟨?_, fun _ => rfl⟩
      simp [Iter.prev, hn]

/-- with a consistent generation the iterator with generations is the iterator without -/
theorem GIter.run_consistent (db : DB) (g : Nat) : ∀ (cs : List (Call Bytes)) (x : GIter), x.consistent g →
    GIter.run cmp db g x cs = Iter.run cmp db x.it cs := by
  intro cs
  induction cs with
  | nil => intro _ _; rfl
  | cons c cs ih =>
    intro x h
    obtain ⟨h1, h2⟩ := GIter.step_consistent (cmp := cmp) db g c x h
    simp only [GIter.run, Iter.run, h1, ih _ h2]

/-- the cursor-level reading of a move on an iterator that was positioned before the last `Reset`: `Next` leaves it
at the end, `Prev` at the start, the absolute moves do what they always do -/
def staleStep {α : Type} (xs : List α) (ge : Bytes → α → Bool) : Call Bytes → Pos
  | .next => .eoi
  | .prev => .soi
  | c => Cursor.step xs ge c .soi

section
variable (hc : LawfulCmp cmp)
include hc

/-- the ideal iterator with generations, positioned in an older generation -/
theorem GIter.run_stale {db : DB} (h : Inv cmp db) (g : Nat) (x : GIter) {k : Bytes} (hn : x.it.node = some k)
    (hg : x.gen ≠ g) (c : Call Bytes) (cs : List (Call Bytes)) :
    GIter.run cmp db g x (c :: cs) =
      let S := SMap.slice cmp x.it.start x.it.limit db.abs
      Cursor.get S (staleStep S (SMap.ge cmp) c) :: Cursor.run S (SMap.ge cmp) (staleStep S (SMap.ge cmp) c) cs := by
  obtain ⟨⟨st, lm, nd, fw⟩, xg⟩ := x
  simp only at hn hg
  subst hn
  have hgb : (xg != g) = true := by simpa using hg
  simp only [slice_abs]
  cases c with
  | next =>
    simp only [GIter.run, GIter.step, hgb, if_true, staleStep]
    rw [GIter.run_consistent (cmp := cmp) db g cs _ (fun _ => rfl)]
    rw [run_rel hc h st lm cs none true .eoi ⟨rfl, rfl⟩]
    simp [Iter.out, Cursor.get]
  | prev =>
    simp only [GIter.run, GIter.step, hgb, if_true, staleStep]
    rw [GIter.run_consistent (cmp := cmp) db g cs _ (fun _ => rfl)]
    rw [run_rel hc h st lm cs none false .soi ⟨rfl, rfl⟩]
    simp [Iter.out, Cursor.get]
  | first =>
    have e : GIter.run cmp db g ⟨Iter.mk st lm (some k) fw, xg⟩ (.first :: cs) =
        Iter.run cmp db (Iter.mk st lm none false) (.first :: cs) := by
      simp only [GIter.run, Iter.run, GIter.step, Iter.step]
      rw [GIter.run_consistent (cmp := cmp) db g cs _ (fun _ => rfl)]
      rfl
    rw [e, run_rel hc h st lm _ none false .soi ⟨rfl, rfl⟩]
    rfl
  | last =>
    have e : GIter.run cmp db g ⟨Iter.mk st lm (some k) fw, xg⟩ (.last :: cs) =
        Iter.run cmp db (Iter.mk st lm none false) (.last :: cs) := by
      simp only [GIter.run, Iter.run, GIter.step, Iter.step]
      rw [GIter.run_consistent (cmp := cmp) db g cs _ (fun _ => rfl)]
      rfl
    rw [e, run_rel hc h st lm _ none false .soi ⟨rfl, rfl⟩]
    rfl
  | seek key =>
    have e : GIter.run cmp db g ⟨Iter.mk st lm (some k) fw, xg⟩ (.seek key :: cs) =
        Iter.run cmp db (Iter.mk st lm none false) (.seek key :: cs) := by
      simp only [GIter.run, Iter.run, GIter.step, Iter.step]
      rw [GIter.run_consistent (cmp := cmp) db g cs _ (fun _ => rfl)]
      rfl
    rw [e, run_rel hc h st lm _ none false .soi ⟨rfl, rfl⟩]
    rfl

end
end GoLevel.MemDB

namespace GoLevel.MemArr
open GoLevel.MemDB (LawfulCmp SMap staleStep)

variable {cmp : Cmp} {a : DB} {d : MemDB.DB} {ix : Bytes → Nat}

section
variable (hc : LawfulCmp cmp) (r : Rep cmp a d ix)
include hc r

/-- an iterator that is not positioned (whatever its generation) behaves like the cursor at the start or at the end of
the current table -/
theorem iter_run_unpositioned (ai : Iter) (h0 : ai.node = 0) (cs : List (Call Bytes)) :
    Iter.run cmp a ai cs =
      some (Cursor.run (SMap.slice cmp ai.start ai.limit d.abs) (SMap.ge cmp)
        (if ai.forward then .eoi else .soi) cs) := by
  have hrep : IterRep a d ix ai (MemDB.Iter.mk ai.start ai.limit none ai.forward) :=
    ⟨rfl, rfl, rfl, by rw [h0]; rfl, fun k hk => absurd hk (by simp), fun hne => absurd h0 hne⟩
  rw [iter_run_sim hc r cs hrep, MemDB.slice_abs]
  congr 1
  cases hf : ai.forward with
  | true => exact MemDB.run_rel hc r.inv _ _ cs none true .eoi ⟨rfl, rfl⟩
  | false => exact MemDB.run_rel hc r.inv _ _ cs none false .soi ⟨rfl, rfl⟩

/-- an iterator positioned before the last `Reset` (its generation is older than the table's): `Next` and `Prev` find it
exhausted — at the end, resp. at the start, of the new table — and the absolute moves position it on the new table -/
theorem iter_run_stale (ai : Iter) (hne : ai.node ≠ 0) (hg : ai.gen ≠ a.gen) (c : Call Bytes)
    (cs : List (Call Bytes)) :
    Iter.run cmp a ai (c :: cs) =
      some (let S := SMap.slice cmp ai.start ai.limit d.abs
            Cursor.get S (staleStep S (SMap.ge cmp) c) ::
              Cursor.run S (SMap.ge cmp) (staleStep S (SMap.ge cmp) c) cs) := by
  have hgb : (ai.gen != a.gen) = true := by simpa using hg
  have habs : ∀ (c : Call Bytes), (c = .first ∨ c = .last ∨ (∃ k, c = .seek k)) →
      Iter.run cmp a ai (c :: cs) =
        some (Cursor.run (SMap.slice cmp ai.start ai.limit d.abs) (SMap.ge cmp) .soi (c :: cs)) := by
    intro c hcabs
    have hstep : ∃ ai', Iter.step cmp a c ai =
          some (ai', (MemDB.Iter.step cmp d c (MemDB.Iter.mk ai.start ai.limit none false)).node.isSome) ∧
        IterRep a d ix ai' (MemDB.Iter.step cmp d c (MemDB.Iter.mk ai.start ai.limit none false)) := by
      rcases hcabs with rfl | rfl | ⟨k, rfl⟩
      · exact first_sim hc r rfl rfl
      · exact last_sim hc r rfl rfl
      · exact seek_sim hc r rfl rfl k
    obtain ⟨ai', e, h'⟩ := hstep
    have : Iter.run cmp a ai (c :: cs) =
        some (MemDB.Iter.run cmp d (MemDB.Iter.mk ai.start ai.limit none false) (c :: cs)) := by
      simp only [Iter.run, e, Option.bind_some, Option.bind_eq_bind, iter_run_sim hc r cs h', MemDB.Iter.run,
        h'.out r]
    rw [this, MemDB.slice_abs, MemDB.run_rel hc r.inv _ _ _ none false .soi ⟨rfl, rfl⟩]
  cases c with
  | first => rw [habs _ (.inl rfl)]; rfl
  | last => rw [habs _ (.inr (.inl rfl))]; rfl
  | seek k => rw [habs _ (.inr (.inr ⟨k, rfl⟩))]; rfl
  | next =>
    have e : Iter.step cmp a .next ai =
        some ({ ai with forward := true, node := 0, key := none, value := none, gen := a.gen }, false) := by
      simp only [Iter.step, Iter.next, hne, if_false, hgb, if_true, Option.bind_some, Option.bind_eq_bind]
      exact arr_fill_zero rfl false true
    simp only [Iter.run, e, Option.bind_some, Option.bind_eq_bind]
    rw [iter_run_unpositioned hc r _ rfl cs]
    simp [Iter.out, staleStep, Cursor.get]
  | prev =>
    have e : Iter.step cmp a .prev ai =
        some ({ ai with forward := false, node := 0, key := none, value := none, gen := a.gen }, false) := by
      simp only [Iter.step, Iter.prev, hne, if_false, hgb, if_true, Option.bind_some, Option.bind_eq_bind]
      exact arr_fill_zero rfl true false
    simp only [Iter.run, e, Option.bind_some, Option.bind_eq_bind]
    rw [iter_run_unpositioned hc r _ rfl cs]
    simp [Iter.out, staleStep, Cursor.get]

end

end GoLevel.MemArr
