import GoLevel.Model.Bloom
/-!
# Proofs about the Bloom filter model (helpers for `Props/C16.lean`)

Structure: (1) bit-array lemmas (`testBit_setBit`), (2) the generator's probe loop sets what the reader's probe
loop tests (`probeTest_probeSet`, monotonicity in the array), (3) the fold over all added keys
(`bloomFill_probe`, for an *arbitrary* initial destination), (4) `uint32` arithmetic of `Generate`
(`bloomNBytes_toNat`) and the fact that the reader recomputes the same `nBits` from the filter length,
(5) `bloom_core`.  Core Lean only.
-/
namespace GoLevel

/-- `LawfulFilter` restricted to key sets of at most `n` keys.  Needed for the Bloom policy because
    `Generate` computes `uint32(len * bitsPerKey)`: for some lengths Go panics (see `bloomGenPanics`), so the
    unrestricted contract cannot hold for every `bitsPerKey` (`bloom_unbounded_fails`). -/
def LawfulFilterBounded (f : FilterPolicy) (n : Nat) : Prop :=
  ∀ (keys : List Bytes) (k : Bytes), keys.length ≤ n → k ∈ keys → f.contains (f.generate keys) k = true

theorem LawfulFilter.bounded {f : FilterPolicy} (h : LawfulFilter f) (n : Nat) : LawfulFilterBounded f n :=
  fun keys k _ hk => h keys k hk

/-! ## bit array -/

theorem bitMask_toNat (i : Nat) : (bitMask i).toNat = 2 ^ (i % 8) := by
  have h : i % 8 < 8 := Nat.mod_lt _ (by decide)
  unfold bitMask
  generalize i % 8 = s at h
  match s, h with
  | 0, _ | 1, _ | 2, _ | 3, _ | 4, _ | 5, _ | 6, _ | 7, _ => rfl
  | n + 8, h => omega

theorem and_two_pow_eq_zero (x s : Nat) : x &&& 2 ^ s = 0 ↔ x.testBit s = false := by
  constructor
  · intro h
    have : (x &&& 2 ^ s).testBit s = false := by rw [h]; exact Nat.zero_testBit s
    simpa [Nat.testBit_and, Nat.testBit_two_pow_self] using this
  · intro h
    apply Nat.eq_of_testBit_eq
    intro i
    by_cases hi : s = i
    · subst hi; simp [Nat.testBit_and, h]
    · simp [Nat.testBit_and, hi]

/-- the byte-level test is the `Nat` bit test -/
theorem byteBit (b : UInt8) (i : Nat) : ((b &&& bitMask i) != 0) = b.toNat.testBit (i % 8) := by
  have h0 : (b &&& bitMask i = 0) ↔ b.toNat.testBit (i % 8) = false := by
    rw [← UInt8.toNat_inj, UInt8.toNat_and, bitMask_toNat]
    exact and_two_pow_eq_zero _ _
  cases hb : b.toNat.testBit (i % 8)
  · simp [h0.mpr hb]
  · have : ¬ (b &&& bitMask i = 0) := fun h => by rw [h0.mp h] at hb; cases hb
    simp [this]

theorem testBit_eq (a : Array UInt8) (i : Nat) :
    testBit a i = (a.getD (i / 8) 0).toNat.testBit (i % 8) := byteBit _ _

theorem size_setBit (a : Array UInt8) (i : Nat) : (setBit a i).size = a.size := by
  simp [setBit]

theorem getD_setBit (a : Array UInt8) (i j : Nat) (hi : i / 8 < a.size) :
    (setBit a i).getD j 0 = if i / 8 = j then a.getD j 0 ||| bitMask i else a.getD j 0 := by
  simp only [setBit, Array.getD_eq_getD_getElem?, Array.getElem?_modify]
  split
  · next h => subst h; simp [hi]
  · rfl

/-- setting bit `i` (in range) makes exactly bit `i` true in addition to the bits already set -/
theorem testBit_setBit (a : Array UInt8) (i j : Nat) (hi : i / 8 < a.size) :
    testBit (setBit a i) j = (testBit a j || decide (i = j)) := by
  rw [testBit_eq, testBit_eq, getD_setBit a i (j / 8) hi]
  by_cases h : i / 8 = j / 8
  · simp only [h, if_true, UInt8.toNat_or, Nat.testBit_or, bitMask_toNat, Nat.testBit_two_pow]
    congr 1
    apply decide_eq_decide.mpr
    omega
  · simp only [h, if_false]
    have : i ≠ j := fun e => h (by rw [e])
    simp [this]

theorem setBit_mono (a : Array UInt8) (i j : Nat) (h : testBit a j = true) :
    testBit (setBit a i) j = true := by
  by_cases hi : i / 8 < a.size
  · rw [testBit_setBit a i j hi, h]; rfl
  · have : setBit a i = a := by
      apply Array.ext
      · simp [setBit]
      · intro n h1 h2
        simp only [setBit, Array.getElem_modify]
        split
        · omega
        · rfl
    rw [this]; exact h

theorem setBit_self (a : Array UInt8) (i : Nat) (hi : i / 8 < a.size) :
    testBit (setBit a i) i = true := by
  rw [testBit_setBit a i i hi]; simp

theorem size_probeSet (nBits delta : UInt32) (c : Nat) (kh : UInt32) (a : Array UInt8) :
    (probeSet nBits delta c kh a).size = a.size := by
  induction c generalizing kh a with
  | zero => rfl
  | succ c ih => simp [probeSet, ih, size_setBit]

theorem probeSet_mono (nBits delta : UInt32) (c : Nat) (kh : UInt32) (a : Array UInt8) (j : Nat)
    (h : testBit a j = true) : testBit (probeSet nBits delta c kh a) j = true := by
  induction c generalizing kh a with
  | zero => exact h
  | succ c ih => exact ih _ _ (setBit_mono a _ j h)

/-- after the generator's loop for one key the reader's loop over the same probe sequence succeeds -/
theorem probeTest_probeSet (nBits delta : UInt32) (c : Nat) (kh : UInt32) (a : Array UInt8)
    (hpos : 0 < nBits.toNat) (hsz : nBits.toNat ≤ a.size * 8) :
    probeTest nBits delta (probeSet nBits delta c kh a) c kh = true := by
  induction c generalizing kh a with
  | zero => rfl
  | succ c ih =>
    have hp : (kh % nBits).toNat / 8 < a.size := by
      have : (kh % nBits).toNat < nBits.toNat := by
        rw [UInt32.toNat_mod]; exact Nat.mod_lt _ hpos
      omega
    simp only [probeSet, probeTest, Bool.and_eq_true]
    constructor
    · exact probeSet_mono _ _ _ _ _ _ (setBit_self a _ hp)
    · exact ih _ _ (by rw [size_setBit]; exact hsz)

theorem probeTest_mono (nBits delta : UInt32) (a a' : Array UInt8) (c : Nat) (kh : UInt32)
    (hm : ∀ j, testBit a j = true → testBit a' j = true)
    (h : probeTest nBits delta a c kh = true) : probeTest nBits delta a' c kh = true := by
  induction c generalizing kh with
  | zero => rfl
  | succ c ih =>
    simp only [probeTest, Bool.and_eq_true] at h ⊢
    exact ⟨hm _ h.1, ih _ h.2⟩

theorem size_bloomFill (k : Nat) (nBits : UInt32) (hs : List UInt32) (dest : Array UInt8) :
    (bloomFill k nBits hs dest).size = dest.size := by
  induction hs generalizing dest with
  | nil => rfl
  | cons h t ih => simp only [bloomFill, List.foldl_cons] at ih ⊢; rw [ih, size_probeSet]

theorem bloomFill_mono (k : Nat) (nBits : UInt32) (hs : List UInt32) (dest : Array UInt8) (j : Nat)
    (h : testBit dest j = true) : testBit (bloomFill k nBits hs dest) j = true := by
  induction hs generalizing dest with
  | nil => exact h
  | cons x t ih =>
    simp only [bloomFill, List.foldl_cons] at ih ⊢
    exact ih _ (probeSet_mono _ _ _ _ _ _ h)

/-- whatever the destination held before (Go: zeros), every added hash passes the probe test afterwards -/
theorem bloomFill_probe (k : Nat) (nBits : UInt32) (hs : List UInt32) (dest : Array UInt8)
    (hpos : 0 < nBits.toNat) (hsz : nBits.toNat ≤ dest.size * 8) (kh : UInt32) (hkh : kh ∈ hs) :
    probeTest nBits (Gen.bloomDeltaGenerate kh) (bloomFill k nBits hs dest) k kh = true := by
  induction hs generalizing dest with
  | nil => cases hkh
  | cons x t ih =>
    simp only [bloomFill, List.foldl_cons] at ih ⊢
    rcases List.mem_cons.mp hkh with rfl | hm
    · refine probeTest_mono _ _ _ _ _ _ (fun j hj => ?_) (probeTest_probeSet nBits _ k kh dest hpos hsz)
      exact bloomFill_mono k nBits t _ j hj
    · exact ih _ (by rw [size_probeSet]; exact hsz) hm

/-! ## arithmetic of `Generate` -/

theorem bloomNBytes_toNat (bpk nKeys : Nat) (h : (nKeys * bpk) % 2 ^ 32 + 7 < 2 ^ 32) :
    (bloomNBytes bpk nKeys).toNat = (max ((nKeys * bpk) % 2 ^ 32) 64 + 7) / 8 := by
  unfold bloomNBytes
  simp only [Nat.toUInt32_eq, UInt32.lt_iff_toNat_lt, UInt32.toNat_ofNat', UInt32.toNat_div]
  split
  · next hlt =>
    have : (64 : UInt32).toNat = 64 := rfl
    simp only [UInt32.toNat_add, this] at hlt ⊢
    have e7 : (7 : UInt32).toNat = 7 := rfl
    have e8 : (8 : UInt32).toNat = 8 := rfl
    rw [e7, e8]
    omega
  · next hge =>
    have e64 : (64 : UInt32).toNat = 64 := rfl
    have e7 : (7 : UInt32).toNat = 7 := rfl
    have e8 : (8 : UInt32).toNat = 8 := rfl
    simp only [UInt32.toNat_add, UInt32.toNat_ofNat', e64, e7, e8] at hge ⊢
    omega

theorem bloomK_range (b : Nat) : 1 ≤ bloomK b ∧ bloomK b ≤ 30 := by
  unfold bloomK
  simp only []
  split
  · omega
  · split <;> omega

/-- the two rotations in `Contains` and `Generate` are the same function (both printed from the Go AST) -/
theorem bloomDelta_eq : Gen.bloomDeltaContains = Gen.bloomDeltaGenerate := rfl

theorem testBit_push (a : Array UInt8) (b : UInt8) (j : Nat) (h : testBit a j = true) :
    testBit (a.push b) j = true := by
  have hj : j / 8 < a.size := by
    apply Classical.byContradiction
    intro hn
    have : a.getD (j / 8) 0 = 0 := by
      simp [Array.getD_eq_getD_getElem?, Array.getElem?_eq_none (Nat.le_of_not_lt hn)]
    rw [testBit_eq, this] at h
    simp at h
  have : (a.push b).getD (j / 8) 0 = a.getD (j / 8) 0 := by
    simp [Array.getD_eq_getD_getElem?, Array.getElem?_push, Nat.ne_of_lt hj]
  rw [testBit_eq] at h ⊢
  rw [this]; exact h

/-- The exact no-panic condition of `Generate`: `uint32(len*n) + 7` does not wrap. -/
def bloomGenOk (bpk nKeys : Nat) : Prop := (nKeys * bpk) % 2 ^ 32 + 7 < 2 ^ 32

theorem bloom_core (bpk : Nat) (keys : List Bytes) (key : Bytes)
    (hok : bloomGenOk bpk keys.length) (hmem : key ∈ keys) :
    bloomContains (bloomGenerate bpk keys) key = true := by
  have hk := bloomK_range bpk
  have hnb := bloomNBytes_toNat bpk keys.length hok
  unfold bloomGenerate bloomContains
  simp only [List.length_map, Array.toArray_toList, Array.size_push]
  generalize hA : bloomFill (bloomK bpk) (bloomNBytes bpk keys.length * 8) (keys.map bloomHash)
      (Array.replicate (bloomNBytes bpk keys.length).toNat 0) = A
  have hsize : A.size = (bloomNBytes bpk keys.length).toNat := by
    rw [← hA, size_bloomFill, Array.size_replicate]
  have hge : 8 ≤ A.size := by rw [hsize, hnb]; omega
  have hlt : A.size * 8 < 2 ^ 32 := by rw [hsize, hnb]; unfold bloomGenOk at hok; omega
  have hbits : ((A.size + 1 - 1) * 8).toUInt32 = bloomNBytes bpk keys.length * 8 := by
    apply UInt32.toNat_inj.mp
    have e8 : (8 : UInt32).toNat = 8 := rfl
    simp only [Nat.toUInt32_eq, UInt32.toNat_ofNat', UInt32.toNat_mul, e8, Nat.add_sub_cancel, ← hsize]
  have hkb : (A.push (bloomK bpk).toUInt8).getD (A.size + 1 - 1) 0 = (bloomK bpk).toUInt8 := by
    simp [Array.getD_eq_getD_getElem?]
  have hkn : (bloomK bpk).toUInt8.toNat = bloomK bpk := by
    simp only [Nat.toUInt8_eq, UInt8.toNat_ofNat']; omega
  rw [if_neg (by omega), hkb, hbits]
  have hnot : ¬ ((bloomK bpk).toUInt8 > 30) := by
    have e30 : (30 : UInt8).toNat = 30 := rfl
    rw [gt_iff_lt, UInt8.lt_iff_toNat_lt, hkn, e30]; omega
  rw [if_neg hnot, hkn, bloomDelta_eq]
  apply probeTest_mono _ _ A _ _ _ (fun j hj => testBit_push A _ j hj)
  rw [← hA]
  have e8 : (8 : UInt32).toNat = 8 := rfl
  have hnbits : (bloomNBytes bpk keys.length * 8).toNat = (bloomNBytes bpk keys.length).toNat * 8 := by
    rw [UInt32.toNat_mul, e8, ← hsize]; omega
  apply bloomFill_probe
  · rw [hnbits, ← hsize]; omega
  · rw [hnbits, Array.size_replicate]; exact Nat.le_refl _
  · exact List.mem_map_of_mem hmem

/-! ## beyond the side condition -/

/-- the side condition of `bloom_core` fails exactly where Go's `Generate` panics (`nBytes = 0`, then
    `kh % 0`) -/
theorem bloomGenPanics_iff (bpk nKeys : Nat) :
    bloomGenPanics bpk nKeys = true ↔ ¬ bloomGenOk bpk nKeys := by
  unfold bloomGenPanics bloomGenOk
  rw [beq_iff_eq, ← UInt32.toNat_inj]
  constructor
  · intro h hok
    rw [bloomNBytes_toNat bpk nKeys hok] at h
    have : (0 : UInt32).toNat = 0 := rfl
    omega
  · intro hno
    have hlt : (nKeys * bpk) % 2 ^ 32 < 2 ^ 32 := Nat.mod_lt _ (by decide)
    unfold bloomNBytes
    have e64 : (64 : UInt32).toNat = 64 := rfl
    have e7 : (7 : UInt32).toNat = 7 := rfl
    have e8 : (8 : UInt32).toNat = 8 := rfl
    have e0 : (0 : UInt32).toNat = 0 := rfl
    simp only [Nat.toUInt32_eq, UInt32.lt_iff_toNat_lt, UInt32.toNat_ofNat', UInt32.toNat_div, e64]
    split
    · omega
    · simp only [UInt32.toNat_add, UInt32.toNat_ofNat', e7, e8, e0]
      omega

/-- in the model (which has no panic) such a filter is the single byte `k`, and the reader rejects it -/
theorem bloom_panic_model (bpk : Nat) (keys : List Bytes) (key : Bytes)
    (hp : bloomGenPanics bpk keys.length = true) :
    bloomContains (bloomGenerate bpk keys) key = false := by
  unfold bloomGenPanics at hp
  rw [beq_iff_eq] at hp
  unfold bloomGenerate bloomContains
  simp only [List.length_map, Array.toArray_toList, Array.size_push, size_bloomFill, Array.size_replicate, hp]
  rfl

end GoLevel
