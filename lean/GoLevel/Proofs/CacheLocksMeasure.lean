import GoLevel.Proofs.CacheLocksLive
/-! The lock-level cache system (C17), part 7: a weight for the work a thread still has to do inside its
`r.mu.RLock()` section.  Every instruction weighs more than what it pushes; the only state-dependent weight is
that of `lru.Promote` (it may release every handle on the LRU list), bounded through `B` ≥ the length of the list
plus the number of `Promote`s still to come. -/
namespace GoLevel.CacheL
open GoLevel.CacheM

set_option linter.unusedSimpArgs false

/-- Instructions that lead to an `lru.Promote` (which can lengthen the LRU list by one). -/
def promoteLike : Instr → Bool
  | .bget _ (.get _) => true
  | .setv _ _ => true
  | .promote _ => true
  | _ => false

/-- Weight of an instruction, given a bound `B` on (length of the LRU list + promotes to come). -/
def wt (B : Nat) : Instr → Nat
  | .extz _ _ => 3
  | .unrefExt _ => 4
  | .unrefInt _ => 2
  | .levict _ => 5
  | .ban _ => 5
  | .relH _ => 5
  | .promote _ => 4 * B + 6
  | .setv _ _ => 4 * B + 7
  | .bget _ _ => 4 * B + 12
  | .setcap _ => 4 * B + 1
  | _ => 1

def tw (B : Nat) (T : List Instr) : Nat := (T.map (wt B)).sum

theorem wt_mono {B' B : Nat} (h : B' ≤ B) (i : Instr) : wt B' i ≤ wt B i := by
  cases i <;> simp [wt] <;> omega

theorem tw_mono {B' B : Nat} (h : B' ≤ B) (T : List Instr) : tw B' T ≤ tw B T := by
  induction T with
  | nil => simp [tw]
  | cons a T ih => simp only [tw, List.map_cons, List.sum_cons] at ih ⊢; have := wt_mono h a; omega

@[simp] theorem tw_nil (B : Nat) : tw B [] = 0 := rfl
@[simp] theorem tw_cons (B : Nat) (i : Instr) (T : List Instr) : tw B (i :: T) = wt B i + tw B T := by
  simp [tw]
@[simp] theorem tw_append (B : Nat) (S T : List Instr) : tw B (S ++ T) = tw B S + tw B T := by
  simp [tw, List.sum_append]

@[simp] theorem tw_map_unrefExt (B : Nat) (l : List Nat) : tw B (l.map Instr.unrefExt) = 4 * l.length := by
  induction l with
  | nil => rfl
  | cons a l ih => simp [wt, ih]; omega

theorem tw_map_levict {α : Type} (B : Nat) (f : α → Nat) (l : List α) :
    tw B (l.map fun a => Instr.levict (f a)) = 5 * l.length := by
  induction l with
  | nil => rfl
  | cons a l ih => simp [wt, ih]; omega

theorem evictTail_len (ns : List Node) (cap : Nat) (l : List Nat) (used : Nat) :
    (evictTail ns cap l used).2.2.1.length + (evictTail ns cap l used).1.length = l.length := by
  have := congrArg List.length (evictTail_split ns cap l used)
  simpa using this

/-- **Every instruction weighs more than what it pushes** (except `Close` and the `RLock` of a call, whose pushes
depend on the number of nodes: they are never inside a section). -/
theorem step_weight {sh sh' : Shared} {i : Instr} {push evs} {B : Nat}
    (he : exec sh i = some (sh', push, evs)) (hcl : isCloseLock i = false) (hen : isEnter i = false)
    (hB : sh.lru.recent.length + (if promoteLike i then 1 else 0) ≤ B) : tw B push < wt B i := by
  cases i
  case closeLock f => simp [isCloseLock] at hcl
  case enter c => simp [isEnter] at hen
  case promote pid =>
    simp only [promoteLike, if_true] at hB
    simp only [exec, execPromote] at he
    repeat' (split at he)
    all_goals (simp only [Option.some.injEq, Prod.mk.injEq] at he; obtain ⟨_, rfl, _⟩ := he)
    all_goals (simp [wt])
    all_goals first
      | omega
      | (have := evictTail_len (upd sh.nodes pid fun n => { n with ref := n.ref + 1, lru := LruSt.inList })
           sh.lru.capacity (pid :: sh.lru.recent).reverse (sh.lru.used + (by assumption : Node).size)
         simp at this; omega)
  case setcap c =>
    simp only [promoteLike, Bool.false_eq_true, if_false, Nat.add_zero] at hB
    simp only [exec, execSetcap, Option.some.injEq, Prod.mk.injEq] at he
    obtain ⟨_, rfl, _⟩ := he
    have := evictTail_len sh.nodes c sh.lru.recent.reverse sh.lru.used
    simp [wt] at this ⊢; omega
  all_goals (exec_split he)
  all_goals (simp [wt])
  all_goals first
    | omega
    | (simp_all; done)
    | skip

theorem countP_pl_zero {l : List Instr} (h : ∀ j ∈ l, promoteLike j = false) : l.countP promoteLike = 0 := by
  rw [List.countP_eq_zero]; intro j hj; simp [h j hj]

/-- The bound `B` = length of the LRU list + promotes to come never grows, except when a call takes `r.mu.RLock()`
(`enter`). -/
theorem bnd_exec {sh sh' : Shared} {i : Instr} {push evs} (he : exec sh i = some (sh', push, evs))
    (hen : isEnter i = false) :
    sh'.lru.recent.length + push.countP promoteLike ≤
      sh.lru.recent.length + (if promoteLike i then 1 else 0) := by
  cases i
  case enter c => simp [isEnter] at hen
  case promote pid =>
    simp only [exec, execPromote] at he
    repeat' (split at he)
    all_goals (simp only [Option.some.injEq, Prod.mk.injEq] at he; obtain ⟨rfl, rfl, _⟩ := he)
    all_goals (simp only [promoteLike, if_true, List.countP_nil, List.countP_cons, List.countP_append])
    all_goals first
      | (simp; done)
      | (have h1 := evictTail_len (upd sh.nodes pid fun n => { n with ref := n.ref + 1, lru := LruSt.inList })
           sh.lru.capacity (pid :: sh.lru.recent).reverse (sh.lru.used + (by assumption : Node).size)
         rw [countP_pl_zero (by intro j hj; obtain ⟨_, _, rfl⟩ := List.mem_map.mp hj; rfl)]
         simp at h1 ⊢; omega)
      | (have := List.length_erase_le (a := pid) (l := sh.lru.recent); simp; omega)
  case setcap c =>
    simp only [exec, execSetcap, Option.some.injEq, Prod.mk.injEq] at he
    obtain ⟨rfl, rfl, _⟩ := he
    have h1 := evictTail_len sh.nodes c sh.lru.recent.reverse sh.lru.used
    rw [countP_pl_zero (by intro j hj; obtain ⟨_, _, rfl⟩ := List.mem_map.mp hj; rfl)]
    simp at h1 ⊢; omega
  case closeLock f =>
    simp only [exec, execCloseLock] at he
    repeat' (split at he)
    all_goals first
      | (cases he; done)
      | (simp only [Option.some.injEq, Prod.mk.injEq] at he; obtain ⟨rfl, rfl, _⟩ := he)
    all_goals first
      | (simp; done)
      | (rw [countP_pl_zero (by
          intro j hj
          simp only [List.mem_flatMap, List.mem_append, List.mem_cons, List.not_mem_nil, or_false, false_or] at hj
          grind [promoteLike])]
         simp)
  all_goals (exec_split he)
  all_goals (simp [promoteLike])
  all_goals first
    | omega
    | (have := List.length_erase_le (a := (by assumption : Nat)) (l := sh.lru.recent); omega)
    | skip

end GoLevel.CacheL
