import GoLevel.Proofs.CacheZero
/-! The invariant holds in every reachable state of the cache interleaving system. -/
namespace GoLevel.CacheM

/-- One instruction keeps the invariant (`Q` = the other pending instructions). -/
theorem invP_step {g sh Q log sh' i push evs} (h : InvP g sh (i :: Q) log)
    (he : exec sh i = some (sh', push, evs))
    (hwb : sh.rlock = 0 → ∀ j ∈ i :: Q, openOnly j = false)
    (hguard : ∀ f, i = .closeLock f → g = true → ∀ j ∈ Q, isExtz j = false) :
    InvP g sh' (push ++ Q) (log ++ evs) where
  ids := ids_step h he
  keys := keys_step h he
  rl := rl_step h he
  cl := cl_step h he hwb
  op := op_step h he
  fo := fo_step h he
  rc := rc_step h he
  ex := ex_step h he
  lr := lr_step h he
  us := us_step h he
  vl := vl_step h he
  zr := zr_step h he hguard

theorem invP_perm {g sh P P' log log'} (h : InvP g sh P log) (hp : P.Perm P') : InvP g sh P' log' where
  ids := h.ids
  keys := h.keys
  rl := by rw [h.rl]; exact hp.count_eq _
  cl := fun hc i hi => h.cl hc i (hp.mem_iff.mpr hi)
  op := fun hc => ⟨fun i hi => (h.op hc).1 i (hp.mem_iff.mpr hi), (h.op hc).2⟩
  fo := fun hf i hi => h.fo hf i (hp.mem_iff.mpr hi)
  rc := fun hf n hn => by
    have := h.rc hf n hn
    simp only [refsP] at this ⊢
    rw [← hp.countP_eq]; exact this
  ex := fun id hpos => h.ex id (by
    simp only [refsP] at hpos ⊢
    rw [hp.countP_eq]; exact hpos)
  lr := h.lr
  us := h.us
  vl := fun hg hf n hn hold => h.vl hg hf n hn (by
    rcases hold with h1 | h1 | ⟨j, hj, hv⟩
    · exact Or.inl h1
    · exact Or.inr (Or.inl h1)
    · exact Or.inr (Or.inr ⟨j, hp.mem_iff.mpr hj, hv⟩))
  zr := fun hg hc hf i hi => h.zr hg hc hf i (hp.mem_iff.mpr hi)

/-- The first instruction of an API call does not own or assume anything. -/
theorem invP_call {g sh P log} (h : InvP g sh P log) (c : Call) : InvP g sh (startCall c ++ P) log := by
  have hstart : ∀ j ∈ startCall c, owns 0 j = false ∧ openOnly j = false ∧ closedOnly j = false ∧
      forcedOnly j = false ∧ zeroRef g j = none ∧ j ≠ .runlock ∧ (∀ id, owns id j = false) ∧
      (∀ id, holdsVal id j = false) := by
    intro j hj
    cases c <;> simp only [startCall, List.mem_singleton] at hj <;> subst hj <;>
      simp [owns, openOnly, closedOnly, forcedOnly, zeroRef, holdsVal]
  have hcount : ∀ id, (startCall c ++ P).countP (owns id) = P.countP (owns id) := by
    intro id
    rw [List.countP_append, List.countP_eq_zero.mpr]
    · omega
    · intro j hj; simp [(hstart j hj).2.2.2.2.2.2.1 id]
  exact {
    ids := h.ids
    keys := h.keys
    rl := by
      have h0 : (startCall c).count Instr.runlock = 0 :=
        List.count_eq_zero.mpr (fun hm => (hstart _ hm).2.2.2.2.2.1 rfl)
      rw [h.rl, List.count_append, h0]; omega
    cl := fun hc i hi => by
      rcases List.mem_append.mp hi with hi | hi
      · exact (hstart i hi).2.1
      · exact h.cl hc i hi
    op := fun hc => ⟨fun i hi => by
      rcases List.mem_append.mp hi with hi | hi
      · exact (hstart i hi).2.2.1
      · exact (h.op hc).1 i hi, (h.op hc).2⟩
    fo := fun hf i hi => by
      rcases List.mem_append.mp hi with hi | hi
      · exact (hstart i hi).2.2.2.1
      · exact h.fo hf i hi
    rc := fun hf n hn => by
      have := h.rc hf n hn
      simp only [refsP, hcount] at this ⊢; exact this
    ex := fun id hpos => h.ex id (by simp only [refsP, hcount] at hpos ⊢; exact hpos)
    lr := h.lr
    us := h.us
    vl := fun hg hf n hn hold => h.vl hg hf n hn (by
      rcases hold with h1 | h1 | ⟨j, hj, hv⟩
      · exact Or.inl h1
      · exact Or.inr (Or.inl h1)
      · rcases List.mem_append.mp hj with hj | hj
        · rw [(hstart j hj).2.2.2.2.2.2.2 n.id] at hv; cases hv
        · exact Or.inr (Or.inr ⟨j, hj, hv⟩))
    zr := fun hg hc hf i hi id hz => by
      rcases List.mem_append.mp hi with hi | hi
      · rw [(hstart i hi).2.2.2.2.1] at hz; cases hz
      · exact h.zr hg hc hf i hi id hz }

/-- The invariant of the interleaving system. -/
structure Inv (g : Bool) (s : Sys) : Prop where
  core : InvP g s.sh (pending s) s.log
  wb : ∀ t ∈ s.threads, WB t

theorem wb_noOpen {t : List Instr} (hw : WB t) (hr : Instr.runlock ∉ t) : ∀ j ∈ t, openOnly j = false := by
  induction t with
  | nil => intro j hj; cases hj
  | cons a t ih =>
    intro j hj
    obtain ⟨ha, ht⟩ := hw
    rcases List.mem_cons.mp hj with rfl | hj
    · cases hb : openOnly j with
      | false => rfl
      | true => exact absurd (List.mem_cons_of_mem _ (ha hb)) hr
    · exact ih ht (fun hm => hr (List.mem_cons_of_mem _ hm)) j hj

theorem inv_init (g : Bool) (clr : Cfg) (capacity nthreads : Nat) : Inv g (Sys.initCfg clr capacity nthreads) := by
  have hp : pending (Sys.initCfg clr capacity nthreads) = [] := by
    unfold pending Sys.initCfg
    induction nthreads with
    | zero => rfl
    | succ n ih => simp [List.replicate_succ] at ih ⊢
  refine ⟨?_, ?_⟩
  · rw [hp]
    refine ⟨by simp [Sys.initCfg, Shared.newCfg], by simp [Sys.initCfg, Shared.newCfg], by simp [Sys.initCfg, Shared.newCfg],
      by simp, by simp [Sys.initCfg, Shared.newCfg], by simp, by simp [Sys.initCfg, Shared.newCfg], ?_,
      by simp [Sys.initCfg, Shared.newCfg], by simp [Sys.initCfg, Shared.newCfg], by simp [Sys.initCfg, Shared.newCfg], by simp⟩
    intro id hpos
    simp [refsP, Sys.initCfg, Shared.newCfg] at hpos
  · intro t ht
    simp only [Sys.initCfg, List.mem_replicate] at ht
    rw [ht.2]; trivial

theorem flatten_set_perm' {α : Type} (ts : List (List α)) (t : Nat) (old new : List α)
    (h : ts[t]? = some old) : (old ++ (ts.set t new).flatten).Perm (new ++ ts.flatten) := by
  induction ts generalizing t with
  | nil => simp at h
  | cons a ts ih =>
    cases t with
    | zero =>
      simp at h; subst h
      simp only [List.set_cons_zero, List.flatten_cons]
      -- a ++ (new ++ F) ~ new ++ (a ++ F)
      rw [← List.append_assoc, ← List.append_assoc]
      exact List.Perm.append_right _ List.perm_append_comm
    | succ t =>
      simp at h
      have := ih t h
      simp only [List.set_cons_succ, List.flatten_cons]
      -- old ++ (a ++ X) ~ new ++ (a ++ F), given old ++ X ~ new ++ F
      have h1 : (old ++ (a ++ (ts.set t new).flatten)).Perm (a ++ (old ++ (ts.set t new).flatten)) := by
        rw [← List.append_assoc, ← List.append_assoc]
        exact List.Perm.append_right _ List.perm_append_comm
      have h2 : (a ++ (old ++ (ts.set t new).flatten)).Perm (a ++ (new ++ ts.flatten)) :=
        List.Perm.append_left a this
      have h3 : (a ++ (new ++ ts.flatten)).Perm (new ++ (a ++ ts.flatten)) := by
        rw [← List.append_assoc, ← List.append_assoc]
        exact List.Perm.append_right _ List.perm_append_comm
      exact h1.trans (h2.trans h3)

theorem wb_set {ts : List (List Instr)} {t : Nat} {x : List Instr} (h : ∀ t' ∈ ts, WB t') (hx : WB x) :
    ∀ t' ∈ ts.set t x, WB t' := by
  intro t' ht'
  rcases List.mem_or_eq_of_mem_set ht' with h1 | h1
  · exact h t' h1
  · rw [h1]; exact hx

theorem inv_step {g : Bool} {s s' : Sys} {a : Act} (h : Inv g s) (hs : sysStep g s a = some s') : Inv g s' := by
  cases a with
  | call t c =>
    simp only [sysStep] at hs
    cases ht : s.threads[t]? with
    | none => rw [ht] at hs; cases hs
    | some l =>
      cases l with
      | cons _ _ => rw [ht] at hs; cases hs
      | nil =>
        rw [ht] at hs
        simp only [Option.some.injEq] at hs; subst hs
        have hperm := flatten_set_perm' s.threads t [] (startCall c) ht
        simp only [List.nil_append] at hperm
        refine ⟨invP_perm (invP_call h.core c) hperm.symm, wb_set h.wb ?_⟩
        cases c <;> simp [startCall, WB, openOnly]
  | step t =>
    simp only [sysStep] at hs
    cases ht : s.threads[t]? with
    | none => rw [ht] at hs; cases hs
    | some l =>
      cases l with
      | nil => rw [ht] at hs; cases hs
      | cons i rest =>
        rw [ht] at hs
        simp only [] at hs
        by_cases hok : stepOK g s.threads i = true
        · rw [if_pos hok] at hs
          cases he : exec s.sh i with
          | none => rw [he] at hs; cases hs
          | some r =>
            obtain ⟨sh', push, evs⟩ := r
            rw [he] at hs
            simp only [Option.some.injEq] at hs; subst hs
            have hi : i ∈ pending s := mem_of_getElem?_flatten s.threads t _ i ht List.mem_cons_self
            have hp1 : (pending s).Perm (i :: (pending s).erase i) := List.perm_cons_erase hi
            have hcore := invP_perm (log' := s.log) h.core hp1
            have hwbt : WB (i :: rest) := h.wb _ (List.mem_of_getElem? ht)
            -- no reader inside ⇒ no open-only instruction anywhere
            have hno : s.sh.rlock = 0 → ∀ j ∈ i :: (pending s).erase i, openOnly j = false := by
              intro h0 j hj
              have hj' : j ∈ pending s := hp1.mem_iff.mpr hj
              obtain ⟨t', ht', hjt⟩ := List.mem_flatten.mp hj'
              refine wb_noOpen (h.wb t' ht') (fun hr => ?_) j hjt
              have : Instr.runlock ∈ pending s := List.mem_flatten.mpr ⟨t', ht', hr⟩
              have hc := List.count_pos_iff.mpr this
              have := h.core.rl
              omega
            have hguard : ∀ f, i = .closeLock f → g = true → ∀ j ∈ (pending s).erase i, isExtz j = false := by
              intro f hif hg j hj
              subst hif
              simp only [stepOK, hg, Bool.not_true, Bool.false_or] at hok
              have hj' : j ∈ pending s := List.mem_of_mem_erase hj
              obtain ⟨t', ht', hjt⟩ := List.mem_flatten.mp hj'
              simp only [noPendingExtz, List.all_eq_true] at hok
              have := hok t' ht' j hjt
              simpa using this
            have hnew := invP_step hcore he hno hguard
            -- pending of the new state
            have hperm := flatten_set_perm s.threads t i rest push ht
            have hp2 : (i :: (s.threads.set t (push ++ rest)).flatten).Perm
                (i :: (push ++ (pending s).erase i)) := by
              refine hperm.trans ?_
              have : (push ++ pending s).Perm (push ++ (i :: (pending s).erase i)) := List.Perm.append_left _ hp1
              exact this.trans List.perm_middle
            exact ⟨invP_perm hnew (List.Perm.cons_inv hp2).symm, wb_set h.wb (wb_step hwbt he)⟩
        · rw [if_neg hok] at hs; cases hs

theorem inv_reachable {g : Bool} {s : Sys} (h : Reachable g s) : Inv g s := by
  induction h with
  | init clr c n => exact inv_init g clr c n
  | step a _ hs ih => exact inv_step ih hs
end GoLevel.CacheM
