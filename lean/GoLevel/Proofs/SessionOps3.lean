import GoLevel.Proofs.SessionInstall
/-! `session.commit` (success) and `session.recover` (C07). -/
namespace GoLevel.Session
open GoLevel GoLevel.RefLoop

/-- the preconditions on the tables of a version produced by a commit record -/
theorem commit_mono {y : Sys} {G : EnvF} {U : List Nat} (h : Sim y G U) (hc : y.sess.closed = false)
    {c : UCmp} {r : Edit} (hf : EditFacts y.sess.lsm c r U) :
    ∀ f ∈ (y.sess.lsm.apply c r).nums, ∀ j l, j < l → G.inst l → G.alive y.loop.next j → f ∈ G.T j → f ∈ G.T l := by
  intro f hfn j l hjl hil hal hfj
  obtain ⟨hdn, hcur⟩ := h.cur hc
  have hfU : f ∈ U := h.used hc j (EnvF.mem_T_inst hfj) hal f hfj
  have hfcur : f ∈ G.T G.dn := by
    rw [hdn, ← h.lsm hc]
    rcases (hf.mem f).mp hfn with h1 | h1
    · exact h1.1
    · rcases hf.fresh f h1 with h2 | h2
      · exact absurd hfU h2
      · exact hf.del f h2
  have hl : l ≤ G.dn := by
    rcases Nat.lt_or_ge G.dn l with h1 | h1
    · have h2 : G.up (G.dn + 1) ≤ l := EnvF.up_le_of_inst (by omega) hil
      have := EnvF.inst_lt hil
      omega
    · exact h1
  by_cases hld : l = G.dn
  · rw [hld]; exact hfcur
  · apply Classical.byContradiction
    intro hnl
    exact h.ok.gl.gone f j l G.dn hjl (by omega) hil hal hfj hnl hfcur

theorem step_commit {y : Sys} {G : EnvF} {U : List Nat} (h : Sim y G U) (c : UCmp) (r : Edit)
    (hok : OpOK y.sess U (.commit c r)) : StepOK y U (.commit c r) := by
  intro s' ms hop
  obtain ⟨hf, hdel⟩ := hok
  simp only [Sess.op] at hop
  split at hop
  · cases hop
  · rename_i hcl
    have hc : y.sess.closed = false := by simpa using hcl
    simp only [Option.some.injEq] at hop
    obtain ⟨hdn, hcur⟩ := h.cur hc
    have hUcur : ∀ f ∈ y.sess.lsm.nums, f ∈ U := by
      intro f hf'
      rw [h.lsm hc] at hf'
      have hdi : G.inst y.sess.cur := EnvF.mem_T_inst hf'
      refine h.used hc _ hdi (Or.inl fun hm => ?_) f hf'
      rcases (h.ok.inv.wf.rel _ hm).2 with h1 | ⟨h1, _⟩
      · omega
      · rw [h.closing, hc] at h1; cases h1
    have hex : NetExact (G.L G.dn)
        (mkDelta (if y.sess.manifest then r else fillRecord r (y.sess.lsm.apply c r))) (y.sess.lsm.apply c r).nums := by
      have hv := h.view hc
      rw [hdn]
      by_cases hm : y.sess.manifest = true
      · rw [hm] at hv; simp only [hm, if_true]
        rw [hv, ← h.lsm hc]; exact netExact_commit hf hUcur
      · have hm' : y.sess.manifest = false := by simpa using hm
        rw [hm'] at hv; simp only [hm', Bool.false_eq_true, if_false]
        rw [hv]; exact netExact_first hf (hdel hm')
    have hkeep : ∀ f, f ∈ G.T G.dn → f ∉ G.L G.dn → f ∈ (y.sess.lsm.apply c r).nums := by
      intro f h1 h2
      have hv := h.view hc
      rw [hdn] at h1 h2
      by_cases hm : y.sess.manifest = true
      · rw [hm] at hv; simp only [if_true] at hv; rw [hv] at h2; exact absurd h1 h2
      · have hm' : y.sess.manifest = false := by simpa using hm
        refine (hf.mem f).mpr (Or.inl ⟨by rw [h.lsm hc]; exact h1, ?_⟩)
        simp [Edit.delNums, hdel hm']
    obtain ⟨l', rm, G', e1, hs, sf⟩ := sim_setVersion h hc (mf := true) (L := (y.sess.lsm.apply c r).nums)
      (r' := if y.sess.manifest then r else fillRecord r (y.sess.lsm.apply c r))
      hf.nodup hf.nodup (fun _ hx => hx) (commit_mono h hc hf) (fun f hx _ _ _ => hx) hex hkeep rfl
    have h1 := congrArg Prod.fst hop
    have h2 := congrArg Prod.snd hop
    simp only at h1 h2
    subst h1; subst h2
    exact ⟨l', rm, G', e1, hs, sf⟩

theorem step_recover {y : Sys} {G : EnvF} {U : List Nat} (h : Sim y G U) (v : Version)
    (hok : OpOK y.sess U (.recover v)) : StepOK y U (.recover v) := by
  intro s' ms hop
  obtain ⟨hnt, hmf, hnd, hfresh⟩ := hok
  simp only [Sess.op] at hop
  split at hop
  · cases hop
  · rename_i hcl
    have hc : y.sess.closed = false := by simpa using hcl
    simp only [Option.some.injEq] at hop
    obtain ⟨hdn, hcur⟩ := h.cur hc
    have hN : G.N = 1 := by have := h.nt; rw [hc, hnt] at this; simpa using this
    have hd0 : G.dn = 0 := by have := h.ok.inv.wf.dn_lt h.N_pos; omega
    have hT0 : G.T G.dn = [] := by rw [hd0]; exact (h.ok.inv.wf.first h.N_pos).2
    have hL0 : G.L G.dn = [] := by
      have := h.view hc; rw [hmf] at this; rw [hdn]; simpa using this
    have hno : ∀ f ∈ v.nums, ∀ j, G.alive y.loop.next j → f ∉ G.T j := by
      intro f hf j hal hfj
      exact hfresh f hf (h.used hc j (EnvF.mem_T_inst hfj) hal f hfj)
    have hex : NetExact (G.L G.dn) (mkDelta ⟨[], []⟩) [] := by
      rw [hL0]
      exact ⟨List.nodup_nil, List.nodup_nil, (fun _ hx => by cases hx), fun _ => rfl⟩
    obtain ⟨l', rm, G', e1, hs, sf⟩ := sim_setVersion h hc (mf := y.sess.manifest) (L := []) (r' := ⟨[], []⟩)
      (nv := v) hnd List.nodup_nil (fun _ hx => by cases hx)
      (fun f hf j l _ _ hal hfj => absurd hfj (hno f hf j hal))
      (fun f hf j hal hfj => absurd hfj (hno f hf j hal)) hex
      (fun f h1 _ => by rw [hT0] at h1; cases h1) (by rw [hmf]; rfl)
    have h1 := congrArg Prod.fst hop
    have h2 := congrArg Prod.snd hop
    simp only at h1 h2
    subst h1; subst h2
    exact ⟨l', rm, G', e1, hs, sf⟩

end GoLevel.Session
