import GoLevel.Proofs.MemArrPutNew
/-! `Delete` over the arrays simulates the ideal `Delete` and re-establishes the representation relation (C14). -/
set_option linter.unusedSectionVars false
set_option linter.unusedSimpArgs false
set_option linter.unusedVariables false
namespace GoLevel.MemArr
open GoLevel.Gen (nKV nKey nVal nHeight nNext tMaxHeight)
open GoLevel.MemDB (Node LawfulCmp Sorted pred below ins)

variable {cmp : Cmp} {a : DB} {d : MemDB.DB} {ix : Bytes → Nat}

/-- the ideal table after `Delete` of a key that is present (`MemDB.delete_present`) -/
def delOld (d : MemDB.DB) (key : Bytes) : MemDB.DB :=
  { d with levels := d.levels.map (·.filter (· != key))
           kv := d.kv.filter (·.1 != key)
           n := d.n - 1
           kvSize := d.kvSize - (key.length + (d.value key).length) }

/-- the pointer of the last node of a chain -/
theorem Chain.last {nd : Array Nat} {ix : Bytes → Nat} {h stop : Nat} :
    ∀ {l : List Bytes} {frm : Nat}, Chain nd ix h stop frm l →
      nd[(l.map ix).getLastD frm + nNext + h]? = some stop := by
  intro l
  induction l with
  | nil => intro frm c; simp only [List.map_nil, List.getLastD_nil]; exact c
  | cons x xs ih =>
    intro frm c
    simp only [List.map_cons, List.getLastD_cons]
    exact ih c.2

theorem filter_split {l pre post : List Bytes} {key : Bytes} (hl : l = pre ++ key :: post)
    (h1 : ∀ x ∈ pre, x ≠ key) (h2 : ∀ x ∈ post, x ≠ key) : l.filter (· != key) = pre ++ post := by
  rw [hl, List.filter_append, List.filter_cons]
  have e1 : pre.filter (· != key) = pre := List.filter_eq_self.2 (fun x hx => by simpa using h1 x hx)
  have e2 : post.filter (· != key) = post := List.filter_eq_self.2 (fun x hx => by simpa using h2 x hx)
  simp [e1, e2]

theorem lv_map_filter (L : List (List Bytes)) (p : Bytes → Bool) (i : Nat) :
    lv (L.map (·.filter p)) i = (lv L i).filter p := by
  unfold lv
  rw [List.getElem?_map]
  cases L[i]? <;> simp

section
variable (hc : LawfulCmp cmp) (r : Rep cmp a d ix) {key : Bytes} (hk : key ∈ d.level0)
include hc r hk

theorem delOld_inv : MemDB.Inv cmp (delOld d key) := by
  have := MemDB.delete_inv hc r.inv key
  rwa [MemDB.delete_present hc r.inv hk] at this

theorem delOld_level0 (k : Bytes) : k ∈ (delOld d key).level0 ↔ k ∈ d.level0 ∧ k ≠ key := by
  show k ∈ (d.levels.map (·.filter (· != key))).headD [] ↔ _
  rw [MemDB.headD_map_filter]
  show k ∈ d.level0.filter _ ↔ _
  simp [List.mem_filter]

theorem delOld_height {k : Bytes} (hne : k ≠ key) : (delOld d key).height k = d.height k := by
  apply height_unique (delOld_inv hc r hk).towersSub
  · show _ ≤ (d.levels.map _).length
    rw [List.length_map]; exact height_le_length d k
  · intro i hi
    have hi' : i < d.levels.length := by
      have : i < (d.levels.map (·.filter (· != key))).length := hi
      simpa using this
    rw [← lv_lt hi]
    show k ∈ lv (d.levels.map (·.filter (· != key))) i ↔ _
    rw [lv_map_filter, lv_lt hi', List.mem_filter]
    simp only [bne_iff_ne, ne_eq, hne, not_false_eq_true, and_true]
    exact mem_level_iff r k hi'

end

/-- the facts about `nodeData` after the unlinking loop of `Delete` -/
structure Unlinked (cmp : Cmp) (a : DB) (d : MemDB.DB) (ix : Bytes → Nat) (key : Bytes) (nd' : Array Nat) : Prop where
  size : nd'.size = a.nodeData.size
  same : ∀ x, (∀ j, j < d.height key → x ≠ nix ix (pth cmp d key j) + nNext + j) → nd'[x]? = a.nodeData[x]?
  link : ∀ j, j < d.height key →
    nd'[nix ix (pth cmp d key j) + nNext + j]? = a.nodeData[ix key + nNext + j]?

/-- on every level the deleted key lies on, its predecessor points to it -/
theorem pred_points (hc : LawfulCmp cmp) (r : Rep cmp a d ix) {key : Bytes} (hk : key ∈ d.level0) {j : Nat}
    (hj : j < d.height key) : a.nodeData[nix ix (pth cmp d key j) + nNext + j]? = some (ix key) := by
  have hjl : j < d.levels.length := by have := height_le_length d key; omega
  have hm : key ∈ d.levels[j] := (mem_level_iff r key hjl).2 hj
  obtain ⟨pre, post, hl, _, _, htw, _⟩ := MemDB.split_mem hc (r.inv.sorted _ (List.getElem_mem hjl)) hm
  have hch := r.chain j hjl
  rw [hl] at hch
  have := (chain_append.1 hch).1.last
  rw [getLastD_map_nix] at this
  rw [pth_lt d key hjl]
  unfold pred
  rw [htw]; exact this

/-- the predecessor of a key is not the node carrying the key -/
theorem pth_ne_key (hc : LawfulCmp cmp) (r : Rep cmp a d ix) {key : Bytes} (hk : key ∈ d.level0) (j : Nat) :
    nix ix (pth cmp d key j) ≠ ix key := by
  have e4 := nNext_eq
  have hlo := (r.node key hk).lo
  by_cases hjl : j < d.levels.length
  · rw [pth_lt d key hjl]
    cases hp : pred cmp d.levels[j] key with
    | none => simp only [nix_none]; omega
    | some q =>
      have hq := MemDB.pred_mem hp
      intro e
      have := r.ix_inj (r.level_sub0 hjl q hq.1) hk e
      exact hc.ne_of_lt hq.2 this
  · rw [pth_ge d key (by omega)]; simp only [nix_none]; omega

theorem delete_arrays (hc : LawfulCmp cmp) (r : Rep cmp a d ix) {key : Bytes} (hk : key ∈ d.level0)
    (pn1 : List Nat) (hlen : pn1.length = tMaxHeight)
    (hpath : ∀ j, j < a.maxHeight → pn1[j]? = some (nix ix (pth cmp d key j))) :
    ∃ nd', unlinkLoop (pn1.take (d.height key)) 0 a.nodeData = some nd' ∧ Unlinked cmp a d ix key nd' := by
  have hHle := height_le_length d key
  have hown : ∀ j, j < d.height key → ∃ H, Owner d ix (nix ix (pth cmp d key j)) H ∧ j < H :=
    fun j hj => r.pth_owner key (by have := r.inv.height; omega)
  have okey : Owner d ix (ix key) (d.height key) := .inr ⟨key, hk, rfl, rfl⟩
  have htake : ∀ j p, (pn1.take (d.height key))[j]? = some p → j < d.height key ∧ p = nix ix (pth cmp d key j) := by
    intro j p hj
    rw [List.getElem?_take] at hj
    by_cases hjh : j < d.height key
    · simp only [hjh, if_true] at hj
      rw [hpath j (by rw [r.mh]; omega)] at hj
      exact ⟨hjh, (Option.some.inj hj).symm⟩
    · simp [hjh] at hj
  have htake' : ∀ j, j < d.height key → (pn1.take (d.height key))[j]? = some (nix ix (pth cmp d key j)) := by
    intro j hj; rw [List.getElem?_take]; simp [hj, hpath j (by rw [r.mh]; omega)]
  have hlt : (pn1.take (d.height key)).length = d.height key := by
    rw [List.length_take, hlen]; have := r.inv.height; omega
  obtain ⟨nd', u1, u2, u3, u4⟩ := unlinkLoop_spec (ix key) (pn1.take (d.height key)) 0 a.nodeData
    (by
      intro j p hj
      obtain ⟨hjh, rfl⟩ := htake j p hj
      rw [Nat.zero_add]; exact pred_points hc r hk hjh)
    (by
      intro j hj
      rw [hlt] at hj
      have := r.owner_lt okey hj; omega)
    (by
      intro j p j' p' hj hj' hne e
      obtain ⟨hjh, rfl⟩ := htake j p hj
      obtain ⟨hjh', rfl⟩ := htake j' p' hj'
      obtain ⟨H, o, hH⟩ := hown j hjh
      obtain ⟨H', o', hH'⟩ := hown j' hjh'
      exact hne (r.slot_inj o o' hH hH' (by omega)).2)
    (by
      intro j p j' hj hj' e
      obtain ⟨hjh, rfl⟩ := htake j p hj
      rw [hlt] at hj'
      obtain ⟨H, o, hH⟩ := hown j hjh
      exact pth_ne_key hc r hk j (r.slot_inj o okey hH hj' (by omega)).1)
  refine ⟨nd', u1, u2, ?_, ?_⟩
  · intro x hne
    exact u3 x (by
      intro j p hj
      obtain ⟨hjh, rfl⟩ := htake j p hj
      have := hne j hjh; omega)
  · intro j hj
    have := u4 j _ (htake' j hj)
    rw [Nat.zero_add] at this; exact this

/-- the array state `Delete` produces represents the ideal table after the `Delete` -/
theorem delete_rep (hc : LawfulCmp cmp) (r : Rep cmp a d ix) {key : Bytes} (hk : key ∈ d.level0)
    {nd' : Array Nat} (pn1 : List Nat) (hlen : pn1.length = tMaxHeight) (U : Unlinked cmp a d ix key nd') :
    Rep cmp { a with prevNode := pn1, nodeData := nd', kvSize := a.kvSize - (key.length + (d.value key).length),
                     n := a.n - 1 } (delOld d key) ix := by
  have e4 := nNext_eq
  have e2 := nVal_eq
  have e1 := nKey_eq
  have e3 := nHeight_eq
  have hinv' := delOld_inv hc r hk
  have hHle := height_le_length d key
  have hLle := r.inv.height
  have same_slot : ∀ {z H i}, Owner d ix z H → i < H → (i < d.height key → z ≠ nix ix (pth cmp d key i)) →
      nd'[z + nNext + i]? = a.nodeData[z + nNext + i]? := by
    intro z H i o hi hne
    refine U.same _ ?_
    intro j hj e
    obtain ⟨H', o', hH'⟩ := r.pth_owner (cmp := cmp) key (i := j) (by omega)
    obtain ⟨ez, eij⟩ := r.slot_inj o o' hi hH' (by omega)
    subst eij
    exact hne hj ez
  have same_field : ∀ {k}, k ∈ d.level0 → ∀ f, f < nNext → nd'[ix k + f]? = a.nodeData[ix k + f]? := by
    intro k hk0 f hf
    refine U.same _ ?_
    intro j hj
    obtain ⟨H', o', hH'⟩ := r.pth_owner (cmp := cmp) key (i := j) (by omega)
    exact r.field_ne_slot hk0 hf o' hH'
  refine
    { inv := hinv', mh := ?_, n := ?_, kvSize := ?_, used := r.used, pn := hlen, fuel := ?_, top := ?_,
      chain := ?_, node := ?_, sep := ?_ }
  · show a.maxHeight = (d.levels.map _).length
    rw [List.length_map]; exact r.mh
  · show a.n - 1 = d.n - 1
    rw [r.n]
  · show a.kvSize - _ = d.kvSize - _
    rw [r.kvSize]
  · show ((d.levels.map (·.filter (· != key))).map List.length).sum + _ ≤ nd'.size
    rw [U.size]
    have := filter_sum_le key d.levels
    have := r.fuel
    omega
  · intro h' hge hlt
    have hge' : d.levels.length ≤ h' := by
      have : (d.levels.map (·.filter (· != key))).length ≤ h' := hge
      simpa using this
    show nd'[nNext + h']? = some 0
    have := same_slot (z := 0) (i := h') (.inl ⟨rfl, rfl⟩) hlt (fun hh => by omega)
    rw [Nat.zero_add] at this
    rw [this]; exact r.top h' hge' hlt
  · intro i hi
    have hi' : i < d.levels.length := by
      have : i < (d.levels.map (·.filter (· != key))).length := hi
      simpa using this
    rw [← lv_lt hi]
    show Chain nd' ix i 0 0 (lv (d.levels.map (·.filter (· != key))) i)
    rw [lv_map_filter, lv_lt hi']
    have hold := r.chain i hi'
    have hs := r.inv.sorted _ (List.getElem_mem hi')
    have hit : i < tMaxHeight := by omega
    have hownk : ∀ k ∈ d.levels[i], Owner d ix (ix k) (d.height k) ∧ i < d.height k := fun k hk' =>
      ⟨.inr ⟨k, r.level_sub0 hi' k hk', rfl, rfl⟩, r.lt_height hi' hk'⟩
    by_cases hih : i < d.height key
    · have hm : key ∈ d.levels[i] := (mem_level_iff r key hi').2 hih
      obtain ⟨pre, post, hl, hlt', hgt', htw, _⟩ := MemDB.split_mem hc hs hm
      have hf : d.levels[i].filter (· != key) = pre ++ post :=
        filter_split hl (fun x hx => hc.ne_of_lt (hlt' x hx)) (fun x hx => (hc.ne_of_lt (hgt' x hx)).symm)
      rw [hf]
      have hp : (pre.map ix).getLastD 0 = nix ix (pth cmp d key i) := by
        rw [getLastD_map_nix, pth_lt d key hi']; unfold pred; rw [htw]
      have hsubl : ∀ k ∈ pre ++ post, k ∈ d.levels[i] := by
        intro k hk'
        rw [hl]
        simp only [List.mem_append, List.mem_cons] at hk' ⊢
        rcases hk' with h | h
        · exact .inl h
        · exact .inr (.inr h)
      rw [hl] at hold
      refine chain_remove pre 0 hold ?_ ?_ ?_
      · rw [hp]; exact U.link i hih
      · intro z hz hne
        rw [hp] at hne
        simp only [List.mem_cons, List.mem_map] at hz
        rcases hz with rfl | ⟨k, hk', rfl⟩
        · exact same_slot (.inl ⟨rfl, rfl⟩) hit (fun _ => hne)
        · have ho := hownk k (hsubl k hk')
          exact same_slot ho.1 ho.2 (fun _ => hne)
      · have hnd := r.level_nodup hc hi'
        rw [hl] at hnd
        refine hnd.sublist ?_
        refine List.Sublist.cons_cons 0 (List.Sublist.map ix ?_)
        exact List.Sublist.append (List.Sublist.refl pre) (List.sublist_cons_self key post)
    · have hm : key ∉ d.levels[i] := fun hm => hih ((mem_level_iff r key hi').1 hm)
      have hf : d.levels[i].filter (· != key) = d.levels[i] :=
        List.filter_eq_self.2 (fun x hx => by
          have : x ≠ key := fun e => hm (e ▸ hx)
          simpa using this)
      rw [hf]
      refine hold.frame ?_ ?_
      · exact same_slot (.inl ⟨rfl, rfl⟩) hit (fun hh => absurd hh hih)
      · intro k hk'
        have ho := hownk k hk'
        exact ⟨rfl, same_slot ho.1 ho.2 (fun hh => absurd hh hih)⟩
  · intro k hk'
    obtain ⟨hk0, hne⟩ := (delOld_level0 hc r hk k).1 hk'
    rw [delOld_height hc r hk hne]
    have hv : (delOld d key).value k = d.value k := MemDB.value_filter_other d hne _ _ _ _
    rw [hv]
    have hnk := r.node k hk0
    obtain ⟨o, o1, o2, o3⟩ := hnk.off
    refine ⟨hnk.lo, by show _ ≤ nd'.size; rw [U.size]; exact hnk.hi, ?_, ?_, ?_, ?_⟩
    · refine ⟨o, ?_, o2, o3⟩
      have := same_field hk0 0 (by omega); simp only [Nat.add_zero] at this
      show nd'[ix k]? = _; rw [this]; exact o1
    · show nd'[ix k + nKey]? = _; rw [same_field hk0 nKey (by omega)]; exact hnk.klen
    · show nd'[ix k + nVal]? = _; rw [same_field hk0 nVal (by omega)]; exact hnk.vlen
    · show nd'[ix k + nHeight]? = _; rw [same_field hk0 nHeight (by omega)]; exact hnk.height
  · intro k hk1 k' hk2 hkk
    obtain ⟨hk0, hne⟩ := (delOld_level0 hc r hk k).1 hk1
    obtain ⟨hk0', hne'⟩ := (delOld_level0 hc r hk k').1 hk2
    rw [delOld_height hc r hk hne, delOld_height hc r hk hne']
    exact r.sep k hk0 k' hk0' hkk

/-- `Delete` of a key that is present -/
theorem delete_present_sim (hc : LawfulCmp cmp) (r : Rep cmp a d ix) {key : Bytes} (hk : key ∈ d.level0) :
    ∃ a', delete cmp a key = some (a', true) ∧ Rep cmp a' (delOld d key) ix ∧ a'.gen = a.gen ∧
      a'.kvData = a.kvData ∧ Unlinked cmp a d ix key a'.nodeData := by
  obtain ⟨pn', g1, glen, _, g4⟩ := findGE_sim r key true
  obtain ⟨he, hn⟩ := findGE_exact hc r key true
  have hpl : pn'.length = tMaxHeight := by rw [glen, r.pn]
  have hex : (MemDB.findGE cmp d key true).exact = true := by rw [he]; simpa using hk
  rw [hex, hn hk] at g1
  have hpath : ∀ j, j < a.maxHeight → pn'[j]? = some (nix ix (pth cmp d key j)) := by
    intro j hj
    have := (g4 rfl).2 j (by omega)
    rw [MemDB.findGE_prev hc r.inv key] at this
    exact this
  obtain ⟨nd', u, U⟩ := delete_arrays hc r hk pn' hpl hpath
  have hnk := r.node key hk
  have hf : ∀ f, f < nNext → nd'[ix key + f]? = a.nodeData[ix key + f]? := by
    intro f hf
    refine U.same _ ?_
    intro j hj
    obtain ⟨H', o', hH'⟩ := r.pth_owner (cmp := cmp) key (i := j)
      (by have := height_le_length d key; have := r.inv.height; omega)
    exact r.field_ne_slot hk hf o' hH'
  have e4 := nNext_eq
  have e2 := nVal_eq
  have e1 := nKey_eq
  refine ⟨_, ?_, delete_rep hc r hk pn' hpl U, rfl, rfl, U⟩
  have hH : ¬ d.height key > pn'.length := by
    have := height_le_length d key; have := r.inv.height; omega
  have k1 : nd'[ix key + nKey]? = some key.length := by rw [hf nKey (by omega)]; exact hnk.klen
  have k2 : nd'[ix key + nVal]? = some (d.value key).length := by rw [hf nVal (by omega)]; exact hnk.vlen
  simp only [delete, g1, Option.bind_some, Option.bind_eq_bind, nix_some, Bool.not_true, Bool.false_eq_true,
    if_false, hnk.height, hH, u, k1, k2]

/-- `Delete` of a key that is absent: only the scratch `prevNode` changes -/
theorem delete_absent_sim (hc : LawfulCmp cmp) (r : Rep cmp a d ix) {key : Bytes} (hk : key ∉ d.level0) :
    ∃ pn', delete cmp a key = some ({ a with prevNode := pn' }, false) ∧ pn'.length = a.prevNode.length := by
  obtain ⟨pn', g1, glen, _, _⟩ := findGE_sim r key true
  obtain ⟨he, _⟩ := findGE_exact hc r key true
  have hex : (MemDB.findGE cmp d key true).exact = false := by rw [he]; simpa using hk
  rw [hex] at g1
  refine ⟨pn', ?_, glen⟩
  simp only [delete, g1, Option.bind_some, Option.bind_eq_bind, Bool.not_false, if_true]

/-- `Delete` on a represented table: the same answer as the ideal `Delete`, and the result represents the ideal
result (same node indices: nothing moves, the dead node stays where it was) -/
theorem delete_sim (hc : LawfulCmp cmp) (r : Rep cmp a d ix) (key : Bytes) :
    ∃ a', delete cmp a key = some (a', (MemDB.delete cmp d key).2) ∧ Rep cmp a' (MemDB.delete cmp d key).1 ix := by
  by_cases hk : key ∈ d.level0
  · obtain ⟨a', e, r', _⟩ := delete_present_sim hc r hk
    rw [MemDB.delete_present hc r.inv hk]
    exact ⟨a', e, r'⟩
  · obtain ⟨pn', e, hl⟩ := delete_absent_sim hc r hk
    rw [MemDB.delete_absent hc r.inv hk]
    exact ⟨_, e, r.setPrev pn' hl⟩

end GoLevel.MemArr
