import GoLevel.Proofs.IterErrMergedA
/-!
# The strict `EMerged` over failing children is a `FailSim` (C02 / C08)

Stage B: the error-free `MergedIter` functions commute with a projection `π` of the child states wherever the
children they visit are healthy (`mapIters_*`), hence (`EMerged.failSim`): over children that are `FailSim`s,
the strict merged iterator is a `FailSim` whose healthy twin is the error-free `MergedIter` over the
children's twins — while `Error()` is nil every child is healthy and the iterator did exactly what the
error-free one does.  Core Lean only.
-/
namespace GoLevel

/-- the same merged-iterator state over projected children -/
def MergedIter.mapIters {σ τ : Type} (π : σ → τ) (m : MergedIter σ) : MergedIter τ :=
  ⟨m.iters.map π, m.keys, m.heap, m.reverse, m.index, m.dir⟩

namespace MergedIter
variable {σ τ : Type}

theorem mapIters_popNext (π : σ → τ) (c : UCmp) (m : MergedIter σ) :
    (popNext c m).mapIters π = popNext c (m.mapIters π) := by
  simp only [popNext, pop, mapIters]
  cases m.heap <;> rfl

theorem mapIters_popPrev (π : σ → τ) (c : UCmp) (m : MergedIter σ) :
    (popPrev c m).mapIters π = popPrev c (m.mapIters π) := by
  simp only [popPrev, pop, mapIters]
  cases m.heap <;> rfl

theorem mapIters_dir (π : σ → τ) (m : MergedIter σ) (d : Dir) :
    ({ m with dir := d } : MergedIter σ).mapIters π = { m.mapIters π with dir := d } := rfl

theorem mapIters_resetAll (π : σ → τ) (o : IterOps σ) (sh : IterOps τ) (rev : Bool) (f : σ → σ) (f' : τ → τ)
    (m : MergedIter σ) (h : ∀ s ∈ m.iters, π (f s) = f' (π s) ∧ o.cur (f s) = sh.cur (π (f s))) :
    (resetAll o rev f m).mapIters π = resetAll sh rev f' (m.mapIters π) := by
  have h1 : (m.iters.map f).map π = (m.iters.map π).map f' := by
    rw [List.map_map, List.map_map]
    exact List.map_congr_left fun s hs => (h s hs).1
  have h2 : (m.iters.map f).map (keyOf o) = ((m.iters.map π).map f').map (keyOf sh) := by
    rw [← h1]
    simp only [List.map_map]
    apply List.map_congr_left
    intro s hs
    simp only [Function.comp, keyOf, (h s hs).2]
  simp only [resetAll, mapIters, h1, h2, List.length_map]

theorem mapIters_stepIndex (π : σ → τ) (o : IterOps σ) (sh : IterOps τ) (f : σ → σ) (f' : τ → τ)
    (m : MergedIter σ)
    (h : ∀ s, m.iters[m.index]? = some s → π (f s) = f' (π s) ∧ o.cur (f s) = sh.cur (π (f s))) :
    (stepIndex o f m).mapIters π = stepIndex sh f' (m.mapIters π) := by
  unfold stepIndex
  simp only [mapIters, List.getElem?_map]
  cases hs : m.iters[m.index]? with
  | none => simp [mapIters]
  | some s =>
    obtain ⟨h1, h2⟩ := h s hs
    simp only [Option.map_some, ← h1, ← h2]
    cases o.cur (f s) <;> simp [mapIters, List.map_set]

theorem mapIters_turnBack (π : σ → τ) (o : IterOps σ) (sh : IterOps τ) (key : IKey) (m : MergedIter σ)
    (h : ∀ i s, m.iters[i]? = some s → i ≠ m.index →
      π (if o.ok (o.seek key s) then o.prev (o.seek key s) else o.last (o.seek key s)) =
        (if sh.ok (sh.seek key (π s)) then sh.prev (sh.seek key (π s)) else sh.last (sh.seek key (π s))) ∧
      o.cur (if o.ok (o.seek key s) then o.prev (o.seek key s) else o.last (o.seek key s)) =
        sh.cur (π (if o.ok (o.seek key s) then o.prev (o.seek key s) else o.last (o.seek key s)))) :
    (turnBack o key m).mapIters π = turnBack sh key (m.mapIters π) := by
  have h1 : (m.iters.mapIdx fun x s =>
        if x = m.index then s
        else
          let s1 := o.seek key s
          if o.ok s1 then o.prev s1 else o.last s1).map π =
      (m.iters.map π).mapIdx fun x t =>
        if x = m.index then t
        else
          let t1 := sh.seek key t
          if sh.ok t1 then sh.prev t1 else sh.last t1 := by
    apply List.ext_getElem?
    intro i
    simp only [List.getElem?_map, List.getElem?_mapIdx]
    cases hs : m.iters[i]? with
    | none => rfl
    | some s =>
      simp only [Option.map_some, Option.some.injEq]
      by_cases hi : i = m.index
      · simp [hi]
      · simp only [hi, if_false]
        exact (h i s hs hi).1
  have h2 : ((m.iters.mapIdx fun x s =>
        if x = m.index then s
        else
          let s1 := o.seek key s
          if o.ok s1 then o.prev s1 else o.last s1).mapIdx fun x s =>
        if x = m.index then keyAt m.keys x else keyOf o s) =
      (((m.iters.map π).mapIdx fun x t =>
        if x = m.index then t
        else
          let t1 := sh.seek key t
          if sh.ok t1 then sh.prev t1 else sh.last t1).mapIdx fun x t =>
        if x = m.index then keyAt m.keys x else keyOf sh t) := by
    rw [← h1]
    apply List.ext_getElem?
    intro i
    simp only [List.getElem?_map, List.getElem?_mapIdx]
    cases hs : m.iters[i]? with
    | none => rfl
    | some s =>
      simp only [Option.map_some, Option.some.injEq]
      by_cases hi : i = m.index
      · simp [hi]
      · simp only [hi, if_false, keyOf]
        rw [(h i s hs hi).2]
  simp only [turnBack, mapIters, h1, h2, List.length_map, List.length_mapIdx]
  rfl

theorem mapIters_cur (π : σ → τ) (o : IterOps σ) (sh : IterOps τ) (m : MergedIter σ)
    (h : ∀ s, m.iters[m.index]? = some s → o.cur s = sh.cur (π s)) :
    cur o m = cur sh (m.mapIters π) := by
  simp only [cur, mapIters, List.getElem?_map]
  cases hs : m.iters[m.index]? with
  | none => simp
  | some s =>
    cases keyAt m.keys m.index with
    | none => simp
    | some k => simp [h s hs]

end MergedIter

namespace EMerged
variable {σ τ : Type}
open MergedIter (keyAt keyOf mapIters)

/-- healthy: no error yet, strict, every child healthy -/
def Healthy (Hc : σ → Prop) (m : EMerged σ) : Prop :=
  m.err = none ∧ m.strict = true ∧ ∀ s ∈ m.base.iters, Hc s

/-- the twin state: the error-free merged iterator over the children's twins -/
def proj (πc : σ → τ) (m : EMerged σ) : MergedIter τ := m.base.mapIters πc

section
variable {o : EIterOps σ} {sh : IterOps τ} {πc : σ → τ} {Hc : σ → Prop} {Fc : σ → Err → Prop}
  (hc : FailSim o sh πc Hc Fc)
include hc

/-- a moved child that the strict iterator did not stop at is healthy again -/
theorem moved_ok (s s' : σ) (hs : Hc s) (cl : Call IKey) (hs' : s' = o.toIterOps.step cl s)
    (hno : ∀ e, o.ok s' = false → o.err s' = some e → False) :
    Hc s' ∧ πc s' = sh.step cl (πc s) := by
  subst hs'
  have he : o.err (o.toIterOps.step cl s) = none := by
    cases hok : o.ok (o.toIterOps.step cl s) with
    | true => exact hc.err_of_ok_step s cl hs hok
    | false =>
      cases he : o.err (o.toIterOps.step cl s) with
      | none => rfl
      | some e => exact (hno e hok he).elim
  exact hc.hstep s cl hs he

theorem resetAllE_healthy (rev : Bool) (cl : Call IKey) (m : EMerged σ) (hm : Healthy Hc m)
    (h : (resetAllE o rev (o.toIterOps.step cl) m).err = none) :
    Healthy Hc (resetAllE o rev (o.toIterOps.step cl) m) ∧
    proj πc (resetAllE o rev (o.toIterOps.step cl) m) =
      MergedIter.resetAll sh rev (sh.step cl) (proj πc m) := by
  obtain ⟨hb, hr⟩ := resetAllE_base o rev _ m hm.1 h
  obtain ⟨_, hmv, _⟩ := moveLoop_none o m.strict _ 0 m.base.iters hr
  have hall : ∀ s ∈ m.base.iters, Hc (o.toIterOps.step cl s) ∧
      πc (o.toIterOps.step cl s) = sh.step cl (πc s) := by
    intro s hs
    obtain ⟨i, hi, hget⟩ := List.getElem_of_mem hs
    refine moved_ok hc s _ (hm.2.2 s hs) cl rfl ?_
    intro e hok he
    have := hmv _ ⟨i, s, by rw [List.getElem?_eq_getElem hi, hget], rfl⟩ e hok he
    rw [hm.2.1] at this; cases this.1
  refine ⟨⟨h, by rw [resetAllE_strict]; exact hm.2.1, ?_⟩, ?_⟩
  · rw [hb]
    intro s hs
    simp only [MergedIter.resetAll, List.mem_map] at hs
    obtain ⟨s0, hs0, rfl⟩ := hs
    exact (hall s0 hs0).1
  · simp only [proj, hb]
    apply MergedIter.mapIters_resetAll
    intro s hs
    exact ⟨(hall s hs).2, hc.hcur _ (hall s hs).1⟩

theorem stepIndexE_healthy (cl : Call IKey) (m : EMerged σ) (hm : Healthy Hc m)
    (h : (stepIndexE o (o.toIterOps.step cl) m).err = none) :
    Healthy Hc (stepIndexE o (o.toIterOps.step cl) m) ∧
    proj πc (stepIndexE o (o.toIterOps.step cl) m) =
      MergedIter.stepIndex sh (sh.step cl) (proj πc m) := by
  obtain ⟨hb, hmv⟩ := stepIndexE_base o _ m hm.1 h
  have hone : ∀ s, m.base.iters[m.base.index]? = some s → Hc (o.toIterOps.step cl s) ∧
      πc (o.toIterOps.step cl s) = sh.step cl (πc s) := by
    intro s hs
    refine moved_ok hc s _ (hm.2.2 s (List.mem_of_getElem? hs)) cl rfl ?_
    intro e hok he
    have := hmv _ ⟨s, hs, rfl⟩ e hok he
    rw [hm.2.1] at this; cases this.1
  refine ⟨⟨h, by rw [stepIndexE_strict]; exact hm.2.1, ?_⟩, ?_⟩
  · rw [hb]
    intro s hs
    unfold MergedIter.stepIndex at hs
    cases hget : m.base.iters[m.base.index]? with
    | none => rw [hget] at hs; exact hm.2.2 s hs
    | some s0 =>
      rw [hget] at hs
      have hmem : s ∈ m.base.iters.set m.base.index (o.toIterOps.step cl s0) := by
        revert hs; simp only; split <;> exact id
      rcases List.mem_or_eq_of_mem_set hmem with h1 | h1
      · exact hm.2.2 s h1
      · rw [h1]; exact (hone s0 hget).1
  · simp only [proj, hb]
    apply MergedIter.mapIters_stepIndex
    intro s hs
    exact ⟨(hone s hs).2, hc.hcur _ (hone s hs).1⟩

/-- the child movement of `Prev`'s direction change -/
theorem turn_ok (key : IKey) (s : σ) (hs : Hc s)
    (hno : ∀ e, o.ok (if o.ok (o.seek key s) then o.prev (o.seek key s) else o.last (o.seek key s)) = false →
      o.err (if o.ok (o.seek key s) then o.prev (o.seek key s) else o.last (o.seek key s)) = some e → False) :
    Hc (if o.ok (o.seek key s) then o.prev (o.seek key s) else o.last (o.seek key s)) ∧
    πc (if o.ok (o.seek key s) then o.prev (o.seek key s) else o.last (o.seek key s)) =
      (if sh.ok (sh.seek key (πc s)) then sh.prev (sh.seek key (πc s)) else sh.last (sh.seek key (πc s))) := by
  -- the seek itself cannot have failed: the follow-up movement would have kept the error
  have hseek : o.err (o.seek key s) = none := by
    cases he : o.err (o.seek key s) with
    | none => rfl
    | some e =>
      exfalso
      have hF : Fc (o.seek key s) e := hc.hfail s (.seek key) e hs he
      have hok : o.ok (o.seek key s) = false := hc.nok_of_failed _ e hF
      simp only [hok, Bool.false_eq_true, if_false] at hno
      have hF' := hc.sticky_last _ e hF
      exact hno e (hc.nok_of_failed _ e hF') (hc.ferr _ e hF')
  obtain ⟨h1, h2⟩ := hc.seek s key hs hseek
  have hok : o.ok (o.seek key s) = sh.ok (sh.seek key (πc s)) := by rw [hc.hok _ h1, h2]
  rw [← hok]
  cases hk : o.ok (o.seek key s) with
  | true =>
    simp only [hk, if_true] at hno ⊢
    have := moved_ok hc _ _ h1 .prev rfl hno
    rw [h2] at this; exact this
  | false =>
    simp only [hk, Bool.false_eq_true, if_false] at hno ⊢
    have := moved_ok hc _ _ h1 .last rfl hno
    rw [h2] at this; exact this

theorem turnBackE_healthy (key : IKey) (m : EMerged σ) (hm : Healthy Hc m)
    (h : (turnBackE o key m).err = none) :
    Healthy Hc (turnBackE o key m) ∧
    proj πc (turnBackE o key m) = MergedIter.turnBack sh key (proj πc m) := by
  obtain ⟨hb, hr⟩ := turnBackE_base o key m hm.1 h
  obtain ⟨_, hmv, _⟩ := moveLoop_none o m.strict _ 0 m.base.iters hr
  have hall : ∀ i s, m.base.iters[i]? = some s → i ≠ m.base.index →
      Hc (if o.ok (o.seek key s) then o.prev (o.seek key s) else o.last (o.seek key s)) ∧
      πc (if o.ok (o.seek key s) then o.prev (o.seek key s) else o.last (o.seek key s)) =
        (if sh.ok (sh.seek key (πc s)) then sh.prev (sh.seek key (πc s)) else sh.last (sh.seek key (πc s))) := by
    intro i s hs hi
    refine turn_ok hc key s (hm.2.2 s (List.mem_of_getElem? hs)) ?_
    intro e hok he
    have := hmv _ ⟨i, s, hs, by simp [turnG, hi]⟩ e hok he
    rw [hm.2.1] at this; cases this.1
  refine ⟨⟨h, by rw [turnBackE_strict]; exact hm.2.1, ?_⟩, ?_⟩
  · rw [hb]
    intro s hs
    simp only [MergedIter.turnBack] at hs
    obtain ⟨i, hi, hget⟩ := List.getElem_of_mem hs
    simp only [List.getElem_mapIdx] at hget
    have hi' : i < m.base.iters.length := by simpa using hi
    by_cases hx : i = m.base.index
    · simp only [hx, if_true] at hget
      rw [← hget]; exact hm.2.2 _ (List.getElem_mem _)
    · simp only [hx, if_false] at hget
      rw [← hget]
      exact (hall i _ (List.getElem?_eq_getElem hi') hx).1
  · simp only [proj, hb]
    apply MergedIter.mapIters_turnBack
    intro i s hs hi
    exact ⟨(hall i s hs hi).2, hc.hcur _ (hall i s hs hi).1⟩

end

end EMerged
end GoLevel
