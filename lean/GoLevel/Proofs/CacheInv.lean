import GoLevel.Proofs.CacheBasic
/-! The inductive invariant of the cache interleaving system (C17), part 1: definitions, structure of the
node list, lock phases. -/
namespace GoLevel.CacheM

theorem upd_map_idkey {ns : List Node} {id : Nat} {f : Node → Node} (hf : ∀ n, (f n).id = n.id ∧ (f n).key = n.key) :
    (upd ns id f).map (fun n => (n.id, n.key)) = ns.map (fun n => (n.id, n.key)) := by
  unfold upd; simp only [List.map_map]; apply List.map_congr_left; intro n _
  simp only [Function.comp]; split <;> simp [hf]

theorem clearLru_map_idkey {ns : List Node} {ev : List Nat} :
    (clearLru ns ev).map (fun n => (n.id, n.key)) = ns.map (fun n => (n.id, n.key)) := by
  unfold clearLru; simp only [List.map_map]; apply List.map_congr_left; intro n _
  simp only [Function.comp]; split <;> rfl

/-- A `callFinalizer` through a stale pointer changes ghost fields only. -/
theorem execFinStale_cases {s s' : Shared} {id : Nat} {f : Bool} {push : List Instr} {evs : List Ev}
    (h : execFinStale s id f = some (s', push, evs)) :
    ∃ st dd, s' = { s with bug := true, stale := st, dead := dd } ∧ push = [] := by
  unfold execFinStale at h
  split at h
  · simp only [Option.some.injEq, Prod.mk.injEq] at h
    exact ⟨s.stale, s.dead, h.1.symm, h.2.1.symm⟩
  · simp only [Option.some.injEq, Prod.mk.injEq] at h
    exact ⟨_, _, h.1.symm, h.2.1.symm⟩

/-- Unfold `exec` for the instruction at hand, split every branch, and substitute the result. -/
syntax "exec_split " ident : tactic
macro_rules
  | `(tactic| exec_split $he:ident) => `(tactic| (
      simp only [exec, execEnter, execBget, execSetv, execPromote, execBan, execLevict, execSetcap,
        execDelz, execUnref, execFin, execCloseLock] at $he:ident
      repeat' (split at $he:ident)
      all_goals (try (simp only [Option.some.injEq, Prod.mk.injEq, reduceCtorEq] at $he:ident))
      all_goals (try (obtain ⟨h1, h2, h3⟩ := $he:ident; subst h1; subst h2; subst h3))
      all_goals (try (obtain ⟨st, dd, h1, h2⟩ := execFinStale_cases $he:ident; subst h1; subst h2))))

/-- How one instruction changes the node list, as far as ids and keys are concerned. -/
theorem exec_nodes_shape {sh sh' : Shared} {i : Instr} {push : List Instr} {evs : List Ev}
    (he : exec sh i = some (sh', push, evs)) :
    (sh'.nodes.map (fun n => (n.id, n.key)) = sh.nodes.map (fun n => (n.id, n.key)) ∧ sh'.nextId = sh.nextId) ∨
    (∃ n, sh'.nodes = n :: sh.nodes ∧ n.id = sh.nextId ∧ sh'.nextId = sh.nextId + 1 ∧
        findKey sh.nodes n.key = none) ∨
    (∃ id, sh'.nodes = eraseId sh.nodes id ∧ sh'.nextId = sh.nextId) := by
  cases i <;> exec_split he
  all_goals first
    | (left; simp [upd_map_idkey, clearLru_map_idkey]; done)
    | (right; left; simp_all; done)
    | (right; right; exact ⟨_, rfl, rfl⟩)

/-! ### the invariant -/

/-- The instruction owns one reference (a unit of `n.ref`) to node `id`. -/
def owns (id : Nat) : Instr → Bool
  | .setv j _ => j == id
  | .promote j => j == id
  | .retHandle j => j == id
  | .unrefInt j => j == id
  | .unrefExt j => j == id
  | _ => false

/-- Instructions that only occur inside an `RLock` section entered while the cache was open. -/
def openOnly : Instr → Bool
  | .bget _ _ => true
  | .setv _ _ => true
  | .promote _ => true
  | .retHandle _ => true
  | .addDel _ _ => true
  | .ban _ => true
  | .unrefInt _ => true
  | .delz _ => true
  | .runDel _ => true
  | _ => false

/-- Instructions that only occur after `Close`. -/
def closedOnly : Instr → Bool
  | .zero _ => true
  | .fin _ _ => true
  | _ => false

/-- The instruction relies on the value of node `id` being present. -/
def holdsVal (id : Nat) : Instr → Bool
  | .promote j => j == id
  | .retHandle j => j == id
  | .unrefExt j => j == id
  | _ => false

/-- After `Close`: the instruction is only there while node `id`'s counter is not positive.  A pending
`callFinalizer` of `unRefExternal` always is (it follows a counter found at zero, after `Close` counters only
fall); the zero branch of `unRefExternal` itself (`extz`) only in the guarded system `g` — without the guard the
node may have been revived before `Close`, which is what the re-check of the repaired code is for. -/
def zeroRef (g : Bool) : Instr → Option Nat
  | .extz id _ => if g then some id else none
  | .fin id false => some id
  | _ => none

/-- Finalisation is safe: the system is guarded, or `unRefExternal` re-checks the counter after `Close`. -/
def Eff (g : Bool) (sh : Shared) : Bool := g || sh.recheck

/-- Instructions that only `Close(true)` issues. -/
def forcedOnly : Instr → Bool
  | .zero _ => true
  | .fin _ true => true
  | _ => false

/-- delFunc ids the instruction carries. -/
def delOf : Instr → List Nat
  | .bget _ (.del (some d)) => [d]
  | .addDel _ d => [d]
  | .runDel d => [d]
  | _ => []

def finVal : Ev → Option Nat
  | .fin _ v _ => some v
  | _ => none

def delId : Ev → Option Nat
  | .delf d _ _ => some d
  | _ => none

/-- Every open-only instruction has an `RUnlock` after it in its thread. -/
def WB : List Instr → Prop
  | [] => True
  | i :: rest => (openOnly i = true → Instr.runlock ∈ rest) ∧ WB rest

def refsP (sh : Shared) (P : List Instr) (id : Nat) : Nat :=
  sh.handles.count id + sh.lru.recent.count id + P.countP (owns id)

/-- The invariant, over the shared state, the multiset `P` of pending instructions and the log.
`g` = the system is guarded (see `sysStep`). -/
structure InvP (g : Bool) (sh : Shared) (P : List Instr) (log : List Ev) : Prop where
  ids : (sh.nodes.map (·.id)).Nodup ∧ ∀ n ∈ sh.nodes, n.id < sh.nextId
  keys : (sh.nodes.map (·.key)).Nodup
  rl : sh.rlock = P.count .runlock
  cl : sh.closed = true → ∀ i ∈ P, openOnly i = false
  op : sh.closed = false → (∀ i ∈ P, closedOnly i = false) ∧ sh.forced = false
  fo : sh.forced = false → ∀ i ∈ P, forcedOnly i = false
  rc : sh.forced = false → ∀ n ∈ sh.nodes, n.ref = refsP sh P n.id
  ex : ∀ id, 0 < refsP sh P id → ∃ n ∈ sh.nodes, n.id = id
  lr : sh.lru.recent.Nodup ∧ ∀ id, id ∈ sh.lru.recent ↔ ∃ n ∈ sh.nodes, n.id = id ∧ n.lru = .inList
  us : sh.lru.used = (sh.lru.recent.map (sizeOf sh.nodes)).sum ∧ sh.lru.used ≤ sh.lru.capacity
  vl : (Eff g sh = true ∨ sh.closed = false) → sh.forced = false → ∀ n ∈ sh.nodes,
        (n.id ∈ sh.handles ∨ n.lru = .inList ∨ ∃ i ∈ P, holdsVal n.id i = true) → n.value.isSome = true
  zr : Eff g sh = true → sh.closed = true → sh.forced = false → ∀ i ∈ P, ∀ id, zeroRef g i = some id →
        ∀ n ∈ sh.nodes, n.id = id → n.ref ≤ 0

/-- Uniqueness of values and delFuncs over the log, the nodes and the pending instructions.  The delFunc part
holds as long as no `callFinalizer` went through a stale pointer (`stale`; impossible in the guarded system). -/
structure LogOK (sh : Shared) (P : List Instr) (log : List Ev) : Prop where
  vals : (log.filterMap finVal ++ sh.nodes.filterMap (·.value)).Nodup ∧
        ∀ v ∈ log.filterMap finVal ++ sh.nodes.filterMap (·.value), v < sh.nextVal
  dels : sh.stale = false →
        (log.filterMap delId ++ sh.nodes.flatMap (·.delFuncs) ++ P.flatMap delOf).Nodup ∧
        ∀ d ∈ log.filterMap delId ++ sh.nodes.flatMap (·.delFuncs) ++ P.flatMap delOf, d < sh.nextDel

/-! ### ids and keys -/

theorem nodup_map_of_pair {ns ns' : List Node}
    (h : ns'.map (fun n => (n.id, n.key)) = ns.map (fun n => (n.id, n.key))) :
    ns'.map (·.id) = ns.map (·.id) ∧ ns'.map (·.key) = ns.map (·.key) := by
  have h1 := congrArg (List.map Prod.fst) h
  have h2 := congrArg (List.map Prod.snd) h
  simp only [List.map_map] at h1 h2
  exact ⟨h1, h2⟩

theorem ids_step {g sh P log sh' i push evs} (h : InvP g sh P log)
    (he : exec sh i = some (sh', push, evs)) :
    (sh'.nodes.map (·.id)).Nodup ∧ ∀ n ∈ sh'.nodes, n.id < sh'.nextId := by
  rcases exec_nodes_shape he with ⟨hm, hn⟩ | ⟨n, hn, hid, hnx, _⟩ | ⟨id, hn, hnx⟩
  · have := (nodup_map_of_pair hm).1
    rw [this, hn]
    refine ⟨h.ids.1, ?_⟩
    intro n hn'
    have : n.id ∈ sh'.nodes.map (·.id) := List.mem_map_of_mem hn'
    rw [‹sh'.nodes.map (·.id) = _›] at this
    obtain ⟨m, hm1, hm2⟩ := List.mem_map.mp this
    rw [← hm2]; exact h.ids.2 m hm1
  · rw [hn, hnx]
    constructor
    · simp only [List.map_cons, List.nodup_cons]
      refine ⟨?_, h.ids.1⟩
      intro hmem
      obtain ⟨m, hm1, hm2⟩ := List.mem_map.mp hmem
      have := h.ids.2 m hm1
      omega
    · intro m hm
      rcases List.mem_cons.mp hm with rfl | hm
      · omega
      · have := h.ids.2 m hm; omega
  · rw [hn, hnx]
    constructor
    · unfold eraseId
      exact List.Nodup.sublist (List.Sublist.map _ List.filter_sublist) h.ids.1
    · intro m hm
      exact h.ids.2 m (mem_eraseId.mp hm).1

theorem keys_step {g sh P log sh' i push evs} (h : InvP g sh P log)
    (he : exec sh i = some (sh', push, evs)) : (sh'.nodes.map (·.key)).Nodup := by
  rcases exec_nodes_shape he with ⟨hm, _⟩ | ⟨n, hn, _, _, hk⟩ | ⟨id, hn, _⟩
  · rw [(nodup_map_of_pair hm).2]; exact h.keys
  · rw [hn]
    simp only [List.map_cons, List.nodup_cons]
    refine ⟨?_, h.keys⟩
    intro hmem
    obtain ⟨m, hm1, hm2⟩ := List.mem_map.mp hmem
    exact findKey_none hk m hm1 hm2
  · rw [hn]; unfold eraseId
    exact List.Nodup.sublist (List.Sublist.map _ List.filter_sublist) h.keys

end GoLevel.CacheM
