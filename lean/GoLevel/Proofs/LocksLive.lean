import GoLevel.Proofs.LocksProgress
import GoLevel.Proofs.LocksMeasure
import GoLevel.Proofs.LocksNoSR
/-! Liveness: all invariants hold in the states `Covered` by C09; fault-free runs are
bounded by the measure and end in states where no call is pending. -/
namespace GoLevel.Locks
set_option linter.unusedSimpArgs false

/-- `SetReadOnly`'s `closeC` arm is harmless: it releases the token, or it is never executed -/
def SrOk (cfg : Cfg) (s : St) : Prop := cfg.setReadOnlyReleasesOnClose = true ∨ NoSR s

theorem step_srOk (cfg : Cfg) (s t : St) (f : Bool) (h : Step cfg f s t) (hs : SrOk cfg s) : SrOk cfg t :=
  hs.elim Or.inl (fun hn => Or.inr (step_noSR cfg s t f h hn))

theorem good_of_idle (s : St) (n : Nat) (hw : s.ws = List.replicate n .idle) (h1 : s.tok = false)
    (h2 : s.clk = false) (h3 : s.trlk = false) (h4 : s.trOpen = false) (h5 : s.ehTok = false)
    (h6 : s.closeTok = false) (h7 : s.mc = .idle) (h8 : s.tc = .idle) (h9 : s.eh = .noerr) : Good s := by
  have hz : ∀ (f : Pc → Nat), f .idle = 0 → tot f s.ws = 0 := fun f hf => by rw [hw]; exact tot_replicate_idle f n hf
  refine ⟨rinv_of_idle s n hw h1 h2 h3 h4 h5 h6 h7 h8, ?_, ?_, ?_, ?_, ?_⟩
  · simp [PInvA, h7, h8, h9]
  · simp [PInvB, h5, b2n]
  · refine ⟨?_, ?_, ?_⟩
    · rw [hz clAllW rfl]; exact Nat.zero_le _
    · rw [h6]; exact Nat.zero_le _
    · rw [hz clPreW rfl, h6]; simp [b2n]
  · simp [PInvD, h4, b2n]
  · intro i b site lg hi
    rw [hw, List.getElem?_replicate] at hi
    split at hi <;> simp at hi

theorem init_good (n : Nat) : Good (init n) := good_of_idle _ n rfl rfl rfl rfl rfl rfl rfl rfl rfl rfl
theorem initNoSR_good (n : Nat) : Good (initNoSR n) :=
  good_of_idle _ n rfl rfl rfl rfl rfl rfl rfl rfl rfl rfl

theorem step_good (cfg : Cfg) (h3 : Fixed3 cfg) (s t : St) (f : Bool) (h : Step cfg f s t)
    (g : Good s ∧ SrOk cfg s) : Good t ∧ SrOk cfg t :=
  ⟨⟨step_rinv cfg h3 s t f g.2 h g.1.r, step_pinvA s t f cfg h3 g.2 h g.1.a, step_pinvB s t f cfg h3 g.2 h g.1.b,
    step_pinvC s t f cfg h3 g.2 h g.1.c, step_pinvD s t f cfg h3 g.2 h g.1.d, step_w1 cfg s t f h g.1.w⟩,
   step_srOk cfg s t f h g.2⟩

/-- what the theorems of C09 cover: the three leaks of `Commit` / `OpenTransaction` / large-batch `Write`
are closed, and either the `SetReadOnly`∥`Close` leak is closed too or no thread executes `SetReadOnly` -/
def Covered (cfg : Cfg) (s : St) : Prop :=
  Fixed3 cfg ∧ ((cfg.setReadOnlyReleasesOnClose = true ∧ Reachable cfg s) ∨ ReachableNoSR cfg s)

theorem covered_good (cfg : Cfg) (s : St) (h : Covered cfg s) : Good s ∧ SrOk cfg s := by
  obtain ⟨h3, h | h⟩ := h
  · obtain ⟨h4, n, hs⟩ := h
    exact steps_inv_of_step (fun s => Good s ∧ SrOk cfg s) (step_good cfg h3) _ _ hs ⟨init_good n, Or.inl h4⟩
  · obtain ⟨n, hs⟩ := h
    exact steps_inv_of_step (fun s => Good s ∧ SrOk cfg s) (step_good cfg h3) _ _ hs
      ⟨initNoSR_good n, Or.inr (initNoSR_noSR n)⟩

theorem covered_steps (cfg : Cfg) (s t : St) (h : Covered cfg s) (hs : Steps cfg s t) : Covered cfg t := by
  obtain ⟨h3, h | h⟩ := h
  · obtain ⟨h4, n, h0⟩ := h
    exact ⟨h3, Or.inl ⟨h4, n, Steps.trans h0 hs⟩⟩
  · obtain ⟨n, h0⟩ := h
    exact ⟨h3, Or.inr ⟨n, Steps.trans h0 hs⟩⟩

/-- fault-free runs with their length -/
inductive StepsNFN (cfg : Cfg) : Nat → St → St → Prop
  | refl (s : St) : StepsNFN cfg 0 s s
  | tail {n : Nat} {s t u : St} : StepsNFN cfg n s t → Step cfg false t u → StepsNFN cfg (n + 1) s u

theorem stepsNFN_measure {cfg : Cfg} {n : Nat} {s t : St} (h : StepsNFN cfg n s t) :
    n + measure t ≤ measure s := by
  induction h with
  | refl => omega
  | tail _ h2 ih => have := step_measure cfg _ _ h2; omega

theorem stepsNF_steps {cfg : Cfg} {s t : St} (h : StepsNF cfg s t) : Steps cfg s t := by
  induction h with
  | refl => exact .refl _
  | tail _ h ih => exact .tail ih h

/-- from every state some fault-free run leads to a state without fault-free successor -/
theorem settle (cfg : Cfg) (s : St) : ∃ t, StepsNF cfg s t ∧ ¬ ∃ u, Step cfg false t u := by
  generalize hm : measure s = m
  induction m using Nat.strongRecOn generalizing s with
  | _ m ih =>
    by_cases h : ∃ u, Step cfg false s u
    · obtain ⟨u, hu⟩ := h
      have := step_measure cfg s u hu
      obtain ⟨t, ht, hq⟩ := ih (measure u) (by omega) u rfl
      refine ⟨t, ?_, hq⟩
      clear hq ih
      induction ht with
      | refl => exact .tail (.refl _) hu
      | tail _ h2 ih2 => exact .tail ih2 h2
    · exact ⟨s, .refl _, h⟩

theorem ackWs_close (ws : List Pc) (w : Option Nat) (b : Bool) (i : Nat) (p : Pc) (hi : ws[i]? = some p)
    (hp : clAllW p = 1 ∨ p = .ret true) :
    ∃ q, (ackWs ws w b)[i]? = some q ∧ (clAllW q = 1 ∨ q = .ret true) := by
  unfold ackWs
  split
  · rename_i j
    split
    · rename_i b' site lg hj
      split
      · refine ⟨p, ?_, hp⟩
        rw [List.getElem?_set]
        split
        · rename_i hji; subst hji; rw [hj] at hi; cases hi; simp [clAllW] at hp
        · exact hi
      · exact ⟨p, hi, hp⟩
    · exact ⟨p, hi, hp⟩
  · exact ⟨p, hi, hp⟩

/-- a thread inside `Close` stays inside `Close` until it returns `nil` -/
theorem close_thread_step (cfg : Cfg) (s t : St) (f : Bool) (h : Step cfg f s t) (i' : Nat) (p' : Pc)
    (hi' : s.ws[i']? = some p') (hp' : clAllW p' = 1 ∨ p' = .ret true) :
    ∃ q, t.ws[i']? = some q ∧ (clAllW q = 1 ∨ q = .ret true) := by
  cases h with
  | startPut _ i hi =>
    (try simp only [St.setDone, St.setBg]) <;> (repeat' split) <;> (try simp only [List.getElem?_set]) <;> grind [St.setBg, St.setDone, St.bg, clearW, onOk, onErr, selNext, afterSetErr, clAllW]
  | startWrite _ i hi =>
    (try simp only [St.setDone, St.setBg]) <;> (repeat' split) <;> (try simp only [List.getElem?_set]) <;> grind [St.setBg, St.setDone, St.bg, clearW, onOk, onErr, selNext, afterSetErr, clAllW]
  | startOtx _ i hi =>
    (try simp only [St.setDone, St.setBg]) <;> (repeat' split) <;> (try simp only [List.getElem?_set]) <;> grind [St.setBg, St.setDone, St.bg, clearW, onOk, onErr, selNext, afterSetErr, clAllW]
  | startCommit _ i hi hu =>
    (try simp only [St.setDone, St.setBg]) <;> (repeat' split) <;> (try simp only [List.getElem?_set]) <;> grind [St.setBg, St.setDone, St.bg, clearW, onOk, onErr, selNext, afterSetErr, clAllW]
  | startDiscard _ i hi hu =>
    (try simp only [St.setDone, St.setBg]) <;> (repeat' split) <;> (try simp only [List.getElem?_set]) <;> grind [St.setBg, St.setDone, St.bg, clearW, onOk, onErr, selNext, afterSetErr, clAllW]
  | startCR _ i hi =>
    (try simp only [St.setDone, St.setBg]) <;> (repeat' split) <;> (try simp only [List.getElem?_set]) <;> grind [St.setBg, St.setDone, St.bg, clearW, onOk, onErr, selNext, afterSetErr, clAllW]
  | startSR _ i hi ha =>
    (try simp only [St.setDone, St.setBg]) <;> (repeat' split) <;> (try simp only [List.getElem?_set]) <;> grind [St.setBg, St.setDone, St.bg, clearW, onOk, onErr, selNext, afterSetErr, clAllW]
  | startClose _ i hi =>
    (try simp only [St.setDone, St.setBg]) <;> (repeat' split) <;> (try simp only [List.getElem?_set]) <;> grind [St.setBg, St.setDone, St.bg, clearW, onOk, onErr, selNext, afterSetErr, clAllW]
  | selTok _ i p q hi hq ht =>
    cases p <;> simp only [selNext] at hq <;> (try contradiction) <;> cases hq <;> (try simp only [List.getElem?_set]) <;> grind [St.setBg, St.setDone, St.bg, clearW, onOk, onErr, selNext, afterSetErr, clAllW]
  | selPerErr _ i p q hi hq he =>
    cases p <;> simp only [selNext] at hq <;> (try contradiction) <;> cases hq <;> (try simp only [List.getElem?_set]) <;> grind [St.setBg, St.setDone, St.bg, clearW, onOk, onErr, selNext, afterSetErr, clAllW]
  | selClosed _ i p q hi hq hc =>
    cases p <;> simp only [selNext] at hq <;> (try contradiction) <;> cases hq <;> (try simp only [List.getElem?_set]) <;> grind [St.setBg, St.setDone, St.bg, clearW, onOk, onErr, selNext, afterSetErr, clAllW]
  | putNoWait _ i hi =>
    (try simp only [St.setDone, St.setBg]) <;> (repeat' split) <;> (try simp only [List.getElem?_set]) <;> grind [St.setBg, St.setDone, St.bg, clearW, onOk, onErr, selNext, afterSetErr, clAllW]
  | putWait _ i b hi =>
    (try simp only [St.setDone, St.setBg]) <;> (repeat' split) <;> (try simp only [List.getElem?_set]) <;> grind [St.setBg, St.setDone, St.bg, clearW, onOk, onErr, selNext, afterSetErr, clAllW]
  | putJournalOk _ i hi =>
    (try simp only [St.setDone, St.setBg]) <;> (repeat' split) <;> (try simp only [List.getElem?_set]) <;> grind [St.setBg, St.setDone, St.bg, clearW, onOk, onErr, selNext, afterSetErr, clAllW]
  | putJournalFail _ i hi =>
    (try simp only [St.setDone, St.setBg]) <;> (repeat' split) <;> (try simp only [List.getElem?_set]) <;> grind [St.setBg, St.setDone, St.bg, clearW, onOk, onErr, selNext, afterSetErr, clAllW]
  | putUnlock _ i r hi =>
    (try simp only [St.setDone, St.setBg]) <;> (repeat' split) <;> (try simp only [List.getElem?_set]) <;> grind [St.setBg, St.setDone, St.bg, clearW, onOk, onErr, selNext, afterSetErr, clAllW]
  | cwSendGo _ i b site lg hi hb =>
    cases site <;> (try simp only [St.setDone, St.setBg]) <;> (repeat' split) <;> (try simp only [List.getElem?_set]) <;> grind [St.setBg, St.setDone, St.bg, clearW, onOk, onErr, selNext, afterSetErr, clAllW]
  | cwSendErr _ i b site lg hi he =>
    cases site <;> (try simp only [St.setDone, St.setBg]) <;> (repeat' split) <;> (try simp only [List.getElem?_set]) <;> grind [St.setBg, St.setDone, St.bg, clearW, onOk, onErr, selNext, afterSetErr, clAllW]
  | cwAckErr _ i b site lg hi he =>
    cases site <;> (try simp only [St.setDone, St.setBg]) <;> (repeat' split) <;> (try simp only [List.getElem?_set]) <;> grind [St.setBg, St.setDone, St.bg, clearW, onOk, onErr, selNext, afterSetErr, clAllW]
  | otxRotate _ i lg hi =>
    (try simp only [St.setDone, St.setBg]) <;> (repeat' split) <;> (try simp only [List.getElem?_set]) <;> grind [St.setBg, St.setDone, St.bg, clearW, onOk, onErr, selNext, afterSetErr, clAllW]
  | otxNoRotate _ i lg hi =>
    (try simp only [St.setDone, St.setBg]) <;> (repeat' split) <;> (try simp only [List.getElem?_set]) <;> grind [St.setBg, St.setDone, St.bg, clearW, onOk, onErr, selNext, afterSetErr, clAllW]
  | otxNewMemOk _ i lg hi =>
    (try simp only [St.setDone, St.setBg]) <;> (repeat' split) <;> (try simp only [List.getElem?_set]) <;> grind [St.setBg, St.setDone, St.bg, clearW, onOk, onErr, selNext, afterSetErr, clAllW]
  | otxNewMemFail _ i lg hi =>
    (try simp only [St.setDone, St.setBg]) <;> (repeat' split) <;> (try simp only [List.getElem?_set]) <;> grind [St.setBg, St.setDone, St.bg, clearW, onOk, onErr, selNext, afterSetErr, clAllW]
  | otxNoWaitComp _ i lg hi =>
    (try simp only [St.setDone, St.setBg]) <;> (repeat' split) <;> (try simp only [List.getElem?_set]) <;> grind [St.setBg, St.setDone, St.bg, clearW, onOk, onErr, selNext, afterSetErr, clAllW]
  | otxWaitComp _ i lg hi =>
    (try simp only [St.setDone, St.setBg]) <;> (repeat' split) <;> (try simp only [List.getElem?_set]) <;> grind [St.setBg, St.setDone, St.bg, clearW, onOk, onErr, selNext, afterSetErr, clAllW]
  | otxFail _ i lg hi =>
    (try simp only [St.setDone, St.setBg]) <;> (repeat' split) <;> (try simp only [List.getElem?_set]) <;> grind [St.setBg, St.setDone, St.bg, clearW, onOk, onErr, selNext, afterSetErr, clAllW]
  | otxRel _ i lg hi =>
    (try simp only [St.setDone, St.setBg]) <;> (repeat' split) <;> (try simp only [List.getElem?_set]) <;> grind [St.setBg, St.setDone, St.bg, clearW, onOk, onErr, selNext, afterSetErr, clAllW]
  | otxDone _ i lg hi =>
    (try simp only [St.setDone, St.setBg]) <;> (repeat' split) <;> (try simp only [List.getElem?_set]) <;> grind [St.setBg, St.setDone, St.bg, clearW, onOk, onErr, selNext, afterSetErr, clAllW]
  | lgWriteOk _ i hi =>
    (try simp only [St.setDone, St.setBg]) <;> (repeat' split) <;> (try simp only [List.getElem?_set]) <;> grind [St.setBg, St.setDone, St.bg, clearW, onOk, onErr, selNext, afterSetErr, clAllW]
  | lgWriteFail _ i hi =>
    (try simp only [St.setDone, St.setBg]) <;> (repeat' split) <;> (try simp only [List.getElem?_set]) <;> grind [St.setBg, St.setDone, St.bg, clearW, onOk, onErr, selNext, afterSetErr, clAllW]
  | cmLockTr _ i lg hi hl =>
    (try simp only [St.setDone, St.setBg]) <;> (repeat' split) <;> (try simp only [List.getElem?_set]) <;> grind [St.setBg, St.setDone, St.bg, clearW, onOk, onErr, selNext, afterSetErr, clAllW]
  | cmFlushOk _ i lg hi =>
    (try simp only [St.setDone, St.setBg]) <;> (repeat' split) <;> (try simp only [List.getElem?_set]) <;> grind [St.setBg, St.setDone, St.bg, clearW, onOk, onErr, selNext, afterSetErr, clAllW]
  | cmFlushEmpty _ i lg hi =>
    (try simp only [St.setDone, St.setBg]) <;> (repeat' split) <;> (try simp only [List.getElem?_set]) <;> grind [St.setBg, St.setDone, St.bg, clearW, onOk, onErr, selNext, afterSetErr, clAllW]
  | cmFlushFail _ i lg hi =>
    (try simp only [St.setDone, St.setBg]) <;> (repeat' split) <;> (try simp only [List.getElem?_set]) <;> grind [St.setBg, St.setDone, St.bg, clearW, onOk, onErr, selNext, afterSetErr, clAllW]
  | cmLockClk _ i lg hi hl =>
    (try simp only [St.setDone, St.setBg]) <;> (repeat' split) <;> (try simp only [List.getElem?_set]) <;> grind [St.setBg, St.setDone, St.bg, clearW, onOk, onErr, selNext, afterSetErr, clAllW]
  | cmTryOk _ i k lg hi =>
    (try simp only [St.setDone, St.setBg]) <;> (repeat' split) <;> (try simp only [List.getElem?_set]) <;> grind [St.setBg, St.setDone, St.bg, clearW, onOk, onErr, selNext, afterSetErr, clAllW]
  | cmTryFail _ i k lg hi =>
    (try simp only [St.setDone, St.setBg]) <;> (repeat' split) <;> (try simp only [List.getElem?_set]) <;> grind [St.setBg, St.setDone, St.bg, clearW, onOk, onErr, selNext, afterSetErr, clAllW]
  | cmSleepTimer _ i k lg hi =>
    (try simp only [St.setDone, St.setBg]) <;> (repeat' split) <;> (try simp only [List.getElem?_set]) <;> grind [St.setBg, St.setDone, St.bg, clearW, onOk, onErr, selNext, afterSetErr, clAllW]
  | cmSleepClosed _ i k lg hi hc =>
    (try simp only [St.setDone, St.setBg]) <;> (repeat' split) <;> (try simp only [List.getElem?_set]) <;> grind [St.setBg, St.setDone, St.bg, clearW, onOk, onErr, selNext, afterSetErr, clAllW]
  | cmFail3 _ i lg hi =>
    (try simp only [St.setDone, St.setBg]) <;> (repeat' split) <;> (try simp only [List.getElem?_set]) <;> grind [St.setBg, St.setDone, St.bg, clearW, onOk, onErr, selNext, afterSetErr, clAllW]
  | cmAfterOk _ i lg hi =>
    (try simp only [St.setDone, St.setBg]) <;> (repeat' split) <;> (try simp only [List.getElem?_set]) <;> grind [St.setBg, St.setDone, St.bg, clearW, onOk, onErr, selNext, afterSetErr, clAllW]
  | cmNoWaitComp _ i lg hi =>
    (try simp only [St.setDone, St.setBg]) <;> (repeat' split) <;> (try simp only [List.getElem?_set]) <;> grind [St.setBg, St.setDone, St.bg, clearW, onOk, onErr, selNext, afterSetErr, clAllW]
  | cmWaitComp _ i lg hi =>
    (try simp only [St.setDone, St.setBg]) <;> (repeat' split) <;> (try simp only [List.getElem?_set]) <;> grind [St.setBg, St.setDone, St.bg, clearW, onOk, onErr, selNext, afterSetErr, clAllW]
  | cmDone _ i lg hi =>
    (try simp only [St.setDone, St.setBg]) <;> (repeat' split) <;> (try simp only [List.getElem?_set]) <;> grind [St.setBg, St.setDone, St.bg, clearW, onOk, onErr, selNext, afterSetErr, clAllW]
  | cmRet _ i ok lg hi =>
    (try simp only [St.setDone, St.setBg]) <;> (repeat' split) <;> (try simp only [List.getElem?_set]) <;> grind [St.setBg, St.setDone, St.bg, clearW, onOk, onErr, selNext, afterSetErr, clAllW]
  | dcLockTr _ i lg hi hl =>
    (try simp only [St.setDone, St.setBg]) <;> (repeat' split) <;> (try simp only [List.getElem?_set]) <;> grind [St.setBg, St.setDone, St.bg, clearW, onOk, onErr, selNext, afterSetErr, clAllW]
  | dcBody _ i lg hi =>
    (try simp only [St.setDone, St.setBg]) <;> (repeat' split) <;> (try simp only [List.getElem?_set]) <;> grind [St.setBg, St.setDone, St.bg, clearW, onOk, onErr, selNext, afterSetErr, clAllW]
  | crNoOverlap _ i hi =>
    (try simp only [St.setDone, St.setBg]) <;> (repeat' split) <;> (try simp only [List.getElem?_set]) <;> grind [St.setBg, St.setDone, St.bg, clearW, onOk, onErr, selNext, afterSetErr, clAllW]
  | crOverlap _ i hi =>
    (try simp only [St.setDone, St.setBg]) <;> (repeat' split) <;> (try simp only [List.getElem?_set]) <;> grind [St.setBg, St.setDone, St.bg, clearW, onOk, onErr, selNext, afterSetErr, clAllW]
  | crNewMemOk _ i hi =>
    (try simp only [St.setDone, St.setBg]) <;> (repeat' split) <;> (try simp only [List.getElem?_set]) <;> grind [St.setBg, St.setDone, St.bg, clearW, onOk, onErr, selNext, afterSetErr, clAllW]
  | crNewMemFail _ i hi =>
    (try simp only [St.setDone, St.setBg]) <;> (repeat' split) <;> (try simp only [List.getElem?_set]) <;> grind [St.setBg, St.setDone, St.bg, clearW, onOk, onErr, selNext, afterSetErr, clAllW]
  | crRelM _ i hi =>
    (try simp only [St.setDone, St.setBg]) <;> (repeat' split) <;> (try simp only [List.getElem?_set]) <;> grind [St.setBg, St.setDone, St.bg, clearW, onOk, onErr, selNext, afterSetErr, clAllW]
  | crRelOk _ i hi =>
    (try simp only [St.setDone, St.setBg]) <;> (repeat' split) <;> (try simp only [List.getElem?_set]) <;> grind [St.setBg, St.setDone, St.bg, clearW, onOk, onErr, selNext, afterSetErr, clAllW]
  | crRelFail _ i hi =>
    (try simp only [St.setDone, St.setBg]) <;> (repeat' split) <;> (try simp only [List.getElem?_set]) <;> grind [St.setBg, St.setDone, St.bg, clearW, onOk, onErr, selNext, afterSetErr, clAllW]
  | srSend _ i hi he =>
    (try simp only [St.setDone, St.setBg]) <;> (repeat' split) <;> (try simp only [List.getElem?_set]) <;> grind [St.setBg, St.setDone, St.bg, clearW, onOk, onErr, selNext, afterSetErr, clAllW]
  | srPerErr _ i hi he =>
    (try simp only [St.setDone, St.setBg]) <;> (repeat' split) <;> (try simp only [List.getElem?_set]) <;> grind [St.setBg, St.setDone, St.bg, clearW, onOk, onErr, selNext, afterSetErr, clAllW]
  | srClosed _ i hi hc =>
    (try simp only [St.setDone, St.setBg]) <;> (repeat' split) <;> (try simp only [List.getElem?_set]) <;> grind [St.setBg, St.setDone, St.bg, clearW, onOk, onErr, selNext, afterSetErr, clAllW]
  | clCheckTr _ i hi =>
    (try simp only [St.setDone, St.setBg]) <;> (repeat' split) <;> (try simp only [List.getElem?_set]) <;> grind [St.setBg, St.setDone, St.bg, clearW, onOk, onErr, selNext, afterSetErr, clAllW]
  | clLockTr _ i hi hl =>
    (try simp only [St.setDone, St.setBg]) <;> (repeat' split) <;> (try simp only [List.getElem?_set]) <;> grind [St.setBg, St.setDone, St.bg, clearW, onOk, onErr, selNext, afterSetErr, clAllW]
  | clBody _ i hi =>
    (try simp only [St.setDone, St.setBg]) <;> (repeat' split) <;> (try simp only [List.getElem?_set]) <;> grind [St.setBg, St.setDone, St.bg, clearW, onOk, onErr, selNext, afterSetErr, clAllW]
  | clAcq _ i hi ht =>
    (try simp only [St.setDone, St.setBg]) <;> (repeat' split) <;> (try simp only [List.getElem?_set]) <;> grind [St.setBg, St.setDone, St.bg, clearW, onOk, onErr, selNext, afterSetErr, clAllW]
  | clWait _ i hi hm ht =>
    (try simp only [St.setDone, St.setBg]) <;> (repeat' split) <;> (try simp only [List.getElem?_set]) <;> grind [St.setBg, St.setDone, St.bg, clearW, onOk, onErr, selNext, afterSetErr, clAllW]
  | ehAcquire _ he ht hn =>
    (try simp only [St.setDone, St.setBg]) <;> (repeat' split) <;> (try simp only [List.getElem?_set]) <;> grind [St.setBg, St.setDone, St.bg, clearW, onOk, onErr, selNext, afterSetErr, clAllW]
  | ehExit _ he hc =>
    (try simp only [St.setDone, St.setBg]) <;> (repeat' split) <;> (try simp only [List.getElem?_set]) <;> grind [St.setBg, St.setDone, St.bg, clearW, onOk, onErr, selNext, afterSetErr, clAllW]
  | bgExitIdle _ b hb hc =>
    (try simp only [St.setDone, St.setBg]) <;> (repeat' split) <;> (try simp only [List.getElem?_set]) <;> grind [St.setBg, St.setDone, St.bg, clearW, onOk, onErr, selNext, afterSetErr, clAllW]
  | bgWorkOk _ b w hb =>
    (try simp only [St.setDone, St.setBg]) <;> (repeat' split) <;> (try simp only [List.getElem?_set]) <;> grind [St.setBg, St.setDone, St.bg, clearW, onOk, onErr, selNext, afterSetErr, clAllW]
  | bgWorkFail _ b w hb =>
    (try simp only [St.setDone, St.setBg]) <;> (repeat' split) <;> (try simp only [List.getElem?_set]) <;> grind [St.setBg, St.setDone, St.bg, clearW, onOk, onErr, selNext, afterSetErr, clAllW]
  | bgCommitOk _ b w hb =>
    (try simp only [St.setDone, St.setBg]) <;> (repeat' split) <;> (try simp only [List.getElem?_set]) <;> grind [St.setBg, St.setDone, St.bg, clearW, onOk, onErr, selNext, afterSetErr, clAllW]
  | bgCommitFail _ b w hb =>
    (try simp only [St.setDone, St.setBg]) <;> (repeat' split) <;> (try simp only [List.getElem?_set]) <;> grind [St.setBg, St.setDone, St.bg, clearW, onOk, onErr, selNext, afterSetErr, clAllW]
  | bgSetErr _ b w ok c hb he =>
    (try simp only [St.setDone, St.setBg]) <;> (repeat' split) <;> (try simp only [List.getElem?_set]) <;> grind [St.setBg, St.setDone, St.bg, clearW, onOk, onErr, selNext, afterSetErr, clAllW]
  | bgSetErrPer _ b w c hb he =>
    (try simp only [St.setDone, St.setBg]) <;> (repeat' split) <;> (try simp only [List.getElem?_set]) <;> grind [St.setBg, St.setDone, St.bg, clearW, onOk, onErr, selNext, afterSetErr, clAllW]
  | bgBackoff _ b w c hb =>
    (try simp only [St.setDone, St.setBg]) <;> (repeat' split) <;> (try simp only [List.getElem?_set]) <;> grind [St.setBg, St.setDone, St.bg, clearW, onOk, onErr, selNext, afterSetErr, clAllW]
  | bgLockClk _ b w hb hl =>
    (try simp only [St.setDone, St.setBg]) <;> (repeat' split) <;> (try simp only [List.getElem?_set]) <;> grind [St.setBg, St.setDone, St.bg, clearW, onOk, onErr, selNext, afterSetErr, clAllW]
  | bgAck _ b w hb =>
    have := ackWs_close s.ws w b i' p' hi' hp'
    cases b <;> simpa [St.setBg] using this
  | bgExit _ b w ph hb hx =>
    (try simp only [St.setDone, St.setBg]) <;> (repeat' split) <;> (try simp only [List.getElem?_set]) <;> grind [St.setBg, St.setDone, St.bg, clearW, onOk, onErr, selNext, afterSetErr, clAllW]

end GoLevel.Locks
