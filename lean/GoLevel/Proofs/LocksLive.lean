import GoLevel.Proofs.LocksProgress
import GoLevel.Proofs.LocksMeasure
import GoLevel.Proofs.LocksNoSR
import GoLevel.Proofs.LocksExact
/-! Liveness: all invariants hold in the states `Covered` by C09; fault-free runs are
bounded by the measure and end in states where no call is pending. -/
namespace GoLevel.Locks
open CompErr
set_option linter.unusedSimpArgs false

/-- `SetReadOnly`'s `closeC` arm is harmless: it releases the token, or it is never executed -/
def SrOk (cfg : Cfg) (s : St) : Prop := cfg.setReadOnlyReleasesOnClose = true ∨ NoSR s

theorem step_srOk (cfg : Cfg) (s t : St) (f : Bool) (h : Step cfg f s t) (hs : SrOk cfg s) : SrOk cfg t :=
  hs.elim Or.inl (fun hn => Or.inr (step_noSR cfg s t f h hn))

theorem rinv_of_idle' (s : St) (n : Nat) (hw : s.ws = List.replicate n .idle) (h1 : s.tok = false)
    (h2 : s.clk = false) (h3 : s.trlk = false) (h4 : s.trOpen = false) (h5 : s.ehTok = false)
    (h6 : s.closeTok = false) (h7 : s.mc = .idle) (h8 : s.tc = .idle) : RInv s :=
  rinv_of_idle s n hw h1 h2 h3 h4 h5 h6 h7 h8

theorem good_of_idle (s : St) (n : Nat) (hw : s.ws = List.replicate n .idle) (h1 : s.tok = false)
    (h2 : s.clk = false) (h3 : s.trlk = false) (h4 : s.trOpen = false) (h5 : s.ehTok = false)
    (h6 : s.closeTok = false) (h7 : s.mc = .idle) (h8 : s.tc = .idle) (h9 : s.eh = .noerr)
    (h10 : s.ro = false) : Good s := by
  have hz : ∀ (f : Pc → Nat), f .idle = 0 → tot f s.ws = 0 := fun f hf => by rw [hw]; exact tot_replicate_idle f n hf
  refine ⟨(rinv_of_idle s n hw h1 h2 h3 h4 h5 h6 h7 h8).weak, ?_, ?_, ?_, ?_, ?_, ?_⟩
  · simp [PInvA, h7, h8, h9, h10]
  · simp [PInvB, h5, b2n]
  · refine ⟨?_, ?_, ?_⟩
    · rw [hz clAllW rfl]; exact Nat.zero_le _
    · rw [h6]; exact Nat.zero_le _
    · rw [hz clPreW rfl, h6]; simp [b2n]
  · simp [PInvD, h4, b2n]
  · simp [PInvE, h10, hz srW rfl]
  · intro i b site lg hi
    rw [hw, List.getElem?_replicate] at hi
    split at hi <;> simp at hi

theorem init_good (n : Nat) : Good (init n) := good_of_idle _ n rfl rfl rfl rfl rfl rfl rfl rfl rfl rfl rfl
theorem initNoSR_good (n : Nat) : Good (initNoSR n) :=
  good_of_idle _ n rfl rfl rfl rfl rfl rfl rfl rfl rfl rfl rfl
theorem initNC_good (n : Nat) : Good (initNC n) :=
  good_of_idle _ n rfl rfl rfl rfl rfl rfl rfl rfl rfl rfl rfl

theorem tokE_of_idle (s : St) (n : Nat) (hw : s.ws = List.replicate n .idle) (h1 : s.tok = false)
    (h4 : s.trOpen = false) (h5 : s.ehTok = false) (h6 : s.closeTok = false) : TokE s := by
  unfold TokE
  rw [hw, tot_replicate_idle _ _ rfl, h1, h4, h5, h6]; rfl

/-- everything the inductive step needs: the invariants, `SrOk`, the exact accounting of the token while the DB
is open, and (before 832d000) `compWriteLocking` set by a `SetReadOnly` between its two `select`s -/
def Inv (cfg : Cfg) (s : St) : Prop := (Good s ∧ SrOk cfg s) ∧ OpenE s ∧ CwlOk cfg s

theorem step_goodE (cfg : Cfg) (h3 : Fixed3 cfg) (hm : cfg.m = .asCoded cfg.closeSel) (hsh : cfg.Shape) (s t : St) (f : Bool)
    (h : Step cfg f s t) (g : Inv cfg s) : Inv cfg t :=
  ⟨⟨⟨step_rinvW cfg h3 s t f h g.1.1.r, step_pinvA s t f cfg h3 hm g.1.2 h g.1.1.a,
      step_pinvB s t f cfg h3 hm g.1.2 hsh g.2.2 h g.1.1.b, step_pinvC s t f cfg h3 hm g.1.2 h g.1.1.c,
      step_pinvD s t f cfg h3 hm g.1.2 h g.1.1.d, step_pinvE s t f cfg h3 hm g.1.2 g.1.1.a g.2.1 h g.1.1.e,
      step_w1 cfg hm s t f h g.1.1.w⟩,
    step_srOk cfg s t f h g.1.2⟩,
   step_openE cfg h3 s t f g.1.2 g.1.1.a g.1.1.e h g.2.1, step_cwlOk s t f cfg h g.2.2⟩

/-- what the theorems of C09 cover: the three leaks of `Commit` / `OpenTransaction` / large-batch `Write`
are closed, `compactionError` is as coded, the hand-over of the token between `SetReadOnly` and `compactionError`
is as coded since 832d000 or as coded before, and either the `SetReadOnly`∥`Close` leak is closed too or no
thread executes `SetReadOnly` -/
def Covered (cfg : Cfg) (s : St) : Prop :=
  Fixed3 cfg ∧ cfg.m = .asCoded cfg.closeSel ∧ cfg.Shape ∧
  ((cfg.setReadOnlyReleasesOnClose = true ∧ (Reachable cfg s ∨ ReachableNC cfg s)) ∨ ReachableNoSR cfg s)

theorem openE_of_idle (s : St) (n : Nat) (hw : s.ws = List.replicate n .idle) (h1 : s.tok = false)
    (h4 : s.trOpen = false) (h5 : s.ehTok = false) (h6 : s.closeTok = false) : OpenE s :=
  fun _ => tokE_of_idle s n hw h1 h4 h5 h6

theorem cwlOk_of_idle (cfg : Cfg) (s : St) (n : Nat) (hw : s.ws = List.replicate n .idle) : CwlOk cfg s := by
  intro _ hp
  rw [hw, tot_replicate_idle _ _ rfl] at hp
  cases hp

theorem covered_goodE (cfg : Cfg) (s : St) (h : Covered cfg s) : (Good s ∧ SrOk cfg s) ∧ OpenE s := by
  obtain ⟨h3, hm, hsh, h | h⟩ := h
  · obtain ⟨h4, ⟨n, hs⟩ | ⟨n, hs⟩⟩ := h
    · have := steps_inv_of_step (Inv cfg) (step_goodE cfg h3 hm hsh) _ _ hs
        ⟨⟨init_good n, Or.inl h4⟩, openE_of_idle _ n rfl rfl rfl rfl rfl, cwlOk_of_idle cfg _ n rfl⟩
      exact ⟨this.1, this.2.1⟩
    · have := steps_inv_of_step (Inv cfg) (step_goodE cfg h3 hm hsh) _ _ hs
        ⟨⟨initNC_good n, Or.inl h4⟩, openE_of_idle _ n rfl rfl rfl rfl rfl, cwlOk_of_idle cfg _ n rfl⟩
      exact ⟨this.1, this.2.1⟩
  · obtain ⟨n, hs⟩ := h
    have := steps_inv_of_step (Inv cfg) (step_goodE cfg h3 hm hsh) _ _ hs
      ⟨⟨initNoSR_good n, Or.inr (initNoSR_noSR n)⟩, openE_of_idle _ n rfl rfl rfl rfl rfl, cwlOk_of_idle cfg _ n rfl⟩
    exact ⟨this.1, this.2.1⟩

theorem covered_good (cfg : Cfg) (s : St) (h : Covered cfg s) : Good s ∧ SrOk cfg s := (covered_goodE cfg s h).1

theorem covered_steps (cfg : Cfg) (s t : St) (h : Covered cfg s) (hs : Steps cfg s t) : Covered cfg t := by
  obtain ⟨h3, hm, hsh, h | h⟩ := h
  · obtain ⟨h4, ⟨n, h0⟩ | ⟨n, h0⟩⟩ := h
    · exact ⟨h3, hm, hsh, Or.inl ⟨h4, Or.inl ⟨n, Steps.trans h0 hs⟩⟩⟩
    · exact ⟨h3, hm, hsh, Or.inl ⟨h4, Or.inr ⟨n, Steps.trans h0 hs⟩⟩⟩
  · obtain ⟨n, h0⟩ := h
    exact ⟨h3, hm, hsh, Or.inr ⟨n, Steps.trans h0 hs⟩⟩

/-- **since 832d000**: the accounting of the token is exact in every run — corruption errors, `SetReadOnly` and
`Close` anywhere -/
theorem exact_handsOver (cfg : Cfg) (h3 : Fixed3 cfg) (hm : cfg.m = .asCoded cfg.closeSel) (hh : cfg.HandsOver)
    (h4 : cfg.setReadOnlyReleasesOnClose = true) (s : St)
    (hr : Reachable cfg s ∨ ReachableNC cfg s ∨ ReachableNoSR cfg s) : ExactH s := by
  have key : ∀ (s0 : St) (n : Nat), s0.ws = List.replicate n .idle → s0.tok = false → s0.trOpen = false →
      s0.ehTok = false → s0.closeTok = false → s0.cwl = false → s0.eh = .noerr → Steps cfg s0 s → ExactH s := by
    intro s0 n hw h1 h2 h5 h6 h7 h8 hs
    refine steps_inv_of_step ExactH (fun s t f h inv => step_exactH cfg h3 hm hh h4 s t f h inv) _ _ hs ?_
    refine ⟨tokE_of_idle _ n hw h1 h2 h5 h6, ?_, ?_, ?_⟩
    · intro h; rw [h7] at h; cases h
    · rw [hw, tot_replicate_idle _ _ rfl]; exact Nat.zero_le _
    · intro h; rw [h8] at h; cases h
  rcases hr with ⟨n, hs⟩ | ⟨n, hs⟩ | ⟨n, hs⟩
  · exact key _ n rfl rfl rfl rfl rfl rfl rfl hs
  · exact key _ n rfl rfl rfl rfl rfl rfl rfl hs
  · exact key _ n rfl rfl rfl rfl rfl rfl rfl hs

/-- runs without corruption errors: the accounting of the token is exact throughout -/
theorem exact_noCorr (cfg : Cfg) (h3 : Fixed3 cfg) (hm : cfg.m = .asCoded cfg.closeSel)
    (h4 : cfg.setReadOnlyReleasesOnClose = true) (s : St) (hr : ReachableNC cfg s) : ExactJ s := by
  obtain ⟨n, hs⟩ := hr
  refine steps_inv_of_step ExactJ (fun s t f h inv => step_exactJ cfg h3 hm s t f (Or.inl h4) h inv) _ _ hs ?_
  refine ⟨tokE_of_idle _ n rfl rfl rfl rfl rfl, ⟨?_, ?_⟩, initNC_noCorr n⟩
  · intro h; rcases h with h | h <;> cases h
  · show tot srW (List.replicate n .idle) ≤ _
    rw [tot_replicate_idle _ _ rfl]; exact Nat.zero_le _

/-- … also when no thread executes `SetReadOnly` (then `compactionError` never holds the token) -/
theorem exact_noSR (cfg : Cfg) (h3 : Fixed3 cfg) (hm : cfg.m = .asCoded cfg.closeSel) (s : St) (hr : ReachableNoSR cfg s) :
    TokE s := by
  obtain ⟨n, hs⟩ := hr
  have key : ∀ s, Steps cfg (initNoSR n) s → True ∧ NoSR s ∧ TokE s := by
    intro s hs
    induction hs with
    | refl => exact ⟨trivial, initNoSR_noSR n, tokE_of_idle _ n rfl rfl rfl rfl rfl⟩
    | @tail t u f _ h ih =>
      obtain ⟨ns', ns, e⟩ := ih
      refine ⟨ns', step_noSR cfg _ _ _ h ns, ?_⟩
      refine step_tokE _ _ _ cfg h3 (Or.inr ns) (fun hp => ?_) (fun hc => ?_) h e
      · exfalso
        have h1 := tot_le_tot srW srAllW (by intro p; cases p <;> simp [srW, srAllW]) t.ws
        have h2 := ns.2
        omega
      · exact noSR_closing cfg hm _ ⟨n, by assumption⟩ hc
  exact (key s hs).2.2

/-- fault-free runs with their length -/
inductive StepsNFN (cfg : Cfg) : Nat → St → St → Prop
  | refl (s : St) : StepsNFN cfg 0 s s
  | tail {n : Nat} {s t u : St} : StepsNFN cfg n s t → Step cfg false t u → StepsNFN cfg (n + 1) s u

theorem stepsNFN_measure {cfg : Cfg} {n : Nat} {s t : St} (h : StepsNFN cfg n s t) :
    n + measure t ≤ measure s := by
  induction h with
  | refl => omega
  | tail _ h2 ih => have := step_measure cfg _ _ h2; omega

theorem stepsNF_steps {cfg : Cfg} {s t : St} (h : StepsNF cfg s t) : Steps cfg s t := by
  induction h with
  | refl => exact .refl _
  | tail _ h ih => exact .tail ih h

/-- from every state some fault-free run leads to a state without fault-free successor -/
theorem settle (cfg : Cfg) (s : St) : ∃ t, StepsNF cfg s t ∧ ¬ ∃ u, Step cfg false t u := by
  generalize hm : measure s = m
  induction m using Nat.strongRecOn generalizing s with
  | _ m ih =>
    by_cases h : ∃ u, Step cfg false s u
    · obtain ⟨u, hu⟩ := h
      have := step_measure cfg s u hu
      obtain ⟨t, ht, hq⟩ := ih (measure u) (by omega) u rfl
      refine ⟨t, ?_, hq⟩
      clear hq ih
      induction ht with
      | refl => exact .tail (.refl _) hu
      | tail _ h2 ih2 => exact .tail ih2 h2
    · exact ⟨s, .refl _, h⟩

theorem ackWs_close (ws : List Pc) (w : Option Nat) (b : Bool) (i : Nat) (p : Pc) (hi : ws[i]? = some p)
    (hp : clAllW p = 1 ∨ p = .ret true) :
    ∃ q, (ackWs ws w b)[i]? = some q ∧ (clAllW q = 1 ∨ q = .ret true) := by
  unfold ackWs
  split
  · rename_i j
    split
    · rename_i b' site lg hj
      split
      · refine ⟨p, ?_, hp⟩
        rw [List.getElem?_set]
        split
        · rename_i hji; subst hji; rw [hj] at hi; cases hi; simp [clAllW] at hp
        · exact hi
      · exact ⟨p, hi, hp⟩
    · exact ⟨p, hi, hp⟩
  · exact ⟨p, hi, hp⟩

/-- a thread inside `Close` stays inside `Close` until it returns `nil` -/
theorem close_thread_step (cfg : Cfg) (s t : St) (f : Bool) (h : Step cfg f s t) (i' : Nat) (p' : Pc)
    (hi' : s.ws[i']? = some p') (hp' : clAllW p' = 1 ∨ p' = .ret true) :
    ∃ q, t.ws[i']? = some q ∧ (clAllW q = 1 ∨ q = .ret true) := by
  cases h with
  | startPut _ i hi =>
    (try simp only [St.setDone, St.setBg, ↓reduceIte, Bool.false_eq_true, Bool.and_false, Bool.and_true, Bool.false_and, Bool.true_and]) <;> (repeat' split) <;> (try simp only [List.getElem?_set]) <;> grind [St.setBg, St.setDone, St.bg, clearW, onOk, onErr, selNext, afterSetErr, clAllW]
  | startWrite _ i hi =>
    (try simp only [St.setDone, St.setBg, ↓reduceIte, Bool.false_eq_true, Bool.and_false, Bool.and_true, Bool.false_and, Bool.true_and]) <;> (repeat' split) <;> (try simp only [List.getElem?_set]) <;> grind [St.setBg, St.setDone, St.bg, clearW, onOk, onErr, selNext, afterSetErr, clAllW]
  | startOtx _ i hi =>
    (try simp only [St.setDone, St.setBg, ↓reduceIte, Bool.false_eq_true, Bool.and_false, Bool.and_true, Bool.false_and, Bool.true_and]) <;> (repeat' split) <;> (try simp only [List.getElem?_set]) <;> grind [St.setBg, St.setDone, St.bg, clearW, onOk, onErr, selNext, afterSetErr, clAllW]
  | startCommit _ i hi hu =>
    (try simp only [St.setDone, St.setBg, ↓reduceIte, Bool.false_eq_true, Bool.and_false, Bool.and_true, Bool.false_and, Bool.true_and]) <;> (repeat' split) <;> (try simp only [List.getElem?_set]) <;> grind [St.setBg, St.setDone, St.bg, clearW, onOk, onErr, selNext, afterSetErr, clAllW]
  | startDiscard _ i hi hu =>
    (try simp only [St.setDone, St.setBg, ↓reduceIte, Bool.false_eq_true, Bool.and_false, Bool.and_true, Bool.false_and, Bool.true_and]) <;> (repeat' split) <;> (try simp only [List.getElem?_set]) <;> grind [St.setBg, St.setDone, St.bg, clearW, onOk, onErr, selNext, afterSetErr, clAllW]
  | startCR _ i hi =>
    (try simp only [St.setDone, St.setBg, ↓reduceIte, Bool.false_eq_true, Bool.and_false, Bool.and_true, Bool.false_and, Bool.true_and]) <;> (repeat' split) <;> (try simp only [List.getElem?_set]) <;> grind [St.setBg, St.setDone, St.bg, clearW, onOk, onErr, selNext, afterSetErr, clAllW]
  | startSR _ i hi ha =>
    (try simp only [St.setDone, St.setBg, ↓reduceIte, Bool.false_eq_true, Bool.and_false, Bool.and_true, Bool.false_and, Bool.true_and]) <;> (repeat' split) <;> (try simp only [List.getElem?_set]) <;> grind [St.setBg, St.setDone, St.bg, clearW, onOk, onErr, selNext, afterSetErr, clAllW]
  | startClose _ i hi =>
    (try simp only [St.setDone, St.setBg, ↓reduceIte, Bool.false_eq_true, Bool.and_false, Bool.and_true, Bool.false_and, Bool.true_and]) <;> (repeat' split) <;> (try simp only [List.getElem?_set]) <;> grind [St.setBg, St.setDone, St.bg, clearW, onOk, onErr, selNext, afterSetErr, clAllW]
  | selTok _ i p q hi hq ht =>
    cases p <;> simp only [selNext] at hq <;> (try contradiction) <;> cases hq <;> (try simp only [List.getElem?_set]) <;> grind [St.setBg, St.setDone, St.bg, clearW, onOk, onErr, selNext, afterSetErr, clAllW]
  | selPerErr _ i p q hi hq he =>
    cases p <;> simp only [selNext] at hq <;> (try contradiction) <;> cases hq <;> (try simp only [List.getElem?_set]) <;> grind [St.setBg, St.setDone, St.bg, clearW, onOk, onErr, selNext, afterSetErr, clAllW]
  | selClosed _ i p q hi hq hc =>
    cases p <;> simp only [selNext] at hq <;> (try contradiction) <;> cases hq <;> (try simp only [List.getElem?_set]) <;> grind [St.setBg, St.setDone, St.bg, clearW, onOk, onErr, selNext, afterSetErr, clAllW]
  | putNoWait _ i hi =>
    (try simp only [St.setDone, St.setBg, ↓reduceIte, Bool.false_eq_true, Bool.and_false, Bool.and_true, Bool.false_and, Bool.true_and]) <;> (repeat' split) <;> (try simp only [List.getElem?_set]) <;> grind [St.setBg, St.setDone, St.bg, clearW, onOk, onErr, selNext, afterSetErr, clAllW]
  | putWait _ i b hi =>
    (try simp only [St.setDone, St.setBg, ↓reduceIte, Bool.false_eq_true, Bool.and_false, Bool.and_true, Bool.false_and, Bool.true_and]) <;> (repeat' split) <;> (try simp only [List.getElem?_set]) <;> grind [St.setBg, St.setDone, St.bg, clearW, onOk, onErr, selNext, afterSetErr, clAllW]
  | putJournalOk _ i hi =>
    (try simp only [St.setDone, St.setBg, ↓reduceIte, Bool.false_eq_true, Bool.and_false, Bool.and_true, Bool.false_and, Bool.true_and]) <;> (repeat' split) <;> (try simp only [List.getElem?_set]) <;> grind [St.setBg, St.setDone, St.bg, clearW, onOk, onErr, selNext, afterSetErr, clAllW]
  | putJournalFail _ i hi =>
    (try simp only [St.setDone, St.setBg, ↓reduceIte, Bool.false_eq_true, Bool.and_false, Bool.and_true, Bool.false_and, Bool.true_and]) <;> (repeat' split) <;> (try simp only [List.getElem?_set]) <;> grind [St.setBg, St.setDone, St.bg, clearW, onOk, onErr, selNext, afterSetErr, clAllW]
  | putUnlock _ i r hi =>
    (try simp only [St.setDone, St.setBg, ↓reduceIte, Bool.false_eq_true, Bool.and_false, Bool.and_true, Bool.false_and, Bool.true_and]) <;> (repeat' split) <;> (try simp only [List.getElem?_set]) <;> grind [St.setBg, St.setDone, St.bg, clearW, onOk, onErr, selNext, afterSetErr, clAllW]
  | cwSendGo _ i b site lg hi hb hro =>
    cases site <;> (try simp only [St.setDone, St.setBg, ↓reduceIte, Bool.false_eq_true, Bool.and_false, Bool.and_true, Bool.false_and, Bool.true_and]) <;> (repeat' split) <;> (try simp only [List.getElem?_set]) <;> grind [St.setBg, St.setDone, St.bg, clearW, onOk, onErr, selNext, afterSetErr, clAllW]
  | cwSendRO _ i site lg hi hb hp hro =>
    cases site <;> (try simp only [St.setDone, St.setBg, ↓reduceIte, Bool.false_eq_true, Bool.and_false, Bool.and_true, Bool.false_and, Bool.true_and]) <;> (repeat' split) <;> (try simp only [List.getElem?_set]) <;> grind [St.setBg, St.setDone, St.bg, clearW, onOk, onErr, selNext, afterSetErr, clAllW]
  | cwSendErr _ i b site lg hi he =>
    cases site <;> (try simp only [St.setDone, St.setBg, ↓reduceIte, Bool.false_eq_true, Bool.and_false, Bool.and_true, Bool.false_and, Bool.true_and]) <;> (repeat' split) <;> (try simp only [List.getElem?_set]) <;> grind [St.setBg, St.setDone, St.bg, clearW, onOk, onErr, selNext, afterSetErr, clAllW]
  | cwAckErr _ i b site lg hi he =>
    cases site <;> (try simp only [St.setDone, St.setBg, ↓reduceIte, Bool.false_eq_true, Bool.and_false, Bool.and_true, Bool.false_and, Bool.true_and]) <;> (repeat' split) <;> (try simp only [List.getElem?_set]) <;> grind [St.setBg, St.setDone, St.bg, clearW, onOk, onErr, selNext, afterSetErr, clAllW]
  | otxRotate _ i lg hi =>
    (try simp only [St.setDone, St.setBg, ↓reduceIte, Bool.false_eq_true, Bool.and_false, Bool.and_true, Bool.false_and, Bool.true_and]) <;> (repeat' split) <;> (try simp only [List.getElem?_set]) <;> grind [St.setBg, St.setDone, St.bg, clearW, onOk, onErr, selNext, afterSetErr, clAllW]
  | otxNoRotate _ i lg hi =>
    (try simp only [St.setDone, St.setBg, ↓reduceIte, Bool.false_eq_true, Bool.and_false, Bool.and_true, Bool.false_and, Bool.true_and]) <;> (repeat' split) <;> (try simp only [List.getElem?_set]) <;> grind [St.setBg, St.setDone, St.bg, clearW, onOk, onErr, selNext, afterSetErr, clAllW]
  | otxNewMemOk _ i lg hi =>
    (try simp only [St.setDone, St.setBg, ↓reduceIte, Bool.false_eq_true, Bool.and_false, Bool.and_true, Bool.false_and, Bool.true_and]) <;> (repeat' split) <;> (try simp only [List.getElem?_set]) <;> grind [St.setBg, St.setDone, St.bg, clearW, onOk, onErr, selNext, afterSetErr, clAllW]
  | otxNewMemFail _ i lg hi =>
    (try simp only [St.setDone, St.setBg, ↓reduceIte, Bool.false_eq_true, Bool.and_false, Bool.and_true, Bool.false_and, Bool.true_and]) <;> (repeat' split) <;> (try simp only [List.getElem?_set]) <;> grind [St.setBg, St.setDone, St.bg, clearW, onOk, onErr, selNext, afterSetErr, clAllW]
  | otxNoWaitComp _ i lg hi =>
    (try simp only [St.setDone, St.setBg, ↓reduceIte, Bool.false_eq_true, Bool.and_false, Bool.and_true, Bool.false_and, Bool.true_and]) <;> (repeat' split) <;> (try simp only [List.getElem?_set]) <;> grind [St.setBg, St.setDone, St.bg, clearW, onOk, onErr, selNext, afterSetErr, clAllW]
  | otxWaitComp _ i lg hi =>
    (try simp only [St.setDone, St.setBg, ↓reduceIte, Bool.false_eq_true, Bool.and_false, Bool.and_true, Bool.false_and, Bool.true_and]) <;> (repeat' split) <;> (try simp only [List.getElem?_set]) <;> grind [St.setBg, St.setDone, St.bg, clearW, onOk, onErr, selNext, afterSetErr, clAllW]
  | otxFail _ i lg hi =>
    (try simp only [St.setDone, St.setBg, ↓reduceIte, Bool.false_eq_true, Bool.and_false, Bool.and_true, Bool.false_and, Bool.true_and]) <;> (repeat' split) <;> (try simp only [List.getElem?_set]) <;> grind [St.setBg, St.setDone, St.bg, clearW, onOk, onErr, selNext, afterSetErr, clAllW]
  | otxRel _ i lg hi =>
    (try simp only [St.setDone, St.setBg, ↓reduceIte, Bool.false_eq_true, Bool.and_false, Bool.and_true, Bool.false_and, Bool.true_and]) <;> (repeat' split) <;> (try simp only [List.getElem?_set]) <;> grind [St.setBg, St.setDone, St.bg, clearW, onOk, onErr, selNext, afterSetErr, clAllW]
  | otxDone _ i lg hi =>
    (try simp only [St.setDone, St.setBg, ↓reduceIte, Bool.false_eq_true, Bool.and_false, Bool.and_true, Bool.false_and, Bool.true_and]) <;> (repeat' split) <;> (try simp only [List.getElem?_set]) <;> grind [St.setBg, St.setDone, St.bg, clearW, onOk, onErr, selNext, afterSetErr, clAllW]
  | lgWriteOk _ i hi =>
    (try simp only [St.setDone, St.setBg, ↓reduceIte, Bool.false_eq_true, Bool.and_false, Bool.and_true, Bool.false_and, Bool.true_and]) <;> (repeat' split) <;> (try simp only [List.getElem?_set]) <;> grind [St.setBg, St.setDone, St.bg, clearW, onOk, onErr, selNext, afterSetErr, clAllW]
  | lgWriteFail _ i hi =>
    (try simp only [St.setDone, St.setBg, ↓reduceIte, Bool.false_eq_true, Bool.and_false, Bool.and_true, Bool.false_and, Bool.true_and]) <;> (repeat' split) <;> (try simp only [List.getElem?_set]) <;> grind [St.setBg, St.setDone, St.bg, clearW, onOk, onErr, selNext, afterSetErr, clAllW]
  | cmLockTr _ i lg hi hl =>
    (try simp only [St.setDone, St.setBg, ↓reduceIte, Bool.false_eq_true, Bool.and_false, Bool.and_true, Bool.false_and, Bool.true_and]) <;> (repeat' split) <;> (try simp only [List.getElem?_set]) <;> grind [St.setBg, St.setDone, St.bg, clearW, onOk, onErr, selNext, afterSetErr, clAllW]
  | cmFlushOk _ i lg hi =>
    (try simp only [St.setDone, St.setBg, ↓reduceIte, Bool.false_eq_true, Bool.and_false, Bool.and_true, Bool.false_and, Bool.true_and]) <;> (repeat' split) <;> (try simp only [List.getElem?_set]) <;> grind [St.setBg, St.setDone, St.bg, clearW, onOk, onErr, selNext, afterSetErr, clAllW]
  | cmFlushEmpty _ i lg hi =>
    (try simp only [St.setDone, St.setBg, ↓reduceIte, Bool.false_eq_true, Bool.and_false, Bool.and_true, Bool.false_and, Bool.true_and]) <;> (repeat' split) <;> (try simp only [List.getElem?_set]) <;> grind [St.setBg, St.setDone, St.bg, clearW, onOk, onErr, selNext, afterSetErr, clAllW]
  | cmFlushFail _ i lg hi =>
    (try simp only [St.setDone, St.setBg, ↓reduceIte, Bool.false_eq_true, Bool.and_false, Bool.and_true, Bool.false_and, Bool.true_and]) <;> (repeat' split) <;> (try simp only [List.getElem?_set]) <;> grind [St.setBg, St.setDone, St.bg, clearW, onOk, onErr, selNext, afterSetErr, clAllW]
  | cmLockClk _ i lg hi hl =>
    (try simp only [St.setDone, St.setBg, ↓reduceIte, Bool.false_eq_true, Bool.and_false, Bool.and_true, Bool.false_and, Bool.true_and]) <;> (repeat' split) <;> (try simp only [List.getElem?_set]) <;> grind [St.setBg, St.setDone, St.bg, clearW, onOk, onErr, selNext, afterSetErr, clAllW]
  | cmTryOk _ i k lg hi =>
    (try simp only [St.setDone, St.setBg, ↓reduceIte, Bool.false_eq_true, Bool.and_false, Bool.and_true, Bool.false_and, Bool.true_and]) <;> (repeat' split) <;> (try simp only [List.getElem?_set]) <;> grind [St.setBg, St.setDone, St.bg, clearW, onOk, onErr, selNext, afterSetErr, clAllW]
  | cmTryFail _ i k lg hi =>
    (try simp only [St.setDone, St.setBg, ↓reduceIte, Bool.false_eq_true, Bool.and_false, Bool.and_true, Bool.false_and, Bool.true_and]) <;> (repeat' split) <;> (try simp only [List.getElem?_set]) <;> grind [St.setBg, St.setDone, St.bg, clearW, onOk, onErr, selNext, afterSetErr, clAllW]
  | cmSleepTimer _ i k lg hi =>
    (try simp only [St.setDone, St.setBg, ↓reduceIte, Bool.false_eq_true, Bool.and_false, Bool.and_true, Bool.false_and, Bool.true_and]) <;> (repeat' split) <;> (try simp only [List.getElem?_set]) <;> grind [St.setBg, St.setDone, St.bg, clearW, onOk, onErr, selNext, afterSetErr, clAllW]
  | cmSleepClosed _ i k lg hi hc =>
    (try simp only [St.setDone, St.setBg, ↓reduceIte, Bool.false_eq_true, Bool.and_false, Bool.and_true, Bool.false_and, Bool.true_and]) <;> (repeat' split) <;> (try simp only [List.getElem?_set]) <;> grind [St.setBg, St.setDone, St.bg, clearW, onOk, onErr, selNext, afterSetErr, clAllW]
  | cmFail3 _ i lg hi =>
    (try simp only [St.setDone, St.setBg, ↓reduceIte, Bool.false_eq_true, Bool.and_false, Bool.and_true, Bool.false_and, Bool.true_and]) <;> (repeat' split) <;> (try simp only [List.getElem?_set]) <;> grind [St.setBg, St.setDone, St.bg, clearW, onOk, onErr, selNext, afterSetErr, clAllW]
  | cmAfterOk _ i lg hi =>
    (try simp only [St.setDone, St.setBg, ↓reduceIte, Bool.false_eq_true, Bool.and_false, Bool.and_true, Bool.false_and, Bool.true_and]) <;> (repeat' split) <;> (try simp only [List.getElem?_set]) <;> grind [St.setBg, St.setDone, St.bg, clearW, onOk, onErr, selNext, afterSetErr, clAllW]
  | cmNoWaitComp _ i lg hi =>
    (try simp only [St.setDone, St.setBg, ↓reduceIte, Bool.false_eq_true, Bool.and_false, Bool.and_true, Bool.false_and, Bool.true_and]) <;> (repeat' split) <;> (try simp only [List.getElem?_set]) <;> grind [St.setBg, St.setDone, St.bg, clearW, onOk, onErr, selNext, afterSetErr, clAllW]
  | cmWaitComp _ i lg hi =>
    (try simp only [St.setDone, St.setBg, ↓reduceIte, Bool.false_eq_true, Bool.and_false, Bool.and_true, Bool.false_and, Bool.true_and]) <;> (repeat' split) <;> (try simp only [List.getElem?_set]) <;> grind [St.setBg, St.setDone, St.bg, clearW, onOk, onErr, selNext, afterSetErr, clAllW]
  | cmDone _ i lg hi =>
    (try simp only [St.setDone, St.setBg, ↓reduceIte, Bool.false_eq_true, Bool.and_false, Bool.and_true, Bool.false_and, Bool.true_and]) <;> (repeat' split) <;> (try simp only [List.getElem?_set]) <;> grind [St.setBg, St.setDone, St.bg, clearW, onOk, onErr, selNext, afterSetErr, clAllW]
  | cmRet _ i ok lg hi =>
    (try simp only [St.setDone, St.setBg, ↓reduceIte, Bool.false_eq_true, Bool.and_false, Bool.and_true, Bool.false_and, Bool.true_and]) <;> (repeat' split) <;> (try simp only [List.getElem?_set]) <;> grind [St.setBg, St.setDone, St.bg, clearW, onOk, onErr, selNext, afterSetErr, clAllW]
  | dcLockTr _ i lg hi hl =>
    (try simp only [St.setDone, St.setBg, ↓reduceIte, Bool.false_eq_true, Bool.and_false, Bool.and_true, Bool.false_and, Bool.true_and]) <;> (repeat' split) <;> (try simp only [List.getElem?_set]) <;> grind [St.setBg, St.setDone, St.bg, clearW, onOk, onErr, selNext, afterSetErr, clAllW]
  | dcBody _ i lg hi =>
    (try simp only [St.setDone, St.setBg, ↓reduceIte, Bool.false_eq_true, Bool.and_false, Bool.and_true, Bool.false_and, Bool.true_and]) <;> (repeat' split) <;> (try simp only [List.getElem?_set]) <;> grind [St.setBg, St.setDone, St.bg, clearW, onOk, onErr, selNext, afterSetErr, clAllW]
  | crNoOverlap _ i hi =>
    (try simp only [St.setDone, St.setBg, ↓reduceIte, Bool.false_eq_true, Bool.and_false, Bool.and_true, Bool.false_and, Bool.true_and]) <;> (repeat' split) <;> (try simp only [List.getElem?_set]) <;> grind [St.setBg, St.setDone, St.bg, clearW, onOk, onErr, selNext, afterSetErr, clAllW]
  | crOverlap _ i hi =>
    (try simp only [St.setDone, St.setBg, ↓reduceIte, Bool.false_eq_true, Bool.and_false, Bool.and_true, Bool.false_and, Bool.true_and]) <;> (repeat' split) <;> (try simp only [List.getElem?_set]) <;> grind [St.setBg, St.setDone, St.bg, clearW, onOk, onErr, selNext, afterSetErr, clAllW]
  | crNewMemOk _ i hi =>
    (try simp only [St.setDone, St.setBg, ↓reduceIte, Bool.false_eq_true, Bool.and_false, Bool.and_true, Bool.false_and, Bool.true_and]) <;> (repeat' split) <;> (try simp only [List.getElem?_set]) <;> grind [St.setBg, St.setDone, St.bg, clearW, onOk, onErr, selNext, afterSetErr, clAllW]
  | crNewMemFail _ i hi =>
    (try simp only [St.setDone, St.setBg, ↓reduceIte, Bool.false_eq_true, Bool.and_false, Bool.and_true, Bool.false_and, Bool.true_and]) <;> (repeat' split) <;> (try simp only [List.getElem?_set]) <;> grind [St.setBg, St.setDone, St.bg, clearW, onOk, onErr, selNext, afterSetErr, clAllW]
  | crRelM _ i hi =>
    (try simp only [St.setDone, St.setBg, ↓reduceIte, Bool.false_eq_true, Bool.and_false, Bool.and_true, Bool.false_and, Bool.true_and]) <;> (repeat' split) <;> (try simp only [List.getElem?_set]) <;> grind [St.setBg, St.setDone, St.bg, clearW, onOk, onErr, selNext, afterSetErr, clAllW]
  | crRelOk _ i hi =>
    (try simp only [St.setDone, St.setBg, ↓reduceIte, Bool.false_eq_true, Bool.and_false, Bool.and_true, Bool.false_and, Bool.true_and]) <;> (repeat' split) <;> (try simp only [List.getElem?_set]) <;> grind [St.setBg, St.setDone, St.bg, clearW, onOk, onErr, selNext, afterSetErr, clAllW]
  | crRelFail _ i hi =>
    (try simp only [St.setDone, St.setBg, ↓reduceIte, Bool.false_eq_true, Bool.and_false, Bool.and_true, Bool.false_and, Bool.true_and]) <;> (repeat' split) <;> (try simp only [List.getElem?_set]) <;> grind [St.setBg, St.setDone, St.bg, clearW, onOk, onErr, selNext, afterSetErr, clAllW]
  | srSend _ i hi he =>
    (try simp only [St.setDone, St.setBg, ↓reduceIte, Bool.false_eq_true, Bool.and_false, Bool.and_true, Bool.false_and, Bool.true_and]) <;> (repeat' split) <;> (try simp only [List.getElem?_set]) <;> grind [St.setBg, St.setDone, St.bg, clearW, onOk, onErr, selNext, afterSetErr, clAllW]
  | srPerErr _ i hi he =>
    (try simp only [St.setDone, St.setBg, ↓reduceIte, Bool.false_eq_true, Bool.and_false, Bool.and_true, Bool.false_and, Bool.true_and]) <;> (repeat' split) <;> (try simp only [List.getElem?_set]) <;> grind [St.setBg, St.setDone, St.bg, clearW, onOk, onErr, selNext, afterSetErr, clAllW]
  | srClosed _ i hi hc =>
    (try simp only [St.setDone, St.setBg, ↓reduceIte, Bool.false_eq_true, Bool.and_false, Bool.and_true, Bool.false_and, Bool.true_and]) <;> (repeat' split) <;> (try simp only [List.getElem?_set]) <;> grind [St.setBg, St.setDone, St.bg, clearW, onOk, onErr, selNext, afterSetErr, clAllW]
  | clCheckTr _ i hi =>
    (try simp only [St.setDone, St.setBg, ↓reduceIte, Bool.false_eq_true, Bool.and_false, Bool.and_true, Bool.false_and, Bool.true_and]) <;> (repeat' split) <;> (try simp only [List.getElem?_set]) <;> grind [St.setBg, St.setDone, St.bg, clearW, onOk, onErr, selNext, afterSetErr, clAllW]
  | clLockTr _ i hi hl =>
    (try simp only [St.setDone, St.setBg, ↓reduceIte, Bool.false_eq_true, Bool.and_false, Bool.and_true, Bool.false_and, Bool.true_and]) <;> (repeat' split) <;> (try simp only [List.getElem?_set]) <;> grind [St.setBg, St.setDone, St.bg, clearW, onOk, onErr, selNext, afterSetErr, clAllW]
  | clBody _ i hi =>
    (try simp only [St.setDone, St.setBg, ↓reduceIte, Bool.false_eq_true, Bool.and_false, Bool.and_true, Bool.false_and, Bool.true_and]) <;> (repeat' split) <;> (try simp only [List.getElem?_set]) <;> grind [St.setBg, St.setDone, St.bg, clearW, onOk, onErr, selNext, afterSetErr, clAllW]
  | clAcq _ i hi ht =>
    (try simp only [St.setDone, St.setBg, ↓reduceIte, Bool.false_eq_true, Bool.and_false, Bool.and_true, Bool.false_and, Bool.true_and]) <;> (repeat' split) <;> (try simp only [List.getElem?_set]) <;> grind [St.setBg, St.setDone, St.bg, clearW, onOk, onErr, selNext, afterSetErr, clAllW]
  | clAcqKept _ i hi he hk hs =>
    (try simp only [St.setDone, St.setBg, ↓reduceIte, Bool.false_eq_true, Bool.and_false, Bool.and_true, Bool.false_and, Bool.true_and]) <;> (repeat' split) <;> (try simp only [List.getElem?_set]) <;> grind [St.setBg, St.setDone, St.bg, clearW, onOk, onErr, selNext, afterSetErr, clAllW]
  | clWait _ i hi hm ht =>
    (try simp only [St.setDone, St.setBg, ↓reduceIte, Bool.false_eq_true, Bool.and_false, Bool.and_true, Bool.false_and, Bool.true_and]) <;> (repeat' split) <;> (try simp only [List.getElem?_set]) <;> grind [St.setBg, St.setDone, St.bg, clearW, onOk, onErr, selNext, afterSetErr, clAllW]
  | ehAcquire _ he ht =>
    (try simp only [St.setDone, St.setBg, ↓reduceIte, Bool.false_eq_true, Bool.and_false, Bool.and_true, Bool.false_and, Bool.true_and]) <;> (repeat' split) <;> (try simp only [List.getElem?_set]) <;> grind [St.setBg, St.setDone, St.bg, clearW, onOk, onErr, selNext, afterSetErr, clAllW]
  | ehClose _ he hc =>
    (try simp only [St.setDone, St.setBg, ↓reduceIte, Bool.false_eq_true, Bool.and_false, Bool.and_true, Bool.false_and, Bool.true_and]) <;> (repeat' split) <;> (try simp only [List.getElem?_set]) <;> grind [St.setBg, St.setDone, St.bg, clearW, onOk, onErr, selNext, afterSetErr, clAllW]
  | ehTake _ he ht =>
    (try simp only [St.setDone, St.setBg, ↓reduceIte, Bool.false_eq_true, Bool.and_false, Bool.and_true, Bool.false_and, Bool.true_and]) <;> (repeat' split) <;> (try simp only [List.getElem?_set]) <;> grind [St.setBg, St.setDone, St.bg, clearW, onOk, onErr, selNext, afterSetErr, clAllW]
  | bgExitIdle _ b hb hc =>
    (try simp only [St.setDone, St.setBg, ↓reduceIte, Bool.false_eq_true, Bool.and_false, Bool.and_true, Bool.false_and, Bool.true_and]) <;> (repeat' split) <;> (try simp only [List.getElem?_set]) <;> grind [St.setBg, St.setDone, St.bg, clearW, onOk, onErr, selNext, afterSetErr, clAllW]
  | bgExitParked _ hb hc =>
    (try simp only [St.setDone, St.setBg, ↓reduceIte, Bool.false_eq_true, Bool.and_false, Bool.and_true, Bool.false_and, Bool.true_and]) <;> (repeat' split) <;> (try simp only [List.getElem?_set]) <;> grind [St.setBg, St.setDone, St.bg, clearW, onOk, onErr, selNext, afterSetErr, clAllW]
  | bgWorkCorrupt _ b w hb hk =>
    (try simp only [St.setDone, St.setBg, ↓reduceIte, Bool.false_eq_true, Bool.and_false, Bool.and_true, Bool.false_and, Bool.true_and]) <;> (repeat' split) <;> (try simp only [List.getElem?_set]) <;> grind [St.setBg, St.setDone, St.bg, clearW, onOk, onErr, selNext, afterSetErr, clAllW]
  | bgCommitCorrupt _ b w hb hk =>
    (try simp only [St.setDone, St.setBg, ↓reduceIte, Bool.false_eq_true, Bool.and_false, Bool.and_true, Bool.false_and, Bool.true_and]) <;> (repeat' split) <;> (try simp only [List.getElem?_set]) <;> grind [St.setBg, St.setDone, St.bg, clearW, onOk, onErr, selNext, afterSetErr, clAllW]
  | bgSetErrCorrupt _ b w c hb he =>
    (try simp only [St.setDone, St.setBg, ↓reduceIte, Bool.false_eq_true, Bool.and_false, Bool.and_true, Bool.false_and, Bool.true_and]) <;> (repeat' split) <;> (try simp only [List.getElem?_set]) <;> grind [St.setBg, St.setDone, St.bg, clearW, onOk, onErr, selNext, afterSetErr, clAllW]
  | bgWorkOk _ b w hb =>
    (try simp only [St.setDone, St.setBg, ↓reduceIte, Bool.false_eq_true, Bool.and_false, Bool.and_true, Bool.false_and, Bool.true_and]) <;> (repeat' split) <;> (try simp only [List.getElem?_set]) <;> grind [St.setBg, St.setDone, St.bg, clearW, onOk, onErr, selNext, afterSetErr, clAllW]
  | bgWorkFail _ b w hb =>
    (try simp only [St.setDone, St.setBg, ↓reduceIte, Bool.false_eq_true, Bool.and_false, Bool.and_true, Bool.false_and, Bool.true_and]) <;> (repeat' split) <;> (try simp only [List.getElem?_set]) <;> grind [St.setBg, St.setDone, St.bg, clearW, onOk, onErr, selNext, afterSetErr, clAllW]
  | bgCommitOk _ b w hb =>
    (try simp only [St.setDone, St.setBg, ↓reduceIte, Bool.false_eq_true, Bool.and_false, Bool.and_true, Bool.false_and, Bool.true_and]) <;> (repeat' split) <;> (try simp only [List.getElem?_set]) <;> grind [St.setBg, St.setDone, St.bg, clearW, onOk, onErr, selNext, afterSetErr, clAllW]
  | bgCommitFail _ b w hb =>
    (try simp only [St.setDone, St.setBg, ↓reduceIte, Bool.false_eq_true, Bool.and_false, Bool.and_true, Bool.false_and, Bool.true_and]) <;> (repeat' split) <;> (try simp only [List.getElem?_set]) <;> grind [St.setBg, St.setDone, St.bg, clearW, onOk, onErr, selNext, afterSetErr, clAllW]
  | bgSetErr _ b w ok c hb he =>
    (try simp only [St.setDone, St.setBg, ↓reduceIte, Bool.false_eq_true, Bool.and_false, Bool.and_true, Bool.false_and, Bool.true_and]) <;> (repeat' split) <;> (try simp only [List.getElem?_set]) <;> grind [St.setBg, St.setDone, St.bg, clearW, onOk, onErr, selNext, afterSetErr, clAllW]
  | bgSetErrPer _ b w c hb he =>
    (try simp only [St.setDone, St.setBg, ↓reduceIte, Bool.false_eq_true, Bool.and_false, Bool.and_true, Bool.false_and, Bool.true_and]) <;> (repeat' split) <;> (try simp only [List.getElem?_set]) <;> grind [St.setBg, St.setDone, St.bg, clearW, onOk, onErr, selNext, afterSetErr, clAllW]
  | bgBackoff _ b w c hb =>
    (try simp only [St.setDone, St.setBg, ↓reduceIte, Bool.false_eq_true, Bool.and_false, Bool.and_true, Bool.false_and, Bool.true_and]) <;> (repeat' split) <;> (try simp only [List.getElem?_set]) <;> grind [St.setBg, St.setDone, St.bg, clearW, onOk, onErr, selNext, afterSetErr, clAllW]
  | bgLockClk _ b w hb hl =>
    (try simp only [St.setDone, St.setBg, ↓reduceIte, Bool.false_eq_true, Bool.and_false, Bool.and_true, Bool.false_and, Bool.true_and]) <;> (repeat' split) <;> (try simp only [List.getElem?_set]) <;> grind [St.setBg, St.setDone, St.bg, clearW, onOk, onErr, selNext, afterSetErr, clAllW]
  | bgAck _ b w hb =>
    have := ackWs_close s.ws w b i' p' hi' hp'
    cases b <;> simpa [St.setBg] using this
  | bgExit _ b w ph hb hx =>
    (try simp only [St.setDone, St.setBg, ↓reduceIte, Bool.false_eq_true, Bool.and_false, Bool.and_true, Bool.false_and, Bool.true_and]) <;> (repeat' split) <;> (try simp only [List.getElem?_set]) <;> grind [St.setBg, St.setDone, St.bg, clearW, onOk, onErr, selNext, afterSetErr, clAllW]

end GoLevel.Locks
