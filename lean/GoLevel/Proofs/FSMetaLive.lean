import GoLevel.Proofs.FSMeta
/-! `setMeta` from a clean directory: what `GetMeta` answers in each state it can end in, without a machine crash. -/
namespace GoLevel.FSMeta

/-- what `GetMeta` answers in a state `setMeta b` ended in (no crash): `b` once `CURRENT.<b>` is completely written
    and `b` is the greater number, or once the rename has happened -/
def liveAnswer (p : CleanP) (fs : FS) : FD :=
  if fs.read .cur = some (.gen (m p.b)) then m p.b
  else if fs.read (.pend p.b) = some (.gen (m p.b)) ∧ p.a < p.b then m p.b
  else m p.a

set_option maxRecDepth 4000 in
set_option maxHeartbeats 4000000 in
theorem shape_live (p : CleanP) (hp : p.Ok) {r : Except Err Unit} {d : Bool} {fs : FS} (h : Shape p r d fs) :
    ask {} true fs = .ok (liveAnswer p fs) := by
  obtain ⟨a, b, ca, bak, files⟩ := p
  obtain ⟨hne, fa, fb⟩ := hp
  try simp only at hne fa fb
  have hne' : ¬ b = a := fun h => hne h.symm
  by_cases hab : a < b <;> cases bak <;> cases h
  case' pos.none.new _ y hy => simp [filling, cutOf, Content.gen] at hy; rcases hy with rfl | rfl | rfl | rfl | rfl | rfl
  case' pos.some.new _ y hy => simp [filling, cutOf, Content.gen] at hy; rcases hy with rfl | rfl | rfl | rfl | rfl | rfl
  case' neg.none.new _ y hy => simp [filling, cutOf, Content.gen] at hy; rcases hy with rfl | rfl | rfl | rfl | rfl | rfl
  case' neg.some.new _ y hy => simp [filling, cutOf, Content.gen] at hy; rcases hy with rfl | rfl | rfl | rfl | rfl | rfl
  all_goals (simp only [liveAnswer]; eval_ask)

/-- once `setMeta b` has returned nil the directory is synced: every crash image answers `b` -/
theorem shape_done (p : CleanP) (hp : p.Ok) {fs : FS} (h : Shape p (.ok ()) false fs) (ch : Choice) :
    ask {} true (fs.image ch) = .ok (m p.b) ∧ ask {} true fs = .ok (m p.b) := by
  obtain ⟨a, b, ca, bak, files⟩ := p
  obtain ⟨hne, fa, fb⟩ := hp
  try simp only at hne fa fb
  cases h
  case fin => constructor <;> eval_ask
  all_goals simp_all

end GoLevel.FSMeta
