import GoLevel.Model.Journal
/-! Byte-level lemmas for the journal proofs: little-endian round trips and parsing of a well-formed chunk. -/
namespace GoLevel.Journal
open GoLevel.Gen (journalBlockSize journalHeaderSize fullChunkType firstChunkType middleChunkType lastChunkType)

local notation "blockSize" => journalBlockSize
local notation "headerSize" => journalHeaderSize

theorem leN_length (n x : Nat) : (leN n x).length = n := by
  induction n generalizing x with
  | zero => rfl
  | succ n ih => simp [leN, ih]

theorem toUInt8_toNat (x : Nat) : (x % 256).toUInt8.toNat = x % 256 := by
  simp [Nat.toUInt8]

theorem rdLE_leN (n x : Nat) : rdLE (leN n x) = x % 256 ^ n := by
  induction n generalizing x with
  | zero => simp [leN, rdLE, Nat.mod_one]
  | succ n ih =>
    simp only [leN, rdLE, ih, toUInt8_toNat]
    rw [Nat.pow_succ, Nat.mul_comm (256 ^ n) 256, Nat.mod_mul]

theorem rd32_le32 (x : Nat) (t : Bytes) (h : x < 4294967296) : rd32 (le32 x ++ t) = x := by
  unfold rd32 le32
  rw [List.take_left' (leN_length 4 x), rdLE_leN]
  exact Nat.mod_eq_of_lt h

theorem rd16_le16 (x : Nat) (t : Bytes) (h : x < 65536) : rd16 (le16 x ++ t) = x := by
  unfold rd16 le16
  rw [List.take_left' (leN_length 2 x), rdLE_leN]
  exact Nat.mod_eq_of_lt h

theorem chunkHeader_length (ty : Nat) (p : Bytes) : (chunkHeader ty p).length = headerSize := by
  simp [chunkHeader, le32, le16, leN_length, headerSize_eq]

theorem chunk_length (ty : Nat) (p : Bytes) : (chunk ty p).length = headerSize + p.length := by
  simp [chunk, chunkHeader_length]

/-- the four chunk types are valid type bytes -/
theorem chunkType_range (f l : Bool) : fullChunkType ≤ chunkType f l ∧ chunkType f l ≤ lastChunkType ∧
    chunkType f l < 256 ∧ chunkType f l ≠ 0 := by
  cases f <;> cases l <;> decide

theorem chunkType_last (f l : Bool) :
    (chunkType f l = fullChunkType ∨ chunkType f l = lastChunkType) ↔ l = true := by
  cases f <;> cases l <;> decide

theorem chunkType_first (f l : Bool) :
    (chunkType f l ≠ fullChunkType ∧ chunkType f l ≠ firstChunkType) ↔ f = false := by
  cases f <;> cases l <;> decide

/-- fields of a well-formed chunk as the reader extracts them -/
theorem chunk_fields (ty : Nat) (p more : Bytes) (hty : ty < 256) (hp : p.length < 65536) :
    rd32 (chunk ty p ++ more) = (CRC.crcValue (ty.toUInt8 :: p)).toNat ∧
    rd16 ((chunk ty p ++ more).drop 4) = p.length ∧
    (chunk ty p ++ more).getD 6 0 = ty.toUInt8 ∧
    (ty.toUInt8).toNat = ty ∧
    ((chunk ty p ++ more).drop headerSize).take p.length = p ∧
    (chunk ty p ++ more).drop (headerSize + p.length) = more := by
  have h4 : (le32 (CRC.crcValue (ty.toUInt8 :: p)).toNat).length = 4 := leN_length _ _
  have h2 : (le16 p.length).length = 2 := leN_length _ _
  refine ⟨?_, ?_, ?_, ?_, ?_, ?_⟩
  · simp only [chunk, chunkHeader, List.append_assoc]
    exact rd32_le32 _ _ (UInt32.toNat_lt _)
  · simp only [chunk, chunkHeader, List.append_assoc]
    rw [List.drop_left' h4]
    exact rd16_le16 _ _ hp
  · simp only [chunk, chunkHeader, List.append_assoc]
    rw [List.getD_eq_getElem?_getD, List.getElem?_append_right (by omega), h4,
      List.getElem?_append_right (by omega), h2]
    simp
  · simp [Nat.toUInt8, Nat.mod_eq_of_lt hty]
  · rw [chunk, List.append_assoc, List.drop_left' (chunkHeader_length ty p), List.take_left' rfl]
  · rw [List.drop_left' (chunk_length ty p)]

end GoLevel.Journal
