import GoLevel.Proofs.SessionOps1
/-! `version.releaseNB` (readers' `unpin`, and the release inside `setVersion`) (C07). -/
namespace GoLevel.Session
open GoLevel GoLevel.RefLoop

theorem drop_eq {s : Sess} {id : Nat} {o : VObj} (ho : s.obj id = some o) :
    s.drop id = if o.pins + (if id = s.cur ∧ ¬ s.closed then 1 else 0) > 0 then (s, [])
      else ({ s with objs := s.objs.filter (·.id != id) }, [.rel id o.files]) := by
  simp [Sess.drop, ho]

theorem drop_none {s : Sess} {id : Nat} (ho : s.obj id = none) : s.drop id = (s, []) := by
  simp [Sess.drop, ho]

/-- The last holder of version `id` lets go: its object disappears and the release task is processed. -/
theorem sim_release {y : Sys} {G : EnvF} {U : List Nat} (h : Sim y G U) {o : VObj} (ho : o ∈ y.sess.objs)
    (hk : o.id < G.dn ∨ (G.closing = true ∧ o.id = G.dn)) :
    ∃ l' rm, run y.loop [.rel o.id o.files] = some (l', rm) ∧
      Sim ⟨{ y.sess with objs := y.sess.objs.filter (·.id != o.id) }, l', y.requests ++ rm⟩
        { G with rel := o.id :: G.rel } (U.filter (fun f => decide (f ∉ rm))) ∧
      SafeF { G with rel := o.id :: G.rel } l'.next rm := by
  obtain ⟨hi, hnr⟩ := h.objs o ho
  have hs : EnvStepF y.loop.next G (.rel o.id (G.T o.id)) { G with rel := o.id :: G.rel } := by
    rcases hk with hk | ⟨hc, hk⟩
    · exact EnvStepF.rel G o.id hi hk hnr
    · rw [hk] at hnr ⊢; exact EnvStepF.relClose G hc hnr
  rw [← h.files o ho] at hs
  obtain ⟨l', rm, e1, ok1, le1, sf1⟩ := single_chain h.ok hs
  refine ⟨l', rm, e1, ⟨ok1, h.nt, h.ntpos, h.closing, h.cur, ?_, ?_, ?_, ?_, ?_, ?_, ?_, ?_⟩, sf1⟩
  · exact (List.filter_sublist.map _).nodup h.idsnd
  · intro o' ho'
    obtain ⟨h1, h2⟩ := List.mem_filter.mp ho'
    obtain ⟨h3, h4⟩ := h.objs o' h1
    refine ⟨h3, fun hm => ?_⟩
    rcases List.mem_cons.mp hm with h5 | h5
    · simp [h5] at h2
    · exact h4 h5
  · intro hc k h1 h2
    have h2' : k ≠ o.id ∧ k ∉ G.rel := by
      constructor
      · intro h3; exact h2 (by rw [h3]; exact List.mem_cons_self)
      · intro h3; exact h2 (List.mem_cons_of_mem _ h3)
    obtain ⟨o', ho', rfl⟩ := h.objs' hc k h1 h2'.2
    exact ⟨o', List.mem_filter.mpr ⟨ho', by simp [h2'.1]⟩, rfl⟩
  · intro o' ho'
    exact h.files o' (List.mem_filter.mp ho').1
  · exact h.lsm
  · exact h.view
  · intro hc
    have hcl : G.closing = false := by rw [h.closing]; exact hc
    have := used_step (new := []) (h.used hc) (G' := { G with rel := o.id :: G.rel }) (nx' := l'.next)
      (fun k hik hal => Or.inl ⟨hik, by
        rcases hal with h1 | h1
        · exact Or.inl (fun h2 => h1 (List.mem_cons_of_mem _ h2))
        · exact Or.inr (Nat.le_trans (G.cb_mono le1) h1), rfl⟩) sf1 hcl
    simpa using this
  · intro hc o' ho' hid
    exact h.clsobj hc o' (List.mem_filter.mp ho').1 hid

/-- an object disappears without a message (the sender took the `<-closeC` arm) -/
theorem sim_drop_silent {y : Sys} {G : EnvF} {U : List Nat} (h : Sim y G U) (hc : y.sess.closed = true) (id : Nat) :
    Sim ⟨{ y.sess with objs := y.sess.objs.filter (·.id != id) }, y.loop, y.requests⟩ G U := by
  refine ⟨h.ok, h.nt, h.ntpos, h.closing, h.cur, (List.filter_sublist.map _).nodup h.idsnd, ?_, ?_, ?_,
    h.lsm, h.view, h.used, ?_⟩
  · intro o ho; exact h.objs o (List.mem_filter.mp ho).1
  · intro hc'; rw [hc] at hc'; cases hc'
  · intro o ho; exact h.files o (List.mem_filter.mp ho).1
  · intro hc' o ho hid; exact h.clsobj hc' o (List.mem_filter.mp ho).1 hid

/-- where a version that is not the session's current one sits -/
theorem Sim.id_pos {y : Sys} {G : EnvF} {U : List Nat} (h : Sim y G U) {o : VObj} (ho : o ∈ y.sess.objs)
    (hne : ¬ (o.id = y.sess.cur ∧ ¬ y.sess.closed)) (hp : 0 < o.pins) :
    o.id < G.dn ∨ (G.closing = true ∧ o.id = G.dn) := by
  obtain ⟨hi, hnr⟩ := h.objs o ho
  have hlt := EnvF.inst_lt hi
  by_cases hc : y.sess.closed = true
  · have hcl : G.closing = true := by rw [h.closing]; exact hc
    obtain ⟨_, _, _, h1, h2⟩ := h.ok.inv.wf.cls hcl
    rcases Nat.lt_trichotomy o.id G.dn with h3 | h3 | h3
    · exact Or.inl h3
    · exact Or.inr ⟨hcl, h3⟩
    · exfalso
      have h4 : G.up (G.dn + 1) ≤ o.id := EnvF.up_le_of_inst (by omega) hi
      have := h.clsobj hc o ho (by omega)
      omega
  · have hc' : y.sess.closed = false := by simpa using hc
    obtain ⟨h1, h2⟩ := h.cur hc'
    left
    rcases Nat.lt_trichotomy o.id G.dn with h3 | h3 | h3
    · exact h3
    · exact absurd ⟨by rw [h3, h1], hc⟩ hne
    · have h4 : G.up (G.dn + 1) ≤ o.id := EnvF.up_le_of_inst (by omega) hi
      omega

theorem step_unpin {y : Sys} {G : EnvF} {U : List Nat} (h : Sim y G U) (id : Nat) (delivered : Bool) :
    StepOK y U (.unpin id delivered) := by
  intro s' ms hop
  simp only [Sess.op] at hop
  split at hop
  · cases hop
  · rename_i o hobj
    split at hop
    · cases hop
    · rename_i hpre
      obtain ⟨ho, hid⟩ := obj_mem hobj
      subst hid
      have hp : 0 < o.pins := by
        rcases Nat.eq_zero_or_pos o.pins with h0 | h0
        · exact absurd (Or.inl h0) hpre
        · exact h0
      -- the pins drop by one
      let g : VObj → Nat := fun o' => if o'.id = o.id then o'.pins - 1 else o'.pins
      have hs1 := sim_pins h g y.sess.manifest (fun _ o' _ => by
          show (if o'.id = o.id then o'.pins - 1 else o'.pins) ≤ o'.pins
          split
          · exact Nat.sub_le _ _
          · exact Nat.le_refl _)
        (fun hm => hm) (fun _ h1 h2 => by rw [h1] at h2; cases h2)
      have e : (y.sess.objs.map fun o' => ({ o' with pins := g o' } : VObj)) =
          y.sess.objs.map fun o' => if o'.id = o.id then { o' with pins := o'.pins - 1 } else o' := by
        apply List.map_congr_left; intro o' _
        by_cases hc : o'.id = o.id <;> simp [g, hc]
      rw [e] at hs1
      -- the object after that
      have ho1 : ({ o with pins := o.pins - 1 } : VObj) ∈
          y.sess.objs.map fun o' => if o'.id = o.id then { o' with pins := o'.pins - 1 } else o' :=
        List.mem_map.mpr ⟨o, ho, by simp⟩
      have hobj1' : Sess.obj { y.sess with objs := y.sess.objs.map fun o' =>
          if o'.id = o.id then { o' with pins := o'.pins - 1 } else o' } o.id = some { o with pins := o.pins - 1 } :=
        obj_eq (s := { y.sess with objs := y.sess.objs.map fun o' =>
          if o'.id = o.id then { o' with pins := o'.pins - 1 } else o' }) hs1.idsnd ho1
      rw [drop_eq hobj1'] at hop
      by_cases hheld : (o.pins - 1) + (if o.id = y.sess.cur ∧ ¬ y.sess.closed then 1 else 0) > 0
      · -- somebody still holds it
        have hheld' : ({ o with pins := o.pins - 1 } : VObj).pins +
            (if o.id = y.sess.cur ∧ ¬ y.sess.closed then 1 else 0) > 0 := hheld
        simp only [hheld', if_true, Option.some.injEq, Prod.mk.injEq] at hop
        obtain ⟨rfl, rfl⟩ := hop
        refine ⟨y.loop, [], G, by cases delivered <;> rfl, ?_, safeF_nil _ _⟩
        rw [nextUsed_nil rfl, List.append_nil]; exact hs1
      · have hheld' : ¬ (({ o with pins := o.pins - 1 } : VObj).pins +
            (if o.id = y.sess.cur ∧ ¬ y.sess.closed then 1 else 0) > 0) := hheld
        simp only [hheld', if_false, Option.some.injEq, Prod.mk.injEq] at hop
        obtain ⟨rfl, rfl⟩ := hop
        have hne : ¬ (o.id = y.sess.cur ∧ ¬ y.sess.closed) := by
          intro hh
          have : (if o.id = y.sess.cur ∧ ¬ y.sess.closed then 1 else 0) = 1 := if_pos hh
          rw [this] at hheld; omega
        cases delivered with
        | true =>
          have hk := h.id_pos ho hne hp
          obtain ⟨l', rm, e1, hsim, sf⟩ := sim_release hs1 ho1 hk
          refine ⟨l', rm, _, e1, ?_, sf⟩
          have : nextUsed U y.sess (.unpin o.id true) rm = U.filter (fun f => decide (f ∉ rm)) := by
            simp [nextUsed, newNums]
          rw [this]
          exact hsim
        | false =>
          have hc : y.sess.closed = true := by
            rcases hcl : y.sess.closed with _ | _
            · exact absurd (Or.inr (by simp [hcl])) hpre
            · rfl
          refine ⟨y.loop, [], G, rfl, ?_, safeF_nil _ _⟩
          rw [nextUsed_nil rfl, List.append_nil]
          exact sim_drop_silent hs1 hc o.id

end GoLevel.Session
