import GoLevel.Proofs.CacheInv
/-! Invariant of the cache system, part 2: the reader count, open-only / closed-only instructions. -/
namespace GoLevel.CacheM

@[simp] theorem count_runlock_map_levict (l : List Nat) : (l.map Instr.levict).count .runlock = 0 := by
  rw [List.count_eq_zero]; simp

@[simp] theorem count_runlock_map_levict' (l : List Node) : (l.map fun n => Instr.levict n.id).count .runlock = 0 := by
  rw [List.count_eq_zero]; simp

@[simp] theorem count_runlock_map_unrefExt (l : List Nat) : (l.map Instr.unrefExt).count .runlock = 0 := by
  rw [List.count_eq_zero]; simp

def closeInstrs (force : Bool) (ns : List Node) : List Instr :=
  ns.flatMap (fun n =>
      (if force then [Instr.zero n.id] else []) ++ [Instr.levict n.id] ++
      (if force then [Instr.fin n.id true] else []))

theorem mem_closeInstrs {force : Bool} {ns : List Node} {j : Instr} (h : j ∈ closeInstrs force ns) :
    (∃ id, j = .zero id) ∨ (∃ id, j = .levict id) ∨ (∃ id, j = .fin id true) := by
  unfold closeInstrs at h
  rw [List.mem_flatMap] at h
  obtain ⟨n, _, hj⟩ := h
  cases force <;> simp at hj <;> grind

theorem rl_step {g sh Q log sh' i push evs} (h : InvP g sh (i :: Q) log)
    (he : exec sh i = some (sh', push, evs)) : sh'.rlock = (push ++ Q).count .runlock := by
  have hrl := h.rl
  cases i <;> exec_split he
  all_goals (simp [List.count_append] at hrl ⊢)
  all_goals first
    | omega
    | (rw [List.count_eq_zero.mpr (by simp)]; omega)

theorem cl_step {g sh Q log sh' i push evs} (h : InvP g sh (i :: Q) log)
    (he : exec sh i = some (sh', push, evs))
    (hwb : sh.rlock = 0 → ∀ j ∈ i :: Q, openOnly j = false) :
    sh'.closed = true → ∀ j ∈ push ++ Q, openOnly j = false := by
  by_cases hsc : sh.closed = true
  · have hall := h.cl hsc
    simp only [List.mem_cons, forall_eq_or_imp] at hall
    obtain ⟨hi, hQ⟩ := hall
    cases i <;> simp only [openOnly, reduceCtorEq] at hi <;> exec_split he
    all_goals (intro _ j hj)
    all_goals (simp only [List.mem_append, List.mem_cons, List.mem_map, List.mem_flatMap] at hj)
    all_goals (first | (simp_all; done) | grind [openOnly])
  · cases i <;> exec_split he
    all_goals (intro hc j hj)
    all_goals first
      | (exact absurd hc hsc)
      | (simp at hc; exact absurd hc hsc)
      | (have := hwb (by omega)
         simp only [List.mem_append, List.mem_cons, List.mem_map, List.mem_flatMap] at hj this
         grind [openOnly])

theorem op_step {g sh Q log sh' i push evs} (h : InvP g sh (i :: Q) log)
    (he : exec sh i = some (sh', push, evs)) :
    sh'.closed = false → (∀ j ∈ push ++ Q, closedOnly j = false) ∧ sh'.forced = false := by
  have hop := h.op
  simp only [List.mem_cons, forall_eq_or_imp] at hop
  cases i <;> exec_split he
  all_goals (intro hc)
  all_goals (simp only [List.mem_append, List.mem_cons, List.mem_map, List.mem_flatMap])
  all_goals (first | (simp_all; done) | grind [closedOnly])

theorem fo_step {g sh Q log sh' i push evs} (h : InvP g sh (i :: Q) log)
    (he : exec sh i = some (sh', push, evs)) :
    sh'.forced = false → ∀ j ∈ push ++ Q, forcedOnly j = false := by
  have hfo := h.fo
  have hopf : sh.closed = false → sh.forced = false := fun hc => (h.op hc).2
  simp only [List.mem_cons, forall_eq_or_imp] at hfo
  cases i <;> exec_split he
  all_goals (intro hc)
  all_goals (simp only [List.mem_append, List.mem_cons, List.mem_map, List.mem_flatMap])
  all_goals (first | (simp_all; done) | grind [forcedOnly])

/-- `WB` is kept by the thread that executes its first instruction. -/
theorem wb_append_noOpen {p tail : List Instr} (hp : ∀ j ∈ p, openOnly j = false) (ht : WB tail) :
    WB (p ++ tail) := by
  induction p with
  | nil => exact ht
  | cons a p ih =>
    simp only [List.cons_append, WB]
    refine ⟨fun ha => ?_, ih (fun j hj => hp j (List.mem_cons_of_mem _ hj))⟩
    rw [hp a List.mem_cons_self] at ha; cases ha

theorem wb_step {sh sh' i push evs rest} (hw : WB (i :: rest))
    (he : exec sh i = some (sh', push, evs)) : WB (push ++ rest) := by
  obtain ⟨hi, hr⟩ := hw
  cases i <;> exec_split he
  all_goals first
    | (apply wb_append_noOpen _ hr; intro j hj
       simp only [List.mem_append, List.mem_cons, List.mem_map, List.mem_flatMap] at hj
       first | (simp_all; done) | grind [openOnly])
    | (simp only [WB, openOnly, List.cons_append, List.nil_append, List.mem_cons, List.mem_append] at hi ⊢
       simp_all; done)
    | (rw [List.append_assoc]
       apply wb_append_noOpen
       · intro j hj
         simp only [List.mem_map] at hj
         obtain ⟨_, _, rfl⟩ := hj; rfl
       · simp only [WB, openOnly, List.cons_append, List.nil_append] at hi ⊢
         exact ⟨fun _ => by simp_all, hr⟩)
end GoLevel.CacheM
