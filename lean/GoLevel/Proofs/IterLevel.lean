import GoLevel.Proofs.IterStack
/-!
# `levelIter` (`tFiles.newIndexIterator` / `tFilesArrayIndexer.Get`) is per-table range filtering

For a well-formed sorted level (non-empty tables whose concatenation is strictly sorted — i.e. tables
ordered, pairwise disjoint, `imin`/`imax` the first/last key) cutting the table list to
`tf[searchMax(Start) : searchMin(Limit)]` (limit clamped to start for an inverted range) and slicing only
the first and the last remaining table yields exactly the entries of the level inside `[Start, Limit)`,
and the children satisfy the index contract `IdxOK`.  Core Lean only.
-/
namespace GoLevel

theorem sliceOf_eq_filter (c : UCmp) (es : List Entry) (start limit : Option IKey) :
    sliceOf c es start limit = es.filter (slicePred c start limit) := rfl

/-- the two halves of `slicePred` -/
def startOK (c : UCmp) (start : Option IKey) (e : Entry) : Bool :=
  match start with | some s => icmp c e.key s != .lt | none => true
def limitOK (c : UCmp) (limit : Option IKey) (e : Entry) : Bool :=
  match limit with | some l => icmp c e.key l == .lt | none => true

theorem slicePred_eq (c : UCmp) (start limit : Option IKey) (e : Entry) :
    slicePred c start limit e = (startOK c start e && limitOK c limit e) := rfl

/-- a well-formed sorted level, by the entries of its tables -/
structure LevelOK (c : UCmp) (tables : List (List Entry)) : Prop where
  nonempty : ∀ t ∈ tables, t ≠ []
  sorted : SortedEntries c tables.flatten

section
variable {c : UCmp} (hl : LawfulUCmp c) {tables : List (List Entry)} (hok : LevelOK c tables)
include hl hok

omit hl in
theorem LevelOK.table_sorted (t : List Entry) (ht : t ∈ tables) : SortedEntries c t :=
  (List.pairwise_flatten.1 hok.sorted).1 t ht

omit hl in
/-- everything in an earlier table is below everything in a later table -/
theorem LevelOK.cross (i j : Nat) (a b : List Entry) (hij : i < j) (ha : tables[i]? = some a)
    (hb : tables[j]? = some b) (x : Entry) (hx : x ∈ a) (y : Entry) (hy : y ∈ b) : icmp c x.key y.key = .lt := by
  have hp := (List.pairwise_flatten.1 hok.sorted).2
  have hj := getElem?_lt hb
  have hi : i < tables.length := by omega
  rw [List.getElem?_eq_getElem hi] at ha
  rw [List.getElem?_eq_getElem hj] at hb
  have := (List.pairwise_iff_getElem.1 hp) i j hi hj hij
  rw [Option.some.inj ha, Option.some.inj hb] at this
  exact this x hx y hy

theorem LevelOK.le_max (t : List Entry) (ht : t ∈ tables) (e : Entry) (he : e ∈ t) :
    icmp c e.key (tableMax t) ≠ .gt := by
  have hs := hok.table_sorted t ht
  cases hlast : t.getLast? with
  | none => exact absurd (List.getLast?_eq_none_iff.1 hlast) (hok.nonempty t ht)
  | some l =>
    obtain ⟨ys, rfl⟩ := List.getLast?_eq_some_iff.1 hlast
    have hm : tableMax (ys ++ [l]) = l.key := by simp [tableMax]
    rw [hm]
    rcases List.mem_append.1 he with h | h
    · have : icmp c e.key l.key = .lt := (List.pairwise_append.1 hs).2.2 e h l (by simp)
      rw [this]; exact fun h => Ordering.noConfusion h
    · have : e = l := by simpa using h
      subst this
      rw [(icmp_eq_iff hl _ _).2 rfl]; exact fun h => Ordering.noConfusion h

omit hl in
theorem LevelOK.max_mem (t : List Entry) (ht : t ∈ tables) : ∃ l ∈ t, l.key = tableMax t := by
  cases hlast : t.getLast? with
  | none => exact absurd (List.getLast?_eq_none_iff.1 hlast) (hok.nonempty t ht)
  | some l => exact ⟨l, List.mem_of_getLast? hlast, by simp [tableMax, hlast]⟩

theorem LevelOK.ge_min (t : List Entry) (ht : t ∈ tables) (e : Entry) (he : e ∈ t) :
    icmp c (tableMin t) e.key ≠ .gt := by
  have hs := hok.table_sorted t ht
  cases t with
  | nil => exact absurd rfl (hok.nonempty [] ht)
  | cons f fs =>
    have hm : tableMin (f :: fs) = f.key := by simp [tableMin]
    rw [hm]
    rcases List.mem_cons.1 he with rfl | h
    · rw [(icmp_eq_iff hl _ _).2 rfl]; exact fun h => Ordering.noConfusion h
    · have : icmp c f.key e.key = .lt := (List.pairwise_cons.1 hs).1 e h
      rw [this]; exact fun h => Ordering.noConfusion h

omit hl in
theorem LevelOK.min_mem (t : List Entry) (ht : t ∈ tables) : ∃ f ∈ t, f.key = tableMin t := by
  cases t with
  | nil => exact absurd rfl (hok.nonempty [] ht)
  | cons f fs => exact ⟨f, by simp, by simp [tableMin]⟩

/-! ### the two searches -/

omit hl hok in
theorem levelStart_before (s : IKey) (i : Nat) (t : List Entry) (hi : i < levelStart c tables (some s))
    (ht : tables[i]? = some t) : icmp c (tableMax t) s = .lt := by
  simp only [levelStart] at hi
  have hlt := getElem?_lt ht
  cases hf : tables.findIdx? (fun t => icmp c (tableMax t) s != .lt) with
  | none =>
    have := List.findIdx?_eq_none_iff.1 hf t (List.mem_of_getElem? ht)
    simpa using this
  | some st =>
    rw [hf] at hi
    obtain ⟨_, _, hb⟩ := List.findIdx?_eq_some_iff_getElem.1 hf
    have := hb i (by simpa using hi)
    rw [List.getElem?_eq_getElem hlt] at ht
    rw [Option.some.inj ht] at this
    simpa using this

omit hl hok in
theorem levelStart_at (s : IKey) (t : List Entry) (ht : tables[levelStart c tables (some s)]? = some t) :
    icmp c (tableMax t) s ≠ .lt := by
  simp only [levelStart] at ht
  cases hf : tables.findIdx? (fun t => icmp c (tableMax t) s != .lt) with
  | none =>
    rw [hf] at ht
    simp at ht
  | some st =>
    rw [hf] at ht
    obtain ⟨hlt, hp, _⟩ := List.findIdx?_eq_some_iff_getElem.1 hf
    simp only [Option.getD_some] at ht
    rw [List.getElem?_eq_getElem hlt] at ht
    rw [Option.some.inj ht] at hp
    simpa using hp

omit hl hok in
theorem levelLimit_before (l : IKey) (i : Nat) (t : List Entry) (hi : i < levelLimit c tables (some l))
    (ht : tables[i]? = some t) : icmp c (tableMin t) l = .lt := by
  simp only [levelLimit] at hi
  have hlt := getElem?_lt ht
  cases hf : tables.findIdx? (fun t => icmp c (tableMin t) l != .lt) with
  | none =>
    have := List.findIdx?_eq_none_iff.1 hf t (List.mem_of_getElem? ht)
    simpa using this
  | some st =>
    rw [hf] at hi
    obtain ⟨_, _, hb⟩ := List.findIdx?_eq_some_iff_getElem.1 hf
    have := hb i (by simpa using hi)
    rw [List.getElem?_eq_getElem hlt] at ht
    rw [Option.some.inj ht] at this
    simpa using this

omit hl hok in
theorem levelLimit_at (l : IKey) (t : List Entry) (ht : tables[levelLimit c tables (some l)]? = some t) :
    icmp c (tableMin t) l ≠ .lt := by
  simp only [levelLimit] at ht
  cases hf : tables.findIdx? (fun t => icmp c (tableMin t) l != .lt) with
  | none =>
    rw [hf] at ht
    simp at ht
  | some st =>
    rw [hf] at ht
    obtain ⟨hlt, hp, _⟩ := List.findIdx?_eq_some_iff_getElem.1 hf
    simp only [Option.getD_some] at ht
    rw [List.getElem?_eq_getElem hlt] at ht
    rw [Option.some.inj ht] at hp
    simpa using hp

omit hl hok in
theorem levelStart_le (start : Option IKey) : levelStart c tables start ≤ tables.length := by
  cases start with
  | none => simp [levelStart]
  | some s =>
    simp only [levelStart]
    cases hf : tables.findIdx? (fun t => icmp c (tableMax t) s != .lt) with
    | none => simp
    | some st => have := (List.findIdx?_eq_some_iff_getElem.1 hf).1; simp; omega

omit hl hok in
theorem levelLimit_le (limit : Option IKey) : levelLimit c tables limit ≤ tables.length := by
  cases limit with
  | none => simp [levelLimit]
  | some s =>
    simp only [levelLimit]
    cases hf : tables.findIdx? (fun t => icmp c (tableMin t) s != .lt) with
    | none => simp
    | some st => have := (List.findIdx?_eq_some_iff_getElem.1 hf).1; simp; omega

/-! ### which entries pass the slice test, by table index -/

/-- F1: tables before `searchMax(Start)` lie entirely below `Start` -/
theorem slice_before_start (start limit : Option IKey) (i : Nat) (t : List Entry)
    (hi : i < levelStart c tables start) (ht : tables[i]? = some t) (e : Entry) (he : e ∈ t) :
    slicePred c start limit e = false := by
  cases start with
  | none => simp [levelStart] at hi
  | some s =>
    have h1 := levelStart_before s i t hi ht
    have h2 := hok.le_max hl t (List.mem_of_getElem? ht) e he
    have := icmp_lt_of_le_of_lt hl _ _ _ h2 h1
    simp [slicePred, this]

/-- F2: tables after `searchMax(Start)` lie entirely at or above `Start` -/
theorem slice_after_start (start : Option IKey) (i : Nat) (t : List Entry)
    (hi : levelStart c tables start < i) (ht : tables[i]? = some t) (e : Entry) (he : e ∈ t) :
    startOK c start e = true := by
  cases start with
  | none => rfl
  | some s =>
    have hlen := getElem?_lt ht
    have hst : levelStart c tables (some s) < tables.length := by omega
    have hts := List.getElem?_eq_getElem hst
    have h1 := levelStart_at s _ hts
    obtain ⟨l, hlm, hlk⟩ := hok.max_mem _ (List.mem_of_getElem? hts)
    have h2 := hok.cross _ i _ t hi hts ht l hlm e he
    rw [hlk] at h2
    have h3 : icmp c s (tableMax tables[levelStart c tables (some s)]) ≠ .gt := (icmp_not_lt_iff hl _ _).1 h1
    have h4 := icmp_lt_of_le_of_lt hl _ _ _ h3 h2
    have h5 := icmp_asymm hl _ _ h4
    simpa [startOK] using h5

/-- F3: tables from `searchMin(Limit)` on lie entirely at or above `Limit` -/
theorem slice_after_limit (start limit : Option IKey) (i : Nat) (t : List Entry)
    (hi : levelLimit c tables limit ≤ i) (ht : tables[i]? = some t) (e : Entry) (he : e ∈ t) :
    slicePred c start limit e = false := by
  cases limit with
  | none =>
    have := getElem?_lt ht
    simp [levelLimit] at hi; omega
  | some l =>
    have hlen := getElem?_lt ht
    have hlm : levelLimit c tables (some l) < tables.length := by omega
    have hts := List.getElem?_eq_getElem hlm
    have h1 := levelLimit_at l _ hts
    have h3 : icmp c l (tableMin tables[levelLimit c tables (some l)]) ≠ .gt := (icmp_not_lt_iff hl _ _).1 h1
    have hge : icmp c l e.key ≠ .gt := by
      rcases Nat.lt_or_ge (levelLimit c tables (some l)) i with hlt | hge
      · obtain ⟨f, hfm, hfk⟩ := hok.min_mem _ (List.mem_of_getElem? hts)
        have h2 := hok.cross _ i _ t hlt hts ht f hfm e he
        rw [hfk] at h2
        have := icmp_lt_of_le_of_lt hl _ _ _ h3 h2
        rw [this]; exact fun h => Ordering.noConfusion h
      · have : i = levelLimit c tables (some l) := by omega
        subst this
        rw [hts] at ht; cases ht
        exact icmp_le_trans hl _ _ _ h3 (hok.ge_min hl _ (List.mem_of_getElem? hts) e he)
    have : icmp c e.key l ≠ .lt := (icmp_not_lt_iff hl _ _).2 hge
    cases h : icmp c e.key l <;> simp_all [slicePred]

/-- F4: tables whose successor is still before `searchMin(Limit)` lie entirely below `Limit` -/
theorem slice_before_limit (limit : Option IKey) (i : Nat) (t : List Entry)
    (hi : i + 1 < levelLimit c tables limit) (ht : tables[i]? = some t) (e : Entry) (he : e ∈ t) :
    limitOK c limit e = true := by
  cases limit with
  | none => rfl
  | some l =>
    have hle := levelLimit_le (c := c) (tables := tables) (some l)
    have hn : i + 1 < tables.length := by omega
    have hts := List.getElem?_eq_getElem hn
    have h1 := levelLimit_before l (i + 1) _ hi hts
    obtain ⟨f, hfm, hfk⟩ := hok.min_mem _ (List.mem_of_getElem? hts)
    have h2 := hok.cross i (i + 1) t _ (by omega) ht hts e he f hfm
    rw [hfk] at h2
    have := icmp_trans hl _ _ _ h2 h1
    simp [limitOK, this]

/-! ### the children of `levelIter` -/

/-- the tables that remain: `tf[start:limit]` with the clamped limit -/
def levelCut (c : UCmp) (tables : List (List Entry)) (start limit : Option IKey) : List (List Entry) :=
  let st := levelStart c tables start
  let lim0 := levelLimit c tables limit
  (tables.take (if lim0 < st then st else lim0)).drop st

omit hl hok in
theorem levelIter_children (start limit : Option IKey) :
    (levelIter c tables start limit).children =
      (levelCut c tables start limit).mapIdx fun i t =>
        ⟨tableMax t, if i = 0 ∨ i = (levelCut c tables start limit).length - 1 then sliceOf c t start limit else t⟩ :=
  rfl

omit hl hok in
theorem levelCut_get (start limit : Option IKey) (i : Nat) (t : List Entry)
    (h : (levelCut c tables start limit)[i]? = some t) :
    tables[levelStart c tables start + i]? = some t ∧
      levelStart c tables start + i < (if levelLimit c tables limit < levelStart c tables start
        then levelStart c tables start else levelLimit c tables limit) := by
  simp only [levelCut, List.getElem?_drop, List.getElem?_take] at h
  by_cases hc : levelStart c tables start + i < (if levelLimit c tables limit < levelStart c tables start
      then levelStart c tables start else levelLimit c tables limit)
  · rw [if_pos hc] at h; exact ⟨h, hc⟩
  · rw [if_neg hc] at h; exact absurd h (by simp)

omit hl hok in
theorem levelCut_length (start limit : Option IKey) :
    (levelCut c tables start limit).length =
      (if levelLimit c tables limit < levelStart c tables start then levelStart c tables start
        else levelLimit c tables limit) - levelStart c tables start := by
  have h1 := levelStart_le (c := c) (tables := tables) start
  have h2 := levelLimit_le (c := c) (tables := tables) limit
  simp only [levelCut, List.length_drop, List.length_take]
  split <;> omega

/-- every remaining table contributes exactly its entries inside the range, whether it is sliced or not -/
theorem levelIter_child_es (start limit : Option IKey) (i : Nat) (t : List Entry)
    (h : (levelCut c tables start limit)[i]? = some t) :
    (if i = 0 ∨ i = (levelCut c tables start limit).length - 1 then sliceOf c t start limit else t)
      = t.filter (slicePred c start limit) := by
  split
  · rfl
  · rename_i hne
    obtain ⟨ht, hlt⟩ := levelCut_get start limit i t h
    have hlen := levelCut_length (c := c) (tables := tables) start limit
    have hi := getElem?_lt h
    symm
    rw [List.filter_eq_self]
    intro e he
    have hnc : ¬ levelLimit c tables limit < levelStart c tables start := by
      intro hc; rw [if_pos hc] at hlen; omega
    rw [if_neg hnc] at hlen hlt
    have h1 := slice_after_start hl hok start (levelStart c tables start + i) t (by omega) ht e he
    have h2 := slice_before_limit hl hok limit (levelStart c tables start + i) t (by omega) ht e he
    rw [slicePred_eq, h1, h2]; rfl

theorem levelIter_es (start limit : Option IKey) :
    (levelIter c tables start limit).children.map (·.es)
      = (levelCut c tables start limit).map (·.filter (slicePred c start limit)) := by
  rw [levelIter_children]
  apply List.ext_getElem?
  intro i
  simp only [List.getElem?_map, List.getElem?_mapIdx]
  cases h : (levelCut c tables start limit)[i]? with
  | none => rfl
  | some t =>
    simp only [Option.map_some]
    rw [levelIter_child_es hl hok start limit i t h]

/-- **`levelIter` = per-table range filtering**: the children of the level's indexed iterator hold, in
order, exactly the entries of the level that lie in `[start, limit)` -/
theorem levelIter_flat (start limit : Option IKey) :
    (levelIter c tables start limit).children.flatMap (·.es) = sliceOf c tables.flatten start limit := by
  rw [List.flatMap_def, levelIter_es hl hok, sliceOf_eq_filter, List.filter_flatten]
  have hst := levelStart_le (c := c) (tables := tables) start
  -- tables = before ++ cut ++ after
  let st := levelStart c tables start
  let lim := if levelLimit c tables limit < st then st else levelLimit c tables limit
  have hsplit : tables = tables.take st ++ (levelCut c tables start limit ++ tables.drop lim) := by
    have h1 : tables = tables.take lim ++ tables.drop lim := (List.take_append_drop lim tables).symm
    have h2 : tables.take lim = (tables.take lim).take st ++ (tables.take lim).drop st :=
      (List.take_append_drop st _).symm
    have h3 : (tables.take lim).take st = tables.take st := by
      rw [List.take_take]; congr 1
      show min st lim = st
      simp only [lim]; split <;> omega
    conv => lhs; rw [h1, h2, h3]
    rw [List.append_assoc]; rfl
  conv => rhs; rw [hsplit]
  rw [List.map_append, List.map_append, List.flatten_append, List.flatten_append]
  have hA : ((tables.take st).map (·.filter (slicePred c start limit))).flatten = [] := by
    rw [List.flatten_eq_nil_iff]
    intro l hlm
    obtain ⟨t, htm, rfl⟩ := List.mem_map.1 hlm
    obtain ⟨j, hj, rfl⟩ := List.mem_take_iff_getElem.1 htm
    rw [List.filter_eq_nil_iff]
    intro e he
    have hj' : j < st ∧ j < tables.length := by omega
    have := slice_before_start hl hok start limit j _ hj'.1 (List.getElem?_eq_getElem hj'.2) e he
    simp [this]
  have hB : ((tables.drop lim).map (·.filter (slicePred c start limit))).flatten = [] := by
    rw [List.flatten_eq_nil_iff]
    intro l hlm
    obtain ⟨t, htm, rfl⟩ := List.mem_map.1 hlm
    obtain ⟨j, hj, rfl⟩ := List.mem_drop_iff_getElem.1 htm
    rw [List.filter_eq_nil_iff]
    intro e he
    have hge : levelLimit c tables limit ≤ lim + j := by
      simp only [lim]; split <;> omega
    have hj' : lim + j < tables.length := by omega
    have := slice_after_limit hl hok start limit (lim + j) _ hge (List.getElem?_eq_getElem hj') e he
    simp [this]
  rw [hA, hB, List.nil_append, List.append_nil]

/-- the children of `levelIter` satisfy the index contract of the indexed iterator -/
theorem levelIter_idxOK (start limit : Option IKey) : IdxOK c (levelIter c tables start limit).children := by
  have hsorted : SortedEntries c ((levelIter c tables start limit).children.flatMap (·.es)) := by
    rw [levelIter_flat hl hok]
    exact List.Pairwise.sublist List.filter_sublist hok.sorted
  -- child i comes from table `st + i`, holds a sublist of it, and its index key is that table's `imax`
  have hchild : ∀ (i : Nat) (ch : IdxChild), (levelIter c tables start limit).children[i]? = some ch →
      ∃ t, tables[levelStart c tables start + i]? = some t ∧ ch.sep = tableMax t ∧ ∀ e ∈ ch.es, e ∈ t := by
    intro i ch h
    rw [levelIter_children, List.getElem?_mapIdx] at h
    cases ht : (levelCut c tables start limit)[i]? with
    | none => rw [ht] at h; simp at h
    | some t =>
      rw [ht] at h
      simp only [Option.map_some, Option.some.injEq] at h
      subst h
      refine ⟨t, (levelCut_get start limit i t ht).1, rfl, ?_⟩
      intro e he
      simp only at he
      rw [levelIter_child_es hl hok start limit i t ht] at he
      exact (List.mem_filter.1 he).1
  refine ⟨hsorted, ?_, ?_, ?_⟩
  · intro i ch e hch he
    obtain ⟨t, ht, hsep, hsub⟩ := hchild i ch hch
    rw [hsep]
    exact hok.le_max hl t (List.mem_of_getElem? ht) e (hsub e he)
  · intro i j chi chj e hij hci hcj he
    obtain ⟨ti, hti, hsepi, _⟩ := hchild i chi hci
    obtain ⟨tj, htj, _, hsubj⟩ := hchild j chj hcj
    obtain ⟨l, hlm, hlk⟩ := hok.max_mem ti (List.mem_of_getElem? hti)
    have := hok.cross _ _ ti tj (by omega) hti htj l hlm e (hsubj e he)
    rw [hsepi, ← hlk, this]; exact fun h => Ordering.noConfusion h
  · intro i j chi chj hij hci hcj
    obtain ⟨ti, hti, hsepi, _⟩ := hchild i chi hci
    obtain ⟨tj, htj, hsepj, _⟩ := hchild j chj hcj
    obtain ⟨l, hlm, hlk⟩ := hok.max_mem ti (List.mem_of_getElem? hti)
    obtain ⟨l', hlm', hlk'⟩ := hok.max_mem tj (List.mem_of_getElem? htj)
    have := hok.cross _ _ ti tj (by omega) hti htj l hlm l' hlm'
    rw [hsepi, hsepj, ← hlk, ← hlk', this]; exact fun h => Ordering.noConfusion h

end
end GoLevel
