import GoLevel.Model.Table
/-! C13, repairs 2 and 5 of wp64 on arbitrary files: `NewReader` constructs a reader only with both footer handles
inside the file, and a block handle that reaches beyond the end of the file is a corrupted block. -/
namespace GoLevel.C13
open GoLevel

/-- repair 5: the handle reaches beyond the end of the file ⇒ corrupted block, whatever the checksum setting -/
theorem readRawBlock_short (cksum : Bytes → Nat) (file : Bytes) (bh : BH) (verify : Bool)
    (h : file.length < bh.offset + bh.length + Gen.blockTrailerLen) :
    readRawBlock cksum file bh verify = none := by
  unfold readRawBlock
  have h5 : Gen.blockTrailerLen = 5 := rfl
  rw [h5] at h ⊢
  have : ((file.drop bh.offset).take (bh.length + 5)).length < bh.length + 5 := by
    simp only [List.length_take, List.length_drop]; omega
  simp only [this, if_true]

theorem readBlock_short (cksum : Bytes → Nat) (file : Bytes) (bh : BH) (verify : Bool)
    (h : file.length < bh.offset + bh.length + Gen.blockTrailerLen) :
    readBlock cksum file bh verify = none := by
  unfold readBlock
  rw [readRawBlock_short cksum file bh verify h]

/-- a footer that yields handles belongs to a file of at least footer length -/
theorem footerHandlesX_length (fx : ReaderFix) (file : Bytes) (p : BH × BH)
    (h : Table.footerHandlesX fx file = .ok p) : Gen.footerLen ≤ file.length := by
  unfold Table.footerHandlesX at h
  by_cases hl : file.length < Gen.footerLen
  · simp [hl] at h
  · omega

theorem inFile_bound (bh : BH) (len : Nat) (hl : Gen.footerLen ≤ len) (h : bh.inFile (len - Gen.footerLen) = true) :
    bh.offset + bh.length + Gen.blockTrailerLen ≤ len := by
  have h48 : Gen.footerLen = 48 := rfl
  have h5 : Gen.blockTrailerLen = 5 := rfl
  simp only [BH.inFile, Bool.and_eq_true, decide_eq_true_eq] at h
  omega

/-- `NewReader` (repaired) after the footer: the cases -/
theorem openBody_repaired (stale : Bytes) (cfg : TableCfg) (verify : Bool) (file : Bytes) (m i : BH) :
    ((m.inFile (file.length - Gen.footerLen) && i.inFile (file.length - Gen.footerLen)) = false →
      (Table.openBody .repaired stale cfg verify file m i).res = .error .footer ∧
      (Table.openBody .repaired stale cfg verify file m i).bufs = []) ∧
    ((m.inFile (file.length - Gen.footerLen) && i.inFile (file.length - Gen.footerLen)) = true →
      (∀ n ∈ (Table.openBody .repaired stale cfg verify file m i).bufs,
        n = m.length + Gen.blockTrailerLen ∨ n = i.length + Gen.blockTrailerLen) ∧
      ∀ t, (Table.openBody .repaired stale cfg verify file m i).res = .ok t → t.metaBH = m ∧ t.indexBH = i) := by
  constructor
  · intro h
    simp [Table.openBody, ReaderFix.repaired, h]
  · intro h
    unfold Table.openBody
    simp only [ReaderFix.repaired, h, Bool.not_true, Bool.and_false, Bool.false_eq_true, if_false, if_true, readBlockX]
    cases readBlock cfg.cksum file m true with
    | none =>
      simp only
      cases readBlock cfg.cksum file i true with
      | none => simp
      | some ib => simp
    | some mb =>
      simp only
      generalize metaLoop cfg.filter (mb.restartsOffset + 1) mb.data mb.restartsOffset [] none = r
      obtain ⟨flt, fbh⟩ := r
      simp only
      cases readBlock cfg.cksum file i true with
      | none => simp
      | some ib => simp

end GoLevel.C13
