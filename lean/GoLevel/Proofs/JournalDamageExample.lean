import GoLevel.Proofs.JournalDamage3
/-! Kernel-evaluated facts about one concrete two-block stream, used by the non-vacuity example of
`C12.decode_damage_partial`: four records, the first three fill block 0 exactly, the fourth starts block 1. -/
namespace GoLevel.Journal

def exampleRecords : List Bytes := [[1, 2, 3], List.replicate 32744 5, [], [9]]

set_option maxRecDepth 100000 in
theorem example_zoneLen : zoneLen 0 none exampleRecords = 32768 := by decide +kernel

set_option maxRecDepth 100000 in
theorem example_survivors : survivors 0 none exampleRecords = [[9]] := by decide +kernel

set_option maxRecDepth 100000 in
/-- block 0 overwritten with `0xFF` bytes: the chunk found at offset 0 has an invalid type -/
theorem example_rejected :
    ¬ Accepts true (zoneStart 0 none)
      (List.replicate 32768 0xFF ++ (tailBytes 0 none exampleRecords).drop 32768) (zoneStart 0 none + 32768) := by
  decide +kernel

end GoLevel.Journal
