import GoLevel.Proofs.DurableDisk2
/-!
Frame lemmas, part 3: the manifest `CURRENT` names — append, sync, and `SetMeta` to another manifest;
the view after an edit.
-/
namespace GoLevel.Dur

/-! ## views and records -/

theorem view_step {cfg : Cfg} {a : MAcc} {v : MView} (h : a.view? = some v) (r : MRec) (hr : r.torn = false) :
    (a.step cfg r).view? = some ⟨applyEdit v.live r, r.jn.getD v.jn, r.sq.getD v.sq, r.nf⟩ := by
  obtain ⟨live, jn, sq, nf, cmp⟩ := a
  simp only [MAcc.view?] at h
  cases cmp with
  | false => simp at h
  | true =>
    cases jn with
    | none => simp at h
    | some j =>
      cases sq with
      | none => simp at h
      | some q =>
        cases nf with
        | none => simp at h
        | some f =>
          simp only [if_true, Option.some.injEq] at h
          subst h
          simp only [MAcc.step, hr, Bool.false_eq_true, if_false, MAcc.view?, Bool.true_or, if_true]
          cases r.jn <;> cases r.sq <;> simp

theorem viewAt_append_le (cfg : Cfg) (mf : LogFile MRec) (r : MRec) {k : Nat} (hk : k ≤ mf.unsynced.length) :
    viewAt cfg (mf.append r) k = viewAt cfg mf k := by
  unfold viewAt LogFile.append
  simp only [List.take_append_of_le_length hk]

theorem viewAt_append_last (cfg : Cfg) (mf : LogFile MRec) (r : MRec) :
    viewAt cfg (mf.append r) (mf.unsynced.length + 1) =
      ((replayM cfg mf.all).step cfg r).view? := by
  unfold viewAt LogFile.append LogFile.all
  have : (mf.unsynced ++ [r]).take (mf.unsynced.length + 1) = mf.unsynced ++ [r] := by
    apply List.take_of_length_le; simp
  simp only [this, ← List.append_assoc, replayM_snoc]

theorem viewAt_all (cfg : Cfg) (mf : LogFile MRec) :
    viewAt cfg mf mf.unsynced.length = (replayM cfg mf.all).view? := by
  unfold viewAt LogFile.all
  rw [List.take_length]

theorem viewAt_sync (cfg : Cfg) (mf : LogFile MRec) : viewAt cfg mf.sync 0 = viewAt cfg mf mf.unsynced.length := by
  rw [viewAt_all]
  simp [viewAt, LogFile.sync]

/-! ## the current manifest: lookup through `modify` -/

theorem curManifest_modify {d : Disk} {m : Nat} (hc : d.current = some m) (f : LogFile MRec → LogFile MRec) :
    curManifest { d with manifests := d.manifests.modify m f } = (curManifest d).map f := by
  simp only [curManifest, hc, Option.bind_some, lookup_modify, if_true]

theorem curManifest_other {d : Disk} {ms : Files (LogFile MRec)}
    (h : ∀ m, d.current = some m → lookup ms m = lookup d.manifests m) :
    curManifest { d with manifests := ms } = curManifest d := by
  unfold curManifest
  cases hc : d.current with
  | none => rfl
  | some m => simp only [Option.bind_some]; exact h m hc

/-- one more record at the end of the current manifest -/
theorem DiskOK.manifest_append {cfg : Cfg} {d : Disk} {must issued : List Grp} {m : Nat}
    (h : DiskOK cfg d must issued) (hc : d.current = some m) (r : MRec)
    (hnew : ∀ mf v0, curManifest d = some mf → viewAt cfg mf 0 = some v0 →
      ∃ v', ((replayM cfg mf.all).step cfg r).view? = some v' ∧ ViewOK d must issued v' ∧ v0.jn ≤ v'.jn) :
    DiskOK cfg { d with manifests := d.manifests.modify m (·.append r) } must issued := by
  obtain ⟨mf, v0, hp⟩ := h.parts
  obtain ⟨v', hv', hok', hmono'⟩ := hnew mf v0 hp.cur hp.hv0
  apply DiskOK.of_parts (d := { d with manifests := d.manifests.modify m (·.append r) }) (mf := mf.append r)
    (v0 := v0) h.jsorted h.tnodup (pairwise_keys_modify (R := (· ≠ ·)) m (·.append r) h.mnodup)
  refine ⟨by rw [curManifest_modify hc, hp.cur]; rfl, by rw [viewAt_append_le cfg mf r (Nat.zero_le _)]; exact hp.hv0,
    ?_, hp.jasc, hp.jord⟩
  intro k hk
  have hlen : (mf.append r).unsynced.length = mf.unsynced.length + 1 := by simp [LogFile.append]
  rw [hlen] at hk
  by_cases hk' : k ≤ mf.unsynced.length
  · obtain ⟨v, hv, hok, hmono⟩ := hp.views k hk'
    exact ⟨v, by rw [viewAt_append_le cfg mf r hk']; exact hv,
      hok.of_same rfl (fun _ _ => rfl) (fun _ h => h) (fun _ h => h), hmono⟩
  · have : k = mf.unsynced.length + 1 := by omega
    subst this
    exact ⟨v', by rw [viewAt_append_last]; exact hv',
      hok'.of_same rfl (fun _ _ => rfl) (fun _ h => h) (fun _ h => h), hmono'⟩

/-- `Sync` of the current manifest: only the last view remains admissible -/
theorem DiskOK.manifest_sync {cfg : Cfg} {d : Disk} {must issued : List Grp} {m : Nat}
    (h : DiskOK cfg d must issued) (hc : d.current = some m) :
    DiskOK cfg { d with manifests := d.manifests.modify m (·.sync) } must issued := by
  obtain ⟨mf, v0, hp⟩ := h.parts
  obtain ⟨v, hv, hok, hmono⟩ := hp.views mf.unsynced.length (Nat.le_refl _)
  apply DiskOK.of_parts (d := { d with manifests := d.manifests.modify m (·.sync) }) (mf := mf.sync)
    (v0 := v) h.jsorted h.tnodup (pairwise_keys_modify (R := (· ≠ ·)) m (·.sync) h.mnodup)
  refine ⟨by rw [curManifest_modify hc, hp.cur]; rfl, by rw [viewAt_sync]; exact hv, ?_, ?_, ?_⟩
  · intro k hk
    have : k = 0 := by simpa [LogFile.sync] using hk
    subst this
    exact ⟨v, by rw [viewAt_sync]; exact hv,
      hok.of_same rfl (fun _ _ => rfl) (fun _ h => h) (fun _ h => h), Nat.le_refl _⟩
  · exact fun p hpr => hp.jasc p (relJournals_mono hmono hpr)
  · exact fun p hpr q hqr => hp.jord p (relJournals_mono hmono hpr) q (relJournals_mono hmono hqr)

/-- `SetMeta` to a synced manifest whose single view is good -/
theorem DiskOK.set_meta {cfg : Cfg} {d : Disk} {must issued : List Grp} {m : Nat} {mf' : LogFile MRec} {v' : MView}
    (h : DiskOK cfg d must issued) (hl : lookup d.manifests m = some mf') (hu : mf'.unsynced = [])
    (hv' : viewAt cfg mf' 0 = some v') (hok' : ViewOK d must issued v')
    (hmono : ∀ mf v0, curManifest d = some mf → viewAt cfg mf 0 = some v0 → v0.jn ≤ v'.jn) :
    DiskOK cfg { d with current := some m } must issued := by
  obtain ⟨mf, v0, hp⟩ := h.parts
  have hm := hmono mf v0 hp.cur hp.hv0
  apply DiskOK.of_parts (d := { d with current := some m }) (mf := mf') (v0 := v') h.jsorted h.tnodup h.mnodup
  refine ⟨by simp [curManifest, hl], hv', ?_, ?_, ?_⟩
  · intro k hk
    have : k = 0 := by simpa [hu] using hk
    subst this
    exact ⟨v', hv', hok'.of_same rfl (fun _ _ => rfl) (fun _ h => h) (fun _ h => h), Nat.le_refl _⟩
  · exact fun p hpr => hp.jasc p (relJournals_mono hm hpr)
  · exact fun p hpr q hqr => hp.jord p (relJournals_mono hm hpr) q (relJournals_mono hm hqr)

/-! ## the view after an edit -/

theorem applyEdit_fresh {live : List Nat} {e : MRec} (hd : e.deleted = []) (hf : ∀ t ∈ e.added, t ∉ live) :
    applyEdit live e = live ++ e.added := by
  unfold applyEdit
  congr 1
  rw [List.filter_eq_self]
  intro t ht
  simp [hd]
  exact fun h => hf t h ht

theorem liveGrps_append (d : Disk) (v : MView) (l : List Nat) (jn sq nf : Nat) :
    liveGrps d ⟨v.live ++ l, jn, sq, nf⟩ = liveGrps d v ++ l.flatMap (tableGrpsOf d) := by
  simp [liveGrps, List.flatMap_append]

theorem outs_tableGrps (d : Disk) (outs : List (Nat × List Grp))
    (h : ∀ o ∈ outs, lookup d.tables o.1 = some ⟨o.2, true, false⟩) :
    (outs.map (·.1)).flatMap (tableGrpsOf d) = outs.flatMap (·.2) := by
  induction outs with
  | nil => rfl
  | cons o os ih =>
    simp only [List.map_cons, List.flatMap_cons, tableGrpsOf, h o List.mem_cons_self, Option.map_some,
      Option.getD_some]
    congr 1
    exact ih (fun x hx => h x (List.mem_cons_of_mem _ hx))

/-- the next-file number of a view only matters for the table numbers and the journal number -/
theorem ViewOK.with_nf {d : Disk} {must issued : List Grp} {l : List Nat} {jn sq nf nf' : Nat}
    (h : ViewOK d must issued ⟨l, jn, sq, nf⟩) (htl : ∀ t ∈ l, t < nf') (hj : jn < nf') :
    ViewOK d must issued ⟨l, jn, sq, nf'⟩ :=
  ⟨fun t ht => ⟨htl t ht, (h.tables t ht).2⟩, h.tseq, h.tdisj, h.jseq, h.tj, h.cover, hj⟩

theorem Disj.symm {g h : Grp} (x : Disj g h) : Disj h g := by
  rcases x with x | x | x
  · exact Or.inl x.symm
  · exact Or.inr (Or.inr x)
  · exact Or.inr (Or.inl x)

theorem mem_applyEdit {live : List Nat} {e : MRec} {t : Nat} :
    t ∈ applyEdit live e ↔ (t ∈ live ∧ t ∉ e.deleted ∧ t ∉ e.added) ∨ t ∈ e.added := by
  simp [applyEdit]

/-- the groups of a view after an edit: those of the tables that stay, then those of the added tables -/
theorem liveGrps_applyEdit (d : Disk) (v : MView) (e : MRec) (jn sq nf : Nat) :
    liveGrps d ⟨applyEdit v.live e, jn, sq, nf⟩ =
      (v.live.filter fun t => !(e.deleted.contains t) && !(e.added.contains t)).flatMap (tableGrpsOf d) ++
      e.added.flatMap (tableGrpsOf d) := by
  simp [liveGrps, applyEdit, List.flatMap_append]

/-- the view a job's edit produces is good, once its output tables are on disk -/
theorem ViewOK.extend {s : St} {d : Disk} {must issued : List Grp} {j : Job} {e : MRec} {v : MView}
    (hok : ViewOK d must issued v) (he : EditOK s d j e v) (hi : ∀ g ∈ issuedGrps s, g ∈ issued)
    (hmust : ∀ g ∈ must, g ∈ Dur.must s)
    (houts : ∀ o ∈ j.outs, lookup d.tables o.1 = some ⟨o.2, true, false⟩) (nf : Nat) (hnf : v.nf ≤ nf)
    (hnf' : ∀ o ∈ j.outs, o.1 < nf) (hjnf : e.jn.getD v.jn < nf) :
    ViewOK d must issued ⟨applyEdit v.live e, e.jn.getD v.jn, e.sq.getD v.sq, nf⟩ := by
  obtain ⟨ha, _, _⟩ := he.shape
  obtain ⟨hdl, hdg⟩ := he.dels
  have hskip := he.skip
  have houtsE := he.outs
  have hkeep := he.keep
  have hmono := he.mono
  generalize e.jn.getD v.jn = jn' at *
  generalize e.sq.getD v.sq = sq' at *
  have hfresh : ∀ t ∈ e.added, t ∉ v.live := by
    intro t ht htl
    rw [ha] at ht
    obtain ⟨o, ho, rfl⟩ := List.mem_map.1 ht
    have := (he.fresh o ho).1
    have := (hok.tables o.1 htl).1
    omega
  have hlg : liveGrps d ⟨applyEdit v.live e, jn', sq', nf⟩ =
      (v.live.filter fun t => !(e.deleted.contains t) && !(e.added.contains t)).flatMap (tableGrpsOf d) ++
      outsGrps j := by
    rw [liveGrps_applyEdit, ha, outs_tableGrps d j.outs houts]; rfl
  have hsub : ∀ g ∈ (v.live.filter fun t => !(e.deleted.contains t) && !(e.added.contains t)).flatMap (tableGrpsOf d),
      g ∈ liveGrps d v := by
    intro g hg
    obtain ⟨t, ht, hgt⟩ := List.mem_flatMap.1 hg
    exact List.mem_flatMap.2 ⟨t, (List.mem_filter.1 ht).1, hgt⟩
  have hmj := hmono.1
  have hms := hmono.2.1
  constructor
  · intro t ht
    rcases mem_applyEdit.1 ht with ⟨htl, _, _⟩ | hta
    · obtain ⟨a, b⟩ := hok.tables t htl
      exact ⟨by simp only; omega, b⟩
    · rw [ha] at hta
      obtain ⟨o, ho, rfl⟩ := List.mem_map.1 hta
      refine ⟨hnf' o ho, ?_⟩
      rw [houts o ho]; simp [Holds]
  · intro g hg
    rw [hlg, List.mem_append] at hg
    rcases hg with hg | hg
    · obtain ⟨a, b, c⟩ := hok.tseq g (hsub g hg)
      exact ⟨by simp only; omega, b, c⟩
    · obtain ⟨a, b, c, _⟩ := houtsE g hg
      exact ⟨a, hi g b, c⟩
  · intro g hg g' hg'
    rw [hlg, List.mem_append] at hg hg'
    rcases hg with hg | hg <;> rcases hg' with hg' | hg'
    · exact hok.tdisj g (hsub g hg) g' (hsub g' hg')
    · exact ((houtsE g' hg').2.2.2.1 g (hsub g hg)).symm
    · exact (houtsE g hg).2.2.2.1 g' (hsub g' hg')
    · exact (houtsE g hg).2.2.2.2 g' hg'
  · intro p hp g hg
    have hp' := mem_relJournals.1 hp
    exact ⟨(hkeep p hp'.1 hp'.2 g hg).1.imp id (fun u w => u (hmust g w)), (hok.jseq p (relJournals_mono hmj hp) g hg).2⟩
  · intro g hg p hp g' hg'
    rw [hlg, List.mem_append] at hg
    have hp' := mem_relJournals.1 hp
    rcases hg with hg | hg
    · exact hok.tj g (hsub g hg) p (relJournals_mono hmj hp) g' hg'
    · exact (hkeep p hp'.1 hp'.2 g' hg').2 g hg
  · intro g hg
    rw [hlg]
    rcases hok.cover g hg with h1 | ⟨p, hp, hgp⟩
    · obtain ⟨t, ht, hgt⟩ := List.mem_flatMap.1 h1
      by_cases hdel : t ∈ e.deleted
      · exact Or.inl (List.mem_append_right _ (hdg g (List.mem_flatMap.2 ⟨t, hdel, hgt⟩)))
      · refine Or.inl (List.mem_append_left _ (List.mem_flatMap.2 ⟨t, ?_, hgt⟩))
        rw [List.mem_filter]
        refine ⟨ht, ?_⟩
        have hna : t ∉ e.added := fun hx => hfresh t hx ht
        simp [hdel, hna]
    · have hp' := mem_relJournals.1 hp
      by_cases hlt : p.1 < jn'
      · exact Or.inl (List.mem_append_right _
          (hskip p hp'.1 hp'.2 hlt g (by simp [LogFile.all, hgp]) (hmust g hg)))
      · exact Or.inr ⟨p, mem_relJournals.2 ⟨hp'.1, by simp only; omega⟩, hgp⟩
  · show jn' < nf
    exact hjnf

end GoLevel.Dur
