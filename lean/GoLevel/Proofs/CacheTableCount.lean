import GoLevel.Proofs.CacheTableRun
/-! Hash table of the cache (C17), part 9: `Nodes()` is the number of nodes physically in the buckets; every node
is in exactly one bucket. -/
namespace GoLevel.CacheT

/-- All nodes of the table, bucket by bucket (of the newest head, looking through uninitialised buckets). -/
def contents : List Head → List TNode
  | [] => []
  | h :: ps => (List.range h.buckets.length).flatMap (vnodes (h :: ps))

theorem nodup_flatMap_of {l : List Nat} {f : Nat → List TNode} (hn : ∀ i ∈ l, (f i).Nodup)
    (hd : l.Pairwise fun a b => ∀ x, x ∈ f a → x ∈ f b → False) : (l.flatMap f).Nodup := by
  induction l with
  | nil => simp
  | cons a l ih =>
    rw [List.flatMap_cons, List.nodup_append]
    have hp := List.pairwise_cons.mp hd
    refine ⟨hn a List.mem_cons_self, ih (fun i hi => hn i (List.mem_cons_of_mem _ hi)) hp.2, ?_⟩
    intro x hx y hy hxy
    subst hxy
    obtain ⟨b, hb, hxb⟩ := List.mem_flatMap.mp hy
    exact hp.1 b hb x hx hxb

theorem contents_nodup {hashfn : Nat → Nat → Nat} {h : Head} {ps : List Head} (hw : WFChain hashfn (h :: ps)) :
    (contents (h :: ps)).Nodup := by
  unfold contents
  apply nodup_flatMap_of
  · intro i hi
    exact sorted_nodup (vnodes_ok hw h ps rfl i (List.mem_range.mp hi)).1
  · refine List.Pairwise.imp_of_mem (fun {a b} ha hb hab x hxa hxb => ?_) List.pairwise_lt_range
    have h1 := memC_bucket hw (List.mem_range.mp ha) hxa
    have h2 := memC_bucket hw (List.mem_range.mp hb) hxb
    omega

theorem mem_contents {h : Head} {ps : List Head} {x : TNode} : x ∈ contents (h :: ps) ↔ MemC (h :: ps) x := by
  unfold contents
  rw [List.mem_flatMap, memC_cons]
  constructor
  · rintro ⟨i, hi, hx⟩; exact ⟨i, List.mem_range.mp hi, hx⟩
  · rintro ⟨i, hi, hx⟩; exact ⟨i, List.mem_range.mpr hi, hx⟩

/-- The nodes physically in the table are a permutation of the map: `Nodes()` counts them. -/
theorem contents_perm {hashfn : Nat → Nat → Nat} {t : Table} {s : Spec} (hr : Refines hashfn t s) :
    (contents t.heads).Perm s.m ∧ t.Nodes = (contents t.heads).length := by
  obtain ⟨h, ps, hh⟩ := twf_heads hr.wf
  have hw := hr.wf.chain
  rw [hh] at hw ⊢
  have hp : (contents (h :: ps)).Perm s.m := by
    rw [List.perm_ext_iff_of_nodup (contents_nodup hw) hr.nodup]
    intro x
    rw [mem_contents, hr.mem x]; unfold Mem; rw [hh]
  exact ⟨hp, by unfold Table.Nodes; rw [hr.nodes, hp.length_eq]⟩

end GoLevel.CacheT
