import GoLevel.Model.MemDB
/-! Sorted-list facts used by the memdb proofs (C14).  Core Lean only. -/
set_option linter.unusedSectionVars false
set_option linter.unusedSimpArgs false
namespace GoLevel.MemDB

variable {cmp : Cmp}

namespace LawfulCmp
variable (hc : LawfulCmp cmp)
include hc

theorem irrefl (a : Bytes) : cmp a a ≠ .lt := by rw [hc.refl]; decide

theorem ne_of_lt {a b : Bytes} (h : cmp a b = .lt) : a ≠ b := by
  intro e; subst e; exact hc.irrefl a h

theorem asymm {a b : Bytes} (h : cmp a b = .lt) : cmp b a ≠ .lt := by
  intro h2
  have := (hc.gt_iff a b).2 h2
  rw [h] at this; cases this

theorem total (a b : Bytes) : cmp a b = .lt ∨ a = b ∨ cmp b a = .lt := by
  cases h : cmp a b with
  | lt => exact .inl rfl
  | eq => exact .inr (.inl (hc.eq_of a b h))
  | gt => exact .inr (.inr ((hc.gt_iff a b).1 h))

theorem eq_iff (a b : Bytes) : cmp a b = .eq ↔ a = b :=
  ⟨hc.eq_of a b, fun e => e ▸ hc.refl a⟩

end LawfulCmp

/-- the test "below `key`" used by every search loop -/
abbrev below (cmp : Cmp) (key : Bytes) : Bytes → Bool := fun x => cmp x key == .lt

/-- last element below `key` (`prevNode`, `findLT`) -/
def pred (cmp : Cmp) (l : List Bytes) (key : Bytes) : Node := (l.takeWhile (below cmp key)).getLast?

/-- first element not below `key` (`findGE`) -/
def succ (cmp : Cmp) (l : List Bytes) (key : Bytes) : Node := (l.dropWhile (below cmp key)).head?

theorem below_iff {key x : Bytes} : below cmp key x = true ↔ cmp x key = .lt := by simp [below]

section
variable (hc : LawfulCmp cmp)
include hc

theorem sorted_split {l : List Bytes} (hs : Sorted cmp l) {k : Bytes} (hk : k ∈ l) :
    ∃ pre post, l = pre ++ k :: post ∧ (∀ x ∈ pre, cmp x k = .lt) ∧ (∀ x ∈ post, cmp k x = .lt) := by
  obtain ⟨pre, post, rfl⟩ := List.append_of_mem hk
  refine ⟨pre, post, rfl, ?_, ?_⟩
  · intro x hx
    have := (List.pairwise_append.1 hs).2.2 x hx k (by simp)
    exact this
  · intro x hx
    have h2 := (List.pairwise_append.1 hs).2.1
    exact (List.pairwise_cons.1 h2).1 x hx

theorem sorted_nodup_pre {pre : List Bytes} {k : Bytes} (h : ∀ x ∈ pre, cmp x k = .lt) : ∀ x ∈ pre, x ≠ k :=
  fun x hx => hc.ne_of_lt (h x hx)

omit hc in
theorem after_append {pre post : List Bytes} {k : Bytes} (h : ∀ x ∈ pre, x ≠ k) :
    after (pre ++ k :: post) (some k) = post := by
  induction pre with
  | nil => simp [after]
  | cons x xs ih =>
    have hx : x ≠ k := h x (by simp)
    have := ih (fun y hy => h y (by simp [hy]))
    simp only [after] at this ⊢
    simp [List.dropWhile_cons, hx, this]

/-- every element that survives `dropWhile (below key)` of a sorted list is not below `key` -/
theorem not_below_of_mem_dropWhile {l : List Bytes} (hs : Sorted cmp l) (key : Bytes) :
    ∀ x ∈ l.dropWhile (below cmp key), cmp x key ≠ .lt := by
  induction l with
  | nil => simp
  | cons a as ih =>
    have hs' := List.pairwise_cons.1 hs
    by_cases ha : cmp a key = .lt
    · simp only [List.dropWhile_cons, below, ha, beq_self_eq_true, if_true]
      exact ih hs'.2
    · have : (below cmp key a) = false := by simp [below, ha]
      simp only [List.dropWhile_cons, this]
      intro x hx
      simp at hx
      rcases hx with rfl | hx
      · exact ha
      · intro hlt
        exact ha (hc.trans _ _ _ (hs'.1 x hx) hlt)

omit hc in
theorem below_of_mem_takeWhile {l : List Bytes} (key : Bytes) :
    ∀ x ∈ l.takeWhile (below cmp key), cmp x key = .lt := by
  induction l with
  | nil => simp
  | cons a as ih =>
    intro x hx
    by_cases ha : cmp a key = .lt
    · simp only [List.takeWhile_cons, below, ha, beq_self_eq_true, if_true, List.mem_cons] at hx
      rcases hx with rfl | hx
      · exact ha
      · exact ih x hx
    · have : (below cmp key a) = false := by simp [below, ha]
      simp [List.takeWhile_cons, this] at hx

theorem filter_lt_eq_takeWhile {l : List Bytes} (hs : Sorted cmp l) (key : Bytes) :
    l.filter (below cmp key) = l.takeWhile (below cmp key) := by
  conv => lhs; rw [← List.takeWhile_append_dropWhile (p := below cmp key) (l := l)]
  rw [List.filter_append]
  have h1 : (l.takeWhile (below cmp key)).filter (below cmp key) = l.takeWhile (below cmp key) := by
    apply List.filter_eq_self.2
    intro x hx
    simpa [below] using below_of_mem_takeWhile key x hx
  have h2 : (l.dropWhile (below cmp key)).filter (below cmp key) = [] := by
    apply List.filter_eq_nil_iff.2
    intro x hx
    simpa [below] using not_below_of_mem_dropWhile hc hs key x hx
  rw [h1, h2, List.append_nil]

/-- the split of a sorted list around a key it contains -/
theorem split_mem {l : List Bytes} (hs : Sorted cmp l) {key : Bytes} (hk : key ∈ l) :
    ∃ pre post, l = pre ++ key :: post ∧ (∀ x ∈ pre, cmp x key = .lt) ∧ (∀ x ∈ post, cmp key x = .lt) ∧
      l.takeWhile (below cmp key) = pre ∧ l.dropWhile (below cmp key) = key :: post := by
  obtain ⟨pre, post, rfl, h1, h2⟩ := sorted_split hc hs hk
  refine ⟨pre, post, rfl, h1, h2, ?_, ?_⟩
  · rw [List.takeWhile_append_of_pos (by intro x hx; simpa [below] using h1 x hx)]
    simp [List.takeWhile_cons, below, hc.refl]
  · rw [List.dropWhile_append_of_pos (by intro x hx; simpa [below] using h1 x hx)]
    simp [List.dropWhile_cons, below, hc.refl]

theorem succ_of_mem {l : List Bytes} (hs : Sorted cmp l) {key : Bytes} (hk : key ∈ l) :
    succ cmp l key = some key := by
  obtain ⟨pre, post, _, _, _, _, h⟩ := split_mem hc hs hk
  simp [succ, h]

omit hc in
theorem succ_mem {l : List Bytes} {key x : Bytes} (h : succ cmp l key = some x) : x ∈ l := by
  unfold succ at h
  have := List.mem_of_mem_head? h
  exact (List.dropWhile_sublist _).subset this

omit hc in
theorem pred_mem {l : List Bytes} {key x : Bytes} (h : pred cmp l key = some x) : x ∈ l ∧ cmp x key = .lt := by
  unfold pred at h
  have hm := List.mem_of_getLast? h
  exact ⟨(List.takeWhile_sublist _).subset hm, below_of_mem_takeWhile key x hm⟩

/-- `exact` of `findGE`: the successor compares equal iff the key is on the level -/
theorem succ_eq_iff {l : List Bytes} (hs : Sorted cmp l) (key : Bytes) :
    isEq cmp key (succ cmp l key) = decide (key ∈ l) := by
  by_cases hk : key ∈ l
  · simp [succ_of_mem hc hs hk, hc.refl, hk, isEq]
  · cases h : succ cmp l key with
    | none => simp [hk, isEq]
    | some x =>
      have hx := succ_mem h
      have : cmp x key ≠ .eq := fun e => hk (hc.eq_of _ _ e ▸ hx)
      simp [this, hk, isEq]

end

end GoLevel.MemDB
