import GoLevel.Proofs.IterDBNext
/-!
# `dbIter.prev()` and the `for i.iter.Prev()` loop of `Prev`: the backward scans

Core Lean only.
-/
namespace GoLevel

/-- loop invariant of `prev()` after the indices `[lo, t]` have been examined (scanning downwards):
with `del` nothing visible has been found in them; without `del` the saved `key`/`value` are those of a
value candidate at `m`, nothing between `lo` and `m` is a candidate, nothing above `m` is visible -/
def PI (es : List Entry) (seq lo t : Nat) (del : Bool) (key value : Bytes) : Prop :=
  (del = true → ∀ (i : Nat) (e : Entry), lo ≤ i → i ≤ t → es[i]? = some e → ¬ Vis es seq i e) ∧
  (del = false → ∃ m em, lo ≤ m ∧ m ≤ t ∧ es[m]? = some em ∧ em.seq ≤ seq ∧ em.kind = Gen.keyTypeVal ∧
      key = em.ukey ∧ value = em.val ∧
      (∀ (i : Nat) (e : Entry), lo ≤ i → i < m → es[i]? = some e → seq < e.seq) ∧
      (∀ (i : Nat) (e : Entry), m < i → i ≤ t → es[i]? = some e → ¬ Vis es seq i e))

/-- where the raw iterator is left when `prev()` has settled on the visible entry `em` at `m` -/
def BackRaw {σ : Type} (c : UCmp) (R : σ → Pos → Prop) (es : List Entry) (seq : Nat) (raw : σ) (m : Nat)
    (em : Entry) : Prop :=
  (R raw .soi ∧ ∀ (i : Nat) (e : Entry), i < m → es[i]? = some e → seq < e.seq) ∨
  (∃ j' e', j' < m ∧ R raw (.at j') ∧ es[j']? = some e' ∧ e'.seq ≤ seq ∧ c.cmp e'.ukey em.ukey = .lt ∧
      ∀ (i : Nat) (e : Entry), j' < i → i < m → es[i]? = some e → seq < e.seq)

/-- what the loop of `prev()` has achieved for the indices `≤ t` -/
def PrevOut {σ : Type} (c : UCmp) (R : σ → Pos → Prop) (es : List Entry) (d : DBIter σ) (t : Nat)
    (r : DBIter σ × Bool) : Prop :=
  r.1.seq = d.seq ∧ r.1.fuel = d.fuel ∧ r.1.dir = d.dir ∧
  (r.2 = true → R r.1.raw .soi ∧ ∀ (i : Nat) (e : Entry), i ≤ t → es[i]? = some e → ¬ Vis es d.seq i e) ∧
  (r.2 = false → ∃ m em, m ≤ t ∧ es[m]? = some em ∧ Vis es d.seq m em ∧ r.1.key = em.ukey ∧
      r.1.value = em.val ∧ (∀ (i : Nat) (e : Entry), m < i → i ≤ t → es[i]? = some e → ¬ Vis es d.seq i e) ∧
      BackRaw c R es d.seq r.1.raw m em)

section
variable {σ : Type} {o : IterOps σ} {c : UCmp} {es : List Entry} {R : σ → Pos → Prop}

/-- the `if !i.iter.Prev() { break }` tail of one iteration -/
def prevCont (o : IterOps σ) (c : UCmp) (n : Nat) (del : Bool) (d : DBIter σ) : DBIter σ × Bool :=
  let r := o.prev d.raw
  if o.ok r then DBIter.prevLoop o c n del { d with raw := r } else ({ d with raw := r }, del)

theorem prevLoop_succ (n : Nat) (del : Bool) (d : DBIter σ) :
    DBIter.prevLoop o c (n + 1) del d =
      match o.cur d.raw with
      | none => prevCont o c n del d
      | some e =>
        if e.seq ≤ d.seq then
          if !del && c.cmp e.ukey d.key = .lt then (d, false)
          else if e.kind = Gen.keyTypeDel then prevCont o c n true d
          else prevCont o c n false { d with key := e.ukey, value := e.val }
        else prevCont o c n del d := by
  rfl

variable (hsim : Sim o c es R)
include hsim

theorem prevCont_spec (n j t : Nat) (del : Bool) (d d0 : DBIter σ)
    (ih : ∀ (j : Nat) (del : Bool) (d : DBIter σ) (e0 : Entry), j < n → R d.raw (.at j) → es[j]? = some e0 →
      j ≤ t → d.seq = d0.seq → d.fuel = d0.fuel → d.dir = d0.dir →
      PI es d.seq (j + 1) t del d.key d.value → PrevOut c R es d0 t (DBIter.prevLoop o c n del d))
    (hfuel : j < n + 1) (hR : R d.raw (.at j)) (hjt : j ≤ t) (hlen : j < es.length)
    (h1 : d.seq = d0.seq) (h2 : d.fuel = d0.fuel) (h3 : d.dir = d0.dir)
    (hPI : PI es d.seq j t del d.key d.value) :
    PrevOut c R es d0 t (prevCont o c n del d) := by
  have hRp := hsim.prev _ _ hR
  simp only [Cursor.prev] at hRp
  simp only [prevCont]
  by_cases hj : j = 0
  · subst hj
    rw [if_pos rfl] at hRp
    have hok : o.ok (o.prev d.raw) = false := by
      rw [hsim.ok_eq _ _ hRp]; simp [Cursor.get]
    rw [hok]
    refine ⟨h1, h2, h3, ?_, ?_⟩
    · intro hdel
      exact ⟨hRp, fun i e hi he => by rw [← h1]; exact hPI.1 hdel i e (Nat.zero_le _) hi he⟩
    · intro hdel
      obtain ⟨m, em, _, hmt, hem, hc, hval, hkey, hvalue, hgap, habove⟩ := hPI.2 hdel
      rw [← h1]
      refine ⟨m, em, hmt, hem, ⟨hc, hval, ?_⟩, hkey, hvalue, habove, .inl ⟨hRp, ?_⟩⟩
      · intro i e hi he _; exact hgap i e (Nat.zero_le _) hi he
      · intro i e hi he; exact hgap i e (Nat.zero_le _) hi he
  · rw [if_neg hj] at hRp
    have hj1 : j - 1 < es.length := by omega
    have hok : o.ok (o.prev d.raw) = true := by
      rw [hsim.ok_eq _ _ hRp]; simp [Cursor.get, hj1]
    rw [if_pos hok]
    have he1 : es[j - 1]? = some es[j - 1] := List.getElem?_eq_getElem hj1
    have hPI' : PI es d.seq (j - 1 + 1) t del d.key d.value := by
      have : j - 1 + 1 = j := by omega
      rw [this]; exact hPI
    exact ih (j - 1) del { d with raw := o.prev d.raw } es[j - 1] (by omega) hRp he1 (by omega) h1 h2 h3 hPI'

variable (hl : LawfulUCmp c) (hs : SortedEntries c es) (hk : ∀ e ∈ es, e.kind ≤ Gen.keyTypeVal)
include hl hs hk

/-- **the loop of `prev()`** started at raw index `j ≤ t` settles on the last visible entry at or below `t`
(given that the part `(j, t]` already examined satisfies the invariant), or reports `del` if there is none -/
theorem prevLoop_spec (d0 : DBIter σ) (t : Nat) (n : Nat) : ∀ (j : Nat) (del : Bool) (d : DBIter σ) (e0 : Entry),
    j < n → R d.raw (.at j) → es[j]? = some e0 → j ≤ t →
    d.seq = d0.seq → d.fuel = d0.fuel → d.dir = d0.dir →
    PI es d.seq (j + 1) t del d.key d.value → PrevOut c R es d0 t (DBIter.prevLoop o c n del d) := by
  induction n with
  | zero => intro j _ _ _ h; omega
  | succ n ih =>
    intro j del d e0 hfuel hR he0 hjt h1 h2 h3 hPI
    have hlen := getElem?_lt he0
    have hcur : o.cur d.raw = some e0 := by rw [hsim.cur _ _ hR]; simpa [Cursor.get] using he0
    rw [prevLoop_succ, hcur]
    simp only
    by_cases hc : e0.seq ≤ d.seq
    · rw [if_pos hc]
      by_cases hret : (!del && c.cmp e0.ukey d.key = .lt) = true
      · -- early `return true`
        rw [if_pos hret]
        simp only [Bool.and_eq_true, Bool.not_eq_true', decide_eq_true_eq] at hret
        obtain ⟨hdel, hlt⟩ := hret
        obtain ⟨m, em, hjm, hmt, hem, hcm, hval, hkey, hvalue, hgap, habove⟩ := hPI.2 hdel
        refine ⟨h1, h2, h3, fun h => by simp at h, fun _ => ?_⟩
        rw [← h1]
        rw [hkey] at hlt
        refine ⟨m, em, hmt, hem, ⟨hcm, hval, ?_⟩, hkey, hvalue, habove, .inr ⟨j, e0, by omega, hR, he0, hc, hlt,
          fun i e hi1 hi2 he => hgap i e (by omega) hi2 he⟩⟩
        intro i e hi he hu
        rcases Nat.lt_or_ge j i with hji | hij
        · exact hgap i e (by omega) hi he
        · exfalso
          have := ukey_le_idx hl hs i j e e0 hij he he0
          rw [hu] at this
          exact this ((hl.gt_iff _ _).2 hlt)
      · rw [if_neg hret]
        -- the entries in `(j, t]` are not visible once the candidate `e0` at `j` is not below the saved key
        have hnone : ∀ (i : Nat) (e : Entry), j + 1 ≤ i → i ≤ t → es[i]? = some e → ¬ Vis es d.seq i e := by
          cases hdel : del with
          | true => exact hPI.1 hdel
          | false =>
            obtain ⟨m, em, hjm, hmt, hem, hcm, hval, hkey, hvalue, hgap, habove⟩ := hPI.2 hdel
            have hnlt : c.cmp e0.ukey em.ukey ≠ .lt := by
              intro h; apply hret; simp [hdel, hkey, h]
            have hle := ukey_le_idx hl hs j m e0 em (by omega) he0 hem
            have hu : e0.ukey = em.ukey := by
              cases h : c.cmp e0.ukey em.ukey with
              | lt => exact absurd h hnlt
              | eq => exact hl.eq_of _ _ h
              | gt => exact absurd h hle
            intro i e hi1 hi2 he hv
            rcases Nat.lt_trichotomy i m with hlt | heq | hgt
            · have := hgap i e hi1 hlt he; exact absurd hv.1 (by omega)
            · subst heq; rw [hem] at he; cases he
              have := hv.2.2 j e0 (by omega) he0 hu; omega
            · exact habove i e hgt hi2 he hv
        by_cases hkd : e0.kind = Gen.keyTypeDel
        · rw [if_pos hkd]
          refine prevCont_spec hsim n j t true d d0 ih hfuel hR hjt hlen h1 h2 h3 ⟨fun _ => ?_, fun h => by simp at h⟩
          intro i e hi1 hi2 he
          rcases Nat.lt_or_ge j i with hji | hij
          · exact hnone i e (by omega) hi2 he
          · have : i = j := by omega
            subst this; rw [he0] at he; cases he
            exact fun hv => kind_del_ne_val _ hkd hv.2.1
        · rw [if_neg hkd]
          have hval : e0.kind = Gen.keyTypeVal := by
            rcases kind_cases e0 (hk e0 (List.mem_of_getElem? he0)) with h | h
            · exact absurd h hkd
            · exact h
          refine prevCont_spec hsim n j t false { d with key := e0.ukey, value := e0.val } d0 ih hfuel hR hjt hlen
            h1 h2 h3 ⟨fun h => by simp at h, fun _ => ?_⟩
          exact ⟨j, e0, Nat.le_refl _, hjt, he0, hc, hval, rfl, rfl, fun i e hi1 hi2 => by omega,
            fun i e hi1 hi2 he => hnone i e (by omega) hi2 he⟩
    · rw [if_neg hc]
      refine prevCont_spec hsim n j t del d d0 ih hfuel hR hjt hlen h1 h2 h3 ⟨fun hdel => ?_, fun hdel => ?_⟩
      · intro i e hi1 hi2 he
        rcases Nat.lt_or_ge j i with hji | hij
        · exact hPI.1 hdel i e (by omega) hi2 he
        · have : i = j := by omega
          subst this; rw [he0] at he; cases he
          exact fun hv => hc hv.1
      · obtain ⟨m, em, hjm, hmt, hem, hcm, hval, hkey, hvalue, hgap, habove⟩ := hPI.2 hdel
        refine ⟨m, em, by omega, hmt, hem, hcm, hval, hkey, hvalue, ?_, habove⟩
        intro i e hi1 hi2 he
        rcases Nat.lt_or_ge j i with hji | hij
        · exact hgap i e (by omega) hi2 he
        · have : i = j := by omega
          subst this; rw [he0] at he; cases he
          omega

omit hl hs hk in
/-- **the `for i.iter.Prev()` loop of `Prev`** (`case dirForward`): from raw index `j0` it walks back to the
first entry whose user key is below `key`; all entries passed have a user key not below `key` -/
theorem backLoop_spec (j : Nat) (n : Nat) : ∀ (j0 : Nat) (d : DBIter σ), j0 < n → R d.raw (.at j0) → j0 ≤ j →
    j0 < es.length →
    (∀ (i : Nat) (e : Entry), j0 ≤ i → i ≤ j → es[i]? = some e → c.cmp e.ukey d.key ≠ .lt) →
    let r := DBIter.backLoop o c n d
    r.1.seq = d.seq ∧ r.1.fuel = d.fuel ∧ r.1.dir = d.dir ∧ r.1.key = d.key ∧ r.1.value = d.value ∧
    (r.2 = false → R r.1.raw .soi ∧
        ∀ (i : Nat) (e : Entry), i ≤ j → es[i]? = some e → c.cmp e.ukey d.key ≠ .lt) ∧
    (r.2 = true → ∃ j' e', j' < j0 ∧ R r.1.raw (.at j') ∧ es[j']? = some e' ∧ c.cmp e'.ukey d.key = .lt ∧
        ∀ (i : Nat) (e : Entry), j' < i → i ≤ j → es[i]? = some e → c.cmp e.ukey d.key ≠ .lt) := by
  induction n with
  | zero => intro j0 _ h; omega
  | succ n ih =>
    intro j0 d hfuel hR hj0 hlen hinv
    have hRp := hsim.prev _ _ hR
    simp only [Cursor.prev] at hRp
    simp only [DBIter.backLoop]
    by_cases hz : j0 = 0
    · subst hz
      rw [if_pos rfl] at hRp
      have hcur : o.cur (o.prev d.raw) = none := by rw [hsim.cur _ _ hRp]; rfl
      rw [hcur]
      exact ⟨rfl, rfl, rfl, rfl, rfl, fun _ => ⟨hRp, fun i e hi he => hinv i e (Nat.zero_le _) hi he⟩,
        fun h => by simp at h⟩
    · rw [if_neg hz] at hRp
      have hj1 : j0 - 1 < es.length := by omega
      have hcur : o.cur (o.prev d.raw) = some es[j0 - 1] := by
        rw [hsim.cur _ _ hRp]; simp [Cursor.get, hj1]
      have he1 : es[j0 - 1]? = some es[j0 - 1] := List.getElem?_eq_getElem hj1
      rw [hcur]
      simp only
      by_cases hlt : c.cmp es[j0 - 1].ukey d.key = .lt
      · rw [if_pos hlt]
        refine ⟨rfl, rfl, rfl, rfl, rfl, fun h => by simp at h, fun _ => ⟨j0 - 1, _, by omega, hRp, he1, hlt, ?_⟩⟩
        intro i e hi1 hi2 he
        exact hinv i e (by omega) hi2 he
      · rw [if_neg hlt]
        have := ih (j0 - 1) { d with raw := o.prev d.raw } (by omega) hRp (by omega) hj1 (by
          intro i e hi1 hi2 he
          rcases Nat.lt_or_ge i j0 with h | h
          · have : i = j0 - 1 := by omega
            subst this; rw [he1] at he; cases he; exact hlt
          · exact hinv i e h hi2 he)
        obtain ⟨a1, a2, a3, a4, a5, a6, a7⟩ := this
        refine ⟨a1, a2, a3, a4, a5, a6, fun h => ?_⟩
        obtain ⟨j', e', h1, h2⟩ := a7 h
        exact ⟨j', e', by omega, h2⟩

end
end GoLevel
