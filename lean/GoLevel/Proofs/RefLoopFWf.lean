import GoLevel.Proofs.RefLoopFEnv
/-! Well-formedness of the full environment of the reference loop and the messages it may send (C07). -/
namespace GoLevel.RefLoop

def ind (p : Prop) [Decidable p] : Nat := if p then 1 else 0

/-- The delta `d` turns the loop's view `A` into `B`: each table listed once on either side (the D13 repair
for `added`), every deleted table is counted, and the NET effect is exact — a table may be listed on both
sides (a trivial move: `rec.delTable(level, n); rec.addTableFile(level+1, t)`). -/
structure NetExact (A : List Nat) (d : Delta) (B : List Nat) : Prop where
  na : d.added.Nodup
  nd : d.deleted.Nodup
  del : ∀ r ∈ d.deleted, r ∈ A
  net : ∀ f, ind (f ∈ B) + ind (f ∈ d.deleted) = ind (f ∈ A) + ind (f ∈ d.added)

structure EnvF.WF (G : EnvF) : Prop where
  nodupT : ∀ k, (G.T k).Nodup
  nodupL : ∀ k, (G.L k).Nodup
  sub : ∀ k f, f ∈ G.L k → f ∈ G.T k
  /-- `newSession`: version 0 is installed and empty -/
  first : 0 < G.N → G.inst 0 ∧ G.T 0 = []
  dn : (G.N = 0 ∧ G.dn = 0) ∨ G.inst G.dn
  /-- the deltas that were sent are exact -/
  chain : ∀ b, b < G.dn → G.inst b → NetExact (G.L b) (G.din (G.up (b + 1))) (G.L (G.up (b + 1)))
  rel : ∀ k ∈ G.rel, G.inst k ∧ (k < G.dn ∨ (G.closing = true ∧ k = G.dn))
  /-- a table of a superseded version that the loop did not count for it is counted for its successor (only
  `session.recover` installs such a version: its delta is empty, the first commit's delta lists every table) -/
  keep : ∀ b, b < G.dn → G.inst b → ∀ f, f ∈ G.T b → f ∉ G.L b → f ∈ G.L (G.up (b + 1))
  /-- the closing version is the newest id, installed and empty; nothing follows it -/
  cls : G.closing = true → 0 < G.N ∧ G.inst (G.N - 1) ∧ G.T (G.N - 1) = [] ∧ G.dn + 1 < G.N ∧ G.up (G.dn + 1) = G.N - 1

/-- the version whose view is the base of the counters when the loop stands at `next` -/
def EnvF.cb (G : EnvF) (next : Nat) : Nat := G.up (min G.dn next)

/-- version `j` still matters to the loop standing at `nx`: it is unreleased, or the loop has not passed it -/
def EnvF.alive (G : EnvF) (nx j : Nat) : Prop := j ∉ G.rel ∨ G.cb nx ≤ j

/-- File numbers are reused (`session.reuseFileNum`: the number of a removed table is handed out again when it
was the newest one), so "a table that left the version never comes back" holds for NUMBERS only relative to the
versions that still matter: -/
structure GL (G : EnvF) (nx : Nat) : Prop where
  /-- a table that left the version does not come back -/
  gone : ∀ f j l m, j < l → l < m → G.inst l → G.alive nx j → f ∈ G.T j → f ∉ G.T l → f ∉ G.T m
  /-- a table that the loop does not count for a version although an older version had it is not in it -/
  left : ∀ f j k, j < k → G.inst k → G.alive nx j → f ∈ G.T j → f ∉ G.L k → f ∉ G.T k

/-- No file number is ever used for two tables (what `GL` says, for every version): needed only for
"removed exactly once". -/
structure NoReuse (G : EnvF) : Prop where
  gone : ∀ f j l m, j < l → l < m → G.inst l → f ∈ G.T j → f ∉ G.T l → f ∉ G.T m
  left : ∀ f j k, j < k → G.inst k → f ∈ G.T j → f ∉ G.L k → f ∉ G.T k

theorem NoReuse.gl {G : EnvF} (h : NoReuse G) (nx : Nat) : GL G nx :=
  ⟨fun f j l m h1 h2 h3 _ => h.gone f j l m h1 h2 h3, fun f j k h1 h2 _ => h.left f j k h1 h2⟩

/-- What the producers (`version.incref/releaseNB`, `session.setVersion/commit/close`) may send next. -/
inductive EnvStepF (nx : Nat) : EnvF → Msg → EnvF → Prop
  /-- `v.incref()` in `setVersion`: the next id; no delta is pending -/
  | ref (G : EnvF) (fs L : List Nat) (din : Delta) : G.closing = false → fs.Nodup → L.Nodup →
      (∀ f ∈ L, f ∈ fs) → (G.N = 0 → fs = []) → (0 < G.N → G.N ≤ G.up (G.dn + 1)) →
      (∀ f ∈ fs, ∀ j l, j < l → G.inst l → G.alive nx j → f ∈ G.T j → f ∈ G.T l) →
      (∀ f ∈ fs, ∀ j, G.alive nx j → f ∈ G.T j → f ∈ L) →
      EnvStepF nx G (.ref G.N fs) (G.push (.inst fs L din))
  /-- the send on `deltaCh` in `setVersion`: filed under the id of the superseded version -/
  | delta (G : EnvF) : G.closing = false → G.up (G.dn + 1) < G.N →
      NetExact (G.L G.dn) (G.din (G.up (G.dn + 1))) (G.L (G.up (G.dn + 1))) →
      (∀ f, f ∈ G.T G.dn → f ∉ G.L G.dn → f ∈ G.L (G.up (G.dn + 1))) →
      EnvStepF nx G (.delta G.dn (G.din (G.up (G.dn + 1)))) { G with dn := G.up (G.dn + 1) }
  /-- `version.releaseNB` dropping the last reference of a superseded version -/
  | rel (G : EnvF) (k : Nat) : G.inst k → k < G.dn → k ∉ G.rel →
      EnvStepF nx G (.rel k (G.T k)) { G with rel := k :: G.rel }
  /-- `session.commit` failed: the id it spawned is abandoned -/
  | abandon (G : EnvF) : G.closing = false → 0 < G.N →
      EnvStepF nx G (.abandon G.N) (G.push .failed)
  | expire (G : EnvF) (v : Nat) : EnvStepF nx G (.expire v) G
  /-- `session.close`: `setVersion(nil, &version{closing: true, id: s.ntVersionID})` references the closing
  version (no tables) … -/
  | refClose (G : EnvF) : G.closing = false → 0 < G.N → G.N ≤ G.up (G.dn + 1) →
      EnvStepF nx G (.ref G.N []) { G.push (.inst [] [] ⟨[], []⟩) with closing := true }
  /-- … sends no delta (`r == nil`) and releases the current version -/
  | relClose (G : EnvF) : G.closing = true → G.dn ∉ G.rel →
      EnvStepF nx G (.rel G.dn (G.T G.dn)) { G with rel := G.dn :: G.rel }

end GoLevel.RefLoop
