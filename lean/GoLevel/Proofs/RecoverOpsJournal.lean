import GoLevel.Proofs.RecoverOpsKey
import GoLevel.Proofs.RecoverOpsCrash
/-!
`Recover` at the level of storage operations, part 5: the storage during `openDB` (phase 3), operation by
operation.  `JInv` describes the storage between two operations of `recoverJournal`; `flush_reach`,
`mid_reach`, … show that every crash image of every prefix offers a second `Recover` an input that is `MidIn`
relative to the first one's.
-/
namespace GoLevel.Dur
open GoLevel GoLevel.Conc

/-! ## `sortNums` is a permutation -/

theorem mem_insertNum {x n : Nat} {l : List Nat} : x ∈ insertNum n l ↔ x = n ∨ x ∈ l := by
  induction l with
  | nil => simp [insertNum]
  | cons y ys ih =>
    unfold insertNum
    by_cases h : n ≤ y
    · simp [h]
    · simp only [h, if_false, List.mem_cons, ih]
      constructor
      · rintro (h1 | h1 | h1)
        · exact Or.inr (Or.inl h1)
        · exact Or.inl h1
        · exact Or.inr (Or.inr h1)
      · rintro (h1 | h1 | h1)
        · exact Or.inr (Or.inl h1)
        · exact Or.inl h1
        · exact Or.inr (Or.inr h1)

theorem mem_sortNums {x : Nat} {l : List Nat} : x ∈ sortNums l ↔ x ∈ l := by
  induction l with
  | nil => simp [sortNums]
  | cons y ys ih =>
    have : sortNums (y :: ys) = insertNum y (sortNums ys) := rfl
    rw [this, mem_insertNum, ih, List.mem_cons]

/-! ## what a `Recover` reads, by table number and by journal -/

/-- an entry is read from some table -/
theorem mem_scan_tables {cfg : RCfg} {r : RDisk} {e : Entry} :
    e ∈ (scanIn cfg r).tables.flatMap (·.2) ↔ ∃ n, e ∈ slotEnts cfg r n := by
  rw [scanIn_table_ents, List.mem_flatMap]
  constructor
  · rintro ⟨n, _, h⟩; exact ⟨n, h⟩
  · rintro ⟨n, h⟩
    refine ⟨n, ?_, h⟩
    unfold tableNums
    rw [mem_sortNums]
    apply lookup_isSome_iff.1
    unfold slotEnts at h
    cases hl : lookup r.disk.tables n with
    | none => rw [hl] at h; cases h
    | some t => rfl

/-- the journal stream of a storage whose journal files are listed in number order -/
theorem scan_journals_sorted (cfg : RCfg) {r : RDisk} (hs : r.disk.journals.Pairwise (fun p q => p.1 < q.1)) :
    (scanIn cfg r).journals.flatMap (·.2) = r.disk.journals.flatMap (·.2.all) := by
  rw [scanIn_journal_stream]
  have h1 : journalNums r.disk = r.disk.journals.map (·.1) := by
    unfold journalNums Files.nums
    apply sortNums_sorted
    rw [List.pairwise_map]; exact hs
  rw [h1]
  exact journalRecs_eq hs r.disk.journals (fun p hp => hp)

/-! ## crash images, table by table -/

theorem slotEnts_eq_of {cfg : RCfg} {r r' : RDisk} {n : Nat} (hl : lookup r'.disk.tables n = lookup r.disk.tables n)
    (hd : r'.dmg = r.dmg) : slotEnts cfg r' n = slotEnts cfg r n := by
  unfold slotEnts scanDamaged
  rw [hl, hd]

theorem rcrash_table_lookup (ch : RCrash) (r : RDisk) (n : Nat) :
    lookup (rcrash ch r).disk.tables n = (lookup r.disk.tables n).map (crashTable (ch.base.keepT n)) := by
  show lookup (r.disk.tables.map fun p => (p.1, crashTable (ch.base.keepT p.1) p.2)) n = _
  exact lookup_map_snd r.disk.tables (fun n t => crashTable (ch.base.keepT n) t) n

/-- a crash leaves of a table what a `Recover` read from it, or nothing -/
theorem slot_crash_cases (cfg : RCfg) (ch : RCrash) (r : RDisk) (n : Nat) :
    slotEnts cfg (rcrash ch r) n = slotEnts cfg r n ∨ slotEnts cfg (rcrash ch r) n = [] := by
  unfold slotEnts
  rw [rcrash_table_lookup]
  cases hl : lookup r.disk.tables n with
  | none => left; rfl
  | some t =>
    simp only [Option.map_some]
    unfold crashTable
    by_cases hs : t.synced = true
    · left; simp [hs, scanDamaged, rcrash]
    · by_cases hk : ch.base.keepT n = true
      · left; simp [hs, hk, scanDamaged, scanGood, rcrash]
      · right; simp [hs, hk, scanDamaged, scanGood]

theorem slot_crash_synced (cfg : RCfg) (ch : RCrash) (r : RDisk) (n : Nat)
    (h : ∀ t, lookup r.disk.tables n = some t → t.synced = true) :
    slotEnts cfg (rcrash ch r) n = slotEnts cfg r n := by
  refine slotEnts_eq_of (r := r) (r' := rcrash ch r) ?_ rfl
  rw [rcrash_table_lookup]
  cases hl : lookup r.disk.tables n with
  | none => rfl
  | some t => simp [crashTable_synced _ _ (h t hl)]

/-! ## the storage between two operations of `recoverJournal` -/

/-- `P`: the groups flushed so far; `Jcur`: the journal files still there; `nf`: the next file number -/
structure JInv (cfg : RCfg) (r0 : RDisk) (nf : Nat) (P : List Grp) (Jcur : Files (LogFile Grp)) (r : RDisk) :
    Prop where
  journals : r.disk.journals = Jcur
  tsynced : ∀ p ∈ r.disk.tables, p.2.synced = true
  tbound : ∀ p ∈ r.disk.tables, p.1 < nf
  dbound : ∀ n ∈ r.dmg, n < nf
  tabs : ∀ e, (∃ n, e ∈ slotEnts cfg r n) ↔
    e ∈ (scanIn cfg r0).tables.flatMap (·.2) ∨ e ∈ P.flatMap Grp.ents
  orig : ∀ n, n ∈ r0.disk.tables.nums → slotEnts cfg r n = slotEnts cfg r0 n

/-- only tables, journals and damage marks matter -/
theorem JInv.of_eq {cfg : RCfg} {r0 r r' : RDisk} {nf : Nat} {P : List Grp} {Jcur : Files (LogFile Grp)}
    (h : JInv cfg r0 nf P Jcur r) (ht : r'.disk.tables = r.disk.tables)
    (hj : r'.disk.journals = r.disk.journals) (hd : r'.dmg = r.dmg) : JInv cfg r0 nf P Jcur r' := by
  have hs : ∀ n, slotEnts cfg r' n = slotEnts cfg r n := fun n => slotEnts_eq_of (by rw [ht]) hd
  refine ⟨by rw [hj]; exact h.journals, by rw [ht]; exact h.tsynced, by rw [ht]; exact h.tbound,
    by rw [hd]; exact h.dbound, fun e => ?_, fun n hn => by rw [hs]; exact h.orig n hn⟩
  rw [← h.tabs e]
  simp only [hs]

theorem JInv.mono {cfg : RCfg} {r0 r : RDisk} {nf nf' : Nat} {P : List Grp} {Jcur : Files (LogFile Grp)}
    (h : JInv cfg r0 nf P Jcur r) (hn : nf ≤ nf') : JInv cfg r0 nf' P Jcur r :=
  ⟨h.journals, h.tsynced, fun p hp => Nat.lt_of_lt_of_le (h.tbound p hp) hn,
   fun n hn' => Nat.lt_of_lt_of_le (h.dbound n hn') hn, h.tabs, h.orig⟩

/-- the crash image of a storage between two operations: nothing is lost -/
theorem JInv.crash {cfg : RCfg} {r0 r : RDisk} {nf : Nat} {P : List Grp} {Jcur : Files (LogFile Grp)}
    (h : JInv cfg r0 nf P Jcur r) (hdur : ∀ p ∈ Jcur, p.2.unsynced = []) (ch : RCrash) :
    JInv cfg r0 nf P Jcur (rcrash ch r) :=
  h.of_eq (rcrash_tables ch r h.tsynced) (rcrash_journals ch r (by rw [h.journals]; exact hdur)) rfl

/-- what a second `Recover` reads on a storage between two operations -/
theorem JInv.midIn {cfg : RCfg} {r0 r : RDisk} {nf : Nat} {P Q R : List Grp} {Jcur : Files (LogFile Grp)}
    (h : JInv cfg r0 nf (P ++ Q) Jcur r) (hs : Jcur.Pairwise (fun p q => p.1 < q.1))
    (hsplit : (scanIn cfg r0).journals.flatMap (·.2) = P ++ Q ++ R) (hJ : Jcur.flatMap (·.2.all) = Q ++ R) :
    MidIn (scanIn cfg r0) (scanIn cfg r) P Q R := by
  refine ⟨hsplit, fun e => ?_, ?_⟩
  · rw [mem_scan_tables]; exact h.tabs e
  · rw [scan_journals_sorted cfg (by rw [h.journals]; exact hs), h.journals]; exact hJ

/-! ## `flushMemdb` -/

theorem lookup_fresh {α : Type} {m : Files α} {t : Nat} (h : ∀ p ∈ m, p.1 < t) : lookup m t = none :=
  lookup_none_iff.2 (fun p hp => Nat.ne_of_lt (h p hp))

/-- the three operations of a flush, complete: table `t` holds `G`, durably -/
theorem JInv.flush {cfg : RCfg} {r0 r : RDisk} {P G : List Grp} {Jcur : Files (LogFile Grp)} {t : Nat}
    (h : JInv cfg r0 t P Jcur r) (hr0 : ∀ n ∈ r0.disk.tables.nums, n < t) :
    JInv cfg r0 (t + 1) (P ++ G) Jcur
      (r.applyAll [.base (.create .table t), .base (.writeT t G), .base (.sync .table t)]) := by
  have hfresh : lookup r.disk.tables t = none := lookup_fresh h.tbound
  have htabs : (r.applyAll [.base (.create .table t), .base (.writeT t G), .base (.sync .table t)]).disk.tables =
      ((r.disk.tables.set t {}).modify t fun x => { x with grps := G }).modify t fun x => { x with synced := true } :=
    rfl
  have hlk : ∀ n, lookup (r.applyAll [.base (.create .table t), .base (.writeT t G),
      .base (.sync .table t)]).disk.tables n = if n = t then some ⟨G, true, false⟩ else lookup r.disk.tables n := by
    intro n
    rw [htabs, lookup_modify, lookup_modify, lookup_set]
    by_cases hn : n = t <;> simp [hn]
  have hslot : ∀ n, slotEnts cfg (r.applyAll [.base (.create .table t), .base (.writeT t G),
      .base (.sync .table t)]) n = if n = t then G.flatMap Grp.ents else slotEnts cfg r n := by
    intro n
    by_cases hn : n = t
    · subst hn
      have hnd : n ∉ r.dmg := fun hc => by have := h.dbound n hc; omega
      simp only [slotEnts, hlk, if_true, scanDamaged, scanGood]
      show (if (cfg.strict && (false || r.dmg.contains n)) = true then [] else _) = _
      simp [hnd]
    · rw [if_neg hn]
      exact slotEnts_eq_of (by rw [hlk, if_neg hn]) rfl
  refine ⟨h.journals, ?_, ?_, fun n hn => Nat.lt_succ_of_lt (h.dbound n hn), fun e => ?_, fun n hn => ?_⟩
  · intro p hp
    rw [htabs] at hp
    obtain ⟨q, hq, rfl⟩ := mem_modify.1 hp
    by_cases hqt : q.1 = t
    · simp [hqt]
    · rw [if_neg hqt]
      obtain ⟨q', hq', rfl⟩ := mem_modify.1 hq
      by_cases hqt' : q'.1 = t
      · simp [hqt'] at hqt
      · rw [if_neg hqt']
        rcases mem_set_imp hq' with rfl | hq''
        · exact absurd rfl hqt'
        · exact h.tsynced _ hq''
  · intro p hp
    rw [htabs] at hp
    have hk : p.1 ∈ (((r.disk.tables.set t {}).modify t fun x => { x with grps := G }).modify t
        fun x => { x with synced := true }).map (·.1) := List.mem_map.2 ⟨p, hp, rfl⟩
    rw [modify_keys, modify_keys] at hk
    obtain ⟨q, hq, e⟩ := List.mem_map.1 hk
    rcases mem_set_imp hq with rfl | hq'
    · simp only at e; omega
    · have := h.tbound q hq'; omega
  · simp only [hslot]
    rw [List.flatMap_append, List.mem_append, ← or_assoc, ← h.tabs e]
    constructor
    · rintro ⟨n, hn⟩
      by_cases hnt : n = t
      · rw [if_pos hnt] at hn; exact Or.inr hn
      · rw [if_neg hnt] at hn; exact Or.inl ⟨n, hn⟩
    · rintro (⟨n, hn⟩ | hn)
      · have hnt : n ≠ t := by
          intro e'; subst e'
          simp [slotEnts, hfresh] at hn
        exact ⟨n, by rw [if_neg hnt]; exact hn⟩
      · exact ⟨t, by rw [if_pos rfl]; exact hn⟩
  · have hnt : n ≠ t := Nat.ne_of_lt (hr0 n hn)
    rw [hslot, if_neg hnt]; exact h.orig n hn

/-- every crash image of a prefix of a flush: the journals are untouched, and the tables hold the groups
    flushed before, with or without the group being flushed -/
theorem flush_reach {cfg : RCfg} {r0 r r' : RDisk} {P G : List Grp} {Jcur : Files (LogFile Grp)} {t : Nat}
    (h : JInv cfg r0 t P Jcur r) (hr0 : ∀ n ∈ r0.disk.tables.nums, n < t)
    (hdur : ∀ p ∈ Jcur, p.2.unsynced = [])
    (hr : Reach [.base (.create .table t), .base (.writeT t G), .base (.sync .table t)] r r') (ch : RCrash) :
    (rcrash ch r').disk.journals = Jcur ∧
    ((∀ e, (∃ n, e ∈ slotEnts cfg (rcrash ch r') n) ↔
        e ∈ (scanIn cfg r0).tables.flatMap (·.2) ∨ e ∈ P.flatMap Grp.ents) ∨
     (∀ e, (∃ n, e ∈ slotEnts cfg (rcrash ch r') n) ↔
        e ∈ (scanIn cfg r0).tables.flatMap (·.2) ∨ e ∈ (P ++ G).flatMap Grp.ents)) := by
  have hfresh : lookup r.disk.tables t = none := lookup_fresh h.tbound
  have hjr : ∀ r'' : RDisk, r''.disk.journals = r.disk.journals → (rcrash ch r'').disk.journals = Jcur := by
    intro r'' e
    rw [rcrash_journals ch r'' (by rw [e, h.journals]; exact hdur), e, h.journals]
  -- the tables other than `t` are those of `r`, durable
  have hother : ∀ r'' : RDisk, r''.dmg = r.dmg →
      (∀ n, n ≠ t → lookup r''.disk.tables n = lookup r.disk.tables n) →
      ∀ n, n ≠ t → slotEnts cfg (rcrash ch r'') n = slotEnts cfg r n := by
    intro r'' hd hl n hn
    rw [slot_crash_synced cfg ch r'' n]
    · exact slotEnts_eq_of (hl n hn) hd
    · intro x hx
      rw [hl n hn] at hx
      exact h.tsynced _ (lookup_some_mem hx)
  -- with table `t` contributing nothing
  have hwithout : ∀ r'' : RDisk, (∀ n, n ≠ t → slotEnts cfg (rcrash ch r'') n = slotEnts cfg r n) →
      slotEnts cfg (rcrash ch r'') t = [] →
      ∀ e, (∃ n, e ∈ slotEnts cfg (rcrash ch r'') n) ↔
        e ∈ (scanIn cfg r0).tables.flatMap (·.2) ∨ e ∈ P.flatMap Grp.ents := by
    intro r'' ho ht e
    rw [← h.tabs e]
    constructor
    · rintro ⟨n, hn⟩
      by_cases hnt : n = t
      · subst hnt; rw [ht] at hn; cases hn
      · exact ⟨n, by rw [← ho n hnt]; exact hn⟩
    · rintro ⟨n, hn⟩
      have hnt : n ≠ t := by
        intro e'; subst e'
        simp [slotEnts, hfresh] at hn
      exact ⟨n, by rw [ho n hnt]; exact hn⟩
  rcases reach_cons hr with rfl | hr
  · exact ⟨hjr _ rfl, Or.inl (fun e => (h.crash hdur ch).tabs e)⟩
  -- after `Create`
  have hl1 : ∀ n, lookup (r.apply (.base (.create .table t))).disk.tables n =
      if n = t then some {} else lookup r.disk.tables n := by
    intro n
    show lookup (r.disk.tables.set t {}) n = _
    rw [lookup_set]
  rcases reach_cons hr with rfl | hr
  · refine ⟨hjr _ rfl, Or.inl (hwithout _ (hother _ rfl (fun n hn => by rw [hl1, if_neg hn])) ?_)⟩
    rcases slot_crash_cases cfg ch (r.apply (.base (.create .table t))) t with e | e
    · rw [e]; simp [slotEnts, hl1, scanGood]
    · exact e
  -- after `Write`
  have hl2 : ∀ n, lookup ((r.apply (.base (.create .table t))).apply (.base (.writeT t G))).disk.tables n =
      if n = t then some ⟨G, false, false⟩ else lookup r.disk.tables n := by
    intro n
    have e : ((r.apply (.base (.create .table t))).apply (.base (.writeT t G))).disk.tables =
        (r.disk.tables.set t {}).modify t fun x => { x with grps := G } := rfl
    rw [e, lookup_modify, lookup_set]
    by_cases hn : n = t <;> simp [hn]
  have hnd : t ∉ r.dmg := fun hc => by have := h.dbound t hc; omega
  have hwith : ∀ r'' : RDisk, (∀ n, n ≠ t → slotEnts cfg (rcrash ch r'') n = slotEnts cfg r n) →
      slotEnts cfg (rcrash ch r'') t = G.flatMap Grp.ents →
      ∀ e, (∃ n, e ∈ slotEnts cfg (rcrash ch r'') n) ↔
        e ∈ (scanIn cfg r0).tables.flatMap (·.2) ∨ e ∈ (P ++ G).flatMap Grp.ents := by
    intro r'' ho ht e
    rw [List.flatMap_append, List.mem_append, ← or_assoc, ← h.tabs e]
    constructor
    · rintro ⟨n, hn⟩
      by_cases hnt : n = t
      · subst hnt; rw [ht] at hn; exact Or.inr hn
      · exact Or.inl ⟨n, by rw [← ho n hnt]; exact hn⟩
    · rintro (⟨n, hn⟩ | hn)
      · have hnt : n ≠ t := by
          intro e'; subst e'
          simp [slotEnts, hfresh] at hn
        exact ⟨n, by rw [ho n hnt]; exact hn⟩
      · exact ⟨t, by rw [ht]; exact hn⟩
  rcases reach_cons hr with rfl | hr
  · refine ⟨hjr _ rfl, ?_⟩
    have ho := hother ((r.apply (.base (.create .table t))).apply (.base (.writeT t G))) rfl
      (fun n hn => by rw [hl2, if_neg hn])
    rcases slot_crash_cases cfg ch ((r.apply (.base (.create .table t))).apply (.base (.writeT t G))) t with e | e
    · right
      apply hwith _ ho
      rw [e]
      simp only [slotEnts, hl2, if_true, scanDamaged, scanGood]
      show (if (cfg.strict && (false || r.dmg.contains t)) = true then [] else _) = _
      simp [hnd]
    · exact Or.inl (hwithout _ ho e)
  -- after `Sync`
  · rw [reach_nil hr]
    have hf := (JInv.flush (G := G) h hr0).crash hdur ch
    exact ⟨hf.journals, Or.inr hf.tabs⟩

end GoLevel.Dur
