import GoLevel.Proofs.IterSim
/-!
# A cursor over `xs.filter P` seen from the indices of `xs`

`rank P xs j` = number of elements satisfying `P` before index `j`.  Used to relate the position of the
DB iterator's raw iterator (an index into the raw entries) to the position of the specification cursor
over the visible entries (C02).  Core Lean only.
-/
namespace GoLevel
variable {α : Type}

def rank (P : α → Bool) (xs : List α) (j : Nat) : Nat := ((xs.take j).filter P).length

theorem rank_zero (P : α → Bool) (xs : List α) : rank P xs 0 = 0 := by simp [rank]

theorem rank_succ (P : α → Bool) (xs : List α) (j : Nat) (e : α) (h : xs[j]? = some e) :
    rank P xs (j + 1) = rank P xs j + (if P e then 1 else 0) := by
  simp only [rank, List.take_add_one, h, Option.toList_some, List.filter_append, List.length_append]
  by_cases hp : P e <;> simp [hp]

theorem rank_of_ge (P : α → Bool) (xs : List α) (j : Nat) (h : xs.length ≤ j) :
    rank P xs j = (xs.filter P).length := by
  simp [rank, List.take_of_length_le h]

/-- no `P`-element in `[j, j')` -/
theorem rank_gap (P : α → Bool) (xs : List α) (j j' : Nat) (hle : j ≤ j')
    (h : ∀ i e, j ≤ i → i < j' → xs[i]? = some e → P e = false) : rank P xs j' = rank P xs j := by
  induction j' with
  | zero => have : j = 0 := by omega
            subst this; rfl
  | succ k ih =>
    by_cases hk : j = k + 1
    · subst hk; rfl
    · have hjk : j ≤ k := by omega
      have ih' := ih hjk (fun i e h1 h2 h3 => h i e h1 (by omega) h3)
      cases hx : xs[k]? with
      | none =>
        have hlen : xs.length ≤ k := by
          rcases Nat.lt_or_ge k xs.length with hlt | hge
          · rw [List.getElem?_eq_getElem hlt] at hx; exact absurd hx (by simp)
          · exact hge
        rw [rank_of_ge P xs (k + 1) (by omega), ← rank_of_ge P xs k hlen, ih']
      | some e =>
        rw [rank_succ P xs k e hx, h k e hjk (by omega) hx, ih']; simp

theorem rank_le (P : α → Bool) (xs : List α) (j : Nat) : rank P xs j ≤ (xs.filter P).length := by
  simp only [rank]
  exact List.Sublist.length_le (List.Sublist.filter P (List.take_sublist j xs))

theorem filter_get_rank (P : α → Bool) (xs : List α) (j : Nat) (e : α) (h : xs[j]? = some e) (hp : P e = true) :
    (xs.filter P)[rank P xs j]? = some e := by
  have hj : j < xs.length := by
    rcases Nat.lt_or_ge j xs.length with hlt | hge
    · exact hlt
    · rw [List.getElem?_eq_none hge] at h; exact absurd h (by simp)
  have hsplit : xs = xs.take j ++ e :: xs.drop (j + 1) := by
    have he : xs[j] = e := by
      rw [List.getElem?_eq_getElem hj] at h; exact Option.some.inj h
    rw [← he]
    simp
  have : xs.filter P = (xs.take j).filter P ++ e :: (xs.drop (j + 1)).filter P := by
    conv => lhs; rw [hsplit]
    rw [List.filter_append, List.filter_cons, if_pos hp]
  rw [this, rank, List.getElem?_append_right (Nat.le_refl _)]
  simp

theorem rank_lt (P : α → Bool) (xs : List α) (j : Nat) (e : α) (h : xs[j]? = some e) (hp : P e = true) :
    rank P xs j < (xs.filter P).length := by
  have := filter_get_rank P xs j e h hp
  rcases Nat.lt_or_ge (rank P xs j) (xs.filter P).length with hlt | hge
  · exact hlt
  · rw [List.getElem?_eq_none hge] at this; exact absurd this (by simp)

/-- no `P`-element at or after `j` -/
theorem rank_end (P : α → Bool) (xs : List α) (j : Nat)
    (h : ∀ i e, j ≤ i → xs[i]? = some e → P e = false) : rank P xs j = (xs.filter P).length := by
  rw [← rank_of_ge P xs (max j xs.length) (by omega)]
  exact (rank_gap P xs j _ (by omega) (fun i e h1 _ h3 => h i e h1 h3)).symm

/-- no `P`-element before `j` -/
theorem rank_begin (P : α → Bool) (xs : List α) (j : Nat)
    (h : ∀ i e, i < j → xs[i]? = some e → P e = false) : rank P xs j = 0 := by
  rw [rank_gap P xs 0 j (by omega) (fun i e _ h2 h3 => h i e h2 h3), rank_zero]

theorem filter_eq_nil_of_none (P : α → Bool) (xs : List α)
    (h : ∀ (i : Nat) e, xs[i]? = some e → P e = false) : xs.filter P = [] := by
  rw [List.filter_eq_nil_iff]
  intro a ha
  obtain ⟨i, hi, rfl⟩ := List.getElem_of_mem ha
  have := h i xs[i] (List.getElem?_eq_getElem hi)
  simp [this]

/-- `Seek` on the filtered list, from the raw indices: `j` is the first `P`-element passing `ge`, and every
`P`-element before it fails `ge` -/
theorem findIdx_filter_rank (P ge : α → Bool) (xs : List α) (j : Nat) (e : α)
    (h : xs[j]? = some e) (hp : P e = true) (hge : ge e = true)
    (hbefore : ∀ i e', i < j → xs[i]? = some e' → P e' = true → ge e' = false) :
    (xs.filter P).findIdx? ge = some (rank P xs j) := by
  rw [List.findIdx?_eq_some_iff_getElem]
  have hlt := rank_lt P xs j e h hp
  refine ⟨hlt, ?_, ?_⟩
  · have := filter_get_rank P xs j e h hp
    rw [List.getElem?_eq_getElem hlt] at this
    rw [Option.some.inj this]; exact hge
  · intro k hk
    -- element k of the filter of xs lies in the filter of (take j xs)
    have hj : j < xs.length := by
      rcases Nat.lt_or_ge j xs.length with hlt | hge'
      · exact hlt
      · rw [List.getElem?_eq_none hge'] at h; exact absurd h (by simp)
    have hsplit : xs.filter P = (xs.take j).filter P ++ (xs.drop j).filter P := by
      rw [← List.filter_append, List.take_append_drop]
    have hk' : k < ((xs.take j).filter P).length := hk
    have hget : (xs.filter P)[k]'(by omega) = ((xs.take j).filter P)[k] := by
      simp only [hsplit]; rw [List.getElem_append_left hk']
    rw [hget]
    have hmem : ((xs.take j).filter P)[k] ∈ (xs.take j).filter P := List.getElem_mem _
    rw [List.mem_filter] at hmem
    obtain ⟨hm, hpk⟩ := hmem
    obtain ⟨i, hi, heq⟩ := List.getElem_of_mem hm
    have hi' : i < j := by simp at hi; omega
    have hxi : xs[i]? = some ((xs.take j).filter P)[k] := by
      rw [← heq, List.getElem_take]; exact List.getElem?_eq_getElem (by omega)
    have := hbefore i _ hi' hxi hpk
    simp [this]

theorem findIdx_filter_none (P ge : α → Bool) (xs : List α)
    (h : ∀ (i : Nat) e, xs[i]? = some e → P e = true → ge e = false) : (xs.filter P).findIdx? ge = none := by
  rw [List.findIdx?_eq_none_iff]
  intro a ha
  rw [List.mem_filter] at ha
  obtain ⟨i, hi, rfl⟩ := List.getElem_of_mem ha.1
  exact h i _ (List.getElem?_eq_getElem hi) ha.2

end GoLevel
