import GoLevel.Proofs.WriteProtoGInv
/-! Global invariants about group membership: the accepted messages are the messages of real writer threads
(`Tie`), each thread at most once (`Nd`), a writer with `acc = some j` is in `j`'s list (`AM`), and the
sequence number a group was given is still `db.seq + 1` while it is being written (`Sq`). -/
namespace GoLevel.WP

@[simp] theorem accept_members (c : Cfg) (l : Thread) (i : Nat) (w : Thread) (st : List Rec) :
    (l.accept c i w st).members = l.members ++ [memOf i w] := rfl
@[simp] theorem accept_recs (c : Cfg) (l : Thread) (i : Nat) (w : Thread) (st : List Rec) :
    (l.accept c i w st).recs = l.recs := rfl
@[simp] theorem accept_sync (c : Cfg) (l : Thread) (i : Nat) (w : Thread) (st : List Rec) :
    (l.accept c i w st).sync = l.sync := rfl
@[simp] theorem accept_put (c : Cfg) (l : Thread) (i : Nat) (w : Thread) (st : List Rec) :
    (l.accept c i w st).put = l.put := rfl
@[simp] theorem accept_size (c : Cfg) (l : Thread) (i : Nat) (w : Thread) (st : List Rec) :
    (l.accept c i w st).size = l.size := rfl
@[simp] theorem accept_merge (c : Cfg) (l : Thread) (i : Nat) (w : Thread) (st : List Rec) :
    (l.accept c i w st).merge = l.merge := rfl
@[simp] theorem accept_gseq (c : Cfg) (l : Thread) (i : Nat) (w : Thread) (st : List Rec) :
    (l.accept c i w st).gseq = l.gseq := rfl

def isReplying : Pc → Bool
  | .lead .replying _ _ => true | _ => false

/-- has been called and is past the `select` -/
def started : Pc → Bool
  | .idle => false | .selecting => false | _ => true

macro "gw" : tactic =>
  `(tactic| (simp only [set2, List.getElem?_set];
             grind [memOf, started, Thread.setPc, Thread.asLeader, Thread.unlock, Thread.grouped, Thread.journalled,
                    accept_pc, accept_acc, accept_kind, accept_members, accept_recs, accept_sync, accept_put,
                    accept_size, accept_merge, accept_gseq]))

/-- a step keeps every thread, its call data, and never takes it back before its `select` -/
theorem step_keeps (s t : St) (h : Step s t) (i : Nat) (w : Thread) (hi : s.ws[i]? = some w) :
    ∃ w', t.ws[i]? = some w' ∧ memOf i w' = memOf i w ∧ w'.kind = w.kind ∧ w'.merge = w.merge ∧
      (started w.pc = true → started w'.pc = true) := by
  cases h with
  | call i w hi hp => gw
  | retClosed i w hi hp hk hc => gw
  | retPerErr i w hi hp hk hc => gw
  | lock i w g hi hp hk ht => gw
  | hAcquire i w hi hp hk ht => gw
  | hRelease i w hi hp hk => gw
  | flushOk j l m o free hj hp => gw
  | flushFail j l m o hj hp => gw
  | recvAccept i j w l m g hj hi hp hm hl' hq hk hwm hsz => gw
  | reply i j w l m o hj hi hp hq => gw
  | recvOverflow i j w l m hj hi hp hm hl' hq hk hwm hsz => gw
  | mergeDone j l m o hj hp => gw
  | journalOk j l m o hj hp => gw
  | journalFail j l m o hj hp => gw
  | apply j l m o hj hp => gw
  | publish j l m o rot hj hp hrot => gw
  | rotateOk j l m o hj hp => gw
  | rotateFail j l m o hj hp => gw
  | ack i j w l k m o r hj hi hp hq => gw
  | handoff i j w l m r g hj hi hp hq hc => gw
  | release j l m r hj hp => gw
  | releaseLost j l m r hj hp hc hr => gw

/-- a step changes the list of accepted messages only by appending the message of a writer that was in its
`select` and now waits for the reply -/
theorem step_members (s t : St) (h : Step s t) (jj : Nat) (l' : Thread) (hj' : t.ws[jj]? = some l') :
    ∃ l, s.ws[jj]? = some l ∧ (l'.members = l.members ∨
      ∃ (i : Nat) (w w' : Thread), s.ws[i]? = some w ∧ w.pc = .selecting ∧ t.ws[i]? = some w' ∧
        w'.pc = .waitMerged ∧ w'.kind = .writer ∧ w'.merge = true ∧ isReplying l'.pc = true ∧ memOf i w' = memOf i w ∧ l'.members = l.members ++ [memOf i w]) := by
  cases h with
  | call i w hi hp => revert hj'; gw
  | retClosed i w hi hp hk hc => revert hj'; gw
  | retPerErr i w hi hp hk hc => revert hj'; gw
  | lock i w g hi hp hk ht => revert hj'; gw
  | hAcquire i w hi hp hk ht => revert hj'; gw
  | hRelease i w hi hp hk => revert hj'; gw
  | flushOk j l m o free hj hp => revert hj'; gw
  | flushFail j l m o hj hp => revert hj'; gw
  | recvAccept i j w l m g hj hi hp hm hl' hq hk hwm hsz =>
    have hij : i ≠ j := by intro h; subst h; rw [hi] at hj; cases hj; rw [hp] at hq; cases hq
    have hil := (List.getElem?_eq_some_iff.mp hi).1
    have hti : (set2 s.ws j ((l.accept s.cfg i w (poolGet s.pool g).1).setPc (.lead .replying m false)) i
        (w.setPc .waitMerged))[i]? = some (w.setPc .waitMerged) := by simp [set2, hil]
    by_cases hjj : jj = j
    · subst hjj
      refine ⟨l, hj, Or.inr ⟨i, w, w.setPc .waitMerged, hi, hq, hti, rfl, hk, hwm, ?_, rfl, ?_⟩⟩ <;>
        simp only [set2, List.getElem?_set] at hj' <;>
        grind [Thread.setPc, accept_members, isReplying]
    · revert hj'; gw
  | reply i j w l m o hj hi hp hq => revert hj'; gw
  | recvOverflow i j w l m hj hi hp hm hl' hq hk hwm hsz => revert hj'; gw
  | mergeDone j l m o hj hp => revert hj'; gw
  | journalOk j l m o hj hp => revert hj'; gw
  | journalFail j l m o hj hp => revert hj'; gw
  | apply j l m o hj hp => revert hj'; gw
  | publish j l m o rot hj hp hrot => revert hj'; gw
  | rotateOk j l m o hj hp => revert hj'; gw
  | rotateFail j l m o hj hp => revert hj'; gw
  | ack i j w l k m o r hj hi hp hq => revert hj'; gw
  | handoff i j w l m r g hj hi hp hq hc => revert hj'; gw
  | release j l m r hj hp => revert hj'; gw
  | releaseLost j l m r hj hp hc hr => revert hj'; gw

end GoLevel.WP
