import GoLevel.Proofs.ConcBasic
/-!
# The basic invariants are preserved by every step of the real system
-/
namespace GoLevel.Conc

theorem getBuf_writeInsert (σ : State) (es : List Entry) (id : Nat) :
    getBuf { σ with hist := σ.hist ++ es, bufs := (σ.mem, memBuf σ ++ es) :: σ.bufs,
                    pending := σ.pending ++ es } id
      = if id = σ.mem then getBuf σ id ++ es else getBuf σ id := by
  rw [getBuf_cons _ σ.mem (memBuf σ ++ es) σ.bufs id rfl]
  by_cases h : id = σ.mem
  · simp [h, memBuf]
  · simp [h, getBuf]

theorem getBuf_wi (σ σ' : State) (es : List Entry) (id : Nat)
    (h : σ'.bufs = (σ.mem, getBuf σ σ.mem ++ es) :: σ.bufs) :
    getBuf σ' id = if id = σ.mem then getBuf σ id ++ es else getBuf σ id := by
  rw [getBuf_cons _ σ.mem (getBuf σ σ.mem ++ es) σ.bufs id h]
  by_cases h : id = σ.mem
  · simp [h]
  · simp [h, getBuf]

theorem basic_writeInsert {σ σ' : State} {es : List Entry} (hb : Basic σ)
    (h : doWriteInsert σ es = some σ') : Basic σ' := by
  obtain ⟨g1, g2, rfl⟩ := doWriteInsert_some h
  obtain ⟨hc1, hc2⟩ := consec_spec _ _ g2
  have hu : univ σ = σ.hist := by simp [univ, g1, privOf]
  have hbound := hb.bound
  rw [hu] at hbound
  simp only [g1, privOf, List.length_nil, Nat.add_zero] at hbound
  have huniq := hb.uniq
  rw [hu] at huniq
  constructor
  · show Uniq ((σ.hist ++ es) ++ privOf σ.tr)
    simp only [g1, privOf, List.append_nil]
    apply uniq_append huniq hc2
    intro u hu' e he
    have := hbound u hu'; have := (hc1 e he).1; omega
  · show ∀ e ∈ (σ.hist ++ es) ++ privOf σ.tr, e.seq ≤ σ.pub + (σ.pending ++ es).length + (privOf σ.tr).length
    simp only [g1, privOf, List.append_nil, List.length_append, List.length_nil]
    intro e he
    rcases List.mem_append.1 he with he | he
    · have := hbound e he; omega
    · have := (hc1 e he).2; omega
  · intro id e he
    rw [getBuf_writeInsert] at he
    show e ∈ σ.hist ++ es
    split at he
    · rcases List.mem_append.1 he with he | he
      · exact List.mem_append_left _ (hb.bufSub id e he)
      · exact List.mem_append_right _ he
    · exact List.mem_append_left _ (hb.bufSub id e he)
  · intro e he
    rcases hb.tabSub e he with h | h
    · exact Or.inl (List.mem_append_left _ h)
    · exact Or.inr h
  · intro id hid
    rw [getBuf_writeInsert]
    have := hb.memLt
    have hne : id ≠ σ.mem := by intro h; rw [h] at hid; exact absurd hid (by show ¬ σ.nextId ≤ σ.mem; omega)
    simp only [hne, if_false]
    exact hb.fresh id hid
  · exact hb.memLt
  · intro t ht; exact absurd ht (by show σ.tr ≠ some t; rw [g1]; simp)
  · intro e he
    show σ.pub < e.seq ∧ e ∈ σ.hist ++ es
    rcases List.mem_append.1 (show e ∈ σ.pending ++ es from he) with he | he
    · exact ⟨(hb.pendSeq e he).1, List.mem_append_left _ (hb.pendSeq e he).2⟩
    · have := (hc1 e he).1
      exact ⟨by omega, List.mem_append_right _ he⟩
  · exact hb.privSeq
  · intro e he hlt
    show e ∈ σ.pending ++ es
    rcases List.mem_append.1 (show e ∈ σ.hist ++ es from he) with he | he
    · exact List.mem_append_left _ (hb.histPub e he hlt)
    · exact List.mem_append_right _ he
  · exact hb.snapsLe
  · exact hb.floorSnap
  · exact hb.floorPub
  · exact hb.compLe
  · exact hb.flushedFrozen
  · exact hb.frozenLt



theorem basic_rotate {σ σ' : State} (hb : Basic σ) (h : doRotate σ = some σ') : Basic σ' := by
  obtain ⟨g1, g2, g3, rfl⟩ := doRotate_some h
  exact { hb with
    fresh := fun id hid => hb.fresh id (by have : σ.nextId + 1 ≤ id := hid; omega)
    memLt := Nat.lt_succ_self _
    trExcl := fun t ht => absurd ht (by show σ.tr ≠ some t; rw [g1]; simp)
    flushedFrozen := fun h => by cases h
    frozenLt := fun f hf => by
      have := hb.memLt
      have hf' : some σ.mem = some f := hf
      cases hf'
      show σ.mem < σ.nextId
      exact this }


theorem mem_of_lookup {α β : Type} [BEq α] [LawfulBEq α] (a : α) (b : β) :
    ∀ (l : List (α × β)), l.lookup a = some b → (a, b) ∈ l := by
  intro l
  induction l with
  | nil => intro h; cases h
  | cons x xs ih =>
    intro h
    obtain ⟨k, v⟩ := x
    rw [List.lookup_cons] at h
    by_cases hk : (a == k) = true
    · simp only [hk] at h
      have : a = k := eq_of_beq hk
      cases h; subst this; exact List.mem_cons_self
    · have hk' : (a == k) = false := by cases h' : (a == k) <;> simp_all
      simp only [hk'] at h
      exact List.mem_cons_of_mem _ (ih h)

theorem basic_publish {σ σ' : State} (hb : Basic σ) (h : doPublish σ = some σ') : Basic σ' := by
  obtain ⟨g1, rfl⟩ := doPublish_some h
  have hp : privOf σ.tr = [] := by rw [g1]; rfl
  have hbound := hb.bound
  exact { hb with
    bound := fun e he => by
      have := hbound e he
      show e.seq ≤ σ.pub + σ.pending.length + ([] : List Entry).length + (privOf σ.tr).length
      simp only [List.length_nil]; omega
    trExcl := fun t ht => absurd ht (by show σ.tr ≠ some t; rw [g1]; simp)
    pendSeq := fun e he => by cases he
    histPub := fun e he hlt => by
      have := hbound e (List.mem_append_left _ he)
      rw [hp] at this
      have hlt' : σ.pub + σ.pending.length < e.seq := hlt
      simp only [List.length_nil] at this; omega
    privSeq := fun e he => by
      have : e ∈ privOf σ.tr := he
      rw [hp] at this; cases this
    snapsLe := fun p hp' => by
      have := hb.snapsLe p hp'
      show p.2 ≤ σ.pub + σ.pending.length; omega
    floorPub := by
      have := hb.floorPub
      show σ.floor ≤ σ.pub + σ.pending.length; omega }

theorem basic_flushInstall {σ σ' : State} (hb : Basic σ) (h : doFlushInstall σ = some σ') : Basic σ' := by
  obtain ⟨f, g1, g2, rfl⟩ := doFlushInstall_some h
  exact { hb with
    tabSub := fun e he => by
      rcases List.mem_append.1 (show e ∈ σ.tabs ++ getBuf σ f from he) with he | he
      · exact hb.tabSub e he
      · exact Or.inl (hb.bufSub f e he)
    flushedFrozen := fun _ => by show σ.frozen ≠ none; rw [g1]; simp }

theorem basic_flushDrop {σ σ' : State} (hb : Basic σ) (h : doFlushDrop Cfg.real σ = some σ') : Basic σ' := by
  obtain ⟨g1, g2, rfl⟩ := doFlushDrop_some h
  exact { hb with
    trExcl := fun t ht => by
      obtain ⟨a, b, _, d⟩ := hb.trExcl t ht
      exact ⟨a, b, rfl, d⟩
    flushedFrozen := fun h => by cases h
    frozenLt := fun f h => by cases h }

theorem basic_compStart {σ σ' : State} (hb : Basic σ) (h : doCompStart σ = some σ') : Basic σ' := by
  obtain ⟨g1, rfl⟩ := doCompStart_some h
  exact { hb with
    floorSnap := fun p hp => minSeq_le_snap σ p hp
    floorPub := minSeq_le_pub σ
    compLe := fun m hm => by
      have : some (minSeq σ) = some m := hm
      cases this; exact Nat.le_refl _ }

theorem basic_compCommit {σ σ' : State} {nt : List Entry} (hb : Basic σ)
    (h : doCompCommit σ nt = some σ') : Basic σ' := by
  obtain ⟨m, g1, g2, rfl⟩ := doCompCommit_some h
  exact { hb with
    tabSub := fun e he => hb.tabSub e (g2 e he)
    compLe := fun m hm => by cases hm }

theorem basic_snapAcquire {σ σ' : State} (hb : Basic σ) (h : doSnapAcquire σ = some σ') : Basic σ' := by
  have := doSnapAcquire_some h
  subst this
  exact { hb with
    fresh := fun id hid => hb.fresh id (by have : σ.nextId + 1 ≤ id := hid; omega)
    memLt := Nat.lt_succ_of_lt hb.memLt
    snapsLe := fun p hp => by
      rcases List.mem_append.1 (show p ∈ σ.snaps ++ [(Owner.user σ.nextId, σ.pub)] from hp) with hp | hp
      · exact hb.snapsLe p hp
      · simp only [List.mem_singleton] at hp; subst hp; exact Nat.le_refl _
    floorSnap := fun p hp => by
      rcases List.mem_append.1 (show p ∈ σ.snaps ++ [(Owner.user σ.nextId, σ.pub)] from hp) with hp | hp
      · exact hb.floorSnap p hp
      · simp only [List.mem_singleton] at hp; subst hp; exact hb.floorPub }

theorem basic_snapRelease {σ σ' : State} {id : Nat} (hb : Basic σ) (h : doSnapRelease σ id = some σ') :
    Basic σ' := by
  have := doSnapRelease_some h
  subst this
  exact { hb with
    snapsLe := fun p hp => hb.snapsLe p (List.mem_filter.1 hp).1
    floorSnap := fun p hp => hb.floorSnap p (List.mem_filter.1 hp).1 }

theorem basic_rNew {σ σ' : State} (hb : Basic σ) (h : doRNew σ = some σ') : Basic σ' := by
  have := doRNew_some h
  subst this
  exact { hb with }

theorem basic_rSeq {σ σ' : State} {i : Nat} (hb : Basic σ) (h : doRSeq σ i = some σ') : Basic σ' := by
  obtain ⟨r, g1, g2, rfl⟩ := doRSeq_some h
  exact { hb with
    snapsLe := fun p hp => by
      rcases List.mem_append.1 (show p ∈ σ.snaps ++ [(Owner.reader i, σ.pub)] from hp) with hp | hp
      · exact hb.snapsLe p hp
      · simp only [List.mem_singleton] at hp; subst hp; exact Nat.le_refl _
    floorSnap := fun p hp => by
      rcases List.mem_append.1 (show p ∈ σ.snaps ++ [(Owner.reader i, σ.pub)] from hp) with hp | hp
      · exact hb.floorSnap p hp
      · simp only [List.mem_singleton] at hp; subst hp; exact hb.floorPub }

theorem basic_rSeqSnap {σ σ' : State} {i id : Nat} (hb : Basic σ) (h : doRSeqSnap σ i id = some σ') :
    Basic σ' := by
  obtain ⟨r, s, g1, g2, g3, rfl⟩ := doRSeqSnap_some h
  have hm := mem_of_lookup _ _ _ g2
  exact { hb with
    snapsLe := fun p hp => by
      rcases List.mem_append.1 (show p ∈ σ.snaps ++ [(Owner.reader i, s)] from hp) with hp | hp
      · exact hb.snapsLe p hp
      · simp only [List.mem_singleton] at hp; subst hp; exact hb.snapsLe (Owner.user id, s) hm
    floorSnap := fun p hp => by
      rcases List.mem_append.1 (show p ∈ σ.snaps ++ [(Owner.reader i, s)] from hp) with hp | hp
      · exact hb.floorSnap p hp
      · simp only [List.mem_singleton] at hp; subst hp; exact hb.floorSnap (Owner.user id, s) hm }

theorem basic_setReader {σ : State} {i : Nat} {r : Reader} (hb : Basic σ) : Basic (setReader σ i r) :=
  { hb with }

theorem basic_rRelease {σ σ' : State} {i : Nat} (hb : Basic σ) (h : doRRelease σ i = some σ') : Basic σ' := by
  obtain ⟨r, g1, g2, g3, g4, rfl⟩ := doRRelease_some h
  exact { hb with
    snapsLe := fun p hp => hb.snapsLe p (List.mem_filter.1 hp).1
    floorSnap := fun p hp => hb.floorSnap p (List.mem_filter.1 hp).1 }

theorem basic_trOpen {σ σ' : State} (hb : Basic σ) (h : doTrOpen Cfg.real σ = some σ') : Basic σ' := by
  obtain ⟨g1, g2, g3, g4, rfl⟩ := doTrOpen_some h
  have hu : univ σ = σ.hist ++ [] := by simp [univ, g1, privOf]
  have hbound := hb.bound
  have huniq := hb.uniq
  rw [hu] at hbound huniq
  simp only [g1, privOf, List.length_nil] at hbound
  exact { hb with
    uniq := huniq
    bound := hbound
    tabSub := fun e he => by
      rcases hb.tabSub e he with h | h
      · exact Or.inl h
      · rw [g1] at h; cases h
    trExcl := fun t ht => by
      have : some (TrState.mk σ.pub [] false []) = some t := ht
      cases this
      refine ⟨g2, g3, ?_, rfl⟩
      rcases g4 with g4 | g4
      · exact g4
      · cases g4
    privSeq := fun e he => by cases he }

theorem basic_trPut {σ σ' : State} {e : Entry} (hb : Basic σ) (h : doTrPut σ e = some σ') : Basic σ' := by
  obtain ⟨t, g1, g2, g3, rfl⟩ := doTrPut_some h
  obtain ⟨x1, x2, x3, x4⟩ := hb.trExcl t g1
  have hu : univ σ = σ.hist ++ t.priv := by simp [univ, g1, privOf]
  have hbound := hb.bound
  have huniq := hb.uniq
  rw [hu] at hbound huniq
  simp only [g1, privOf, x1, List.length_nil, Nat.add_zero] at hbound
  have hpi : privIn σ.tr = [] := by simp [g1, privIn, g2]
  exact { hb with
    uniq := by
      show Uniq (σ.hist ++ (t.priv ++ [e]))
      rw [← List.append_assoc]
      apply uniq_append huniq
      · intro a ha b hb' _
        simp only [List.mem_singleton] at ha hb'; rw [ha, hb']
      · intro u hu' e' he'
        simp only [List.mem_singleton] at he'; subst he'
        have := hbound u hu'; omega
    bound := by
      intro e' he'
      have he'' : e' ∈ σ.hist ++ (t.priv ++ [e]) := he'
      rw [← List.append_assoc] at he''
      show e'.seq ≤ σ.pub + σ.pending.length + (t.priv ++ [e]).length
      simp only [List.length_append, List.length_singleton, x1, List.length_nil]
      rcases List.mem_append.1 he'' with he'' | he''
      · have := hbound e' he''; omega
      · simp only [List.mem_singleton] at he''; subst he''; omega
    tabSub := fun e' he' => by
      rcases hb.tabSub e' he' with h | h
      · exact Or.inl h
      · rw [hpi] at h; cases h
    trExcl := fun t' ht' => by
      have : some { t with priv := t.priv ++ [e] } = some t' := ht'
      cases this
      exact ⟨x1, x2, x3, x4⟩
    privSeq := fun e' he' => by
      have he'' : e' ∈ t.priv ++ [e] := he'
      rcases List.mem_append.1 he'' with he'' | he''
      · exact hb.privSeq e' (by rw [g1]; exact he'')
      · simp only [List.mem_singleton] at he''; subst he''
        show σ.pub < e'.seq; omega }

theorem basic_trGet {c : UCmp} {σ σ' : State} {k : Bytes} (hb : Basic σ) (h : doTrGet c σ k = some σ') :
    Basic σ' := by
  obtain ⟨t, g1, g2, rfl⟩ := doTrGet_some h
  obtain ⟨x1, x2, x3, x4⟩ := hb.trExcl t g1
  have hu : univ σ = σ.hist ++ t.priv := by simp [univ, g1, privOf]
  have hbound := hb.bound
  have huniq := hb.uniq
  have hps := hb.privSeq
  have hts := hb.tabSub
  rw [hu] at hbound huniq
  simp only [g1, privOf] at hbound hps
  simp only [g1, privIn] at hts
  exact { hb with
    uniq := huniq
    bound := hbound
    tabSub := hts
    trExcl := fun t' ht' => by
      have : some { t with results := t.results ++
        [(k, t.base + t.priv.length,
          view c (t.priv ++ (memBuf σ ++ frozenBuf σ ++ σ.tabs)) k (t.base + t.priv.length))] } = some t' := ht'
      cases this
      exact ⟨x1, x2, x3, x4⟩
    privSeq := hps }

theorem basic_trInstall {σ σ' : State} (hb : Basic σ) (h : doTrInstall σ = some σ') : Basic σ' := by
  obtain ⟨t, g1, g2, rfl⟩ := doTrInstall_some h
  obtain ⟨x1, x2, x3, x4⟩ := hb.trExcl t g1
  have hu : univ σ = σ.hist ++ t.priv := by simp [univ, g1, privOf]
  have hbound := hb.bound
  have huniq := hb.uniq
  have hps := hb.privSeq
  have hts := hb.tabSub
  rw [hu] at hbound huniq
  simp only [g1, privOf] at hbound hps
  simp only [g1, privIn, g2] at hts
  exact { hb with
    uniq := huniq
    bound := hbound
    tabSub := fun e he => by
      rcases List.mem_append.1 (show e ∈ σ.tabs ++ t.priv from he) with he | he
      · rcases hts e he with h | h
        · exact Or.inl h
        · simp at h
      · exact Or.inr he
    trExcl := fun t' ht' => by
      have : some { t with installed := true } = some t' := ht'
      cases this
      exact ⟨x1, x2, x3, x4⟩
    privSeq := hps }

theorem basic_trPublish {σ σ' : State} (hb : Basic σ) (h : doTrPublish σ = some σ') : Basic σ' := by
  obtain ⟨t, g1, g2, rfl⟩ := doTrPublish_some h
  obtain ⟨x1, x2, x3, x4⟩ := hb.trExcl t g1
  have hu : univ σ = σ.hist ++ t.priv := by simp [univ, g1, privOf]
  have hbound := hb.bound
  have huniq := hb.uniq
  have hts := hb.tabSub
  rw [hu] at hbound huniq
  simp only [g1, privOf, x1, List.length_nil, Nat.add_zero] at hbound
  simp only [g1, privIn, g2, if_true] at hts
  exact { hb with
    uniq := by show Uniq ((σ.hist ++ t.priv) ++ []); rw [List.append_nil]; exact huniq
    bound := by
      intro e he
      have he' : e ∈ (σ.hist ++ t.priv) ++ [] := he
      rw [List.append_nil] at he'
      have := hbound e he'
      show e.seq ≤ t.base + t.priv.length + σ.pending.length + ([] : List Entry).length
      omega
    bufSub := fun id e he => List.mem_append_left _ (hb.bufSub id e he)
    tabSub := fun e he => Or.inl (by
      rcases hts e he with h | h
      · exact List.mem_append_left _ h
      · exact List.mem_append_right _ h)
    trExcl := fun t' ht' => by cases ht'
    pendSeq := fun e he => by
      have : e ∈ σ.pending := he
      rw [x1] at this; cases this
    privSeq := fun e he => by cases he
    histPub := fun e he hlt => by
      have := hbound e he
      have hlt' : t.base + t.priv.length < e.seq := hlt
      omega
    snapsLe := fun p hp => by
      have := hb.snapsLe p hp
      show p.2 ≤ t.base + t.priv.length; omega
    floorPub := by
      have := hb.floorPub
      show σ.floor ≤ t.base + t.priv.length; omega }

theorem basic_trDiscard {σ σ' : State} (hb : Basic σ) (h : doTrDiscard Cfg.real σ = some σ') : Basic σ' := by
  obtain ⟨t, g1, g2, rfl⟩ := doTrDiscard_some h
  obtain ⟨x1, x2, x3, x4⟩ := hb.trExcl t g1
  have hu : univ σ = σ.hist ++ t.priv := by simp [univ, g1, privOf]
  have huniq := hb.uniq
  have hts := hb.tabSub
  rw [hu] at huniq
  simp only [g1, privIn, g2] at hts
  have hP : σ.pub ≤ max σ.pub (t.base + t.priv.length) := Nat.le_max_left _ _
  have hhist := hb.hist_le x1
  exact { hb with
    uniq := by
      show Uniq (σ.hist ++ [])
      rw [List.append_nil]
      exact huniq.sub (fun e he => List.mem_append_left _ he)
    bound := by
      intro e he
      have he' : e ∈ σ.hist ++ [] := he
      rw [List.append_nil] at he'
      have := hhist e he'
      show e.seq ≤ max σ.pub (t.base + t.priv.length) + σ.pending.length + ([] : List Entry).length
      omega
    tabSub := fun e he => by
      rcases hts e he with h | h
      · exact Or.inl h
      · simp at h
    trExcl := fun t' ht' => by cases ht'
    pendSeq := fun e he => by
      have : e ∈ σ.pending := he
      rw [x1] at this; cases this
    privSeq := fun e he => by cases he
    histPub := fun e he hlt => by
      have := hhist e he
      have hlt' : max σ.pub (t.base + t.priv.length) < e.seq := hlt
      omega
    snapsLe := fun p hp => by
      have := hb.snapsLe p hp
      show p.2 ≤ max σ.pub (t.base + t.priv.length); omega
    floorPub := by
      have := hb.floorPub
      show σ.floor ≤ max σ.pub (t.base + t.priv.length); omega }

theorem basic_seqSkip {σ σ' : State} {n : Nat} (hb : Basic σ) (h : doSeqSkip σ n = some σ') : Basic σ' := by
  obtain ⟨g1, g2, rfl⟩ := doSeqSkip_some h
  have hbound := hb.bound
  exact { hb with
    bound := fun e he => by
      have := hbound e he
      show e.seq ≤ σ.pub + n + σ.pending.length + (privOf σ.tr).length
      omega
    trExcl := fun t ht => absurd ht (by show σ.tr ≠ some t; rw [g1]; simp)
    pendSeq := fun e he => by
      have : e ∈ σ.pending := he
      rw [g2] at this; cases this
    histPub := fun e he hlt => by
      have hlt' : σ.pub + n < e.seq := hlt
      exact hb.histPub e he (by omega)
    privSeq := fun e he => by
      have : e ∈ privOf σ.tr := he
      rw [g1] at this; cases this
    snapsLe := fun p hp' => by
      have := hb.snapsLe p hp'
      show p.2 ≤ σ.pub + n; omega
    floorPub := by
      have := hb.floorPub
      show σ.floor ≤ σ.pub + n; omega }

/-- I1/I2 are inductive -/
theorem basic_step {c : UCmp} {σ σ' : State} {a : Action} (hb : Basic σ) (h : Step Cfg.real c σ a σ') :
    Basic σ' := by
  obtain ⟨h, _⟩ := h
  cases a with
  | writeInsert es => exact basic_writeInsert hb h
  | publish => exact basic_publish hb h
  | seqSkip n => exact basic_seqSkip hb h
  | rotate => exact basic_rotate hb h
  | flushInstall => exact basic_flushInstall hb h
  | flushDrop => exact basic_flushDrop hb h
  | compStart => exact basic_compStart hb h
  | compCommit nt => exact basic_compCommit hb h
  | snapAcquire => exact basic_snapAcquire hb h
  | snapRelease id => exact basic_snapRelease hb h
  | rNew => exact basic_rNew hb h
  | rSeq i => exact basic_rSeq hb h
  | rSeqSnap i id => exact basic_rSeqSnap hb h
  | rMems i =>
    obtain ⟨r, _, _, _, _, rfl⟩ := doRMems_some h
    exact basic_setReader hb
  | rVer i =>
    obtain ⟨r, _, _, _, _, rfl⟩ := doRVer_some h
    exact basic_setReader hb
  | rLookup i k =>
    obtain ⟨r, s, mf, v, _, _, _, _, rfl⟩ := doRLookup_some h
    exact basic_setReader hb
  | rRelease i => exact basic_rRelease hb h
  | trOpen => exact basic_trOpen hb h
  | trPut e => exact basic_trPut hb h
  | trGet k => exact basic_trGet hb h
  | trInstall => exact basic_trInstall hb h
  | trPublish => exact basic_trPublish hb h
  | trDiscard => exact basic_trDiscard hb h

theorem basic_steps {c : UCmp} {σ σ' : State} (hb : Basic σ) (h : Steps Cfg.real c σ σ') : Basic σ' := by
  induction h with
  | refl => exact hb
  | tail a _ hs ih => exact basic_step ih hs

theorem basic_reachable {c : UCmp} {σ : State} (h : Reachable Cfg.real c σ) : Basic σ :=
  basic_steps basic_init h

end GoLevel.Conc
