import GoLevel.Proofs.SessionRun
/-! A checker for `OpOK` on concrete operation sequences, proved sound (used for the non-vacuity examples of
C07: every hypothesis of the theorems is checked on them). -/
namespace GoLevel.Session
open GoLevel GoLevel.RefLoop

def editOKB (v : Version) (c : UCmp) (r : Edit) (U : List Nat) : Bool :=
  let nv := (v.apply c r).nums
  decide nv.Nodup && decide r.delNums.Nodup && r.delNums.all (fun x => decide (x ∈ v.nums)) &&
  (nv ++ v.nums ++ r.addNums).all (fun f =>
    decide (f ∈ nv) == decide ((f ∈ v.nums ∧ f ∉ r.delNums) ∨ f ∈ r.addNums)) &&
  r.addNums.all (fun f => decide (f ∉ U ∨ f ∈ r.delNums))

theorem editOKB_sound {v : Version} {c : UCmp} {r : Edit} {U : List Nat} (h : editOKB v c r U = true) :
    EditFacts v c r U := by
  simp only [editOKB, Bool.and_eq_true, decide_eq_true_eq, List.all_eq_true, beq_iff_eq] at h
  obtain ⟨⟨⟨⟨h1, h2⟩, h3⟩, h4⟩, h5⟩ := h
  refine ⟨h1, h2, h3, fun f => ?_, h5⟩
  by_cases hf : f ∈ (v.apply c r).nums ++ v.nums ++ r.addNums
  · have := h4 f hf
    by_cases h6 : f ∈ (v.apply c r).nums <;> by_cases h7 : f ∈ v.nums <;> by_cases h8 : f ∈ r.delNums <;>
      by_cases h9 : f ∈ r.addNums <;> simp [h6, h7, h8, h9] at this ⊢
  · simp only [List.mem_append, not_or] at hf
    constructor
    · intro h6; exact absurd h6 hf.1.1
    · rintro (h6 | h6)
      · exact absurd h6.1 hf.1.2
      · exact absurd h6 hf.2

def opOKB (s : Sess) (U : List Nat) : Op → Bool
  | .recover v => decide (s.nt = 1) && !s.manifest && decide v.nums.Nodup && v.nums.all (fun f => decide (f ∉ U))
  | .commit c r => editOKB s.lsm c r U && (s.manifest || r.deleted.isEmpty)
  | .create => s.manifest || s.lsm.nums.isEmpty
  | _ => true

theorem opOKB_sound {s : Sess} {U : List Nat} {o : Op} (h : opOKB s U o = true) : OpOK s U o := by
  cases o with
  | recover v =>
    simp only [opOKB, Bool.and_eq_true, decide_eq_true_eq, List.all_eq_true, Bool.not_eq_true'] at h
    exact ⟨h.1.1.1, h.1.1.2, h.1.2, h.2⟩
  | commit c r =>
    simp only [opOKB, Bool.and_eq_true, Bool.or_eq_true, List.isEmpty_iff] at h
    refine ⟨editOKB_sound h.1, fun hm => ?_⟩
    rcases h.2 with h2 | h2
    · rw [hm] at h2; cases h2
    · exact h2
  | create =>
    simp only [opOKB, Bool.or_eq_true, List.isEmpty_iff] at h
    intro hm
    rcases h with h | h
    · rw [hm] at h; cases h
    · exact h
  | commitFail _ _ => trivial
  | pin => trivial
  | unpin _ _ => trivial
  | close => trivial
  | expire _ => trivial

/-- run a sequence, checking every hypothesis of the theorems on the way -/
def runChecked (y : Sys) (U : List Nat) : List Op → Option (Sys × List Nat)
  | [] => some (y, U)
  | o :: os =>
    if opOKB y.sess U o then
      match y.step o with
      | some (y', rm) => runChecked y' (nextUsed U y.sess o rm) os
      | none => none
    else none

theorem runChecked_reachable {y : Sys} {U : List Nat} (h : Reachable y U) {os : List Op} {y' : Sys} {U' : List Nat}
    (hr : runChecked y U os = some (y', U')) : Reachable y' U' ∧ y.run os = some y' := by
  induction os generalizing y U with
  | nil =>
    simp only [runChecked, Option.some.injEq, Prod.mk.injEq] at hr
    obtain ⟨rfl, rfl⟩ := hr
    exact ⟨h, rfl⟩
  | cons o os ih =>
    simp only [runChecked] at hr
    split at hr
    · rename_i hok
      split at hr
      · rename_i y1 rm e
        obtain ⟨h1, h2⟩ := ih (Reachable.step h (opOKB_sound hok) e) hr
        exact ⟨h1, by simp [Sys.run, e, h2]⟩
      · cases hr
    · cases hr

/-- from `newSession` -/
def checkedFromInit (os : List Op) : Option (Sys × List Nat) :=
  match Sys.init with
  | some y => runChecked y [] os
  | none => none

theorem checkedFromInit_reachable {os : List Op} {y' : Sys} {U' : List Nat}
    (h : checkedFromInit os = some (y', U')) : Reachable y' U' := by
  simp only [checkedFromInit] at h
  split at h
  · rename_i y e
    exact (runChecked_reachable (Reachable.init e) h).1
  · cases h

end GoLevel.Session
