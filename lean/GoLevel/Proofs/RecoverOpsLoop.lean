import GoLevel.Proofs.RecoverOpsJournal
/-!
`Recover` at the level of storage operations, part 6: the journal loop of `recoverJournal`, its tail and the
janitor — every crash image of every prefix offers a second `Recover` an input that is `MidIn` relative to the
first one's (`Atomic`).
-/
namespace GoLevel.Dur
open GoLevel GoLevel.Conc

/-- a `Recover` started on `r` reads what the interrupted one would have read (see `rebuild_mid`) -/
def Atomic (cfg : RCfg) (r0 r : RDisk) : Prop := ∃ P Q R, MidIn (scanIn cfg r0) (scanIn cfg r) P Q R

theorem midIn_of_parts {cfg : RCfg} {r0 r : RDisk} {P Q R : List Grp} {Jcur : Files (LogFile Grp)}
    (hj : r.disk.journals = Jcur)
    (ht : ∀ e, (∃ n, e ∈ slotEnts cfg r n) ↔
      e ∈ (scanIn cfg r0).tables.flatMap (·.2) ∨ e ∈ (P ++ Q).flatMap Grp.ents)
    (hs : Jcur.Pairwise (fun p q => p.1 < q.1))
    (hsplit : (scanIn cfg r0).journals.flatMap (·.2) = P ++ Q ++ R) (hJ : Jcur.flatMap (·.2.all) = Q ++ R) :
    MidIn (scanIn cfg r0) (scanIn cfg r) P Q R := by
  refine ⟨hsplit, fun e => ?_, ?_⟩
  · rw [mem_scan_tables]; exact ht e
  · rw [scan_journals_sorted cfg (by rw [hj]; exact hs), hj]; exact hJ

/-! ## generic facts -/

theorem reach_preserve {I : RDisk → Prop} {ops : List ROp} (hstep : ∀ op ∈ ops, ∀ r, I r → I (r.apply op))
    {r r' : RDisk} (h0 : I r) (h : Reach ops r r') : I r' := by
  induction ops generalizing r with
  | nil => rw [reach_nil h]; exact h0
  | cons o os ih =>
    rcases reach_cons h with rfl | h'
    · exact h0
    · exact ih (fun op hop => hstep op (List.mem_cons_of_mem _ hop)) (hstep o List.mem_cons_self r h0) h'

theorem replayJ_prefix {s : Nat} (A B : List Grp) (h : AscFrom s (A ++ B)) :
    (replayJ s A).1 = A ∧ AscFrom (replayJ s A).2 B := by
  induction A generalizing s with
  | nil => exact ⟨rfl, h⟩
  | cons g A ih =>
    obtain ⟨h1, h2, h3⟩ := h
    obtain ⟨i1, i2⟩ := ih h3
    simp only [replayJ, if_neg (Nat.not_lt.2 h1)]
    exact ⟨by rw [i1], i2⟩

theorem journalRecs_one {d : Disk} {j : Nat} {f : LogFile Grp} (h : lookup d.journals j = some f) :
    journalRecs d [j] = f.all := by
  simp [journalRecs, h]

/-- a manifest operation, `SetMeta`, … : anything that leaves tables and journals alone -/
def ROp.quiet : ROp → Bool
  | .base (.create .manifest _) => true
  | .base (.writeM _ _) => true
  | .base (.sync .manifest _) => true
  | .base (.remove .manifest _) => true
  | .base (.setMeta _) => true
  | .base (.close _ _) => true
  | _ => false

theorem quiet_apply {op : ROp} (h : op.quiet = true) (r : RDisk) :
    (r.apply op).disk.tables = r.disk.tables ∧ (r.apply op).disk.journals = r.disk.journals ∧
    (r.apply op).dmg = r.dmg := by
  cases op with
  | base o =>
    cases o with
    | create k n => cases k <;> simp [ROp.quiet] at h <;> exact ⟨rfl, rfl, rfl⟩
    | writeM n x => exact ⟨rfl, rfl, rfl⟩
    | writeJ n g => simp [ROp.quiet] at h
    | writeT n gs => simp [ROp.quiet] at h
    | sync k n => cases k <;> simp [ROp.quiet] at h <;> exact ⟨rfl, rfl, rfl⟩
    | close k n => exact ⟨rfl, rfl, rfl⟩
    | remove k n => cases k <;> simp [ROp.quiet] at h <;> exact ⟨rfl, rfl, rfl⟩
    | renameT a b => simp [ROp.quiet] at h
    | setMeta n => exact ⟨rfl, rfl, rfl⟩
  | createTemp k => simp [ROp.quiet] at h
  | writeTemp k gs => simp [ROp.quiet] at h
  | syncTemp k => simp [ROp.quiet] at h
  | renameTemp k n => simp [ROp.quiet] at h

theorem JInv.quiet {cfg : RCfg} {r0 r : RDisk} {nf : Nat} {P : List Grp} {Jcur : Files (LogFile Grp)}
    (h : JInv cfg r0 nf P Jcur r) {op : ROp} (hq : op.quiet = true) : JInv cfg r0 nf P Jcur (r.apply op) := by
  obtain ⟨a, b, c⟩ := quiet_apply hq r
  exact h.of_eq a b c

theorem JInv.step_quiet {cfg : RCfg} {r0 r r' : RDisk} {nf : Nat} {P : List Grp} {Jcur : Files (LogFile Grp)}
    (h : JInv cfg r0 nf P Jcur r) {op : ROp} {os : List ROp} (hq : op.quiet = true) (hr : Reach (op :: os) r r') :
    r' = r ∨ ∃ r1, JInv cfg r0 nf P Jcur r1 ∧ Reach os r1 r' := by
  rcases reach_cons hr with rfl | hr
  · exact Or.inl rfl
  · exact Or.inr ⟨_, h.quiet hq, hr⟩

/-- the journal files change, nothing else does -/
theorem JInv.set_journals {cfg : RCfg} {r0 r r' : RDisk} {nf : Nat} {P : List Grp} {Jcur : Files (LogFile Grp)}
    (h : JInv cfg r0 nf P Jcur r) (ht : r'.disk.tables = r.disk.tables) (hd : r'.dmg = r.dmg) :
    JInv cfg r0 nf P r'.disk.journals r' := by
  have hs : ∀ n, slotEnts cfg r' n = slotEnts cfg r n := fun n => slotEnts_eq_of (by rw [ht]) hd
  refine ⟨rfl, by rw [ht]; exact h.tsynced, by rw [ht]; exact h.tbound,
    by rw [hd]; exact h.dbound, fun e => ?_, fun n hn => by rw [hs]; exact h.orig n hn⟩
  rw [← h.tabs e]
  simp only [hs]

/-! ## `flushMemdb`, empty memdb included -/

theorem flushOps_done {cfg : RCfg} {r0 r : RDisk} {P G : List Grp} {Jcur : Files (LogFile Grp)} {t : Nat}
    (h : JInv cfg r0 t P Jcur r) (hr0 : ∀ n ∈ r0.disk.tables.nums, n < t) :
    JInv cfg r0 (nfAfterFlush t G) (P ++ G) Jcur (r.applyAll (flushOps t G)) := by
  unfold flushOps nfAfterFlush
  by_cases hG : G.isEmpty = true
  · have : G = [] := List.isEmpty_iff.1 hG
    subst this
    simpa [applyAll_nil] using h
  · simp only [hG, Bool.false_eq_true, if_false]
    exact h.flush hr0

theorem flushOps_reach {cfg : RCfg} {r0 r r' : RDisk} {P G : List Grp} {Jcur : Files (LogFile Grp)} {t : Nat}
    (h : JInv cfg r0 t P Jcur r) (hr0 : ∀ n ∈ r0.disk.tables.nums, n < t)
    (hdur : ∀ p ∈ Jcur, p.2.unsynced = []) (hr : Reach (flushOps t G) r r') (ch : RCrash) :
    (rcrash ch r').disk.journals = Jcur ∧
    ((∀ e, (∃ n, e ∈ slotEnts cfg (rcrash ch r') n) ↔
        e ∈ (scanIn cfg r0).tables.flatMap (·.2) ∨ e ∈ P.flatMap Grp.ents) ∨
     (∀ e, (∃ n, e ∈ slotEnts cfg (rcrash ch r') n) ↔
        e ∈ (scanIn cfg r0).tables.flatMap (·.2) ∨ e ∈ (P ++ G).flatMap Grp.ents)) := by
  unfold flushOps at hr
  by_cases hG : G.isEmpty = true
  · rw [if_pos hG] at hr
    rw [reach_nil hr]
    exact ⟨(h.crash hdur ch).journals, Or.inl (h.crash hdur ch).tabs⟩
  · rw [if_neg hG] at hr
    exact flush_reach h hr0 hdur hr ch

/-! ## the janitor -/

/-- removing a table from which nothing is read -/
theorem JInv.remove_table {cfg : RCfg} {r0 r : RDisk} {nf : Nat} {P : List Grp} {Jcur : Files (LogFile Grp)}
    (h : JInv cfg r0 nf P Jcur r) {n : Nat} (hn : n ∈ r0.disk.tables.nums) (he : slotEnts cfg r0 n = []) :
    JInv cfg r0 nf P Jcur (r.apply (.base (.remove .table n))) := by
  have hl : ∀ k, lookup (r.apply (.base (.remove .table n))).disk.tables k =
      if k = n then none else lookup r.disk.tables k := by
    intro k
    show lookup (r.disk.tables.erase n) k = _
    rw [lookup_erase]
  have hs : ∀ k, slotEnts cfg (r.apply (.base (.remove .table n))) k = slotEnts cfg r k := by
    intro k
    by_cases hk : k = n
    · subst hk
      rw [h.orig k hn, he]
      simp [slotEnts, hl]
    · exact slotEnts_eq_of (by rw [hl, if_neg hk]) rfl
  refine ⟨h.journals, fun p hp => h.tsynced p (mem_erase.1 hp).1, fun p hp => h.tbound p (mem_erase.1 hp).1,
    h.dbound, fun e => ?_, fun k hk => by rw [hs]; exact h.orig k hk⟩
  rw [← h.tabs e]
  simp only [hs]

theorem janitor_preserve {cfg : RCfg} {r0 : RDisk} {nf : Nat} {P : List Grp} {Jcur : Files (LogFile Grp)} (m : Nat)
    {r r' : RDisk} (h : JInv cfg r0 nf P Jcur r)
    (hr : Reach (janitorOps m r0 (tablePhase cfg r0).2) r r') : JInv cfg r0 nf P Jcur r' := by
  refine reach_preserve (I := JInv cfg r0 nf P Jcur) ?_ h hr
  intro op hop r1 h1
  unfold janitorOps at hop
  rcases List.mem_append.1 hop with hop | hop
  · obtain ⟨t, ht, rfl⟩ := List.mem_map.1 hop
    rw [List.mem_filter] at ht
    have htn : t ∈ r0.disk.tables.nums := by
      have := ht.1; unfold tableNums at this; exact mem_sortNums.1 this
    apply h1.remove_table htn
    -- not recorded, so nothing was read from it
    have hadd := (tablePhase_acc cfg r0).1
    have hnk : ¬ (kept cfg r0 t = true) := by
      intro hk
      have : t ∈ (tablePhase cfg r0).2.added := by rw [hadd, List.mem_filter]; exact ⟨ht.1, hk⟩
      have h2 := ht.2
      simp at h2
      exact h2 this
    unfold kept at hnk
    simpa using hnk
  · obtain ⟨x, _, rfl⟩ := List.mem_map.1 hop
    exact h1.quiet rfl

/-! ## the tail of `recoverJournal` -/

/-- hypotheses about the storage `Recover` started on that the journal phase needs -/
structure JCtx (cfg : RCfg) (r0 : RDisk) : Prop where
  jsorted : r0.disk.journals.Pairwise (fun p q => p.1 < q.1)
  jdur : ∀ p ∈ r0.disk.journals, p.2.unsynced = []
  asc : AscFrom (maxSeqOf ((scanIn cfg r0).tables.flatMap (·.2))) ((scanIn cfg r0).journals.flatMap (·.2))

theorem atomic_of_jinv {cfg : RCfg} {r0 r : RDisk} {nf : Nat} {P Q R : List Grp} {Jcur : Files (LogFile Grp)}
    (h : JInv cfg r0 nf (P ++ Q) Jcur r) (hs : Jcur.Pairwise (fun p q => p.1 < q.1))
    (hdur : ∀ p ∈ Jcur, p.2.unsynced = [])
    (hsplit : (scanIn cfg r0).journals.flatMap (·.2) = P ++ Q ++ R) (hJ : Jcur.flatMap (·.2.all) = Q ++ R)
    (ch : RCrash) : Atomic cfg r0 (rcrash ch r) :=
  ⟨P, Q, R, (h.crash hdur ch).midIn hs hsplit hJ⟩

/-- "Flush the last memdb" … `checkAndCleanFiles`, with the last replayed journal `o` still there -/
theorem tail_reach {cfg : RCfg} {r0 r r' : RDisk} {m seq nf o : Nat} {fo : LogFile Grp} {P mdb : List Grp}
    (h : JInv cfg r0 nf P [(o, fo)] r) (hfo : fo.all = mdb) (hfd : fo.unsynced = []) (hon : o < nf)
    (hr0 : ∀ n ∈ r0.disk.tables.nums, n < nf)
    (hsplit : (scanIn cfg r0).journals.flatMap (·.2) = P ++ mdb)
    (hr : Reach (tailOps m ⟨seq, nf, some o, mdb⟩ ++ janitorOps m r0 (tablePhase cfg r0).2) r r') (ch : RCrash) :
    Atomic cfg r0 (rcrash ch r') := by
  have hs1 : ([(o, fo)] : Files (LogFile Grp)).Pairwise (fun p q => p.1 < q.1) := List.pairwise_singleton _ _
  have hd1 : ∀ p ∈ ([(o, fo)] : Files (LogFile Grp)), p.2.unsynced = [] := by
    intro p hp; rw [List.mem_singleton.1 hp]; exact hfd
  have hJ1 : ([(o, fo)] : Files (LogFile Grp)).flatMap (·.2.all) = mdb ++ [] := by simp [hfo]
  have hsplit0 : (scanIn cfg r0).journals.flatMap (·.2) = P ++ [] ++ (mdb ++ []) := by simp [hsplit]
  have hsplit1 : (scanIn cfg r0).journals.flatMap (·.2) = P ++ mdb ++ [] := by simp [hsplit]
  have hsplit2 : (scanIn cfg r0).journals.flatMap (·.2) = (P ++ mdb) ++ [] ++ [] := by simp [hsplit]
  unfold tailOps at hr
  simp only [Option.toList, List.map_cons, List.map_nil, List.append_assoc] at hr
  rcases reach_append hr with hr | hr
  · -- inside the flush
    obtain ⟨hj, ht | ht⟩ := flushOps_reach h hr0 hd1 hr ch
    · exact ⟨P, [], mdb ++ [], midIn_of_parts hj (by simpa using ht) hs1 hsplit0 (by simpa using hJ1)⟩
    · exact ⟨P, mdb, [], midIn_of_parts hj ht hs1 hsplit1 hJ1⟩
  have hf := flushOps_done (G := mdb) h hr0
  generalize r.applyAll (flushOps nf mdb) = rf at hf hr
  -- `newMem`: the new journal
  have hjn : (rf.apply (.base (.create .journal (nfAfterFlush nf mdb)))).disk.journals =
      [(o, fo), (nfAfterFlush nf mdb, {})] := by
    show rf.disk.journals.set _ _ = _
    rw [hf.journals]
    have : o ≠ nfAfterFlush nf mdb := by unfold nfAfterFlush; split <;> omega
    simp [Files.set, this]
  have hlt : o < nfAfterFlush nf mdb := by unfold nfAfterFlush; split <;> omega
  have hs2 : ([(o, fo), (nfAfterFlush nf mdb, {})] : Files (LogFile Grp)).Pairwise (fun p q => p.1 < q.1) := by
    simp [hlt]
  have hd2 : ∀ p ∈ ([(o, fo), (nfAfterFlush nf mdb, {})] : Files (LogFile Grp)), p.2.unsynced = [] := by
    intro p hp
    simp only [List.mem_cons, List.not_mem_nil, or_false] at hp
    rcases hp with rfl | rfl
    · exact hfd
    · rfl
  have hJ2 : ([(o, fo), (nfAfterFlush nf mdb, {})] : Files (LogFile Grp)).flatMap (·.2.all) = mdb ++ [] := by
    simp [← hfo, LogFile.all]
  have h1 : JInv cfg r0 (nfAfterFlush nf mdb) (P ++ mdb) [(o, fo), (nfAfterFlush nf mdb, {})]
      (rf.apply (.base (.create .journal (nfAfterFlush nf mdb)))) := by
    have := hf.set_journals (r' := rf.apply (.base (.create .journal (nfAfterFlush nf mdb)))) rfl rfl
    rw [hjn] at this; exact this
  simp only [List.cons_append, List.nil_append] at hr
  rcases reach_cons hr with rfl | hr
  · exact atomic_of_jinv hf hs1 hd1 hsplit1 hJ1 ch
  generalize rf.apply (.base (.create .journal (nfAfterFlush nf mdb))) = r1 at h1 hr
  rcases h1.step_quiet rfl hr with rfl | ⟨r2, h2, hr⟩
  · exact atomic_of_jinv h1 hs2 hd2 hsplit1 hJ2 ch
  rcases h2.step_quiet rfl hr with rfl | ⟨r3, h3, hr⟩
  · exact atomic_of_jinv h2 hs2 hd2 hsplit1 hJ2 ch
  -- the last replayed journal goes
  have hj4 : (r3.apply (.base (.remove .journal o))).disk.journals = [(nfAfterFlush nf mdb, {})] := by
    show r3.disk.journals.erase o = _
    rw [h3.journals]
    have : nfAfterFlush nf mdb ≠ o := Nat.ne_of_gt hlt
    simp [Files.erase, this]
  have h4 : JInv cfg r0 (nfAfterFlush nf mdb) ((P ++ mdb) ++ []) [(nfAfterFlush nf mdb, {})]
      (r3.apply (.base (.remove .journal o))) := by
    have := h3.set_journals (r' := r3.apply (.base (.remove .journal o))) rfl rfl
    rw [hj4] at this
    simpa using this
  have hs3 : ([(nfAfterFlush nf mdb, {})] : Files (LogFile Grp)).Pairwise (fun p q => p.1 < q.1) :=
    List.pairwise_singleton _ _
  have hd3 : ∀ p ∈ ([(nfAfterFlush nf mdb, {})] : Files (LogFile Grp)), p.2.unsynced = [] := by
    intro p hp; rw [List.mem_singleton.1 hp]
  have hJ3 : ([(nfAfterFlush nf mdb, {})] : Files (LogFile Grp)).flatMap (·.2.all) = [] ++ [] := by
    simp [LogFile.all]
  rcases reach_cons hr with rfl | hr
  · exact atomic_of_jinv h3 hs2 hd2 hsplit1 hJ2 ch
  · exact atomic_of_jinv (janitor_preserve m h4 hr) hs3 hd3 hsplit2 hJ3 ch

/-- the same when there was no journal at all -/
theorem tail_reach_none {cfg : RCfg} {r0 r r' : RDisk} {m seq nf : Nat}
    (h : JInv cfg r0 nf [] [] r) (hsplit : (scanIn cfg r0).journals.flatMap (·.2) = [])
    (hr : Reach (tailOps m ⟨seq, nf, none, []⟩ ++ janitorOps m r0 (tablePhase cfg r0).2) r r') (ch : RCrash) :
    Atomic cfg r0 (rcrash ch r') := by
  have hsplit0 : (scanIn cfg r0).journals.flatMap (·.2) = ([] : List Grp) ++ [] ++ [] := by simp [hsplit]
  have hs0 : ([] : Files (LogFile Grp)).Pairwise (fun p q => p.1 < q.1) := List.Pairwise.nil
  have hd0 : ∀ p ∈ ([] : Files (LogFile Grp)), p.2.unsynced = [] := fun p hp => by cases hp
  have h' : JInv cfg r0 nf ([] ++ []) [] r := by simpa using h
  unfold tailOps at hr
  simp only [flushOps, nfAfterFlush, flushAdded, List.isEmpty_nil, if_true, Option.toList, List.map_nil,
    List.nil_append, List.append_nil, List.cons_append] at hr
  rcases reach_cons hr with rfl | hr
  · exact atomic_of_jinv h' hs0 hd0 hsplit0 rfl ch
  have hjn : (r.apply (.base (.create .journal nf))).disk.journals = [(nf, {})] := by
    show r.disk.journals.set _ _ = _
    rw [h.journals]; rfl
  have h1 : JInv cfg r0 nf ([] ++ []) [(nf, {})] (r.apply (.base (.create .journal nf))) := by
    have := h'.set_journals (r' := r.apply (.base (.create .journal nf))) rfl rfl
    rw [hjn] at this; exact this
  have hs1 : ([(nf, {})] : Files (LogFile Grp)).Pairwise (fun p q => p.1 < q.1) := List.pairwise_singleton _ _
  have hd1 : ∀ p ∈ ([(nf, {})] : Files (LogFile Grp)), p.2.unsynced = [] := by
    intro p hp; rw [List.mem_singleton.1 hp]
  have hJ1 : ([(nf, {})] : Files (LogFile Grp)).flatMap (·.2.all) = [] ++ [] := by simp [LogFile.all]
  generalize r.apply (.base (.create .journal nf)) = r1 at h1 hr
  rcases h1.step_quiet rfl hr with rfl | ⟨r2, h2, hr⟩
  · exact atomic_of_jinv h1 hs1 hd1 hsplit0 hJ1 ch
  rcases h2.step_quiet rfl hr with rfl | ⟨r3, h3, hr⟩
  · exact atomic_of_jinv h2 hs1 hd1 hsplit0 hJ1 ch
  exact atomic_of_jinv (janitor_preserve m h3 hr) hs1 hd1 hsplit0 hJ1 ch

end GoLevel.Dur
