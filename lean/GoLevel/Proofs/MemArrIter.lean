import GoLevel.Proofs.MemArrDelete
/-! `dbIter` over the arrays (`fill`, `First/Last/Seek/Next/Prev`) yields the same key/value pairs as the iterator of
the ideal skip list; operation sequences on the arrays answer like the ideal table (C14). -/
set_option linter.unusedSectionVars false
set_option linter.unusedSimpArgs false
set_option linter.unusedVariables false
namespace GoLevel.MemArr
open GoLevel.Gen (nKV nKey nVal nHeight nNext tMaxHeight)
open GoLevel.MemDB (Node LawfulCmp Sorted pred below ins Op Ans)

variable {cmp : Cmp} {a : DB} {d : MemDB.DB} {ix : Bytes → Nat}

/-- the array iterator `ai` is the ideal iterator `it`: same bounds and direction, the node index is the index of the
ideal node, and a valid iterator holds the key and value of its node -/
structure IterRep (a : DB) (d : MemDB.DB) (ix : Bytes → Nat) (ai : Iter) (it : MemDB.Iter) : Prop where
  start : ai.start = it.start
  limit : ai.limit = it.limit
  forward : ai.forward = it.forward
  node : ai.node = nix ix it.node
  mem : ∀ k, it.node = some k → k ∈ d.level0 ∧ ai.key = some k ∧ ai.value = some (d.value k)
  gen : ai.node ≠ 0 → ai.gen = a.gen

theorem IterRep.out {ai : Iter} {it : MemDB.Iter} (r : Rep cmp a d ix) (h : IterRep a d ix ai it) :
    ai.out = it.out d := by
  unfold Iter.out MemDB.Iter.out
  cases hn : it.node with
  | none => simp [h.node, hn]
  | some k =>
    obtain ⟨hk, h1, h2⟩ := h.mem k hn
    have hne : ix k ≠ 0 := by
      have := (r.node k hk).lo; have := nNext_eq; omega
    simp [h.node, hn, hne, h1, h2]

theorem IterRep.node_zero {ai : Iter} {it : MemDB.Iter} (r : Rep cmp a d ix) (h : IterRep a d ix ai it) :
    ai.node = 0 ↔ it.node = none := by
  rw [h.node]
  cases hn : it.node with
  | none => simp
  | some k =>
    have := (r.node k (h.mem k hn).1).lo; have := nNext_eq
    simp; omega

/-- the range test of `fill` -/
def outOf (cmp : Cmp) (start limit : Option Bytes) (k : Bytes) (cs cl : Bool) : Bool :=
  (match limit with
    | some l => cl && cmp k l != .lt
    | none => false) ||
  (match start with
    | some s => cs && cmp k s == .lt
    | none => false)

theorem ideal_fill_none {it : MemDB.Iter} (h : it.node = none) (cs cl : Bool) : it.fill cmp cs cl = it := by
  unfold MemDB.Iter.fill; rw [h]

theorem ideal_fill_some {it : MemDB.Iter} {k : Bytes} (h : it.node = some k) (cs cl : Bool) :
    it.fill cmp cs cl = if outOf cmp it.start it.limit k cs cl then { it with node := none } else it := by
  unfold MemDB.Iter.fill outOf; rw [h]; rfl

theorem arr_fill_zero {ai : Iter} (h : ai.node = 0) (cs cl : Bool) :
    Iter.fill cmp a ai cs cl = some ({ ai with key := none, value := none, gen := a.gen }, false) := by
  unfold Iter.fill; simp [h]

theorem arr_fill_node {ai : Iter} {o : Nat} {k v : Bytes} (hne : ai.node ≠ 0)
    (h0 : a.nodeData[ai.node]? = some o) (h1 : a.nodeData[ai.node + nKey]? = some k.length)
    (h2 : slice a.kvData o (o + k.length) = some k) (h3 : a.nodeData[ai.node + nVal]? = some v.length)
    (h4 : slice a.kvData (o + k.length) (o + k.length + v.length) = some v) (cs cl : Bool) :
    Iter.fill cmp a ai cs cl =
      if outOf cmp ai.start ai.limit k cs cl then
        some ({ ai with node := 0, key := none, value := none, gen := a.gen }, false)
      else some ({ ai with key := some k, value := some v, gen := a.gen }, true) := by
  unfold Iter.fill outOf
  have : (ai.node != 0) = true := by simpa using hne
  simp only [this, if_true, h0, h1, h2, h3, h4, Option.bind_some, Option.bind_eq_bind]
  rfl

/-- `fill` -/
theorem fill_sim (r : Rep cmp a d ix) (ai : Iter) (it : MemDB.Iter) (hs : ai.start = it.start)
    (hl : ai.limit = it.limit) (hf : ai.forward = it.forward) (hn : ai.node = nix ix it.node)
    (hm : ∀ k, it.node = some k → k ∈ d.level0) (cs cl : Bool) :
    ∃ ai', Iter.fill cmp a ai cs cl = some (ai', (it.fill cmp cs cl).node.isSome) ∧
      IterRep a d ix ai' (it.fill cmp cs cl) := by
  have e4 := nNext_eq
  cases hnode : it.node with
  | none =>
    have h0 : ai.node = 0 := by rw [hn, hnode]; rfl
    rw [ideal_fill_none hnode, arr_fill_zero h0, hnode]
    refine ⟨_, rfl, ?_⟩
    exact ⟨hs, hl, hf, by show ai.node = _; rw [h0, hnode]; rfl,
      fun k hk => by rw [hnode] at hk; exact absurd hk (by simp), fun _ => rfl⟩
  | some k =>
    have hk := hm k hnode
    have hnk := r.node k hk
    have hix : ai.node = ix k := by rw [hn, hnode]; rfl
    have hne : ai.node ≠ 0 := by rw [hix]; have := hnk.lo; omega
    obtain ⟨o, o1, o2, o3⟩ := hnk.off
    have hoe : outOf cmp ai.start ai.limit k cs cl = outOf cmp it.start it.limit k cs cl := by rw [hs, hl]
    rw [ideal_fill_some hnode,
      arr_fill_node (cmp := cmp) hne (by rw [hix]; exact o1) (by rw [hix]; exact hnk.klen) o2
        (by rw [hix]; exact hnk.vlen) o3, hoe]
    by_cases hout : outOf cmp it.start it.limit k cs cl = true
    · simp only [hout, if_true]
      refine ⟨_, rfl, ?_⟩
      exact ⟨hs, hl, hf, rfl, fun k' hk' => absurd hk' (by simp), fun _ => rfl⟩
    · simp only [hout, Bool.false_eq_true, if_false, hnode, Option.isSome_some]
      refine ⟨_, rfl, ?_⟩
      refine ⟨hs, hl, hf, by show ai.node = _; rw [hix, hnode]; rfl, ?_, fun _ => rfl⟩
      intro k' hk'
      rw [hnode] at hk'
      have := Option.some.inj hk'
      subst this
      exact ⟨hk, rfl, rfl⟩

/-- the key `Seek` searches for: clamped to the start of the range -/
def seekKey (cmp : Cmp) (start : Option Bytes) (key : Bytes) : Bytes :=
  match start with
  | some s => if cmp key s == .lt then s else key
  | none => key

section
variable (hc : LawfulCmp cmp) (r : Rep cmp a d ix)
include hc r

/-- positioning on a node of level 0 (or on none) and filling -/
theorem move_sim {ai : Iter} {it : MemDB.Iter} (hs : ai.start = it.start) (hl : ai.limit = it.limit) (fw : Bool)
    (nd0 : Node)
    (hm : ∀ k, nd0 = some k → k ∈ d.level0) (cs cl : Bool) (arrNode : Option Nat)
    (hnode : arrNode = some (nix ix nd0)) :
    ∃ ai', (arrNode.bind fun node => Iter.fill cmp a { ai with forward := fw, node := node } cs cl) =
        some (ai', (({ it with forward := fw, node := nd0 } : MemDB.Iter).fill cmp cs cl).node.isSome) ∧
      IterRep a d ix ai' (({ it with forward := fw, node := nd0 } : MemDB.Iter).fill cmp cs cl) := by
  rw [hnode, Option.bind_some]
  exact fill_sim r { ai with forward := fw, node := nix ix nd0 } { it with forward := fw, node := nd0 }
    hs hl rfl rfl hm cs cl

theorem level0_head : a.nodeData[nNext]? = some (nix ix d.level0.head?) := by
  have h0 : 0 < d.levels.length := by have := r.mh_pos; rw [r.mh] at this; omega
  have := (r.chain 0 h0).head
  rw [← level0_eq_getElem d h0, nix_head] at this
  simpa using this

theorem next_ptr {k : Bytes} (hk : k ∈ d.level0) :
    a.nodeData[ix k + nNext]? = some (nix ix (MemDB.after d.level0 (some k)).head?) := by
  have h0 : 0 < d.levels.length := by have := r.mh_pos; rw [r.mh] at this; omega
  have hc0 := r.chain 0 h0
  rw [← level0_eq_getElem d h0] at hc0
  have := (hc0.after hk).head
  rw [nix_head] at this
  simpa using this

omit hc r in
theorem arr_first_eq (ai : Iter) : ai.first cmp a =
    (match ai.start with
      | some s => (findGE cmp a s false).map (fun r : Nat × Bool × List Nat => r.1)
      | none => a.nodeData[nNext]?).bind
      fun node => Iter.fill cmp a { ai with forward := true, node := node } false true := by
  unfold Iter.first; cases ai.start <;> rfl

omit hc r in
theorem arr_last_eq (ai : Iter) : ai.last cmp a =
    (match ai.limit with
      | some l => findLT cmp a l
      | none => findLast a).bind
      fun node => Iter.fill cmp a { ai with forward := false, node := node } true false := by
  unfold Iter.last; cases ai.limit <;> rfl

theorem first_sim {ai : Iter} {it : MemDB.Iter} (hs : ai.start = it.start) (hl : ai.limit = it.limit) :
    ∃ ai', ai.first cmp a = some (ai', (it.first cmp d).node.isSome) ∧ IterRep a d ix ai' (it.first cmp d) := by
  rw [arr_first_eq]
  refine move_sim hc r hs hl true
    (match it.start with
      | some s => (MemDB.findGE cmp d s false).node
      | none => (MemDB.after d.level0 none).head?) ?_ false true
    (match ai.start with
      | some s => (findGE cmp a s false).map (fun r : Nat × Bool × List Nat => r.1)
      | none => a.nodeData[nNext]?) ?_
  · intro k hk
    cases hs : it.start with
    | some s => rw [hs] at hk; exact findGE_node_mem hc r s false hk
    | none => rw [hs] at hk; simp only [MemDB.after] at hk; exact List.mem_of_mem_head? hk
  · rw [hs]
    cases it.start with
    | some s =>
      obtain ⟨pn', g1, _⟩ := findGE_sim r s false
      simp only [g1, Option.map_some]
    | none => simp only [MemDB.after]; exact level0_head hc r

theorem last_sim {ai : Iter} {it : MemDB.Iter} (hs : ai.start = it.start) (hl : ai.limit = it.limit) :
    ∃ ai', ai.last cmp a = some (ai', (it.last cmp d).node.isSome) ∧ IterRep a d ix ai' (it.last cmp d) := by
  rw [arr_last_eq]
  refine move_sim hc r hs hl false
    (match it.limit with
      | some l => MemDB.findLT cmp d l
      | none => MemDB.findLast d) ?_ true false
    (match ai.limit with
      | some l => findLT cmp a l
      | none => findLast a) ?_
  · intro k hk
    cases hs : it.limit with
    | some l => rw [hs] at hk; simp only [MemDB.findLT_eq hc r.inv] at hk; exact (MemDB.pred_mem hk).1
    | none => rw [hs] at hk; simp only [MemDB.findLast_eq hc r.inv] at hk; exact List.mem_of_getLast? hk
  · rw [hl]
    cases it.limit with
    | some l => exact findLT_sim r l
    | none => exact findLast_sim r

omit hc r in
theorem arr_seek_eq (ai : Iter) (key : Bytes) : ai.seek cmp a key =
    (findGE cmp a (seekKey cmp ai.start key) false).bind fun r =>
      Iter.fill cmp a { ai with forward := true, node := r.1 } false true := by
  unfold Iter.seek seekKey; cases ai.start <;> rfl

omit hc r in
theorem ideal_seek_eq (it : MemDB.Iter) (key : Bytes) : it.seek cmp d key =
    ({ it with forward := true, node := (MemDB.findGE cmp d (seekKey cmp it.start key) false).node } :
      MemDB.Iter).fill cmp false true := by
  unfold MemDB.Iter.seek seekKey; cases it.start <;> rfl

theorem seek_sim {ai : Iter} {it : MemDB.Iter} (hs : ai.start = it.start) (hl : ai.limit = it.limit)
    (key : Bytes) :
    ∃ ai', ai.seek cmp a key = some (ai', (it.seek cmp d key).node.isSome) ∧
      IterRep a d ix ai' (it.seek cmp d key) := by
  obtain ⟨pn', g1, _⟩ := findGE_sim r (seekKey cmp it.start key) false
  obtain ⟨ai', e, h'⟩ := move_sim hc r hs hl true (MemDB.findGE cmp d (seekKey cmp it.start key) false).node
    (fun k hk => findGE_node_mem hc r _ false hk) false true _ rfl
  rw [Option.bind_some] at e
  have hsk : seekKey cmp ai.start key = seekKey cmp it.start key := by rw [hs]
  rw [arr_seek_eq, ideal_seek_eq, hsk, g1, Option.bind_some]
  exact ⟨ai', e, h'⟩

theorem next_sim {ai : Iter} {it : MemDB.Iter} (h : IterRep a d ix ai it) :
    ∃ ai', ai.next cmp a = some (ai', (it.next cmp d).node.isSome) ∧ IterRep a d ix ai' (it.next cmp d) := by
  unfold Iter.next MemDB.Iter.next
  cases hn : it.node with
  | none =>
    have h0 : ai.node = 0 := (h.node_zero r).2 hn
    simp only [h0, if_true, h.forward]
    by_cases hf : it.forward = true
    · simp only [hf, Bool.not_true, Bool.false_eq_true, if_false]
      exact ⟨ai, by simp [hn], h⟩
    · have hf' : it.forward = false := by simpa using hf
      simp only [hf', Bool.not_false, if_true]
      exact first_sim hc r h.start h.limit
  | some k =>
    have hk := (h.mem k hn).1
    have hix : ai.node = ix k := by rw [h.node, hn]; rfl
    have hne : ¬ ix k = 0 := by
      rw [← hix]; intro e; rw [(h.node_zero r).1 e] at hn; exact absurd hn (by simp)
    obtain ⟨ai', e, h'⟩ := move_sim hc r h.start h.limit true (MemDB.after d.level0 (some k)).head?
      (fun k' hk' => after_subset _ _ _ (List.mem_of_mem_head? hk')) false true _ rfl
    refine ⟨ai', ?_, h'⟩
    rw [Option.bind_some] at e
    have hg : (ai.gen != a.gen) = false := by
      have := h.gen (by rw [hix]; exact hne)
      simp [this]
    simp only [hix, hne, if_false, hg, Bool.false_eq_true, next_ptr hc r hk, Option.bind_some, Option.bind_eq_bind]
    exact e

theorem prev_sim {ai : Iter} {it : MemDB.Iter} (h : IterRep a d ix ai it) :
    ∃ ai', ai.prev cmp a = some (ai', (it.prev cmp d).node.isSome) ∧ IterRep a d ix ai' (it.prev cmp d) := by
  unfold Iter.prev MemDB.Iter.prev
  cases hn : it.node with
  | none =>
    have h0 : ai.node = 0 := (h.node_zero r).2 hn
    simp only [h0, if_true, h.forward]
    by_cases hf : it.forward = true
    · simp only [hf, if_true]
      exact last_sim hc r h.start h.limit
    · have hf' : it.forward = false := by simpa using hf
      simp only [hf', Bool.false_eq_true, if_false]
      exact ⟨ai, by simp [hn], h⟩
  | some k =>
    obtain ⟨hk, hkey, _⟩ := h.mem k hn
    have hix : ai.node = ix k := by rw [h.node, hn]; rfl
    have hne : ¬ ix k = 0 := by
      rw [← hix]; intro e; rw [(h.node_zero r).1 e] at hn; exact absurd hn (by simp)
    obtain ⟨ai', e, h'⟩ := move_sim hc r h.start h.limit false (MemDB.findLT cmp d k)
      (fun k' hk' => by rw [MemDB.findLT_eq hc r.inv] at hk'; exact (MemDB.pred_mem hk').1) true false _ rfl
    refine ⟨ai', ?_, h'⟩
    rw [Option.bind_some] at e
    have hg : (ai.gen != a.gen) = false := by
      have := h.gen (by rw [hix]; exact hne)
      simp [this]
    simp only [hix, hne, if_false, hg, Bool.false_eq_true, hkey, Option.getD_some, findLT_sim r k, Option.bind_some,
      Option.bind_eq_bind]
    exact e

/-- every move of the array iterator is the move of the ideal iterator; the Boolean returned is its validity -/
theorem iter_step_sim {ai : Iter} {it : MemDB.Iter} (h : IterRep a d ix ai it) (c : Call Bytes) :
    ∃ ai', Iter.step cmp a c ai = some (ai', (MemDB.Iter.step cmp d c it).node.isSome) ∧
      IterRep a d ix ai' (MemDB.Iter.step cmp d c it) := by
  cases c with
  | first => exact first_sim hc r h.start h.limit
  | last => exact last_sim hc r h.start h.limit
  | seek k => exact seek_sim hc r h.start h.limit k
  | next => exact next_sim hc r h
  | prev => exact prev_sim hc r h

/-- a sequence of moves yields the same pairs -/
theorem iter_run_sim : ∀ (calls : List (Call Bytes)) {ai : Iter} {it : MemDB.Iter}, IterRep a d ix ai it →
    Iter.run cmp a ai calls = some (MemDB.Iter.run cmp d it calls) := by
  intro calls
  induction calls with
  | nil => intro ai it _; rfl
  | cons c cs ih =>
    intro ai it h
    obtain ⟨ai', e, h'⟩ := iter_step_sim hc r h c
    simp only [Iter.run, e, Option.bind_some, Option.bind_eq_bind, ih h', MemDB.Iter.run, h'.out r]

end

/-- a fresh iterator -/
theorem iterRep_fresh (a : DB) (d : MemDB.DB) (ix : Bytes → Nat) (start limit : Option Bytes) :
    IterRep a d ix { start := start, limit := limit } { start := start, limit := limit } :=
  ⟨rfl, rfl, rfl, rfl, fun k hk => absurd hk (by simp), fun h => absurd rfl h⟩

/-! ## operation sequences -/

/-- every operation on a represented table: no panic, the ideal answer, and a representation of the ideal result -/
theorem step_sim (hc : LawfulCmp cmp) (r : Rep cmp a d ix) (op : Op) (hv : op.valid) :
    ∃ a' ix', step cmp a op = some (a', (MemDB.step cmp d op).2) ∧ Rep cmp a' (MemDB.step cmp d op).1 ix' := by
  cases op with
  | put k v h =>
    obtain ⟨h1, h2⟩ := hv
    by_cases hk : k ∈ d.level0
    · obtain ⟨a', e, r', _⟩ := put_old_sim hc r hk v h
      exact ⟨a', ix, by simp [step, e, MemDB.step], r'⟩
    · obtain ⟨a', e, r', _⟩ := put_new_sim hc r hk v h1 h2
      exact ⟨a', _, by simp [step, e, MemDB.step], r'⟩
  | delete k =>
    obtain ⟨a', e, r'⟩ := delete_sim hc r k
    exact ⟨a', ix, by simp [step, e, MemDB.step], r'⟩
  | reset =>
    obtain ⟨a', e, r', _⟩ := reset_sim r
    exact ⟨a', ix, by simp [step, e, MemDB.step], r'⟩
  | get k =>
    refine ⟨a, ix, ?_, r⟩
    simp only [step, get_sim hc r k, MemDB.step, Option.map_some]
    cases MemDB.get cmp d k with
    | none => rfl
    | some p => rfl
  | find k =>
    refine ⟨a, ix, ?_, r⟩
    simp only [step, find_sim hc r k, MemDB.step, Option.map_some]
    cases MemDB.find cmp d k with
    | none => rfl
    | some p => rfl
  | contains k => exact ⟨a, ix, by simp [step, contains_sim r k, MemDB.step], r⟩
  | len => exact ⟨a, ix, by simp [step, MemDB.step, r.n], r⟩
  | size => exact ⟨a, ix, by simp [step, MemDB.step, r.kvSize], r⟩

theorem run_sim (hc : LawfulCmp cmp) : ∀ (ops : List Op) {a : DB} {d : MemDB.DB} {ix : Bytes → Nat},
    Rep cmp a d ix → (∀ op ∈ ops, op.valid) → run cmp a ops = some (MemDB.run cmp d ops) := by
  intro ops
  induction ops with
  | nil => intro a d ix _ _; rfl
  | cons o os ih =>
    intro a d ix r hv
    obtain ⟨a', ix', e, r'⟩ := step_sim hc r o (hv o (by simp))
    simp only [run, e, Option.bind_some, Option.bind_eq_bind, MemDB.run,
      ih r' (fun op hop => hv op (by simp [hop]))]

theorem exec_sim (hc : LawfulCmp cmp) : ∀ (ops : List Op) {a : DB} {d : MemDB.DB} {ix : Bytes → Nat},
    Rep cmp a d ix → (∀ op ∈ ops, op.valid) →
    ∃ a' ix', exec cmp a ops = some a' ∧ Rep cmp a' (MemDB.exec cmp d ops) ix' := by
  intro ops
  induction ops with
  | nil => intro a d ix r _; exact ⟨a, ix, rfl, r⟩
  | cons o os ih =>
    intro a d ix r hv
    obtain ⟨a', ix', e, r'⟩ := step_sim hc r o (hv o (by simp))
    obtain ⟨a'', ix'', e', r''⟩ := ih r' (fun op hop => hv op (by simp [hop]))
    exact ⟨a'', ix'', by simp only [exec, e, Option.bind_some, Option.bind_eq_bind, e'], r''⟩

end GoLevel.MemArr
