import GoLevel.Model.Block
import GoLevel.Proofs.TableAux
/-! Block writer / reader lemmas for C13: the bytes a `blockWriter` produces, and what `blockIter` reads back. -/
namespace GoLevel.C13
open GoLevel GoLevel.TableAux BlockWriter

/-- a comparer that is a strict total order identifying only equal strings (`comparer.Comparer` contract) -/
structure LawfulCmp (cmp : Bytes → Bytes → Ordering) : Prop where
  refl   : ∀ a, cmp a a = .eq
  eq_of  : ∀ a b, cmp a b = .eq → a = b
  gt_iff : ∀ a b, cmp a b = .gt ↔ cmp b a = .lt
  trans  : ∀ a b d, cmp a b = .lt → cmp b d = .lt → cmp a d = .lt

/-- keys strictly increasing -/
def StrictSorted (cmp : Bytes → Bytes → Ordering) (kvs : List KV) : Prop :=
  kvs.Pairwise fun a b => cmp a.1 b.1 = .lt

/-- the sizes that `binary.Uvarint` can carry -/
def SmallKV (kvs : List KV) : Prop := ∀ kv ∈ kvs, kv.1.length < 2 ^ 64 ∧ kv.2.length < 2 ^ 64

/-! ## sharedPrefixLen -/

theorem spl_le_left (a b : Bytes) : sharedPrefixLen a b ≤ a.length := by
  induction a generalizing b with
  | nil => simp [sharedPrefixLen]
  | cons x xs ih =>
    cases b with
    | nil => simp [sharedPrefixLen]
    | cons y ys =>
      simp only [sharedPrefixLen]
      split
      · have := ih ys; simp; omega
      · simp

theorem spl_le_right (a b : Bytes) : sharedPrefixLen a b ≤ b.length := by
  induction a generalizing b with
  | nil => simp [sharedPrefixLen]
  | cons x xs ih =>
    cases b with
    | nil => simp [sharedPrefixLen]
    | cons y ys =>
      simp only [sharedPrefixLen]
      split
      · have := ih ys; simp; omega
      · simp

theorem spl_take (a b : Bytes) : a.take (sharedPrefixLen a b) = b.take (sharedPrefixLen a b) := by
  induction a generalizing b with
  | nil => simp [sharedPrefixLen]
  | cons x xs ih =>
    cases b with
    | nil => simp [sharedPrefixLen]
    | cons y ys =>
      simp only [sharedPrefixLen]
      split
      · rename_i h; subst h; simp [ih ys]
      · simp

theorem spl_rebuild (prev k : Bytes) :
    prev.take (sharedPrefixLen prev k) ++ k.drop (sharedPrefixLen prev k) = k := by
  rw [spl_take, List.take_append_drop]

/-! ## the bytes of a run of entries -/

/-- shared-prefix length the writer uses for the entry number `n` -/
def nSharedAt (ri n : Nat) (prev k : Bytes) : Nat := if n % ri = 0 then 0 else sharedPrefixLen prev k

/-- what `append`ing `kvs` adds to `buf`, starting with `nEntries = n`, `prevKey = prev` -/
def encFrom (ri : Nat) : Nat → Bytes → List KV → Bytes
  | _, _, [] => []
  | n, prev, (k, v) :: t => encEntry (nSharedAt ri n prev k) k v ++ encFrom ri (n + 1) k t

def lastKeyD (prev : Bytes) (l : List KV) : Bytes := (l.getLast?.map (·.1)).getD prev

theorem lastKeyD_cons (prev : Bytes) (k v) (t : List KV) : lastKeyD prev ((k, v) :: t) = lastKeyD k t := by
  cases t with
  | nil => simp [lastKeyD]
  | cons a t =>
    simp only [lastKeyD, List.getLast?_cons_cons]
    rcases h : (a :: t).getLast? with _ | x
    · simp at h
    · simp

theorem encFrom_append (ri : Nat) (A B : List KV) : ∀ n prev,
    encFrom ri n prev (A ++ B) = encFrom ri n prev A ++ encFrom ri (n + A.length) (lastKeyD prev A) B := by
  induction A with
  | nil => intro n prev; simp [encFrom, lastKeyD]
  | cons a A ih =>
    intro n prev
    obtain ⟨k, v⟩ := a
    simp only [List.cons_append, encFrom, ih, lastKeyD_cons, List.length_cons, List.append_assoc]
    congr 3
    omega

theorem encEntry_length_pos (sh : Nat) (k v : Bytes) : 0 < (encEntry sh k v).length := by
  have := uvarint_length_pos sh
  simp [encEntry]; omega

theorem encFrom_length_ge (ri : Nat) (kvs : List KV) : ∀ n prev, kvs.length ≤ (encFrom ri n prev kvs).length := by
  induction kvs with
  | nil => intro n prev; simp
  | cons a t ih =>
    intro n prev
    obtain ⟨k, v⟩ := a
    have h1 := encEntry_length_pos (nSharedAt ri n prev k) k v
    have h2 := ih (n + 1) k
    simp only [encFrom, List.length_append, List.length_cons]
    omega

/-! ## reading one entry back -/

theorem entry_encEntry (sh : Nat) (k v rest : Bytes) (lim : Nat)
    (hsh : sh ≤ k.length) (hk : k.length < 2 ^ 64) (hv : v.length < 2 ^ 64)
    (hlim : (encEntry sh k v).length ≤ lim) :
    Block.entry (encEntry sh k v ++ rest) lim = some (sh, k.drop sh, v, (encEntry sh k v).length) := by
  have h0 : sh < 2 ^ 64 := by omega
  have h1 : k.length - sh < 2 ^ 64 := by omega
  have hkd : (k.drop sh).length = k.length - sh := by simp
  unfold Block.entry
  simp only [encEntry, List.append_assoc] at *
  simp only [readUvarint_uvarint _ h0, readUvarint_uvarint _ h1, readUvarint_uvarint _ hv,
    List.drop_length_add_append, List.drop_left, Nat.add_assoc]
  simp only [List.length_append, hkd] at hlim
  have : ¬ ((uvarint sh).length + ((uvarint (k.length - sh)).length + ((uvarint v.length).length + (k.length - sh + v.length))) > lim) := by
    omega
  simp only [this, if_false]
  rw [List.take_left' hkd, List.drop_left' hkd, List.take_left' rfl]
  simp only [List.length_append, hkd]

theorem nSharedAt_le (ri n : Nat) (prev k : Bytes) : nSharedAt ri n prev k ≤ k.length := by
  unfold nSharedAt; split
  · omega
  · exact spl_le_right _ _

/-- one `Next` over writer output: yields the next pair exactly, whatever the key buffer held at a restart point -/
theorem step_encFrom (ri n : Nat) (prev prev' k v : Bytes) (t : List KV) (tail : Bytes)
    (hk : k.length < 2 ^ 64) (hv : v.length < 2 ^ 64) (hp : n % ri ≠ 0 → prev' = prev) :
    Block.step (encFrom ri n prev ((k, v) :: t) ++ tail) (encFrom ri n prev ((k, v) :: t)).length prev'
      = some (some ⟨k, v, encFrom ri (n + 1) k t ++ tail, (encFrom ri (n + 1) k t).length⟩) := by
  have hpos := encEntry_length_pos (nSharedAt ri n prev k) k v
  unfold Block.step
  simp only [encFrom, List.length_append, List.append_assoc]
  have h0 : ¬ ((encEntry (nSharedAt ri n prev k) k v).length + (encFrom ri (n + 1) k t).length = 0) := by omega
  simp only [h0, if_false]
  rw [entry_encEntry _ k v _ _ (nSharedAt_le ri n prev k) hk hv (by omega)]
  simp only
  have hsh : ¬ (nSharedAt ri n prev k > prev'.length) := by
    unfold nSharedAt; split
    · omega
    · rename_i h; rw [hp h]; have := spl_le_left prev k; omega
  simp only [hsh, if_false, List.drop_left]
  have hkey : prev'.take (nSharedAt ri n prev k) ++ k.drop (nSharedAt ri n prev k) = k := by
    unfold nSharedAt; split
    · simp
    · rename_i h; rw [hp h]; exact spl_rebuild prev k
  rw [hkey]
  congr 3
  omega

theorem SmallKV.tail {a : KV} {t : List KV} (h : SmallKV (a :: t)) : SmallKV t :=
  fun kv hm => h kv (List.mem_cons_of_mem _ hm)

/-- `for it.Next()` over writer output collects exactly the pairs -/
theorem scan_encFrom (ri : Nat) (kvs : List KV) : ∀ (fuel n : Nat) (prev prev' tail : Bytes),
    SmallKV kvs → kvs.length < fuel → (n % ri ≠ 0 → prev' = prev) →
    Block.scan fuel (encFrom ri n prev kvs ++ tail) (encFrom ri n prev kvs).length prev' = some kvs := by
  induction kvs with
  | nil =>
    intro fuel n prev prev' tail _ hf _
    cases fuel with
    | zero => simp at hf
    | succ f => simp [Block.scan, Block.step, encFrom]
  | cons a t ih =>
    intro fuel n prev prev' tail hs hf hp
    obtain ⟨k, v⟩ := a
    cases fuel with
    | zero => simp at hf
    | succ f =>
      have hkv := hs (k, v) (List.mem_cons_self ..)
      rw [Block.scan, step_encFrom ri n prev prev' k v t tail hkv.1 hkv.2 hp]
      simp only
      rw [ih f (n + 1) k k tail hs.tail (by simp at hf; omega) (fun _ => rfl)]

/-- the cursor on the first pair of `B` when `kvs = A ++ B` was written (position just after that pair) -/
def cursorAt (ri : Nat) (nA : Nat) (B : List KV) (tail : Bytes) : Option Cursor :=
  match B with
  | [] => none
  | (k, v) :: t => some ⟨k, v, encFrom ri (nA + 1) k t ++ tail, (encFrom ri (nA + 1) k t).length⟩

/-- the `Seek` scan over writer output stops at the first pair whose key is not below the target -/
theorem scanSeek_encFrom (cmp : Bytes → Bytes → Ordering) (key : Bytes) (ri : Nat) (kvs : List KV) :
    ∀ (fuel n : Nat) (prev prev' tail : Bytes),
    SmallKV kvs → kvs.length < fuel → (n % ri ≠ 0 → prev' = prev) →
    Block.scanSeek cmp key fuel (encFrom ri n prev kvs ++ tail) (encFrom ri n prev kvs).length prev'
      = some (cursorAt ri (n + (kvs.takeWhile fun e => cmp e.1 key == .lt).length)
                (kvs.dropWhile fun e => cmp e.1 key == .lt) tail) := by
  induction kvs with
  | nil =>
    intro fuel n prev prev' tail _ hf _
    cases fuel with
    | zero => simp at hf
    | succ f => simp [Block.scanSeek, Block.step, encFrom, cursorAt]
  | cons a t ih =>
    intro fuel n prev prev' tail hs hf hp
    obtain ⟨k, v⟩ := a
    cases fuel with
    | zero => simp at hf
    | succ f =>
      have hkv := hs (k, v) (List.mem_cons_self ..)
      rw [Block.scanSeek, step_encFrom ri n prev prev' k v t tail hkv.1 hkv.2 hp]
      simp only
      by_cases hc : cmp k key = .lt
      · have htw : (((k, v) :: t).takeWhile fun e => cmp e.1 key == .lt).length
            = (t.takeWhile fun e => cmp e.1 key == .lt).length + 1 := by simp [hc]
        have hdw : (((k, v) :: t).dropWhile fun e => cmp e.1 key == .lt)
            = (t.dropWhile fun e => cmp e.1 key == .lt) := by simp [hc]
        rw [htw, hdw, if_neg (by simp [hc]), ih f (n + 1) k k tail hs.tail (by simp at hf; omega) (fun _ => rfl)]
        congr 2
        omega
      · have htw : (((k, v) :: t).takeWhile fun e => cmp e.1 key == .lt) = [] := by simp [hc]
        have hdw : (((k, v) :: t).dropWhile fun e => cmp e.1 key == .lt) = (k, v) :: t := by
          simp [hc]
        rw [htw, hdw, if_pos (by simpa using hc)]
        simp [cursorAt]

/-! ## the writer state -/

/-- the prefixes of `done ++ todo` (extending `done`) in front of which the writer places a restart point -/
def restartPrefixes (ri : Nat) : List KV → List KV → List (List KV)
  | _, [] => []
  | done, kv :: t => (if done.length % ri = 0 then [done] else []) ++ restartPrefixes ri (done ++ [kv]) t

theorem restartPrefixes_snoc (ri : Nat) (todo : List KV) (kv : KV) : ∀ done,
    restartPrefixes ri done (todo ++ [kv]) =
      restartPrefixes ri done todo ++ (if (done ++ todo).length % ri = 0 then [done ++ todo] else []) := by
  induction todo with
  | nil => intro done; simp [restartPrefixes]
  | cons a t ih =>
    intro done
    simp [restartPrefixes, ih]

theorem restartPrefixes_spec (ri : Nat) (todo : List KV) : ∀ done A, A ∈ restartPrefixes ri done todo →
    ∃ B, B ≠ [] ∧ A ++ B = done ++ todo ∧ A.length % ri = 0 := by
  induction todo with
  | nil => intro done A h; simp [restartPrefixes] at h
  | cons a t ih =>
    intro done A h
    simp only [restartPrefixes, List.mem_append] at h
    rcases h with h | h
    · split at h
      · rename_i hm
        simp at h; subst h
        exact ⟨a :: t, by simp, rfl, hm⟩
      · simp at h
    · obtain ⟨B, hB, he, hm⟩ := ih _ A h
      exact ⟨B, hB, by simpa using he, hm⟩

abbrev enc (ri : Nat) (l : List KV) : Bytes := encFrom ri 0 [] l

/-- the state of a `blockWriter` that has been handed `done` since its last reset -/
structure WState (ri : Nat) (w : BlockWriter) (done : List KV) : Prop where
  ri_eq : w.restartInterval = ri
  buf : w.buf = enc ri done
  n : w.nEntries = done.length
  prev : done ≠ [] → w.prevKey = lastKeyD [] done
  restarts : w.restarts = (restartPrefixes ri [] done).map fun A => (enc ri A).length

theorem WState.fresh (ri : Nat) (p : Bytes) : WState ri { restartInterval := ri, prevKey := p } [] :=
  ⟨rfl, rfl, rfl, by simp, rfl⟩

theorem lastKeyD_snoc (prev : Bytes) (l : List KV) (k v : Bytes) : lastKeyD prev (l ++ [(k, v)]) = k := by
  simp [lastKeyD]

theorem WState.append {ri : Nat} {w : BlockWriter} {done : List KV} (h : WState ri w done) (k v : Bytes) :
    WState ri (w.append k v) (done ++ [(k, v)]) := by
  have hsh : nSharedAt ri w.nEntries w.prevKey k = nSharedAt ri done.length (lastKeyD [] done) k := by
    rw [h.n]
    unfold nSharedAt
    split
    · rfl
    · rename_i hm
      have : done ≠ [] := by
        intro he; subst he; simp at hm
      rw [h.prev this]
  have hbuf : (w.append k v).buf = w.buf ++ encEntry (nSharedAt ri w.nEntries w.prevKey k) k v := by
    unfold BlockWriter.append nSharedAt
    rw [h.ri_eq]
    split <;> simp [*]
  have henc : enc ri (done ++ [(k, v)]) = enc ri done ++ encEntry (nSharedAt ri done.length (lastKeyD [] done) k) k v := by
    simp [enc, encFrom_append, encFrom]
  refine ⟨?_, ?_, ?_, ?_, ?_⟩
  · unfold BlockWriter.append; split <;> exact h.ri_eq
  · rw [hbuf, henc, hsh, h.buf]
  · unfold BlockWriter.append; split <;> simp [h.n]
  · intro _
    rw [lastKeyD_snoc]
    unfold BlockWriter.append; split <;> rfl
  · rw [restartPrefixes_snoc]
    simp only [List.nil_append, List.map_append]
    unfold BlockWriter.append
    rw [h.ri_eq, h.n]
    split
    · simp [h.restarts, h.buf]
    · simp [h.restarts]

theorem WState.appendAll {ri : Nat} (todo : List KV) : ∀ {w : BlockWriter} {done : List KV},
    WState ri w done → WState ri (w.appendAll todo) (done ++ todo) := by
  induction todo with
  | nil => intro w done h; simpa [BlockWriter.appendAll] using h
  | cons a t ih =>
    intro w done h
    have := ih (h.append a.1 a.2)
    simpa [BlockWriter.appendAll] using this

theorem flatMap_le32_length (l : List Nat) : (l.flatMap le32).length = 4 * l.length := by
  induction l with
  | nil => simp
  | cons a t ih => simp [List.flatMap_cons, ih, le32, leN_length]; omega

/-- `Reader.readBlock` on entries ‖ restart array ‖ count -/
theorem read_layout (E : Bytes) (rs : List Nat) (hrs : rs.length < 2 ^ 32) :
    Block.read (E ++ (rs ++ [rs.length]).flatMap le32) =
      some ⟨E ++ (rs ++ [rs.length]).flatMap le32, rs.length, E.length⟩ := by
  have hl : (E ++ (rs ++ [rs.length]).flatMap le32).length = E.length + 4 * (rs.length + 1) := by
    rw [List.length_append, flatMap_le32_length, List.length_append]; rfl
  unfold Block.read
  rw [hl]
  have h4 : ¬ (E.length + 4 * (rs.length + 1) < 4) := by omega
  simp only [h4, if_false]
  have hd : (E ++ (rs ++ [rs.length]).flatMap le32).drop (E.length + 4 * (rs.length + 1) - 4) = le32 rs.length ++ [] := by
    rw [List.flatMap_append, ← List.append_assoc]
    simp only [List.flatMap_cons, List.flatMap_nil]
    rw [List.drop_left']
    rw [List.length_append, flatMap_le32_length]; omega
  rw [hd, rd32_le32 _ hrs]
  have : ¬ ((rs.length + 1) * 4 > E.length + 4 * (rs.length + 1)) := by omega
  simp only [this, if_false]
  congr 2
  omega

/-- the restart array a finished writer emits -/
def restartsOf (ri : Nat) (kvs : List KV) : List Nat :=
  if kvs = [] then [0] else (restartPrefixes ri [] kvs).map fun A => (enc ri A).length

theorem build_eq (ri : Nat) (kvs : List KV) :
    Block.build ri kvs = enc ri kvs ++ (restartsOf ri kvs ++ [(restartsOf ri kvs).length]).flatMap le32 := by
  have h := (WState.fresh ri []).appendAll kvs
  simp only [List.nil_append] at h
  unfold Block.build BlockWriter.finish BlockWriter.finishRestarts restartsOf
  rw [h.buf, h.n, h.restarts]
  by_cases hk : kvs = []
  · subst hk; simp [restartPrefixes]
  · have : kvs.length ≠ 0 := by simpa using hk
    simp [hk, this]

theorem build_length (ri : Nat) (kvs : List KV) :
    (Block.build ri kvs).length = (enc ri kvs).length + 4 * ((restartsOf ri kvs).length + 1) := by
  rw [build_eq, List.length_append, flatMap_le32_length, List.length_append]; rfl

theorem read_build (ri : Nat) (kvs : List KV) (hsz : (Block.build ri kvs).length < 2 ^ 32) :
    Block.read (Block.build ri kvs) = some ⟨Block.build ri kvs, (restartsOf ri kvs).length, (enc ri kvs).length⟩ := by
  have hl := build_length ri kvs
  rw [build_eq] at *
  exact read_layout _ _ (by omega)

/-- C13(a): a full forward pass over a block reads back exactly what was appended -/
theorem decode_build (ri : Nat) (kvs : List KV) (hs : SmallKV kvs) (hsz : (Block.build ri kvs).length < 2 ^ 32) :
    Block.decode (Block.build ri kvs) = some kvs := by
  unfold Block.decode
  rw [read_build ri kvs hsz]
  simp only [BlockR.entries]
  rw [build_eq]
  exact scan_encFrom ri kvs _ 0 [] [] _ hs (by have := encFrom_length_ge ri kvs 0 []; simp [enc]; omega)
    (by simp)

/-! ## `sort.Search` -/

theorem searchLoop_spec (f : Nat → Option Bool) (p : Nat → Bool) : ∀ fuel i j, j - i ≤ fuel → i ≤ j →
    (∀ h, i ≤ h → h < j → f h = some (p h)) →
    ∃ r, searchLoop f fuel i j = some r ∧ i ≤ r ∧ r ≤ j ∧ (i < r → p (r - 1) = false) ∧ (r < j → p r = true) := by
  intro fuel
  induction fuel with
  | zero =>
    intro i j hf hij _
    have : ¬ (i < j) := by omega
    exact ⟨i, by simp [searchLoop, this], by omega, by omega, by omega, by omega⟩
  | succ fuel ih =>
    intro i j hf hij hp
    by_cases hlt : i < j
    · have hh1 : i ≤ (i + j) / 2 := by omega
      have hh2 : (i + j) / 2 < j := by omega
      have hfh := hp _ hh1 hh2
      simp only [searchLoop, hlt, if_true, hfh]
      cases hph : p ((i + j) / 2) with
      | false =>
        obtain ⟨r, hr, h1, h2, h3, h4⟩ := ih ((i + j) / 2 + 1) j (by omega) (by omega)
          (fun h a b => hp h (by omega) b)
        refine ⟨r, hr, by omega, h2, ?_, h4⟩
        intro _
        by_cases he : r = (i + j) / 2 + 1
        · subst he; simpa using hph
        · exact h3 (by omega)
      | true =>
        obtain ⟨r, hr, h1, h2, h3, h4⟩ := ih i ((i + j) / 2) (by omega) (by omega)
          (fun h a b => hp h a (by omega))
        refine ⟨r, hr, h1, by omega, h3, ?_⟩
        intro _
        by_cases he : r = (i + j) / 2
        · subst he; exact hph
        · exact h4 (by omega)
    · exact ⟨i, by simp [searchLoop, hlt], by omega, by omega, by omega, by omega⟩

/-! ## restart points of a written block -/

theorem flatMap_le32_drop (l : List Nat) : ∀ j, (l.flatMap le32).drop (4 * j) = (l.drop j).flatMap le32 := by
  induction l with
  | nil => intro j; simp
  | cons a t ih =>
    intro j
    cases j with
    | zero => simp
    | succ j =>
      have h4 : (le32 a).length = 4 := leN_length 4 a
      rw [List.flatMap_cons, show 4 * (j + 1) = (le32 a).length + 4 * j by omega, List.drop_length_add_append, ih]
      simp

/-- the block value for entries `E` and restart array `rs` -/
def layoutR (E : Bytes) (rs : List Nat) : BlockR :=
  ⟨E ++ (rs ++ [rs.length]).flatMap le32, rs.length, E.length⟩

theorem restartOffset_layout (E : Bytes) (rs : List Nat) (j : Nat) (hj : j < rs.length) (hsm : rs[j] < 2 ^ 32) :
    (layoutR E rs).restartOffset j = rs[j] := by
  unfold BlockR.restartOffset layoutR
  simp only
  rw [show E.length + 4 * j = E.length + 4 * j from rfl, List.drop_length_add_append, flatMap_le32_drop]
  have : (rs ++ [rs.length]).drop j = rs[j] :: (rs ++ [rs.length]).drop (j + 1) := by
    rw [List.drop_eq_getElem_cons (by simp; omega)]
    simp [List.getElem_append_left hj]
  rw [this, List.flatMap_cons, rd32_le32 _ hsm]

theorem uvarint_zero : uvarint 0 = [0] := by simp [uvarint]

/-- the closure of `block.seek` reads the full key stored at a restart point -/
theorem restartKey_at (b : BlockR) (j : Nat) (P Q k v : Bytes)
    (hd : b.data = P ++ (encEntry 0 k v ++ Q)) (ho : b.restartOffset j = P.length)
    (hk : k.length < 2 ^ 64) (hv : v.length < 2 ^ 64) : b.restartKey j = some k := by
  unfold BlockR.restartKey
  simp only [ho, hd, encEntry, uvarint_zero, List.append_assoc, Nat.sub_zero, List.drop_zero,
    List.cons_append, List.nil_append]
  have e1 : ∀ X : Bytes, (P ++ 0 :: X).drop (P.length + 1) = X := by
    intro X
    rw [List.drop_length_add_append]; rfl
  rw [e1, readUvarint_uvarint _ hk]
  simp only
  have e2 : ∀ (n : Nat) (X : Bytes), (P ++ 0 :: X).drop (P.length + 1 + n) = X.drop n := by
    intro n X
    rw [Nat.add_assoc, List.drop_length_add_append, Nat.add_comm 1 n]; rfl
  rw [e2, List.drop_left, readUvarint_uvarint _ hv]
  simp only
  rw [Nat.add_assoc (P.length + 1), e2, List.drop_length_add_append, List.drop_left, List.take_left' rfl]
  rw [if_neg]
  simp; omega

theorem restart_split (ri : Nat) (kvs A : List KV) (hA : A ∈ restartPrefixes ri [] kvs) :
    ∃ k v t, kvs = A ++ (k, v) :: t ∧ A.length % ri = 0 ∧
      encFrom ri A.length (lastKeyD [] A) ((k, v) :: t) = encEntry 0 k v ++ encFrom ri (A.length + 1) k t ∧
      enc ri kvs = enc ri A ++ (encEntry 0 k v ++ encFrom ri (A.length + 1) k t) := by
  obtain ⟨B, hB, he, hm⟩ := restartPrefixes_spec ri kvs [] A hA
  cases B with
  | nil => exact absurd rfl hB
  | cons b t =>
    obtain ⟨k, v⟩ := b
    have e1 : encFrom ri A.length (lastKeyD [] A) ((k, v) :: t) = encEntry 0 k v ++ encFrom ri (A.length + 1) k t := by
      simp [encFrom, nSharedAt, hm]
    refine ⟨k, v, t, by simpa using he.symm, hm, e1, ?_⟩
    have : kvs = A ++ (k, v) :: t := by simpa using he.symm
    rw [this, enc, encFrom_append, Nat.zero_add, e1]

theorem prefix_below {cmp : Bytes → Bytes → Ordering} (hc : LawfulCmp cmp) {A : List KV} {k v : Bytes}
    {t : List KV} (hsorted : StrictSorted cmp (A ++ (k, v) :: t)) (key : Bytes) (hle : cmp k key ≠ .gt) :
    ∀ a ∈ A, (cmp a.1 key == .lt) = true := by
  intro a ha
  have h1 : cmp a.1 k = .lt := (List.pairwise_append.mp hsorted).2.2 a ha (k, v) (List.mem_cons_self ..)
  cases h : cmp k key with
  | lt => simp [hc.trans _ _ _ h1 h]
  | eq => have := hc.eq_of _ _ h; subst this; simp [h1]
  | gt => exact absurd h hle

theorem restartPrefixes_head (ri : Nat) (kv : KV) (t : List KV) :
    ∃ rest, restartPrefixes ri [] (kv :: t) = [] :: rest := by
  simp [restartPrefixes]

/-- C13(b), with the iterator position: `blockIter.Seek` on a written block lands on the first pair whose key is
not below the target -/
theorem seekCursor_build {cmp : Bytes → Bytes → Ordering} (hc : LawfulCmp cmp) (ri : Nat) (kvs : List KV)
    (hs : SmallKV kvs) (hsorted : StrictSorted cmp kvs) (hsz : (Block.build ri kvs).length < 2 ^ 32) (key : Bytes) :
    (layoutR (enc ri kvs) (restartsOf ri kvs)).seekCursor cmp key =
      some (cursorAt ri (kvs.takeWhile fun e => cmp e.1 key == .lt).length
        (kvs.dropWhile fun e => cmp e.1 key == .lt)
        ((restartsOf ri kvs ++ [(restartsOf ri kvs).length]).flatMap le32)) := by
  by_cases hk : kvs = []
  · subst hk
    have e0 : layoutR (enc ri []) (restartsOf ri []) = layoutR [] [0] := by simp [enc, encFrom, restartsOf]
    have hf : ∀ h, 0 ≤ h → h < 1 →
        ((layoutR (enc ri []) (restartsOf ri [])).restartKey h).map (fun k => cmp k key == .gt)
          = some ((fun _ => cmp [] key == .gt) h) := by
      intro h _ h1
      have : h = 0 := by omega
      subst this
      have : (layoutR (enc ri []) (restartsOf ri [])).restartKey 0 = some [] := by rw [e0]; decide
      rw [this]; rfl
    obtain ⟨r, hr, _, hr1, _, _⟩ := searchLoop_spec _ _ 1 0 1 (by omega) (by omega) hf
    have hr0 : r - 1 = 0 := by omega
    have ho : (layoutR (enc ri []) (restartsOf ri [])).restartOffset 0 = 0 := by rw [e0]; decide
    unfold BlockR.seekCursor BlockR.seekRestart sortSearch
    have hlen : (layoutR (enc ri []) (restartsOf ri [])).restartsLen = 1 := rfl
    rw [hlen, hr]
    simp only [hr0, ho]
    simp [layoutR, enc, encFrom, Block.scanSeek, Block.step, cursorAt]
  · obtain ⟨kv0, t0, hkv⟩ : ∃ a t, kvs = a :: t := by
      cases kvs with
      | nil => exact absurd rfl hk
      | cons a t => exact ⟨a, t, rfl⟩
    have hrs : restartsOf ri kvs = (restartPrefixes ri [] kvs).map fun A => (enc ri A).length := by
      simp [restartsOf, hk]
    have hRlen : (restartsOf ri kvs).length = (restartPrefixes ri [] kvs).length := by simp [hrs]
    have hl := build_length ri kvs
    -- every restart offset is small and the key there is readable
    have hsmall : ∀ j (hj : j < (restartsOf ri kvs).length), (restartsOf ri kvs)[j] < 2 ^ 32 ∧
        ∃ A k v t, (restartPrefixes ri [] kvs)[j]? = some A ∧ (restartsOf ri kvs)[j] = (enc ri A).length ∧
          kvs = A ++ (k, v) :: t ∧ A.length % ri = 0 ∧
          encFrom ri A.length (lastKeyD [] A) ((k, v) :: t) = encEntry 0 k v ++ encFrom ri (A.length + 1) k t ∧
          enc ri kvs = enc ri A ++ (encEntry 0 k v ++ encFrom ri (A.length + 1) k t) := by
      intro j hj
      have hj' : j < (restartPrefixes ri [] kvs).length := by omega
      obtain ⟨k, v, t, h1, h2, h3, h4⟩ := restart_split ri kvs _ (List.getElem_mem hj')
      have hv : (restartsOf ri kvs)[j] = (enc ri (restartPrefixes ri [] kvs)[j]).length := by
        simp [hrs]
      refine ⟨?_, _, k, v, t, by simp [hj'], hv, h1, h2, h3, h4⟩
      rw [hv]
      have : (enc ri kvs).length = (enc ri (restartPrefixes ri [] kvs)[j]).length +
          (encEntry 0 k v ++ encFrom ri ((restartPrefixes ri [] kvs)[j].length + 1) k t).length := by
        rw [h4, List.length_append]
      omega
    let keyOf : Nat → Bytes := fun j =>
      match kvs.drop (((restartPrefixes ri [] kvs)[j]?).getD []).length with
      | (k, _) :: _ => k
      | [] => []
    have hf : ∀ h, 0 ≤ h → h < (restartsOf ri kvs).length →
        ((layoutR (enc ri kvs) (restartsOf ri kvs)).restartKey h).map (fun k => cmp k key == .gt)
          = some ((fun j => cmp (keyOf j) key == .gt) h) := by
      intro h _ hh
      obtain ⟨hsm, A, k, v, t, hA, hv, h1, h2, h3, h4⟩ := hsmall h hh
      have hkv' := hs (k, v) (by rw [h1]; simp)
      have hro := restartOffset_layout (enc ri kvs) (restartsOf ri kvs) h hh hsm
      have hrk := restartKey_at (layoutR (enc ri kvs) (restartsOf ri kvs)) h (enc ri A)
        (encFrom ri (A.length + 1) k t ++ (restartsOf ri kvs ++ [(restartsOf ri kvs).length]).flatMap le32) k v
        (by simp [layoutR, h4]) (by rw [hro, hv]) hkv'.1 hkv'.2
      rw [hrk]
      have : keyOf h = k := by
        simp only [keyOf, hA, Option.getD_some]
        rw [h1, List.drop_left]
      simp [this]
    obtain ⟨r, hr, _, hrR, hfalse, _⟩ := searchLoop_spec _ _ (restartsOf ri kvs).length 0 (restartsOf ri kvs).length
      (by omega) (by omega) hf
    have hRpos : 0 < (restartsOf ri kvs).length := by
      obtain ⟨rest, hrest⟩ := restartPrefixes_head ri kv0 t0
      rw [hRlen, hkv, hrest]; simp
    have hidx : r - 1 < (restartsOf ri kvs).length := by omega
    obtain ⟨hsm, A, k, v, t, hA, hv, h1, h2, h3, h4⟩ := hsmall (r - 1) hidx
    have hbelow : ∀ a ∈ A, (cmp a.1 key == .lt) = true := by
      by_cases hr0 : r = 0
      · subst hr0
        obtain ⟨rest, hrest⟩ := restartPrefixes_head ri kv0 t0
        rw [hkv, hrest] at hA
        simp at hA
        subst hA
        simp
      · have hp := hfalse (by omega)
        have hko : keyOf (r - 1) = k := by
          simp only [keyOf, hA, Option.getD_some]
          rw [h1, List.drop_left]
        simp only [hko] at hp
        have hle : cmp k key ≠ .gt := by
          intro hgt; simp [hgt] at hp
        exact prefix_below hc (by rw [← h1]; exact hsorted) key hle
    have hro := restartOffset_layout (enc ri kvs) (restartsOf ri kvs) (r - 1) hidx hsm
    unfold BlockR.seekCursor BlockR.seekRestart sortSearch
    have hlen : (layoutR (enc ri kvs) (restartsOf ri kvs)).restartsLen = (restartsOf ri kvs).length := rfl
    rw [hlen, hr]
    simp only [hro, hv]
    have hro2 : (layoutR (enc ri kvs) (restartsOf ri kvs)).restartsOffset = (enc ri kvs).length := rfl
    have hElen : (enc ri kvs).length = (enc ri A).length + (encFrom ri A.length (lastKeyD [] A) ((k, v) :: t)).length := by
      rw [h3, h4, List.length_append]
    rw [hro2, if_neg (by omega)]
    have hdata : (layoutR (enc ri kvs) (restartsOf ri kvs)).data.drop (enc ri A).length =
        encFrom ri A.length (lastKeyD [] A) ((k, v) :: t) ++
          (restartsOf ri kvs ++ [(restartsOf ri kvs).length]).flatMap le32 := by
      simp only [layoutR, h4, h3, List.append_assoc, List.drop_left]
    rw [hdata, show (enc ri kvs).length - (enc ri A).length =
      (encFrom ri A.length (lastKeyD [] A) ((k, v) :: t)).length by omega]
    have hsB : SmallKV ((k, v) :: t) := fun x hx => hs x (by rw [h1]; exact List.mem_append_right _ hx)
    rw [scanSeek_encFrom cmp key ri ((k, v) :: t) _ A.length (lastKeyD [] A) [] _ hsB
      (by have := encFrom_length_ge ri ((k, v) :: t) A.length (lastKeyD [] A); omega)
      (fun h => absurd h2 h)]
    have e1 : (kvs.takeWhile fun e => cmp e.1 key == .lt) = A ++ (((k, v) :: t).takeWhile fun e => cmp e.1 key == .lt) := by
      rw [h1]; exact List.takeWhile_append_of_pos hbelow
    have e2 : (kvs.dropWhile fun e => cmp e.1 key == .lt) = (((k, v) :: t).dropWhile fun e => cmp e.1 key == .lt) := by
      rw [h1]; exact List.dropWhile_append_of_pos hbelow
    rw [e1, e2, List.length_append]

theorem head?_dropWhile_eq_find? {α : Type} (p : α → Bool) (l : List α) :
    (l.dropWhile p).head? = l.find? (fun a => !p a) := by
  induction l with
  | nil => rfl
  | cons a t ih =>
    cases h : p a <;> simp [h, ih]

theorem cursorAt_kv (ri nA : Nat) (B : List KV) (tail : Bytes) :
    (cursorAt ri nA B tail).map (fun c => (c.key, c.value)) = B.head? := by
  cases B with
  | nil => rfl
  | cons a t => obtain ⟨k, v⟩ := a; rfl

/-- C13(b): `Block.seek` finds the first pair whose key is not below the target -/
theorem seek_build {cmp : Bytes → Bytes → Ordering} (hc : LawfulCmp cmp) (ri : Nat) (kvs : List KV)
    (hs : SmallKV kvs) (hsorted : StrictSorted cmp kvs) (hsz : (Block.build ri kvs).length < 2 ^ 32) (key : Bytes) :
    Block.seek cmp (Block.build ri kvs) key = some (kvs.find? fun e => cmp e.1 key != .lt) := by
  unfold Block.seek
  rw [read_build ri kvs hsz]
  have e : (⟨Block.build ri kvs, (restartsOf ri kvs).length, (enc ri kvs).length⟩ : BlockR)
      = layoutR (enc ri kvs) (restartsOf ri kvs) := by rw [build_eq]; rfl
  simp only [e, seekCursor_build hc ri kvs hs hsorted hsz key, Option.map_some, cursorAt_kv,
    head?_dropWhile_eq_find?]
  congr 2

end GoLevel.C13
