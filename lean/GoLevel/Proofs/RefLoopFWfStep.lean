import GoLevel.Proofs.RefLoopFWf
/-! The full environment keeps its well-formedness (C07). -/
namespace GoLevel.RefLoop

theorem EnvF.WF.dn_lt {G : EnvF} (h : G.WF) (hN : 0 < G.N) : G.dn < G.N := by
  rcases h.dn with h1 | h1
  · omega
  · exact EnvF.inst_lt h1

/-- below `dn` the first installed id above is still below `N` -/
theorem EnvF.WF.up_le_dn {G : EnvF} (h : G.WF) {b : Nat} (hb : b < G.dn) : G.up (b + 1) ≤ G.dn := by
  rcases h.dn with h1 | h1
  · omega
  · exact EnvF.up_le_of_inst (by omega) h1

theorem wf_push_inst {G : EnvF} (h : G.WF) {fs L : List Nat} {din : Delta} (hc : G.closing = false)
    (hnd : fs.Nodup) (hnl : L.Nodup) (hsub : ∀ f ∈ L, f ∈ fs) (hfirst : G.N = 0 → fs = []) :
    (G.push (.inst fs L din)).WF := by
  refine ⟨?_, ?_, ?_, ?_, ?_, ?_, ?_, ?_, ?_⟩
  · intro k
    by_cases hk : k < G.N
    · rw [EnvF.push_T_lt hk]; exact h.nodupT k
    · by_cases hk2 : k = G.N
      · subst hk2; rw [EnvF.push_T_eq]; exact hnd
      · rw [EnvF.T_not_inst]; exact List.nodup_nil
        intro hi; have := EnvF.inst_lt hi; simp at this; omega
  · intro k
    by_cases hk : k < G.N
    · rw [EnvF.push_L_lt hk]; exact h.nodupL k
    · by_cases hk2 : k = G.N
      · subst hk2; rw [EnvF.push_L_eq]; exact hnl
      · rw [EnvF.L_not_inst]; exact List.nodup_nil
        intro hi; have := EnvF.inst_lt hi; simp at this; omega
  · intro k f hf
    by_cases hk : k < G.N
    · rw [EnvF.push_L_lt hk] at hf; rw [EnvF.push_T_lt hk]; exact h.sub k f hf
    · by_cases hk2 : k = G.N
      · subst hk2; rw [EnvF.push_L_eq] at hf; rw [EnvF.push_T_eq]; exact hsub f hf
      · rw [EnvF.L_not_inst] at hf; cases hf
        intro hi; have := EnvF.inst_lt hi; simp at this; omega
  · intro _
    by_cases h0 : 0 < G.N
    · rw [EnvF.push_inst_lt h0, EnvF.push_T_lt h0]; exact h.first h0
    · have h0' : G.N = 0 := by omega
      have h1 := @EnvF.push_inst_eq G (.inst fs L din)
      have h2 := @EnvF.push_T_eq G (.inst fs L din)
      rw [h0'] at h1 h2
      exact ⟨h1.mpr rfl, by rw [h2]; exact hfirst h0'⟩
  · right
    rcases h.dn with ⟨h1, h2⟩ | h1
    · show (G.push _).inst G.dn
      rw [h2]
      have := @EnvF.push_inst_eq G (.inst fs L din)
      rw [h1] at this; exact this.mpr rfl
    · exact (EnvF.push_inst_lt (EnvF.inst_lt h1)).mpr h1
  · intro b hb hib
    have hb' : b < G.dn := hb
    have hN : 0 < G.N := by rcases h.dn with h1 | h1; omega; have := EnvF.inst_lt h1; omega
    have hdn := h.dn_lt hN
    have hbN : b < G.N := by omega
    have hup := h.up_le_dn hb'
    have hupN : G.up (b + 1) < G.N := by omega
    have e1 : (G.push (.inst fs L din)).up (b + 1) = G.up (b + 1) := by
      rw [EnvF.push_up (by omega)]; simp [hupN]
    rw [e1, EnvF.push_L_lt hbN, EnvF.push_L_lt hupN, EnvF.push_din_lt hupN]
    exact h.chain b hb' ((EnvF.push_inst_lt hbN).mp hib)
  · intro k hk
    obtain ⟨h1, h2⟩ := h.rel k hk
    exact ⟨(EnvF.push_inst_lt (EnvF.inst_lt h1)).mpr h1, h2⟩
  · intro b hb hib
    have hb' : b < G.dn := hb
    have hN : 0 < G.N := by rcases h.dn with h1 | h1; omega; have := EnvF.inst_lt h1; omega
    have hdn := h.dn_lt hN
    have hbN : b < G.N := by omega
    have hup := h.up_le_dn hb'
    have hupN : G.up (b + 1) < G.N := by omega
    have e1 : (G.push (.inst fs L din)).up (b + 1) = G.up (b + 1) := by
      rw [EnvF.push_up (by omega)]; simp [hupN]
    rw [e1, EnvF.push_L_lt hbN, EnvF.push_L_lt hupN, EnvF.push_T_lt hbN]
    exact h.keep b hb' ((EnvF.push_inst_lt hbN).mp hib)
  · intro hcl; rw [EnvF.push_closing, hc] at hcl; cases hcl

theorem wf_push_failed {G : EnvF} (h : G.WF) (hc : G.closing = false) (hN : 0 < G.N) : (G.push .failed).WF := by
  have hni : ∀ k, (G.push .failed).inst k → k < G.N ∧ G.inst k := by
    intro k hk
    rcases EnvF.push_inst_cases hk with h1 | ⟨_, h2⟩
    · exact h1
    · cases h2
  have hT : ∀ k, (G.push .failed).T k = G.T k := by
    intro k
    by_cases hk : k < G.N
    · exact EnvF.push_T_lt hk
    · rw [EnvF.T_not_inst (fun hi => hk (hni k hi).1), EnvF.T_not_inst (fun hi => hk (EnvF.inst_lt hi))]
  have hL : ∀ k, (G.push .failed).L k = G.L k := by
    intro k
    by_cases hk : k < G.N
    · exact EnvF.push_L_lt hk
    · rw [EnvF.L_not_inst (fun hi => hk (hni k hi).1), EnvF.L_not_inst (fun hi => hk (EnvF.inst_lt hi))]
  have hI : ∀ k, (G.push .failed).inst k ↔ G.inst k := by
    intro k
    constructor
    · exact fun hk => (hni k hk).2
    · exact fun hk => (EnvF.push_inst_lt (EnvF.inst_lt hk)).mpr hk
  refine ⟨?_, ?_, ?_, ?_, ?_, ?_, ?_, ?_, ?_⟩
  · intro k; rw [hT]; exact h.nodupT k
  · intro k; rw [hL]; exact h.nodupL k
  · intro k f; rw [hL, hT]; exact h.sub k f
  · intro _; rw [hI, hT]; exact h.first hN
  · right
    rcases h.dn with h1 | h1
    · omega
    · exact (hI _).mpr h1
  · intro b hb hib
    have hb' : b < G.dn := hb
    have hdn := h.dn_lt hN
    have hup := h.up_le_dn hb'
    have hupN : G.up (b + 1) < G.N := by omega
    have e1 : (G.push .failed).up (b + 1) = G.up (b + 1) := by
      rw [EnvF.push_up (by omega)]; simp [hupN]
    rw [e1, hL, hL, EnvF.push_din_lt hupN]
    exact h.chain b hb' ((hI b).mp hib)
  · intro k hk
    obtain ⟨h1, h2⟩ := h.rel k hk
    exact ⟨(hI k).mpr h1, h2⟩
  · intro b hb hib
    have hb' : b < G.dn := hb
    have hdn := h.dn_lt hN
    have hup := h.up_le_dn hb'
    have hupN : G.up (b + 1) < G.N := by omega
    have e1 : (G.push .failed).up (b + 1) = G.up (b + 1) := by
      rw [EnvF.push_up (by omega)]; simp [hupN]
    rw [e1, hL, hL, hT]
    exact h.keep b hb' ((hI b).mp hib)
  · intro hcl; rw [EnvF.push_closing, hc] at hcl; cases hcl

theorem wf_stepF {nx : Nat} {G G' : EnvF} {m : Msg} (h : G.WF) (hs : EnvStepF nx G m G') : G'.WF := by
  cases hs with
  | ref fs L din hc hnd hnl hsub hfirst _ hmono hleft =>
    exact wf_push_inst h hc hnd hnl hsub hfirst
  | abandon hc hN => exact wf_push_failed h hc hN
  | expire v => exact h
  | delta hc hlt hex hkeep =>
    have hi := G.up_inst_of_lt _ hlt
    refine ⟨h.nodupT, h.nodupL, h.sub, h.first, Or.inr hi, ?_, ?_, ?_, ?_⟩
    · intro b hb hib
      have hb' : b < G.up (G.dn + 1) := hb
      by_cases h1 : b < G.dn
      · exact h.chain b h1 hib
      · by_cases h2 : b = G.dn
        · subst h2; exact hex
        · exact absurd hib (G.not_inst_below_up (G.dn + 1) b (by omega) hb')
    · intro k hk
      obtain ⟨h1, h2⟩ := h.rel k hk
      refine ⟨h1, Or.inl ?_⟩
      have := G.up_ge_self (G.dn + 1)
      rcases h2 with h2 | ⟨h2, _⟩
      · show k < G.up (G.dn + 1); omega
      · rw [hc] at h2; cases h2
    · intro b hb hib
      have hb' : b < G.up (G.dn + 1) := hb
      by_cases h1 : b < G.dn
      · exact h.keep b h1 hib
      · by_cases h2 : b = G.dn
        · subst h2; exact hkeep
        · exact absurd hib (G.not_inst_below_up (G.dn + 1) b (by omega) hb')
    · intro hcl; rw [show G.closing = false from hc] at hcl; cases hcl
  | rel k hik hk hnot =>
    refine ⟨h.nodupT, h.nodupL, h.sub, h.first, h.dn, h.chain, ?_, h.keep, h.cls⟩
    intro j hj
    rcases List.mem_cons.mp hj with rfl | hj
    · exact ⟨hik, Or.inl hk⟩
    · exact h.rel j hj
  | relClose hc hnot =>
    have hN := (h.cls hc).1
    have hdi : G.inst G.dn := by rcases h.dn with h1 | h1; omega; exact h1
    refine ⟨h.nodupT, h.nodupL, h.sub, h.first, h.dn, h.chain, ?_, h.keep, h.cls⟩
    intro j hj
    rcases List.mem_cons.mp hj with rfl | hj
    · exact ⟨hdi, Or.inr ⟨hc, rfl⟩⟩
    · exact h.rel j hj
  | refClose hc hN hup =>
    have hw := wf_push_inst (G := G) (fs := []) (L := []) (din := ⟨[], []⟩) h hc List.nodup_nil List.nodup_nil
      (fun _ hf => hf) (fun _ => rfl)
    have hdn := h.dn_lt hN
    refine ⟨hw.nodupT, hw.nodupL, hw.sub, hw.first, hw.dn, hw.chain, ?_, hw.keep, ?_⟩
    · intro k hk
      obtain ⟨h1, h2⟩ := hw.rel k hk
      refine ⟨h1, ?_⟩
      rcases h2 with h2 | ⟨h2, _⟩
      · exact Or.inl h2
      · rw [EnvF.push_closing, hc] at h2; cases h2
    · intro _
      show 0 < (G.push _).N ∧ (G.push _).inst ((G.push _).N - 1) ∧ (G.push _).T ((G.push _).N - 1) = [] ∧
        G.dn + 1 < (G.push _).N ∧ (G.push _).up (G.dn + 1) = (G.push _).N - 1
      simp only [EnvF.push_N, Nat.add_sub_cancel]
      refine ⟨by omega, EnvF.push_inst_eq.mpr rfl, by rw [EnvF.push_T_eq]; rfl, by omega, ?_⟩
      rw [EnvF.push_up (by omega)]
      have : ¬ G.up (G.dn + 1) < G.N := by omega
      simp [this, Slot.isInst]

end GoLevel.RefLoop
