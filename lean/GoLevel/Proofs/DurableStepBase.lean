import GoLevel.Proofs.DurableDisk3
/-!
Shared tools for the step proofs: unpacking `Holds`, how `must`/`issuedGrps` change, and the pieces of the
invariant that only look at a few fields.
-/
namespace GoLevel.Dur

theorem holds_some {α : Type} {o : Option α} {P : α → Prop} {a : α} (h : Holds o P) (e : o = some a) : P a := by
  subst e; exact h

theorem holds_of_some {α : Type} {o : Option α} {P : α → Prop} {a : α} (e : o = some a) (h : P a) : Holds o P := by
  subst e; exact h

theorem Holds.imp {α : Type} {o : Option α} {P Q : α → Prop} (h : Holds o P) (f : ∀ a, P a → Q a) : Holds o Q := by
  cases o with
  | none => exact h
  | some a => exact f a h

theorem Holds'.imp {α : Type} {o : Option α} {P Q : α → Prop} (h : Holds' o P) (f : ∀ a, P a → Q a) : Holds' o Q := by
  cases o with
  | none => trivial
  | some a => exact f a h

/-- a good configuration: the repaired code, in the code's order -/
structure Cfg.Good (cfg : Cfg) : Prop where
  noTrace : cfg.failedRecordLeavesNoTrace = true
  carry : cfg.rotationCarriesNums = true
  esbjr : cfg.editSyncedBeforeJournalRemoval = true
  msbsm : cfg.manifestSyncedBeforeSetMeta = true

/-! ## `issuedGrps` and `must` -/

theorem issuedGrps_setStatus (g : Grp) (st : Status) (l : List Issue) :
    (setStatus g st l).map (·.grp) = l.map (·.grp) := by
  simp only [setStatus, List.map_map]
  apply List.map_congr_left
  intro i _
  simp only [Function.comp]
  split <;> rfl

theorem issuedGrps_downgrade (l : List Issue) : (downgrade l).map (·.grp) = l.map (·.grp) := by
  simp only [downgrade, List.map_map]
  apply List.map_congr_left
  intro i _
  simp only [Function.comp]
  split <;> rfl

/-- the acknowledged-with-sync part of `must` -/
def ackedSync (l : List Issue) : List Grp :=
  (l.filter fun i => i.status = .acked ∧ i.grp.sync = true).map (·.grp)

theorem must_eq (s : St) : must s = ackedSync s.issued ++
    (match s.w with
     | .synced g | .applied g | .published g => if g.sync then [g] else []
     | _ => []) := rfl

theorem ackedSync_append_pending (l : List Issue) (g : Grp) : ackedSync (l ++ [⟨g, .pending⟩]) = ackedSync l := by
  simp [ackedSync, List.filter_append]

theorem mem_ackedSync_setStatus {g x : Grp} {l : List Issue} (h : x ∈ ackedSync (setStatus g .acked l)) :
    x ∈ ackedSync l ∨ (x = g ∧ g.sync = true) := by
  simp only [ackedSync, setStatus, List.mem_map, List.mem_filter, decide_eq_true_eq] at h ⊢
  obtain ⟨i, ⟨⟨i0, hi0, rfl⟩, hst, hsy⟩, rfl⟩ := h
  by_cases hg : i0.grp = g
  · simp only [hg, if_true] at hst hsy ⊢
    exact Or.inr (by simpa using hsy)
  · simp only [hg, if_false] at hst hsy ⊢
    exact Or.inl ⟨i0, ⟨hi0, hst, hsy⟩, rfl⟩

theorem mem_ackedSync_downgrade {x : Grp} {l : List Issue} (h : x ∈ ackedSync (downgrade l)) : x ∈ ackedSync l := by
  simp only [ackedSync, downgrade, List.mem_map, List.mem_filter, decide_eq_true_eq] at h ⊢
  obtain ⟨i, ⟨⟨i0, hi0, rfl⟩, hst, hsy⟩, rfl⟩ := h
  by_cases hc : i0.status = .acked ∧ i0.grp.sync = false
  · simp only [hc, and_self, if_true] at hst
    cases hst
  · simp only [hc, if_false] at hst hsy ⊢
    exact ⟨i0, ⟨hi0, hst, hsy⟩, rfl⟩

/-! ## the views of the admissible range -/

/-- `P` holds for every admissible view -/
def AllViews (cfg : Cfg) (d : Disk) (P : MView → Prop) : Prop :=
  ∀ mf, curManifest d = some mf → ∀ k ≤ mf.unsynced.length, ∀ v, viewAt cfg mf k = some v → P v

/-! ## `seqHi` -/

theorem seqHi_eq {s : St} (h : ¬ TrWindow s) : seqHi s = s.seq := by
  unfold seqHi
  unfold TrWindow at h
  cases hj : s.job with
  | none => rfl
  | some j =>
    rw [hj] at h
    simp only [Holds] at h
    simp only
    split
    · rename_i hb
      unfold sqCap
      rw [if_neg (fun hk => h ⟨hk, hb⟩)]
    · rfl

theorem not_trWindow_of_nojob {s : St} (h : s.job = none) : ¬ TrWindow s := by
  unfold TrWindow; rw [h]; exact id

theorem not_trWindow_of_kind {s : St} {j : Job} (hj : s.job = some j) (hk : j.kind ≠ .tr) : ¬ TrWindow s := by
  unfold TrWindow; rw [hj]; exact fun h => hk h.1

theorem not_trWindow_of_bc {s : St} {j : Job} (hj : s.job = some j) (hb : j.pc.beforeCommit = true)
    (hl : s.limbo = none) : ¬ TrWindow s := by
  unfold TrWindow; rw [hj]
  intro h
  rcases h.2 with h2 | h2
  · rw [hb] at h2; cases h2
  · rw [hl] at h2; cases h2

theorem seqHi_le_of_not_window {s s' : St} (h : ¬ TrWindow s) (h' : ¬ TrWindow s') (hq : s.seq ≤ s'.seq) :
    seqHi s ≤ seqHi s' := by
  rw [seqHi_eq h, seqHi_eq h']; exact hq

/-- a step of the job that keeps kind, `tr` and `db.seq`, and does not go back behind the commit -/
theorem seqHi_le_of_job {s s' : St} {j j' : Job} (hj : s.job = some j) (hj' : s'.job = some j')
    (htr : s'.tr = s.tr) (hseq : s'.seq = s.seq) (hk : j'.kind = j.kind)
    (hpc : j'.pc.beforeCommit = true → j.pc.beforeCommit = true) (hcap : s.seq ≤ sqCap s j)
    (hl : s'.limbo = s.limbo := by rfl) :
    seqHi s ≤ seqHi s' := by
  have hc : sqCap s' j' = sqCap s j := by unfold sqCap; rw [hk, htr, hseq]
  unfold seqHi
  rw [hj, hj']
  simp only [hl, hc, hseq]
  cases hb' : j'.pc.beforeCommit with
  | true =>
    rw [hpc hb']
    exact Nat.le_refl _
  | false =>
    simp only [true_or, if_true]
    split
    · exact Nat.le_refl _
    · exact hcap

theorem seqHi_post {s : St} {j : Job} (hj : s.job = some j) (hb : j.pc.beforeCommit = false) :
    seqHi s = sqCap s j := by
  unfold seqHi; rw [hj]; simp only [hb, true_or, if_true]

theorem ViewBounds.all {cfg : Cfg} {s : St} {d : Disk} (h : ViewBounds cfg s d) :
    AllViews cfg d fun v => v.sq ≤ seqHi s ∧ v.nf ≤ s.nextFile ∧ (s.phase = .running → v.jn ≤ s.jcur) := by
  intro mf hc k hk v hv
  have h1 := holds_some h hc k hk
  exact holds_some (P := fun v => v.sq ≤ seqHi s ∧ v.nf ≤ s.nextFile ∧ (s.phase = .running → v.jn ≤ s.jcur)) h1 hv

theorem DiskOK.allViews {cfg : Cfg} {d : Disk} {must issued : List Grp} (h : DiskOK cfg d must issued) :
    AllViews cfg d fun v => ViewOK d must issued v := by
  intro mf hc k hk v hv
  obtain ⟨mf', v0, hp⟩ := h.parts
  have : mf' = mf := by
    have := hp.cur; rw [hc] at this; exact (Option.some.inj this).symm
  subst this
  obtain ⟨v', hv', hok, _⟩ := hp.views k hk
  rw [hv] at hv'
  cases hv'
  exact hok

/-- the next file number moves on: every journal lies strictly below it -/
theorem nums_bump {d : Disk} {n n' : Nat} (h : ∀ p ∈ d.journals, p.1 < n ∨ p.1 = n ∧ p.2.all = []) (hn : n < n') :
    ∀ p ∈ d.journals, p.1 < n' ∨ p.1 = n' ∧ p.2.all = [] := by
  intro p hp
  rcases h p hp with x | x
  · exact Or.inl (by omega)
  · exact Or.inl (by omega)

theorem nums_le {d : Disk} {n n' : Nat} (h : ∀ p ∈ d.journals, p.1 < n ∨ p.1 = n ∧ p.2.all = []) (hn : n ≤ n') :
    ∀ p ∈ d.journals, p.1 < n' ∨ p.1 = n' ∧ p.2.all = [] := by
  intro p hp
  rcases h p hp with x | x
  · exact Or.inl (by omega)
  · rcases Nat.lt_or_ge n n' with y | y
    · exact Or.inl (by omega)
    · exact Or.inr ⟨by omega, x.2⟩

/-- more groups must survive, provided every admissible view already covers the new ones -/
theorem DiskOK.mono_cover {cfg : Cfg} {d : Disk} {must must' issued issued' : List Grp}
    (h : DiskOK cfg d must issued)
    (hm : ∀ g ∈ must', g ∈ must ∨
      AllViews cfg d fun v => (g ∈ liveGrps d v ∨ ∃ p ∈ relJournals d v.jn, g ∈ p.2.synced) ∧
        ∀ p ∈ relJournals d v.jn, g ∈ p.2.all → v.sq ≤ g.seq)
    (hi : ∀ g ∈ issued, g ∈ issued') : DiskOK cfg d must' issued' := by
  obtain ⟨a, b, c, hr⟩ := h
  refine ⟨a, b, c, ?_⟩
  rw [holds_iff] at hr ⊢
  obtain ⟨mf, hmf, hr⟩ := hr
  refine ⟨mf, hmf, ?_⟩
  rw [holds_iff] at hr ⊢
  obtain ⟨v0, hv0, hrange, hasc, hord⟩ := hr
  refine ⟨v0, hv0, ?_, hasc, hord⟩
  intro k hk
  have := hrange k hk
  rw [holds_iff] at this ⊢
  obtain ⟨v, hv, hok, hmono⟩ := this
  refine ⟨v, hv, ⟨hok.tables, fun g hg => ?_, hok.tdisj, fun p hp g hg => ?_, hok.tj, fun g hg => ?_, hok.jnf⟩, hmono⟩
  · obtain ⟨x, y, z⟩ := hok.tseq g hg
    exact ⟨x, hi g y, z⟩
  · obtain ⟨x, y⟩ := hok.jseq p hp g hg
    refine ⟨?_, hi g y⟩
    by_cases hgm : g ∈ must'
    · rcases hm g hgm with h1 | h1
      · exact x.imp id (fun u _ => u h1)
      · exact Or.inl ((h1 mf hmf k hk v hv).2 p hp hg)
    · exact Or.inr hgm
  · rcases hm g hg with h1 | h1
    · exact hok.cover g h1
    · exact (h1 mf hmf k hk v hv).1

/-- rebuilding `ViewBounds` when the manifest has not changed -/
theorem ViewBounds.of_same {cfg : Cfg} {s s' : St} {d d' : Disk} (h : ViewBounds cfg s d)
    (hc : curManifest d' = curManifest d) (hseq : seqHi s ≤ seqHi s') (hnf : s.nextFile ≤ s'.nextFile)
    (hj : s'.phase = .running → s.phase = .running ∧ s.jcur ≤ s'.jcur) : ViewBounds cfg s' d' := by
  unfold ViewBounds at h ⊢
  rw [hc]
  refine h.imp (fun mf hmf k hk => (hmf k hk).imp ?_)
  rintro v ⟨a, b, c⟩
  refine ⟨Nat.le_trans a hseq, Nat.le_trans b hnf, fun hr => ?_⟩
  obtain ⟨h1, h2⟩ := hj hr
  exact Nat.le_trans (c h1) h2


/-! ## `ManifestMono` -/

theorem ManifestMono.of_same {cfg : Cfg} {d d' : Disk} (h : ManifestMono cfg d)
    (hcm : curManifest d' = curManifest d) (hc : d'.current = d.current) : ManifestMono cfg d' := by
  unfold ManifestMono at h ⊢
  rw [hcm, hc]
  exact h

/-- a manifest with a single admissible view -/
theorem ManifestMono.single {cfg : Cfg} {d : Disk} {mf : LogFile MRec} {m : Nat} {v : MView}
    (hcm : curManifest d = some mf) (hc : d.current = some m) (hu : mf.unsynced = [])
    (hv : viewAt cfg mf 0 = some v) (hlt : m < v.nf) : ManifestMono cfg d := by
  unfold ManifestMono
  rw [hcm, hc]
  simp only [Holds]
  intro k hk
  have : k = 0 := by simpa [hu] using hk
  subst this
  rw [hv]
  refine ⟨hlt, fun i hi => ?_⟩
  have : i = 0 := by omega
  subst this
  rw [hv]
  exact ⟨Nat.le_refl _, Nat.le_refl _⟩

theorem ManifestMono.get {cfg : Cfg} {d : Disk} (h : ManifestMono cfg d) {mf : LogFile MRec} {m : Nat}
    (hcm : curManifest d = some mf) (hc : d.current = some m) {k : Nat} (hk : k ≤ mf.unsynced.length)
    {v : MView} (hv : viewAt cfg mf k = some v) :
    m < v.nf ∧ ∀ i ≤ k, ∀ u, viewAt cfg mf i = some u → u.sq ≤ v.sq ∧ u.nf ≤ v.nf := by
  unfold ManifestMono at h
  have h0 := holds_some h hcm
  have h1 := holds_some h0 hc k hk
  have h2 := holds_some h1 hv
  refine ⟨h2.1, fun i hi u hu => ?_⟩
  have h3 := h2.2 i hi
  rw [hu] at h3
  exact h3

theorem ManifestMono.crash {cfg : Cfg} (hn : cfg.failedRecordLeavesNoTrace = true) {d : Disk}
    (h : ManifestMono cfg d) (hd : ∃ must issued, DiskOK cfg d must issued) (ch : CrashChoice) :
    ManifestMono cfg (crashWith ch d) := by
  obtain ⟨must, issued, hd⟩ := hd
  obtain ⟨mf, v0, hp⟩ := hd.parts
  have hcur := hp.cur
  unfold curManifest at hcur
  cases hcc : d.current with
  | none => rw [hcc] at hcur; simp at hcur
  | some m =>
    rw [hcc] at hcur
    simp only [Option.bind_some] at hcur
    obtain ⟨hu, hview⟩ := crashManifest_view cfg hn (ch.cutM m) (ch.tornM m) mf
    obtain ⟨v, hv, _, _⟩ := hp.views (min (ch.cutM m) mf.unsynced.length) (Nat.min_le_right _ _)
    have hms : (crashWith ch d).manifests =
        d.manifests.map fun p => (p.1, crashManifest (ch.cutM p.1) (ch.tornM p.1) p.2) := rfl
    apply ManifestMono.single (mf := crashManifest (ch.cutM m) (ch.tornM m) mf) (m := m) (v := v)
    · show (d.current.bind (lookup (crashWith ch d).manifests)) = _
      rw [hcc, Option.bind_some, hms,
        lookup_map_snd d.manifests (fun n f => crashManifest (ch.cutM n) (ch.tornM n) f) m, hcur]
      rfl
    · exact hcc
    · exact hu
    · rw [hview, hv]
    · exact (h.get hp.cur hcc (Nat.min_le_right _ _) hv).1

theorem ManifestMono.sync {cfg : Cfg} {d : Disk} {m : Nat} (h : ManifestMono cfg d) (hc : d.current = some m)
    (hd : ∃ must issued, DiskOK cfg d must issued) :
    ManifestMono cfg { d with manifests := d.manifests.modify m (·.sync) } := by
  obtain ⟨must, issued, hd⟩ := hd
  obtain ⟨mf, v0, hp⟩ := hd.parts
  obtain ⟨v, hv, _, _⟩ := hp.views mf.unsynced.length (Nat.le_refl _)
  apply ManifestMono.single (mf := mf.sync) (m := m) (v := v)
  · rw [curManifest_modify hc, hp.cur]; rfl
  · exact hc
  · rfl
  · rw [viewAt_sync]; exact hv
  · exact (h.get hp.cur hc (Nat.le_refl _) hv).1

/-- one more record: the new last view dominates the old last one -/
theorem ManifestMono.append {cfg : Cfg} {d : Disk} {m : Nat} (h : ManifestMono cfg d) (hc : d.current = some m)
    (r : MRec)
    (hnew : ∀ mf, curManifest d = some mf → Holds (viewAt cfg mf mf.unsynced.length) fun vl =>
      Holds (((replayM cfg mf.all).step cfg r).view?) fun v' => m < v'.nf ∧ vl.sq ≤ v'.sq ∧ vl.nf ≤ v'.nf) :
    ManifestMono cfg { d with manifests := d.manifests.modify m (·.append r) } := by
  unfold ManifestMono
  rw [curManifest_modify hc]
  show Holds ((curManifest d).map _) fun mf => Holds d.current _
  rw [hc]
  cases hcm : curManifest d with
  | none => unfold ManifestMono at h; rw [hcm] at h; exact h
  | some mf =>
    simp only [Option.map_some, Holds]
    intro k hk
    have hlen : (mf.append r).unsynced.length = mf.unsynced.length + 1 := by simp [LogFile.append]
    rw [hlen] at hk
    have hn := hnew mf hcm
    by_cases hk' : k ≤ mf.unsynced.length
    · rw [viewAt_append_le cfg mf r hk']
      have hh := h
      unfold ManifestMono at hh
      have h0 := holds_some hh hcm
      have h1 := holds_some h0 hc k hk'
      refine h1.imp (fun v hv => ⟨hv.1, fun i hi => ?_⟩)
      rw [viewAt_append_le cfg mf r (Nat.le_trans hi hk')]
      exact hv.2 i hi
    · have : k = mf.unsynced.length + 1 := by omega
      subst this
      rw [viewAt_append_last]
      rw [holds_iff] at hn
      obtain ⟨vl, hvl, hn⟩ := hn
      rw [holds_iff] at hn
      obtain ⟨v', hv', hlt, hsq, hnf⟩ := hn
      rw [hv']
      simp only [Holds]
      refine ⟨hlt, fun i hi => ?_⟩
      by_cases hi' : i ≤ mf.unsynced.length
      · rw [viewAt_append_le cfg mf r hi']
        have h2 := (h.get hcm hc (Nat.le_refl mf.unsynced.length) hvl).2 i hi'
        cases hu : viewAt cfg mf i with
        | none =>
          -- every admissible prefix has a view
          have hh := h
          unfold ManifestMono at hh
          have h0 := holds_some hh hcm
          have h1 := holds_some h0 hc _ (Nat.le_refl mf.unsynced.length)
          have h3 := (holds_some h1 hvl).2 i hi'
          rw [hu] at h3
          exact h3
        | some u =>
          have := h2 u hu
          exact ⟨Nat.le_trans this.1 hsq, Nat.le_trans this.2 hnf⟩
      · have : i = mf.unsynced.length + 1 := by omega
        subst this
        rw [viewAt_append_last, hv']
        exact ⟨Nat.le_refl _, Nat.le_refl _⟩

end GoLevel.Dur
