import GoLevel.Proofs.LocksStepTok
import GoLevel.Proofs.LocksStepClk
import GoLevel.Proofs.LocksStepTrlk
/-! The ownership accounting holds in every reachable state of the repaired configuration. -/
namespace GoLevel.Locks

theorem step_rinv (s t : St) (f : Bool) (h : Step Cfg.repaired f s t) (inv : RInv s) : RInv t :=
  ⟨step_rinv_tok s t f h inv, step_rinv_clk s t f h inv, step_rinv_trlk s t f h inv⟩

theorem init_rinv (n : Nat) : RInv (init n) := by
  refine ⟨?_, ?_, ?_⟩
  · show tot tokW (List.replicate n .idle) + 0 + 0 + 0 = 0
    rw [tot_replicate_idle _ _ rfl]
  · show tot clkW (List.replicate n .idle) + 0 + 0 = 0
    rw [tot_replicate_idle _ _ rfl]
  · show tot trlkW (List.replicate n .idle) = 0
    rw [tot_replicate_idle _ _ rfl]

theorem steps_rinv (s t : St) (h : Steps Cfg.repaired s t) (inv : RInv s) : RInv t := by
  induction h with
  | refl => exact inv
  | tail _ h ih => exact step_rinv _ _ _ h ih

theorem reachable_rinv (s : St) (h : Reachable Cfg.repaired s) : RInv s := by
  obtain ⟨n, hs⟩ := h
  exact steps_rinv _ _ hs (init_rinv n)

theorem Steps.step {cfg : Cfg} {s t u : St} {f : Bool} (h : Steps cfg s t) (h2 : Step cfg f t u) :
    Steps cfg s u := .tail h h2

theorem steps_inv_of_step {cfg : Cfg} (P : St → Prop) (hP : ∀ s t f, Step cfg f s t → P s → P t)
    (s t : St) (h : Steps cfg s t) (hs : P s) : P t := by
  induction h with
  | refl => exact hs
  | tail _ h ih => exact hP _ _ _ h ih

end GoLevel.Locks
