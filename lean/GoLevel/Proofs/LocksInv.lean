import GoLevel.Proofs.LocksStepTok
import GoLevel.Proofs.LocksStepClk
import GoLevel.Proofs.LocksStepTrlk
/-! The ownership accounting is preserved by every step of a configuration with the three fixes, if it has
the fourth as well or no thread executes `SetReadOnly`. -/
namespace GoLevel.Locks

theorem step_rinv (cfg : Cfg) (h3 : Fixed3 cfg) (s t : St) (f : Bool)
    (h4 : cfg.setReadOnlyReleasesOnClose = true ∨ NoSR s) (h : Step cfg f s t) (inv : RInv s) : RInv t :=
  ⟨step_rinv_tok s t f cfg h3 h4 h inv, step_rinv_clk s t f cfg h3 h4 h inv, step_rinv_trlk s t f cfg h3 h4 h inv⟩

theorem rinv_of_idle (s : St) (n : Nat) (hw : s.ws = List.replicate n .idle) (h1 : s.tok = false)
    (h2 : s.clk = false) (h3 : s.trlk = false) (h4 : s.trOpen = false) (h5 : s.ehTok = false)
    (h6 : s.closeTok = false) (h7 : s.mc = .idle) (h8 : s.tc = .idle) : RInv s := by
  refine ⟨?_, ?_, ?_⟩
  · rw [hw, tot_replicate_idle _ _ rfl, h1, h4, h5, h6]; rfl
  · rw [hw, tot_replicate_idle _ _ rfl, h2, h7, h8]; rfl
  · rw [hw, tot_replicate_idle _ _ rfl, h3]; rfl

theorem Steps.step {cfg : Cfg} {s t u : St} {f : Bool} (h : Steps cfg s t) (h2 : Step cfg f t u) :
    Steps cfg s u := .tail h h2

theorem steps_inv_of_step {cfg : Cfg} (P : St → Prop) (hP : ∀ s t f, Step cfg f s t → P s → P t)
    (s t : St) (h : Steps cfg s t) (hs : P s) : P t := by
  induction h with
  | refl => exact hs
  | tail _ h ih => exact hP _ _ _ h ih

end GoLevel.Locks
