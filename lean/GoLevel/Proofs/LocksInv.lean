import GoLevel.Proofs.LocksStepTok
import GoLevel.Proofs.LocksStepTokW
import GoLevel.Proofs.LocksStepClk
import GoLevel.Proofs.LocksStepTrlk
/-! The ownership accounting is preserved by every step of a configuration with the three fixes: `compCommitLk`,
`tr.lk` and "a token in `writeLockC` has an owner" always (`step_rinvW`); the exact accounting of the token if
moreover the configuration has the fourth fix or no thread executes `SetReadOnly`, and the two blind take-backs
of `compWriteLocking` find their own token (`step_rinv`). -/
namespace GoLevel.Locks

theorem step_rinvW (cfg : Cfg) (h3 : Fixed3 cfg) (s t : St) (f : Bool) (h : Step cfg f s t) (inv : RInvW s) :
    RInvW t :=
  ⟨step_tokW s t f cfg h3 h inv.tokI, step_clk s t f cfg h3 h inv.clkI, step_trlk s t f cfg h3 h inv.trlkI⟩

theorem step_rinv (cfg : Cfg) (h3 : Fixed3 cfg) (s t : St) (f : Bool)
    (h4 : cfg.setReadOnlyReleasesOnClose = true ∨ NoSR s)
    (hJ1 : 0 < tot srW s.ws → s.ehTok = true) (hJ2 : s.eh = .closing → s.ehTok = true)
    (h : Step cfg f s t) (inv : RInv s) : RInv t :=
  ⟨step_tokE s t f cfg h3 h4 hJ1 hJ2 h inv.tokI, step_clk s t f cfg h3 h inv.clkI, step_trlk s t f cfg h3 h inv.trlkI⟩

theorem rinv_of_idle (s : St) (n : Nat) (hw : s.ws = List.replicate n .idle) (h1 : s.tok = false)
    (h2 : s.clk = false) (h3 : s.trlk = false) (h4 : s.trOpen = false) (h5 : s.ehTok = false)
    (h6 : s.closeTok = false) (h7 : s.mc = .idle) (h8 : s.tc = .idle) : RInv s := by
  refine ⟨?_, ?_, ?_⟩
  · rw [hw, tot_replicate_idle _ _ rfl, h1, h4, h5, h6]; rfl
  · rw [hw, tot_replicate_idle _ _ rfl, h2, h7, h8]; rfl
  · rw [hw, tot_replicate_idle _ _ rfl, h3]; rfl

theorem Steps.step {cfg : Cfg} {s t u : St} {f : Bool} (h : Steps cfg s t) (h2 : Step cfg f t u) :
    Steps cfg s u := .tail h h2

theorem steps_inv_of_step {cfg : Cfg} (P : St → Prop) (hP : ∀ s t f, Step cfg f s t → P s → P t)
    (s t : St) (h : Steps cfg s t) (hs : P s) : P t := by
  induction h with
  | refl => exact hs
  | tail _ h ih => exact hP _ _ _ h ih

end GoLevel.Locks
