import GoLevel.Proofs.MemDBInv
/-! `Put`/`Delete`/`Reset` preserve the invariant and act on the abstract sorted map as `insert`/`erase`;
the reads answer like the sorted map (C14). -/
set_option linter.unusedSectionVars false
set_option linter.unusedSimpArgs false
namespace GoLevel.MemDB

variable {cmp : Cmp}

/-! ## the key ↦ value list -/

theorem lookup_filter_ne (kv : List (Bytes × Bytes)) (key k : Bytes) :
    (kv.filter (·.1 != key)).lookup k = if k = key then none else kv.lookup k := by
  induction kv with
  | nil => simp
  | cons p ps ih =>
    obtain ⟨a, b⟩ := p
    by_cases ha : a = key
    · subst ha
      by_cases hk : k = a
      · subst hk; simp [List.filter_cons, ih]
      · have : (k == a) = false := by simpa using hk
        simp [List.filter_cons, ih, hk, List.lookup_cons, this]
    · have hne : (a != key) = true := by simpa using ha
      by_cases hk : k = a
      · subst hk; simp [List.filter_cons, hne, List.lookup_cons, ha]
      · have : (k == a) = false := by simpa using hk
        simp [List.filter_cons, hne, List.lookup_cons, this, ih]

theorem lookup_put (kv : List (Bytes × Bytes)) (key v k : Bytes) :
    ((key, v) :: kv.filter (·.1 != key)).lookup k = if k = key then some v else kv.lookup k := by
  by_cases hk : k = key
  · subst hk; simp [List.lookup_cons]
  · have : (k == key) = false := by simpa using hk
    simp [List.lookup_cons, this, lookup_filter_ne, hk]

/-! ## sorted-map facts on a list split around the key -/

namespace SMap
variable {k : Bytes} {A B : SMap}

theorem size_append (a b : SMap) : size (a ++ b) = size a + size b := by simp [size, List.sum_append]
theorem size_cons (p : Bytes × Bytes) (a : SMap) : size (p :: a) = p.1.length + p.2.length + size a := by
  simp [size]

section
variable (hc : LawfulCmp cmp)
include hc

theorem filters_split (hA : ∀ p ∈ A, cmp p.1 k = .lt) (hB : ∀ p ∈ B, cmp k p.1 = .lt) :
    A.filter (fun p => cmp p.1 k == .lt) = A ∧ B.filter (fun p => cmp p.1 k == .lt) = [] ∧
    A.filter (fun p => cmp p.1 k == .gt) = [] ∧ B.filter (fun p => cmp p.1 k == .gt) = B ∧
    A.filter (fun p => cmp p.1 k != .eq) = A ∧ B.filter (fun p => cmp p.1 k != .eq) = B ∧
    A.find? (fun p => cmp p.1 k == .eq) = none ∧ B.find? (fun p => cmp p.1 k == .eq) = none := by
  have hB' : ∀ p ∈ B, cmp p.1 k = .gt := fun p hp => (hc.gt_iff _ _).2 (hB p hp)
  refine ⟨?_, ?_, ?_, ?_, ?_, ?_, ?_, ?_⟩
  · exact List.filter_eq_self.2 (fun p hp => by simp [hA p hp])
  · exact List.filter_eq_nil_iff.2 (fun p hp => by simp [hB' p hp])
  · exact List.filter_eq_nil_iff.2 (fun p hp => by simp [hA p hp])
  · exact List.filter_eq_self.2 (fun p hp => by simp [hB' p hp])
  · exact List.filter_eq_self.2 (fun p hp => by simp [hA p hp])
  · exact List.filter_eq_self.2 (fun p hp => by simp [hB' p hp])
  · exact List.find?_eq_none.2 (fun p hp => by simp [hA p hp])
  · exact List.find?_eq_none.2 (fun p hp => by simp [hB' p hp])

theorem insert_split (v : Bytes) (hA : ∀ p ∈ A, cmp p.1 k = .lt) (hB : ∀ p ∈ B, cmp k p.1 = .lt) :
    insert cmp k v (A ++ B) = A ++ (k, v) :: B := by
  obtain ⟨h1, h2, h3, h4, _⟩ := filters_split hc hA hB
  simp [insert, List.filter_append, h1, h2, h3, h4]

theorem insert_split_mem (v o : Bytes) (hA : ∀ p ∈ A, cmp p.1 k = .lt) (hB : ∀ p ∈ B, cmp k p.1 = .lt) :
    insert cmp k v (A ++ (k, o) :: B) = A ++ (k, v) :: B := by
  obtain ⟨h1, h2, h3, h4, _⟩ := filters_split hc hA hB
  simp [insert, List.filter_append, List.filter_cons, h1, h2, h3, h4, hc.refl]

theorem erase_split_mem (o : Bytes) (hA : ∀ p ∈ A, cmp p.1 k = .lt) (hB : ∀ p ∈ B, cmp k p.1 = .lt) :
    erase cmp k (A ++ (k, o) :: B) = A ++ B := by
  obtain ⟨_, _, _, _, h5, h6, _⟩ := filters_split hc hA hB
  simp [erase, List.filter_append, List.filter_cons, h5, h6, hc.refl]

theorem erase_split (hA : ∀ p ∈ A, cmp p.1 k = .lt) (hB : ∀ p ∈ B, cmp k p.1 = .lt) :
    erase cmp k (A ++ B) = A ++ B := by
  obtain ⟨_, _, _, _, h5, h6, _⟩ := filters_split hc hA hB
  simp [erase, List.filter_append, h5, h6]

theorem get_split_mem (o : Bytes) (hA : ∀ p ∈ A, cmp p.1 k = .lt) :
    get cmp k (A ++ (k, o) :: B) = some o := by
  have h7 : A.find? (fun p => cmp p.1 k == .eq) = none :=
    List.find?_eq_none.2 (fun p hp => by simp [hA p hp])
  simp [get, List.find?_append, h7, hc.refl]

theorem get_split (hA : ∀ p ∈ A, cmp p.1 k = .lt) (hB : ∀ p ∈ B, cmp k p.1 = .lt) :
    get cmp k (A ++ B) = none := by
  obtain ⟨_, _, _, _, _, _, h7, h8⟩ := filters_split hc hA hB
  simp [get, List.find?_append, h7, h8]

end
end SMap

/-! ## the abstract map split around a key -/

/-- `(key, value)` as `abs` lists it -/
abbrev DB.pair (db : DB) (k : Bytes) : Bytes × Bytes := (k, db.value k)

theorem abs_eq (db : DB) : db.abs = db.level0.map db.pair := rfl

section
variable (hc : LawfulCmp cmp)
include hc

theorem gt_of_mem_dropWhile {l : List Bytes} (hs : Sorted cmp l) {key : Bytes} (hk : key ∉ l) :
    ∀ x ∈ l.dropWhile (below cmp key), cmp key x = .lt := by
  intro x hx
  have hnl := not_below_of_mem_dropWhile hc hs key x hx
  rcases hc.total x key with h | h | h
  · exact absurd h hnl
  · exact absurd (h ▸ (List.dropWhile_sublist _).subset hx) hk
  · exact h

/-- a key that is not in the table splits it into the pairs below and the pairs above -/
theorem abs_split_new {db : DB} (h : Inv cmp db) {key : Bytes} (hk : key ∉ db.level0) :
    db.abs = (db.level0.takeWhile (below cmp key)).map db.pair ++ (db.level0.dropWhile (below cmp key)).map db.pair ∧
    (∀ p ∈ (db.level0.takeWhile (below cmp key)).map db.pair, cmp p.1 key = .lt) ∧
    (∀ p ∈ (db.level0.dropWhile (below cmp key)).map db.pair, cmp key p.1 = .lt) := by
  refine ⟨?_, ?_, ?_⟩
  · rw [abs_eq, ← List.map_append, List.takeWhile_append_dropWhile]
  · intro p hp
    obtain ⟨x, hx, rfl⟩ := List.mem_map.1 hp
    exact below_of_mem_takeWhile key x hx
  · intro p hp
    obtain ⟨x, hx, rfl⟩ := List.mem_map.1 hp
    exact gt_of_mem_dropWhile hc h.sorted0 hk x hx

end

/-- a key that is in the table -/
structure SplitMem (cmp : Cmp) (db : DB) (key : Bytes) (pre post : List Bytes) : Prop where
  l0 : db.level0 = pre ++ key :: post
  lt : ∀ x ∈ pre, cmp x key = .lt
  gt : ∀ x ∈ post, cmp key x = .lt
  tw : db.level0.takeWhile (below cmp key) = pre
  dw : db.level0.dropWhile (below cmp key) = key :: post

section
variable (hc : LawfulCmp cmp)
include hc

theorem splitMem {db : DB} (h : Inv cmp db) {key : Bytes} (hk : key ∈ db.level0) :
    ∃ pre post, SplitMem cmp db key pre post := by
  obtain ⟨pre, post, a, b, c, d, e⟩ := split_mem hc h.sorted0 hk
  exact ⟨pre, post, ⟨a, b, c, d, e⟩⟩

theorem SplitMem.abs {db : DB} {key : Bytes} {pre post : List Bytes} (s : SplitMem cmp db key pre post) :
    db.abs = pre.map db.pair ++ (key, db.value key) :: post.map db.pair ∧
    (∀ p ∈ pre.map db.pair, cmp p.1 key = .lt) ∧ (∀ p ∈ post.map db.pair, cmp key p.1 = .lt) := by
  refine ⟨by rw [abs_eq, s.l0]; simp, ?_, ?_⟩
  · intro p hp
    obtain ⟨x, hx, rfl⟩ := List.mem_map.1 hp
    exact s.lt x hx
  · intro p hp
    obtain ⟨x, hx, rfl⟩ := List.mem_map.1 hp
    exact s.gt x hx

end

/-! ## `New`, `Reset` -/

theorem inv_empty (cmp : Cmp) : Inv cmp DB.empty where
  ne := by simp [DB.empty]
  height := by simp [DB.empty]; decide
  sorted := by intro l hl; simp [DB.empty] at hl; subst hl; exact List.Pairwise.nil
  towers := by simp [DB.empty]
  dom := by intro k; simp [DB.empty, DB.level0]
  len := by simp [DB.empty, DB.level0]
  size := by simp [DB.empty, DB.abs, DB.level0, SMap.size]

theorem abs_empty : DB.empty.abs = [] := by simp [DB.empty, DB.abs, DB.level0]

/-! ## `Put` -/

theorem Inv.towersSub {db : DB} (h : Inv cmp db) :
    db.levels.Pairwise (fun lo hi => ∀ x ∈ hi, x ∈ lo) := by
  refine List.Pairwise.imp ?_ h.towers
  intro a b hsub x hx
  exact hsub.subset hx

theorem level0_mk (ls : List (List Bytes)) (kv : List (Bytes × Bytes)) (a b c : Nat) :
    (DB.mk ls kv a b c).level0 = ls.headD [] := rfl

theorem value_put_self (db : DB) (key v : Bytes) (ls : List (List Bytes)) (a b c : Nat) :
    (DB.mk ls ((key, v) :: db.kv.filter (·.1 != key)) a b c).value key = v := by
  simp [DB.value, List.lookup_cons]

theorem value_put_other (db : DB) {key k : Bytes} (hne : k ≠ key) (v : Bytes) (ls : List (List Bytes)) (a b c : Nat) :
    (DB.mk ls ((key, v) :: db.kv.filter (·.1 != key)) a b c).value k = db.value k := by
  simp only [DB.value]
  rw [lookup_put]; simp [hne]

theorem pair_put_other (db : DB) {key : Bytes} (v : Bytes) (ls : List (List Bytes)) (a b c : Nat)
    (l : List Bytes) (hl : ∀ x ∈ l, x ≠ key) :
    l.map (DB.mk ls ((key, v) :: db.kv.filter (·.1 != key)) a b c).pair = l.map db.pair := by
  apply List.map_congr_left
  intro x hx
  simp only [DB.pair]
  rw [value_put_other db (hl x hx)]

section
variable (hc : LawfulCmp cmp)
include hc

theorem put_new {db : DB} (h : Inv cmp db) {key : Bytes} (hk : key ∉ db.level0) (v : Bytes) (ht : Nat) :
    put cmp db key v ht =
      { levels := linkIdeal cmp key ht db.levels
        kv := (key, v) :: db.kv.filter (·.1 != key)
        n := db.n + 1
        kvSize := db.kvSize + key.length + v.length
        used := db.used + key.length + v.length } := by
  unfold put
  rw [findGE_prev hc h key]
  simp only [hk, decide_false]
  rw [linkLevels_eq hc key ht db.levels h.sorted]

theorem put_old {db : DB} (h : Inv cmp db) {key : Bytes} (hk : key ∈ db.level0) (v : Bytes) (ht : Nat) :
    put cmp db key v ht =
      { db with
        kv := (key, v) :: db.kv.filter (·.1 != key)
        kvSize := db.kvSize + v.length - (db.value key).length
        used := db.used + key.length + v.length } := by
  unfold put
  rw [findGE_prev hc h key]
  simp only [hk, decide_true, succ_of_mem hc h.sorted0 hk]

theorem key_not_in_levels {db : DB} (h : Inv cmp db) {key : Bytes} (hk : key ∉ db.level0) :
    ∀ l ∈ db.levels, key ∉ l := by
  intro l hl hmem
  apply hk
  have hT := h.topT
  rw [level0_eq]
  -- every level is contained in the bottom one
  have hb := bottom_mem h.topNe
  have hl' : l ∈ db.levels.reverse := List.mem_reverse.2 hl
  -- use pairwise on the reversed list: either l is the bottom or it precedes it
  have : ∀ (T : List (List Bytes)), T.Pairwise (fun hi lo => ∀ x ∈ hi, x ∈ lo) → T ≠ [] → ∀ l ∈ T, ∀ x ∈ l, x ∈ bottom T := by
    intro T
    induction T with
    | nil => intro _ hne; exact absurd rfl hne
    | cons a T ih =>
      intro hP _ l hl x hx
      have hP' := List.pairwise_cons.1 hP
      cases T with
      | nil => simp at hl; subst hl; simpa [bottom_single] using hx
      | cons b T =>
        rw [bottom_cons_cons]
        simp only [List.mem_cons] at hl
        rcases hl with rfl | hl
        · exact hP'.1 _ (bottom_mem (by simp)) x hx
        · exact ih hP'.2 (by simp) l (by simpa using hl) x hx
  exact this _ hT h.topNe l hl' key hmem

theorem level0_put_new {db : DB} {key : Bytes} {ht : Nat} (hpos : 1 ≤ ht) :
    (linkIdeal cmp key ht db.levels).headD [] = ins cmp key db.level0 := by
  obtain ⟨h', rfl⟩ : ∃ h', ht = h' + 1 := ⟨ht - 1, by omega⟩
  exact linkIdeal_head hc key h' db.levels

/-- abstract effect of `Put` of a new key -/
theorem abs_put_new {db : DB} (h : Inv cmp db) {key : Bytes} (hk : key ∉ db.level0) (v : Bytes) {ht : Nat}
    (hpos : 1 ≤ ht) :
    (put cmp db key v ht).abs =
      (db.level0.takeWhile (below cmp key)).map db.pair ++ (key, v) :: (db.level0.dropWhile (below cmp key)).map db.pair := by
  rw [put_new hc h hk, abs_eq]
  simp only [level0_mk]
  rw [level0_put_new hc hpos]
  simp only [ins, List.map_append, List.map_cons]
  rw [pair_put_other, pair_put_other]
  · simp [DB.pair, DB.value, List.lookup_cons]
  · intro x hx e; exact hk (e ▸ (List.dropWhile_sublist _).subset hx)
  · intro x hx; exact hc.ne_of_lt (below_of_mem_takeWhile key x hx)

theorem abs_put_old {db : DB} (h : Inv cmp db) {key : Bytes} {pre post : List Bytes}
    (s : SplitMem cmp db key pre post) (v : Bytes) (ht : Nat) :
    (put cmp db key v ht).abs = pre.map db.pair ++ (key, v) :: post.map db.pair := by
  have hk : key ∈ db.level0 := by rw [s.l0]; simp
  rw [put_old hc h hk, abs_eq]
  simp only [level0_mk]
  show List.map _ db.level0 = _
  rw [s.l0]
  simp only [List.map_append, List.map_cons]
  rw [pair_put_other, pair_put_other]
  · simp [DB.pair, DB.value, List.lookup_cons]
  · intro x hx; exact (hc.ne_of_lt (s.gt x hx)).symm
  · intro x hx; exact hc.ne_of_lt (s.lt x hx)

theorem put_abs {db : DB} (h : Inv cmp db) (key v : Bytes) {ht : Nat} (hpos : 1 ≤ ht) :
    (put cmp db key v ht).abs = SMap.insert cmp key v db.abs := by
  by_cases hk : key ∈ db.level0
  · obtain ⟨pre, post, s⟩ := splitMem hc h hk
    obtain ⟨e, hA, hB⟩ := s.abs hc
    rw [abs_put_old hc h s, e, SMap.insert_split_mem hc v _ hA hB]
  · obtain ⟨e, hA, hB⟩ := abs_split_new hc h hk
    rw [abs_put_new hc h hk v hpos, e, SMap.insert_split hc v hA hB]

theorem put_inv {db : DB} (h : Inv cmp db) (key v : Bytes) {ht : Nat} (hpos : 1 ≤ ht) (hle : ht ≤ Gen.tMaxHeight) :
    Inv cmp (put cmp db key v ht) := by
  by_cases hk : key ∈ db.level0
  · -- overwrite in place
    obtain ⟨pre, post, s⟩ := splitMem hc h hk
    have habs := abs_put_old hc h s v ht
    obtain ⟨e, _, _⟩ := s.abs hc
    rw [put_old hc h hk] at habs ⊢
    refine ⟨h.ne, h.height, h.sorted, h.towers, ?_, h.len, ?_⟩
    · intro k
      show k ∈ db.level0 ↔ _
      simp only []
      rw [lookup_put]
      by_cases hkk : k = key
      · subst hkk; simp [hk]
      · simp [hkk, h.dom k]
    · show db.kvSize + v.length - (db.value key).length = _
      rw [habs, h.size, e]
      simp only [SMap.size_append, SMap.size_cons]
      omega
  · -- a new node
    have habs := abs_put_new hc h hk v hpos
    obtain ⟨e, _, _⟩ := abs_split_new hc h hk
    have hK := key_not_in_levels hc h hk
    rw [put_new hc h hk] at habs ⊢
    have hsub : (linkIdeal cmp key ht db.levels).Pairwise (fun lo hi => ∀ x ∈ hi, x ∈ lo) :=
      linkIdeal_towers hc key ht db.levels h.towersSub
    have hsorted := linkIdeal_sorted hc key ht db.levels h.sorted hK
    refine ⟨?_, ?_, hsorted, ?_, ?_, ?_, ?_⟩
    · intro e0
      have := linkIdeal_length hc key ht db.levels
      simp only [] at e0
      rw [e0] at this
      simp at this; omega
    · show (linkIdeal cmp key ht db.levels).length ≤ _
      rw [linkIdeal_length hc]
      exact Nat.max_le.2 ⟨hle, h.height⟩
    · show (linkIdeal cmp key ht db.levels).Pairwise _
      -- containment of strictly sorted lists is being a sublist
      have : ∀ (ls : List (List Bytes)), (∀ l ∈ ls, Sorted cmp l) →
          ls.Pairwise (fun lo hi => ∀ x ∈ hi, x ∈ lo) → ls.Pairwise (fun lo hi => hi.Sublist lo) := by
        intro ls
        induction ls with
        | nil => intro _ _; exact List.Pairwise.nil
        | cons a ls ih =>
          intro hS hP
          have hP' := List.pairwise_cons.1 hP
          refine List.pairwise_cons.2 ⟨?_, ih (fun l hl => hS l (by simp [hl])) hP'.2⟩
          intro b hb
          exact sublist_of_subset_sorted hc a b (hS b (by simp [hb])) (hS a (by simp)) (hP'.1 b hb)
      exact this _ hsorted hsub
    · intro k
      show k ∈ (linkIdeal cmp key ht db.levels).headD [] ↔ _
      rw [level0_put_new hc hpos, mem_ins hc]
      simp only []
      rw [lookup_put]
      by_cases hkk : k = key
      · subst hkk; simp
      · simp [hkk, h.dom k]
    · show db.n + 1 = ((linkIdeal cmp key ht db.levels).headD []).length
      rw [level0_put_new hc hpos, ins_length hc, h.len]
    · show db.kvSize + key.length + v.length = _
      rw [habs, h.size, e]
      simp only [SMap.size_append, SMap.size_cons]
      omega

end

end GoLevel.MemDB
