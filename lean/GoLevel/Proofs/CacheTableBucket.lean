import GoLevel.Proofs.CacheTableStep
/-! Hash table of the cache (C17), part 6: `mBucket.get` and `mBucket.delete` on the initialised bucket that
`Cache.getBucket` returned. -/
namespace GoLevel.CacheT

/-- Any head that differs from `h` in bucket `i` (and counters) only, then possibly a resize. -/
theorem finish_ok {hashfn : Nat → Nat → Nat} {t : Table} {h : Head} {ps : List Head} {i : Nat}
    (hwf : TWF hashfn t) (hh : t.heads = h :: ps) (hi : i < h.buckets.length)
    (hst : (h.bucket i).state = .init) {b' : Bucket} (hst' : b'.state = .init)
    (hok : BucketOK hashfn h.buckets.length i b'.nodes) {h2 : Head} (hm : h2.mask = h.mask)
    (hb : h2.buckets = h.buckets.set i b') (t1 : Table) (hbug : t1.bug = false) :
    (TWF hashfn { t1 with heads := h2 :: ps } ∧
      ∀ x, Mem { t1 with heads := h2 :: ps } x ↔
        (x ∈ b'.nodes ∨ (Mem t x ∧ x.hash % h.buckets.length ≠ i))) ∧
    ∀ n g, (n = 2 * h.buckets.length ∨ h.buckets.length = 2 * n) →
      TWF hashfn (resize t1 h2 ps n g) ∧
      (∀ x, Mem (resize t1 h2 ps n g) x ↔ (x ∈ b'.nodes ∨ (Mem t x ∧ x.hash % h.buckets.length ≠ i))) ∧
      (resize t1 h2 ps n g).statNodes = t1.statNodes ∧ (resize t1 h2 ps n g).nextId = t1.nextId := by
  have hw := hwf.chain
  rw [hh] at hw
  obtain ⟨hw2, hnf2, hl2, hmem2⟩ := upd_chain_ok hw (hwf.nf h ps hh) hi hst hm hb hst' hok
  have hmemt : ∀ x, Mem t x ↔ MemC (h :: ps) x := fun x => by unfold Mem; rw [hh]
  refine ⟨⟨⟨hw2, ?_, hbug⟩, fun x => ?_⟩, fun n g hn => ?_⟩
  · intro h3 ps3 heq j
    simp only [List.cons.injEq] at heq
    rw [← heq.1]; exact hnf2 j
  · have : Mem { t1 with heads := h2 :: ps } x ↔ MemC (h2 :: ps) x := Iff.rfl
    rw [this, hmem2 x, hmemt]
  · obtain ⟨r1, r2, r3, r4⟩ := resize_ok (t := t1) (g := g) hw2 hnf2 hbug (n := n) (by rw [hl2]; exact hn)
    refine ⟨r1, fun x => ?_, r3, r4⟩
    rw [r2 x, hmem2 x, hmemt]

@[simp] theorem bumpOverflow_mask (h : Head) (c : Bool) (d : Int) : (bumpOverflow h c d).mask = h.mask := by
  unfold bumpOverflow; split <;> rfl

@[simp] theorem bumpOverflow_buckets (h : Head) (c : Bool) (d : Int) :
    (bumpOverflow h c d).buckets = h.buckets := by
  unfold bumpOverflow; split <;> rfl

/-- `mInitialSize` is at least one (a table that may shrink has at least two buckets). -/
theorem mInitialSize_pos : 1 ≤ Gen.mInitialSize := by decide

theorem insertNode_cases (t : Table) (h : Head) (ps : List Head) (i : Nat) (b : Bucket) (j : Nat) (n : TNode) :
    let h2 := bumpOverflow (h.setBucket i { nodes := insertAt b.nodes j n, state := b.state })
      (decide ((insertAt b.nodes j n).length > Gen.mOverflowThreshold) &&
        !decide (t.statNodes + 1 ≥ h.growThreshold)) 1
    let t1 : Table := { t with statNodes := t.statNodes + 1, nextId := t.nextId + 1 }
    insertNode t h ps i b j n = resize t1 h2 ps (h.buckets.length * 2) true ∨
    insertNode t h ps i b j n = { t1 with heads := h2 :: ps } := by
  intro h2 t1
  unfold insertNode
  simp only []
  by_cases hc : (if (decide ((insertAt b.nodes j n).length > Gen.mOverflowThreshold) &&
        !decide (t.statNodes + 1 ≥ h.growThreshold)) = true then
      decide (h2.overflow ≥ (Gen.mOverflowGrowThreshold : Int)) else decide (t.statNodes + 1 ≥ h.growThreshold)) = true
  · left; rw [if_pos hc]
  · right; rw [if_neg hc]

theorem removeNode_cases (t : Table) (h : Head) (ps : List Head) (i : Nat) (b : Bucket) (j : Nat) :
    let h2 := bumpOverflow (h.setBucket i { nodes := b.nodes.take j ++ b.nodes.drop (j + 1), state := b.state })
      (decide ((b.nodes.take j ++ b.nodes.drop (j + 1)).length ≥ Gen.mOverflowThreshold)) (-1)
    let t1 : Table := { t with statNodes := t.statNodes - 1 }
    (removeNode t h ps i b j = resize t1 h2 ps (h.buckets.length / 2) false ∧
      h.buckets.length > Gen.mInitialSize) ∨
    removeNode t h ps i b j = { t1 with heads := h2 :: ps } := by
  intro h2 t1
  unfold removeNode
  simp only []
  by_cases hc : decide (t.statNodes - 1 < h.shrinkThreshold) = true ∧ h.buckets.length > Gen.mInitialSize
  · left; rw [if_pos hc]; exact ⟨rfl, hc.2⟩
  · right; rw [if_neg hc]

theorem insertNode_ok {hashfn : Nat → Nat → Nat} {t : Table} {h : Head} {ps : List Head} {i : Nat}
    (hwf : TWF hashfn t) (hh : t.heads = h :: ps) (hi : i < h.buckets.length)
    (hst : (h.bucket i).state = .init) {n : TNode} (hnh : n.hash = hashfn n.ns n.key)
    (hni : n.hash % h.buckets.length = i) (hnew : ∀ y, Mem t y → keyEq n.ns n.key y = false) :
    TWF hashfn (insertNode t h ps i (h.bucket i) (search (h.bucket i).nodes n.ns n.key) n) ∧
    (∀ x, Mem (insertNode t h ps i (h.bucket i) (search (h.bucket i).nodes n.ns n.key) n) x ↔ (x = n ∨ Mem t x)) ∧
    (insertNode t h ps i (h.bucket i) (search (h.bucket i).nodes n.ns n.key) n).statNodes = t.statNodes + 1 ∧
    (insertNode t h ps i (h.bucket i) (search (h.bucket i).nodes n.ns n.key) n).nextId = t.nextId + 1 := by
  have hw := hwf.chain
  rw [hh] at hw
  have hbok := hw.2.1 i hi (by rw [hst]; simp)
  have hv : vnodes (h :: ps) i = (h.bucket i).nodes := vnodes_init hi (by rw [hst]; simp)
  have hbmem : ∀ y, y ∈ (h.bucket i).nodes → Mem t y := by
    intro y hy
    unfold Mem; rw [hh]
    exact memC_cons.mpr ⟨i, hi, by rw [hv]; exact hy⟩
  have hj := (search_spec hbok.1 n.ns n.key).1
  have hins := insertAt_eq (h.bucket i).nodes _ n hj
  -- the new content of the bucket
  have hok' : BucketOK hashfn h.buckets.length i
      (insertAt (h.bucket i).nodes (search (h.bucket i).nodes n.ns n.key) n) := by
    rw [hins]
    refine ⟨sorted_insert hbok.1 n (fun y hy hk => ?_), fun x hx => ?_⟩
    · have := hnew y (hbmem y hy)
      simp [keyEq, hk.1, hk.2] at this
    · rcases mem_insert.mp hx with rfl | hx
      · exact ⟨hnh, hni⟩
      · exact hbok.2 x hx
  have hmem' : ∀ x, (x ∈ insertAt (h.bucket i).nodes (search (h.bucket i).nodes n.ns n.key) n ∨
      (Mem t x ∧ x.hash % h.buckets.length ≠ i)) ↔ (x = n ∨ Mem t x) := by
    intro x
    rw [hins, mem_insert]
    constructor
    · rintro ((h1 | h1) | h1)
      · exact Or.inl h1
      · exact Or.inr (hbmem x h1)
      · exact Or.inr h1.1
    · rintro (h1 | h1)
      · exact Or.inl (Or.inl h1)
      · by_cases hx : x.hash % h.buckets.length = i
        · left; right
          unfold Mem at h1; rw [hh] at h1
          obtain ⟨j, hj, hxj⟩ := memC_cons.mp h1
          have := memC_bucket hw hj hxj
          rw [this.2] at hx; subst hx
          rw [hv] at hxj; exact hxj
        · exact Or.inr ⟨h1, hx⟩
  have hfin := finish_ok (h2 := bumpOverflow (h.setBucket i
      { nodes := insertAt (h.bucket i).nodes (search (h.bucket i).nodes n.ns n.key) n,
        state := (h.bucket i).state })
      (decide ((insertAt (h.bucket i).nodes (search (h.bucket i).nodes n.ns n.key) n).length >
        Gen.mOverflowThreshold) && !decide (t.statNodes + 1 ≥ h.growThreshold)) 1)
    hwf hh hi hst
    (b' := { nodes := insertAt (h.bucket i).nodes (search (h.bucket i).nodes n.ns n.key) n,
             state := (h.bucket i).state }) hst hok' (by simp) (by simp [Head.setBucket])
    { t with statNodes := t.statNodes + 1, nextId := t.nextId + 1 } hwf.bug
  rcases insertNode_cases t h ps i (h.bucket i) (search (h.bucket i).nodes n.ns n.key) n with hc | hc
  · rw [hc]
    obtain ⟨r1, r2, r3, r4⟩ := hfin.2 (h.buckets.length * 2) true (Or.inl (by omega))
    exact ⟨r1, fun x => (r2 x).trans (hmem' x), r3, r4⟩
  · rw [hc]
    obtain ⟨r1, r2⟩ := hfin.1
    exact ⟨r1, fun x => (r2 x).trans (hmem' x), rfl, rfl⟩

theorem removeNode_ok {hashfn : Nat → Nat → Nat} {t : Table} {h : Head} {ps : List Head} {i : Nat}
    (hwf : TWF hashfn t) (hh : t.heads = h :: ps) (hi : i < h.buckets.length)
    (hst : (h.bucket i).state = .init) {j : Nat} {n : TNode} (hj : (h.bucket i).nodes[j]? = some n) :
    TWF hashfn (removeNode t h ps i (h.bucket i) j) ∧
    (∀ x, Mem (removeNode t h ps i (h.bucket i) j) x ↔ (Mem t x ∧ x ≠ n)) ∧
    (removeNode t h ps i (h.bucket i) j).statNodes = t.statNodes - 1 ∧
    (removeNode t h ps i (h.bucket i) j).nextId = t.nextId := by
  have hw := hwf.chain
  rw [hh] at hw
  have hbok := hw.2.1 i hi (by rw [hst]; simp)
  have hv : vnodes (h :: ps) i = (h.bucket i).nodes := vnodes_init hi (by rw [hst]; simp)
  have hnb : n ∈ (h.bucket i).nodes := List.mem_iff_getElem?.mpr ⟨j, hj⟩
  have hok' : BucketOK hashfn h.buckets.length i
      ((h.bucket i).nodes.take j ++ (h.bucket i).nodes.drop (j + 1)) :=
    ⟨sorted_remove hbok.1 j, fun x hx => hbok.2 x ((mem_remove hbok.1 hj).mp hx).1⟩
  have hmem' : ∀ x, (x ∈ (h.bucket i).nodes.take j ++ (h.bucket i).nodes.drop (j + 1) ∨
      (Mem t x ∧ x.hash % h.buckets.length ≠ i)) ↔ (Mem t x ∧ x ≠ n) := by
    intro x
    rw [mem_remove hbok.1 hj]
    constructor
    · rintro (h1 | h1)
      · refine ⟨?_, h1.2⟩
        unfold Mem; rw [hh]
        exact memC_cons.mpr ⟨i, hi, by rw [hv]; exact h1.1⟩
      · refine ⟨h1.1, fun hxn => ?_⟩
        subst hxn
        exact h1.2 (hbok.2 x hnb).2
    · rintro ⟨h1, h2⟩
      by_cases hx : x.hash % h.buckets.length = i
      · left
        unfold Mem at h1; rw [hh] at h1
        obtain ⟨j', hj', hxj⟩ := memC_cons.mp h1
        have := memC_bucket hw hj' hxj
        rw [this.2] at hx; subst hx
        rw [hv] at hxj; exact ⟨hxj, h2⟩
      · exact Or.inr ⟨h1, hx⟩
  have hfin := finish_ok (h2 := bumpOverflow (h.setBucket i
      { nodes := (h.bucket i).nodes.take j ++ (h.bucket i).nodes.drop (j + 1),
        state := (h.bucket i).state })
      (decide (((h.bucket i).nodes.take j ++ (h.bucket i).nodes.drop (j + 1)).length ≥
        Gen.mOverflowThreshold)) (-1))
    hwf hh hi hst
    (b' := { nodes := (h.bucket i).nodes.take j ++ (h.bucket i).nodes.drop (j + 1),
             state := (h.bucket i).state }) hst hok' (by simp) (by simp [Head.setBucket])
    { t with statNodes := t.statNodes - 1 } hwf.bug
  rcases removeNode_cases t h ps i (h.bucket i) j with ⟨hc, hgt⟩ | hc
  · rw [hc]
    have hlen : h.buckets.length = 2 * (h.buckets.length / 2) := by
      obtain ⟨k, h1, _⟩ := hw.headOK
      have := mInitialSize_pos
      cases k with
      | zero => simp at h1; omega
      | succ k => rw [h1, Nat.pow_succ]; omega
    obtain ⟨r1, r2, r3, r4⟩ := hfin.2 (h.buckets.length / 2) false (Or.inr hlen)
    exact ⟨r1, fun x => (r2 x).trans (hmem' x), r3, r4⟩
  · rw [hc]
    obtain ⟨r1, r2⟩ := hfin.1
    exact ⟨r1, fun x => (r2 x).trans (hmem' x), rfl, rfl⟩

theorem bucketGet_ok {hashfn : Nat → Nat → Nat} {t : Table} {h : Head} {ps : List Head} {i ns key : Nat}
    {getOnly : Bool} (hwf : TWF hashfn t) (hh : t.heads = h :: ps) (hi : i < h.buckets.length)
    (hst : (h.bucket i).state = .init) (hidx : hashfn ns key % h.buckets.length = i) :
    (∀ n, Mem t n → keyEq ns key n = true → bucketGet t i (hashfn ns key) ns key getOnly = (t, .found n)) ∧
    ((∀ n, Mem t n → keyEq ns key n = false) →
      (getOnly = true → bucketGet t i (hashfn ns key) ns key getOnly = (t, .absent)) ∧
      (getOnly = false →
        (bucketGet t i (hashfn ns key) ns key getOnly).2 =
          .created { ns := ns, key := key, hash := hashfn ns key, id := t.nextId } ∧
        TWF hashfn (bucketGet t i (hashfn ns key) ns key getOnly).1 ∧
        (∀ x, Mem (bucketGet t i (hashfn ns key) ns key getOnly).1 x ↔
          (x = { ns := ns, key := key, hash := hashfn ns key, id := t.nextId } ∨ Mem t x)) ∧
        (bucketGet t i (hashfn ns key) ns key getOnly).1.statNodes = t.statNodes + 1 ∧
        (bucketGet t i (hashfn ns key) ns key getOnly).1.nextId = t.nextId + 1)) := by
  have hw := hwf.chain
  rw [hh] at hw
  have hbok := hw.2.1 i hi (by rw [hst]; simp)
  have hv : vnodes (h :: ps) i = (h.bucket i).nodes := vnodes_init hi (by rw [hst]; simp)
  have hmemb : ∀ n, Mem t n → keyEq ns key n = true → n ∈ (h.bucket i).nodes := by
    intro n hn hk
    unfold Mem at hn; rw [hh] at hn
    have := mem_key_bucket hw hn hk
    rw [hidx, hv] at this; exact this
  have hbmem : ∀ n, n ∈ (h.bucket i).nodes → Mem t n := by
    intro n hn
    unfold Mem; rw [hh]
    exact memC_cons.mpr ⟨i, hi, by rw [hv]; exact hn⟩
  constructor
  · intro n hn hk
    have hhit := (hit_some_iff hbok.1 ns key n).mpr ⟨hmemb n hn hk, hk⟩
    simp only [bucketGet, hh, hst, hhit]
  · intro hnone
    have hhit := (hit_none_iff hbok.1 ns key).mpr (fun n hn => hnone n (hbmem n hn))
    constructor
    · intro hg
      simp only [bucketGet, hh, hst, hhit, hg, if_true]
    · intro hg
      simp only [bucketGet, hh, hst, hhit, hg]
      have := insertNode_ok (n := { ns := ns, key := key, hash := hashfn ns key, id := t.nextId })
        hwf hh hi hst rfl hidx hnone
      exact ⟨by simp, this⟩

theorem bucketDelete_ok {hashfn : Nat → Nat → Nat} {t : Table} {h : Head} {ps : List Head} {i ns key : Nat}
    (hwf : TWF hashfn t) (hh : t.heads = h :: ps) (hi : i < h.buckets.length)
    (hst : (h.bucket i).state = .init) (hidx : hashfn ns key % h.buckets.length = i) :
    (∀ n, Mem t n → keyEq ns key n = true →
      bucketDelete t i ns key false = (t, some false) ∧
      (bucketDelete t i ns key true).2 = some true ∧ TWF hashfn (bucketDelete t i ns key true).1 ∧
      (∀ x, Mem (bucketDelete t i ns key true).1 x ↔ (Mem t x ∧ x ≠ n)) ∧
      (bucketDelete t i ns key true).1.statNodes = t.statNodes - 1 ∧
      (bucketDelete t i ns key true).1.nextId = t.nextId) ∧
    ((∀ n, Mem t n → keyEq ns key n = false) → ∀ refZero, bucketDelete t i ns key refZero = (t, some false)) := by
  have hw := hwf.chain
  rw [hh] at hw
  have hbok := hw.2.1 i hi (by rw [hst]; simp)
  have hv : vnodes (h :: ps) i = (h.bucket i).nodes := vnodes_init hi (by rw [hst]; simp)
  have hmemb : ∀ n, Mem t n → keyEq ns key n = true → n ∈ (h.bucket i).nodes := by
    intro n hn hk
    unfold Mem at hn; rw [hh] at hn
    have := mem_key_bucket hw hn hk
    rw [hidx, hv] at this; exact this
  have hbmem : ∀ n, n ∈ (h.bucket i).nodes → Mem t n := by
    intro n hn
    unfold Mem; rw [hh]
    exact memC_cons.mpr ⟨i, hi, by rw [hv]; exact hn⟩
  constructor
  · intro n hn hk
    have hhit := (hit_some_iff hbok.1 ns key n).mpr ⟨hmemb n hn hk, hk⟩
    have hj := ((search_hit_iff hbok.1 ns key n).mpr ⟨hmemb n hn hk, hk⟩).1
    refine ⟨by simp [bucketDelete, hh, hst, hhit], ?_⟩
    simp only [bucketDelete, hh, hst, hhit, if_true]
    exact ⟨trivial, removeNode_ok hwf hh hi hst hj⟩
  · intro hnone refZero
    have hhit := (hit_none_iff hbok.1 ns key).mpr (fun n hn => hnone n (hbmem n hn))
    simp only [bucketDelete, hh, hst, hhit]

end GoLevel.CacheT
