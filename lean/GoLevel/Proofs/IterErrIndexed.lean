import GoLevel.Proofs.IterErrBasic
import GoLevel.Proofs.IterDB
/-!
# The strict `EIndexed` over failing blocks is a `FailSim` (C02 / C08)

Twin: the error-free `IndexedIter` over the same blocks (`EIndexed.proj`).  While `Error()` is nil the data
iterator is healthy and every method did what the error-free one does; a data iterator that fails sets
`i.err` in the same call (`dataErr`, strict).  Core Lean only.
-/
namespace GoLevel
namespace EIndexed

def toIdx (ch : EIdxChild) : IdxChild := ⟨ch.sep, ch.es⟩

/-- the twin state -/
def proj (x : EIndexed) : IndexedIter := ⟨x.children.map toIdx, x.ipos, x.data.map (·.inner)⟩

/-- healthy: no error, strict, the data iterator (if any) has not failed -/
def Healthy (x : EIndexed) : Prop := x.err = none ∧ x.strict = true ∧ ∀ a, x.data = some a → a.err = none

theorem proj_indexOk (x : EIndexed) : (proj x).indexOk = x.indexOk := by
  simp [proj, IndexedIter.indexOk, indexOk, Cursor.get_map]

theorem proj_setData (x : EIndexed) : proj x.setData = (proj x).setData := by
  simp only [proj, setData, IndexedIter.setData, Cursor.get_map, Option.map_map]
  congr 1

theorem proj_clearData (x : EIndexed) : proj x.clearData = (proj x).clearData := rfl

theorem healthy_setData (x : EIndexed) (h : Healthy x) : Healthy x.setData := by
  refine ⟨h.1, h.2.1, ?_⟩
  intro a ha
  simp only [setData] at ha
  cases hg : Cursor.get x.children x.ipos with
  | none => rw [hg] at ha; cases ha
  | some ch => rw [hg] at ha; cases ha; rfl

theorem healthy_clearData (x : EIndexed) (h : Healthy x) : Healthy x.clearData :=
  ⟨h.1, h.2.1, fun a ha => by cases ha⟩

theorem healthy_ipos (x : EIndexed) (p : Pos) (h : Healthy x) : Healthy { x with ipos := p } := h

theorem proj_ipos (x : EIndexed) (p : Pos) : proj { x with ipos := p } = { proj x with ipos := p } := rfl

/-- one movement of a healthy data iterator inside a strict indexed iterator: either it is the inner
movement, or `dataErr` stops the method -/
theorem data_move (c : UCmp) (cl : Call IKey) (x : EIndexed) (a : FailChild ArrIter) (hx : Healthy x)
    (ha : a.err = none) :
    let a' := (dops c).toIterOps.step cl a
    (a'.err = none ∧ a'.inner = (ArrIter.ops c).step cl a.inner ∧
      (dops c).ok a' = (ArrIter.ops c).ok ((ArrIter.ops c).step cl a.inner) ∧
      dataErr { x with data := some a' } = ({ x with data := some a' }, false)) ∨
    ((dops c).ok a' = false ∧ (dataErr { x with data := some a' }).2 = true ∧
      (dataErr { x with data := some a' }).1.err ≠ none) := by
  intro a'
  have hfs := FailChild.failSim (ArrIter.ops c)
  rcases Option.eq_none_or_eq_some a'.err with he | ⟨e, he⟩
  · obtain ⟨h1, h2⟩ := hfs.hstep a cl ha he
    refine .inl ⟨he, h2, ?_, ?_⟩
    · rw [hfs.hok _ h1, h2]
    · simp [dataErr, he]
  · have hm : (dops c).cur a' = none := hfs.masked a' e he
    refine .inr ⟨?_, ?_, ?_⟩
    · simp [IterOps.ok, hm]
    · simp [dataErr, he, hx.2.1]
    · simp [dataErr, he, hx.2.1]

/-- `advance` of `nextF` / `IndexedIter.nextF` as functions of their own -/
def advN (c : UCmp) (n : Nat) (y : EIndexed) : EIndexed :=
  let y1 : EIndexed := { y with ipos := Cursor.next y.children y.ipos }
  if !y1.indexOk then y1 else nextF c n y1.setData

def advN' (c : UCmp) (n : Nat) (z : IndexedIter) : IndexedIter :=
  let z1 : IndexedIter := { z with ipos := Cursor.next z.children z.ipos }
  if !z1.indexOk then z1 else IndexedIter.nextF c n z1.setData

theorem nextF_succ (c : UCmp) (n : Nat) (x : EIndexed) :
    nextF c (n + 1) x =
      match x.data with
      | some a =>
        if (dops c).ok ((dops c).next a) then { x with data := some ((dops c).next a) }
        else if (dataErr { x with data := some ((dops c).next a) }).2 then
          (dataErr { x with data := some ((dops c).next a) }).1
        else advN c n (dataErr { x with data := some ((dops c).next a) }).1.clearData
      | none => advN c n x := rfl

theorem nextF_succ' (c : UCmp) (n : Nat) (z : IndexedIter) :
    IndexedIter.nextF c (n + 1) z =
      match z.data with
      | some a =>
        if (ArrIter.ops c).ok ((ArrIter.ops c).next a) then { z with data := some ((ArrIter.ops c).next a) }
        else advN' c n z.clearData
      | none => advN' c n z := rfl

theorem nextF_couple (c : UCmp) (n : Nat) : ∀ x : EIndexed, Healthy x → (nextF c n x).err = none →
    Healthy (nextF c n x) ∧ proj (nextF c n x) = IndexedIter.nextF c n (proj x) := by
  induction n with
  | zero => intro x hx _; exact ⟨hx, rfl⟩
  | succ n ih =>
    intro x hx he
    have adv : ∀ y : EIndexed, Healthy y → (advN c n y).err = none →
        Healthy (advN c n y) ∧ proj (advN c n y) = advN' c n (proj y) := by
      intro y hy hey
      unfold advN at hey ⊢
      unfold advN'
      simp only at hey ⊢
      have hp : ({ proj y with ipos := Cursor.next (proj y).children (proj y).ipos } : IndexedIter) =
          proj { y with ipos := Cursor.next y.children y.ipos } := by
        simp [proj, Cursor.next_map]
      rw [hp, proj_indexOk]
      cases hk : ({ y with ipos := Cursor.next y.children y.ipos } : EIndexed).indexOk with
      | false => simp only [Bool.not_false, if_true]; exact ⟨hy, by first | rfl | trivial⟩
      | true =>
        simp only [hk, Bool.not_true, Bool.false_eq_true, if_false] at hey ⊢
        rw [← proj_setData]
        exact ih _ (healthy_setData _ hy) hey
    rw [nextF_succ] at he ⊢
    rw [nextF_succ']
    cases hd : x.data with
    | none =>
      have hpd : (proj x).data = none := by simp [proj, hd]
      simp only [hd] at he
      simp only [hpd]
      exact adv x hx he
    | some a =>
      have hpd : (proj x).data = some a.inner := by simp [proj, hd]
      simp only [hd] at he
      simp only [hpd]
      rcases data_move c .next x a hx (hx.2.2 a hd) with ⟨h1, h2, h3, h4⟩ | ⟨h1, h2, h3⟩
      · change (dops c).ok ((dops c).next a) = (ArrIter.ops c).ok ((ArrIter.ops c).next a.inner) at h3
        change ((dops c).next a).inner = (ArrIter.ops c).next a.inner at h2
        change ((dops c).next a).err = none at h1
        change dataErr { x with data := some ((dops c).next a) } = _ at h4
        rw [h3] at he ⊢
        cases hk : (ArrIter.ops c).ok ((ArrIter.ops c).next a.inner) with
        | true =>
          simp only [if_true]
          refine ⟨⟨hx.1, hx.2.1, fun a0 ha0 => by cases ha0; exact h1⟩, ?_⟩
          simp [proj, h2]
        | false =>
          simp only [hk, Bool.false_eq_true, if_false, h4] at he ⊢
          have hy : Healthy ({ x with data := some ((dops c).next a) } : EIndexed).clearData :=
            healthy_clearData _ ⟨hx.1, hx.2.1, fun a0 ha0 => by cases ha0; exact h1⟩
          exact adv _ hy he
      · change (dops c).ok ((dops c).next a) = false at h1
        change (dataErr { x with data := some ((dops c).next a) }).2 = true at h2
        change (dataErr { x with data := some ((dops c).next a) }).1.err ≠ none at h3
        simp only [h1, Bool.false_eq_true, if_false, h2, if_true] at he
        exact absurd he h3

/-! ### `Prev` -/

/-- the part of `Prev` after `setData`: `if !i.data.Last() { if i.dataErr() { return false }; i.clearData();
return i.Prev() }; return true` (also the tail of `Last`) -/
def lastN (c : UCmp) (n : Nat) (y : EIndexed) : EIndexed :=
  match y.data with
  | some a =>
    if (dops c).ok ((dops c).last a) then { y with data := some ((dops c).last a) }
    else if (dataErr { y with data := some ((dops c).last a) }).2 then
      (dataErr { y with data := some ((dops c).last a) }).1
    else prevF c n (dataErr { y with data := some ((dops c).last a) }).1.clearData
  | none => y

def lastN' (c : UCmp) (n : Nat) (z : IndexedIter) : IndexedIter :=
  match z.data with
  | some a =>
    if (ArrIter.ops c).ok ((ArrIter.ops c).last a) then { z with data := some ((ArrIter.ops c).last a) }
    else IndexedIter.prevF c n z.clearData
  | none => z

def retN (c : UCmp) (n : Nat) (y : EIndexed) : EIndexed :=
  let y1 : EIndexed := { y with ipos := Cursor.prev y.children y.ipos }
  if !y1.indexOk then y1 else lastN c n y1.setData

def retN' (c : UCmp) (n : Nat) (z : IndexedIter) : IndexedIter :=
  let z1 : IndexedIter := { z with ipos := Cursor.prev z.children z.ipos }
  if !z1.indexOk then z1 else lastN' c n z1.setData

theorem prevF_succ (c : UCmp) (n : Nat) (x : EIndexed) :
    prevF c (n + 1) x =
      match x.data with
      | some a =>
        if (dops c).ok ((dops c).prev a) then { x with data := some ((dops c).prev a) }
        else if (dataErr { x with data := some ((dops c).prev a) }).2 then
          (dataErr { x with data := some ((dops c).prev a) }).1
        else retN c n (dataErr { x with data := some ((dops c).prev a) }).1.clearData
      | none => retN c n x := rfl

theorem prevF_succ' (c : UCmp) (n : Nat) (z : IndexedIter) :
    IndexedIter.prevF c (n + 1) z =
      match z.data with
      | some a =>
        if (ArrIter.ops c).ok ((ArrIter.ops c).prev a) then { z with data := some ((ArrIter.ops c).prev a) }
        else retN' c n z.clearData
      | none => retN' c n z := rfl

/-- the common shape of "move the data iterator with `cl`; on `false` consult `dataErr`, clear and go on
with `k`" -/
theorem data_step (c : UCmp) (cl : Call IKey) (x : EIndexed) (a : FailChild ArrIter) (hx : Healthy x)
    (hd : x.data = some a) (k : EIndexed → EIndexed) (k' : IndexedIter → IndexedIter)
    (hk : ∀ y : EIndexed, Healthy y → (k y).err = none → Healthy (k y) ∧ proj (k y) = k' (proj y))
    (he : (if (dops c).ok ((dops c).toIterOps.step cl a) then
          ({ x with data := some ((dops c).toIterOps.step cl a) } : EIndexed)
        else if (dataErr { x with data := some ((dops c).toIterOps.step cl a) }).2 then
          (dataErr { x with data := some ((dops c).toIterOps.step cl a) }).1
        else k (dataErr { x with data := some ((dops c).toIterOps.step cl a) }).1.clearData).err = none) :
    Healthy (if (dops c).ok ((dops c).toIterOps.step cl a) then
          ({ x with data := some ((dops c).toIterOps.step cl a) } : EIndexed)
        else if (dataErr { x with data := some ((dops c).toIterOps.step cl a) }).2 then
          (dataErr { x with data := some ((dops c).toIterOps.step cl a) }).1
        else k (dataErr { x with data := some ((dops c).toIterOps.step cl a) }).1.clearData) ∧
    proj (if (dops c).ok ((dops c).toIterOps.step cl a) then
          ({ x with data := some ((dops c).toIterOps.step cl a) } : EIndexed)
        else if (dataErr { x with data := some ((dops c).toIterOps.step cl a) }).2 then
          (dataErr { x with data := some ((dops c).toIterOps.step cl a) }).1
        else k (dataErr { x with data := some ((dops c).toIterOps.step cl a) }).1.clearData) =
      (if (ArrIter.ops c).ok ((ArrIter.ops c).step cl a.inner) then
          ({ proj x with data := some ((ArrIter.ops c).step cl a.inner) } : IndexedIter)
        else k' (proj x).clearData) := by
  rcases data_move c cl x a hx (hx.2.2 a hd) with ⟨h1, h2, h3, h4⟩ | ⟨h1, h2, h3⟩
  · try simp only at h1 h2 h3 h4
    rw [h3] at he ⊢
    cases hok : (ArrIter.ops c).ok ((ArrIter.ops c).step cl a.inner) with
    | true =>
      simp only [if_true]
      refine ⟨⟨hx.1, hx.2.1, fun a0 ha0 => by cases ha0; exact h1⟩, ?_⟩
      simp [proj, h2]
    | false =>
      simp only [hok, Bool.false_eq_true, if_false, h4] at he ⊢
      have hy : Healthy ({ x with data := some ((dops c).toIterOps.step cl a) } : EIndexed).clearData :=
        healthy_clearData _ ⟨hx.1, hx.2.1, fun a0 ha0 => by cases ha0; exact h1⟩
      exact hk _ hy he
  · try simp only at h1 h2 h3
    simp only [h1, Bool.false_eq_true, if_false, h2, if_true] at he
    exact absurd he h3

theorem prevF_couple (c : UCmp) (n : Nat) : ∀ x : EIndexed, Healthy x → (prevF c n x).err = none →
    Healthy (prevF c n x) ∧ proj (prevF c n x) = IndexedIter.prevF c n (proj x) := by
  induction n with
  | zero => intro x hx _; exact ⟨hx, rfl⟩
  | succ n ih =>
    intro x hx he
    have hlast : ∀ y : EIndexed, Healthy y → (lastN c n y).err = none →
        Healthy (lastN c n y) ∧ proj (lastN c n y) = lastN' c n (proj y) := by
      intro y hy hey
      unfold lastN at hey ⊢
      unfold lastN'
      cases hd : y.data with
      | none =>
        have hpd : (proj y).data = none := by simp [proj, hd]
        simp only [hpd]
        exact ⟨hy, by first | rfl | trivial⟩
      | some a =>
        have hpd : (proj y).data = some a.inner := by simp [proj, hd]
        simp only [hd] at hey
        simp only [hpd]
        exact data_step c .last y a hy hd (prevF c n) (IndexedIter.prevF c n) ih hey
    have ret : ∀ y : EIndexed, Healthy y → (retN c n y).err = none →
        Healthy (retN c n y) ∧ proj (retN c n y) = retN' c n (proj y) := by
      intro y hy hey
      unfold retN at hey ⊢
      unfold retN'
      simp only at hey ⊢
      have hp : ({ proj y with ipos := Cursor.prev (proj y).children (proj y).ipos } : IndexedIter) =
          proj { y with ipos := Cursor.prev y.children y.ipos } := by
        simp [proj, Cursor.prev_map]
      rw [hp, proj_indexOk]
      cases hk : ({ y with ipos := Cursor.prev y.children y.ipos } : EIndexed).indexOk with
      | false => simp only [Bool.not_false, if_true]; exact ⟨hy, by first | rfl | trivial⟩
      | true =>
        simp only [hk, Bool.not_true, Bool.false_eq_true, if_false] at hey ⊢
        rw [← proj_setData]
        exact hlast _ (healthy_setData _ hy) hey
    rw [prevF_succ] at he ⊢
    rw [prevF_succ']
    cases hd : x.data with
    | none =>
      have hpd : (proj x).data = none := by simp [proj, hd]
      simp only [hd] at he
      simp only [hpd]
      exact ret x hx he
    | some a =>
      have hpd : (proj x).data = some a.inner := by simp [proj, hd]
      simp only [hd] at he
      simp only [hpd]
      exact data_step c .prev x a hx hd (retN c n) (retN' c n) ret he

end EIndexed
end GoLevel
