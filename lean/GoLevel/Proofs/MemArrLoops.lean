import GoLevel.Proofs.MemArrBasic
/-! Pointwise specifications of the bounded loops of `Put`, `Delete` and `Reset` over `nodeData`/`prevNode`
(`clearLoop`, `linkLoop`, `unlinkLoop`, `resetLoop` of `Model/MemArr.lean`) — C14. -/
set_option linter.unusedSectionVars false
set_option linter.unusedSimpArgs false
set_option linter.unusedVariables false
namespace GoLevel.MemArr
open GoLevel.Gen (nKV nKey nVal nHeight nNext tMaxHeight)

/-- `for i := maxHeight; i < h; i++ { prevNode[i] = 0 }` -/
theorem clearLoop_spec : ∀ (c : Nat) (pn : List Nat) (i : Nat), i + c ≤ pn.length →
    ∃ pn', clearLoop pn i c = some pn' ∧ pn'.length = pn.length ∧
      ∀ j, pn'[j]? = if i ≤ j ∧ j < i + c then some 0 else pn[j]? := by
  intro c
  induction c with
  | zero => intro pn i _; exact ⟨pn, rfl, rfl, by intro j; simp; omega⟩
  | succ c ih =>
    intro pn i hle
    obtain ⟨pn', h1, h2, h3⟩ := ih (pn.set i 0) (i + 1) (by simp; omega)
    refine ⟨pn', ?_, by simpa using h2, ?_⟩
    · simp only [clearLoop, setAt_some 0 (show i < pn.length by omega), Option.bind_some, Option.bind_eq_bind]
      exact h1
    · intro j
      rw [h3 j]
      by_cases hj : j = i
      · subst hj
        have : ¬ (j + 1 ≤ j ∧ j < j + 1 + c) := by omega
        have h' : j ≤ j ∧ j < j + (c + 1) := by omega
        simp only [this, if_false]
        rw [List.getElem?_set_self (by omega), if_pos h']
      · rw [List.getElem?_set_ne (fun e => hj e.symm)]
        by_cases hr : i + 1 ≤ j ∧ j < i + 1 + c
        · have : i ≤ j ∧ j < i + (c + 1) := by omega
          simp [hr, this]
        · have : ¬ (i ≤ j ∧ j < i + (c + 1)) := by omega
          simp [hr, this]

/-- the linking loop of `Put`: every slot `ps[j]+nNext+(i+j)` ends up pointing to `node`, the new node's pointer `j`
(appended at `nd.size + j`) is the old content of that slot, everything else is unchanged -/
theorem linkLoop_spec (node : Nat) : ∀ (ps : List Nat) (i : Nat) (nd : Array Nat),
    (∀ j p, ps[j]? = some p → p + nNext + (i + j) < nd.size) →
    ∃ nd', linkLoop node ps i nd = some nd' ∧ nd'.size = nd.size + ps.length ∧
      (∀ x, x < nd.size → (∀ j p, ps[j]? = some p → x ≠ p + nNext + (i + j)) → nd'[x]? = nd[x]?) ∧
      (∀ j p, ps[j]? = some p → nd'[p + nNext + (i + j)]? = some node) ∧
      (∀ j p, ps[j]? = some p → (∀ j' p', j' < j → ps[j']? = some p' → p' + (i + j') ≠ p + (i + j)) →
        nd'[nd.size + j]? = nd[p + nNext + (i + j)]?) := by
  intro ps
  induction ps with
  | nil => intro i nd _; exact ⟨nd, rfl, by simp, fun _ _ _ => rfl, by simp, by simp⟩
  | cons n rest ih =>
    intro i nd hb
    have hm : n + nNext + i < nd.size := by simpa using hb 0 n (by simp)
    have hv : nd[n + nNext + i]? = some (nd[n + nNext + i]) := Array.getElem?_eq_getElem hm
    obtain ⟨nd1, hw⟩ := wr_some (a := nd.push nd[n + nNext + i]) node (show n + nNext + i < _ by simp; omega)
    obtain ⟨_, hs1, hg1⟩ := wr_eq_some hw
    have hsz1 : nd1.size = nd.size + 1 := by rw [hs1]; simp
    have hrest : ∀ j p, rest[j]? = some p → p + nNext + (i + 1 + j) < nd.size := by
      intro j p hj
      have := hb (j + 1) p (by simpa using hj)
      omega
    obtain ⟨nd', h1, h2, h3, h4, h5⟩ := ih (i + 1) nd1 (fun j p hj => by have := hrest j p hj; omega)
    refine ⟨nd', ?_, ?_, ?_, ?_, ?_⟩
    · simp only [linkLoop, hv, Option.bind_some, Option.bind_eq_bind, hw]
      exact h1
    · rw [h2, hsz1]; simp; omega
    · intro x hx hne
      rw [h3 x (by omega) (fun j p hj => by
        have := hne (j + 1) p (by simpa using hj)
        omega)]
      rw [hg1 x]
      have hx0 : x ≠ n + nNext + i := by simpa using hne 0 n (by simp)
      simp only [hx0, if_false, Array.getElem?_push]
      have : x ≠ nd.size := by omega
      simp [this]
    · intro j p hj
      cases j with
      | zero =>
        have hp : n = p := by simpa using hj
        subst hp
        simp only [Nat.add_zero]
        by_cases hex : ∃ j p, rest[j]? = some p ∧ n + nNext + i = p + nNext + (i + 1 + j)
        · obtain ⟨j, p, hj, e⟩ := hex
          rw [e]; exact h4 j p hj
        · rw [h3 _ (by omega) (fun j p hj e => hex ⟨j, p, hj, e⟩), hg1]
          simp
      | succ j =>
        have := h4 j p (by simpa using hj)
        rw [show i + (j + 1) = i + 1 + j by omega]
        exact this
    · intro j p hj hd
      cases j with
      | zero =>
        have hp : n = p := by simpa using hj
        subst hp
        simp only [Nat.add_zero]
        rw [h3 _ (by omega) (fun j p hj => by have := hrest j p hj; omega), hg1]
        have : nd.size ≠ n + nNext + i := by omega
        simp [this, hv]
      | succ j =>
        have hj' : rest[j]? = some p := by simpa using hj
        have h0 := hd 0 n (by omega) (by simp)
        have := h5 j p hj' (fun j' p' hlt hj'' => by
          have := hd (j' + 1) p' (by omega) (by simpa using hj'')
          omega)
        rw [show nd.size + (j + 1) = nd1.size + j by omega, this, hg1]
        have hlt := hrest j p hj'
        have e1 : p + nNext + (i + 1 + j) ≠ n + nNext + i := by omega
        rw [show i + (j + 1) = i + 1 + j by omega]
        simp only [e1, if_false, Array.getElem?_push]
        have : p + nNext + (i + 1 + j) ≠ nd.size := by omega
        simp [this]

/-- the unlinking loop of `Delete`, when every slot `ps[j]+nNext+(i+j)` points to the same node `t` (the one being
deleted), the slots are pairwise distinct and none of them is a pointer of `t`: each slot receives `t`'s pointer of
that level, everything else is unchanged -/
theorem unlinkLoop_spec (t : Nat) : ∀ (ps : List Nat) (i : Nat) (nd : Array Nat),
    (∀ j p, ps[j]? = some p → nd[p + nNext + (i + j)]? = some t) →
    (∀ j, j < ps.length → t + nNext + (i + j) < nd.size) →
    (∀ j p j' p', ps[j]? = some p → ps[j']? = some p' → j ≠ j' → p + (i + j) ≠ p' + (i + j')) →
    (∀ j p j', ps[j]? = some p → j' < ps.length → p + (i + j) ≠ t + (i + j')) →
    ∃ nd', unlinkLoop ps i nd = some nd' ∧ nd'.size = nd.size ∧
      (∀ x, (∀ j p, ps[j]? = some p → x ≠ p + nNext + (i + j)) → nd'[x]? = nd[x]?) ∧
      (∀ j p, ps[j]? = some p → nd'[p + nNext + (i + j)]? = nd[t + nNext + (i + j)]?) := by
  intro ps
  induction ps with
  | nil => intro i nd _ _ _ _; exact ⟨nd, rfl, rfl, fun _ _ => rfl, by simp⟩
  | cons n rest ih =>
    intro i nd hpt hin hdis hnt
    have hm0 : nd[n + nNext + i]? = some t := by simpa using hpt 0 n (by simp)
    have hmlt : n + nNext + i < nd.size := by
      by_cases h : n + nNext + i < nd.size
      · exact h
      · rw [Array.getElem?_eq_none (by omega)] at hm0; exact absurd hm0 (by simp)
    have htlt : t + nNext + i < nd.size := by simpa using hin 0 (by simp)
    have hv : nd[t + nNext + i]? = some (nd[t + nNext + i]) := Array.getElem?_eq_getElem htlt
    obtain ⟨nd1, hw⟩ := wr_some (a := nd) (nd[t + nNext + i]) hmlt
    obtain ⟨_, hs1, hg1⟩ := wr_eq_some hw
    have hne0 : ∀ j p, rest[j]? = some p → p + nNext + (i + 1 + j) ≠ n + nNext + i := by
      intro j p hj
      have := hdis (j + 1) p 0 n (by simpa using hj) (by simp) (by omega)
      omega
    obtain ⟨nd', h1, h2, h3, h4⟩ := ih (i + 1) nd1
      (fun j p hj => by
        rw [hg1]
        simp only [hne0 j p hj, if_false]
        have := hpt (j + 1) p (by simpa using hj)
        rw [show i + 1 + j = i + (j + 1) by omega]; exact this)
      (fun j hj => by
        have := hin (j + 1) (by simp; omega)
        rw [hs1]; omega)
      (fun j p j' p' hj hj' hjj => by
        have := hdis (j + 1) p (j' + 1) p' (by simpa using hj) (by simpa using hj') (by omega)
        omega)
      (fun j p j' hj hj' => by
        have := hnt (j + 1) p (j' + 1) (by simpa using hj) (by simp; omega)
        omega)
    refine ⟨nd', ?_, by rw [h2, hs1], ?_, ?_⟩
    · simp only [unlinkLoop, hm0, hv, Option.bind_some, Option.bind_eq_bind, hw]
      exact h1
    · intro x hne
      rw [h3 x (fun j p hj => by
        have := hne (j + 1) p (by simpa using hj)
        omega), hg1]
      have hx0 : x ≠ n + nNext + i := by simpa using hne 0 n (by simp)
      simp [hx0]
    · intro j p hj
      cases j with
      | zero =>
        have hp : n = p := by simpa using hj
        subst hp
        simp only [Nat.add_zero]
        rw [h3 _ (fun j p hj e => hne0 j p hj e.symm), hg1]
        simp [hv]
      | succ j =>
        have hj' : rest[j]? = some p := by simpa using hj
        rw [show i + (j + 1) = i + 1 + j by omega, h4 j p hj', hg1]
        have := hnt 0 n (j + 1) (by simp) (by simp; exact (List.getElem?_eq_some_iff.1 hj').1)
        have e : t + nNext + (i + 1 + j) ≠ n + nNext + i := by omega
        simp [e]

/-- the loop of `Reset` -/
theorem resetLoop_spec : ∀ (c : Nat) (nd : Array Nat) (pn : List Nat) (n : Nat),
    nNext + n + c ≤ nd.size → n + c ≤ pn.length →
    ∃ nd' pn', resetLoop nd pn n c = some (nd', pn') ∧ nd'.size = nd.size ∧ pn'.length = pn.length ∧
      (∀ x, nd'[x]? = if nNext + n ≤ x ∧ x < nNext + n + c then some 0 else nd[x]?) := by
  intro c
  induction c with
  | zero => intro nd pn n _ _; exact ⟨nd, pn, rfl, rfl, rfl, by intro x; simp; omega⟩
  | succ c ih =>
    intro nd pn n h1 h2
    obtain ⟨nd1, hw⟩ := wr_some (a := nd) 0 (show nNext + n < nd.size by omega)
    obtain ⟨_, hs1, hg1⟩ := wr_eq_some hw
    obtain ⟨nd', pn', e, s1, s2, g⟩ := ih nd1 (pn.set n 0) (n + 1) (by rw [hs1]; omega) (by simp; omega)
    refine ⟨nd', pn', ?_, by rw [s1, hs1], by simpa using s2, ?_⟩
    · simp only [resetLoop, hw, setAt_some 0 (show n < pn.length by omega), Option.bind_some, Option.bind_eq_bind]
      exact e
    · intro x
      rw [g x, hg1 x]
      by_cases hx : x = nNext + n
      · subst hx
        have : ¬ (nNext + (n + 1) ≤ nNext + n ∧ nNext + n < nNext + (n + 1) + c) := by omega
        have h' : nNext + n ≤ nNext + n ∧ nNext + n < nNext + n + (c + 1) := by omega
        simp [this, h']
      · by_cases hr : nNext + (n + 1) ≤ x ∧ x < nNext + (n + 1) + c
        · have : nNext + n ≤ x ∧ x < nNext + n + (c + 1) := by omega
          simp [hr, this]
        · have : ¬ (nNext + n ≤ x ∧ x < nNext + n + (c + 1)) := by omega
          simp [hr, this, hx]

end GoLevel.MemArr
