import GoLevel.Proofs.MemDBStep
/-! `dbIter` on an unchanging table is the specification cursor over the range-filtered sorted pairs (C14). -/
set_option linter.unusedSectionVars false
set_option linter.unusedSimpArgs false
namespace GoLevel.MemDB

variable {cmp : Cmp}

/-- "below `slice.Start`" (nobody is, without a start) -/
def ps (cmp : Cmp) (start : Option Bytes) (x : Bytes) : Bool :=
  match start with
  | some s => cmp x s == .lt
  | none => false

/-- "below `slice.Limit`" (everybody is, without a limit) -/
def pl (cmp : Cmp) (limit : Option Bytes) (x : Bytes) : Bool :=
  match limit with
  | some l => cmp x l == .lt
  | none => true

def inR (cmp : Cmp) (start limit : Option Bytes) (x : Bytes) : Bool := !ps cmp start x && pl cmp limit x

/-- downward closed predicates: what `dropWhile`/`takeWhile` cut a sorted list with -/
def DC (cmp : Cmp) (p : Bytes → Bool) : Prop := ∀ a b, cmp a b = .lt → p b = true → p a = true

section
variable (hc : LawfulCmp cmp)
include hc

theorem dc_below (key : Bytes) : DC cmp (below cmp key) := by
  intro a b hab hb
  simp only [below, beq_iff_eq] at hb ⊢
  exact hc.trans _ _ _ hab hb

theorem dc_ps (start : Option Bytes) : DC cmp (ps cmp start) := by
  cases start with
  | none => intro a b _ h; simp [ps] at h
  | some s => exact dc_below hc s

theorem dc_pl (limit : Option Bytes) : DC cmp (pl cmp limit) := by
  cases limit with
  | none => intro a b _ _; simp [pl]
  | some l => exact dc_below hc l

omit hc in
theorem dc_not_of_mem_dropWhile {p : Bytes → Bool} (hdc : DC cmp p) {l : List Bytes} (hs : Sorted cmp l) :
    ∀ x ∈ l.dropWhile p, p x = false := by
  induction l with
  | nil => simp
  | cons a as ih =>
    have hs' := List.pairwise_cons.1 hs
    by_cases ha : p a = true
    · simp only [List.dropWhile_cons, ha, if_true]; exact ih hs'.2
    · have ha' : p a = false := by simpa using ha
      simp only [List.dropWhile_cons, ha']
      intro x hx
      simp at hx
      rcases hx with rfl | hx
      · exact ha'
      · cases hpx : p x with
        | false => rfl
        | true => exact absurd (hdc a x (hs'.1 x hx) hpx) ha

omit hc in
theorem mem_takeWhile_imp {p : Bytes → Bool} {l : List Bytes} : ∀ x ∈ l.takeWhile p, p x = true := by
  induction l with
  | nil => simp
  | cons a as ih =>
    intro x hx
    by_cases ha : p a = true
    · simp only [List.takeWhile_cons, ha, if_true, List.mem_cons] at hx
      rcases hx with rfl | hx
      · exact ha
      · exact ih x hx
    · have : p a = false := by simpa using ha
      simp [List.takeWhile_cons, this] at hx

omit hc in
theorem dc_filter_eq_takeWhile {p : Bytes → Bool} (hdc : DC cmp p) {l : List Bytes} (hs : Sorted cmp l) :
    l.filter p = l.takeWhile p := by
  conv => lhs; rw [← List.takeWhile_append_dropWhile (p := p) (l := l)]
  rw [List.filter_append, List.filter_eq_self.2 (fun x hx => mem_takeWhile_imp x hx),
    List.filter_eq_nil_iff.2 (fun x hx => by simp [dc_not_of_mem_dropWhile hdc hs x hx]), List.append_nil]

omit hc in
theorem dc_filter_not_eq_dropWhile {p : Bytes → Bool} (hdc : DC cmp p) {l : List Bytes} (hs : Sorted cmp l) :
    l.filter (fun x => !p x) = l.dropWhile p := by
  conv => lhs; rw [← List.takeWhile_append_dropWhile (p := p) (l := l)]
  rw [List.filter_append, List.filter_eq_nil_iff.2 (fun x hx => by simp [mem_takeWhile_imp x hx]),
    List.filter_eq_self.2 (fun x hx => by simp [dc_not_of_mem_dropWhile hdc hs x hx]), List.nil_append]

omit hc in
theorem sorted_dropWhile {p : Bytes → Bool} {l : List Bytes} (hs : Sorted cmp l) : Sorted cmp (l.dropWhile p) :=
  hs.sublist (List.dropWhile_sublist _)

omit hc in
theorem sorted_takeWhile {p : Bytes → Bool} {l : List Bytes} (hs : Sorted cmp l) : Sorted cmp (l.takeWhile p) :=
  hs.sublist (List.takeWhile_sublist _)

/-- the slice, cut from the left first -/
theorem slice_eq_left (start limit : Option Bytes) {l : List Bytes} (hs : Sorted cmp l) :
    l.filter (inR cmp start limit) = (l.dropWhile (ps cmp start)).takeWhile (pl cmp limit) := by
  have hps := dc_ps hc start
  conv => lhs; rw [← List.takeWhile_append_dropWhile (p := ps cmp start) (l := l)]
  rw [List.filter_append]
  have e1 : (l.takeWhile (ps cmp start)).filter (inR cmp start limit) = [] :=
    List.filter_eq_nil_iff.2 (fun x hx => by simp [inR, mem_takeWhile_imp x hx])
  have e2 : (l.dropWhile (ps cmp start)).filter (inR cmp start limit) =
      (l.dropWhile (ps cmp start)).filter (pl cmp limit) := by
    apply List.filter_congr
    intro x hx
    simp [inR, dc_not_of_mem_dropWhile hps hs x hx]
  rw [e1, e2, List.nil_append, dc_filter_eq_takeWhile (dc_pl hc limit) (sorted_dropWhile hs)]

/-- the slice, cut from the right first -/
theorem slice_eq_right (start limit : Option Bytes) {l : List Bytes} (hs : Sorted cmp l) :
    l.filter (inR cmp start limit) = (l.takeWhile (pl cmp limit)).dropWhile (ps cmp start) := by
  have hpl := dc_pl hc limit
  conv => lhs; rw [← List.takeWhile_append_dropWhile (p := pl cmp limit) (l := l)]
  rw [List.filter_append]
  have e1 : (l.dropWhile (pl cmp limit)).filter (inR cmp start limit) = [] :=
    List.filter_eq_nil_iff.2 (fun x hx => by simp [inR, dc_not_of_mem_dropWhile hpl hs x hx])
  have e2 : (l.takeWhile (pl cmp limit)).filter (inR cmp start limit) =
      (l.takeWhile (pl cmp limit)).filter (fun x => !ps cmp start x) := by
    apply List.filter_congr
    intro x hx
    simp [inR, mem_takeWhile_imp x hx]
  rw [e1, e2, List.append_nil, dc_filter_not_eq_dropWhile (dc_ps hc start) (sorted_takeWhile hs)]

end

/-! ## `fill` -/

theorem fill_limit (st lm : Option Bytes) (nd : Node) (fw : Bool) :
    (Iter.mk st lm nd fw).fill cmp false true = Iter.mk st lm (nd.filter (pl cmp lm)) fw := by
  unfold Iter.fill
  cases nd with
  | none => simp
  | some k =>
    cases lm with
    | none => cases st <;> simp [pl, Option.filter]
    | some l =>
      cases st <;>
      · by_cases hk : cmp k l = .lt <;> simp [pl, hk, Option.filter]

theorem fill_start (st lm : Option Bytes) (nd : Node) (fw : Bool) :
    (Iter.mk st lm nd fw).fill cmp true false = Iter.mk st lm (nd.filter (fun x => !ps cmp st x)) fw := by
  unfold Iter.fill
  cases nd with
  | none => simp
  | some k =>
    cases st with
    | none => cases lm <;> simp [ps, Option.filter]
    | some s =>
      cases lm <;>
      · by_cases hk : cmp k s = .lt <;> simp [ps, hk, Option.filter]

end GoLevel.MemDB
