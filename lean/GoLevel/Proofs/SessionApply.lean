import GoLevel.Proofs.SessionEdit
import GoLevel.Proofs.LSMWf
/-! `EditFacts` derived from what `Version.apply` (`versionStaging.commit/finish`) does level by level (C07):
the hypotheses left are about the record (each deleted table sits at the level it names, added and deleted
numbers are listed once) and about where new numbers come from. -/
namespace GoLevel.Session
open GoLevel GoLevel.RefLoop

/-- a concatenation without duplicates: no element in two different pieces -/
theorem nodup_flatMap_apart {α : Type} (g : α → List Nat) (ls : List α) (h : (ls.flatMap g).Nodup) :
    (∀ x ∈ ls, (g x).Nodup) ∧
    ∀ i j (hi : i < ls.length) (hj : j < ls.length), i < j → ∀ f, f ∈ g ls[i] → f ∉ g ls[j] := by
  induction ls with
  | nil =>
    refine ⟨?_, ?_⟩
    · intro x hx; cases hx
    · intro i j hi; simp at hi
  | cons a l ih =>
    rw [List.flatMap_cons, List.nodup_append] at h
    obtain ⟨h1, h2, h3⟩ := h
    obtain ⟨ih1, ih2⟩ := ih h2
    refine ⟨?_, ?_⟩
    · intro x hx
      rcases List.mem_cons.mp hx with rfl | hx
      · exact h1
      · exact ih1 x hx
    · intro i j hi hj hij f hfi hfj
      cases j with
      | zero => omega
      | succ j =>
        cases i with
        | zero =>
          simp only [List.getElem_cons_zero, List.getElem_cons_succ] at hfi hfj
          exact h3 f hfi f (List.mem_flatMap.mpr ⟨_, List.getElem_mem _, hfj⟩) rfl
        | succ i =>
          simp only [List.getElem_cons_succ] at hfi hfj
          exact ih2 i j (by simpa using hi) (by simpa using hj) (by omega) f hfi hfj

theorem nodup_flatMap_of_apart {α : Type} (g : α → List Nat) (ls : List α)
    (h1 : ∀ x ∈ ls, (g x).Nodup)
    (h2 : ∀ i j (hi : i < ls.length) (hj : j < ls.length), i < j → ∀ f, f ∈ g ls[i] → f ∉ g ls[j]) :
    (ls.flatMap g).Nodup := by
  induction ls with
  | nil => exact List.nodup_nil
  | cons a l ih =>
    rw [List.flatMap_cons, List.nodup_append]
    refine ⟨h1 a List.mem_cons_self, ih (fun x hx => h1 x (List.mem_cons_of_mem _ hx)) ?_, ?_⟩
    · intro i j hi hj hij f hfi hfj
      exact h2 (i + 1) (j + 1) (by simpa using hi) (by simpa using hj) (by omega) f
        (by simpa using hfi) (by simpa using hfj)
    · intro x hx y hy hxy
      subst hxy
      obtain ⟨b, hb, hyb⟩ := List.mem_flatMap.mp hy
      obtain ⟨j, hj, rfl⟩ := List.getElem_of_mem hb
      exact h2 0 (j + 1) (by simp) (by simpa using hj) (by omega) x (by simpa using hx) (by simpa using hyb)

theorem lvl_getElem (v : Version) {i : Nat} (hi : i < v.levels.length) : v.lvl i = v.levels[i] := by
  unfold Version.lvl; rw [List.getElem?_eq_getElem hi]; rfl

theorem lvl_beyond (v : Version) {i : Nat} (hi : v.levels.length ≤ i) : v.lvl i = [] := by
  unfold Version.lvl; rw [List.getElem?_eq_none hi]; rfl

theorem mem_nums_iff (v : Version) (f : Nat) : f ∈ v.nums ↔ ∃ i, ∃ t ∈ v.lvl i, t.num = f := by
  unfold Version.nums
  rw [List.mem_flatMap]
  constructor
  · rintro ⟨l, hl, hf⟩
    obtain ⟨i, hi, rfl⟩ := List.getElem_of_mem hl
    obtain ⟨t, ht, rfl⟩ := List.mem_map.mp hf
    exact ⟨i, t, by rw [lvl_getElem v hi]; exact ht, rfl⟩
  · rintro ⟨i, t, ht, rfl⟩
    by_cases hi : i < v.levels.length
    · rw [lvl_getElem v hi] at ht
      exact ⟨_, List.getElem_mem hi, List.mem_map_of_mem ht⟩
    · rw [lvl_beyond v (by omega)] at ht; cases ht

/-- in a version that lists every table once, a table number determines the level -/
theorem level_unique {v : Version} (hv : v.nums.Nodup) {i j : Nat} {t t' : Table}
    (ht : t ∈ v.lvl i) (ht' : t' ∈ v.lvl j) (hn : t.num = t'.num) : i = j := by
  have hi : i < v.levels.length := by
    rcases Nat.lt_or_ge i v.levels.length with h | h
    · exact h
    · rw [lvl_beyond v h] at ht; cases ht
  have hj : j < v.levels.length := by
    rcases Nat.lt_or_ge j v.levels.length with h | h
    · exact h
    · rw [lvl_beyond v h] at ht'; cases ht'
  rw [lvl_getElem v hi] at ht
  rw [lvl_getElem v hj] at ht'
  obtain ⟨_, h2⟩ := nodup_flatMap_apart (fun l : Level => l.map (fun t : Table => t.num)) v.levels hv
  rcases Nat.lt_trichotomy i j with h | h | h
  · exact absurd (List.mem_map.mpr ⟨t', ht', hn.symm⟩) (h2 i j hi hj h t.num (List.mem_map_of_mem ht))
  · exact h
  · exact absurd (List.mem_map.mpr ⟨t, ht, hn⟩) (h2 j i hj hi h t'.num (List.mem_map_of_mem ht'))

theorem lvl_nums_nodup {v : Version} (hv : v.nums.Nodup) (i : Nat) : ((v.lvl i).map (·.num)).Nodup := by
  by_cases hi : i < v.levels.length
  · rw [lvl_getElem v hi]
    exact (nodup_flatMap_apart (fun l : Level => l.map (fun t : Table => t.num)) v.levels hv).1 _ (List.getElem_mem hi)
  · rw [lvl_beyond v (by omega)]; exact List.nodup_nil

theorem nodup_map_inj {α : Type} {g : α → Nat} {l : List α} (h : (l.map g).Nodup) {x y : α}
    (hx : x ∈ l) (hy : y ∈ l) (hxy : g x = g y) : x = y := by
  induction l with
  | nil => cases hx
  | cons a l ih =>
    rw [List.map_cons, List.nodup_cons] at h
    rcases List.mem_cons.mp hx with hxa | hx'
    · rcases List.mem_cons.mp hy with hya | hy'
      · rw [hxa, hya]
      · exact absurd (List.mem_map.mpr ⟨y, hy', by rw [← hxy, hxa]⟩) h.1
    · rcases List.mem_cons.mp hy with hya | hy'
      · exact absurd (List.mem_map.mpr ⟨x, hx', by rw [hxy, hya]⟩) h.1
      · exact ih h.2 hx' hy'

theorem insertByKey_perm (c : UCmp) (t : Table) (l : Level) : (insertByKey c t l).Perm (t :: l) := by
  induction l with
  | nil => exact List.Perm.refl _
  | cons x xs ih =>
    simp only [insertByKey]
    split
    · exact List.Perm.refl _
    · split
      · exact List.Perm.refl _
      · exact (List.Perm.cons x ih).trans (List.Perm.swap t x xs)
    · exact (List.Perm.cons x ih).trans (List.Perm.swap t x xs)

theorem insertByNumDesc_perm (t : Table) (l : Level) : (insertByNumDesc t l).Perm (t :: l) := by
  induction l with
  | nil => exact List.Perm.refl _
  | cons x xs ih =>
    simp only [insertByNumDesc]
    split
    · exact List.Perm.refl _
    · exact (List.Perm.cons x ih).trans (List.Perm.swap t x xs)

theorem foldl_insert_perm (c : UCmp) (i : Nat) (ps : List (Nat × Table)) (l : Level) :
    (ps.foldl (fun acc (p : Nat × Table) =>
      if i = 0 then insertByNumDesc p.2 acc else insertByKey c p.2 acc) l).Perm (l ++ ps.map (·.2)) := by
  induction ps generalizing l with
  | nil => simp
  | cons p ps ih =>
    rw [List.foldl_cons]
    refine (ih _).trans ?_
    rw [List.map_cons]
    have h1 : (if i = 0 then insertByNumDesc p.2 l else insertByKey c p.2 l).Perm (p.2 :: l) := by
      split
      · exact insertByNumDesc_perm _ _
      · exact insertByKey_perm _ _ _
    refine (List.Perm.append_right _ h1).trans ?_
    exact (List.perm_middle (l₁ := l) (a := p.2) (l₂ := ps.map (·.2))).symm

theorem addAt_perm (c : UCmp) (e : Edit) (i : Nat) (l : Level) :
    (e.addAt c i l).Perm (l ++ (e.added.filter (·.1 = i)).map (·.2)) := by
  unfold Edit.addAt
  exact foldl_insert_perm c i _ l

/-- What a commit record must satisfy (all about the record, the version it is applied to and the allocator). -/
structure RecordOK (v : Version) (r : Edit) (U : List Nat) : Prop where
  /-- the version lists each table once -/
  vnd : v.nums.Nodup
  /-- a deleted table sits at the level the record names -/
  delAt : ∀ p ∈ r.deleted, ∃ t ∈ v.lvl p.1, t.num = p.2
  dnd : r.delNums.Nodup
  and_ : r.addNums.Nodup
  /-- an added table has a number that is not in use, or the record moves it (deletes it from its old level) -/
  fresh : ∀ f ∈ r.addNums, f ∉ U ∨ f ∈ r.delNums
  used : ∀ f ∈ v.nums, f ∈ U

section
variable {v : Version} {r : Edit} {U : List Nat}

/-- a table that survives at its level is deleted at no level -/
theorem survivor_not_deleted (h : RecordOK v r U) {i : Nat} {x : Table} (hx : x ∈ v.survivors r i) :
    x.num ∉ r.delNums := by
  obtain ⟨hx1, hx2⟩ := (Version.mem_survivors v r i x).mp hx
  intro hd
  obtain ⟨p, hp, hpn⟩ := List.mem_map.mp hd
  obtain ⟨t', ht', htn⟩ := h.delAt p hp
  have : i = p.1 := level_unique h.vnd hx1 ht' (by rw [htn]; exact hpn.symm)
  apply hx2
  have hpe : p = (i, x.num) := by
    obtain ⟨a, b⟩ := p
    simp only at this hpn
    rw [this, ← hpn]
  rw [← hpe]; exact hp

/-- an added table does not share its number with a survivor -/
theorem added_not_survivor (h : RecordOK v r U) {i j : Nat} {x t : Table} (hx : x ∈ v.survivors r i)
    (ht : (j, t) ∈ r.added) : x.num ≠ t.num := by
  intro hn
  have hmem : t.num ∈ r.addNums := List.mem_map.mpr ⟨(j, t), ht, rfl⟩
  have hv : x.num ∈ v.nums := (mem_nums_iff v _).mpr ⟨i, x, ((Version.mem_survivors v r i x).mp hx).1, rfl⟩
  rcases h.fresh _ hmem with h1 | h1
  · exact h1 (by rw [← hn]; exact h.used _ hv)
  · exact survivor_not_deleted h hx (by rw [hn]; exact h1)

theorem newLevel_nums_nodup (h : RecordOK v r U) (c : UCmp) (i : Nat) :
    ((v.newLevel c r i).map (·.num)).Nodup := by
  have hp := (addAt_perm c r i (v.survivors r i)).map (fun t : Table => t.num)
  rw [show (v.newLevel c r i) = r.addAt c i (v.survivors r i) from rfl]
  rw [hp.nodup_iff, List.map_append, List.nodup_append]
  refine ⟨?_, ?_, ?_⟩
  · exact List.Nodup.sublist (List.filter_sublist.map _) (lvl_nums_nodup h.vnd i)
  · have : ((r.added.filter (·.1 = i)).map (·.2)).map (fun t : Table => t.num) =
        (r.added.filter (·.1 = i)).map (·.2.num) := by rw [List.map_map]; rfl
    rw [this]
    exact List.Nodup.sublist (List.filter_sublist.map _) h.and_
  · intro a ha b hb hab
    obtain ⟨x, hx, rfl⟩ := List.mem_map.mp ha
    obtain ⟨t, ht, rfl⟩ := List.mem_map.mp hb
    obtain ⟨p, hp', rfl⟩ := List.mem_map.mp ht
    exact added_not_survivor h hx (j := p.1) (List.mem_filter.mp hp').1 hab

/-- two different levels of the new version share no table number -/
theorem newLevel_apart (h : RecordOK v r U) (c : UCmp) {i j : Nat} (hij : i ≠ j) {x y : Table}
    (hx : x ∈ v.newLevel c r i) (hy : y ∈ v.newLevel c r j) : x.num ≠ y.num := by
  intro hn
  rcases (Version.mem_newLevel c v r i x).mp hx with hx | hx <;>
    rcases (Version.mem_newLevel c v r j y).mp hy with hy | hy
  · exact hij (level_unique h.vnd ((Version.mem_survivors v r i x).mp hx).1
      ((Version.mem_survivors v r j y).mp hy).1 hn)
  · exact added_not_survivor h hx hy hn
  · exact added_not_survivor h hy hx hn.symm
  · have := nodup_map_inj (g := fun p : Nat × Table => p.2.num) h.and_ hx hy hn
    exact hij (congrArg Prod.fst this)

end

/-- **`EditFacts` is a lemma about `Version.apply`.** -/
theorem editFacts_of_record {v : Version} {r : Edit} {U : List Nat} (h : RecordOK v r U) (c : UCmp) :
    EditFacts v c r U := by
  have hlvl := Version.apply_lvl c v r
  have hmem : ∀ f, f ∈ (v.apply c r).nums ↔ (f ∈ v.nums ∧ f ∉ r.delNums) ∨ f ∈ r.addNums := by
    intro f
    rw [mem_nums_iff]
    constructor
    · rintro ⟨i, x, hx, rfl⟩
      rw [hlvl] at hx
      rcases (Version.mem_newLevel c v r i x).mp hx with hs | ha
      · left
        exact ⟨(mem_nums_iff v _).mpr ⟨i, x, ((Version.mem_survivors v r i x).mp hs).1, rfl⟩,
          survivor_not_deleted h hs⟩
      · right; exact List.mem_map.mpr ⟨(i, x), ha, rfl⟩
    · rintro (⟨h1, h2⟩ | h1)
      · obtain ⟨i, t, ht, rfl⟩ := (mem_nums_iff v f).mp h1
        refine ⟨i, t, ?_, rfl⟩
        rw [hlvl]
        refine (Version.mem_newLevel c v r i t).mpr (Or.inl ((Version.mem_survivors v r i t).mpr ⟨ht, fun hd => ?_⟩))
        exact h2 (List.mem_map.mpr ⟨(i, t.num), hd, rfl⟩)
      · obtain ⟨p, hp, rfl⟩ := List.mem_map.mp h1
        refine ⟨p.1, p.2, ?_, rfl⟩
        rw [hlvl]
        exact (Version.mem_newLevel c v r p.1 p.2).mpr (Or.inr hp)
  refine ⟨?_, h.dnd, ?_, hmem, h.fresh⟩
  · -- each table once in the new version
    apply nodup_flatMap_of_apart
    · intro l hl
      obtain ⟨i, hi, rfl⟩ := List.getElem_of_mem hl
      rw [← lvl_getElem (v.apply c r) hi, hlvl]
      exact newLevel_nums_nodup h c i
    · intro i j hi hj hij f hfi hfj
      rw [← lvl_getElem (v.apply c r) hi, hlvl] at hfi
      rw [← lvl_getElem (v.apply c r) hj, hlvl] at hfj
      obtain ⟨x, hx, rfl⟩ := List.mem_map.mp hfi
      obtain ⟨y, hy, hxy⟩ := List.mem_map.mp hfj
      exact newLevel_apart h c (by omega) hx hy hxy.symm
  · intro x hx
    obtain ⟨p, hp, rfl⟩ := List.mem_map.mp hx
    obtain ⟨t, ht, htn⟩ := h.delAt p hp
    exact (mem_nums_iff v _).mpr ⟨p.1, t, ht, htn⟩

/-- The hypotheses about a commit record that are NOT consequences of the session's history: the record names
each deleted table at its level, lists numbers once, and a new table's number is not in use. -/
structure RecordHyp (v : Version) (r : Edit) (U : List Nat) : Prop where
  delAt : ∀ p ∈ r.deleted, ∃ t ∈ v.lvl p.1, t.num = p.2
  dnd : r.delNums.Nodup
  and_ : r.addNums.Nodup
  fresh : ∀ f ∈ r.addNums, f ∉ U ∨ f ∈ r.delNums

end GoLevel.Session
