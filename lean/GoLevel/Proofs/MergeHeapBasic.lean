import GoLevel.Model.MergeHeap
/-!
# `container/heap` (model `GoHeap`): structural facts

`swap` is a permutation that touches two positions; `up`/`down`/`init`/`push` permute the slice, `down(h, i, n)`
leaves the positions `≥ n` alone.  Also the order axioms (`SWO`: strict weak order on the elements that
occur) and the heap predicate (`HeapFrom`, `IsHeap`).  Core Lean only.
-/
namespace GoLevel.GoHeap

/-- `less` is a strict weak order on the elements satisfying `S` -/
structure SWO (less : Nat → Nat → Bool) (S : Nat → Prop) : Prop where
  irrefl   : ∀ a, S a → less a a = false
  trans    : ∀ a b d, S a → S b → S d → less a b = true → less b d = true → less a d = true
  negtrans : ∀ a b d, S a → S b → S d → less a b = false → less b d = false → less a d = false

theorem SWO.asymm {less : Nat → Nat → Bool} {S : Nat → Prop} (hs : SWO less S) {a b : Nat} (ha : S a) (hb : S b)
    (h : less a b = true) : less b a = false := by
  cases hba : less b a with
  | false => rfl
  | true =>
    have := hs.trans a b a ha hb ha h hba
    rw [hs.irrefl a ha] at this; cases this

/-- all elements of the slice satisfy `S` -/
def AllS (S : Nat → Prop) (h : List Nat) : Prop := ∀ k, k < h.length → S (h.getD k 0)

theorem allS_iff {S : Nat → Prop} {h : List Nat} : AllS S h ↔ ∀ x ∈ h, S x := by
  constructor
  · intro hA x hx
    obtain ⟨k, hk, rfl⟩ := List.mem_iff_getElem.1 hx
    have := hA k hk
    rwa [List.getD_eq_getElem?_getD, List.getElem?_eq_getElem hk] at this
  · intro hA k hk
    rw [List.getD_eq_getElem?_getD, List.getElem?_eq_getElem hk]
    exact hA _ (List.getElem_mem hk)

/-- position `j`'s element is not below its parent's -/
def LinkOK (less : Nat → Nat → Bool) (h : List Nat) (j : Nat) : Prop :=
  less (h.getD j 0) (h.getD ((j - 1) / 2) 0) = false

/-- the heap invariant of `container/heap` on the prefix of length `n`, for all nodes `≥ i0`:
`!h.Less(j, parent(j))` for every `j < n` whose parent is `≥ i0` -/
def HeapFrom (less : Nat → Nat → Bool) (h : List Nat) (n i0 : Nat) : Prop :=
  ∀ j, 0 < j → j < n → i0 ≤ (j - 1) / 2 → LinkOK less h j

/-- the heap invariant on the whole slice -/
def IsHeap (less : Nat → Nat → Bool) (h : List Nat) : Prop := HeapFrom less h h.length 0

/-! ## `swap` -/

@[simp] theorem swap_length (h : List Nat) (i j : Nat) : (swap h i j).length = h.length := by
  simp [swap]

theorem swap_getD {h : List Nat} {i j : Nat} (hi : i < h.length) (hj : j < h.length) (k : Nat) :
    (swap h i j).getD k 0 = if k = j then h.getD i 0 else if k = i then h.getD j 0 else h.getD k 0 := by
  unfold swap
  simp only [List.getD_eq_getElem?_getD, List.getElem?_set, List.length_set]
  by_cases hkj : k = j
  · subst hkj; simp [hj]
  · have hjk : ¬ j = k := fun h => hkj h.symm
    simp only [hjk, if_false, hkj]
    by_cases hki : k = i
    · subst hki; simp [hi]
    · have hik : ¬ i = k := fun h => hki h.symm
      simp [hik, hki]

theorem swap_getD_left {h : List Nat} {i j : Nat} (hi : i < h.length) (hj : j < h.length) :
    (swap h i j).getD i 0 = h.getD j 0 := by
  rw [swap_getD hi hj]
  by_cases h1 : i = j
  · subst h1; simp
  · simp [h1]

theorem swap_getD_right {h : List Nat} {i j : Nat} (hi : i < h.length) (hj : j < h.length) :
    (swap h i j).getD j 0 = h.getD i 0 := by
  rw [swap_getD hi hj]; simp

theorem swap_getD_other {h : List Nat} {i j k : Nat} (hi : i < h.length) (hj : j < h.length) (h1 : k ≠ i)
    (h2 : k ≠ j) : (swap h i j).getD k 0 = h.getD k 0 := by
  rw [swap_getD hi hj]; simp [h1, h2]

theorem swap_perm {h : List Nat} {i j : Nat} (hi : i < h.length) (hj : j < h.length) : (swap h i j).Perm h := by
  unfold swap
  rw [List.getD_eq_getElem?_getD, List.getD_eq_getElem?_getD, List.getElem?_eq_getElem hi,
    List.getElem?_eq_getElem hj]
  exact List.set_set_perm hi hj

theorem AllS.perm {S : Nat → Prop} {h h' : List Nat} (hS : AllS S h) (hp : h'.Perm h) : AllS S h' := by
  rw [allS_iff] at hS ⊢
  intro x hx; exact hS x (hp.mem_iff.1 hx)

theorem swap_allS {S : Nat → Prop} {h : List Nat} {i j : Nat} (hi : i < h.length) (hj : j < h.length)
    (hS : AllS S h) : AllS S (swap h i j) := by
  intro k hk
  rw [swap_length] at hk
  rw [swap_getD hi hj]
  split
  · exact hS i hi
  · split
    · exact hS j hj
    · exact hS k hk

/-! ## unfolding `down`, `up` -/

/-- the child `down` compares with: the right one if it exists and is `Less` than the left one -/
def child (less : Nat → Nat → Bool) (h : List Nat) (i n : Nat) : Nat :=
  if 2 * i + 1 + 1 < n && lessAt less h (2 * i + 1 + 1) (2 * i + 1) then 2 * i + 1 + 1 else 2 * i + 1

theorem downF_succ (less : Nat → Nat → Bool) (fuel : Nat) (h : List Nat) (i n : Nat) :
    downF less (fuel + 1) h i n =
      if 2 * i + 1 ≥ n then h
      else if !lessAt less h (child less h i n) i then h
      else downF less fuel (swap h i (child less h i n)) (child less h i n) n := rfl

theorem child_cases (less : Nat → Nat → Bool) (h : List Nat) (i n : Nat) :
    (child less h i n = 2 * i + 1 ∧ (2 * i + 2 < n → lessAt less h (2 * i + 2) (2 * i + 1) = false)) ∨
    (child less h i n = 2 * i + 2 ∧ 2 * i + 2 < n ∧ lessAt less h (2 * i + 2) (2 * i + 1) = true) := by
  unfold child
  by_cases h1 : 2 * i + 1 + 1 < n
  · cases h2 : lessAt less h (2 * i + 1 + 1) (2 * i + 1) with
    | true => right; simp [h1]
    | false => left; simp
  · left; simp [h1]

theorem upF_succ (less : Nat → Nat → Bool) (fuel : Nat) (h : List Nat) (j : Nat) :
    upF less (fuel + 1) h j =
      if ((j - 1) / 2 == j || !lessAt less h j ((j - 1) / 2)) then h
      else upF less fuel (swap h ((j - 1) / 2) j) ((j - 1) / 2) := rfl

/-! ## length, permutation, untouched positions -/

theorem downF_length (less : Nat → Nat → Bool) (n : Nat) :
    ∀ (fuel : Nat) (h : List Nat) (i : Nat), (downF less fuel h i n).length = h.length := by
  intro fuel
  induction fuel with
  | zero => intro h i; rfl
  | succ fuel ih =>
    intro h i
    rw [downF_succ]
    split
    · rfl
    · split
      · rfl
      · rw [ih, swap_length]

theorem downF_perm (less : Nat → Nat → Bool) (n : Nat) :
    ∀ (fuel : Nat) (h : List Nat) (i : Nat), n ≤ h.length → (downF less fuel h i n).Perm h := by
  intro fuel
  induction fuel with
  | zero => intro h i _; exact List.Perm.refl _
  | succ fuel ih =>
    intro h i hn
    rw [downF_succ]
    by_cases h1 : 2 * i + 1 ≥ n
    · rw [if_pos h1]
    · rw [if_neg h1]
      split
      · exact List.Perm.refl _
      · have hc : child less h i n < n := by
          rcases child_cases less h i n with ⟨e, _⟩ | ⟨e, h2, _⟩ <;> omega
        have hp := swap_perm (h := h) (i := i) (j := child less h i n) (by omega) (by omega)
        exact (ih _ _ (by rw [swap_length]; exact hn)).trans hp

/-- `down(h, i, n)` does not touch the positions `≥ n` -/
theorem downF_getD_ge (less : Nat → Nat → Bool) (n : Nat) :
    ∀ (fuel : Nat) (h : List Nat) (i : Nat), n ≤ h.length → ∀ k, n ≤ k →
      (downF less fuel h i n).getD k 0 = h.getD k 0 := by
  intro fuel
  induction fuel with
  | zero => intro h i _ k _; rfl
  | succ fuel ih =>
    intro h i hn k hk
    rw [downF_succ]
    by_cases h1 : 2 * i + 1 ≥ n
    · rw [if_pos h1]
    · rw [if_neg h1]
      split
      · rfl
      · have hc : child less h i n < n := by
          rcases child_cases less h i n with ⟨e, _⟩ | ⟨e, h2, _⟩ <;> omega
        rw [ih _ _ (by rw [swap_length]; exact hn) k hk,
          swap_getD_other (by omega) (by omega) (by omega) (by omega)]

theorem upF_length (less : Nat → Nat → Bool) :
    ∀ (fuel : Nat) (h : List Nat) (j : Nat), (upF less fuel h j).length = h.length := by
  intro fuel
  induction fuel with
  | zero => intro h j; rfl
  | succ fuel ih =>
    intro h j
    rw [upF_succ]
    split
    · rfl
    · rw [ih, swap_length]

theorem upF_perm (less : Nat → Nat → Bool) :
    ∀ (fuel : Nat) (h : List Nat) (j : Nat), j < h.length → (upF less fuel h j).Perm h := by
  intro fuel
  induction fuel with
  | zero => intro h j _; exact List.Perm.refl _
  | succ fuel ih =>
    intro h j hj
    rw [upF_succ]
    split
    · exact List.Perm.refl _
    · have hp := swap_perm (h := h) (i := (j - 1) / 2) (j := j) (by omega) hj
      exact (ih _ _ (by rw [swap_length]; omega)).trans hp

theorem initLoop_length (less : Nat → Nat → Bool) (n : Nat) :
    ∀ (k : Nat) (h : List Nat), (initLoop less n k h).length = h.length := by
  intro k
  induction k with
  | zero => intro h; rfl
  | succ k ih => intro h; simp only [initLoop]; rw [ih]; exact downF_length less n _ _ _

theorem initLoop_perm (less : Nat → Nat → Bool) :
    ∀ (k : Nat) (h : List Nat), k ≤ h.length / 2 → (initLoop less h.length k h).Perm h := by
  intro k
  induction k with
  | zero => intro h _; exact List.Perm.refl _
  | succ k ih =>
    intro h hk
    simp only [initLoop]
    have hlen : (down less h k h.length).length = h.length := downF_length less _ _ _ _
    have hp : (down less h k h.length).Perm h := downF_perm less _ _ _ _ (Nat.le_refl _)
    have := ih (down less h k h.length) (by rw [hlen]; omega)
    rw [hlen] at this
    exact this.trans hp

/-- `heap.Init` permutes the slice -/
theorem init_perm (less : Nat → Nat → Bool) (h : List Nat) : (init less h).Perm h :=
  initLoop_perm less _ h (Nat.le_refl _)

/-- `heap.Push(h, x)` is a permutation of `h` with `x` appended -/
theorem push_perm (less : Nat → Nat → Bool) (h : List Nat) (x : Nat) : (push less h x).Perm (h ++ [x]) :=
  upF_perm less _ _ _ (by simp)

end GoLevel.GoHeap
