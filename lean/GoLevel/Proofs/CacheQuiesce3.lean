import GoLevel.Proofs.CacheQuiesce2
/-! Invariant of the cache system, part 10: the `zf` step (after `Close(true)` every node is finalised or `Close`
still has its `callFinalizer` to run) and the `lc` step (after `Close` every node on the LRU list still has its
`lru.Evict` pending). -/
namespace GoLevel.CacheM

set_option linter.unusedSimpArgs false

theorem mem_closeInstrs_fin {ns : List Node} {n : Node} (hn : n ∈ ns) :
    Instr.fin n.id true ∈ ns.flatMap (fun n =>
      (if true = true then [Instr.zero n.id] else []) ++ [Instr.levict n.id] ++
      (if true = true then [Instr.fin n.id true] else [])) := by
  rw [List.mem_flatMap]; exact ⟨n, hn, by simp⟩

theorem mem_closeInstrs_levict {force : Bool} {ns : List Node} {n : Node} (hn : n ∈ ns) :
    Instr.levict n.id ∈ ns.flatMap (fun n =>
      (if force = true then [Instr.zero n.id] else []) ++ [Instr.levict n.id] ++
      (if force = true then [Instr.fin n.id true] else [])) := by
  rw [List.mem_flatMap]; exact ⟨n, hn, by simp⟩

theorem zf_step {g sh Q log sh' i push evs} (h : InvP g sh (i :: Q) log) (hq : InvQ sh (i :: Q) log)
    (he : exec sh i = some (sh', push, evs)) :
    sh'.forced = true → ∀ n ∈ sh'.nodes,
      (n.value = none ∧ n.delFuncs = []) ∨ Instr.fin n.id true ∈ push ++ Q := by
  intro hf'
  by_cases hsf : sh.forced = true
  · have hsc : sh.closed = true := by
      cases hc : sh.closed with
      | true => rfl
      | false => rw [(h.op hc).2] at hsf; cases hsf
    have hzf := hq.zf hsf
    have hi := h.cl hsc i List.mem_cons_self
    simp only [List.mem_cons] at hzf
    cases i <;> simp only [openOnly, reduceCtorEq] at hi
    case setcap c =>
      simp only [exec, execSetcap, Option.some.injEq, Prod.mk.injEq] at he
      obtain ⟨rfl, rfl, rfl⟩ := he
      intro n hn
      obtain ⟨m, hm, hid1, href1, hk1, hv1, _, hd1, _⟩ := mem_clearLru_proj hn
      rw [hid1, hv1, hd1]
      rcases hzf m hm with h1 | (h1 | h1)
      · exact Or.inl h1
      · cases h1
      · exact Or.inr (List.mem_append_right _ h1)
    case fin fid ff =>
      simp only [exec, execFin] at he
      cases hfind : findId sh.nodes fid with
      | none =>
        simp only [hfind] at he; obtain ⟨st, dd, rfl, rfl⟩ := execFinStale_cases he
        intro n hn
        have hne := findId_none hfind n hn
        rcases hzf n hn with h1 | (h1 | h1)
        · exact Or.inl h1
        · injection h1 with h1; exact absurd h1 hne
        · exact Or.inr (by simpa using h1)
      | some n0 =>
        simp [hfind] at he; obtain ⟨rfl, rfl, rfl⟩ := he
        intro n hn
        obtain ⟨m, hm, rfl⟩ := mem_upd.mp hn
        by_cases hmf : m.id = fid
        · left; rw [if_pos hmf]; exact ⟨rfl, rfl⟩
        · rw [if_neg hmf]
          rcases hzf m hm with h1 | (h1 | h1)
          · exact Or.inl h1
          · injection h1 with h1; exact absurd h1 hmf
          · exact Or.inr (by simpa using h1)
    all_goals exec_split he
    all_goals (intro n hn)
    all_goals (try simp only [] at hf' hn)
    all_goals (simp only [List.mem_append, List.mem_cons, List.mem_map, List.mem_flatMap, List.not_mem_nil,
      or_false, false_or, reduceCtorEq, Instr.fin.injEq])
    all_goals first
      | (have := hzf n hn; grind)
      | (rw [mem_upd] at hn; obtain ⟨m, hm, rfl⟩ := hn
         have h1 := hzf m hm
         grind)
      | skip
  · have hsf' : sh.forced = false := by simpa using hsf
    cases i
    case closeLock force =>
      simp only [exec, execCloseLock] at he
      by_cases hr : sh.rlock = 0
      · by_cases hsc : sh.closed = true
        · simp [hr, hsc] at he; obtain ⟨rfl, rfl, rfl⟩ := he
          rw [hsf'] at hf'; cases hf'
        · simp only [hr, ne_eq, not_true_eq_false, if_false, hsc, Option.some.injEq, Prod.mk.injEq] at he
          obtain ⟨rfl, rfl, rfl⟩ := he
          simp only [] at hf'
          subst hf'
          intro n hn
          exact Or.inr (List.mem_append_left _ (mem_closeInstrs_fin hn))
      · simp [hr] at he
    all_goals (exfalso; exec_split he)
    all_goals (try simp only [] at hf')
    all_goals first
      | (rw [hsf'] at hf'; cases hf'; done)
      | skip

theorem lc_step {g sh Q log sh' i push evs} (h : InvP g sh (i :: Q) log) (hq : InvQ sh (i :: Q) log)
    (he : exec sh i = some (sh', push, evs)) :
    sh'.closed = true → ∀ id ∈ sh'.lru.recent, Instr.levict id ∈ push ++ Q := by
  intro hc'
  by_cases hsc : sh.closed = true
  · have hlc := hq.lc hsc
    have hi := h.cl hsc i List.mem_cons_self
    have hlr := h.lr
    simp only [List.mem_cons] at hlc
    cases i <;> simp only [openOnly, reduceCtorEq] at hi
    case setcap c =>
      simp only [exec, execSetcap, Option.some.injEq, Prod.mk.injEq] at he
      obtain ⟨rfl, rfl, rfl⟩ := he
      intro id hid
      simp only [List.mem_reverse] at hid
      have hsplit := evictTail_split sh.nodes c sh.lru.recent.reverse sh.lru.used
      have : id ∈ sh.lru.recent.reverse := by rw [← hsplit]; exact List.mem_append_right _ hid
      rcases hlc id (List.mem_reverse.mp this) with h1 | h1
      · cases h1
      · exact List.mem_append_right _ h1
    case levict lid =>
      simp only [exec, execLevict] at he
      cases hfind : findId sh.nodes lid with
      | none =>
        simp [hfind] at he; obtain ⟨rfl, rfl, rfl⟩ := he
        intro id hid
        rcases hlc id hid with h1 | h1
        · injection h1 with h1; subst h1
          obtain ⟨n, hn, hnid, _⟩ := (hlr.2 id).mp hid
          exact absurd hnid (findId_none hfind n hn)
        · simpa using h1
      | some n0 =>
        have hfs := findId_some hfind
        have hnot : n0.lru ≠ .inList → ∀ id ∈ sh.lru.recent, Instr.levict id ∈ Q := by
          intro hne id hid
          rcases hlc id hid with h1 | h1
          · injection h1 with h1; subst h1
            obtain ⟨n, hn, hnid, hl⟩ := (hlr.2 id).mp hid
            have := found_unique h.ids.1 hfind hn hnid
            subst this; exact absurd hl hne
          · exact h1
        cases hl : n0.lru with
        | none =>
          simp [hfind, hl] at he; obtain ⟨rfl, rfl, rfl⟩ := he
          intro id hid; simpa using hnot (by rw [hl]; simp) id hid
        | banned =>
          simp [hfind, hl] at he; obtain ⟨rfl, rfl, rfl⟩ := he
          intro id hid; simpa using hnot (by rw [hl]; simp) id hid
        | inList =>
          simp [hfind, hl] at he; obtain ⟨rfl, rfl, rfl⟩ := he
          intro id hid
          simp only [] at hid
          have hmem := (List.Nodup.mem_erase_iff hlr.1).mp hid
          rcases hlc id hmem.2 with h1 | h1
          · injection h1 with h1; exact absurd h1 hmem.1
          · exact List.mem_append_right _ h1
    all_goals exec_split he
    all_goals (intro id hid)
    all_goals (try simp only [] at hc' hid)
    all_goals (simp only [List.mem_append, List.mem_cons, List.mem_map, List.mem_flatMap, List.not_mem_nil,
      or_false, false_or, reduceCtorEq, Instr.levict.injEq])
    all_goals first
      | (have := hlc id hid; grind)
      | skip
  · have hso : sh.closed = false := by simpa using hsc
    cases i
    case closeLock force =>
      simp only [exec, execCloseLock] at he
      by_cases hr : sh.rlock = 0
      · simp only [hr, ne_eq, not_true_eq_false, if_false, hso, Bool.false_eq_true, Option.some.injEq,
          Prod.mk.injEq] at he
        obtain ⟨rfl, rfl, rfl⟩ := he
        intro id hid
        simp only [] at hid
        obtain ⟨n, hn, hnid, _⟩ := (h.lr.2 id).mp hid
        subst hnid
        exact List.mem_append_left _ (mem_closeInstrs_levict hn)
      · simp [hr] at he
    all_goals (exfalso; exec_split he)
    all_goals (try simp only [] at hc')
    all_goals first
      | (rw [hso] at hc'; cases hc'; done)
      | skip

end GoLevel.CacheM
