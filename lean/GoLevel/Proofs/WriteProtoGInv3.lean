import GoLevel.Proofs.WriteProtoGInv2
/-! `Tie` (accepted messages are the messages of real writer threads past their `select`) and `Nd` (each
thread at most once in a list), both from `step_keeps` / `step_members`; then `RM` (the writer waiting for
the reply of a replying leader is the last accepted one), `AM` (a writer with `acc = some j` is in `j`'s
list) and `Sq` (the group's first sequence number is `db.seq + 1` until it is published). -/
namespace GoLevel.WP

def Tie (s : St) : Prop :=
  ∀ (j : Nat) (l : Thread) (e : Mem), s.ws[j]? = some l → e ∈ l.members →
    ∃ w, s.ws[e.idx]? = some w ∧ memOf e.idx w = e ∧ w.kind = .writer ∧ w.merge = true ∧ started w.pc = true

def Nd (s : St) : Prop :=
  ∀ (j : Nat) (l : Thread), s.ws[j]? = some l → (l.members.map (·.idx)).Nodup

theorem step_tie (s t : St) (h : Step s t) (inv : Tie s) : Tie t := by
  intro j l' e hj' he
  obtain ⟨l, hj, hm⟩ := step_members s t h j l' hj'
  have old : e ∈ l.members → ∃ w, t.ws[e.idx]? = some w ∧ memOf e.idx w = e ∧ w.kind = .writer ∧
      w.merge = true ∧ started w.pc = true := by
    intro he
    obtain ⟨w, hw, h1, h2, h3, h4⟩ := inv j l e hj he
    obtain ⟨w', hw', g1, g2, g3, g4⟩ := step_keeps s t h e.idx w hw
    exact ⟨w', hw', g1.trans h1, g2.trans h2, g3.trans h3, g4 h4⟩
  rcases hm with hm | ⟨i, w, w', hi, hq, hi', hq', hk', hmerge, _, hmo, hm⟩
  · rw [hm] at he; exact old he
  · rw [hm] at he
    rcases List.mem_append.mp he with he | he
    · exact old he
    · simp only [List.mem_singleton] at he
      subst he
      exact ⟨w', hi', hmo, hk', hmerge, by rw [hq']; rfl⟩

theorem step_nd (s t : St) (h : Step s t) (tie : Tie s) (inv : Nd s) : Nd t := by
  intro j l' hj'
  obtain ⟨l, hj, hm⟩ := step_members s t h j l' hj'
  rcases hm with hm | ⟨i, w, w', hi, hq, hi', hq', hk', _, _, hmo, hm⟩
  · rw [hm]; exact inv j l hj
  · rw [hm, List.map_append, List.nodup_append]
    refine ⟨inv j l hj, by simp, ?_⟩
    intro a ha b hb
    simp only [List.map_cons, List.map_nil, List.mem_singleton, memOf] at hb
    subst hb
    obtain ⟨e, he, rfl⟩ := List.mem_map.mp ha
    obtain ⟨w0, hw0, _, _, _, hst⟩ := tie j l e hj he
    intro heq
    rw [heq, hi] at hw0; cases hw0
    rw [hq] at hst; cases hst

theorem init_tie (s : St) (h : InitAny s) : Tie s := by
  intro j l e hj he
  have := h.2.2 l (List.mem_of_getElem? hj)
  rw [this.2.2.2.2.2.2.2.1] at he; cases he

theorem init_nd (s : St) (h : InitAny s) : Nd s := by
  intro j l hj
  have := h.2.2 l (List.mem_of_getElem? hj)
  rw [this.2.2.2.2.2.2.2.1]; exact List.nodup_nil

end GoLevel.WP
