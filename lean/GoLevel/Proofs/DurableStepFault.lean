import GoLevel.Proofs.DurableMain
/-!
Job steps whose storage operation fails (`Outcome.failNoEffect`, `Outcome.failEffect`): the invariant is
preserved for every failure except the two known findings, which are excluded by hypotheses named after them:

* `NoD10`: the append of a commit's record to the manifest does not fail *after the record reached the file*,
  and the manifest `Sync` does not fail (D10: "a manifest record may reach the file although `session.commit`
  reported failure");
* `NoD26`: `SetMeta` does not fail after it took effect (the machine has no such step at all).

Covered: create / write / sync of an output table (the half-made table is dropped, the job retries; a recovery
gives up), the journal `newMem` creates in a recovery, the creation / write / sync of a new manifest and a
`SetMeta` that fails without effect (the new manifest is dropped, the commit is retried), the append of a
record to the manifest that fails without effect (`manifestFailed`: the retry writes a fresh manifest, the
repair of D8), the removal of the old manifest (logged only, the repair of D27), and every removal of an
obsolete file (logged only).
-/
namespace GoLevel.Dur

/-- `Open` gives up: the process is back where a crashed one is, the storage keeps what it has -/
theorem Inv.giveUp {cfg : Cfg} {s : St} {d d' : Disk} (h : Inv cfg s d) (hph : s.phase = .recovering)
    (hd : DiskOK cfg d' (must s) (issuedGrps s)) (hmm : ManifestMono cfg d') : Inv cfg (giveUp s) d' := by
  have hrec := h.recov hph
  rw [holds_iff] at hrec
  obtain ⟨r, _, hrec⟩ := hrec
  constructor
  · apply hd.mono _ (fun _ hx => hx)
    intro x hx
    rw [must_eq] at hx ⊢
    simp only [Dur.giveUp, List.append_nil] at hx
    exact List.mem_append_left _ hx
  · exact hmm
  · intro hc; exact absurd rfl hc
  · intro hc; cases hc
  · intro hc; cases hc
  · intro _; exact ⟨rfl, rfl, rfl, hrec.idle.2.2⟩
  · trivial

/-- a job of a recovery -/
def Job.isRecov (j : Job) : Bool :=
  match j.kind with
  | .recovMid | .recovFinal => true
  | _ => false

theorem failTo_recov {s : St} {j : Job} (hk : j.isRecov = true) (pc : JPc) : failTo s j pc = Dur.giveUp s := by
  unfold failTo Job.isRecov at *
  cases hkk : j.kind <;> rw [hkk] at hk <;> simp_all

theorem failTo_other {s : St} {j : Job} (hk : j.isRecov = false) (pc : JPc) :
    failTo s j pc = { s with job := some { j with pc := pc } } := by
  unfold failTo Job.isRecov at *
  cases hkk : j.kind <;> rw [hkk] at hk <;> simp_all

theorem JobOK.recov_phase {cfg : Cfg} {s : St} {d : Disk} {j : Job} (h : JobOK cfg s d j) (hk : j.isRecov = true) :
    s.phase = .recovering := by
  have hkind := h.kind
  unfold JobKindOK at hkind
  unfold Job.isRecov at hk
  cases hkk : j.kind <;> rw [hkk] at hk hkind <;> simp_all

theorem JobOK.mk_none {cfg : Cfg} {s : St} {d : Disk} {j : Job} (h : JobOK cfg s d j) (hk : j.isRecov = false) :
    j.mkJournal = none := by
  have hkind := h.kind
  unfold JobKindOK at hkind
  unfold Job.isRecov at hk
  cases hkk : j.kind <;> rw [hkk] at hk hkind
  · simp only at hkind
    obtain ⟨_, hkind⟩ := hkind
    split at hkind
    · exact hkind.2.2.2.2.1
    · exact hkind.2.2.2
    · exact absurd hkind id
  · cases hk
  · cases hk
  · exact hkind.2.1
  · exact hkind.2.1

/-- a failure in the table phase: the half-made table `n` is dropped; the job starts the table again, a
    recovery gives up -/
theorem inv_job_table_fault {cfg : Cfg} {s : St} {d : Disk} (h : Inv cfg s d) {j : Job} (hj : s.job = some j)
    {i : Nat} (hpc : j.pc = .tCreate i ∨ j.pc = .tWrite i ∨ j.pc = .tSync i) {n : Nat} {gs : List Grp}
    (hn : j.outs[i]? = some (n, gs)) (T0 : Files TableFile) (hT0 : ∀ t, t ≠ n → lookup T0 t = lookup d.tables t)
    (hnd0 : T0.Pairwise (fun p q => p.1 ≠ q.1)) :
    Inv cfg (failTo s j (.tCreate i)) { d with tables := T0.erase n } := by
  have hok := h.job
  rw [hj] at hok
  have hok : JobOK cfg s d j := hok
  obtain ⟨rfl, o, ho, hoi, hed⟩ := hok.table_phase hpc
  rw [hn] at hoi; cases hoi
  have hT : ∀ t, t ≠ n → lookup (T0.erase n) t = lookup d.tables t := by
    intro t ht; rw [lookup_erase, if_neg ht]; exact hT0 t ht
  have hTn : (T0.erase n).Pairwise (fun p q => p.1 ≠ q.1) := pairwise_erase _ hnd0
  have he : j.pc.early = true := by rcases hpc with e | e | e <;> rw [e] <;> rfl
  have hbc := early_beforeCommit he
  have hnr : ∀ m, j.pc ≠ .rotRemove m := by intro m hm; rw [hm] at he; cases he
  have hmem : (n, gs) ∈ j.outs := by rw [ho]; exact List.mem_singleton.2 rfl
  cases hk : j.isRecov with
  | false =>
    rw [failTo_other hk]
    apply h.table_step hj hbc hnr hmem (T0.erase n) hT hTn (.tCreate 0) (by intro m hm; cases hm) _ rfl
    apply hok.early_next he (n, gs) (Or.inl ho) _ (.tCreate 0) rfl
    · intro o' ho'
      show OutOK _ (.tCreate 0) 0 o'
      unfold OutOK
      intro hlt; exact absurd hlt (Nat.not_lt_zero _)
    · show PcIdxOK _
      unfold PcIdxOK
      show 0 < j.outs.length
      rw [ho]; exact Nat.zero_lt_one
    · exact Or.inl (hok.mk_none hk)
    · exact hed
    · intro t ht
      exact hT t (ht (n, gs) hmem)
  | true =>
    rw [failTo_recov hk]
    have hph := hok.recov_phase hk
    have hfresh := hok.fresh.2 hbc
    apply h.giveUp hph
    · apply h.disk.frame (d' := { d with tables := T0.erase n }) rfl rfl _ hTn h.disk.mnodup (fun _ hx => hx)
        (fun _ hx => hx)
      intro mf hc k hk1 v hv t ht
      apply hT
      have hfr := (holds_some (holds_some hfresh hc k hk1) hv).1 (n, gs) hmem
      have := ((h.disk.allViews mf hc k hk1 v hv).tables t ht).1
      simp only at hfr
      omega
    · exact h.mm.of_same rfl rfl

/-- what is left of the storage when an operation on the output table `n` is followed by its removal -/
theorem table_fault_disk (d : Disk) (hnd : d.tables.Pairwise (fun p q => p.1 ≠ q.1)) (n : Nat) (op : Op)
    (hop : op = .create .table n ∨ (∃ gs, op = .writeT n gs) ∨ op = .sync .table n) (o : Outcome) :
    ∃ T0, (d.exec op o).apply (.remove .table n) = { d with tables := T0.erase n } ∧
      (∀ t, t ≠ n → lookup T0 t = lookup d.tables t) ∧ T0.Pairwise (fun p q => p.1 ≠ q.1) := by
  cases o with
  | failNoEffect => exact ⟨d.tables, rfl, fun _ _ => rfl, hnd⟩
  | ok =>
    rcases hop with rfl | ⟨gs, rfl⟩ | rfl
    · exact ⟨d.tables.set n {}, rfl, fun t ht => by rw [lookup_set, if_neg ht], nodup_set hnd _ _⟩
    · exact ⟨d.tables.modify n fun t => { t with grps := gs }, rfl, fun t ht => by rw [lookup_modify, if_neg ht],
        pairwise_keys_modify (R := (· ≠ ·)) _ _ hnd⟩
    · exact ⟨d.tables.modify n fun t => { t with synced := true }, rfl, fun t ht => by rw [lookup_modify, if_neg ht],
        pairwise_keys_modify (R := (· ≠ ·)) _ _ hnd⟩
  | failEffect =>
    rcases hop with rfl | ⟨gs, rfl⟩ | rfl
    · exact ⟨d.tables.set n {}, rfl, fun t ht => by rw [lookup_set, if_neg ht], nodup_set hnd _ _⟩
    · exact ⟨d.tables.modify n fun t => { t with grps := gs }, rfl, fun t ht => by rw [lookup_modify, if_neg ht],
        pairwise_keys_modify (R := (· ≠ ·)) _ _ hnd⟩
    · exact ⟨d.tables.modify n fun t => { t with synced := true }, rfl, fun t ht => by rw [lookup_modify, if_neg ht],
        pairwise_keys_modify (R := (· ≠ ·)) _ _ hnd⟩

theorem inv_job_table_step_fault {cfg : Cfg} {s : St} {d : Disk} (h : Inv cfg s d) {j : Job} (hj : s.job = some j)
    {i : Nat} (hpc : j.pc = .tCreate i ∨ j.pc = .tWrite i ∨ j.pc = .tSync i) {rot : Bool} {o : Outcome}
    (ho : o.failed = true) {s' : St} {d' : Disk} (hs : stepJob cfg s d j rot o = some (s', d')) : Inv cfg s' d' := by
  cases hoi : j.outs[i]? with
  | none => rcases hpc with e | e | e <;> simp [stepJob, e, hoi] at hs
  | some ng =>
    obtain ⟨n, gs⟩ := ng
    rcases hpc with e | e | e
    · simp only [stepJob, e, hoi, ho, if_true, Option.some.injEq, Prod.mk.injEq] at hs
      obtain ⟨rfl, rfl⟩ := hs
      obtain ⟨T0, hd, hT0, hnd0⟩ := table_fault_disk d h.disk.tnodup n (.create .table n) (Or.inl rfl) o
      rw [hd]
      exact inv_job_table_fault h hj (Or.inl e) hoi T0 hT0 hnd0
    · simp only [stepJob, e, hoi, ho, if_true, Option.some.injEq, Prod.mk.injEq] at hs
      obtain ⟨rfl, rfl⟩ := hs
      obtain ⟨T0, hd, hT0, hnd0⟩ := table_fault_disk d h.disk.tnodup n (.writeT n gs) (Or.inr (Or.inl ⟨gs, rfl⟩)) o
      rw [hd]
      exact inv_job_table_fault h hj (Or.inr (Or.inl e)) hoi T0 hT0 hnd0
    · simp only [stepJob, e, hoi, ho, if_true, Option.some.injEq, Prod.mk.injEq] at hs
      obtain ⟨rfl, rfl⟩ := hs
      obtain ⟨T0, hd, hT0, hnd0⟩ := table_fault_disk d h.disk.tnodup n (.sync .table n) (Or.inr (Or.inr rfl)) o
      rw [hd]
      exact inv_job_table_fault h hj (Or.inr (Or.inr e)) hoi T0 hT0 hnd0

/-! ## removals: an error is only logged -/

/-- a removal that reports an error after it took effect is the removal -/
theorem stepJob_rm_failEffect {cfg : Cfg} {s : St} {d : Disk} {j : Job} {rot : Bool} {n : Nat} {rest : List Nat}
    (hpc : j.pc = .rmJ (n :: rest) ∨ j.pc = .rmT (n :: rest) ∨ j.pc = .rmM (n :: rest)) :
    stepJob cfg s d j rot .failEffect = stepJob cfg s d j rot .ok := by
  rcases hpc with e | e | e <;> simp [stepJob, e, Disk.exec]

/-- a removal that fails leaves the file: the job goes on -/
theorem inv_job_rm_noEffect {cfg : Cfg} {s : St} {d : Disk} (h : Inv cfg s d) {j : Job} (hj : s.job = some j)
    {n : Nat} {rest : List Nat} (pc' : JPc)
    (hpc : j.pc = .rmJ (n :: rest) ∧ pc' = .rmJ rest ∨ j.pc = .rmT (n :: rest) ∧ pc' = .rmT rest ∨
      j.pc = .rmM (n :: rest) ∧ pc' = .rmM rest) :
    Inv cfg { s with job := some { j with pc := pc' } } d := by
  have hok := h.job
  rw [hj] at hok
  have hok : JobOK cfg s d j := hok
  have hpost : j.pc.post = true := by rcases hpc with ⟨e, _⟩ | ⟨e, _⟩ | ⟨e, _⟩ <;> rw [e] <;> rfl
  have hpost' : pc'.post = true := by rcases hpc with ⟨_, e⟩ | ⟨_, e⟩ | ⟨_, e⟩ <;> rw [e] <;> rfl
  have hrm := hok.removals
  apply h.post_step (d' := d) hj hpost pc' hpost' rfl rfl rfl (fun _ _ _ _ => rfl) h.disk.tnodup h.disk.mnodup
  intro v hv
  rw [hv] at hrm
  simp only [Holds] at hrm
  unfold RemovalsOK at hrm ⊢
  rcases hpc with ⟨e, e'⟩ | ⟨e, e'⟩ | ⟨e, e'⟩
  · rw [e] at hrm
    subst e'
    simp only at hrm ⊢
    refine ⟨fun m hm => hrm.1 m (List.mem_cons_of_mem _ hm), hrm.2.1, fun hk => ?_⟩
    have := hrm.2.2 hk
    cases this
  · rw [e] at hrm
    subst e'
    simp only at hrm ⊢
    exact fun t ht => hrm t (List.mem_cons_of_mem _ ht)
  · rw [e] at hrm
    subst e'
    simp only at hrm ⊢
    exact fun m hm => hrm m (List.mem_cons_of_mem _ hm)

theorem inv_job_rm_fault {cfg : Cfg} {s : St} {d : Disk} (h : Inv cfg s d) {j : Job} (hj : s.job = some j)
    {n : Nat} {rest : List Nat}
    (hpc : j.pc = .rmJ (n :: rest) ∨ j.pc = .rmT (n :: rest) ∨ j.pc = .rmM (n :: rest)) {rot : Bool}
    {s' : St} {d' : Disk} (hs : stepJob cfg s d j rot .failNoEffect = some (s', d')) : Inv cfg s' d' := by
  rcases hpc with e | e | e
  · simp only [stepJob, e, Disk.exec, Option.some.injEq, Prod.mk.injEq] at hs
    obtain ⟨rfl, rfl⟩ := hs
    exact inv_job_rm_noEffect h hj (.rmJ rest) (Or.inl ⟨e, rfl⟩)
  · simp only [stepJob, e, Disk.exec, Option.some.injEq, Prod.mk.injEq] at hs
    obtain ⟨rfl, rfl⟩ := hs
    exact inv_job_rm_noEffect h hj (.rmT rest) (Or.inr (Or.inl ⟨e, rfl⟩))
  · simp only [stepJob, e, Disk.exec, Option.some.injEq, Prod.mk.injEq] at hs
    obtain ⟨rfl, rfl⟩ := hs
    exact inv_job_rm_noEffect h hj (.rmM rest) (Or.inr (Or.inr ⟨e, rfl⟩))

/-! ## `newMem` inside the last commit of a recovery fails: `Open` gives up -/

theorem inv_job_mkJournal_fault {cfg : Cfg} {s : St} {d : Disk} (h : Inv cfg s d) {j : Job}
    (hj : s.job = some j) (hpc : j.pc = .mkJournal) {rot : Bool} {o : Outcome} (ho : o.failed = true)
    {s' : St} {d' : Disk} (hs : stepJob cfg s d j rot o = some (s', d')) : Inv cfg s' d' := by
  have hok := h.job
  rw [hj] at hok
  have hok : JobOK cfg s d j := hok
  cases hn : j.mkJournal with
  | none => simp [stepJob, hpc, hn] at hs
  | some n =>
    simp only [stepJob, hpc, hn, ho, if_true, Option.some.injEq, Prod.mk.injEq] at hs
    obtain ⟨rfl, rfl⟩ := hs
    -- only the last commit of a recovery makes a journal
    have hk : j.isRecov = true := by
      cases hkk : j.isRecov with
      | true => rfl
      | false => have := hok.mk_none hkk; rw [hn] at this; cases this
    have hph := hok.recov_phase hk
    have hmk := hok.mkj
    unfold MkJournalOK at hmk
    rw [hn] at hmk
    simp only at hmk
    rw [if_pos (Or.inl hpc)] at hmk
    obtain ⟨_, hall⟩ := hmk
    cases o with
    | ok => cases ho
    | failNoEffect => exact h.giveUp hph h.disk h.mm
    | failEffect =>
      exact h.giveUp hph (h.disk.journal_create n hall) (h.mm.of_same rfl rfl)

/-! ## `newManifest` fails before the switch: the new manifest is dropped, the commit is retried -/

/-- the commit goes back to `append` with manifests other than the one `CURRENT` names changed -/
theorem inv_job_back_to_append {cfg : Cfg} {s : St} {d : Disk} (h : Inv cfg s d) {j : Job} (hj : s.job = some j)
    (hbc : j.pc.beforeCommit = true) (hlate : j.pc ≠ .mkJournal ∧ j.pc.tablesDone = true)
    (ms : Files (LogFile MRec)) (hms : ∀ c, d.current = some c → lookup ms c = lookup d.manifests c)
    (hnd : ms.Pairwise (fun p q => p.1 ≠ q.1)) :
    Inv cfg (failTo s j .append) { d with manifests := ms } := by
  have hok := h.job
  rw [hj] at hok
  have hok : JobOK cfg s d j := hok
  have hnr : ∀ m, j.pc ≠ .rotRemove m := by intro m hm; rw [hm] at hbc; cases hbc
  have hsett := hok.mirror_before hbc
  have hcm : curManifest { d with manifests := ms } = curManifest d := curManifest_other hms
  cases hk : j.isRecov with
  | false =>
    rw [failTo_other hk]
    let j' : Job := { j with pc := .append }
    have hpost : j.pc.post = false := by
      cases hpc : j.pc <;> rw [hpc] at hbc <;> simp_all [JPc.post, JPc.beforeCommit]
    obtain ⟨e, he⟩ := hok.edit_some hpost
    have := h.other_manifest_step hj hnr hbc ms hms hnd j' s.nextFile (Nat.le_refl _) (by intro m hm; cases hm) rfl
    apply this
    rw [upd_eq]
    apply JobOK.late_next (d' := { d with manifests := ms }) hok hlate j' ⟨rfl, rfl, rfl, rfl, rfl⟩
      ⟨(by intro x; cases x), rfl⟩ s.nextFile s.live s.stJn s.stSq s.manifestFd s.manifestOpen (Nat.le_refl _) rfl
      (fun _ => rfl) hok.one.2
    · unfold JobManifestOK
      show match j.edit with
        | some e => JobManifest cfg _ _ e .append
        | none => _
      rw [he]
      simp only [JobManifest]
      unfold Settled lastView at hsett ⊢
      rw [hcm]
      exact hsett
    · intro _
      exact ⟨hbc, hcm⟩
    · have hl : lastView cfg { d with manifests := ms } = lastView cfg d := by unfold lastView; rw [hcm]
      rw [hl]
      exact hok.removals.imp (fun v _ => late_not_rm (j := j')
        ⟨(by intro l x; cases x), (by intro l x; cases x), (by intro l x; cases x)⟩)
    · intro hn; rw [he] at hn; cases hn
    · exact fun _ => rfl
    · exact fun _ => rfl
    · intro hb'; cases hb'
  | true =>
    rw [failTo_recov hk]
    exact h.giveUp (hok.recov_phase hk)
      (h.disk.frame (d' := { d with manifests := ms }) hcm rfl (fun _ _ _ _ _ _ _ _ => rfl) h.disk.tnodup hnd
        (fun _ hx => hx) (fun _ hx => hx))
      (h.mm.of_same hcm rfl)

/-- what is left of the manifests when an operation on the new manifest `m` is followed by its removal -/
theorem manifest_fault_disk (d : Disk) (hnd : d.manifests.Pairwise (fun p q => p.1 ≠ q.1)) (m : Nat) (op : Op)
    (hop : op = .create .manifest m ∨ (∃ r, op = .writeM m r) ∨ op = .sync .manifest m) (o : Outcome) :
    ∃ M0, (d.exec op o).apply (.remove .manifest m) = { d with manifests := M0.erase m } ∧
      (∀ c, c ≠ m → lookup M0 c = lookup d.manifests c) ∧ M0.Pairwise (fun p q => p.1 ≠ q.1) := by
  cases o with
  | failNoEffect => exact ⟨d.manifests, rfl, fun _ _ => rfl, hnd⟩
  | ok =>
    rcases hop with rfl | ⟨r, rfl⟩ | rfl
    · exact ⟨d.manifests.set m {}, rfl, fun t ht => by rw [lookup_set, if_neg ht], nodup_set hnd _ _⟩
    · exact ⟨d.manifests.modify m (·.append r), rfl, fun t ht => by rw [lookup_modify, if_neg ht],
        pairwise_keys_modify (R := (· ≠ ·)) _ _ hnd⟩
    · exact ⟨d.manifests.modify m (·.sync), rfl, fun t ht => by rw [lookup_modify, if_neg ht],
        pairwise_keys_modify (R := (· ≠ ·)) _ _ hnd⟩
  | failEffect =>
    rcases hop with rfl | ⟨r, rfl⟩ | rfl
    · exact ⟨d.manifests.set m {}, rfl, fun t ht => by rw [lookup_set, if_neg ht], nodup_set hnd _ _⟩
    · exact ⟨d.manifests.modify m (·.append r), rfl, fun t ht => by rw [lookup_modify, if_neg ht],
        pairwise_keys_modify (R := (· ≠ ·)) _ _ hnd⟩
    · exact ⟨d.manifests.modify m (·.sync), rfl, fun t ht => by rw [lookup_modify, if_neg ht],
        pairwise_keys_modify (R := (· ≠ ·)) _ _ hnd⟩

/-- the common end of the failures inside `newManifest`: manifest `m`, which `CURRENT` does not name, is gone -/
theorem inv_job_newManifest_fault {cfg : Cfg} {s : St} {d : Disk} (h : Inv cfg s d) {j : Job} (hj : s.job = some j)
    (hbc : j.pc.beforeCommit = true) (hlate : j.pc ≠ .mkJournal ∧ j.pc.tablesDone = true) {m : Nat}
    (hmc : some m ≠ d.current) (M0 : Files (LogFile MRec)) (hM0 : ∀ c, c ≠ m → lookup M0 c = lookup d.manifests c)
    (hnd0 : M0.Pairwise (fun p q => p.1 ≠ q.1)) :
    Inv cfg (failTo s j .append) { d with manifests := M0.erase m } := by
  apply inv_job_back_to_append h hj hbc hlate _ _ (pairwise_erase _ hnd0)
  intro c hc
  have hne : c ≠ m := fun e => hmc (by rw [hc, e])
  rw [lookup_erase, if_neg hne]
  exact hM0 c hne

theorem JobOK.rot_mc {cfg : Cfg} {s : St} {d : Disk} {j : Job} (h : JobOK cfg s d j) {m : Nat}
    (hpc : j.pc = .rotWrite m ∨ j.pc = .rotSync m ∨ j.pc = .rotSetMeta m) : some m ≠ d.current := by
  have hpost : j.pc.post = false := by rcases hpc with e | e | e <;> rw [e] <;> rfl
  obtain ⟨e, he⟩ := h.edit_some hpost
  have hm := h.manifest
  unfold JobManifestOK at hm
  rw [he] at hm
  rcases hpc with e' | e' | e' <;> rw [e'] at hm <;> simp only [JobManifest] at hm <;> exact hm.2.1

/-- the creation of the new manifest fails -/
theorem inv_job_append_rotate_fault {cfg : Cfg} {s : St} {d : Disk} (h : Inv cfg s d) {j : Job}
    (hj : s.job = some j) (hpc : j.pc = .append) {rot : Bool}
    (hrot : rot = true ∨ s.manifestOpen = false ∨ s.manifestFailed = true) {o : Outcome} (ho : o.failed = true)
    {s' : St} {d' : Disk} (hs : stepJob cfg s d j rot o = some (s', d')) : Inv cfg s' d' := by
  have hok := h.job
  rw [hj] at hok
  have hok : JobOK cfg s d j := hok
  obtain ⟨e, he⟩ := hok.edit_some (by rw [hpc]; rfl)
  have hc : (rot = true ∨ ¬ s.manifestOpen = true ∨ s.manifestFailed = true) := by
    rcases hrot with h1 | h1 | h1
    · exact Or.inl h1
    · exact Or.inr (Or.inl (by rw [h1]; simp))
    · exact Or.inr (Or.inr h1)
  simp only [stepJob, hpc, he, if_pos hc, ho, if_true, Option.some.injEq, Prod.mk.injEq] at hs
  obtain ⟨rfl, rfl⟩ := hs
  obtain ⟨M0, hd, hM0, hnd0⟩ := manifest_fault_disk d h.disk.mnodup s.nextFile (.create .manifest s.nextFile)
    (Or.inl rfl) o
  rw [hd]
  have hcl := h.cur_lt hj
  apply inv_job_newManifest_fault h hj (by rw [hpc]; rfl) (by rw [hpc]; exact ⟨(by intro x; cases x), rfl⟩) _ M0 hM0 hnd0
  intro hx
  rw [← hx] at hcl
  exact Nat.lt_irrefl _ hcl

/-- the append of the record to the manifest fails, nothing reached the file: `manifestFailed` -/
theorem inv_job_append_normal_fault {cfg : Cfg} {s : St} {d : Disk} (h : Inv cfg s d) {j : Job}
    (hj : s.job = some j) (hpc : j.pc = .append) (hopen : s.manifestOpen = true) (hmfl : s.manifestFailed = false)
    {s' : St} {d' : Disk} (hs : stepJob cfg s d j false .failNoEffect = some (s', d')) : Inv cfg s' d' := by
  have hok := h.job
  rw [hj] at hok
  have hok : JobOK cfg s d j := hok
  obtain ⟨e, he⟩ := hok.edit_some (by rw [hpc]; rfl)
  cases hm : s.manifestFd with
  | none => simp [stepJob, hpc, he, hopen, hm, hmfl] at hs
  | some m =>
    simp only [stepJob, hpc, he, hopen, hmfl, hm, Disk.exec, Outcome.failed, if_true, Bool.false_eq_true,
      not_true_eq_false, or_self, if_false, Option.some.injEq, Prod.mk.injEq] at hs
    obtain ⟨rfl, rfl⟩ := hs
    have h1 := h.set_manifestFailed true
    have := inv_job_back_to_append (s := { s with manifestFailed := true }) h1 hj (by rw [hpc]; rfl)
      (by rw [hpc]; exact ⟨(by intro x; cases x), rfl⟩) d.manifests (fun _ _ => rfl) h.disk.mnodup
    have heq : ({ s with manifestFd := some m, manifestOpen := true, manifestFailed := true } : St) =
        { s with manifestFailed := true } := by
      cases s; simp_all
    rw [heq]
    exact this

/-- writing or syncing the new manifest fails, or `SetMeta` fails without effect -/
theorem inv_job_rot_fault {cfg : Cfg} {s : St} {d : Disk} (h : Inv cfg s d) {j : Job}
    (hj : s.job = some j) {m : Nat} (hpc : j.pc = .rotWrite m ∨ j.pc = .rotSync m ∨ j.pc = .rotSetMeta m)
    {rot : Bool} {o : Outcome} (ho : o.failed = true) (hnd26 : (∃ m, j.pc = .rotSetMeta m) → o = .failNoEffect)
    {s' : St} {d' : Disk} (hs : stepJob cfg s d j rot o = some (s', d')) : Inv cfg s' d' := by
  have hok := h.job
  rw [hj] at hok
  have hok : JobOK cfg s d j := hok
  have hpost : j.pc.post = false := by rcases hpc with e | e | e <;> rw [e] <;> rfl
  obtain ⟨e, he⟩ := hok.edit_some hpost
  have hmc := hok.rot_mc hpc
  have hbc : j.pc.beforeCommit = true := by rcases hpc with e | e | e <;> rw [e] <;> rfl
  have hlate : j.pc ≠ .mkJournal ∧ j.pc.tablesDone = true := by
    rcases hpc with e | e | e <;> rw [e] <;> exact ⟨(by intro x; cases x), rfl⟩
  rcases hpc with e' | e' | e'
  · simp only [stepJob, e', he, ho, if_true, Option.some.injEq, Prod.mk.injEq] at hs
    obtain ⟨rfl, rfl⟩ := hs
    obtain ⟨M0, hd, hM0, hnd0⟩ := manifest_fault_disk d h.disk.mnodup m (.writeM m (snapshotRec cfg s e))
      (Or.inr (Or.inl ⟨_, rfl⟩)) o
    rw [hd]
    exact inv_job_newManifest_fault h hj hbc hlate hmc M0 hM0 hnd0
  · simp only [stepJob, e', ho, if_true, Option.some.injEq, Prod.mk.injEq] at hs
    obtain ⟨rfl, rfl⟩ := hs
    obtain ⟨M0, hd, hM0, hnd0⟩ := manifest_fault_disk d h.disk.mnodup m (.sync .manifest m) (Or.inr (Or.inr rfl)) o
    rw [hd]
    exact inv_job_newManifest_fault h hj hbc hlate hmc M0 hM0 hnd0
  · have hone := hnd26 ⟨m, e'⟩
    subst hone
    simp only [stepJob, e', Disk.exec, Outcome.failed, if_true] at hs
    have hj' : ({ s with manifestFailed := true } : St).job = some j := hj
    -- if the `GetMeta` of the cleanup fails as well the new manifest (not current) is kept; the commit is retried
    have A := inv_job_back_to_append (h.set_manifestFailed true) hj' hbc hlate d.manifests (fun _ _ => rfl) h.disk.mnodup
    have B := inv_job_newManifest_fault h hj hbc hlate hmc d.manifests (fun _ _ => rfl) h.disk.mnodup
    repeat' split at hs
    all_goals first
      | (simp only [Option.some.injEq, Prod.mk.injEq] at hs; obtain ⟨rfl, rfl⟩ := hs; exact A)
      | (simp only [Option.some.injEq, Prod.mk.injEq] at hs; obtain ⟨rfl, rfl⟩ := hs; exact B)
      | cases hs

/-- the removal of the old manifest fails: logged, the commit goes on (the repair of D27) -/
theorem inv_job_rotRemove_any {cfg : Cfg} {s : St} {d : Disk} (h : Inv cfg s d) {j : Job}
    (hj : s.job = some j) {m : Nat} (hpc : j.pc = .rotRemove m) {rot : Bool} {o : Outcome}
    {s' : St} {d' : Disk} (hs : stepJob cfg s d j rot o = some (s', d')) : Inv cfg s' d' := by
  have hok := h.job
  rw [hj] at hok
  have hok : JobOK cfg s d j := hok
  obtain ⟨e, he⟩ := hok.edit_some (by rw [hpc]; rfl)
  have hman := hok.manifest
  unfold JobManifestOK at hman
  rw [he] at hman
  simp only [hpc, JobManifest] at hman
  obtain ⟨hc, hfdne, _⟩ := hman
  simp only [stepJob, hpc, Option.some.injEq, Prod.mk.injEq] at hs
  obtain ⟨rfl, rfl⟩ := hs
  cases hf : s.manifestFd with
  | none =>
    simp only
    exact (inv_rotRemove_core h hj hpc d.manifests (fun _ _ => rfl) h.disk.mnodup).set_manifestFailed false
  | some old =>
    simp only
    cases o with
    | failNoEffect =>
      exact (inv_rotRemove_core h hj hpc d.manifests (fun _ _ => rfl) h.disk.mnodup).set_manifestFailed false
    | ok =>
      refine (inv_rotRemove_core h hj hpc (d.manifests.erase old) ?_
        (pairwise_erase _ h.disk.mnodup)).set_manifestFailed false
      intro c hcc
      rw [hc] at hcc; cases hcc
      rw [lookup_erase, if_neg (fun ec => hfdne (by rw [hf, ec]))]
    | failEffect =>
      refine (inv_rotRemove_core h hj hpc (d.manifests.erase old) ?_
        (pairwise_erase _ h.disk.mnodup)).set_manifestFailed false
      intro c hcc
      rw [hc] at hcc; cases hcc
      rw [lookup_erase, if_neg (fun ec => hfdne (by rw [hf, ec]))]

/-! ## the dispatcher -/

/-- the pcs whose step does no storage operation -/
theorem stepJob_no_op {cfg : Cfg} {s : St} {d : Disk} {j : Job} {rot : Bool} (o : Outcome)
    (hpc : j.pc = .install ∨ j.pc = .rmJ [] ∨ j.pc = .rmT [] ∨ j.pc = .rmM [] ∨ j.pc = .done ∨ j.pc = .earlyRm) :
    stepJob cfg s d j rot o = stepJob cfg s d j rot .ok := by
  rcases hpc with e | e | e | e | e | e <;> simp [stepJob, e]

/-- every step of a job preserves the invariant, whatever its storage operation answers, the two known findings
    excepted -/
theorem inv_job_step_any {cfg : Cfg} (hg : cfg.Good) {s : St} {d : Disk} (h : Inv cfg s d) {j : Job}
    (hj : s.job = some j) {rot : Bool} {o : Outcome} (h10 : (Act.job rot o).noD10 s = true)
    (h26 : (Act.job rot o).noD26 s = true) {s' : St} {d' : Disk}
    (hs : stepJob cfg s d j rot o = some (s', d')) : Inv cfg s' d' := by
  by_cases hok : o = .ok
  · subst hok; exact inv_job_step hg h hj hs
  have hfail : o.failed = true := by cases o <;> simp_all [Outcome.failed]
  simp only [Act.noD10, Act.noD26, hj] at h10 h26
  cases hpc : j.pc with
  | tCreate i => exact inv_job_table_step_fault h hj (Or.inl hpc) hfail hs
  | tWrite i => exact inv_job_table_step_fault h hj (Or.inr (Or.inl hpc)) hfail hs
  | tSync i => exact inv_job_table_step_fault h hj (Or.inr (Or.inr hpc)) hfail hs
  | mkJournal => exact inv_job_mkJournal_fault h hj hpc hfail hs
  | append =>
    rw [hpc] at h10
    simp only at h10
    by_cases hr : rot = true ∨ s.manifestOpen = false ∨ s.manifestFailed = true
    · exact inv_job_append_rotate_fault h hj hpc hr hfail hs
    · have h1 : rot = false := by cases rot <;> simp_all
      have h2 : s.manifestOpen = true := by cases hm : s.manifestOpen <;> simp_all
      have h3 : s.manifestFailed = false := by cases hm : s.manifestFailed <;> simp_all
      have h4 : o = .failNoEffect := by
        cases o
        · exact absurd rfl hok
        · rfl
        · simp [h1, h2, h3] at h10
      subst h1; subst h4
      exact inv_job_append_normal_fault h hj hpc h2 h3 hs
  | earlyRm => rw [stepJob_no_op o (by simp [hpc])] at hs; exact inv_job_step hg h hj hs
  | rotWrite m =>
    exact inv_job_rot_fault h hj (Or.inl hpc) hfail (fun ⟨m', hm'⟩ => by rw [hpc] at hm'; cases hm') hs
  | rotSync m =>
    exact inv_job_rot_fault h hj (Or.inr (Or.inl hpc)) hfail (fun ⟨m', hm'⟩ => by rw [hpc] at hm'; cases hm') hs
  | rotSetMeta m =>
    rw [hpc] at h26
    simp only at h26
    refine inv_job_rot_fault h hj (Or.inr (Or.inr hpc)) hfail (fun _ => ?_) hs
    cases o
    · exact absurd rfl hok
    · rfl
    · simp at h26
  | rotRemove m => exact inv_job_rotRemove_any h hj hpc hs
  | sync =>
    rw [hpc] at h10
    simp only at h10
    exact absurd (by simpa using h10) hok
  | install => rw [stepJob_no_op o (by simp [hpc])] at hs; exact inv_job_step hg h hj hs
  | rmJ l =>
    cases l with
    | nil => rw [stepJob_no_op o (by simp [hpc])] at hs; exact inv_job_step hg h hj hs
    | cons n rest =>
      cases o with
      | ok => exact absurd rfl hok
      | failNoEffect => exact inv_job_rm_fault h hj (Or.inl hpc) hs
      | failEffect => rw [stepJob_rm_failEffect (Or.inl hpc)] at hs; exact inv_job_step hg h hj hs
  | rmT l =>
    cases l with
    | nil => rw [stepJob_no_op o (by simp [hpc])] at hs; exact inv_job_step hg h hj hs
    | cons n rest =>
      cases o with
      | ok => exact absurd rfl hok
      | failNoEffect => exact inv_job_rm_fault h hj (Or.inr (Or.inl hpc)) hs
      | failEffect => rw [stepJob_rm_failEffect (Or.inr (Or.inl hpc))] at hs; exact inv_job_step hg h hj hs
  | rmM l =>
    cases l with
    | nil => rw [stepJob_no_op o (by simp [hpc])] at hs; exact inv_job_step hg h hj hs
    | cons n rest =>
      cases o with
      | ok => exact absurd rfl hok
      | failNoEffect => exact inv_job_rm_fault h hj (Or.inr (Or.inr hpc)) hs
      | failEffect => rw [stepJob_rm_failEffect (Or.inr (Or.inr hpc))] at hs; exact inv_job_step hg h hj hs
  | done => rw [stepJob_no_op o (by simp [hpc])] at hs; exact inv_job_step hg h hj hs

/-- every step of the machine under storage faults: every failure of every storage operation except D10 and D26 -/
theorem inv_step_faults {cfg : Cfg} (hg : cfg.Good) {s : St} {d : Disk}
    (h : Inv cfg s d) {a : Act} (hcs : a.writerFaultFree = true ∨ cfg.consumeSeqOnJournalError = true)
    (ha : a.faultsOK (s, d) = true) {s' : St} {d' : Disk}
    (hs : step cfg s d a = some (s', d')) : Inv cfg s' d' := by
  simp only [Act.faultsOK, Bool.and_eq_true] at ha
  obtain ⟨h10, h26⟩ := ha
  cases a with
  | job rot o =>
    simp only [step] at hs
    cases hj : s.job with
    | none => rw [hj] at hs; cases hs
    | some j =>
      rw [hj] at hs
      exact inv_job_step_any hg h hj h10 h26 hs
  | wAppend recs sync o =>
    refine inv_wAppend_any h (fun hf => ?_) hs
    rcases hcs with h1 | h1
    · cases o <;> simp_all [Act.writerFaultFree, Outcome.failed]
    · exact h1
  | wSync o =>
    refine inv_wSync_any h (fun hf => ?_) hs
    rcases hcs with h1 | h1
    · cases o <;> simp_all [Act.writerFaultFree, Outcome.failed]
    · exact h1
  | rotate o =>
    cases o with
    | ok => exact inv_step hg h (a := .rotate .ok) rfl hs
    | failEffect => exact inv_rotate_failEffect h hs
    | failNoEffect =>
      -- `Create` failed, nothing happened: `newMem` returns the error
      simp only [step, stepWriter] at hs
      split at hs
      · simp only [Outcome.failed, if_true, Disk.exec, Option.some.injEq, Prod.mk.injEq] at hs
        obtain ⟨rfl, rfl⟩ := hs
        exact h
      · cases hs
  | wApply => exact inv_step hg h (a := .wApply) rfl hs
  | wPublish => exact inv_step hg h (a := .wPublish) rfl hs
  | wAck => exact inv_step hg h (a := .wAck) rfl hs
  | flushStart => exact inv_step hg h (a := .flushStart) rfl hs
  | crash ch => exact inv_step hg h (a := .crash ch) rfl hs
  | exit => exact inv_step hg h (a := .exit) rfl hs
  | recOpen => exact inv_step hg h (a := .recOpen) rfl hs
  | recStep => exact inv_step hg h (a := .recStep) rfl hs
  | compactStart i => exact inv_step hg h (a := .compactStart i) rfl hs
  | trBegin => exact inv_step hg h (a := .trBegin) rfl hs
  | trPut r => exact inv_step hg h (a := .trPut r) rfl hs
  | trCommit => exact inv_step hg h (a := .trCommit) rfl hs
  | trDiscard => exact inv_step hg h (a := .trDiscard) rfl hs

theorem inv_run_faults {cfg : Cfg} (hg : cfg.Good) (hcs : cfg.consumeSeqOnJournalError = true) {sd sd' : St × Disk}
    (h : Inv cfg sd.1 sd.2) (as : List Act)
    (hal : Allowed cfg Act.faultsOK sd as) (hr : run cfg sd as = some sd') : Inv cfg sd'.1 sd'.2 := by
  induction as generalizing sd with
  | nil =>
    simp only [run] at hr
    cases hr
    exact h
  | cons a as ih =>
    simp only [run] at hr
    unfold Allowed allowed at hal
    rw [Bool.and_eq_true] at hal
    obtain ⟨ha, hrest⟩ := hal
    cases hst : step cfg sd.1 sd.2 a with
    | none => rw [hst] at hr; simp at hr
    | some sd1 =>
      rw [hst] at hr hrest
      simp only at hr hrest
      exact ih (inv_step_faults hg h (Or.inr hcs) ha hst) hrest hr

/-- the job faults alone (`Act.jobFaultsOnly`): no journal operation of the write path fails; no assumption on
    `consumeSeqOnJournalError` is needed -/
theorem inv_run_jobFaults {cfg : Cfg} (hg : cfg.Good) {sd sd' : St × Disk} (h : Inv cfg sd.1 sd.2)
    (as : List Act)
    (hal : Allowed cfg (fun sd a => a.jobFaultsOnly sd.1) sd as) (hr : run cfg sd as = some sd') :
    Inv cfg sd'.1 sd'.2 := by
  induction as generalizing sd with
  | nil =>
    simp only [run] at hr
    cases hr
    exact h
  | cons a as ih =>
    simp only [run] at hr
    unfold Allowed allowed at hal
    rw [Bool.and_eq_true] at hal
    obtain ⟨ha, hrest⟩ := hal
    have ha' := ha
    simp only [Act.jobFaultsOnly, Bool.and_eq_true] at ha'
    cases hst : step cfg sd.1 sd.2 a with
    | none => rw [hst] at hr; simp at hr
    | some sd1 =>
      rw [hst] at hr hrest
      simp only at hr hrest
      refine ih (inv_step_faults hg h (Or.inl ha'.1.1) ?_ hst) hrest hr
      simp only [Act.faultsOK, Bool.and_eq_true]
      exact ⟨ha'.1.2, ha'.2⟩

/-- the job faults alone (`Act.jobFaultsOnly`) are a special case -/
theorem faultsOK_of_jobFaultsOnly {sd : St × Disk} {a : Act} (h : a.jobFaultsOnly sd.1 = true) :
    a.faultsOK sd = true := by
  simp only [Act.jobFaultsOnly, Act.faultsOK, Bool.and_eq_true] at h ⊢
  exact ⟨h.1.2, h.2⟩

end GoLevel.Dur
