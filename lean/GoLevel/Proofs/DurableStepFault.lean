import GoLevel.Proofs.DurableMain
/-!
Job steps whose storage operation fails (`Outcome.failNoEffect`, `Outcome.failEffect`): the invariant is preserved
for every failure of every operation, with one condition on the configuration: `Cfg.D26Repaired` (or `Act.noD26`) — a
`SetMeta` that fails after it took effect keeps the invariant only with the repaired cleanup of `newManifest`.

Covered: create / write / sync of an output table (the half-made table is dropped, the job retries; a recovery
gives up), the journal `newMem` creates in a recovery, the creation / write / sync of a new manifest and a
`SetMeta` that fails without effect (the new manifest is dropped — or kept, not current, when `GetMeta` fails as
well —, the commit is retried), the append of a record to the manifest that fails without effect
(`manifestFailed`: the retry writes a fresh manifest, the repair of D8), the removal of the old manifest (logged
only, the repair of D27), every removal of an obsolete file (logged only) — and the three operations that put the
storage *ahead of the session* (`Inv.enter_limbo_core`): the append of the record failing after it reached the file
(`inv_job_append_normal_failEffect`), the manifest `Sync` failing with the record in the file, durable or not
(`inv_job_sync_fault`), and `SetMeta` failing after `CURRENT` was switched (`inv_job_rotSetMeta_failEffect`).
`inv_step_faults` (every good configuration, `Act.faultsOK`) and `inv_step_repaired` (the repaired configuration, no
condition on the action) are the two step theorems; both carry the standing condition `LimboSafe` in `InvL`.
-/
namespace GoLevel.Dur

/-- `Open` gives up: the process is back where a crashed one is, the storage keeps what it has -/
theorem Inv.giveUp {cfg : Cfg} {s : St} {d d' : Disk} (h : Inv cfg s d) (hph : s.phase = .recovering)
    (hd : DiskOK cfg d' (must s) (issuedGrps s)) (hmm : ManifestMono cfg d') : Inv cfg (giveUp s) d' := by
  have hrec := h.recov hph
  rw [holds_iff] at hrec
  obtain ⟨r, _, hrec⟩ := hrec
  constructor
  · apply hd.mono _ (fun _ hx => hx)
    intro x hx
    rw [must_eq] at hx ⊢
    simp only [Dur.giveUp, List.append_nil] at hx
    exact List.mem_append_left _ hx
  · exact hmm
  · intro hc; exact absurd rfl hc
  · intro hc; cases hc
  · intro hc; cases hc
  · intro _; exact ⟨rfl, rfl, rfl, hrec.idle.2.2.1, rfl⟩
  · trivial

/-- a job of a recovery -/
def Job.isRecov (j : Job) : Bool :=
  match j.kind with
  | .recovMid | .recovFinal => true
  | _ => false

theorem failTo_recov {s : St} {j : Job} (hk : j.isRecov = true) (pc : JPc) : failTo s j pc = Dur.giveUp s := by
  unfold failTo Job.isRecov at *
  cases hkk : j.kind <;> rw [hkk] at hk <;> simp_all

theorem failTo_other {s : St} {j : Job} (hk : j.isRecov = false) (pc : JPc) :
    failTo s j pc = { s with job := some { j with pc := pc } } := by
  unfold failTo Job.isRecov at *
  cases hkk : j.kind <;> rw [hkk] at hk <;> simp_all

theorem JobOK.recov_phase {cfg : Cfg} {s : St} {d : Disk} {j : Job} (h : JobOK cfg s d j) (hk : j.isRecov = true) :
    s.phase = .recovering := by
  have hkind := h.kind
  unfold JobKindOK at hkind
  unfold Job.isRecov at hk
  cases hkk : j.kind <;> rw [hkk] at hk hkind <;> simp_all

theorem JobOK.mk_none {cfg : Cfg} {s : St} {d : Disk} {j : Job} (h : JobOK cfg s d j) (hk : j.isRecov = false) :
    j.mkJournal = none := by
  have hkind := h.kind
  unfold JobKindOK at hkind
  unfold Job.isRecov at hk
  cases hkk : j.kind <;> rw [hkk] at hk hkind
  · simp only at hkind
    obtain ⟨_, hkind⟩ := hkind
    split at hkind
    · exact hkind.2.2.2.2.1
    · exact hkind.2.2.2
    · exact absurd hkind id
  · cases hk
  · cases hk
  · exact hkind.2.1
  · exact hkind.2.1

/-- a failure in the table phase: the half-made table `n` is dropped; the job starts the table again, a
    recovery gives up -/
theorem inv_job_table_fault {cfg : Cfg} {s : St} {d : Disk} (h : Inv cfg s d) {j : Job} (hj : s.job = some j)
    {i : Nat} (hpc : j.pc = .tCreate i ∨ j.pc = .tWrite i ∨ j.pc = .tSync i) {n : Nat} {gs : List Grp}
    (hn : j.outs[i]? = some (n, gs)) (T0 : Files TableFile) (hT0 : ∀ t, t ≠ n → lookup T0 t = lookup d.tables t)
    (hnd0 : T0.Pairwise (fun p q => p.1 ≠ q.1)) :
    Inv cfg (failTo s j (.tCreate i)) { d with tables := T0.erase n } := by
  have hok := h.job
  rw [hj] at hok
  have hok : JobOK cfg s d j := hok
  obtain ⟨rfl, o, ho, hoi, hed⟩ := hok.table_phase hpc
  rw [hn] at hoi; cases hoi
  have hT : ∀ t, t ≠ n → lookup (T0.erase n) t = lookup d.tables t := by
    intro t ht; rw [lookup_erase, if_neg ht]; exact hT0 t ht
  have hTn : (T0.erase n).Pairwise (fun p q => p.1 ≠ q.1) := pairwise_erase _ hnd0
  have he : j.pc.early = true := by rcases hpc with e | e | e <;> rw [e] <;> rfl
  have hbc := early_beforeCommit he
  have hnr : ∀ m, j.pc ≠ .rotRemove m := by intro m hm; rw [hm] at he; cases he
  have hmem : (n, gs) ∈ j.outs := by rw [ho]; exact List.mem_singleton.2 rfl
  have hnret : j.pc.retry = false := by rcases hpc with e | e | e <;> rw [e] <;> rfl
  cases hk : j.isRecov with
  | false =>
    rw [failTo_other hk]
    refine h.table_step hj hbc hnr hmem (T0.erase n) hT hTn (.tCreate 0) (by intro m hm; cases hm) _ rfl ?_ hnret
      (Or.inr rfl)
    refine hok.early_next he (n, gs) (Or.inl ho) _ (.tCreate 0) rfl ?_ ?_ ?_ ?_ ?_ hnret
    · intro o' ho'
      show OutOK _ (.tCreate 0) 0 o'
      unfold OutOK
      intro hlt; exact absurd hlt (Nat.not_lt_zero _)
    · show PcIdxOK _
      unfold PcIdxOK
      show 0 < j.outs.length
      rw [ho]; exact Nat.zero_lt_one
    · exact Or.inl (hok.mk_none hk)
    · exact hed
    · intro t ht
      exact hT t (ht (n, gs) hmem)
  | true =>
    rw [failTo_recov hk]
    have hph := hok.recov_phase hk
    have hfresh := hok.fresh.2 hbc
    apply h.giveUp hph
    · apply h.disk.frame (d' := { d with tables := T0.erase n }) rfl rfl _ hTn h.disk.mnodup (fun _ hx => hx)
        (fun _ hx => hx)
      intro mf hc k hk1 v hv t ht
      apply hT
      have hfr := ((holds_some (holds_some hfresh hc k hk1) hv).1 (n, gs) hmem).resolve_right (fun hx => by
        have := hx.1; rw [hnret] at this; cases this)
      have := ((h.disk.allViews mf hc k hk1 v hv).tables t ht).1
      simp only at hfr
      omega
    · exact h.mm.of_same rfl rfl

/-- what is left of the storage when an operation on the output table `n` is followed by its removal -/
theorem table_fault_disk (d : Disk) (hnd : d.tables.Pairwise (fun p q => p.1 ≠ q.1)) (n : Nat) (op : Op)
    (hop : op = .create .table n ∨ (∃ gs, op = .writeT n gs) ∨ op = .sync .table n) (o : Outcome) :
    ∃ T0, (d.exec op o).apply (.remove .table n) = { d with tables := T0.erase n } ∧
      (∀ t, t ≠ n → lookup T0 t = lookup d.tables t) ∧ T0.Pairwise (fun p q => p.1 ≠ q.1) := by
  cases o with
  | failNoEffect => exact ⟨d.tables, rfl, fun _ _ => rfl, hnd⟩
  | ok =>
    rcases hop with rfl | ⟨gs, rfl⟩ | rfl
    · exact ⟨d.tables.set n {}, rfl, fun t ht => by rw [lookup_set, if_neg ht], nodup_set hnd _ _⟩
    · exact ⟨d.tables.modify n fun t => { t with grps := gs }, rfl, fun t ht => by rw [lookup_modify, if_neg ht],
        pairwise_keys_modify (R := (· ≠ ·)) _ _ hnd⟩
    · exact ⟨d.tables.modify n fun t => { t with synced := true }, rfl, fun t ht => by rw [lookup_modify, if_neg ht],
        pairwise_keys_modify (R := (· ≠ ·)) _ _ hnd⟩
  | failEffect =>
    rcases hop with rfl | ⟨gs, rfl⟩ | rfl
    · exact ⟨d.tables.set n {}, rfl, fun t ht => by rw [lookup_set, if_neg ht], nodup_set hnd _ _⟩
    · exact ⟨d.tables.modify n fun t => { t with grps := gs }, rfl, fun t ht => by rw [lookup_modify, if_neg ht],
        pairwise_keys_modify (R := (· ≠ ·)) _ _ hnd⟩
    · exact ⟨d.tables.modify n fun t => { t with synced := true }, rfl, fun t ht => by rw [lookup_modify, if_neg ht],
        pairwise_keys_modify (R := (· ≠ ·)) _ _ hnd⟩

theorem inv_job_table_step_fault {cfg : Cfg} {s : St} {d : Disk} (h : Inv cfg s d) {j : Job} (hj : s.job = some j)
    {i : Nat} (hpc : j.pc = .tCreate i ∨ j.pc = .tWrite i ∨ j.pc = .tSync i) {rot : Bool} {o : Outcome}
    (ho : o.failed = true) {s' : St} {d' : Disk} (hs : stepJob cfg s d j rot o = some (s', d')) : Inv cfg s' d' := by
  cases hoi : j.outs[i]? with
  | none => rcases hpc with e | e | e <;> simp [stepJob, e, hoi] at hs
  | some ng =>
    obtain ⟨n, gs⟩ := ng
    rcases hpc with e | e | e
    · simp only [stepJob, e, hoi, ho, if_true, Option.some.injEq, Prod.mk.injEq] at hs
      obtain ⟨rfl, rfl⟩ := hs
      obtain ⟨T0, hd, hT0, hnd0⟩ := table_fault_disk d h.disk.tnodup n (.create .table n) (Or.inl rfl) o
      rw [hd]
      exact inv_job_table_fault h hj (Or.inl e) hoi T0 hT0 hnd0
    · simp only [stepJob, e, hoi, ho, if_true, Option.some.injEq, Prod.mk.injEq] at hs
      obtain ⟨rfl, rfl⟩ := hs
      obtain ⟨T0, hd, hT0, hnd0⟩ := table_fault_disk d h.disk.tnodup n (.writeT n gs) (Or.inr (Or.inl ⟨gs, rfl⟩)) o
      rw [hd]
      exact inv_job_table_fault h hj (Or.inr (Or.inl e)) hoi T0 hT0 hnd0
    · simp only [stepJob, e, hoi, ho, if_true, Option.some.injEq, Prod.mk.injEq] at hs
      obtain ⟨rfl, rfl⟩ := hs
      obtain ⟨T0, hd, hT0, hnd0⟩ := table_fault_disk d h.disk.tnodup n (.sync .table n) (Or.inr (Or.inr rfl)) o
      rw [hd]
      exact inv_job_table_fault h hj (Or.inr (Or.inr e)) hoi T0 hT0 hnd0

/-! ## removals: an error is only logged -/

/-- a removal that reports an error after it took effect is the removal -/
theorem stepJob_rm_failEffect {cfg : Cfg} {s : St} {d : Disk} {j : Job} {rot : Bool} {n : Nat} {rest : List Nat}
    (hpc : j.pc = .rmJ (n :: rest) ∨ j.pc = .rmT (n :: rest) ∨ j.pc = .rmM (n :: rest)) :
    stepJob cfg s d j rot .failEffect = stepJob cfg s d j rot .ok := by
  rcases hpc with e | e | e <;> simp [stepJob, e, Disk.exec]

/-- a removal that fails leaves the file: the job goes on -/
theorem inv_job_rm_noEffect {cfg : Cfg} {s : St} {d : Disk} (h : Inv cfg s d) {j : Job} (hj : s.job = some j)
    {n : Nat} {rest : List Nat} (pc' : JPc)
    (hpc : j.pc = .rmJ (n :: rest) ∧ pc' = .rmJ rest ∨ j.pc = .rmT (n :: rest) ∧ pc' = .rmT rest ∨
      j.pc = .rmM (n :: rest) ∧ pc' = .rmM rest) :
    Inv cfg { s with job := some { j with pc := pc' } } d := by
  have hok := h.job
  rw [hj] at hok
  have hok : JobOK cfg s d j := hok
  have hpost : j.pc.post = true := by rcases hpc with ⟨e, _⟩ | ⟨e, _⟩ | ⟨e, _⟩ <;> rw [e] <;> rfl
  have hpost' : pc'.post = true := by rcases hpc with ⟨_, e⟩ | ⟨_, e⟩ | ⟨_, e⟩ <;> rw [e] <;> rfl
  have hrm := hok.removals
  apply h.post_step (d' := d) hj hpost pc' hpost' rfl rfl rfl (fun _ _ _ _ _ _ _ _ => rfl) (fun _ => rfl)
    h.disk.tnodup h.disk.mnodup
  intro v hv
  rw [hv] at hrm
  simp only [Holds] at hrm
  unfold RemovalsOK at hrm ⊢
  rcases hpc with ⟨e, e'⟩ | ⟨e, e'⟩ | ⟨e, e'⟩
  · rw [e] at hrm
    subst e'
    simp only at hrm ⊢
    refine ⟨fun m hm => hrm.1 m (List.mem_cons_of_mem _ hm), hrm.2.1, fun hk => ?_,
      fun he m hm => hrm.2.2.2 he m (List.mem_cons_of_mem _ hm)⟩
    have := hrm.2.2.1 hk
    cases this
  · rw [e] at hrm
    subst e'
    simp only at hrm ⊢
    exact ⟨fun t ht => hrm.1 t (List.mem_cons_of_mem _ ht), fun he => nomatch hrm.2 he⟩
  · rw [e] at hrm
    subst e'
    simp only at hrm ⊢
    exact fun m hm => hrm m (List.mem_cons_of_mem _ hm)

theorem inv_job_rm_fault {cfg : Cfg} {s : St} {d : Disk} (h : Inv cfg s d) {j : Job} (hj : s.job = some j)
    {n : Nat} {rest : List Nat}
    (hpc : j.pc = .rmJ (n :: rest) ∨ j.pc = .rmT (n :: rest) ∨ j.pc = .rmM (n :: rest)) {rot : Bool}
    {s' : St} {d' : Disk} (hs : stepJob cfg s d j rot .failNoEffect = some (s', d')) : Inv cfg s' d' := by
  rcases hpc with e | e | e
  · simp only [stepJob, e, Disk.exec, Option.some.injEq, Prod.mk.injEq] at hs
    obtain ⟨rfl, rfl⟩ := hs
    exact inv_job_rm_noEffect h hj (.rmJ rest) (Or.inl ⟨e, rfl⟩)
  · simp only [stepJob, e, Disk.exec, Option.some.injEq, Prod.mk.injEq] at hs
    obtain ⟨rfl, rfl⟩ := hs
    exact inv_job_rm_noEffect h hj (.rmT rest) (Or.inr (Or.inl ⟨e, rfl⟩))
  · simp only [stepJob, e, Disk.exec, Option.some.injEq, Prod.mk.injEq] at hs
    obtain ⟨rfl, rfl⟩ := hs
    exact inv_job_rm_noEffect h hj (.rmM rest) (Or.inr (Or.inr ⟨e, rfl⟩))

/-! ## `newMem` inside the last commit of a recovery fails: `Open` gives up -/

theorem inv_job_mkJournal_fault {cfg : Cfg} {s : St} {d : Disk} (h : Inv cfg s d) {j : Job}
    (hj : s.job = some j) (hpc : j.pc = .mkJournal) {rot : Bool} {o : Outcome} (ho : o.failed = true)
    {s' : St} {d' : Disk} (hs : stepJob cfg s d j rot o = some (s', d')) : Inv cfg s' d' := by
  have hok := h.job
  rw [hj] at hok
  have hok : JobOK cfg s d j := hok
  cases hn : j.mkJournal with
  | none => simp [stepJob, hpc, hn] at hs
  | some n =>
    simp only [stepJob, hpc, hn, ho, if_true, Option.some.injEq, Prod.mk.injEq] at hs
    obtain ⟨rfl, rfl⟩ := hs
    -- only the last commit of a recovery makes a journal
    have hk : j.isRecov = true := by
      cases hkk : j.isRecov with
      | true => rfl
      | false => have := hok.mk_none hkk; rw [hn] at this; cases this
    have hph := hok.recov_phase hk
    have hmk := hok.mkj
    unfold MkJournalOK at hmk
    rw [hn] at hmk
    simp only at hmk
    rw [if_pos (Or.inl hpc)] at hmk
    obtain ⟨_, hall⟩ := hmk
    cases o with
    | ok => cases ho
    | failNoEffect => exact h.giveUp hph h.disk h.mm
    | failEffect =>
      exact h.giveUp hph (h.disk.journal_create n hall) (h.mm.of_same rfl rfl)

/-! ## `newManifest` fails before the switch: the new manifest is dropped, the commit is retried -/

/-- the commit goes back to `append` with manifests other than the one `CURRENT` names changed -/
theorem inv_job_back_to_append {cfg : Cfg} {s : St} {d : Disk} (h : Inv cfg s d) {j : Job} (hj : s.job = some j)
    (hbc : j.pc.beforeCommit = true) (hlate : j.pc ≠ .mkJournal ∧ j.pc.tablesDone = true)
    (ms : Files (LogFile MRec)) (hms : ∀ c, d.current = some c → lookup ms c = lookup d.manifests c)
    (hnd : ms.Pairwise (fun p q => p.1 ≠ q.1)) :
    Inv cfg (failTo s j .append) { d with manifests := ms } := by
  have hok := h.job
  rw [hj] at hok
  have hok : JobOK cfg s d j := hok
  have hnr : ∀ m, j.pc ≠ .rotRemove m := by intro m hm; rw [hm] at hbc; cases hbc
  have hsett := hok.mirror_before hbc
  have hcm : curManifest { d with manifests := ms } = curManifest d := curManifest_other hms
  cases hk : j.isRecov with
  | false =>
    rw [failTo_other hk]
    let j' : Job := { j with pc := .append }
    have hpost : j.pc.post = false := by
      cases hpc : j.pc <;> rw [hpc] at hbc <;> simp_all [JPc.post, JPc.beforeCommit]
    obtain ⟨e, he⟩ := hok.edit_some hpost
    have := h.other_manifest_step hj hnr hbc ms hms hnd j' s.nextFile (Nat.le_refl _) (by intro m hm; cases hm) rfl
    apply this
    case hlimbo =>
      rcases hp : s.phase with _ | _ | _
      · exact absurd hp (h.not_crashed hj)
      · exact LimboOK.of_none (h.limbo_none_of_recovering (by rw [hp]; decide))
      · exact (h.run hp).limbo.job_pc hj j' _ rfl rfl (fun _ => rfl) (Or.inr rfl) rfl (Nat.le_refl _)
    rw [upd_eq]
    apply JobOK.late_next (d' := { d with manifests := ms }) hok hlate j' ⟨rfl, rfl, rfl, rfl, rfl⟩
      ⟨(by intro x; cases x), rfl⟩ s.nextFile s.live s.stJn s.stSq s.manifestFd s.manifestOpen (Nat.le_refl _) rfl
      (fun _ => rfl) hok.one.2
    · unfold JobManifestOK
      show match j.edit with
        | some e => JobManifest cfg _ _ e .append
        | none => _
      rw [he]
      simp only [JobManifest]
      unfold Settled lastView at hsett ⊢
      rw [hcm]
      exact hsett
    · intro _
      exact ⟨hbc, hcm⟩
    · have hl : lastView cfg { d with manifests := ms } = lastView cfg d := by unfold lastView; rw [hcm]
      rw [hl]
      exact hok.removals.imp (fun v _ => late_not_rm (j := j')
        ⟨(by intro l x; cases x), (by intro l x; cases x), (by intro l x; cases x)⟩)
    · intro hn; rw [he] at hn; cases hn
    · exact fun _ => rfl
    · exact fun _ => rfl
    · intro hb'; cases hb'
  | true =>
    rw [failTo_recov hk]
    exact h.giveUp (hok.recov_phase hk)
      (h.disk.frame (d' := { d with manifests := ms }) hcm rfl (fun _ _ _ _ _ _ _ _ => rfl) h.disk.tnodup hnd
        (fun _ hx => hx) (fun _ hx => hx))
      (h.mm.of_same hcm rfl)

/-- what is left of the manifests when an operation on the new manifest `m` is followed by its removal -/
theorem manifest_fault_disk (d : Disk) (hnd : d.manifests.Pairwise (fun p q => p.1 ≠ q.1)) (m : Nat) (op : Op)
    (hop : op = .create .manifest m ∨ (∃ r, op = .writeM m r) ∨ op = .sync .manifest m) (o : Outcome) :
    ∃ M0, (d.exec op o).apply (.remove .manifest m) = { d with manifests := M0.erase m } ∧
      (∀ c, c ≠ m → lookup M0 c = lookup d.manifests c) ∧ M0.Pairwise (fun p q => p.1 ≠ q.1) := by
  cases o with
  | failNoEffect => exact ⟨d.manifests, rfl, fun _ _ => rfl, hnd⟩
  | ok =>
    rcases hop with rfl | ⟨r, rfl⟩ | rfl
    · exact ⟨d.manifests.set m {}, rfl, fun t ht => by rw [lookup_set, if_neg ht], nodup_set hnd _ _⟩
    · exact ⟨d.manifests.modify m (·.append r), rfl, fun t ht => by rw [lookup_modify, if_neg ht],
        pairwise_keys_modify (R := (· ≠ ·)) _ _ hnd⟩
    · exact ⟨d.manifests.modify m (·.sync), rfl, fun t ht => by rw [lookup_modify, if_neg ht],
        pairwise_keys_modify (R := (· ≠ ·)) _ _ hnd⟩
  | failEffect =>
    rcases hop with rfl | ⟨r, rfl⟩ | rfl
    · exact ⟨d.manifests.set m {}, rfl, fun t ht => by rw [lookup_set, if_neg ht], nodup_set hnd _ _⟩
    · exact ⟨d.manifests.modify m (·.append r), rfl, fun t ht => by rw [lookup_modify, if_neg ht],
        pairwise_keys_modify (R := (· ≠ ·)) _ _ hnd⟩
    · exact ⟨d.manifests.modify m (·.sync), rfl, fun t ht => by rw [lookup_modify, if_neg ht],
        pairwise_keys_modify (R := (· ≠ ·)) _ _ hnd⟩

/-- the common end of the failures inside `newManifest`: manifest `m`, which `CURRENT` does not name, is gone -/
theorem inv_job_newManifest_fault {cfg : Cfg} {s : St} {d : Disk} (h : Inv cfg s d) {j : Job} (hj : s.job = some j)
    (hbc : j.pc.beforeCommit = true) (hlate : j.pc ≠ .mkJournal ∧ j.pc.tablesDone = true) {m : Nat}
    (hmc : some m ≠ d.current) (M0 : Files (LogFile MRec)) (hM0 : ∀ c, c ≠ m → lookup M0 c = lookup d.manifests c)
    (hnd0 : M0.Pairwise (fun p q => p.1 ≠ q.1)) :
    Inv cfg (failTo s j .append) { d with manifests := M0.erase m } := by
  apply inv_job_back_to_append h hj hbc hlate _ _ (pairwise_erase _ hnd0)
  intro c hc
  have hne : c ≠ m := fun e => hmc (by rw [hc, e])
  rw [lookup_erase, if_neg hne]
  exact hM0 c hne

theorem JobOK.rot_mc {cfg : Cfg} {s : St} {d : Disk} {j : Job} (h : JobOK cfg s d j) {m : Nat}
    (hpc : j.pc = .rotWrite m ∨ j.pc = .rotSync m ∨ j.pc = .rotSetMeta m) : some m ≠ d.current := by
  have hpost : j.pc.post = false := by rcases hpc with e | e | e <;> rw [e] <;> rfl
  obtain ⟨e, he⟩ := h.edit_some hpost
  have hm := h.manifest
  unfold JobManifestOK at hm
  rw [he] at hm
  rcases hpc with e' | e' | e' <;> rw [e'] at hm <;> simp only [JobManifest] at hm <;> exact hm.2.1.1

/-- the creation of the new manifest fails -/
theorem inv_job_append_rotate_fault {cfg : Cfg} {s : St} {d : Disk} (h : Inv cfg s d) {j : Job}
    (hj : s.job = some j) (hpc : j.pc = .append) {rot : Bool}
    (hrot : rot = true ∨ s.manifestOpen = false ∨ s.manifestFailed = true) {o : Outcome} (ho : o.failed = true)
    {s' : St} {d' : Disk} (hs : stepJob cfg s d j rot o = some (s', d')) : Inv cfg s' d' := by
  have hok := h.job
  rw [hj] at hok
  have hok : JobOK cfg s d j := hok
  obtain ⟨e, he⟩ := hok.edit_some (by rw [hpc]; rfl)
  have hc : (rot = true ∨ ¬ s.manifestOpen = true ∨ s.manifestFailed = true) := by
    rcases hrot with h1 | h1 | h1
    · exact Or.inl h1
    · exact Or.inr (Or.inl (by rw [h1]; simp))
    · exact Or.inr (Or.inr h1)
  simp only [stepJob, hpc, he, if_pos hc, ho, if_true, Option.some.injEq, Prod.mk.injEq] at hs
  obtain ⟨rfl, rfl⟩ := hs
  obtain ⟨M0, hd, hM0, hnd0⟩ := manifest_fault_disk d h.disk.mnodup s.nextFile (.create .manifest s.nextFile)
    (Or.inl rfl) o
  rw [hd]
  have hcl := h.cur_lt hj
  apply inv_job_newManifest_fault h hj (by rw [hpc]; rfl) (by rw [hpc]; exact ⟨(by intro x; cases x), rfl⟩) _ M0 hM0 hnd0
  intro hx
  rw [← hx] at hcl
  exact Nat.lt_irrefl _ hcl

/-- the append of the record to the manifest fails, nothing reached the file: `manifestFailed` -/
theorem inv_job_append_normal_fault {cfg : Cfg} {s : St} {d : Disk} (h : Inv cfg s d) {j : Job}
    (hj : s.job = some j) (hpc : j.pc = .append) (hopen : s.manifestOpen = true) (hmfl : s.manifestFailed = false)
    {s' : St} {d' : Disk} (hs : stepJob cfg s d j false .failNoEffect = some (s', d')) : Inv cfg s' d' := by
  have hok := h.job
  rw [hj] at hok
  have hok : JobOK cfg s d j := hok
  obtain ⟨e, he⟩ := hok.edit_some (by rw [hpc]; rfl)
  cases hm : s.manifestFd with
  | none => simp [stepJob, hpc, he, hopen, hm, hmfl] at hs
  | some m =>
    simp only [stepJob, hpc, he, hopen, hmfl, hm, Disk.exec, Outcome.failed, if_true, Bool.false_eq_true,
      not_true_eq_false, or_self, if_false, Option.some.injEq, Prod.mk.injEq, reduceCtorEq] at hs
    obtain ⟨rfl, rfl⟩ := hs
    have h1 := h.set_manifestFailed true
    have := inv_job_back_to_append (s := { s with manifestFailed := true }) h1 hj (by rw [hpc]; rfl)
      (by rw [hpc]; exact ⟨(by intro x; cases x), rfl⟩) d.manifests (fun _ _ => rfl) h.disk.mnodup
    have heq : ({ s with manifestFd := some m, manifestOpen := true, manifestFailed := true } : St) =
        { s with manifestFailed := true } := by
      cases s; simp_all
    rw [heq]
    exact this

/-- writing or syncing the new manifest fails, or `SetMeta` fails without effect -/
theorem inv_job_rot_fault {cfg : Cfg} {s : St} {d : Disk} (h : Inv cfg s d) {j : Job}
    (hj : s.job = some j) {m : Nat} (hpc : j.pc = .rotWrite m ∨ j.pc = .rotSync m ∨ j.pc = .rotSetMeta m)
    {rot : Bool} {o : Outcome} (ho : o.failed = true) (hnd26 : (∃ m, j.pc = .rotSetMeta m) → o = .failNoEffect)
    {s' : St} {d' : Disk} (hs : stepJob cfg s d j rot o = some (s', d')) : Inv cfg s' d' := by
  have hok := h.job
  rw [hj] at hok
  have hok : JobOK cfg s d j := hok
  have hpost : j.pc.post = false := by rcases hpc with e | e | e <;> rw [e] <;> rfl
  obtain ⟨e, he⟩ := hok.edit_some hpost
  have hmc := hok.rot_mc hpc
  have hbc : j.pc.beforeCommit = true := by rcases hpc with e | e | e <;> rw [e] <;> rfl
  have hlate : j.pc ≠ .mkJournal ∧ j.pc.tablesDone = true := by
    rcases hpc with e | e | e <;> rw [e] <;> exact ⟨(by intro x; cases x), rfl⟩
  rcases hpc with e' | e' | e'
  · simp only [stepJob, e', he, ho, if_true, Option.some.injEq, Prod.mk.injEq] at hs
    obtain ⟨rfl, rfl⟩ := hs
    obtain ⟨M0, hd, hM0, hnd0⟩ := manifest_fault_disk d h.disk.mnodup m (.writeM m (snapshotRec cfg s e))
      (Or.inr (Or.inl ⟨_, rfl⟩)) o
    rw [hd]
    exact inv_job_newManifest_fault h hj hbc hlate hmc M0 hM0 hnd0
  · simp only [stepJob, e', ho, if_true, Option.some.injEq, Prod.mk.injEq] at hs
    obtain ⟨rfl, rfl⟩ := hs
    obtain ⟨M0, hd, hM0, hnd0⟩ := manifest_fault_disk d h.disk.mnodup m (.sync .manifest m) (Or.inr (Or.inr rfl)) o
    rw [hd]
    exact inv_job_newManifest_fault h hj hbc hlate hmc M0 hM0 hnd0
  · have hone := hnd26 ⟨m, e'⟩
    subst hone
    simp only [stepJob, e', Disk.exec, Outcome.failed, if_true, reduceCtorEq, if_false] at hs
    have hj' : ({ s with manifestFailed := true } : St).job = some j := hj
    -- if the `GetMeta` of the cleanup fails as well the new manifest (not current) is kept; the commit is retried
    have A := inv_job_back_to_append (h.set_manifestFailed true) hj' hbc hlate d.manifests (fun _ _ => rfl) h.disk.mnodup
    have B := inv_job_newManifest_fault h hj hbc hlate hmc d.manifests (fun _ _ => rfl) h.disk.mnodup
    repeat' split at hs
    all_goals first
      | (simp only [Option.some.injEq, Prod.mk.injEq] at hs; obtain ⟨rfl, rfl⟩ := hs; exact A)
      | (simp only [Option.some.injEq, Prod.mk.injEq] at hs; obtain ⟨rfl, rfl⟩ := hs; exact B)
      | cases hs

/-- the removal of the old manifest fails: logged, the commit goes on (the repair of D27) -/
theorem inv_job_rotRemove_any {cfg : Cfg} {s : St} {d : Disk} (h : Inv cfg s d) {j : Job}
    (hj : s.job = some j) {m : Nat} (hpc : j.pc = .rotRemove m) {rot : Bool} {o : Outcome}
    {s' : St} {d' : Disk} (hs : stepJob cfg s d j rot o = some (s', d')) : Inv cfg s' d' := by
  cases o with
  | ok => exact inv_job_rotRemove h hj hpc hs
  | failEffect =>
    have : stepJob cfg s d j rot .failEffect = stepJob cfg s d j rot .ok := by simp [stepJob, hpc, Disk.exec]
    rw [this] at hs
    exact inv_job_rotRemove h hj hpc hs
  | failNoEffect =>
    have hok := h.job
    rw [hj] at hok
    have hok : JobOK cfg s d j := hok
    obtain ⟨e, he⟩ := hok.edit_some (by rw [hpc]; rfl)
    have hl : s.limbo = none := h.limbo_none_of_post hj he (by rw [hpc]; rfl)
    simp only [stepJob, hpc, Option.some.injEq, Prod.mk.injEq] at hs
    obtain ⟨rfl, rfl⟩ := hs
    have hst : ({ s with manifestFd := some m, manifestOpen := true, manifestFailed := false, limbo := none,
                         job := some { j with pc := .install } } : St) =
        { ({ s with manifestFd := some m, manifestOpen := true, job := some { j with pc := .install } } : St) with
          manifestFailed := false } := by
      cases s
      simp only at hl
      simp only [hl]
    have key : Inv cfg { s with manifestFd := some m, manifestOpen := true, manifestFailed := false, limbo := none,
                                job := some { j with pc := .install } } d := by
      rw [hst]
      refine (inv_rotRemove_core h hj hpc d.manifests (fun _ _ => rfl) h.disk.mnodup).set_manifestFailed false ?_
      intro hx
      have : s.limbo.isSome = true := hx
      rw [hl] at this; cases this
    cases hf : s.manifestFd with
    | none => exact key
    | some old => exact key

/-! ## the storage gets ahead of the session -/

/-- An operation made the job's edit visible in the manifest `CURRENT` names and reported an error all the same (the
    append of the record, `SetMeta`): the session fails the commit and retries it through `newManifest`, while every
    crash image shows the edit or may show it.  The ghost `St.limbo` records the edit; `d'` is the storage after the
    operation, `mf'` the manifest `CURRENT` names there. -/
theorem Inv.enter_limbo_core {cfg : Cfg} {s : St} {d d' : Disk} (h : Inv cfg s d) {j : Job} (hj : s.job = some j)
    (hph : s.phase = .running) {e : MRec} (he : j.edit = some e)
    (hnr : ∀ m, j.pc ≠ .rotRemove m) (hfp : j.pc.uninstalled = true)
    (hlf : s.stJn ≤ e.jn.getD s.stJn ∧ s.stSq ≤ e.sq.getD s.stSq ∧
      ∀ t ∈ s.live, (∀ a ∈ e.added, t < a) ∧ ∀ g ∈ tableGrpsOf d t, g.fin ≤ s.stSq + 1)
    (hin : InputsOK s d { j with pc := .append } e)
    (hod : ∀ o ∈ j.outs, lookup d.tables o.1 = some ⟨o.2, true, false⟩)
    (hjr : d'.journals = d.journals) (htb : d'.tables = d.tables)
    (hdisk : DiskOK cfg d' (must s) (issuedGrps s)) (hmm : ManifestMono cfg d')
    {mf' : LogFile MRec} (hcur' : curManifest d' = some mf')
    (hviews : ∀ k ≤ mf'.unsynced.length, Holds (viewAt cfg mf' k) fun v =>
        v.sq ≤ sqCap s j ∧ v.nf ≤ s.nextFile ∧ v.jn ≤ s.jcur ∧ ∀ o ∈ j.outs, v.nf ≤ o.1 ∨ o.1 ∈ v.live)
    (hlast : Holds (viewAt cfg mf' mf'.unsynced.length) (MirrorE s e))
    (hmfd : s.manifestFd = d'.current ∨ Holds s.manifestFd fun o => Holds d'.current fun c => o < c)
    (hcurlt : Holds d'.current (· < s.nextFile))
    (hrel : Holds (viewAt cfg mf' 0) fun v0' => Holds (curManifest d) fun mf => Holds (viewAt cfg mf 0) fun v0 =>
      v0.jn ≤ v0'.jn) :
    Inv cfg { s with manifestFailed := true, limbo := some e, job := some { j with pc := .append } } d' := by
  have hok := h.job
  rw [hj] at hok
  have hok : JobOK cfg s d j := hok
  obtain ⟨hjnle, hsqle, hlive⟩ := hlf
  have hnrec : j.isRecov = false := by
    cases hk : j.isRecov with
    | false => rfl
    | true => have := hok.recov_phase hk; rw [hph] at this; cases this
  have hmk := hok.mk_none hnrec
  have hshape := hok.shape
  rw [he] at hshape
  have h1 := h.set_manifestFailed true
  have hrun := h1.run hph
  let j' : Job := { j with pc := .append }
  have hlv' : lastView cfg d' = viewAt cfg mf' mf'.unsynced.length := lastView_eq hcur'
  have hlimbo : LimboOK { s with manifestFailed := true, limbo := some e, job := some j' } d' := by
    unfold LimboOK
    show LimboFacts _ d' e
    refine ⟨rfl, hshape.2.1, hshape.2.2, hjnle, hsqle, fun t ht => ⟨(hlive t ht).1, ?_⟩, Or.inr rfl, Or.inl ⟨he, rfl⟩⟩
    have : tableGrpsOf d' t = tableGrpsOf d t := by unfold tableGrpsOf; rw [htb]
    rw [this]
    exact (hlive t ht).2
  obtain ⟨k1, k2, k3, k4, k5, k6, k7, k8, k9, k10, k11, k12⟩ := hok
  constructor
  · exact hdisk
  · exact hmm
  · intro _
    unfold ViewBounds
    rw [hcur']
    intro k hk
    refine (hviews k hk).imp (fun v hv => ⟨?_, hv.2.1, fun _ => hv.2.2.1⟩)
    have : seqHi { s with manifestFailed := true, limbo := some e, job := some j' } = sqCap s j := by
      unfold seqHi sqCap
      simp only [Option.isSome_some, or_true, if_true]
      rfl
    rw [this]
    exact hv.1
  · intro _
    exact RunOK.job_step_lb (d' := d') hrun j' s.nextFile s.live s.stJn s.stSq s.manifestFd s.manifestOpen (some e)
      (Nat.le_refl _) hjr ⟨by
        unfold MfdOK
        simp only [St.upd, Option.map_some]
        rcases hmfd with hx | hx
        · exact Or.inl hx
        · exact Or.inr ⟨rfl, hx⟩, hrun.mfd.2⟩ hcurlt
      (fun _ _ => ⟨by
        unfold FlushPending
        show Holds' s.job _
        rw [hj]
        exact fun _ => hfp, rfl, rfl⟩)
      (by rw [hcur']; exact hrel) hlimbo
  · intro hr
    have : s.phase = .recovering := hr
    rw [hph] at this; cases this
  · intro hc
    have : s.phase = .crashed := hc
    rw [hph] at this; cases this
  · show JobOK cfg _ d' j'
    refine ⟨k1, k2, ?_,
      ⟨k4.1, fun _ => ?_⟩, k5, ?_, trivial, ?_, ?_, (fun hn => by
        have : j.edit = none := hn
        rw [he] at this; cases this), ?_, (fun hb => by cases hb)⟩
    · unfold JobManifestOK
      show match j.edit with
        | some e => JobManifest cfg _ d' e .append
        | none => _
      rw [he]
      simp only [JobManifest]
      unfold Settled
      rw [hcur']
      refine ⟨(fun _ hl => by cases hl), ?_⟩
      rw [hlv']
      exact hlast.imp (fun v hv =>
        (MirrorL.of_some (s := { s with manifestFailed := true, limbo := some e, job := some j' }) rfl).2 hv)
    · apply holds_of_some hcur'
      intro k hk
      refine (hviews k hk).imp (fun v hv => ⟨fun o ho => (hv.2.2.2 o ho).imp id (fun hin => ⟨rfl, rfl, he.symm, hin⟩),
        fun n hn => ?_⟩)
      have : j.mkJournal = some n := hn
      rw [hmk] at this; cases this
    · intro i o hio
      show OutOK d' .append i o
      unfold OutOK
      intro _
      rw [htb]
      exact holds_of_some (hod o (List.mem_of_getElem? hio)) rfl
    · unfold MkJournalOK
      show match j.mkJournal with
        | none => True
        | some n => _
      rw [hmk]
      trivial
    · rw [hlv']
      exact hlast.imp (fun v _ => late_not_rm (j := j')
        ⟨(by intro l x; cases x), (by intro l x; cases x), (by intro l x; cases x)⟩)
    · show Holds' j.edit _
      rw [he]
      exact hin.transport (j' := j') rfl rfl (fun _ => rfl) (fun hb => hb) (fun _ => rfl) (fun _ t _ => by rw [htb])

/-- … from a pc before the commit (`append`, `rotSetMeta`) -/
theorem Inv.enter_limbo {cfg : Cfg} {s : St} {d d' : Disk} (h : Inv cfg s d) {j : Job} (hj : s.job = some j)
    (hph : s.phase = .running) {e : MRec} (he : j.edit = some e)
    (hpcs : j.pc = .append ∨ ∃ m, j.pc = .rotSetMeta m)
    (hjr : d'.journals = d.journals) (htb : d'.tables = d.tables)
    (hdisk : DiskOK cfg d' (must s) (issuedGrps s)) (hmm : ManifestMono cfg d')
    {mf' : LogFile MRec} (hcur' : curManifest d' = some mf')
    (hviews : ∀ k ≤ mf'.unsynced.length, Holds (viewAt cfg mf' k) fun v =>
        v.sq ≤ sqCap s j ∧ v.nf ≤ s.nextFile ∧ v.jn ≤ s.jcur ∧ ∀ o ∈ j.outs, v.nf ≤ o.1 ∨ o.1 ∈ v.live)
    (hlast : Holds (viewAt cfg mf' mf'.unsynced.length) (MirrorE s e))
    (hmfd : s.manifestFd = d'.current ∨ Holds s.manifestFd fun o => Holds d'.current fun c => o < c)
    (hcurlt : Holds d'.current (· < s.nextFile))
    (hrel : Holds (viewAt cfg mf' 0) fun v0' => Holds (curManifest d) fun mf => Holds (viewAt cfg mf 0) fun v0 =>
      v0.jn ≤ v0'.jn) :
    Inv cfg { s with manifestFailed := true, limbo := some e, job := some { j with pc := .append } } d' := by
  have hok := h.job
  rw [hj] at hok
  have hok : JobOK cfg s d j := hok
  have hbc : j.pc.beforeCommit = true := by
    rcases hpcs with e1 | ⟨m, e1⟩ <;> rw [e1] <;> rfl
  have hlate : j.pc ≠ .mkJournal ∧ j.pc.tablesDone = true := by
    rcases hpcs with e1 | ⟨m, e1⟩ <;> rw [e1] <;> exact ⟨(by intro x; cases x), rfl⟩
  have hnr : ∀ m, j.pc ≠ .rotRemove m := by intro m hm; rw [hm] at hbc; cases hbc
  obtain ⟨_, _, _, _, _, hjnle, _, _, hsqle, hlive⟩ := h.commit_view' hj he hbc hlate
  have hin := hok.inputs
  rw [he] at hin
  have hin : InputsOK s d j e := hin
  exact h.enter_limbo_core hj hph he hnr (JPc.uninstalled_of_bc hbc) ⟨hjnle, hsqle, hlive⟩
    (hin.transport (j' := { j with pc := .append }) rfl rfl (fun _ => rfl) (fun _ => hbc) (fun _ => rfl)
      (fun _ _ _ => rfl))
    (hok.outs_on_disk hbc hlate.2) hjr htb hdisk hmm hcur' hviews hlast hmfd hcurlt hrel

theorem JobOK.running_of_not_recov {cfg : Cfg} {s : St} {d : Disk} {j : Job} (h : JobOK cfg s d j)
    (hk : j.isRecov = false) : s.phase = .running := by
  have hkind := h.kind
  unfold JobKindOK at hkind
  unfold Job.isRecov at hk
  cases hkk : j.kind <;> rw [hkk] at hk hkind <;> simp_all

theorem giveUp_limbo (s : St) (b : Bool) (l : Option MRec) :
    Dur.giveUp { s with manifestFailed := b, limbo := l } = Dur.giveUp s := rfl

theorem stepJob_append_normal_failEffect {cfg : Cfg} {s : St} {d : Disk} {j : Job} {e : MRec} {m : Nat}
    (hpc : j.pc = .append) (he : j.edit = some e) (hopen : s.manifestOpen = true) (hm : s.manifestFd = some m)
    (hmf : s.manifestFailed = false) :
    stepJob cfg s d j false .failEffect =
      some (failTo { s with manifestFailed := true, limbo := some e } j .append,
            { d with manifests := d.manifests.modify m (·.append { e with nf := s.nextFile }) }) := by
  simp [stepJob, hpc, he, hopen, hm, hmf, Disk.exec, Disk.apply, Outcome.failed]

/-- **the first shape of D10**: the append of the commit's record to the manifest reports an error after the record
    reached the file.  The commit fails (`manifestFailed`), every crash image may show the edit: `St.limbo`. -/
theorem inv_job_append_normal_failEffect {cfg : Cfg} {s : St} {d : Disk} (h : Inv cfg s d) {j : Job}
    (hj : s.job = some j) (hpc : j.pc = .append) (hopen : s.manifestOpen = true) (hmfl : s.manifestFailed = false)
    {s' : St} {d' : Disk} (hs : stepJob cfg s d j false .failEffect = some (s', d')) : Inv cfg s' d' := by
  have hok := h.job
  rw [hj] at hok
  have hok : JobOK cfg s d j := hok
  have hnr : ∀ m, j.pc ≠ .rotRemove m := by rw [hpc]; intro m hm; cases hm
  have hl : s.limbo = none := h.limbo_none (fun _ => hmfl)
  have hfd := (h.mfd hj).fd hj hnr hl
  cases he : j.edit with
  | none => simp [stepJob, hpc, he] at hs
  | some e =>
    cases hm : s.manifestFd with
    | none => simp [stepJob, hpc, he, hopen, hm, hmfl] at hs
    | some m =>
      rw [stepJob_append_normal_failEffect hpc he hopen hm hmfl] at hs
      simp only [Option.some.injEq, Prod.mk.injEq] at hs
      obtain ⟨rfl, rfl⟩ := hs
      have hc : d.current = some m := by rw [← hfd, hm]
      have hbc : j.pc.beforeCommit = true := by rw [hpc]; rfl
      have hlate : j.pc ≠ .mkJournal ∧ j.pc.tablesDone = true := by rw [hpc]; exact ⟨(by intro x; cases x), rfl⟩
      obtain ⟨mf, v0, v, hparts, hlv, hvl, hed, hvok', hmono'⟩ := h.commit_view hj he hbc hlate hl
      have hcur := hparts.cur
      have hph0 := h.not_crashed hj
      have hb := h.bounds hph0
      have hmir : Mirror s v := by
        have := h.mirror_nolimbo hj hbc hl
        rw [hlv] at this
        exact this
      let e' : MRec := { e with nf := s.nextFile }
      have htorn : e'.torn = false := hed.shape.2.1
      have hstep : ((replayM cfg mf.all).step cfg e').view? =
          some ⟨applyEdit v.live e, e.jn.getD v.jn, e.sq.getD v.sq, s.nextFile⟩ := by
        rw [viewAt_all] at hvl
        exact view_step hvl e' htorn
      let d1 : Disk := { d with manifests := d.manifests.modify m (·.append e') }
      have hdisk : DiskOK cfg d1 (must s) (issuedGrps s) := by
        apply h.disk.manifest_append hc e'
        intro mf1 v01 hc1 hv01
        rw [hcur] at hc1; cases hc1
        rw [hparts.hv0] at hv01; cases hv01
        exact ⟨_, hstep, hvok', hmono'⟩
      have hmm : ManifestMono cfg d1 := by
        apply h.mm.append hc e'
        intro mf1 hc1
        rw [hcur] at hc1; cases hc1
        rw [hvl, hstep]
        simp only [Holds]
        have hcl := h.cur_lt hj
        rw [hc] at hcl
        exact ⟨hcl, hed.mono.2.1, (hb.all mf hcur _ (Nat.le_refl _) v hvl).2.1⟩
      cases hk : j.isRecov with
      | true =>
        rw [failTo_recov hk, giveUp_limbo]
        exact h.giveUp (hok.recov_phase hk) hdisk hmm
      | false =>
        rw [failTo_other hk]
        have hph := hok.running_of_not_recov hk
        have hcur1 : curManifest d1 = some (mf.append e') := by
          show curManifest { d with manifests := d.manifests.modify m (·.append e') } = _
          rw [curManifest_modify hc, hcur]; rfl
        have hlen : (mf.append e').unsynced.length = mf.unsynced.length + 1 := by simp [LogFile.append]
        obtain ⟨m1, m2, m3⟩ := hmir
        refine h.enter_limbo (d' := d1) hj hph he (Or.inl hpc) rfl rfl hdisk hmm hcur1 ?_ ?_
          (Or.inl hfd) (h.cur_lt hj) ?_
        · intro k hk'
          rw [hlen] at hk'
          rcases Nat.lt_or_ge k (mf.unsynced.length + 1) with hlt | hge
          · have hk0 : k ≤ mf.unsynced.length := Nat.le_of_lt_succ hlt
            rw [viewAt_append_le cfg mf e' hk0]
            obtain ⟨vk, hvk, _, _⟩ := hparts.views k hk0
            apply holds_of_some hvk
            have hbv := hb.all mf hcur k hk0 vk hvk
            rw [seqHi_eq (not_trWindow_of_bc hj hbc hl)] at hbv
            have hf := holds_some (holds_some (hok.fresh.2 hbc) hcur k hk0) hvk
            refine ⟨Nat.le_trans hbv.1 (h.seq_le_sqCap hj), hbv.2.1, hbv.2.2 hph, fun o ho => Or.inl ?_⟩
            exact (hf.1 o ho).resolve_right (fun hx => by have := hx.2.1; rw [hl] at this; cases this)
          · have hk1 : k = mf.unsynced.length + 1 := Nat.le_antisymm hk' hge
            rw [hk1, viewAt_append_last, hstep]
            refine ⟨hed.mono.2.2.1, Nat.le_refl _, hed.mono.2.2.2.1 hph, fun o ho => Or.inr ?_⟩
            refine mem_applyEdit.2 (Or.inr ?_)
            rw [hed.shape.1]
            exact List.mem_map.2 ⟨o, ho, rfl⟩
        · rw [hlen, viewAt_append_last, hstep]
          exact ⟨by rw [m1], by rw [m2], by rw [m3]⟩
        · rw [viewAt_append_le cfg mf e' (Nat.zero_le _), hparts.hv0]
          simp only [Holds, hcur, hparts.hv0, Nat.le_refl]

theorem stepJob_rotSetMeta_failEffect_kept {cfg : Cfg} {s : St} {d : Disk} {j : Job} {e : MRec} {m : Nat} {rot : Bool}
    (hpc : j.pc = .rotSetMeta m) (he : j.edit = some e)
    (hkeep : (cfg.cleanupChecksCurrent && (if rot then cfg.cleanupKeepsWhenGetMetaFails else true)) = true) :
    stepJob cfg s d j rot .failEffect =
      some (failTo { s with manifestFailed := true, limbo := some e } j .append, { d with current := some m }) := by
  cases rot <;> simp_all [stepJob, Disk.exec, Disk.apply, Outcome.failed]

/-- **D26**: `SetMeta` reports an error after `CURRENT` was switched to the new manifest.  The repaired cleanup of
    `newManifest` asks `GetMeta` and keeps the file `CURRENT` names (or, if `GetMeta` fails as well, keeps it to be
    safe); the commit fails (`manifestFailed`), the new manifest shows the edit: `St.limbo`. -/
theorem inv_job_rotSetMeta_failEffect {cfg : Cfg} (hg : cfg.Good) {s : St} {d : Disk} (h : Inv cfg s d) {j : Job}
    (hj : s.job = some j) {m : Nat} (hpc : j.pc = .rotSetMeta m) {rot : Bool}
    (hkeep : (cfg.cleanupChecksCurrent && (if rot then cfg.cleanupKeepsWhenGetMetaFails else true)) = true)
    {s' : St} {d' : Disk} (hs : stepJob cfg s d j rot .failEffect = some (s', d')) : Inv cfg s' d' := by
  have hok := h.job
  rw [hj] at hok
  have hok : JobOK cfg s d j := hok
  obtain ⟨e, he⟩ := hok.edit_some (by rw [hpc]; rfl)
  rw [stepJob_rotSetMeta_failEffect_kept hpc he hkeep] at hs
  simp only [Option.some.injEq, Prod.mk.injEq] at hs
  obtain ⟨rfl, rfl⟩ := hs
  have hnr : ∀ m, j.pc ≠ .rotRemove m := by rw [hpc]; intro m hm; cases hm
  obtain ⟨hsett, ⟨hmc, hcm'⟩, hmlt, hlk⟩ := hok.rot_facts he (m := m)
    (P := Holds (lookup d.manifests m) fun mf => Holds mf.synced.head? fun r =>
      mf = ⟨[{ snapshotRec cfg s e with nf := r.nf }], []⟩ ∧ m < r.nf ∧ r.nf ≤ s.nextFile ∧
      (∀ t ∈ applyEdit s.live e, t < r.nf) ∧ e.jn.getD s.stJn < r.nf) (by rw [hpc]; rfl)
  rw [holds_iff] at hlk
  obtain ⟨mf1, hlk, hr1⟩ := hlk
  rw [holds_iff] at hr1
  obtain ⟨r1, _, hmf1, hr1a, hr1b, hr1c, hr1d⟩ := hr1
  subst hmf1
  generalize hx : r1.nf = x at *
  have hbc : j.pc.beforeCommit = true := by rw [hpc]; rfl
  have hlate : j.pc ≠ .mkJournal ∧ j.pc.tablesDone = true := by rw [hpc]; exact ⟨(by intro x; cases x), rfl⟩
  obtain ⟨mf, v0, hparts, hvok', hmono', hjnle, hsqcap, hjcur, _, _⟩ := h.commit_view' hj he hbc hlate
  have hcur := hparts.cur
  have hsv : viewAt cfg ⟨[{ snapshotRec cfg s e with nf := x }], []⟩ 0 =
      some ⟨applyEdit s.live e, e.jn.getD s.stJn, e.sq.getD s.stSq, x⟩ := snapshot_view' cfg hg s e x
  let v' : MView := ⟨applyEdit s.live e, e.jn.getD s.stJn, e.sq.getD s.stSq, x⟩
  have hvok'' : ViewOK d (must s) (issuedGrps s) v' := hvok'.with_nf hr1c hr1d
  let d1 : Disk := { d with current := some m }
  have hcur1 : curManifest d1 = some ⟨[{ snapshotRec cfg s e with nf := x }], []⟩ := by
    show (some m).bind (lookup d.manifests) = _
    simp [hlk]
  have hdisk : DiskOK cfg d1 (must s) (issuedGrps s) :=
    h.disk.set_meta hlk rfl hsv hvok'' (fun mf1 v01 hc1 hv01 => by
      rw [hcur] at hc1; cases hc1
      rw [hparts.hv0] at hv01; cases hv01
      exact hmono')
  have hmm : ManifestMono cfg d1 := ManifestMono.single (d := d1) (m := m) hcur1 rfl rfl hsv hr1a
  have hshape := hok.shape
  rw [he] at hshape
  cases hk : j.isRecov with
  | true =>
    rw [failTo_recov hk, giveUp_limbo]
    exact h.giveUp (hok.recov_phase hk) hdisk hmm
  | false =>
    rw [failTo_other hk]
    have hph := hok.running_of_not_recov hk
    refine h.enter_limbo (d' := d1) hj hph he (Or.inr ⟨m, hpc⟩) rfl rfl hdisk hmm hcur1 ?_ ?_ (Or.inr ?_) hmlt ?_
    · intro k hk'
      have : k = 0 := by simpa using hk'
      subst this
      rw [hsv]
      refine ⟨hsqcap, hr1b, hjcur hph, fun o ho => Or.inr ?_⟩
      refine mem_applyEdit.2 (Or.inr ?_)
      rw [hshape.1]
      exact List.mem_map.2 ⟨o, ho, rfl⟩
    · show Holds (viewAt cfg _ 0) _
      rw [hsv]
      exact ⟨rfl, rfl, rfl⟩
    · -- the session's descriptor is the old manifest, below the new one
      have hm := h.mfd hj
      unfold MfdOK at hm
      rw [hj] at hm
      simp only [Option.map_some, hpc] at hm
      show Holds s.manifestFd fun o => Holds (some m) fun c => o < c
      cases hc : d.current with
      | none =>
        have := hparts.cur
        unfold curManifest at this
        rw [hc] at this
        cases this
      | some c =>
        rw [hc] at hm hcm'
        have hcm : c < m := hcm'
        rcases hm with hm | ⟨_, hm⟩
        · rw [hm]; exact hcm
        · refine hm.imp (fun o ho => ?_)
          have : o < c := ho
          exact Nat.lt_trans this hcm
    · rw [hsv]
      simp only [Holds, hcur, hparts.hv0]
      exact hmono'

theorem stepJob_sync_fault {cfg : Cfg} {s : St} {d : Disk} {j : Job} {e : MRec} {m : Nat} {rot : Bool} {o : Outcome}
    (hpc : j.pc = .sync) (hm : s.manifestFd = some m) (he : j.edit = some e) (ho : o.failed = true) :
    stepJob cfg s d j rot o =
      some (failTo { s with manifestFailed := true, limbo := some e } j .append, d.exec (.sync .manifest m) o) := by
  simp [stepJob, hpc, hm, ho, he]

/-- **the second shape of D10**: the `Sync` of the manifest after the append of the commit's record reports an error —
    with the record durable (`failEffect`) or not.  The commit fails (`manifestFailed`) and is retried from `append`
    through `newManifest`; the record is in the file: `St.limbo`. -/
theorem inv_job_sync_fault {cfg : Cfg} {s : St} {d : Disk} (h : Inv cfg s d) {j : Job}
    (hj : s.job = some j) (hpc : j.pc = .sync) {rot : Bool} {o : Outcome} (ho : o.failed = true)
    {s' : St} {d' : Disk} (hs : stepJob cfg s d j rot o = some (s', d')) : Inv cfg s' d' := by
  have hok := h.job
  rw [hj] at hok
  have hok : JobOK cfg s d j := hok
  have hnr : ∀ m, j.pc ≠ .rotRemove m := by rw [hpc]; intro m hm; cases hm
  obtain ⟨e, he⟩ := hok.edit_some (by rw [hpc]; rfl)
  have hl : s.limbo = none := h.limbo_none_of_post hj he (by rw [hpc]; rfl)
  have hfd := (h.mfd hj).fd hj hnr hl
  obtain ⟨mf, v0, v, hparts, hlv, hvl, hvok, hmono⟩ := h.disk.last
  have hcur := hparts.cur
  have hcm := hcur
  unfold curManifest at hcm
  cases hc : d.current with
  | none => rw [hc] at hcm; simp at hcm
  | some m =>
    have hm : s.manifestFd = some m := by rw [hfd, hc]
    rw [stepJob_sync_fault hpc hm he ho] at hs
    simp only [Option.some.injEq, Prod.mk.injEq] at hs
    obtain ⟨rfl, rfl⟩ := hs
    have hph0 := h.not_crashed hj
    have hb := h.bounds hph0
    -- the manifest clause at `sync`
    have hman := hok.manifest
    unfold JobManifestOK at hman
    rw [he] at hman
    simp only [hpc, JobManifest] at hman
    obtain ⟨hopen, hman, hsqle, hinp⟩ := hman
    obtain ⟨hun, hmir0⟩ := holds_some hman hcur
    rw [hparts.hv0] at hmir0
    obtain ⟨hmir0, hfr0⟩ : Mirror s v0 ∧ ∀ a ∈ e.added, v0.nf ≤ a := hmir0
    rw [holds_iff] at hun
    obtain ⟨r0, _, hun, _⟩ := hun
    let e' : MRec := { e with nf := r0.nf }
    have hshape := hok.shape
    rw [he] at hshape
    have htorn : e.torn = false := hshape.2.1
    have hv_eq : v = ⟨applyEdit v0.live e, e.jn.getD v0.jn, e.sq.getD v0.sq, r0.nf⟩ := by
      have h0 := hparts.hv0
      unfold viewAt at h0 hvl
      simp only [List.take_zero, List.append_nil] at h0
      rw [hun] at hvl
      simp only [List.length_singleton, List.take_succ_cons, List.take_zero] at hvl
      rw [replayM_snoc, view_step h0 e' htorn] at hvl
      exact (Option.some.inj hvl).symm
    obtain ⟨m1, m2, m3⟩ := hmir0
    have hmirE : MirrorE s e v := by
      rw [hv_eq]
      exact ⟨by rw [m1], by rw [m2], by rw [m3]⟩
    have hcom := hok.committed (by rw [hpc]; rfl)
    rw [hlv] at hcom
    have hcom : ∀ o ∈ j.outs, o.1 ∈ v.live ∧ lookup d.tables o.1 = some ⟨o.2, true, false⟩ := hcom
    have hlen : mf.unsynced.length = 1 := by rw [hun]; rfl
    -- the storage after the operation
    have hdk : ∃ mf', (d.exec (.sync .manifest m) o).journals = d.journals ∧
        (d.exec (.sync .manifest m) o).tables = d.tables ∧ (d.exec (.sync .manifest m) o).current = d.current ∧
        DiskOK cfg (d.exec (.sync .manifest m) o) (must s) (issuedGrps s) ∧
        ManifestMono cfg (d.exec (.sync .manifest m) o) ∧
        curManifest (d.exec (.sync .manifest m) o) = some mf' ∧
        (∀ k ≤ mf'.unsynced.length, viewAt cfg mf' k = some v0 ∨ viewAt cfg mf' k = some v) ∧
        viewAt cfg mf' mf'.unsynced.length = some v ∧
        (viewAt cfg mf' 0 = some v0 ∨ viewAt cfg mf' 0 = some v) := by
      cases o with
      | ok => cases ho
      | failNoEffect =>
        refine ⟨mf, rfl, rfl, rfl, h.disk, h.mm, hcur, fun k hk => ?_, hvl, Or.inl hparts.hv0⟩
        rw [hlen] at hk
        rcases Nat.eq_zero_or_pos k with hk0 | hk0
        · left; rw [hk0]; exact hparts.hv0
        · right
          have : k = mf.unsynced.length := by omega
          rw [this]; exact hvl
      | failEffect =>
        have hcs : curManifest { d with manifests := d.manifests.modify m (·.sync) } = some mf.sync := by
          rw [curManifest_modify hc, hcur]; rfl
        have hl0 : mf.sync.unsynced.length = 0 := by simp [LogFile.sync]
        refine ⟨mf.sync, rfl, rfl, rfl, h.disk.manifest_sync hc, h.mm.sync hc ⟨_, _, h.disk⟩, hcs, fun k hk => ?_, ?_,
          Or.inr ?_⟩
        · right
          have : k = 0 := by omega
          rw [this, viewAt_sync]; exact hvl
        · rw [hl0, viewAt_sync]; exact hvl
        · rw [viewAt_sync]; exact hvl
    obtain ⟨mf', hjr, htb, hce, hdisk, hmm, hcur', hvs, hlast, hv0'⟩ := hdk
    cases hk : j.isRecov with
    | true =>
      rw [failTo_recov hk, giveUp_limbo]
      exact h.giveUp (hok.recov_phase hk) hdisk hmm
    | false =>
      rw [failTo_other hk]
      have hph := hok.running_of_not_recov hk
      obtain ⟨v0', hv0e, hvok0, _⟩ := hparts.views 0 (Nat.zero_le _)
      rw [hparts.hv0] at hv0e; cases hv0e
      have hbv0 := hb.all mf hcur 0 (Nat.zero_le _) v0 hparts.hv0
      have hbv := hb.all mf hcur _ (Nat.le_refl _) v hvl
      rw [seqHi_post hj (by rw [hpc]; rfl)] at hbv0 hbv
      have hod : ∀ o ∈ j.outs, lookup d.tables o.1 = some ⟨o.2, true, false⟩ := fun o ho => (hcom o ho).2
      have hfr0' : ∀ o ∈ j.outs, v0.nf ≤ o.1 := fun o ho => hfr0 o.1 (by
        rw [hshape.1]; exact List.mem_map.2 ⟨o, ho, rfl⟩)
      have hin := hok.inputs
      rw [he] at hin
      have hin : InputsOK s d j e := hin
      refine h.enter_limbo_core hj hph he hnr (by rw [hpc]; rfl) ⟨?_, hsqle, ?_⟩ ?_ hod hjr htb hdisk hmm hcur' ?_ ?_
        (Or.inl (by rw [hce]; exact hfd)) (by rw [hce]; exact h.cur_lt hj) ?_
      · have : v.jn = e.jn.getD v0.jn := by rw [hv_eq]
        rw [← m2, ← this]
        exact hmono
      · exact hvok0.live_clause (s := s) (e := e) (j := j) m1 m3 hshape.1 hfr0'
      · unfold InputsOK at hin ⊢
        split
        · rename_i hkc
          have hkc' : j.kind = .compaction := hkc
          rw [if_pos hkc'] at hin
          obtain ⟨a, b, c, dlt, _⟩ := hin
          refine ⟨a, b, c, dlt, fun _ => ?_⟩
          obtain ⟨f1, f2⟩ := hinp a b
          refine ⟨f1, ?_⟩
          show outsGrps j = _
          rw [← f2, hshape.1, added_grps_eq hod]
          rfl
        · rename_i hkc
          have hkc' : ¬ j.kind = .compaction := hkc
          rw [if_neg hkc'] at hin
          exact hin
      · intro k hk'
        rcases hvs k hk' with hx | hx <;> rw [hx]
        · exact ⟨hbv0.1, hbv0.2.1, hbv0.2.2 hph, fun o ho => Or.inl (hfr0' o ho)⟩
        · exact ⟨hbv.1, hbv.2.1, hbv.2.2 hph, fun o ho => Or.inr (hcom o ho).1⟩
      · rw [hlast]; exact hmirE
      · rcases hv0' with hx | hx <;> rw [hx] <;> simp only [Holds, hcur, hparts.hv0]
        · exact Nat.le_refl _
        · exact hmono

/-! ## the dispatcher -/

/-- the pcs whose step does no storage operation -/
theorem stepJob_no_op {cfg : Cfg} {s : St} {d : Disk} {j : Job} {rot : Bool} (o : Outcome)
    (hpc : j.pc = .install ∨ j.pc = .rmJ [] ∨ j.pc = .rmT [] ∨ j.pc = .rmM [] ∨ j.pc = .done ∨ j.pc = .earlyRm) :
    stepJob cfg s d j rot o = stepJob cfg s d j rot .ok := by
  rcases hpc with e | e | e | e | e | e <;> simp [stepJob, e]

/-- the repairs of D26 (commits 8a67fea, 98bd5c2) -/
def Cfg.D26Repaired (cfg : Cfg) : Prop :=
  cfg.cleanupChecksCurrent = true ∧ cfg.cleanupKeepsWhenGetMetaFails = true

/-- every step of a job preserves the invariant, whatever its storage operation answers — except, in the code before
    the repair of D26, a `SetMeta` that fails after it took effect -/
theorem inv_job_step_any {cfg : Cfg} (hg : cfg.Good) {s : St} {d : Disk} (h : Inv cfg s d) {j : Job}
    (hj : s.job = some j) {rot : Bool} {o : Outcome}
    (h26 : (Act.job rot o).noD26 s = true ∨ cfg.D26Repaired) {s' : St} {d' : Disk}
    (hs : stepJob cfg s d j rot o = some (s', d')) : Inv cfg s' d' := by
  by_cases hok : o = .ok
  · subst hok; exact inv_job_step hg h hj hs
  have hfail : o.failed = true := by cases o <;> simp_all [Outcome.failed]
  simp only [Act.noD26, hj] at h26
  cases hpc : j.pc with
  | tCreate i => exact inv_job_table_step_fault h hj (Or.inl hpc) hfail hs
  | tWrite i => exact inv_job_table_step_fault h hj (Or.inr (Or.inl hpc)) hfail hs
  | tSync i => exact inv_job_table_step_fault h hj (Or.inr (Or.inr hpc)) hfail hs
  | mkJournal => exact inv_job_mkJournal_fault h hj hpc hfail hs
  | append =>
    by_cases hr : rot = true ∨ s.manifestOpen = false ∨ s.manifestFailed = true
    · exact inv_job_append_rotate_fault h hj hpc hr hfail hs
    · have h1 : rot = false := by cases rot <;> simp_all
      have h2 : s.manifestOpen = true := by cases hm : s.manifestOpen <;> simp_all
      have h3 : s.manifestFailed = false := by cases hm : s.manifestFailed <;> simp_all
      subst h1
      cases o with
      | ok => exact absurd rfl hok
      | failNoEffect => exact inv_job_append_normal_fault h hj hpc h2 h3 hs
      | failEffect => exact inv_job_append_normal_failEffect h hj hpc h2 h3 hs
  | earlyRm => rw [stepJob_no_op o (by simp [hpc])] at hs; exact inv_job_step hg h hj hs
  | rotWrite m =>
    exact inv_job_rot_fault h hj (Or.inl hpc) hfail (fun ⟨m', hm'⟩ => by rw [hpc] at hm'; cases hm') hs
  | rotSync m =>
    exact inv_job_rot_fault h hj (Or.inr (Or.inl hpc)) hfail (fun ⟨m', hm'⟩ => by rw [hpc] at hm'; cases hm') hs
  | rotSetMeta m =>
    rw [hpc] at h26
    simp only at h26
    cases o with
    | ok => exact absurd rfl hok
    | failNoEffect => exact inv_job_rot_fault h hj (Or.inr (Or.inr hpc)) hfail (fun _ => rfl) hs
    | failEffect =>
      rcases h26 with h26 | ⟨c1, c2⟩
      · simp at h26
      · exact inv_job_rotSetMeta_failEffect hg h hj hpc (by rw [c1, c2]; cases rot <;> rfl) hs
  | rotRemove m => exact inv_job_rotRemove_any h hj hpc hs
  | sync => exact inv_job_sync_fault h hj hpc hfail hs
  | install => rw [stepJob_no_op o (by simp [hpc])] at hs; exact inv_job_step hg h hj hs
  | rmJ l =>
    cases l with
    | nil => rw [stepJob_no_op o (by simp [hpc])] at hs; exact inv_job_step hg h hj hs
    | cons n rest =>
      cases o with
      | ok => exact absurd rfl hok
      | failNoEffect => exact inv_job_rm_fault h hj (Or.inl hpc) hs
      | failEffect => rw [stepJob_rm_failEffect (Or.inl hpc)] at hs; exact inv_job_step hg h hj hs
  | rmT l =>
    cases l with
    | nil => rw [stepJob_no_op o (by simp [hpc])] at hs; exact inv_job_step hg h hj hs
    | cons n rest =>
      cases o with
      | ok => exact absurd rfl hok
      | failNoEffect => exact inv_job_rm_fault h hj (Or.inr (Or.inl hpc)) hs
      | failEffect => rw [stepJob_rm_failEffect (Or.inr (Or.inl hpc))] at hs; exact inv_job_step hg h hj hs
  | rmM l =>
    cases l with
    | nil => rw [stepJob_no_op o (by simp [hpc])] at hs; exact inv_job_step hg h hj hs
    | cons n rest =>
      cases o with
      | ok => exact absurd rfl hok
      | failNoEffect => exact inv_job_rm_fault h hj (Or.inr (Or.inr hpc)) hs
      | failEffect => rw [stepJob_rm_failEffect (Or.inr (Or.inr hpc))] at hs; exact inv_job_step hg h hj hs
  | done => rw [stepJob_no_op o (by simp [hpc])] at hs; exact inv_job_step hg h hj hs

/-- every step of the machine under storage faults: every failure of every storage operation except (before the repair
    of D26) a `SetMeta` that fails with effect; `LimboSafe` is the standing condition -/
theorem inv_step_anyfault {cfg : Cfg} (hg : cfg.Good) {s : St} {d : Disk}
    (h : Inv cfg s d) {a : Act} (hcs : a.writerFaultFree = true ∨ cfg.consumeSeqOnJournalError = true)
    (h26 : a.noD26 s = true ∨ cfg.D26Repaired) (hlim : LimboSafe cfg s)
    {s' : St} {d' : Disk} (hs : step cfg s d a = some (s', d')) : Inv cfg s' d' := by
  cases a with
  | job rot o =>
    simp only [step] at hs
    cases hj : s.job with
    | none => rw [hj] at hs; cases hs
    | some j =>
      rw [hj] at hs
      exact inv_job_step_any hg h hj h26 hs
  | wAppend recs sync o =>
    refine inv_wAppend_any h (fun hf => ?_) hs
    rcases hcs with h1 | h1
    · cases o <;> simp_all [Act.writerFaultFree, Outcome.failed]
    · exact h1
  | wSync o =>
    refine inv_wSync_any h (fun hf => ?_) hs
    rcases hcs with h1 | h1
    · cases o <;> simp_all [Act.writerFaultFree, Outcome.failed]
    · exact h1
  | rotate o =>
    cases o with
    | ok => exact inv_step hg h (a := .rotate .ok) rfl hlim hs
    | failEffect => exact inv_rotate_failEffect h hs
    | failNoEffect =>
      -- `Create` failed, nothing happened: `newMem` returns the error
      simp only [step, stepWriter] at hs
      split at hs
      · simp only [Outcome.failed, if_true, Disk.exec, Option.some.injEq, Prod.mk.injEq] at hs
        obtain ⟨rfl, rfl⟩ := hs
        exact h
      · cases hs
  | wApply => exact inv_step hg h (a := .wApply) rfl hlim hs
  | wPublish => exact inv_step hg h (a := .wPublish) rfl hlim hs
  | wAck => exact inv_step hg h (a := .wAck) rfl hlim hs
  | flushStart => exact inv_step hg h (a := .flushStart) rfl hlim hs
  | crash ch => exact inv_step hg h (a := .crash ch) rfl hlim hs
  | exit => exact inv_step hg h (a := .exit) rfl hlim hs
  | recOpen => exact inv_step hg h (a := .recOpen) rfl hlim hs
  | recStep => exact inv_step hg h (a := .recStep) rfl hlim hs
  | compactStart i => exact inv_step hg h (a := .compactStart i) rfl hlim hs
  | trBegin => exact inv_step hg h (a := .trBegin) rfl hlim hs
  | trPut r => exact inv_step hg h (a := .trPut r) rfl hlim hs
  | trCommit => exact inv_step hg h (a := .trCommit) rfl hlim hs
  | trDiscard => exact inv_step hg h (a := .trDiscard) rfl hlim hs

/-- every step of the machine under storage faults: every failure of every storage operation except D10 and D26 -/
theorem inv_step_faults {cfg : Cfg} (hg : cfg.Good) {s : St} {d : Disk}
    (h : InvL cfg s d) {a : Act} (hcs : a.writerFaultFree = true ∨ cfg.consumeSeqOnJournalError = true)
    (ha : a.faultsOK (s, d) = true) {s' : St} {d' : Disk}
    (hs : step cfg s d a = some (s', d')) : InvL cfg s' d' := by
  have ha' := ha
  simp only [Act.faultsOK, Bool.and_eq_true] at ha'
  exact ⟨inv_step_anyfault hg h.1 hcs (Or.inl ha'.2) h.2 hs,
    limboSafe_step h.2 (Or.inl ha) hs⟩

/-- the repaired configuration: D10 (commit 5cf4e90) and D26 (commits 8a67fea, 98bd5c2) -/
structure Cfg.Repaired (cfg : Cfg) : Prop where
  good : cfg.Good
  cs : cfg.consumeSeqOnJournalError = true
  d10 : cfg.discardKeepsTablesWhenUncertain = true
  d26 : cfg.D26Repaired

/-- **every step of the repaired machine, whatever its storage operation answers** -/
theorem inv_step_repaired {cfg : Cfg} (hr : cfg.Repaired) {s : St} {d : Disk}
    (h : InvL cfg s d) {a : Act} {s' : St} {d' : Disk}
    (hs : step cfg s d a = some (s', d')) : InvL cfg s' d' :=
  ⟨inv_step_anyfault hr.good h.1 (Or.inr hr.cs) (Or.inr hr.d26) h.2 hs, Or.inr hr.d10⟩

theorem invL_run {cfg : Cfg} {P : St × Disk → Act → Bool}
    (hstep : ∀ s d a s' d', InvL cfg s d → P (s, d) a = true → step cfg s d a = some (s', d') → InvL cfg s' d')
    {sd sd' : St × Disk} (h : InvL cfg sd.1 sd.2) (as : List Act)
    (hal : Allowed cfg P sd as) (hr : run cfg sd as = some sd') : InvL cfg sd'.1 sd'.2 := by
  induction as generalizing sd with
  | nil =>
    simp only [run] at hr
    cases hr
    exact h
  | cons a as ih =>
    simp only [run] at hr
    unfold Allowed allowed at hal
    rw [Bool.and_eq_true] at hal
    obtain ⟨ha, hrest⟩ := hal
    cases hst : step cfg sd.1 sd.2 a with
    | none => rw [hst] at hr; simp at hr
    | some sd1 =>
      rw [hst] at hr hrest
      simp only at hr hrest
      exact ih (hstep sd.1 sd.2 a sd1.1 sd1.2 h ha hst) hrest hr

theorem inv_run_faults {cfg : Cfg} (hg : cfg.Good) (hcs : cfg.consumeSeqOnJournalError = true) {sd sd' : St × Disk}
    (h : Inv cfg sd.1 sd.2) (as : List Act)
    (hal : Allowed cfg Act.faultsOK sd as) (hr : run cfg sd as = some sd') (hl : sd.1.limbo = none := by rfl) :
    Inv cfg sd'.1 sd'.2 :=
  (invL_run (fun _ _ _ _ _ h ha hs => inv_step_faults hg h (Or.inr hcs) ha hs) ⟨h, Or.inl hl⟩ as hal hr).1

/-- the job faults alone (`Act.jobFaultsOnly`) are a special case -/
theorem faultsOK_of_jobFaultsOnly {sd : St × Disk} {a : Act} (h : a.jobFaultsOnly sd.1 = true) :
    a.faultsOK sd = true := by
  simp only [Act.jobFaultsOnly, Act.faultsOK, Bool.and_eq_true] at h ⊢
  exact ⟨h.1.2, h.2⟩

/-- the job faults alone (`Act.jobFaultsOnly`): no journal operation of the write path fails; no assumption on
    `consumeSeqOnJournalError` is needed -/
theorem inv_run_jobFaults {cfg : Cfg} (hg : cfg.Good) {sd sd' : St × Disk} (h : Inv cfg sd.1 sd.2)
    (as : List Act)
    (hal : Allowed cfg (fun sd a => a.jobFaultsOnly sd.1) sd as) (hr : run cfg sd as = some sd')
    (hl : sd.1.limbo = none := by rfl) : Inv cfg sd'.1 sd'.2 :=
  (invL_run (P := fun sd a => a.jobFaultsOnly sd.1) (fun s d a _ _ h ha hs => by
    have ha' : a.jobFaultsOnly s = true := ha
    have hf := faultsOK_of_jobFaultsOnly (sd := (s, d)) ha'
    simp only [Act.jobFaultsOnly, Bool.and_eq_true] at ha'
    exact inv_step_faults hg h (Or.inl ha'.1.1) hf hs) ⟨h, Or.inl hl⟩ as hal hr).1

/-- the repaired machine, every run -/
theorem inv_run_repaired {cfg : Cfg} (hrep : cfg.Repaired) {sd sd' : St × Disk} (h : Inv cfg sd.1 sd.2) (as : List Act)
    (hr : run cfg sd as = some sd') : Inv cfg sd'.1 sd'.2 := by
  have key : ∀ (as : List Act) (sd : St × Disk), InvL cfg sd.1 sd.2 → run cfg sd as = some sd' → InvL cfg sd'.1 sd'.2 := by
    intro as
    induction as with
    | nil =>
      intro sd h hr
      simp only [run] at hr
      cases hr
      exact h
    | cons a as ih =>
      intro sd h hr
      simp only [run] at hr
      cases hst : step cfg sd.1 sd.2 a with
      | none => rw [hst] at hr; simp at hr
      | some sd1 =>
        rw [hst] at hr
        exact ih sd1 (inv_step_repaired hrep h hst) hr
  exact (key as sd ⟨h, Or.inr hrep.d10⟩ hr).1

end GoLevel.Dur
