import GoLevel.Proofs.MemArrOwn
/-! `Put` over the arrays: the overwrite branch, and what the insert branch does to `nodeData` (C14). -/
set_option linter.unusedSectionVars false
set_option linter.unusedSimpArgs false
set_option linter.unusedVariables false
namespace GoLevel.MemArr
open GoLevel.Gen (nKV nKey nVal nHeight nNext tMaxHeight)
open GoLevel.MemDB (Node LawfulCmp Sorted pred below ins)

variable {cmp : Cmp} {a : DB} {d : MemDB.DB} {ix : Bytes → Nat}

/-! ## overwrite -/

/-- the ideal table after `Put` of a key that is present (`MemDB.put_old`) -/
def putOld (d : MemDB.DB) (key v : Bytes) : MemDB.DB :=
  { d with kv := (key, v) :: d.kv.filter (·.1 != key)
           kvSize := d.kvSize + v.length - (d.value key).length
           used := d.used + key.length + v.length }

/-- the overwrite branch: new bytes appended, offset and value length of the node updated, nothing else touched -/
theorem putOverwrite_sim (hc : LawfulCmp cmp) (r : Rep cmp a d ix) {key : Bytes} (hk : key ∈ d.level0) (v : Bytes) :
    ∃ a', putOverwrite a (ix key) key v = some a' ∧
      Rep cmp a' (putOld d key v) ix ∧ a'.gen = a.gen ∧ a'.prevNode = a.prevNode ∧
      a'.kvData = a.kvData ++ key.toArray ++ v.toArray ∧ a'.nodeData.size = a.nodeData.size ∧
      ∀ x, x ≠ ix key → x ≠ ix key + nVal → a'.nodeData[x]? = a.nodeData[x]? := by
  have e4 := nNext_eq
  have e2 := nVal_eq
  have e1 := nKey_eq
  have e3 := nHeight_eq
  have hn := r.node key hk
  obtain ⟨nd1, w1⟩ := wr_some (a := a.nodeData) (i := ix key) a.kvData.size (by have := hn.hi; omega)
  obtain ⟨_, s1, g1⟩ := wr_eq_some w1
  obtain ⟨nd2, w2⟩ := wr_some (a := nd1) (i := ix key + nVal) v.length (by have := hn.hi; omega)
  obtain ⟨_, s2, g2⟩ := wr_eq_some w2
  have hm : nd1[ix key + nVal]? = some (d.value key).length := by
    rw [g1]; have : ix key + nVal ≠ ix key := by omega
    simp only [this, if_false]; exact hn.vlen
  have hg : ∀ x, nd2[x]? = if x = ix key + nVal then some v.length else
      if x = ix key then some a.kvData.size else a.nodeData[x]? := by
    intro x; rw [g2, g1]
  -- slots and fields of other nodes are untouched
  have hslot : ∀ {z H j}, Owner d ix z H → j < H → nd2[z + nNext + j]? = a.nodeData[z + nNext + j]? := by
    intro z H j o hj
    rw [hg]
    have n1 := r.field_ne_slot hk (f := nVal) (by omega) o hj
    have n2 := r.field_ne_slot hk (f := 0) (by omega) o hj
    have n1' : z + nNext + j ≠ ix key + nVal := fun e => n1 e.symm
    have n2' : z + nNext + j ≠ ix key := fun e => n2 (by omega)
    simp [n1', n2']
  have hd' := MemDB.put_inv hc r.inv key v (ht := 1) (by omega) (by decide)
  rw [MemDB.put_old hc r.inv hk] at hd'
  change MemDB.Inv cmp (putOld d key v) at hd'
  refine ⟨{ a with kvData := a.kvData ++ key.toArray ++ v.toArray, nodeData := nd2,
                   kvSize := a.kvSize + v.length - (d.value key).length },
    by simp only [putOverwrite, w1, hm, w2, Option.bind_some, Option.bind_eq_bind], ?_, rfl, rfl, rfl,
    by show nd2.size = _; rw [s2, s1], by
      intro x h1 h2
      show nd2[x]? = _
      rw [hg]; simp [h1, h2]⟩
  refine
    { inv := hd', mh := r.mh, n := r.n, kvSize := ?_, used := ?_, pn := r.pn, fuel := ?_, top := ?_, chain := ?_,
      node := ?_, sep := r.sep }
  · show a.kvSize + v.length - (d.value key).length = _
    rw [r.kvSize]; rfl
  · show (a.kvData ++ key.toArray ++ v.toArray).size = d.used + key.length + v.length
    simp [Array.size_append, r.used, Nat.add_assoc]
  · show _ ≤ nd2.size
    rw [s2, s1]; exact r.fuel
  · intro h h1 h2
    show nd2[nNext + h]? = some 0
    have := hslot (z := 0) (j := h) (.inl ⟨rfl, rfl⟩) h2
    simp only [Nat.zero_add] at this
    rw [this]; exact r.top h h1 h2
  · intro h hh
    have hh' : h < d.levels.length := hh
    show Chain nd2 ix h 0 0 d.levels[h]
    refine (r.chain h hh).frame ?_ ?_
    · exact hslot (.inl ⟨rfl, rfl⟩) (by have := r.inv.height; show h < tMaxHeight; omega)
    · intro k hk'
      exact ⟨rfl, hslot (.inr ⟨k, r.level_sub0 hh k hk', rfl, rfl⟩) (r.lt_height hh hk')⟩
  · intro k hk'
    have hk0 : k ∈ d.level0 := hk'
    have hnk := r.node k hk0
    show NodeAt _ (ix k) k (MemDB.DB.value _ k) (d.height k)
    by_cases hkk : k = key
    · subst hkk
      have hv : (putOld d k v).value k = v := MemDB.value_put_self d k v _ _ _ _
      rw [hv]
      refine ⟨hnk.lo, by show _ ≤ nd2.size; rw [s2, s1]; exact hnk.hi, ?_, ?_, ?_, ?_⟩
      · refine ⟨a.kvData.size, ?_, slice_put_key _ _ _, slice_put_val _ _ _⟩
        show nd2[ix k]? = _
        rw [hg]; have : ix k ≠ ix k + nVal := by omega
        simp [this, e2]
      · show nd2[ix k + nKey]? = _
        rw [hg]; have : ix k + nKey ≠ ix k + nVal := by omega
        have : ix k + nKey ≠ ix k := by omega
        simp [*]; exact hnk.klen
      · show nd2[ix k + nVal]? = _
        rw [hg]; simp
      · show nd2[ix k + nHeight]? = _
        rw [hg]; have : ix k + nHeight ≠ ix k + nVal := by omega
        have : ix k + nHeight ≠ ix k := by omega
        simp [*]; exact hnk.height
    · have hv : (putOld d key v).value k = d.value k := MemDB.value_put_other d hkk v _ _ _ _
      rw [hv]
      have hsep := r.sep k hk0 key hk hkk
      have hlo := hn.lo
      have hfld : ∀ f, f < nNext → nd2[ix k + f]? = a.nodeData[ix k + f]? := by
        intro f hf
        rw [hg]
        have n1 : ix k + f ≠ ix key + nVal := by omega
        have n2 : ix k + f ≠ ix key := by omega
        simp only [n1, n2, if_false]
      obtain ⟨o, o1, o2, o3⟩ := hnk.off
      refine ⟨hnk.lo, by show _ ≤ nd2.size; rw [s2, s1]; exact hnk.hi, ?_, ?_, ?_, ?_⟩
      · refine ⟨o, ?_, ?_, ?_⟩
        · have := hfld 0 (by omega); simp only [Nat.add_zero] at this
          show nd2[ix k]? = _; rw [this]; exact o1
        · show slice (a.kvData ++ key.toArray ++ v.toArray) _ _ = _
          rw [Array.append_assoc]; exact slice_append _ o2
        · show slice (a.kvData ++ key.toArray ++ v.toArray) _ _ = _
          rw [Array.append_assoc]; exact slice_append _ o3
      · show nd2[ix k + nKey]? = _; rw [hfld nKey (by omega)]; exact hnk.klen
      · show nd2[ix k + nVal]? = _; rw [hfld nVal (by omega)]; exact hnk.vlen
      · show nd2[ix k + nHeight]? = _; rw [hfld nHeight (by omega)]; exact hnk.height

/-- `Put` of a key that is present -/
theorem put_old_sim (hc : LawfulCmp cmp) (r : Rep cmp a d ix) {key : Bytes} (hk : key ∈ d.level0) (v : Bytes)
    (h : Nat) : ∃ a', put cmp a key v h = some a' ∧ Rep cmp a' (MemDB.put cmp d key v h) ix ∧
      a'.gen = a.gen ∧ a'.kvData = a.kvData ++ key.toArray ++ v.toArray ∧ a'.nodeData.size = a.nodeData.size ∧
      ∀ x, x ≠ ix key → x ≠ ix key + nVal → a'.nodeData[x]? = a.nodeData[x]? := by
  obtain ⟨pn', h1, hlen, _, _⟩ := findGE_sim r key true
  obtain ⟨he, hn⟩ := findGE_exact hc r key true
  have hex : (MemDB.findGE cmp d key true).exact = true := by rw [he]; simpa using hk
  rw [hex, hn hk] at h1
  obtain ⟨a', e, r', f1, _, f2, f3, f4⟩ := putOverwrite_sim hc (r.setPrev pn' hlen) hk v
  refine ⟨a', ?_, by rw [MemDB.put_old hc r.inv hk]; exact r', f1, f2, f3, f4⟩
  simp only [put, h1, Option.bind_some, Option.bind_eq_bind, if_true, nix_some]
  exact e

/-! ## insert: what happens to the arrays -/

theorem push4 (nd : Array Nat) (x0 x1 x2 x3 : Nat) :
    ((((nd.push x0).push x1).push x2).push x3)[nd.size]? = some x0 ∧
    ((((nd.push x0).push x1).push x2).push x3)[nd.size + 1]? = some x1 ∧
    ((((nd.push x0).push x1).push x2).push x3)[nd.size + 2]? = some x2 ∧
    ((((nd.push x0).push x1).push x2).push x3)[nd.size + 3]? = some x3 := by
  refine ⟨?_, ?_, ?_, ?_⟩ <;> grind

/-- the facts about `nodeData` after the insert branch of `Put`, for a `prevNode` that holds the search path below
the current height -/
structure Inserted (cmp : Cmp) (a : DB) (d : MemDB.DB) (ix : Bytes → Nat) (key v : Bytes) (h : Nat)
    (nd' : Array Nat) : Prop where
  size : nd'.size = a.nodeData.size + 4 + h
  same : ∀ x, x < a.nodeData.size → (∀ j, j < h → x ≠ nix ix (pth cmp d key j) + nNext + j) →
    nd'[x]? = a.nodeData[x]?
  link : ∀ j, j < h → nd'[nix ix (pth cmp d key j) + nNext + j]? = some a.nodeData.size
  next : ∀ j, j < h → nd'[a.nodeData.size + nNext + j]? = a.nodeData[nix ix (pth cmp d key j) + nNext + j]?
  f0 : nd'[a.nodeData.size]? = some a.kvData.size
  f1 : nd'[a.nodeData.size + nKey]? = some key.length
  f2 : nd'[a.nodeData.size + nVal]? = some v.length
  f3 : nd'[a.nodeData.size + nHeight]? = some h

theorem putInsert_arrays (r : Rep cmp a d ix) (key v : Bytes) {h : Nat} (h1 : 1 ≤ h) (h2 : h ≤ tMaxHeight)
    (pn1 : List Nat) (hlen : pn1.length = tMaxHeight)
    (hpath : ∀ j, j < a.maxHeight → pn1[j]? = some (nix ix (pth cmp d key j))) :
    ∃ nd' pn2, putInsert { a with prevNode := pn1 } key v h =
        some { kvData := a.kvData ++ key.toArray ++ v.toArray, nodeData := nd', prevNode := pn2,
               maxHeight := if h > a.maxHeight then h else a.maxHeight, n := a.n + 1,
               kvSize := a.kvSize + (key.length + v.length), gen := a.gen } ∧
      pn2.length = tMaxHeight ∧ Inserted cmp a d ix key v h nd' := by
  have e4 := nNext_eq
  have e2 := nVal_eq
  have e1 := nKey_eq
  have e3 := nHeight_eq
  -- raising the height
  have hpre : ∃ pn2, ((h > a.maxHeight → clearLoop pn1 a.maxHeight (h - a.maxHeight) = some pn2) ∧
        (¬ h > a.maxHeight → pn2 = pn1)) ∧
      pn2.length = tMaxHeight ∧ ∀ j, j < h → pn2[j]? = some (nix ix (pth cmp d key j)) := by
    by_cases hgt : h > a.maxHeight
    · obtain ⟨pn2, c1, c2, c3⟩ := clearLoop_spec (h - a.maxHeight) pn1 a.maxHeight (by omega)
      refine ⟨pn2, ⟨fun _ => c1, fun h' => absurd hgt h'⟩, by rw [c2, hlen], ?_⟩
      intro j hj
      rw [c3 j]
      by_cases hjm : j < a.maxHeight
      · have : ¬ (a.maxHeight ≤ j ∧ j < a.maxHeight + (h - a.maxHeight)) := by omega
        simp only [this, if_false]; exact hpath j hjm
      · have : a.maxHeight ≤ j ∧ j < a.maxHeight + (h - a.maxHeight) := by omega
        rw [if_pos this, pth_ge d key (by rw [← r.mh]; omega)]; rfl
    · refine ⟨pn1, ⟨fun h' => absurd h' hgt, fun _ => rfl⟩, hlen, ?_⟩
      intro j hj; exact hpath j (by omega)
  obtain ⟨pn2, p1, p2, p3⟩ := hpre
  -- the entries of `prevNode[:h]`
  have htake : ∀ j p, (pn2.take h)[j]? = some p → j < h ∧ p = nix ix (pth cmp d key j) := by
    intro j p hj
    rw [List.getElem?_take] at hj
    by_cases hjh : j < h
    · simp only [hjh, if_true] at hj
      rw [p3 j hjh] at hj
      exact ⟨hjh, (Option.some.inj hj).symm⟩
    · simp [hjh] at hj
  have htake' : ∀ j, j < h → (pn2.take h)[j]? = some (nix ix (pth cmp d key j)) := by
    intro j hj; rw [List.getElem?_take]; simp [hj, p3 j hj]
  have hown : ∀ j, j < h → ∃ H, Owner d ix (nix ix (pth cmp d key j)) H ∧ j < H :=
    fun j hj => r.pth_owner key (by omega)
  let nd1 := (((a.nodeData.push a.kvData.size).push key.length).push v.length).push h
  have hsz1 : nd1.size = a.nodeData.size + 4 := by simp [nd1]
  have hnd1 : ∀ x, x < a.nodeData.size → nd1[x]? = a.nodeData[x]? := by
    intro x hx
    simp only [nd1, Array.getElem?_push, Array.size_push]
    have : x ≠ a.nodeData.size + 1 + 1 + 1 := by omega
    have : x ≠ a.nodeData.size + 1 + 1 := by omega
    have : x ≠ a.nodeData.size + 1 := by omega
    have : x ≠ a.nodeData.size := by omega
    simp [*]
  obtain ⟨nd', l1, l2, l3, l4, l5⟩ := linkLoop_spec a.nodeData.size (pn2.take h) 0 nd1 (by
    intro j p hj
    obtain ⟨hjh, rfl⟩ := htake j p hj
    obtain ⟨H, o, hH⟩ := hown j hjh
    have := r.owner_lt o hH
    omega)
  have hlt : ∀ j, j < h → nix ix (pth cmp d key j) + nNext + j < a.nodeData.size := by
    intro j hj
    obtain ⟨H, o, hH⟩ := hown j hj
    exact r.owner_lt o hH
  have hN : ∀ f, f < 4 → nd'[a.nodeData.size + f]? = nd1[a.nodeData.size + f]? := by
    intro f hf
    exact l3 _ (by omega) (by
      intro j p hj
      obtain ⟨hjh, rfl⟩ := htake j p hj
      have := hlt j hjh; omega)
  refine ⟨nd', pn2, ?_, p2, ?_⟩
  · have hnl : ¬ h > pn2.length := by omega
    have l1' : linkLoop a.nodeData.size (pn2.take h) 0
        ((((a.nodeData.push a.kvData.size).push key.length).push v.length).push h) = some nd' := l1
    unfold putInsert
    by_cases hgt : h > a.maxHeight
    · simp only [hgt, if_true, p1.1 hgt, Option.map_some, Option.bind_some, Option.bind_eq_bind, hnl, if_false, l1']
    · have := p1.2 hgt
      subst this
      simp only [hgt, if_false, Option.bind_some, Option.bind_eq_bind, hnl, l1']
  · refine ⟨?_, ?_, ?_, ?_, ?_, ?_, ?_, ?_⟩
    · rw [l2, hsz1, List.length_take]; omega
    · intro x hx hne
      rw [l3 x (by omega) (by
        intro j p hj
        obtain ⟨hjh, rfl⟩ := htake j p hj
        have := hne j hjh; omega), hnd1 x hx]
    · intro j hj
      have := l4 j _ (htake' j hj)
      rw [Nat.zero_add] at this; exact this
    · intro j hj
      have := l5 j _ (htake' j hj) (by
        intro j' p' hlt' hj'
        obtain ⟨hj'h, rfl⟩ := htake j' p' hj'
        obtain ⟨H, o, hH⟩ := hown j hj
        obtain ⟨H', o', hH'⟩ := hown j' hj'h
        intro e
        have := (r.slot_inj o' o hH' hH (by omega)).2
        omega)
      rw [show a.nodeData.size + nNext + j = nd1.size + j by omega, this]
      simp only [Nat.zero_add]
      exact hnd1 _ (hlt j hj)
    · have := hN 0 (by omega); simp only [Nat.add_zero] at this
      rw [this]; exact (push4 _ _ _ _ _).1
    · rw [hN nKey (by omega), e1]; exact (push4 _ _ _ _ _).2.1
    · rw [hN nVal (by omega), e2]; exact (push4 _ _ _ _ _).2.2.1
    · rw [hN nHeight (by omega), e3]; exact (push4 _ _ _ _ _).2.2.2

end GoLevel.MemArr
