import GoLevel.Proofs.CachePhase
/-! Invariant of the cache system, part 3: reference counts (`n.ref` = number of references that exist) and
existence of every referenced node. -/
namespace GoLevel.CacheM

set_option linter.unusedSimpArgs false

@[simp] theorem countP_owns_map_unrefExt (l : List Nat) (id : Nat) :
    (l.map Instr.unrefExt).countP (owns id) = l.count id := by
  induction l with
  | nil => rfl
  | cons a l ih => simp [List.countP_cons, List.count_cons, owns, ih]

theorem countP_owns_map_levict {α : Type} (f : α → Nat) (l : List α) (id : Nat) :
    (l.map fun a => Instr.levict (f a)).countP (owns id) = 0 := by
  rw [List.countP_eq_zero]; simp only [List.mem_map]; rintro _ ⟨a, _, rfl⟩; simp [owns]

theorem countP_owns_close (l : List Node) (id : Nat) (force : Bool) :
    (l.flatMap (fun n => (if force then [Instr.zero n.id] else []) ++ [Instr.levict n.id] ++
      (if force then [Instr.fin n.id true] else []))).countP (owns id) = 0 := by
  rw [List.countP_eq_zero]; simp only [List.mem_flatMap]; rintro _ ⟨a, _, ha⟩
  cases force <;> simp at ha <;> rcases ha with rfl | rfl | rfl <;> simp [owns]

theorem mem_clearLru_proj {ns : List Node} {ev : List Nat} {n : Node} (h : n ∈ clearLru ns ev) :
    ∃ m ∈ ns, n.id = m.id ∧ n.ref = m.ref ∧ n.key = m.key ∧ n.value = m.value ∧ n.size = m.size ∧
      n.delFuncs = m.delFuncs ∧ (n.lru = m.lru ∧ m.id ∉ ev ∨ n.lru = .none ∧ m.id ∈ ev) := by
  rw [mem_clearLru] at h
  obtain ⟨m, hm, rfl⟩ := h
  refine ⟨m, hm, ?_⟩
  split <;> simp_all

theorem countP_noown {l : List Instr} {id : Nat} (h : ∀ j ∈ l, owns id j = false) : l.countP (owns id) = 0 := by
  rw [List.countP_eq_zero]; intro j hj; simp [h j hj]

/-- A fresh id is not referenced by anything. -/
theorem refs_fresh {g sh P log} (h : InvP g sh P log) : refsP sh P sh.nextId = 0 := by
  rcases Nat.eq_zero_or_pos (refsP sh P sh.nextId) with h0 | h0
  · exact h0
  · obtain ⟨n, hn, hid⟩ := h.ex _ h0
    have := h.ids.2 n hn
    omega

/-- Counting through the eviction loop: what is not evicted remains. -/
theorem evictTail_count (ns : List Node) (cap : Nat) (l : List Nat) (used : Nat) (id : Nat) :
    (evictTail ns cap l used).1.count id + (evictTail ns cap l used).2.2.1.count id = l.count id := by
  have := congrArg (List.count id) (evictTail_split ns cap l used)
  rw [List.count_append] at this
  omega

theorem rc_promote {g sh Q log sh' id push evs} (h : InvP g sh (Instr.promote id :: Q) log)
    (he : execPromote sh id = some (sh', push, evs)) :
    sh'.forced = false → ∀ n ∈ sh'.nodes, n.ref = refsP sh' (push ++ Q) n.id := by
  have hrc := h.rc
  have hlr := h.lr.2
  simp only [refsP, List.countP_cons, owns] at hrc
  unfold execPromote at he
  cases hfind : findId sh.nodes id with
  | none =>
    simp [hfind] at he; obtain ⟨rfl, rfl, rfl⟩ := he
    intro hf n hn
    have := hrc hf n hn
    have hne := findId_none hfind n hn
    have h1 : (id == n.id) = false := by simp; omega
    simp only [h1] at this
    simpa [refsP] using this
  | some n0 =>
    have hfs := findId_some hfind
    have hsame : ∀ recent', (∀ j, List.count j recent' = List.count j sh.lru.recent) →
        sh.forced = false → ∀ n ∈ sh.nodes, n.ref =
          refsP { sh with lru := { sh.lru with recent := recent' } } ([Instr.retHandle id] ++ Q) n.id := by
      intro recent' hcount hf n hn
      have := hrc hf n hn
      simp only [refsP, List.countP_cons, List.countP_append, List.countP_nil, owns, hcount]
      rcases Bool.eq_false_or_eq_true (id == n.id) with hb | hb <;>
        simp only [hb, if_true, if_false, Bool.false_eq_true] at this ⊢ <;> omega
    cases hl : n0.lru with
    | none =>
      by_cases hfit : n0.size ≤ sh.lru.capacity
      · simp only [hfind, hl, hfit, if_true, Option.some.injEq, Prod.mk.injEq] at he
        obtain ⟨rfl, rfl, rfl⟩ := he
        intro hf n hn
        simp only [] at hf hn ⊢
        obtain ⟨m1, hm1, hid1, href1, _⟩ := mem_clearLru_proj hn
        rw [mem_upd] at hm1
        obtain ⟨m, hm, rfl⟩ := hm1
        rw [hid1, href1]
        have hm' := hrc hf m hm
        have hcnt := evictTail_count (upd sh.nodes id fun n => { n with ref := n.ref + 1, lru := .inList })
          sh.lru.capacity (id :: sh.lru.recent).reverse (sh.lru.used + n0.size)
        simp only [refsP, List.countP_cons, List.countP_append, List.countP_nil, owns, countP_owns_map_unrefExt,
          List.count_reverse] at hm' ⊢
        by_cases hmid : m.id = id
        · have := hcnt id
          simp only [List.count_reverse, List.count_cons_self] at this
          simp only [hmid, if_true] at hm' ⊢
          simp only [beq_self_eq_true, if_true, Bool.false_eq_true, if_false] at hm' ⊢; omega
        · have := hcnt m.id
          simp only [List.count_reverse, List.count_cons] at this
          have hne : (id == m.id) = false := by simp; omega
          simp only [hne] at this
          simp only [hmid, if_false] at hm' ⊢
          simp only [hne, beq_self_eq_true, if_true, Bool.false_eq_true, if_false] at hm' this ⊢; omega
      · simp only [hfind, hl, hfit, if_false, Option.some.injEq, Prod.mk.injEq] at he
        obtain ⟨rfl, rfl, rfl⟩ := he
        exact hsame sh.lru.recent (fun _ => rfl)
    | inList =>
      simp only [hfind, hl, Option.some.injEq, Prod.mk.injEq] at he
      obtain ⟨rfl, rfl, rfl⟩ := he
      have hmem : id ∈ sh.lru.recent := (hlr id).mpr ⟨n0, hfs.1, hfs.2, hl⟩
      apply hsame
      intro j
      exact ((List.perm_cons_erase hmem).count_eq j).symm
    | banned =>
      simp only [hfind, hl, Option.some.injEq, Prod.mk.injEq] at he
      obtain ⟨rfl, rfl, rfl⟩ := he
      exact hsame sh.lru.recent (fun _ => rfl)

theorem rc_setcap {g sh Q log sh' c push evs} (h : InvP g sh (Instr.setcap c :: Q) log)
    (he : execSetcap sh c = some (sh', push, evs)) :
    sh'.forced = false → ∀ n ∈ sh'.nodes, n.ref = refsP sh' (push ++ Q) n.id := by
  have hrc := h.rc
  unfold execSetcap at he
  simp only [Option.some.injEq, Prod.mk.injEq] at he
  obtain ⟨rfl, rfl, rfl⟩ := he
  intro hf n hn
  simp only [] at hf hn ⊢
  obtain ⟨m, hm, hid1, href1, _⟩ := mem_clearLru_proj hn
  rw [hid1, href1]
  have hm' := hrc hf m hm
  have hcnt := evictTail_count sh.nodes c sh.lru.recent.reverse sh.lru.used m.id
  simp only [refsP, List.countP_cons, List.countP_append, owns, countP_owns_map_unrefExt,
    List.count_reverse] at hm' hcnt ⊢
  simp only [Bool.false_eq_true, if_false] at hm'
  omega

theorem rc_step {g sh Q log sh' i push evs} (h : InvP g sh (i :: Q) log)
    (he : exec sh i = some (sh', push, evs)) :
    sh'.forced = false → ∀ n ∈ sh'.nodes, n.ref = refsP sh' (push ++ Q) n.id := by
  have hrc := h.rc
  have hopf : sh.closed = false → sh.forced = false := fun hc => (h.op hc).2
  have hfo := h.fo
  have hlr := h.lr.2
  have hfresh := refs_fresh h
  cases i
  case promote id => exact rc_promote h he
  case setcap c => exact rc_setcap h he
  all_goals exec_split he
  all_goals (intro hf n hn)
  all_goals (simp only [refsP, List.countP_cons, List.countP_append, owns, List.countP_nil,
    countP_owns_map_levict, countP_owns_close] at hrc hfresh ⊢)
  all_goals (try simp only [] at hf hn ⊢)
  all_goals first
    | (have := hrc hf n hn; simp at this ⊢; omega)
    | (rw [mem_upd] at hn; obtain ⟨m, hm, rfl⟩ := hn; have := hrc hf m hm; grind)
    | (have hfn := findId_none (by assumption) n hn; have := hrc hf n hn; grind)
    | (have hfs := findId_some (by assumption)
       rw [mem_upd] at hn; obtain ⟨m, hm, rfl⟩ := hn; have := hrc hf m hm
       grind [List.count_erase, List.count_cons, List.count_pos_iff])
    | (have hfs := findId_some (by assumption)
       have := hrc hf n hn
       grind [List.count_erase, List.count_cons, List.count_pos_iff])
    | (have := hrc hf n (mem_eraseId.mp hn).1; simp at this ⊢; omega)
    | (have := hfo hf _ List.mem_cons_self; simp [forcedOnly] at this; done)
    | (have := hrc hf n hn; grind [List.count_erase, List.count_cons, List.count_pos_iff])
    | (rcases List.mem_cons.mp hn with rfl | hn
       · simp only [beq_self_eq_true, if_true, Bool.false_eq_true, if_false] at hfresh ⊢; omega
       · have := hrc hf n hn
         have := h.ids.2 n hn
         have hne : (sh.nextId == n.id) = false := by simp; omega
         simp only [hne, Bool.false_eq_true, if_false] at *; omega)
    | (have := hrc (by first | exact hf | exact hopf (by simpa using ‹¬sh.closed = true›)) n hn
       rw [countP_noown (by
         intro j hj
         simp only [List.mem_map, List.mem_flatMap, List.mem_append, List.mem_cons, List.not_mem_nil] at hj
         grind [owns])]
       simp at this ⊢; omega)

theorem exists_id_of_map_eq {ns ns' : List Node} {id : Nat}
    (hm : ns'.map (fun n => (n.id, n.key)) = ns.map (fun n => (n.id, n.key))) :
    (∃ n ∈ ns, n.id = id) → ∃ n ∈ ns', n.id = id := by
  rintro ⟨n, hn, rfl⟩
  have : n.id ∈ ns'.map (·.id) := by
    rw [(nodup_map_of_pair hm).1]; exact List.mem_map_of_mem hn
  obtain ⟨m, hm1, hm2⟩ := List.mem_map.mp this
  exact ⟨m, hm1, hm2⟩

theorem exists_upd {ns : List Node} {j id : Nat} {f : Node → Node} (hf : ∀ n, (f n).id = n.id) :
    (∃ n ∈ ns, n.id = id) → ∃ n ∈ upd ns j f, n.id = id := by
  rintro ⟨n, hn, rfl⟩
  refine ⟨_, mem_upd.mpr ⟨n, hn, rfl⟩, ?_⟩
  split <;> simp [hf]

theorem exists_clearLru {ns : List Node} {ev : List Nat} {id : Nat} :
    (∃ n ∈ ns, n.id = id) → ∃ n ∈ clearLru ns ev, n.id = id := by
  rintro ⟨n, hn, rfl⟩
  refine ⟨_, mem_clearLru.mpr ⟨n, hn, rfl⟩, ?_⟩
  split <;> rfl

theorem ex_promote {g sh Q log sh' pid push evs} (h : InvP g sh (Instr.promote pid :: Q) log)
    (he : execPromote sh pid = some (sh', push, evs)) :
    ∀ id, 0 < refsP sh' (push ++ Q) id → ∃ n ∈ sh'.nodes, n.id = id := by
  intro id hpos
  have hex := h.ex id
  simp only [refsP, List.countP_cons, owns] at hex
  unfold execPromote at he
  cases hfind : findId sh.nodes pid with
  | none =>
    simp [hfind] at he; obtain ⟨rfl, rfl, rfl⟩ := he
    simp only [refsP, List.nil_append] at hpos
    refine hex ?_
    rcases Bool.eq_false_or_eq_true (pid == id) with hb | hb <;>
      simp only [hb, if_true, if_false, Bool.false_eq_true] <;> omega
  | some n0 =>
    have hfs := findId_some hfind
    have hsame : ∀ recent', (∀ j, List.count j recent' = List.count j sh.lru.recent) →
        0 < refsP { sh with lru := { sh.lru with recent := recent' } } ([Instr.retHandle pid] ++ Q) id →
        ∃ n ∈ sh.nodes, n.id = id := by
      intro recent' hcount hp
      simp only [refsP, List.countP_cons, List.countP_append, List.countP_nil, owns, hcount] at hp
      refine hex ?_
      rcases Bool.eq_false_or_eq_true (pid == id) with hb | hb <;>
        simp only [hb, if_true, if_false, Bool.false_eq_true] at hp ⊢ <;> omega
    cases hl : n0.lru with
    | none =>
      by_cases hfit : n0.size ≤ sh.lru.capacity
      · simp only [hfind, hl, hfit, if_true, Option.some.injEq, Prod.mk.injEq] at he
        obtain ⟨rfl, rfl, rfl⟩ := he
        apply exists_clearLru
        refine exists_upd (f := fun n => { n with ref := n.ref + 1, lru := .inList }) (fun _ => rfl) ?_
        have hc := evictTail_count (upd sh.nodes pid fun n => { n with ref := n.ref + 1, lru := .inList })
           sh.lru.capacity (pid :: sh.lru.recent).reverse (sh.lru.used + n0.size) id
        simp only [refsP, List.countP_append, List.countP_cons, List.countP_nil, owns, countP_owns_map_unrefExt,
          List.count_reverse, List.count_cons] at hc hpos
        by_cases hid : pid = id
        · exact ⟨n0, hfs.1, hfs.2.trans hid⟩
        · have hne : (pid == id) = false := by simp [hid]
          simp only [hne, Bool.false_eq_true, if_false] at hc hpos
          exact hex (by omega)
      · simp only [hfind, hl, hfit, if_false, Option.some.injEq, Prod.mk.injEq] at he
        obtain ⟨rfl, rfl, rfl⟩ := he
        exact hsame sh.lru.recent (fun _ => rfl) hpos
    | inList =>
      simp only [hfind, hl, Option.some.injEq, Prod.mk.injEq] at he
      obtain ⟨rfl, rfl, rfl⟩ := he
      have hmem : pid ∈ sh.lru.recent := (h.lr.2 pid).mpr ⟨n0, hfs.1, hfs.2, hl⟩
      exact hsame _ (fun j => ((List.perm_cons_erase hmem).count_eq j).symm) hpos
    | banned =>
      simp only [hfind, hl, Option.some.injEq, Prod.mk.injEq] at he
      obtain ⟨rfl, rfl, rfl⟩ := he
      exact hsame sh.lru.recent (fun _ => rfl) hpos

theorem ex_setcap {g sh Q log sh' c push evs} (h : InvP g sh (Instr.setcap c :: Q) log)
    (he : execSetcap sh c = some (sh', push, evs)) :
    ∀ id, 0 < refsP sh' (push ++ Q) id → ∃ n ∈ sh'.nodes, n.id = id := by
  intro id hpos
  have hex := h.ex id
  simp only [refsP, List.countP_cons, owns] at hex
  unfold execSetcap at he
  simp only [Option.some.injEq, Prod.mk.injEq] at he
  obtain ⟨rfl, rfl, rfl⟩ := he
  apply exists_clearLru
  have hc := evictTail_count sh.nodes c sh.lru.recent.reverse sh.lru.used id
  simp only [refsP, List.countP_append, countP_owns_map_unrefExt, List.count_reverse] at hc hpos
  exact hex (by omega)

theorem ex_step {g sh Q log sh' i push evs} (h : InvP g sh (i :: Q) log)
    (he : exec sh i = some (sh', push, evs)) :
    ∀ id, 0 < refsP sh' (push ++ Q) id → ∃ n ∈ sh'.nodes, n.id = id := by
  have hlr := h.lr.2
  have hrc := h.rc
  have hopf : sh.closed = false → sh.forced = false := fun hc => (h.op hc).2
  cases i
  case promote id => exact ex_promote h he
  case setcap c => exact ex_setcap h he
  all_goals (intro id hpos; have hex := h.ex id)
  all_goals exec_split he
  all_goals (simp only [refsP, List.countP_cons, List.countP_append, owns, List.countP_nil,
      countP_owns_map_levict, countP_owns_close, countP_owns_map_unrefExt] at hex hpos hrc)
  all_goals (try simp only [] at hpos ⊢)
  all_goals (try (apply exists_upd <;> first | (intro _; rfl; done) | skip))
  all_goals first
    | (exact hex (by simp at hpos ⊢; omega))
    | (have hfs := findId_some (by assumption); grind [List.count_pos_iff])
    | (have hfs := findKey_some (by assumption); grind [List.count_pos_iff])
    | grind [List.count_pos_iff]
    | (rw [countP_noown (by
         intro j hj
         simp only [List.mem_map, List.mem_flatMap, List.mem_append, List.mem_cons, List.not_mem_nil] at hj
         grind [owns])] at hpos
       exact hex (by simp at hpos ⊢; omega))
    | (by_cases hid : sh.nextId = id
       · exact ⟨_, List.mem_cons_self, hid⟩
       · have hne : (sh.nextId == id) = false := by simp [hid]
         simp only [hne] at hpos
         obtain ⟨m, hm, hmid⟩ := hex (by simp at hpos ⊢; omega)
         exact ⟨m, List.mem_cons_of_mem _ hm, hmid⟩)
    | (have hfs := findKey_some (by assumption)
       have hr0 := hrc (hopf (by simpa using ‹¬sh.closed = true›)) _ hfs.1
       obtain ⟨m, hm, hmid⟩ := hex (by simp at hpos ⊢; omega)
       refine ⟨m, mem_eraseId.mpr ⟨hm, ?_⟩, hmid⟩
       intro heq
       rw [hmid] at heq; subst heq
       simp at hr0 hpos; omega)
end GoLevel.CacheM
