import GoLevel.Proofs.CacheLocksStep
/-! The lock-level cache system (C17), part 4: `LInv` holds in every reachable state (for the code as it is:
`unRefExternal` uses `unrefMu`). -/
namespace GoLevel.CacheL
open GoLevel.CacheM

set_option linter.unusedSimpArgs false

theorem exec_extz_push {sh sh' : Shared} {id : Nat} {k : Key} {push evs}
    (he : exec sh (.extz id k) = some (sh', push, evs)) : unShape push ∨ ∃ k', push = [.delz k', .runlock] := by
  simp only [exec] at he
  repeat' (split at he)
  all_goals (simp only [Option.some.injEq, Prod.mk.injEq] at he; obtain ⟨_, rfl, _⟩ := he)
  · exact Or.inl (Or.inl ⟨_, rfl⟩)
  · exact Or.inl (Or.inr (Or.inr ⟨_, _, _, rfl⟩))
  · exact Or.inr ⟨_, rfl⟩

theorem exec_delz_fin_push {sh sh' : Shared} {i : Instr} {push evs} (he : exec sh i = some (sh', push, evs))
    (hi : (∃ k, i = .delz k) ∨ ∃ id f, i = .fin id f) : push = [] := by
  rcases hi with ⟨k, rfl⟩ | ⟨id, f, rfl⟩
  · simp only [exec, execDelz] at he
    repeat' (split at he)
    all_goals (simp only [Option.some.injEq, Prod.mk.injEq] at he; exact he.2.1.symm)
  · simp only [exec, execFin, execFinStale] at he
    repeat' (split at he)
    all_goals (simp only [Option.some.injEq, Prod.mk.injEq] at he; exact he.2.1.symm)

theorem cnt_ge {l : LockId} {tl : List LThread} {t : Nat} {th : LThread} (h : tl[t]? = some th) :
    th.held.count l ≤ cnt l tl := by
  unfold cnt
  induction tl generalizing t with
  | nil => simp at h
  | cons a tl ih =>
    cases t with
    | zero => simp at h; subst h; simp
    | succ t => simp at h; have := ih h; simp only [List.map_cons, List.sum_cons]; omega

theorem uum_step {ls ls' : LSys} {a : Act} (h : lstep ls a = some ls') : ls'.unrefUsesMu = ls.unrefUsesMu := by
  cases a with
  | call t c =>
    simp only [lstep] at h
    repeat' (split at h)
    all_goals first | (cases h; done) | (rw [← Option.some.inj h])
  | step t =>
    obtain ⟨th, T, _, _, hc⟩ := lstepThread_cases h
    rcases hc with ⟨_, _, rfl⟩ | ⟨_, _, hb⟩ | ⟨_, _, _, rfl⟩ | ⟨_, _, rfl⟩ | ⟨_, hb⟩ | ⟨_, rfl⟩ | ⟨_, rfl⟩ |
      ⟨_, _, _, rfl⟩ | ⟨_, i, rest, b', _, _, _, hs, rfl⟩
    all_goals first
      | rfl
      | (obtain ⟨b', hs, rfl⟩ := closeBody_cases hb; rfl)
      | exact afterBase_uum _ _ _ _ _

theorem phase_ne_of {p : Phase} {f : Phase → Bool} (hf : f .idle = false) (h : f p = true) : p ≠ .idle := by
  intro h0; rw [h0, hf] at h; cases h

/-- The steps through `Close`'s locking that are not base steps. -/
theorem linv_lockstep {ls ls' : LSys} {t : Nat} {th : LThread} {T : List Instr} (h : LInv ls)
    (hwc : ∀ T ∈ ls.base.threads, WC2 T)
    (hth : ls.tl[t]? = some th) (hT : ls.base.threads[t]? = some T)
    (hc : (th.phase = .annMu ∧ ls.mu.readers = 0 ∧
          ls' = { (setPhase ls t th .hasMu) with mu := { ls.mu with held := true } }) ∨
       (th.phase = .hasMu ∧ ls.unrefUsesMu = false ∧ ls.un.writer = none ∧
          ls' = { (setPhase ls t th .annUn) with un := { ls.un with writer := some t } }) ∨
       (th.phase = .annUn ∧ ls.un.readers = 0 ∧
          ls' = { (setPhase ls t th .hasBoth) with un := { ls.un with held := true } }) ∨
       (th.phase = .relUn ∧
          ls' = { (setPhase ls t th .relMu) with un := { ls.un with writer := none, held := false } }) ∨
       (th.phase = .relMu ∧
          ls' = { (setPhase ls t th .idle) with mu := { ls.mu with writer := none, held := false } }) ∨
       (th.phase = .idle ∧ (∃ f rest, T = .closeLock f :: rest) ∧ ls.mu.writer = none ∧
          ls' = { (setPhase ls t th .annMu) with mu := { ls.mu with writer := some t } })) : LInv ls' := by
  have hk3 := h.k3 t th T hth hT
  have muw : th.phase ≠ .idle → ls.mu.writer = some t := h.k5a t th hth
  have unw : unPhase th.phase = true → ls.un.writer = some t := h.k5c t th hth
  -- the thread that holds / announced a lock is `t`
  have mu_t : th.phase ≠ .idle → ∀ t2, ls.mu.writer = some t2 → t2 = t := by
    intro hp t2 hw; rw [muw hp] at hw; exact (Option.some.inj hw).symm
  have un_other : unPhase th.phase = false → ∀ t2, ls.un.writer = some t2 → t2 ≠ t := by
    intro hp t2 hw heq
    obtain ⟨th2, h1, h2⟩ := h.k5d t2 hw
    rw [heq, hth] at h1; cases h1; rw [hp] at h2; cases h2
  rcases hc with ⟨hp, h0, rfl⟩ | ⟨hp, _, hw, rfl⟩ | ⟨hp, h0, rfl⟩ | ⟨hp, rfl⟩ | ⟨hp, rfl⟩ | ⟨hp, ⟨f, rest, hTf⟩, hw, rfl⟩
  · have hne : th.phase ≠ .idle := by rw [hp]; simp
    exact linv_phase (p' := .hasMu) (mu' := { ls.mu with held := true }) (un' := ls.un) h hth hT rfl rfl
      (fun _ => ⟨(hk3 hne).1, fun _ => (hk3 hne).2 (by rw [hp]; rfl)⟩)
      (fun _ => muw hne) (fun t2 _ th2 h1 h2 => h.k5a t2 th2 h1 h2)
      (fun t2 hw => Or.inl ⟨mu_t hne t2 hw, by simp⟩)
      (fun hu => by cases hu) (fun t2 _ th2 h1 h2 => h.k5c t2 th2 h1 h2)
      (fun t2 hw => Or.inr ⟨un_other (by rw [hp]; rfl) t2 hw, hw⟩)
      (fun _ => h0) (fun hu => by cases hu)
  · have hne : th.phase ≠ .idle := by rw [hp]; simp
    exact linv_phase (p' := .annUn) (mu' := ls.mu) (un' := { ls.un with writer := some t }) h hth hT rfl rfl
      (fun _ => ⟨(hk3 hne).1, fun _ => (hk3 hne).2 (by rw [hp]; rfl)⟩)
      (fun _ => muw hne) (fun t2 _ th2 h1 h2 => h.k5a t2 th2 h1 h2)
      (fun t2 hw2 => Or.inl ⟨mu_t hne t2 hw2, by simp⟩)
      (fun _ => rfl)
      (fun t2 _ th2 h1 h2 => by have := h.k5c t2 th2 h1 h2; rw [hw] at this; cases this)
      (fun t2 hw2 => Or.inl ⟨(Option.some.inj hw2).symm, rfl⟩)
      (fun _ => h.k5e t th hth (by rw [hp]; rfl)) (fun hu => by cases hu)
  · have hne : th.phase ≠ .idle := by rw [hp]; simp
    have hun : unPhase th.phase = true := by rw [hp]; rfl
    exact linv_phase (p' := .hasBoth) (mu' := ls.mu) (un' := { ls.un with held := true }) h hth hT rfl rfl
      (fun _ => ⟨(hk3 hne).1, fun _ => (hk3 hne).2 (by rw [hp]; rfl)⟩)
      (fun _ => muw hne) (fun t2 _ th2 h1 h2 => h.k5a t2 th2 h1 h2)
      (fun t2 hw2 => Or.inl ⟨mu_t hne t2 hw2, by simp⟩)
      (fun _ => unw hun) (fun t2 _ th2 h1 h2 => h.k5c t2 th2 h1 h2)
      (fun t2 hw2 => Or.inl ⟨by
        have := unw hun; simp only [] at hw2; rw [this] at hw2; exact (Option.some.inj hw2).symm, rfl⟩)
      (fun _ => h.k5e t th hth (by rw [hp]; rfl)) (fun _ => h0)
  · have hne : th.phase ≠ .idle := by rw [hp]; simp
    have hun : unPhase th.phase = true := by rw [hp]; rfl
    exact linv_phase (p' := .relMu) (mu' := ls.mu) (un' := { ls.un with writer := none, held := false })
      h hth hT rfl rfl
      (fun _ => ⟨(hk3 hne).1, fun hb => by cases hb⟩)
      (fun _ => muw hne) (fun t2 _ th2 h1 h2 => h.k5a t2 th2 h1 h2)
      (fun t2 hw2 => Or.inl ⟨mu_t hne t2 hw2, by simp⟩)
      (fun hu => by cases hu)
      (fun t2 hne2 th2 h1 h2 => by
        have h3 := h.k5c t2 th2 h1 h2
        rw [unw hun] at h3; exact absurd (Option.some.inj h3).symm hne2)
      (fun t2 hw2 => by cases hw2)
      (fun _ => h.k5e t th hth (by rw [hp]; rfl)) (fun hu => by cases hu)
  · have hne : th.phase ≠ .idle := by rw [hp]; simp
    exact linv_phase (p' := .idle) (mu' := { ls.mu with writer := none, held := false }) (un' := ls.un)
      h hth hT rfl rfl
      (fun hi => absurd rfl hi) (fun hi => absurd rfl hi)
      (fun t2 hne2 th2 h1 h2 => by
        have h3 := h.k5a t2 th2 h1 h2
        rw [muw hne] at h3; exact absurd (Option.some.inj h3).symm hne2)
      (fun t2 hw2 => by cases hw2)
      (fun hu => by cases hu) (fun t2 _ th2 h1 h2 => h.k5c t2 th2 h1 h2)
      (fun t2 hw => Or.inr ⟨un_other (by rw [hp]; rfl) t2 hw, hw⟩)
      (fun hu => by cases hu) (fun hu => by cases hu)
  · -- `r.mu.Lock()` announced
    have hTm : T ∈ ls.base.threads := List.mem_of_getElem? hT
    have hT1 : T = [Instr.closeLock f] := by
      rcases hwc T hTm with ⟨f', hf'⟩ | ⟨c, hc'⟩ | hpl
      · rw [hf'] at hTf; injection hTf with h1 h2; rw [hf', h1]
      · rw [hc'] at hTf; injection hTf with h1 _; cases h1
      · have := (hpl (.closeLock f) (by rw [hTf]; exact List.mem_cons_self)).1
        simp [isCloseLock] at this
    have hheld : th.held = [] := by
      have := h.k1 t th T hth hT
      rw [hT1] at this
      simpa using this
    exact linv_phase (p' := .annMu) (mu' := { ls.mu with writer := some t }) (un' := ls.un) h hth hT rfl rfl
      (fun _ => ⟨hheld, fun _ => ⟨f, hT1⟩⟩)
      (fun _ => rfl)
      (fun t2 _ th2 h1 h2 => by have := h.k5a t2 th2 h1 h2; rw [hw] at this; cases this)
      (fun t2 hw2 => Or.inl ⟨(Option.some.inj hw2).symm, by simp⟩)
      (fun hu => by cases hu) (fun t2 _ th2 h1 h2 => h.k5c t2 th2 h1 h2)
      (fun t2 hw2 => by
        exfalso
        obtain ⟨th2, h1, h2⟩ := h.k5d t2 hw2
        have := h.k5a t2 th2 h1 (phase_ne_of rfl h2)
        rw [hw] at this; cases this)
      (fun hu => by cases hu) (fun hu => by cases hu)

end GoLevel.CacheL
