import GoLevel.Proofs.MemDBList
/-! The search loops of the skip list (`findGE`, `findLT`, `findLast`) in closed form (C14). -/
set_option linter.unusedSectionVars false
set_option linter.unusedSimpArgs false
namespace GoLevel.MemDB

variable {cmp : Cmp}

theorem walkGE_eq (key : Bytes) (chain : List Bytes) (node : Node) :
    walkGE cmp key chain node =
      (((chain.takeWhile (below cmp key)).getLast?).or node, (chain.dropWhile (below cmp key)).head?) := by
  induction chain generalizing node with
  | nil => simp [walkGE]
  | cons x xs ih =>
    by_cases hx : cmp x key = .lt
    · simp only [walkGE, hx, if_true, ih, List.takeWhile_cons, List.dropWhile_cons, below, beq_self_eq_true]
      rw [List.getLast?_cons]
      cases (List.takeWhile (fun x => cmp x key == Ordering.lt) xs).getLast? <;> simp
    · have hb : (cmp x key == .lt) = false := by simp [hx]
      simp [walkGE, hx, List.takeWhile_cons, List.dropWhile_cons, below, hb]

theorem walkLT_eq (key : Bytes) (chain : List Bytes) (node : Node) :
    walkLT cmp key chain node = ((chain.takeWhile (below cmp key)).getLast?).or node := by
  induction chain generalizing node with
  | nil => simp [walkLT]
  | cons x xs ih =>
    by_cases hx : cmp x key = .lt
    · simp only [walkLT, hx, if_true, ih, List.takeWhile_cons, below, beq_self_eq_true]
      rw [List.getLast?_cons]
      cases (List.takeWhile (fun x => cmp x key == Ordering.lt) xs).getLast? <;> simp
    · have hb : (cmp x key == .lt) = false := by simp [hx]
      simp [walkLT, hx, List.takeWhile_cons, below, hb]

theorem walkLast_eq (chain : List Bytes) (node : Node) : walkLast chain node = chain.getLast?.or node := by
  induction chain generalizing node with
  | nil => simp [walkLast]
  | cons x xs ih =>
    simp only [walkLast, ih]
    rw [List.getLast?_cons]
    cases xs.getLast? <;> simp

/-- the node at which a level is entered lies on it and is below the key (or is the head) -/
def Entry (cmp : Cmp) (l : List Bytes) (key : Bytes) (e : Node) : Prop :=
  e = none ∨ ∃ n, e = some n ∧ n ∈ l ∧ cmp n key = .lt

/-- … or just lies on it (`findLast`) -/
def EntryOn (l : List Bytes) (e : Node) : Prop := e = none ∨ ∃ n, e = some n ∧ n ∈ l

section
variable (hc : LawfulCmp cmp)
include hc

theorem level_walk {l : List Bytes} (hs : Sorted cmp l) {key : Bytes} {e : Node} (he : Entry cmp l key e) :
    ((((after l e).takeWhile (below cmp key)).getLast?).or e = pred cmp l key) ∧
    ((after l e).dropWhile (below cmp key) = l.dropWhile (below cmp key)) := by
  rcases he with rfl | ⟨n, rfl, hn, hlt⟩
  · simp [after, pred]
  · obtain ⟨pre, post, rfl, h1, h2⟩ := sorted_split hc hs hn
    rw [after_append (sorted_nodup_pre hc h1)]
    have hpre : ∀ x ∈ pre, below cmp key x = true := by
      intro x hx; simp [below, hc.trans _ _ _ (h1 x hx) hlt]
    have hnb : below cmp key n = true := by simp [below, hlt]
    constructor
    · unfold pred
      rw [List.takeWhile_append_of_pos hpre, List.takeWhile_cons, hnb]
      simp only [if_true]
      rw [List.getLast?_append, List.getLast?_cons]
      cases (List.takeWhile (below cmp key) post).getLast? <;> simp
    · rw [List.dropWhile_append_of_pos hpre, List.dropWhile_cons, hnb]
      simp

theorem walkGE_level {l : List Bytes} (hs : Sorted cmp l) {key : Bytes} {e : Node} (he : Entry cmp l key e) :
    walkGE cmp key (after l e) e = (pred cmp l key, succ cmp l key) := by
  have := level_walk hc hs he
  rw [walkGE_eq, this.1, this.2]; rfl

theorem walkLT_level {l : List Bytes} (hs : Sorted cmp l) {key : Bytes} {e : Node} (he : Entry cmp l key e) :
    walkLT cmp key (after l e) e = pred cmp l key := by
  rw [walkLT_eq, (level_walk hc hs he).1]

theorem walkLast_level {l : List Bytes} (hs : Sorted cmp l) {e : Node} (he : EntryOn l e) :
    walkLast (after l e) e = l.getLast? := by
  rw [walkLast_eq]
  rcases he with rfl | ⟨n, rfl, hn⟩
  · simp [after]
  · obtain ⟨pre, post, rfl, h1, h2⟩ := sorted_split hc hs hn
    rw [after_append (sorted_nodup_pre hc h1), List.getLast?_append, List.getLast?_cons]
    cases post.getLast? <;> simp

theorem entry_pred {l l' : List Bytes} {key : Bytes} (hsub : ∀ x ∈ l, x ∈ l') :
    Entry cmp l' key (pred cmp l key) := by
  cases h : pred cmp l key with
  | none => exact .inl rfl
  | some n => exact .inr ⟨n, rfl, hsub n (pred_mem h).1, (pred_mem h).2⟩

end

/-- the lowest level of a top-first list of levels -/
def bottom (T : List (List Bytes)) : List Bytes := T.getLast?.getD []

theorem bottom_cons_cons (a b : List Bytes) (T : List (List Bytes)) : bottom (a :: b :: T) = bottom (b :: T) := by
  simp [bottom, List.getLast?_cons_cons]

theorem bottom_single (a : List Bytes) : bottom [a] = a := by simp [bottom]

theorem bottom_mem {T : List (List Bytes)} (h : T ≠ []) : bottom T ∈ T := by
  unfold bottom
  cases hl : T.getLast? with
  | none => simp [List.getLast?_eq_none_iff] at hl; exact absurd hl h
  | some x => simpa using List.mem_of_getLast? hl

section
variable (hc : LawfulCmp cmp)
include hc

/-- `findGE(key, true)`: the path is the predecessor on every level, the node found is the successor on
level 0 -/
theorem findGEFrom_prev (key : Bytes) : ∀ (T : List (List Bytes)) (e : Node) (acc : List Node),
    (∀ l ∈ T, Sorted cmp l) → T.Pairwise (fun hi lo => ∀ x ∈ hi, x ∈ lo) → T ≠ [] →
    Entry cmp (T.head?.getD []) key e →
    findGEFrom cmp key true T e acc =
      ⟨succ cmp (bottom T) key, isEq cmp key (succ cmp (bottom T) key), (T.map (pred cmp · key)).reverse ++ acc⟩ := by
  intro T
  induction T with
  | nil => intro e acc _ _ h; exact absurd rfl h
  | cons l lower ih =>
    intro e acc hS hT _ he
    have hl : Sorted cmp l := hS l (by simp)
    simp only [List.head?_cons, Option.getD_some] at he
    unfold findGEFrom
    simp only [walkGE_level hc hl he]
    cases lower with
    | nil => simp [bottom_single, isEq]
    | cons l2 rest =>
      have hT' := List.pairwise_cons.1 hT
      have hent : Entry cmp ((l2 :: rest).head?.getD []) key (pred cmp l key) := by
        simp only [List.head?_cons, Option.getD_some]
        exact entry_pred hc (hT'.1 l2 (by simp))
      have := ih (pred cmp l key) (pred cmp l key :: acc) (fun x hx => hS x (by simp [hx])) hT'.2 (by simp) hent
      simp only [Bool.not_true, Bool.false_and, List.isEmpty_cons, if_true, if_false, Bool.false_eq_true] 
      rw [this, bottom_cons_cons]
      simp

/-- `findGE(key, false)`: the same node and the same `exact`, whatever level the search stops at -/
theorem findGEFrom_noprev (key : Bytes) : ∀ (T : List (List Bytes)) (e : Node) (acc : List Node),
    (∀ l ∈ T, Sorted cmp l) → T.Pairwise (fun hi lo => ∀ x ∈ hi, x ∈ lo) → T ≠ [] →
    Entry cmp (T.head?.getD []) key e →
    (findGEFrom cmp key false T e acc).node = succ cmp (bottom T) key ∧
    (findGEFrom cmp key false T e acc).exact = isEq cmp key (succ cmp (bottom T) key) := by
  intro T
  induction T with
  | nil => intro e acc _ _ h; exact absurd rfl h
  | cons l lower ih =>
    intro e acc hS hT hne he
    have hl : Sorted cmp l := hS l (by simp)
    simp only [List.head?_cons, Option.getD_some] at he
    unfold findGEFrom
    simp only [walkGE_level hc hl he]
    have hT' := List.pairwise_cons.1 hT
    -- the level the search is on is contained in the bottom level
    have hsubB : ∀ x ∈ l, x ∈ bottom (l :: lower) := by
      cases lower with
      | nil => simp [bottom_single]
      | cons l2 rest =>
        rw [bottom_cons_cons]
        exact hT'.1 _ (bottom_mem (by simp))
    have hBs : Sorted cmp (bottom (l :: lower)) := hS _ (bottom_mem hne)
    by_cases heq : isEq cmp key (succ cmp l key) = true
    · -- early exit: the key itself was met on this level
      cases hsx : succ cmp l key with
      | none => rw [hsx] at heq; simp [isEq] at heq
      | some x =>
        rw [hsx] at heq
        have hxk : x = key := hc.eq_of _ _ (by simpa [isEq] using heq)
        subst hxk
        have hmem : x ∈ bottom (l :: lower) := hsubB x (succ_mem hsx)
        have hB := succ_of_mem hc hBs hmem
        have heq' : (cmp x x == Ordering.eq) = true := by simpa [isEq] using heq
        simp [heq', hB, isEq]
    · have hne' : isEq cmp key (succ cmp l key) = false := by simpa using heq
      simp only [hne', Bool.not_false, Bool.true_and, Bool.false_eq_true, if_false]
      cases lower with
      | nil =>
        simp [bottom_single, hne']
      | cons l2 rest =>
        have hent : Entry cmp ((l2 :: rest).head?.getD []) key (pred cmp l key) := by
          simp only [List.head?_cons, Option.getD_some]
          exact entry_pred hc (hT'.1 l2 (by simp))
        have := ih (pred cmp l key) acc (fun x hx => hS x (by simp [hx])) hT'.2 (by simp) hent
        simp only [List.isEmpty_cons, Bool.false_eq_true, if_false]
        rw [bottom_cons_cons]
        exact this

theorem findLTFrom_eq (key : Bytes) : ∀ (T : List (List Bytes)) (e : Node),
    (∀ l ∈ T, Sorted cmp l) → T.Pairwise (fun hi lo => ∀ x ∈ hi, x ∈ lo) → T ≠ [] →
    Entry cmp (T.head?.getD []) key e →
    findLTFrom cmp key T e = pred cmp (bottom T) key := by
  intro T
  induction T with
  | nil => intro e _ _ h; exact absurd rfl h
  | cons l lower ih =>
    intro e hS hT _ he
    have hl : Sorted cmp l := hS l (by simp)
    simp only [List.head?_cons, Option.getD_some] at he
    unfold findLTFrom
    rw [walkLT_level hc hl he]
    cases lower with
    | nil => simp [findLTFrom, bottom_single]
    | cons l2 rest =>
      have hT' := List.pairwise_cons.1 hT
      have hent : Entry cmp ((l2 :: rest).head?.getD []) key (pred cmp l key) := by
        simp only [List.head?_cons, Option.getD_some]
        exact entry_pred hc (hT'.1 l2 (by simp))
      rw [ih (pred cmp l key) (fun x hx => hS x (by simp [hx])) hT'.2 (by simp) hent, bottom_cons_cons]

theorem findLastFrom_eq : ∀ (T : List (List Bytes)) (e : Node),
    (∀ l ∈ T, Sorted cmp l) → T.Pairwise (fun hi lo => ∀ x ∈ hi, x ∈ lo) → T ≠ [] →
    EntryOn (T.head?.getD []) e →
    findLastFrom T e = (bottom T).getLast? := by
  intro T
  induction T with
  | nil => intro e _ _ h; exact absurd rfl h
  | cons l lower ih =>
    intro e hS hT _ he
    have hl : Sorted cmp l := hS l (by simp)
    simp only [List.head?_cons, Option.getD_some] at he
    unfold findLastFrom
    rw [walkLast_level hc hl he]
    cases lower with
    | nil => simp [findLastFrom, bottom_single]
    | cons l2 rest =>
      have hT' := List.pairwise_cons.1 hT
      have hent : EntryOn ((l2 :: rest).head?.getD []) l.getLast? := by
        simp only [List.head?_cons, Option.getD_some]
        cases h : l.getLast? with
        | none => exact .inl rfl
        | some n => exact .inr ⟨n, rfl, hT'.1 l2 (by simp) n (List.mem_of_getLast? h)⟩
      rw [ih l.getLast? (fun x hx => hS x (by simp [hx])) hT'.2 (by simp) hent, bottom_cons_cons]

end

end GoLevel.MemDB
