import GoLevel.Proofs.LocksPInv
/-! One of the invariants of `LocksPInv.lean` is preserved by every step (three fixes, `compactionError` as coded,
and the fourth fix or no `SetReadOnly`). -/
namespace GoLevel.Locks
open CompErr
set_option linter.unusedSimpArgs false

theorem step_pinvE (s t : St) (f : Bool) (cfg : Cfg) (hfx : Fixed3 cfg) (hm : cfg.m = .asCoded cfg.closeSel)
    (h4 : cfg.setReadOnlyReleasesOnClose = true ∨ NoSR s) (ia : PInvA s) (oe : OpenE s) (h : Step cfg f s t)
    (inv : PInvE s) : PInvE t := by
  unfold PInvE OpenE TokE at *
  obtain ⟨e1, e2, e3⟩ := inv
  have ia4 := ia.2.2.2.1
  clear ia
  have c1 := b2n_le s.trOpen
  have c2 := b2n_le s.ehTok
  have c3 := b2n_le s.closeTok
  have c4 := b2n_le s.tok
  obtain ⟨f1, f2, f3⟩ := hfx
  cases h with
  | startPut _ i hi =>
    clear h4
    have l0 := le_tot srW _ _ _ hi
    have l1 := le_tot lgW _ _ _ hi
    have l2 := le_tot clAllW _ _ _ hi
    have l3 := le_tot clPreW _ _ _ hi
    (try simp only [St.setDone, St.setBg, ↓reduceIte, Bool.false_eq_true, Bool.and_false, Bool.and_true, Bool.false_and, Bool.true_and]) <;> (repeat' split) <;> simp_all [tot_set_eq _ _ _ _ _ hi, tot_ackWs_srw', tot_ackWs_lgw, tot_ackWs_clall, tot_ackWs_clpre, b2n_true, b2n_false, clearW_idle, clearW_exited, clearW_parked, clearW_eq_exited, clearW_eq_parked, srW, lgW, clAllW, clPreW, St.bg, onOk, onErr, selNext, afterSetErr, srAllW, nextC, roSets] <;> (try omega) <;> (try (cases hk : s.ehTok <;> cases hc0 : s.closed <;> simp_all [b2n_true, b2n_false] <;> omega)) <;> (try grind)
  | startWrite _ i hi =>
    clear h4
    have l0 := le_tot srW _ _ _ hi
    have l1 := le_tot lgW _ _ _ hi
    have l2 := le_tot clAllW _ _ _ hi
    have l3 := le_tot clPreW _ _ _ hi
    (try simp only [St.setDone, St.setBg, ↓reduceIte, Bool.false_eq_true, Bool.and_false, Bool.and_true, Bool.false_and, Bool.true_and]) <;> (repeat' split) <;> simp_all [tot_set_eq _ _ _ _ _ hi, tot_ackWs_srw', tot_ackWs_lgw, tot_ackWs_clall, tot_ackWs_clpre, b2n_true, b2n_false, clearW_idle, clearW_exited, clearW_parked, clearW_eq_exited, clearW_eq_parked, srW, lgW, clAllW, clPreW, St.bg, onOk, onErr, selNext, afterSetErr, srAllW, nextC, roSets] <;> (try omega) <;> (try (cases hk : s.ehTok <;> cases hc0 : s.closed <;> simp_all [b2n_true, b2n_false] <;> omega)) <;> (try grind)
  | startOtx _ i hi =>
    clear h4
    have l0 := le_tot srW _ _ _ hi
    have l1 := le_tot lgW _ _ _ hi
    have l2 := le_tot clAllW _ _ _ hi
    have l3 := le_tot clPreW _ _ _ hi
    (try simp only [St.setDone, St.setBg, ↓reduceIte, Bool.false_eq_true, Bool.and_false, Bool.and_true, Bool.false_and, Bool.true_and]) <;> (repeat' split) <;> simp_all [tot_set_eq _ _ _ _ _ hi, tot_ackWs_srw', tot_ackWs_lgw, tot_ackWs_clall, tot_ackWs_clpre, b2n_true, b2n_false, clearW_idle, clearW_exited, clearW_parked, clearW_eq_exited, clearW_eq_parked, srW, lgW, clAllW, clPreW, St.bg, onOk, onErr, selNext, afterSetErr, srAllW, nextC, roSets] <;> (try omega) <;> (try (cases hk : s.ehTok <;> cases hc0 : s.closed <;> simp_all [b2n_true, b2n_false] <;> omega)) <;> (try grind)
  | startCommit _ i hi hu =>
    clear h4
    have l0 := le_tot srW _ _ _ hi
    have l1 := le_tot lgW _ _ _ hi
    have l2 := le_tot clAllW _ _ _ hi
    have l3 := le_tot clPreW _ _ _ hi
    (try simp only [St.setDone, St.setBg, ↓reduceIte, Bool.false_eq_true, Bool.and_false, Bool.and_true, Bool.false_and, Bool.true_and]) <;> (repeat' split) <;> simp_all [tot_set_eq _ _ _ _ _ hi, tot_ackWs_srw', tot_ackWs_lgw, tot_ackWs_clall, tot_ackWs_clpre, b2n_true, b2n_false, clearW_idle, clearW_exited, clearW_parked, clearW_eq_exited, clearW_eq_parked, srW, lgW, clAllW, clPreW, St.bg, onOk, onErr, selNext, afterSetErr, srAllW, nextC, roSets] <;> (try omega) <;> (try (cases hk : s.ehTok <;> cases hc0 : s.closed <;> simp_all [b2n_true, b2n_false] <;> omega)) <;> (try grind)
  | startDiscard _ i hi hu =>
    clear h4
    have l0 := le_tot srW _ _ _ hi
    have l1 := le_tot lgW _ _ _ hi
    have l2 := le_tot clAllW _ _ _ hi
    have l3 := le_tot clPreW _ _ _ hi
    (try simp only [St.setDone, St.setBg, ↓reduceIte, Bool.false_eq_true, Bool.and_false, Bool.and_true, Bool.false_and, Bool.true_and]) <;> (repeat' split) <;> simp_all [tot_set_eq _ _ _ _ _ hi, tot_ackWs_srw', tot_ackWs_lgw, tot_ackWs_clall, tot_ackWs_clpre, b2n_true, b2n_false, clearW_idle, clearW_exited, clearW_parked, clearW_eq_exited, clearW_eq_parked, srW, lgW, clAllW, clPreW, St.bg, onOk, onErr, selNext, afterSetErr, srAllW, nextC, roSets] <;> (try omega) <;> (try (cases hk : s.ehTok <;> cases hc0 : s.closed <;> simp_all [b2n_true, b2n_false] <;> omega)) <;> (try grind)
  | startCR _ i hi =>
    clear h4
    have l0 := le_tot srW _ _ _ hi
    have l1 := le_tot lgW _ _ _ hi
    have l2 := le_tot clAllW _ _ _ hi
    have l3 := le_tot clPreW _ _ _ hi
    (try simp only [St.setDone, St.setBg, ↓reduceIte, Bool.false_eq_true, Bool.and_false, Bool.and_true, Bool.false_and, Bool.true_and]) <;> (repeat' split) <;> simp_all [tot_set_eq _ _ _ _ _ hi, tot_ackWs_srw', tot_ackWs_lgw, tot_ackWs_clall, tot_ackWs_clpre, b2n_true, b2n_false, clearW_idle, clearW_exited, clearW_parked, clearW_eq_exited, clearW_eq_parked, srW, lgW, clAllW, clPreW, St.bg, onOk, onErr, selNext, afterSetErr, srAllW, nextC, roSets] <;> (try omega) <;> (try (cases hk : s.ehTok <;> cases hc0 : s.closed <;> simp_all [b2n_true, b2n_false] <;> omega)) <;> (try grind)
  | startSR _ i hi ha =>
    clear h4
    have l0 := le_tot srW _ _ _ hi
    have l1 := le_tot lgW _ _ _ hi
    have l2 := le_tot clAllW _ _ _ hi
    have l3 := le_tot clPreW _ _ _ hi
    (try simp only [St.setDone, St.setBg, ↓reduceIte, Bool.false_eq_true, Bool.and_false, Bool.and_true, Bool.false_and, Bool.true_and]) <;> (repeat' split) <;> simp_all [tot_set_eq _ _ _ _ _ hi, tot_ackWs_srw', tot_ackWs_lgw, tot_ackWs_clall, tot_ackWs_clpre, b2n_true, b2n_false, clearW_idle, clearW_exited, clearW_parked, clearW_eq_exited, clearW_eq_parked, srW, lgW, clAllW, clPreW, St.bg, onOk, onErr, selNext, afterSetErr, srAllW, nextC, roSets] <;> (try omega) <;> (try (cases hk : s.ehTok <;> cases hc0 : s.closed <;> simp_all [b2n_true, b2n_false] <;> omega)) <;> (try grind)
  | startClose _ i hi =>
    clear h4
    have l0 := le_tot srW _ _ _ hi
    have l1 := le_tot lgW _ _ _ hi
    have l2 := le_tot clAllW _ _ _ hi
    have l3 := le_tot clPreW _ _ _ hi
    (try simp only [St.setDone, St.setBg, ↓reduceIte, Bool.false_eq_true, Bool.and_false, Bool.and_true, Bool.false_and, Bool.true_and]) <;> (repeat' split) <;> simp_all [tot_set_eq _ _ _ _ _ hi, tot_ackWs_srw', tot_ackWs_lgw, tot_ackWs_clall, tot_ackWs_clpre, b2n_true, b2n_false, clearW_idle, clearW_exited, clearW_parked, clearW_eq_exited, clearW_eq_parked, srW, lgW, clAllW, clPreW, St.bg, onOk, onErr, selNext, afterSetErr, srAllW, nextC, roSets] <;> (try omega) <;> (try (cases hk : s.ehTok <;> cases hc0 : s.closed <;> simp_all [b2n_true, b2n_false] <;> omega)) <;> (try grind)
  | selTok _ i p q hi hq ht =>
    clear h4
    have l0 := le_tot srW _ _ _ hi
    have l1 := le_tot lgW _ _ _ hi
    have l2 := le_tot clAllW _ _ _ hi
    have l3 := le_tot clPreW _ _ _ hi
    cases p <;> simp only [selNext] at hq <;> (try contradiction) <;> cases hq <;> simp_all [tot_set_eq _ _ _ _ _ hi, tot_ackWs_srw', tot_ackWs_lgw, tot_ackWs_clall, tot_ackWs_clpre, b2n_true, b2n_false, clearW_idle, clearW_exited, clearW_parked, clearW_eq_exited, clearW_eq_parked, srW, lgW, clAllW, clPreW, St.bg, onOk, onErr, selNext, afterSetErr, srAllW, nextC, roSets] <;> (try omega) <;> (try (cases hk : s.ehTok <;> cases hc0 : s.closed <;> simp_all [b2n_true, b2n_false] <;> omega)) <;> (try grind)
  | selPerErr _ i p q hi hq he =>
    clear h4
    have l0 := le_tot srW _ _ _ hi
    have l1 := le_tot lgW _ _ _ hi
    have l2 := le_tot clAllW _ _ _ hi
    have l3 := le_tot clPreW _ _ _ hi
    cases p <;> simp only [selNext] at hq <;> (try contradiction) <;> cases hq <;> simp_all [tot_set_eq _ _ _ _ _ hi, tot_ackWs_srw', tot_ackWs_lgw, tot_ackWs_clall, tot_ackWs_clpre, b2n_true, b2n_false, clearW_idle, clearW_exited, clearW_parked, clearW_eq_exited, clearW_eq_parked, srW, lgW, clAllW, clPreW, St.bg, onOk, onErr, selNext, afterSetErr, srAllW, nextC, roSets] <;> (try omega) <;> (try (cases hk : s.ehTok <;> cases hc0 : s.closed <;> simp_all [b2n_true, b2n_false] <;> omega)) <;> (try grind)
  | selClosed _ i p q hi hq hc =>
    clear h4
    have l0 := le_tot srW _ _ _ hi
    have l1 := le_tot lgW _ _ _ hi
    have l2 := le_tot clAllW _ _ _ hi
    have l3 := le_tot clPreW _ _ _ hi
    cases p <;> simp only [selNext] at hq <;> (try contradiction) <;> cases hq <;> simp_all [tot_set_eq _ _ _ _ _ hi, tot_ackWs_srw', tot_ackWs_lgw, tot_ackWs_clall, tot_ackWs_clpre, b2n_true, b2n_false, clearW_idle, clearW_exited, clearW_parked, clearW_eq_exited, clearW_eq_parked, srW, lgW, clAllW, clPreW, St.bg, onOk, onErr, selNext, afterSetErr, srAllW, nextC, roSets] <;> (try omega) <;> (try (cases hk : s.ehTok <;> cases hc0 : s.closed <;> simp_all [b2n_true, b2n_false] <;> omega)) <;> (try grind)
  | putNoWait _ i hi =>
    clear h4
    have l0 := le_tot srW _ _ _ hi
    have l1 := le_tot lgW _ _ _ hi
    have l2 := le_tot clAllW _ _ _ hi
    have l3 := le_tot clPreW _ _ _ hi
    (try simp only [St.setDone, St.setBg, ↓reduceIte, Bool.false_eq_true, Bool.and_false, Bool.and_true, Bool.false_and, Bool.true_and]) <;> (repeat' split) <;> simp_all [tot_set_eq _ _ _ _ _ hi, tot_ackWs_srw', tot_ackWs_lgw, tot_ackWs_clall, tot_ackWs_clpre, b2n_true, b2n_false, clearW_idle, clearW_exited, clearW_parked, clearW_eq_exited, clearW_eq_parked, srW, lgW, clAllW, clPreW, St.bg, onOk, onErr, selNext, afterSetErr, srAllW, nextC, roSets] <;> (try omega) <;> (try (cases hk : s.ehTok <;> cases hc0 : s.closed <;> simp_all [b2n_true, b2n_false] <;> omega)) <;> (try grind)
  | putWait _ i b hi =>
    clear h4
    have l0 := le_tot srW _ _ _ hi
    have l1 := le_tot lgW _ _ _ hi
    have l2 := le_tot clAllW _ _ _ hi
    have l3 := le_tot clPreW _ _ _ hi
    cases b <;> (try simp only [St.setDone, St.setBg, ↓reduceIte, Bool.false_eq_true, Bool.and_false, Bool.and_true, Bool.false_and, Bool.true_and]) <;> (repeat' split) <;> simp_all [tot_set_eq _ _ _ _ _ hi, tot_ackWs_srw', tot_ackWs_lgw, tot_ackWs_clall, tot_ackWs_clpre, b2n_true, b2n_false, clearW_idle, clearW_exited, clearW_parked, clearW_eq_exited, clearW_eq_parked, srW, lgW, clAllW, clPreW, St.bg, onOk, onErr, selNext, afterSetErr, srAllW, nextC, roSets] <;> (try omega) <;> (try (cases hk : s.ehTok <;> cases hc0 : s.closed <;> simp_all [b2n_true, b2n_false] <;> omega)) <;> (try grind)
  | putJournalOk _ i hi =>
    clear h4
    have l0 := le_tot srW _ _ _ hi
    have l1 := le_tot lgW _ _ _ hi
    have l2 := le_tot clAllW _ _ _ hi
    have l3 := le_tot clPreW _ _ _ hi
    (try simp only [St.setDone, St.setBg, ↓reduceIte, Bool.false_eq_true, Bool.and_false, Bool.and_true, Bool.false_and, Bool.true_and]) <;> (repeat' split) <;> simp_all [tot_set_eq _ _ _ _ _ hi, tot_ackWs_srw', tot_ackWs_lgw, tot_ackWs_clall, tot_ackWs_clpre, b2n_true, b2n_false, clearW_idle, clearW_exited, clearW_parked, clearW_eq_exited, clearW_eq_parked, srW, lgW, clAllW, clPreW, St.bg, onOk, onErr, selNext, afterSetErr, srAllW, nextC, roSets] <;> (try omega) <;> (try (cases hk : s.ehTok <;> cases hc0 : s.closed <;> simp_all [b2n_true, b2n_false] <;> omega)) <;> (try grind)
  | putJournalFail _ i hi =>
    clear h4
    have l0 := le_tot srW _ _ _ hi
    have l1 := le_tot lgW _ _ _ hi
    have l2 := le_tot clAllW _ _ _ hi
    have l3 := le_tot clPreW _ _ _ hi
    (try simp only [St.setDone, St.setBg, ↓reduceIte, Bool.false_eq_true, Bool.and_false, Bool.and_true, Bool.false_and, Bool.true_and]) <;> (repeat' split) <;> simp_all [tot_set_eq _ _ _ _ _ hi, tot_ackWs_srw', tot_ackWs_lgw, tot_ackWs_clall, tot_ackWs_clpre, b2n_true, b2n_false, clearW_idle, clearW_exited, clearW_parked, clearW_eq_exited, clearW_eq_parked, srW, lgW, clAllW, clPreW, St.bg, onOk, onErr, selNext, afterSetErr, srAllW, nextC, roSets] <;> (try omega) <;> (try (cases hk : s.ehTok <;> cases hc0 : s.closed <;> simp_all [b2n_true, b2n_false] <;> omega)) <;> (try grind)
  | putUnlock _ i r hi =>
    clear h4
    have l0 := le_tot srW _ _ _ hi
    have l1 := le_tot lgW _ _ _ hi
    have l2 := le_tot clAllW _ _ _ hi
    have l3 := le_tot clPreW _ _ _ hi
    cases r <;> (try simp only [St.setDone, St.setBg, ↓reduceIte, Bool.false_eq_true, Bool.and_false, Bool.and_true, Bool.false_and, Bool.true_and]) <;> (repeat' split) <;> simp_all [tot_set_eq _ _ _ _ _ hi, tot_ackWs_srw', tot_ackWs_lgw, tot_ackWs_clall, tot_ackWs_clpre, b2n_true, b2n_false, clearW_idle, clearW_exited, clearW_parked, clearW_eq_exited, clearW_eq_parked, srW, lgW, clAllW, clPreW, St.bg, onOk, onErr, selNext, afterSetErr, srAllW, nextC, roSets] <;> (try omega) <;> (try (cases hk : s.ehTok <;> cases hc0 : s.closed <;> simp_all [b2n_true, b2n_false] <;> omega)) <;> (try grind)
  | cwSendGo _ i b site lg hi hb hro =>
    clear h4
    have l0 := le_tot srW _ _ _ hi
    have l1 := le_tot lgW _ _ _ hi
    have l2 := le_tot clAllW _ _ _ hi
    have l3 := le_tot clPreW _ _ _ hi
    cases site <;> cases b <;> cases lg <;> (try simp only [St.setDone, St.setBg, ↓reduceIte, Bool.false_eq_true, Bool.and_false, Bool.and_true, Bool.false_and, Bool.true_and]) <;> (repeat' split) <;> simp_all [tot_set_eq _ _ _ _ _ hi, tot_ackWs_srw', tot_ackWs_lgw, tot_ackWs_clall, tot_ackWs_clpre, b2n_true, b2n_false, clearW_idle, clearW_exited, clearW_parked, clearW_eq_exited, clearW_eq_parked, srW, lgW, clAllW, clPreW, St.bg, onOk, onErr, selNext, afterSetErr, srAllW, nextC, roSets] <;> (try omega) <;> (try (cases hk : s.ehTok <;> cases hc0 : s.closed <;> simp_all [b2n_true, b2n_false] <;> omega)) <;> (try grind)
  | cwSendRO _ i site lg hi hb hp hro =>
    clear h4
    have l0 := le_tot srW _ _ _ hi
    have l1 := le_tot lgW _ _ _ hi
    have l2 := le_tot clAllW _ _ _ hi
    have l3 := le_tot clPreW _ _ _ hi
    cases site <;> cases lg <;> (try simp only [St.setDone, St.setBg, ↓reduceIte, Bool.false_eq_true, Bool.and_false, Bool.and_true, Bool.false_and, Bool.true_and]) <;> (repeat' split) <;> simp_all [tot_set_eq _ _ _ _ _ hi, tot_ackWs_srw', tot_ackWs_lgw, tot_ackWs_clall, tot_ackWs_clpre, b2n_true, b2n_false, clearW_idle, clearW_exited, clearW_parked, clearW_eq_exited, clearW_eq_parked, srW, lgW, clAllW, clPreW, St.bg, onOk, onErr, selNext, afterSetErr, srAllW, nextC, roSets] <;> (try omega) <;> (try (cases hk : s.ehTok <;> cases hc0 : s.closed <;> simp_all [b2n_true, b2n_false] <;> omega)) <;> (try grind)
  | cwSendErr _ i b site lg hi he =>
    clear h4
    have l0 := le_tot srW _ _ _ hi
    have l1 := le_tot lgW _ _ _ hi
    have l2 := le_tot clAllW _ _ _ hi
    have l3 := le_tot clPreW _ _ _ hi
    cases site <;> cases b <;> cases lg <;> (try simp only [St.setDone, St.setBg, ↓reduceIte, Bool.false_eq_true, Bool.and_false, Bool.and_true, Bool.false_and, Bool.true_and]) <;> (repeat' split) <;> simp_all [tot_set_eq _ _ _ _ _ hi, tot_ackWs_srw', tot_ackWs_lgw, tot_ackWs_clall, tot_ackWs_clpre, b2n_true, b2n_false, clearW_idle, clearW_exited, clearW_parked, clearW_eq_exited, clearW_eq_parked, srW, lgW, clAllW, clPreW, St.bg, onOk, onErr, selNext, afterSetErr, srAllW, nextC, roSets] <;> (try omega) <;> (try (cases hk : s.ehTok <;> cases hc0 : s.closed <;> simp_all [b2n_true, b2n_false] <;> omega)) <;> (try grind)
  | cwAckErr _ i b site lg hi he =>
    clear h4
    have l0 := le_tot srW _ _ _ hi
    have l1 := le_tot lgW _ _ _ hi
    have l2 := le_tot clAllW _ _ _ hi
    have l3 := le_tot clPreW _ _ _ hi
    cases site <;> cases b <;> cases lg <;> (try simp only [St.setDone, St.setBg, ↓reduceIte, Bool.false_eq_true, Bool.and_false, Bool.and_true, Bool.false_and, Bool.true_and]) <;> (repeat' split) <;> simp_all [tot_set_eq _ _ _ _ _ hi, tot_ackWs_srw', tot_ackWs_lgw, tot_ackWs_clall, tot_ackWs_clpre, b2n_true, b2n_false, clearW_idle, clearW_exited, clearW_parked, clearW_eq_exited, clearW_eq_parked, srW, lgW, clAllW, clPreW, St.bg, onOk, onErr, selNext, afterSetErr, srAllW, nextC, roSets] <;> (try omega) <;> (try (cases hk : s.ehTok <;> cases hc0 : s.closed <;> simp_all [b2n_true, b2n_false] <;> omega)) <;> (try grind)
  | otxRotate _ i lg hi =>
    clear h4
    have l0 := le_tot srW _ _ _ hi
    have l1 := le_tot lgW _ _ _ hi
    have l2 := le_tot clAllW _ _ _ hi
    have l3 := le_tot clPreW _ _ _ hi
    cases lg <;> (try simp only [St.setDone, St.setBg, ↓reduceIte, Bool.false_eq_true, Bool.and_false, Bool.and_true, Bool.false_and, Bool.true_and]) <;> (repeat' split) <;> simp_all [tot_set_eq _ _ _ _ _ hi, tot_ackWs_srw', tot_ackWs_lgw, tot_ackWs_clall, tot_ackWs_clpre, b2n_true, b2n_false, clearW_idle, clearW_exited, clearW_parked, clearW_eq_exited, clearW_eq_parked, srW, lgW, clAllW, clPreW, St.bg, onOk, onErr, selNext, afterSetErr, srAllW, nextC, roSets] <;> (try omega) <;> (try (cases hk : s.ehTok <;> cases hc0 : s.closed <;> simp_all [b2n_true, b2n_false] <;> omega)) <;> (try grind)
  | otxNoRotate _ i lg hi =>
    clear h4
    have l0 := le_tot srW _ _ _ hi
    have l1 := le_tot lgW _ _ _ hi
    have l2 := le_tot clAllW _ _ _ hi
    have l3 := le_tot clPreW _ _ _ hi
    cases lg <;> (try simp only [St.setDone, St.setBg, ↓reduceIte, Bool.false_eq_true, Bool.and_false, Bool.and_true, Bool.false_and, Bool.true_and]) <;> (repeat' split) <;> simp_all [tot_set_eq _ _ _ _ _ hi, tot_ackWs_srw', tot_ackWs_lgw, tot_ackWs_clall, tot_ackWs_clpre, b2n_true, b2n_false, clearW_idle, clearW_exited, clearW_parked, clearW_eq_exited, clearW_eq_parked, srW, lgW, clAllW, clPreW, St.bg, onOk, onErr, selNext, afterSetErr, srAllW, nextC, roSets] <;> (try omega) <;> (try (cases hk : s.ehTok <;> cases hc0 : s.closed <;> simp_all [b2n_true, b2n_false] <;> omega)) <;> (try grind)
  | otxNewMemOk _ i lg hi =>
    clear h4
    have l0 := le_tot srW _ _ _ hi
    have l1 := le_tot lgW _ _ _ hi
    have l2 := le_tot clAllW _ _ _ hi
    have l3 := le_tot clPreW _ _ _ hi
    cases lg <;> (try simp only [St.setDone, St.setBg, ↓reduceIte, Bool.false_eq_true, Bool.and_false, Bool.and_true, Bool.false_and, Bool.true_and]) <;> (repeat' split) <;> simp_all [tot_set_eq _ _ _ _ _ hi, tot_ackWs_srw', tot_ackWs_lgw, tot_ackWs_clall, tot_ackWs_clpre, b2n_true, b2n_false, clearW_idle, clearW_exited, clearW_parked, clearW_eq_exited, clearW_eq_parked, srW, lgW, clAllW, clPreW, St.bg, onOk, onErr, selNext, afterSetErr, srAllW, nextC, roSets] <;> (try omega) <;> (try (cases hk : s.ehTok <;> cases hc0 : s.closed <;> simp_all [b2n_true, b2n_false] <;> omega)) <;> (try grind)
  | otxNewMemFail _ i lg hi =>
    clear h4
    have l0 := le_tot srW _ _ _ hi
    have l1 := le_tot lgW _ _ _ hi
    have l2 := le_tot clAllW _ _ _ hi
    have l3 := le_tot clPreW _ _ _ hi
    cases lg <;> (try simp only [St.setDone, St.setBg, ↓reduceIte, Bool.false_eq_true, Bool.and_false, Bool.and_true, Bool.false_and, Bool.true_and]) <;> (repeat' split) <;> simp_all [tot_set_eq _ _ _ _ _ hi, tot_ackWs_srw', tot_ackWs_lgw, tot_ackWs_clall, tot_ackWs_clpre, b2n_true, b2n_false, clearW_idle, clearW_exited, clearW_parked, clearW_eq_exited, clearW_eq_parked, srW, lgW, clAllW, clPreW, St.bg, onOk, onErr, selNext, afterSetErr, srAllW, nextC, roSets] <;> (try omega) <;> (try (cases hk : s.ehTok <;> cases hc0 : s.closed <;> simp_all [b2n_true, b2n_false] <;> omega)) <;> (try grind)
  | otxNoWaitComp _ i lg hi =>
    clear h4
    have l0 := le_tot srW _ _ _ hi
    have l1 := le_tot lgW _ _ _ hi
    have l2 := le_tot clAllW _ _ _ hi
    have l3 := le_tot clPreW _ _ _ hi
    cases lg <;> (try simp only [St.setDone, St.setBg, ↓reduceIte, Bool.false_eq_true, Bool.and_false, Bool.and_true, Bool.false_and, Bool.true_and]) <;> (repeat' split) <;> simp_all [tot_set_eq _ _ _ _ _ hi, tot_ackWs_srw', tot_ackWs_lgw, tot_ackWs_clall, tot_ackWs_clpre, b2n_true, b2n_false, clearW_idle, clearW_exited, clearW_parked, clearW_eq_exited, clearW_eq_parked, srW, lgW, clAllW, clPreW, St.bg, onOk, onErr, selNext, afterSetErr, srAllW, nextC, roSets] <;> (try omega) <;> (try (cases hk : s.ehTok <;> cases hc0 : s.closed <;> simp_all [b2n_true, b2n_false] <;> omega)) <;> (try grind)
  | otxWaitComp _ i lg hi =>
    clear h4
    have l0 := le_tot srW _ _ _ hi
    have l1 := le_tot lgW _ _ _ hi
    have l2 := le_tot clAllW _ _ _ hi
    have l3 := le_tot clPreW _ _ _ hi
    cases lg <;> (try simp only [St.setDone, St.setBg, ↓reduceIte, Bool.false_eq_true, Bool.and_false, Bool.and_true, Bool.false_and, Bool.true_and]) <;> (repeat' split) <;> simp_all [tot_set_eq _ _ _ _ _ hi, tot_ackWs_srw', tot_ackWs_lgw, tot_ackWs_clall, tot_ackWs_clpre, b2n_true, b2n_false, clearW_idle, clearW_exited, clearW_parked, clearW_eq_exited, clearW_eq_parked, srW, lgW, clAllW, clPreW, St.bg, onOk, onErr, selNext, afterSetErr, srAllW, nextC, roSets] <;> (try omega) <;> (try (cases hk : s.ehTok <;> cases hc0 : s.closed <;> simp_all [b2n_true, b2n_false] <;> omega)) <;> (try grind)
  | otxFail _ i lg hi =>
    clear h4
    have l0 := le_tot srW _ _ _ hi
    have l1 := le_tot lgW _ _ _ hi
    have l2 := le_tot clAllW _ _ _ hi
    have l3 := le_tot clPreW _ _ _ hi
    cases lg <;> (try simp only [St.setDone, St.setBg, ↓reduceIte, Bool.false_eq_true, Bool.and_false, Bool.and_true, Bool.false_and, Bool.true_and]) <;> (repeat' split) <;> simp_all [tot_set_eq _ _ _ _ _ hi, tot_ackWs_srw', tot_ackWs_lgw, tot_ackWs_clall, tot_ackWs_clpre, b2n_true, b2n_false, clearW_idle, clearW_exited, clearW_parked, clearW_eq_exited, clearW_eq_parked, srW, lgW, clAllW, clPreW, St.bg, onOk, onErr, selNext, afterSetErr, srAllW, nextC, roSets] <;> (try omega) <;> (try (cases hk : s.ehTok <;> cases hc0 : s.closed <;> simp_all [b2n_true, b2n_false] <;> omega)) <;> (try grind)
  | otxRel _ i lg hi =>
    clear h4
    have l0 := le_tot srW _ _ _ hi
    have l1 := le_tot lgW _ _ _ hi
    have l2 := le_tot clAllW _ _ _ hi
    have l3 := le_tot clPreW _ _ _ hi
    cases lg <;> (try simp only [St.setDone, St.setBg, ↓reduceIte, Bool.false_eq_true, Bool.and_false, Bool.and_true, Bool.false_and, Bool.true_and]) <;> (repeat' split) <;> simp_all [tot_set_eq _ _ _ _ _ hi, tot_ackWs_srw', tot_ackWs_lgw, tot_ackWs_clall, tot_ackWs_clpre, b2n_true, b2n_false, clearW_idle, clearW_exited, clearW_parked, clearW_eq_exited, clearW_eq_parked, srW, lgW, clAllW, clPreW, St.bg, onOk, onErr, selNext, afterSetErr, srAllW, nextC, roSets] <;> (try omega) <;> (try (cases hk : s.ehTok <;> cases hc0 : s.closed <;> simp_all [b2n_true, b2n_false] <;> omega)) <;> (try grind)
  | otxDone _ i lg hi =>
    clear h4
    have l0 := le_tot srW _ _ _ hi
    have l1 := le_tot lgW _ _ _ hi
    have l2 := le_tot clAllW _ _ _ hi
    have l3 := le_tot clPreW _ _ _ hi
    cases lg <;> (try simp only [St.setDone, St.setBg, ↓reduceIte, Bool.false_eq_true, Bool.and_false, Bool.and_true, Bool.false_and, Bool.true_and]) <;> (repeat' split) <;> simp_all [tot_set_eq _ _ _ _ _ hi, tot_ackWs_srw', tot_ackWs_lgw, tot_ackWs_clall, tot_ackWs_clpre, b2n_true, b2n_false, clearW_idle, clearW_exited, clearW_parked, clearW_eq_exited, clearW_eq_parked, srW, lgW, clAllW, clPreW, St.bg, onOk, onErr, selNext, afterSetErr, srAllW, nextC, roSets] <;> (try omega) <;> (try (cases hk : s.ehTok <;> cases hc0 : s.closed <;> simp_all [b2n_true, b2n_false] <;> omega)) <;> (try grind)
  | lgWriteOk _ i hi =>
    clear h4
    have l0 := le_tot srW _ _ _ hi
    have l1 := le_tot lgW _ _ _ hi
    have l2 := le_tot clAllW _ _ _ hi
    have l3 := le_tot clPreW _ _ _ hi
    (try simp only [St.setDone, St.setBg, ↓reduceIte, Bool.false_eq_true, Bool.and_false, Bool.and_true, Bool.false_and, Bool.true_and]) <;> (repeat' split) <;> simp_all [tot_set_eq _ _ _ _ _ hi, tot_ackWs_srw', tot_ackWs_lgw, tot_ackWs_clall, tot_ackWs_clpre, b2n_true, b2n_false, clearW_idle, clearW_exited, clearW_parked, clearW_eq_exited, clearW_eq_parked, srW, lgW, clAllW, clPreW, St.bg, onOk, onErr, selNext, afterSetErr, srAllW, nextC, roSets] <;> (try omega) <;> (try (cases hk : s.ehTok <;> cases hc0 : s.closed <;> simp_all [b2n_true, b2n_false] <;> omega)) <;> (try grind)
  | lgWriteFail _ i hi =>
    clear h4
    have l0 := le_tot srW _ _ _ hi
    have l1 := le_tot lgW _ _ _ hi
    have l2 := le_tot clAllW _ _ _ hi
    have l3 := le_tot clPreW _ _ _ hi
    (try simp only [St.setDone, St.setBg, ↓reduceIte, Bool.false_eq_true, Bool.and_false, Bool.and_true, Bool.false_and, Bool.true_and]) <;> (repeat' split) <;> simp_all [tot_set_eq _ _ _ _ _ hi, tot_ackWs_srw', tot_ackWs_lgw, tot_ackWs_clall, tot_ackWs_clpre, b2n_true, b2n_false, clearW_idle, clearW_exited, clearW_parked, clearW_eq_exited, clearW_eq_parked, srW, lgW, clAllW, clPreW, St.bg, onOk, onErr, selNext, afterSetErr, srAllW, nextC, roSets] <;> (try omega) <;> (try (cases hk : s.ehTok <;> cases hc0 : s.closed <;> simp_all [b2n_true, b2n_false] <;> omega)) <;> (try grind)
  | cmLockTr _ i lg hi hl =>
    clear h4
    have l0 := le_tot srW _ _ _ hi
    have l1 := le_tot lgW _ _ _ hi
    have l2 := le_tot clAllW _ _ _ hi
    have l3 := le_tot clPreW _ _ _ hi
    cases lg <;> (try simp only [St.setDone, St.setBg, ↓reduceIte, Bool.false_eq_true, Bool.and_false, Bool.and_true, Bool.false_and, Bool.true_and]) <;> (repeat' split) <;> simp_all [tot_set_eq _ _ _ _ _ hi, tot_ackWs_srw', tot_ackWs_lgw, tot_ackWs_clall, tot_ackWs_clpre, b2n_true, b2n_false, clearW_idle, clearW_exited, clearW_parked, clearW_eq_exited, clearW_eq_parked, srW, lgW, clAllW, clPreW, St.bg, onOk, onErr, selNext, afterSetErr, srAllW, nextC, roSets] <;> (try omega) <;> (try (cases hk : s.ehTok <;> cases hc0 : s.closed <;> simp_all [b2n_true, b2n_false] <;> omega)) <;> (try grind)
  | cmFlushOk _ i lg hi =>
    clear h4
    have l0 := le_tot srW _ _ _ hi
    have l1 := le_tot lgW _ _ _ hi
    have l2 := le_tot clAllW _ _ _ hi
    have l3 := le_tot clPreW _ _ _ hi
    cases lg <;> (try simp only [St.setDone, St.setBg, ↓reduceIte, Bool.false_eq_true, Bool.and_false, Bool.and_true, Bool.false_and, Bool.true_and]) <;> (repeat' split) <;> simp_all [tot_set_eq _ _ _ _ _ hi, tot_ackWs_srw', tot_ackWs_lgw, tot_ackWs_clall, tot_ackWs_clpre, b2n_true, b2n_false, clearW_idle, clearW_exited, clearW_parked, clearW_eq_exited, clearW_eq_parked, srW, lgW, clAllW, clPreW, St.bg, onOk, onErr, selNext, afterSetErr, srAllW, nextC, roSets] <;> (try omega) <;> (try (cases hk : s.ehTok <;> cases hc0 : s.closed <;> simp_all [b2n_true, b2n_false] <;> omega)) <;> (try grind)
  | cmFlushEmpty _ i lg hi =>
    clear h4
    have l0 := le_tot srW _ _ _ hi
    have l1 := le_tot lgW _ _ _ hi
    have l2 := le_tot clAllW _ _ _ hi
    have l3 := le_tot clPreW _ _ _ hi
    cases lg <;> (try simp only [St.setDone, St.setBg, ↓reduceIte, Bool.false_eq_true, Bool.and_false, Bool.and_true, Bool.false_and, Bool.true_and]) <;> (repeat' split) <;> simp_all [tot_set_eq _ _ _ _ _ hi, tot_ackWs_srw', tot_ackWs_lgw, tot_ackWs_clall, tot_ackWs_clpre, b2n_true, b2n_false, clearW_idle, clearW_exited, clearW_parked, clearW_eq_exited, clearW_eq_parked, srW, lgW, clAllW, clPreW, St.bg, onOk, onErr, selNext, afterSetErr, srAllW, nextC, roSets] <;> (try omega) <;> (try (cases hk : s.ehTok <;> cases hc0 : s.closed <;> simp_all [b2n_true, b2n_false] <;> omega)) <;> (try grind)
  | cmFlushFail _ i lg hi =>
    clear h4
    have l0 := le_tot srW _ _ _ hi
    have l1 := le_tot lgW _ _ _ hi
    have l2 := le_tot clAllW _ _ _ hi
    have l3 := le_tot clPreW _ _ _ hi
    cases lg <;> (try simp only [St.setDone, St.setBg, ↓reduceIte, Bool.false_eq_true, Bool.and_false, Bool.and_true, Bool.false_and, Bool.true_and]) <;> (repeat' split) <;> simp_all [tot_set_eq _ _ _ _ _ hi, tot_ackWs_srw', tot_ackWs_lgw, tot_ackWs_clall, tot_ackWs_clpre, b2n_true, b2n_false, clearW_idle, clearW_exited, clearW_parked, clearW_eq_exited, clearW_eq_parked, srW, lgW, clAllW, clPreW, St.bg, onOk, onErr, selNext, afterSetErr, srAllW, nextC, roSets] <;> (try omega) <;> (try (cases hk : s.ehTok <;> cases hc0 : s.closed <;> simp_all [b2n_true, b2n_false] <;> omega)) <;> (try grind)
  | cmLockClk _ i lg hi hl =>
    clear h4
    have l0 := le_tot srW _ _ _ hi
    have l1 := le_tot lgW _ _ _ hi
    have l2 := le_tot clAllW _ _ _ hi
    have l3 := le_tot clPreW _ _ _ hi
    cases lg <;> (try simp only [St.setDone, St.setBg, ↓reduceIte, Bool.false_eq_true, Bool.and_false, Bool.and_true, Bool.false_and, Bool.true_and]) <;> (repeat' split) <;> simp_all [tot_set_eq _ _ _ _ _ hi, tot_ackWs_srw', tot_ackWs_lgw, tot_ackWs_clall, tot_ackWs_clpre, b2n_true, b2n_false, clearW_idle, clearW_exited, clearW_parked, clearW_eq_exited, clearW_eq_parked, srW, lgW, clAllW, clPreW, St.bg, onOk, onErr, selNext, afterSetErr, srAllW, nextC, roSets] <;> (try omega) <;> (try (cases hk : s.ehTok <;> cases hc0 : s.closed <;> simp_all [b2n_true, b2n_false] <;> omega)) <;> (try grind)
  | cmTryOk _ i k lg hi =>
    clear h4
    have l0 := le_tot srW _ _ _ hi
    have l1 := le_tot lgW _ _ _ hi
    have l2 := le_tot clAllW _ _ _ hi
    have l3 := le_tot clPreW _ _ _ hi
    cases lg <;> (try simp only [St.setDone, St.setBg, ↓reduceIte, Bool.false_eq_true, Bool.and_false, Bool.and_true, Bool.false_and, Bool.true_and]) <;> (repeat' split) <;> simp_all [tot_set_eq _ _ _ _ _ hi, tot_ackWs_srw', tot_ackWs_lgw, tot_ackWs_clall, tot_ackWs_clpre, b2n_true, b2n_false, clearW_idle, clearW_exited, clearW_parked, clearW_eq_exited, clearW_eq_parked, srW, lgW, clAllW, clPreW, St.bg, onOk, onErr, selNext, afterSetErr, srAllW, nextC, roSets] <;> (try omega) <;> (try (cases hk : s.ehTok <;> cases hc0 : s.closed <;> simp_all [b2n_true, b2n_false] <;> omega)) <;> (try grind)
  | cmTryFail _ i k lg hi =>
    clear h4
    have l0 := le_tot srW _ _ _ hi
    have l1 := le_tot lgW _ _ _ hi
    have l2 := le_tot clAllW _ _ _ hi
    have l3 := le_tot clPreW _ _ _ hi
    cases lg <;> (try simp only [St.setDone, St.setBg, ↓reduceIte, Bool.false_eq_true, Bool.and_false, Bool.and_true, Bool.false_and, Bool.true_and]) <;> (repeat' split) <;> simp_all [tot_set_eq _ _ _ _ _ hi, tot_ackWs_srw', tot_ackWs_lgw, tot_ackWs_clall, tot_ackWs_clpre, b2n_true, b2n_false, clearW_idle, clearW_exited, clearW_parked, clearW_eq_exited, clearW_eq_parked, srW, lgW, clAllW, clPreW, St.bg, onOk, onErr, selNext, afterSetErr, srAllW, nextC, roSets] <;> (try omega) <;> (try (cases hk : s.ehTok <;> cases hc0 : s.closed <;> simp_all [b2n_true, b2n_false] <;> omega)) <;> (try grind)
  | cmSleepTimer _ i k lg hi =>
    clear h4
    have l0 := le_tot srW _ _ _ hi
    have l1 := le_tot lgW _ _ _ hi
    have l2 := le_tot clAllW _ _ _ hi
    have l3 := le_tot clPreW _ _ _ hi
    cases lg <;> (try simp only [St.setDone, St.setBg, ↓reduceIte, Bool.false_eq_true, Bool.and_false, Bool.and_true, Bool.false_and, Bool.true_and]) <;> (repeat' split) <;> simp_all [tot_set_eq _ _ _ _ _ hi, tot_ackWs_srw', tot_ackWs_lgw, tot_ackWs_clall, tot_ackWs_clpre, b2n_true, b2n_false, clearW_idle, clearW_exited, clearW_parked, clearW_eq_exited, clearW_eq_parked, srW, lgW, clAllW, clPreW, St.bg, onOk, onErr, selNext, afterSetErr, srAllW, nextC, roSets] <;> (try omega) <;> (try (cases hk : s.ehTok <;> cases hc0 : s.closed <;> simp_all [b2n_true, b2n_false] <;> omega)) <;> (try grind)
  | cmSleepClosed _ i k lg hi hc =>
    clear h4
    have l0 := le_tot srW _ _ _ hi
    have l1 := le_tot lgW _ _ _ hi
    have l2 := le_tot clAllW _ _ _ hi
    have l3 := le_tot clPreW _ _ _ hi
    cases lg <;> (try simp only [St.setDone, St.setBg, ↓reduceIte, Bool.false_eq_true, Bool.and_false, Bool.and_true, Bool.false_and, Bool.true_and]) <;> (repeat' split) <;> simp_all [tot_set_eq _ _ _ _ _ hi, tot_ackWs_srw', tot_ackWs_lgw, tot_ackWs_clall, tot_ackWs_clpre, b2n_true, b2n_false, clearW_idle, clearW_exited, clearW_parked, clearW_eq_exited, clearW_eq_parked, srW, lgW, clAllW, clPreW, St.bg, onOk, onErr, selNext, afterSetErr, srAllW, nextC, roSets] <;> (try omega) <;> (try (cases hk : s.ehTok <;> cases hc0 : s.closed <;> simp_all [b2n_true, b2n_false] <;> omega)) <;> (try grind)
  | cmFail3 _ i lg hi =>
    clear h4
    have l0 := le_tot srW _ _ _ hi
    have l1 := le_tot lgW _ _ _ hi
    have l2 := le_tot clAllW _ _ _ hi
    have l3 := le_tot clPreW _ _ _ hi
    cases lg <;> (try simp only [St.setDone, St.setBg, ↓reduceIte, Bool.false_eq_true, Bool.and_false, Bool.and_true, Bool.false_and, Bool.true_and]) <;> (repeat' split) <;> simp_all [tot_set_eq _ _ _ _ _ hi, tot_ackWs_srw', tot_ackWs_lgw, tot_ackWs_clall, tot_ackWs_clpre, b2n_true, b2n_false, clearW_idle, clearW_exited, clearW_parked, clearW_eq_exited, clearW_eq_parked, srW, lgW, clAllW, clPreW, St.bg, onOk, onErr, selNext, afterSetErr, srAllW, nextC, roSets] <;> (try omega) <;> (try (cases hk : s.ehTok <;> cases hc0 : s.closed <;> simp_all [b2n_true, b2n_false] <;> omega)) <;> (try grind)
  | cmAfterOk _ i lg hi =>
    clear h4
    have l0 := le_tot srW _ _ _ hi
    have l1 := le_tot lgW _ _ _ hi
    have l2 := le_tot clAllW _ _ _ hi
    have l3 := le_tot clPreW _ _ _ hi
    cases lg <;> (try simp only [St.setDone, St.setBg, ↓reduceIte, Bool.false_eq_true, Bool.and_false, Bool.and_true, Bool.false_and, Bool.true_and]) <;> (repeat' split) <;> simp_all [tot_set_eq _ _ _ _ _ hi, tot_ackWs_srw', tot_ackWs_lgw, tot_ackWs_clall, tot_ackWs_clpre, b2n_true, b2n_false, clearW_idle, clearW_exited, clearW_parked, clearW_eq_exited, clearW_eq_parked, srW, lgW, clAllW, clPreW, St.bg, onOk, onErr, selNext, afterSetErr, srAllW, nextC, roSets] <;> (try omega) <;> (try (cases hk : s.ehTok <;> cases hc0 : s.closed <;> simp_all [b2n_true, b2n_false] <;> omega)) <;> (try grind)
  | cmNoWaitComp _ i lg hi =>
    clear h4
    have l0 := le_tot srW _ _ _ hi
    have l1 := le_tot lgW _ _ _ hi
    have l2 := le_tot clAllW _ _ _ hi
    have l3 := le_tot clPreW _ _ _ hi
    cases lg <;> (try simp only [St.setDone, St.setBg, ↓reduceIte, Bool.false_eq_true, Bool.and_false, Bool.and_true, Bool.false_and, Bool.true_and]) <;> (repeat' split) <;> simp_all [tot_set_eq _ _ _ _ _ hi, tot_ackWs_srw', tot_ackWs_lgw, tot_ackWs_clall, tot_ackWs_clpre, b2n_true, b2n_false, clearW_idle, clearW_exited, clearW_parked, clearW_eq_exited, clearW_eq_parked, srW, lgW, clAllW, clPreW, St.bg, onOk, onErr, selNext, afterSetErr, srAllW, nextC, roSets] <;> (try omega) <;> (try (cases hk : s.ehTok <;> cases hc0 : s.closed <;> simp_all [b2n_true, b2n_false] <;> omega)) <;> (try grind)
  | cmWaitComp _ i lg hi =>
    clear h4
    have l0 := le_tot srW _ _ _ hi
    have l1 := le_tot lgW _ _ _ hi
    have l2 := le_tot clAllW _ _ _ hi
    have l3 := le_tot clPreW _ _ _ hi
    cases lg <;> (try simp only [St.setDone, St.setBg, ↓reduceIte, Bool.false_eq_true, Bool.and_false, Bool.and_true, Bool.false_and, Bool.true_and]) <;> (repeat' split) <;> simp_all [tot_set_eq _ _ _ _ _ hi, tot_ackWs_srw', tot_ackWs_lgw, tot_ackWs_clall, tot_ackWs_clpre, b2n_true, b2n_false, clearW_idle, clearW_exited, clearW_parked, clearW_eq_exited, clearW_eq_parked, srW, lgW, clAllW, clPreW, St.bg, onOk, onErr, selNext, afterSetErr, srAllW, nextC, roSets] <;> (try omega) <;> (try (cases hk : s.ehTok <;> cases hc0 : s.closed <;> simp_all [b2n_true, b2n_false] <;> omega)) <;> (try grind)
  | cmDone _ i lg hi =>
    clear h4
    have l0 := le_tot srW _ _ _ hi
    have l1 := le_tot lgW _ _ _ hi
    have l2 := le_tot clAllW _ _ _ hi
    have l3 := le_tot clPreW _ _ _ hi
    cases lg <;> (try simp only [St.setDone, St.setBg, ↓reduceIte, Bool.false_eq_true, Bool.and_false, Bool.and_true, Bool.false_and, Bool.true_and]) <;> (repeat' split) <;> simp_all [tot_set_eq _ _ _ _ _ hi, tot_ackWs_srw', tot_ackWs_lgw, tot_ackWs_clall, tot_ackWs_clpre, b2n_true, b2n_false, clearW_idle, clearW_exited, clearW_parked, clearW_eq_exited, clearW_eq_parked, srW, lgW, clAllW, clPreW, St.bg, onOk, onErr, selNext, afterSetErr, srAllW, nextC, roSets] <;> (try omega) <;> (try (cases hk : s.ehTok <;> cases hc0 : s.closed <;> simp_all [b2n_true, b2n_false] <;> omega)) <;> (try grind)
  | cmRet _ i ok lg hi =>
    clear h4
    have l0 := le_tot srW _ _ _ hi
    have l1 := le_tot lgW _ _ _ hi
    have l2 := le_tot clAllW _ _ _ hi
    have l3 := le_tot clPreW _ _ _ hi
    cases ok <;> cases lg <;> (try simp only [St.setDone, St.setBg, ↓reduceIte, Bool.false_eq_true, Bool.and_false, Bool.and_true, Bool.false_and, Bool.true_and]) <;> (repeat' split) <;> simp_all [tot_set_eq _ _ _ _ _ hi, tot_ackWs_srw', tot_ackWs_lgw, tot_ackWs_clall, tot_ackWs_clpre, b2n_true, b2n_false, clearW_idle, clearW_exited, clearW_parked, clearW_eq_exited, clearW_eq_parked, srW, lgW, clAllW, clPreW, St.bg, onOk, onErr, selNext, afterSetErr, srAllW, nextC, roSets] <;> (try omega) <;> (try (cases hk : s.ehTok <;> cases hc0 : s.closed <;> simp_all [b2n_true, b2n_false] <;> omega)) <;> (try grind)
  | dcLockTr _ i lg hi hl =>
    clear h4
    have l0 := le_tot srW _ _ _ hi
    have l1 := le_tot lgW _ _ _ hi
    have l2 := le_tot clAllW _ _ _ hi
    have l3 := le_tot clPreW _ _ _ hi
    cases lg <;> (try simp only [St.setDone, St.setBg, ↓reduceIte, Bool.false_eq_true, Bool.and_false, Bool.and_true, Bool.false_and, Bool.true_and]) <;> (repeat' split) <;> simp_all [tot_set_eq _ _ _ _ _ hi, tot_ackWs_srw', tot_ackWs_lgw, tot_ackWs_clall, tot_ackWs_clpre, b2n_true, b2n_false, clearW_idle, clearW_exited, clearW_parked, clearW_eq_exited, clearW_eq_parked, srW, lgW, clAllW, clPreW, St.bg, onOk, onErr, selNext, afterSetErr, srAllW, nextC, roSets] <;> (try omega) <;> (try (cases hk : s.ehTok <;> cases hc0 : s.closed <;> simp_all [b2n_true, b2n_false] <;> omega)) <;> (try grind)
  | dcBody _ i lg hi =>
    clear h4
    have l0 := le_tot srW _ _ _ hi
    have l1 := le_tot lgW _ _ _ hi
    have l2 := le_tot clAllW _ _ _ hi
    have l3 := le_tot clPreW _ _ _ hi
    cases lg <;> (try simp only [St.setDone, St.setBg, ↓reduceIte, Bool.false_eq_true, Bool.and_false, Bool.and_true, Bool.false_and, Bool.true_and]) <;> (repeat' split) <;> simp_all [tot_set_eq _ _ _ _ _ hi, tot_ackWs_srw', tot_ackWs_lgw, tot_ackWs_clall, tot_ackWs_clpre, b2n_true, b2n_false, clearW_idle, clearW_exited, clearW_parked, clearW_eq_exited, clearW_eq_parked, srW, lgW, clAllW, clPreW, St.bg, onOk, onErr, selNext, afterSetErr, srAllW, nextC, roSets] <;> (try omega) <;> (try (cases hk : s.ehTok <;> cases hc0 : s.closed <;> simp_all [b2n_true, b2n_false] <;> omega)) <;> (try grind)
  | crNoOverlap _ i hi =>
    clear h4
    have l0 := le_tot srW _ _ _ hi
    have l1 := le_tot lgW _ _ _ hi
    have l2 := le_tot clAllW _ _ _ hi
    have l3 := le_tot clPreW _ _ _ hi
    (try simp only [St.setDone, St.setBg, ↓reduceIte, Bool.false_eq_true, Bool.and_false, Bool.and_true, Bool.false_and, Bool.true_and]) <;> (repeat' split) <;> simp_all [tot_set_eq _ _ _ _ _ hi, tot_ackWs_srw', tot_ackWs_lgw, tot_ackWs_clall, tot_ackWs_clpre, b2n_true, b2n_false, clearW_idle, clearW_exited, clearW_parked, clearW_eq_exited, clearW_eq_parked, srW, lgW, clAllW, clPreW, St.bg, onOk, onErr, selNext, afterSetErr, srAllW, nextC, roSets] <;> (try omega) <;> (try (cases hk : s.ehTok <;> cases hc0 : s.closed <;> simp_all [b2n_true, b2n_false] <;> omega)) <;> (try grind)
  | crOverlap _ i hi =>
    clear h4
    have l0 := le_tot srW _ _ _ hi
    have l1 := le_tot lgW _ _ _ hi
    have l2 := le_tot clAllW _ _ _ hi
    have l3 := le_tot clPreW _ _ _ hi
    (try simp only [St.setDone, St.setBg, ↓reduceIte, Bool.false_eq_true, Bool.and_false, Bool.and_true, Bool.false_and, Bool.true_and]) <;> (repeat' split) <;> simp_all [tot_set_eq _ _ _ _ _ hi, tot_ackWs_srw', tot_ackWs_lgw, tot_ackWs_clall, tot_ackWs_clpre, b2n_true, b2n_false, clearW_idle, clearW_exited, clearW_parked, clearW_eq_exited, clearW_eq_parked, srW, lgW, clAllW, clPreW, St.bg, onOk, onErr, selNext, afterSetErr, srAllW, nextC, roSets] <;> (try omega) <;> (try (cases hk : s.ehTok <;> cases hc0 : s.closed <;> simp_all [b2n_true, b2n_false] <;> omega)) <;> (try grind)
  | crNewMemOk _ i hi =>
    clear h4
    have l0 := le_tot srW _ _ _ hi
    have l1 := le_tot lgW _ _ _ hi
    have l2 := le_tot clAllW _ _ _ hi
    have l3 := le_tot clPreW _ _ _ hi
    (try simp only [St.setDone, St.setBg, ↓reduceIte, Bool.false_eq_true, Bool.and_false, Bool.and_true, Bool.false_and, Bool.true_and]) <;> (repeat' split) <;> simp_all [tot_set_eq _ _ _ _ _ hi, tot_ackWs_srw', tot_ackWs_lgw, tot_ackWs_clall, tot_ackWs_clpre, b2n_true, b2n_false, clearW_idle, clearW_exited, clearW_parked, clearW_eq_exited, clearW_eq_parked, srW, lgW, clAllW, clPreW, St.bg, onOk, onErr, selNext, afterSetErr, srAllW, nextC, roSets] <;> (try omega) <;> (try (cases hk : s.ehTok <;> cases hc0 : s.closed <;> simp_all [b2n_true, b2n_false] <;> omega)) <;> (try grind)
  | crNewMemFail _ i hi =>
    clear h4
    have l0 := le_tot srW _ _ _ hi
    have l1 := le_tot lgW _ _ _ hi
    have l2 := le_tot clAllW _ _ _ hi
    have l3 := le_tot clPreW _ _ _ hi
    (try simp only [St.setDone, St.setBg, ↓reduceIte, Bool.false_eq_true, Bool.and_false, Bool.and_true, Bool.false_and, Bool.true_and]) <;> (repeat' split) <;> simp_all [tot_set_eq _ _ _ _ _ hi, tot_ackWs_srw', tot_ackWs_lgw, tot_ackWs_clall, tot_ackWs_clpre, b2n_true, b2n_false, clearW_idle, clearW_exited, clearW_parked, clearW_eq_exited, clearW_eq_parked, srW, lgW, clAllW, clPreW, St.bg, onOk, onErr, selNext, afterSetErr, srAllW, nextC, roSets] <;> (try omega) <;> (try (cases hk : s.ehTok <;> cases hc0 : s.closed <;> simp_all [b2n_true, b2n_false] <;> omega)) <;> (try grind)
  | crRelM _ i hi =>
    clear h4
    have l0 := le_tot srW _ _ _ hi
    have l1 := le_tot lgW _ _ _ hi
    have l2 := le_tot clAllW _ _ _ hi
    have l3 := le_tot clPreW _ _ _ hi
    (try simp only [St.setDone, St.setBg, ↓reduceIte, Bool.false_eq_true, Bool.and_false, Bool.and_true, Bool.false_and, Bool.true_and]) <;> (repeat' split) <;> simp_all [tot_set_eq _ _ _ _ _ hi, tot_ackWs_srw', tot_ackWs_lgw, tot_ackWs_clall, tot_ackWs_clpre, b2n_true, b2n_false, clearW_idle, clearW_exited, clearW_parked, clearW_eq_exited, clearW_eq_parked, srW, lgW, clAllW, clPreW, St.bg, onOk, onErr, selNext, afterSetErr, srAllW, nextC, roSets] <;> (try omega) <;> (try (cases hk : s.ehTok <;> cases hc0 : s.closed <;> simp_all [b2n_true, b2n_false] <;> omega)) <;> (try grind)
  | crRelOk _ i hi =>
    clear h4
    have l0 := le_tot srW _ _ _ hi
    have l1 := le_tot lgW _ _ _ hi
    have l2 := le_tot clAllW _ _ _ hi
    have l3 := le_tot clPreW _ _ _ hi
    (try simp only [St.setDone, St.setBg, ↓reduceIte, Bool.false_eq_true, Bool.and_false, Bool.and_true, Bool.false_and, Bool.true_and]) <;> (repeat' split) <;> simp_all [tot_set_eq _ _ _ _ _ hi, tot_ackWs_srw', tot_ackWs_lgw, tot_ackWs_clall, tot_ackWs_clpre, b2n_true, b2n_false, clearW_idle, clearW_exited, clearW_parked, clearW_eq_exited, clearW_eq_parked, srW, lgW, clAllW, clPreW, St.bg, onOk, onErr, selNext, afterSetErr, srAllW, nextC, roSets] <;> (try omega) <;> (try (cases hk : s.ehTok <;> cases hc0 : s.closed <;> simp_all [b2n_true, b2n_false] <;> omega)) <;> (try grind)
  | crRelFail _ i hi =>
    clear h4
    have l0 := le_tot srW _ _ _ hi
    have l1 := le_tot lgW _ _ _ hi
    have l2 := le_tot clAllW _ _ _ hi
    have l3 := le_tot clPreW _ _ _ hi
    (try simp only [St.setDone, St.setBg, ↓reduceIte, Bool.false_eq_true, Bool.and_false, Bool.and_true, Bool.false_and, Bool.true_and]) <;> (repeat' split) <;> simp_all [tot_set_eq _ _ _ _ _ hi, tot_ackWs_srw', tot_ackWs_lgw, tot_ackWs_clall, tot_ackWs_clpre, b2n_true, b2n_false, clearW_idle, clearW_exited, clearW_parked, clearW_eq_exited, clearW_eq_parked, srW, lgW, clAllW, clPreW, St.bg, onOk, onErr, selNext, afterSetErr, srAllW, nextC, roSets] <;> (try omega) <;> (try (cases hk : s.ehTok <;> cases hc0 : s.closed <;> simp_all [b2n_true, b2n_false] <;> omega)) <;> (try grind)
  | srSend _ i hi he =>
    clear h4
    have l0 := le_tot srW _ _ _ hi
    have l1 := le_tot lgW _ _ _ hi
    have l2 := le_tot clAllW _ _ _ hi
    have l3 := le_tot clPreW _ _ _ hi
    simp only [hm, recvs_asCoded] at he
    rcases he with he | he <;> (try simp only [St.setDone, St.setBg, ↓reduceIte, Bool.false_eq_true, Bool.and_false, Bool.and_true, Bool.false_and, Bool.true_and]) <;> (repeat' split) <;> simp_all [tot_set_eq _ _ _ _ _ hi, tot_ackWs_srw', tot_ackWs_lgw, tot_ackWs_clall, tot_ackWs_clpre, b2n_true, b2n_false, clearW_idle, clearW_exited, clearW_parked, clearW_eq_exited, clearW_eq_parked, srW, lgW, clAllW, clPreW, St.bg, onOk, onErr, selNext, afterSetErr, srAllW, nextC, roSets] <;> (try omega) <;> (try (cases hk : s.ehTok <;> cases hc0 : s.closed <;> simp_all [b2n_true, b2n_false] <;> omega)) <;> (try grind)
  | srPerErr _ i hi he =>
    clear h4
    have l0 := le_tot srW _ _ _ hi
    have l1 := le_tot lgW _ _ _ hi
    have l2 := le_tot clAllW _ _ _ hi
    have l3 := le_tot clPreW _ _ _ hi
    (try simp only [St.setDone, St.setBg, ↓reduceIte, Bool.false_eq_true, Bool.and_false, Bool.and_true, Bool.false_and, Bool.true_and]) <;> (repeat' split) <;> simp_all [tot_set_eq _ _ _ _ _ hi, tot_ackWs_srw', tot_ackWs_lgw, tot_ackWs_clall, tot_ackWs_clpre, b2n_true, b2n_false, clearW_idle, clearW_exited, clearW_parked, clearW_eq_exited, clearW_eq_parked, srW, lgW, clAllW, clPreW, St.bg, onOk, onErr, selNext, afterSetErr, srAllW, nextC, roSets] <;> (try omega) <;> (try (cases hk : s.ehTok <;> cases hc0 : s.closed <;> simp_all [b2n_true, b2n_false] <;> omega)) <;> (try grind)
  | srClosed _ i hi hc =>
    have l0 := le_tot srW _ _ _ hi
    have l1 := le_tot lgW _ _ _ hi
    have l2 := le_tot clAllW _ _ _ hi
    have l3 := le_tot clPreW _ _ _ hi
    have ls := le_tot srAllW _ _ _ hi
    rcases h4 with h4 | ⟨_, h4⟩ <;> (try simp only [St.setDone, St.setBg, ↓reduceIte, Bool.false_eq_true, Bool.and_false, Bool.and_true, Bool.false_and, Bool.true_and]) <;> (repeat' split) <;> simp_all [tot_set_eq _ _ _ _ _ hi, tot_ackWs_srw', tot_ackWs_lgw, tot_ackWs_clall, tot_ackWs_clpre, b2n_true, b2n_false, clearW_idle, clearW_exited, clearW_parked, clearW_eq_exited, clearW_eq_parked, srW, lgW, clAllW, clPreW, St.bg, onOk, onErr, selNext, afterSetErr, srAllW, nextC, roSets] <;> (try omega) <;> (try (cases hk : s.ehTok <;> cases hc0 : s.closed <;> simp_all [b2n_true, b2n_false] <;> omega)) <;> (try grind)
  | clCheckTr _ i hi =>
    clear h4
    have l0 := le_tot srW _ _ _ hi
    have l1 := le_tot lgW _ _ _ hi
    have l2 := le_tot clAllW _ _ _ hi
    have l3 := le_tot clPreW _ _ _ hi
    (try simp only [St.setDone, St.setBg, ↓reduceIte, Bool.false_eq_true, Bool.and_false, Bool.and_true, Bool.false_and, Bool.true_and]) <;> (repeat' split) <;> simp_all [tot_set_eq _ _ _ _ _ hi, tot_ackWs_srw', tot_ackWs_lgw, tot_ackWs_clall, tot_ackWs_clpre, b2n_true, b2n_false, clearW_idle, clearW_exited, clearW_parked, clearW_eq_exited, clearW_eq_parked, srW, lgW, clAllW, clPreW, St.bg, onOk, onErr, selNext, afterSetErr, srAllW, nextC, roSets] <;> (try omega) <;> (try (cases hk : s.ehTok <;> cases hc0 : s.closed <;> simp_all [b2n_true, b2n_false] <;> omega)) <;> (try grind)
  | clLockTr _ i hi hl =>
    clear h4
    have l0 := le_tot srW _ _ _ hi
    have l1 := le_tot lgW _ _ _ hi
    have l2 := le_tot clAllW _ _ _ hi
    have l3 := le_tot clPreW _ _ _ hi
    (try simp only [St.setDone, St.setBg, ↓reduceIte, Bool.false_eq_true, Bool.and_false, Bool.and_true, Bool.false_and, Bool.true_and]) <;> (repeat' split) <;> simp_all [tot_set_eq _ _ _ _ _ hi, tot_ackWs_srw', tot_ackWs_lgw, tot_ackWs_clall, tot_ackWs_clpre, b2n_true, b2n_false, clearW_idle, clearW_exited, clearW_parked, clearW_eq_exited, clearW_eq_parked, srW, lgW, clAllW, clPreW, St.bg, onOk, onErr, selNext, afterSetErr, srAllW, nextC, roSets] <;> (try omega) <;> (try (cases hk : s.ehTok <;> cases hc0 : s.closed <;> simp_all [b2n_true, b2n_false] <;> omega)) <;> (try grind)
  | clBody _ i hi =>
    clear h4
    have l0 := le_tot srW _ _ _ hi
    have l1 := le_tot lgW _ _ _ hi
    have l2 := le_tot clAllW _ _ _ hi
    have l3 := le_tot clPreW _ _ _ hi
    (try simp only [St.setDone, St.setBg, ↓reduceIte, Bool.false_eq_true, Bool.and_false, Bool.and_true, Bool.false_and, Bool.true_and]) <;> (repeat' split) <;> simp_all [tot_set_eq _ _ _ _ _ hi, tot_ackWs_srw', tot_ackWs_lgw, tot_ackWs_clall, tot_ackWs_clpre, b2n_true, b2n_false, clearW_idle, clearW_exited, clearW_parked, clearW_eq_exited, clearW_eq_parked, srW, lgW, clAllW, clPreW, St.bg, onOk, onErr, selNext, afterSetErr, srAllW, nextC, roSets] <;> (try omega) <;> (try (cases hk : s.ehTok <;> cases hc0 : s.closed <;> simp_all [b2n_true, b2n_false] <;> omega)) <;> (try grind)
  | clAcq _ i hi ht =>
    clear h4
    have l0 := le_tot srW _ _ _ hi
    have l1 := le_tot lgW _ _ _ hi
    have l2 := le_tot clAllW _ _ _ hi
    have l3 := le_tot clPreW _ _ _ hi
    (try simp only [St.setDone, St.setBg, ↓reduceIte, Bool.false_eq_true, Bool.and_false, Bool.and_true, Bool.false_and, Bool.true_and]) <;> (repeat' split) <;> simp_all [tot_set_eq _ _ _ _ _ hi, tot_ackWs_srw', tot_ackWs_lgw, tot_ackWs_clall, tot_ackWs_clpre, b2n_true, b2n_false, clearW_idle, clearW_exited, clearW_parked, clearW_eq_exited, clearW_eq_parked, srW, lgW, clAllW, clPreW, St.bg, onOk, onErr, selNext, afterSetErr, srAllW, nextC, roSets] <;> (try omega) <;> (try (cases hk : s.ehTok <;> cases hc0 : s.closed <;> simp_all [b2n_true, b2n_false] <;> omega)) <;> (try grind)
  | clAcqKept _ i hi he hk hs =>
    clear h4
    have l0 := le_tot srW _ _ _ hi
    have l1 := le_tot lgW _ _ _ hi
    have l2 := le_tot clAllW _ _ _ hi
    have l3 := le_tot clPreW _ _ _ hi
    (try simp only [St.setDone, St.setBg, ↓reduceIte, Bool.false_eq_true, Bool.and_false, Bool.and_true, Bool.false_and, Bool.true_and]) <;> (repeat' split) <;> simp_all [tot_set_eq _ _ _ _ _ hi, tot_ackWs_srw', tot_ackWs_lgw, tot_ackWs_clall, tot_ackWs_clpre, b2n_true, b2n_false, clearW_idle, clearW_exited, clearW_parked, clearW_eq_exited, clearW_eq_parked, srW, lgW, clAllW, clPreW, St.bg, onOk, onErr, selNext, afterSetErr, srAllW, nextC, roSets] <;> (try omega) <;> (try (cases hk : s.ehTok <;> cases hc0 : s.closed <;> simp_all [b2n_true, b2n_false] <;> omega)) <;> (try grind)
  | clWait _ i hi hm ht =>
    clear h4
    have l0 := le_tot srW _ _ _ hi
    have l1 := le_tot lgW _ _ _ hi
    have l2 := le_tot clAllW _ _ _ hi
    have l3 := le_tot clPreW _ _ _ hi
    (try simp only [St.setDone, St.setBg, ↓reduceIte, Bool.false_eq_true, Bool.and_false, Bool.and_true, Bool.false_and, Bool.true_and]) <;> (repeat' split) <;> simp_all [tot_set_eq _ _ _ _ _ hi, tot_ackWs_srw', tot_ackWs_lgw, tot_ackWs_clall, tot_ackWs_clpre, b2n_true, b2n_false, clearW_idle, clearW_exited, clearW_parked, clearW_eq_exited, clearW_eq_parked, srW, lgW, clAllW, clPreW, St.bg, onOk, onErr, selNext, afterSetErr, srAllW, nextC, roSets] <;> (try omega) <;> (try (cases hk : s.ehTok <;> cases hc0 : s.closed <;> simp_all [b2n_true, b2n_false] <;> omega)) <;> (try grind)
  | ehAcquire _ he ht =>
    clear h4
    (try simp only [St.setDone, St.setBg, ↓reduceIte, Bool.false_eq_true, Bool.and_false, Bool.and_true, Bool.false_and, Bool.true_and]) <;> (repeat' split) <;> simp_all [tot_ackWs_srw', tot_ackWs_lgw, tot_ackWs_clall, tot_ackWs_clpre, b2n_true, b2n_false, clearW_idle, clearW_exited, clearW_parked, clearW_eq_exited, clearW_eq_parked, srW, lgW, clAllW, clPreW, St.bg, onOk, onErr, selNext, afterSetErr, srAllW, nextC, roSets] <;> (try omega) <;> (try (cases hk : s.ehTok <;> cases hc0 : s.closed <;> simp_all [b2n_true, b2n_false] <;> omega)) <;> (try grind)
  | ehClose _ he hc =>
    clear h4
    simp only [hm, closes_asCoded] at he
    rcases he with he | he | he <;> (try simp only [St.setDone, St.setBg, ↓reduceIte, Bool.false_eq_true, Bool.and_false, Bool.and_true, Bool.false_and, Bool.true_and]) <;> (repeat' split) <;> simp_all [tot_ackWs_srw', tot_ackWs_lgw, tot_ackWs_clall, tot_ackWs_clpre, b2n_true, b2n_false, clearW_idle, clearW_exited, clearW_parked, clearW_eq_exited, clearW_eq_parked, srW, lgW, clAllW, clPreW, St.bg, onOk, onErr, selNext, afterSetErr, srAllW, nextC, roSets] <;> (try omega) <;> (try (cases hk : s.ehTok <;> cases hc0 : s.closed <;> simp_all [b2n_true, b2n_false] <;> omega)) <;> (try grind)
  | ehTake _ he ht =>
    clear h4
    (try simp only [St.setDone, St.setBg, ↓reduceIte, Bool.false_eq_true, Bool.and_false, Bool.and_true, Bool.false_and, Bool.true_and]) <;> (repeat' split) <;> simp_all [tot_ackWs_srw', tot_ackWs_lgw, tot_ackWs_clall, tot_ackWs_clpre, b2n_true, b2n_false, clearW_idle, clearW_exited, clearW_parked, clearW_eq_exited, clearW_eq_parked, srW, lgW, clAllW, clPreW, St.bg, onOk, onErr, selNext, afterSetErr, srAllW, nextC, roSets] <;> (try omega) <;> (try (cases hk : s.ehTok <;> cases hc0 : s.closed <;> simp_all [b2n_true, b2n_false] <;> omega)) <;> (try grind)
  | bgExitIdle _ b hb hc =>
    clear h4
    cases b <;> (try simp only [St.setDone, St.setBg, ↓reduceIte, Bool.false_eq_true, Bool.and_false, Bool.and_true, Bool.false_and, Bool.true_and]) <;> (repeat' split) <;> simp_all [tot_ackWs_srw', tot_ackWs_lgw, tot_ackWs_clall, tot_ackWs_clpre, b2n_true, b2n_false, clearW_idle, clearW_exited, clearW_parked, clearW_eq_exited, clearW_eq_parked, srW, lgW, clAllW, clPreW, St.bg, onOk, onErr, selNext, afterSetErr, srAllW, nextC, roSets] <;> (try omega) <;> (try (cases hk : s.ehTok <;> cases hc0 : s.closed <;> simp_all [b2n_true, b2n_false] <;> omega)) <;> (try grind)
  | bgExitParked _ hb hc =>
    clear h4
    (try simp only [St.setDone, St.setBg, ↓reduceIte, Bool.false_eq_true, Bool.and_false, Bool.and_true, Bool.false_and, Bool.true_and]) <;> (repeat' split) <;> simp_all [tot_ackWs_srw', tot_ackWs_lgw, tot_ackWs_clall, tot_ackWs_clpre, b2n_true, b2n_false, clearW_idle, clearW_exited, clearW_parked, clearW_eq_exited, clearW_eq_parked, srW, lgW, clAllW, clPreW, St.bg, onOk, onErr, selNext, afterSetErr, srAllW, nextC, roSets] <;> (try omega) <;> (try (cases hk : s.ehTok <;> cases hc0 : s.closed <;> simp_all [b2n_true, b2n_false] <;> omega)) <;> (try grind)
  | bgWorkCorrupt _ b w hb hk =>
    clear h4
    cases b <;> (try simp only [St.setDone, St.setBg, ↓reduceIte, Bool.false_eq_true, Bool.and_false, Bool.and_true, Bool.false_and, Bool.true_and]) <;> (repeat' split) <;> simp_all [tot_ackWs_srw', tot_ackWs_lgw, tot_ackWs_clall, tot_ackWs_clpre, b2n_true, b2n_false, clearW_idle, clearW_exited, clearW_parked, clearW_eq_exited, clearW_eq_parked, srW, lgW, clAllW, clPreW, St.bg, onOk, onErr, selNext, afterSetErr, srAllW, nextC, roSets] <;> (try omega) <;> (try (cases hk : s.ehTok <;> cases hc0 : s.closed <;> simp_all [b2n_true, b2n_false] <;> omega)) <;> (try grind)
  | bgCommitCorrupt _ b w hb hk =>
    clear h4
    cases b <;> (try simp only [St.setDone, St.setBg, ↓reduceIte, Bool.false_eq_true, Bool.and_false, Bool.and_true, Bool.false_and, Bool.true_and]) <;> (repeat' split) <;> simp_all [tot_ackWs_srw', tot_ackWs_lgw, tot_ackWs_clall, tot_ackWs_clpre, b2n_true, b2n_false, clearW_idle, clearW_exited, clearW_parked, clearW_eq_exited, clearW_eq_parked, srW, lgW, clAllW, clPreW, St.bg, onOk, onErr, selNext, afterSetErr, srAllW, nextC, roSets] <;> (try omega) <;> (try (cases hk : s.ehTok <;> cases hc0 : s.closed <;> simp_all [b2n_true, b2n_false] <;> omega)) <;> (try grind)
  | bgSetErrCorrupt _ b w c hb he =>
    clear h4
    simp only [hm, recvs_asCoded] at he
    rcases he with he | he <;> cases b <;> cases c <;> (try simp only [St.setDone, St.setBg, ↓reduceIte, Bool.false_eq_true, Bool.and_false, Bool.and_true, Bool.false_and, Bool.true_and]) <;> (repeat' split) <;> simp_all [tot_ackWs_srw', tot_ackWs_lgw, tot_ackWs_clall, tot_ackWs_clpre, b2n_true, b2n_false, clearW_idle, clearW_exited, clearW_parked, clearW_eq_exited, clearW_eq_parked, srW, lgW, clAllW, clPreW, St.bg, onOk, onErr, selNext, afterSetErr, srAllW, nextC, roSets] <;> (try omega) <;> (try (cases hk : s.ehTok <;> cases hc0 : s.closed <;> simp_all [b2n_true, b2n_false] <;> omega)) <;> (try grind)
  | bgWorkOk _ b w hb =>
    clear h4
    cases b <;> (try simp only [St.setDone, St.setBg, ↓reduceIte, Bool.false_eq_true, Bool.and_false, Bool.and_true, Bool.false_and, Bool.true_and]) <;> (repeat' split) <;> simp_all [tot_ackWs_srw', tot_ackWs_lgw, tot_ackWs_clall, tot_ackWs_clpre, b2n_true, b2n_false, clearW_idle, clearW_exited, clearW_parked, clearW_eq_exited, clearW_eq_parked, srW, lgW, clAllW, clPreW, St.bg, onOk, onErr, selNext, afterSetErr, srAllW, nextC, roSets] <;> (try omega) <;> (try (cases hk : s.ehTok <;> cases hc0 : s.closed <;> simp_all [b2n_true, b2n_false] <;> omega)) <;> (try grind)
  | bgWorkFail _ b w hb =>
    clear h4
    cases b <;> (try simp only [St.setDone, St.setBg, ↓reduceIte, Bool.false_eq_true, Bool.and_false, Bool.and_true, Bool.false_and, Bool.true_and]) <;> (repeat' split) <;> simp_all [tot_ackWs_srw', tot_ackWs_lgw, tot_ackWs_clall, tot_ackWs_clpre, b2n_true, b2n_false, clearW_idle, clearW_exited, clearW_parked, clearW_eq_exited, clearW_eq_parked, srW, lgW, clAllW, clPreW, St.bg, onOk, onErr, selNext, afterSetErr, srAllW, nextC, roSets] <;> (try omega) <;> (try (cases hk : s.ehTok <;> cases hc0 : s.closed <;> simp_all [b2n_true, b2n_false] <;> omega)) <;> (try grind)
  | bgCommitOk _ b w hb =>
    clear h4
    cases b <;> (try simp only [St.setDone, St.setBg, ↓reduceIte, Bool.false_eq_true, Bool.and_false, Bool.and_true, Bool.false_and, Bool.true_and]) <;> (repeat' split) <;> simp_all [tot_ackWs_srw', tot_ackWs_lgw, tot_ackWs_clall, tot_ackWs_clpre, b2n_true, b2n_false, clearW_idle, clearW_exited, clearW_parked, clearW_eq_exited, clearW_eq_parked, srW, lgW, clAllW, clPreW, St.bg, onOk, onErr, selNext, afterSetErr, srAllW, nextC, roSets] <;> (try omega) <;> (try (cases hk : s.ehTok <;> cases hc0 : s.closed <;> simp_all [b2n_true, b2n_false] <;> omega)) <;> (try grind)
  | bgCommitFail _ b w hb =>
    clear h4
    cases b <;> (try simp only [St.setDone, St.setBg, ↓reduceIte, Bool.false_eq_true, Bool.and_false, Bool.and_true, Bool.false_and, Bool.true_and]) <;> (repeat' split) <;> simp_all [tot_ackWs_srw', tot_ackWs_lgw, tot_ackWs_clall, tot_ackWs_clpre, b2n_true, b2n_false, clearW_idle, clearW_exited, clearW_parked, clearW_eq_exited, clearW_eq_parked, srW, lgW, clAllW, clPreW, St.bg, onOk, onErr, selNext, afterSetErr, srAllW, nextC, roSets] <;> (try omega) <;> (try (cases hk : s.ehTok <;> cases hc0 : s.closed <;> simp_all [b2n_true, b2n_false] <;> omega)) <;> (try grind)
  | bgSetErr _ b w ok c hb he =>
    clear h4
    simp only [hm, recvs_asCoded] at he
    rcases he with he | he <;> cases b <;> cases ok <;> cases c <;> (try simp only [St.setDone, St.setBg, ↓reduceIte, Bool.false_eq_true, Bool.and_false, Bool.and_true, Bool.false_and, Bool.true_and]) <;> (repeat' split) <;> simp_all [tot_ackWs_srw', tot_ackWs_lgw, tot_ackWs_clall, tot_ackWs_clpre, b2n_true, b2n_false, clearW_idle, clearW_exited, clearW_parked, clearW_eq_exited, clearW_eq_parked, srW, lgW, clAllW, clPreW, St.bg, onOk, onErr, selNext, afterSetErr, srAllW, nextC, roSets] <;> (try omega) <;> (try (cases hk : s.ehTok <;> cases hc0 : s.closed <;> simp_all [b2n_true, b2n_false] <;> omega)) <;> (try grind)
  | bgSetErrPer _ b w c hb he =>
    clear h4
    cases b <;> cases c <;> (try simp only [St.setDone, St.setBg, ↓reduceIte, Bool.false_eq_true, Bool.and_false, Bool.and_true, Bool.false_and, Bool.true_and]) <;> (repeat' split) <;> simp_all [tot_ackWs_srw', tot_ackWs_lgw, tot_ackWs_clall, tot_ackWs_clpre, b2n_true, b2n_false, clearW_idle, clearW_exited, clearW_parked, clearW_eq_exited, clearW_eq_parked, srW, lgW, clAllW, clPreW, St.bg, onOk, onErr, selNext, afterSetErr, srAllW, nextC, roSets] <;> (try omega) <;> (try (cases hk : s.ehTok <;> cases hc0 : s.closed <;> simp_all [b2n_true, b2n_false] <;> omega)) <;> (try grind)
  | bgBackoff _ b w c hb =>
    clear h4
    cases b <;> cases c <;> (try simp only [St.setDone, St.setBg, ↓reduceIte, Bool.false_eq_true, Bool.and_false, Bool.and_true, Bool.false_and, Bool.true_and]) <;> (repeat' split) <;> simp_all [tot_ackWs_srw', tot_ackWs_lgw, tot_ackWs_clall, tot_ackWs_clpre, b2n_true, b2n_false, clearW_idle, clearW_exited, clearW_parked, clearW_eq_exited, clearW_eq_parked, srW, lgW, clAllW, clPreW, St.bg, onOk, onErr, selNext, afterSetErr, srAllW, nextC, roSets] <;> (try omega) <;> (try (cases hk : s.ehTok <;> cases hc0 : s.closed <;> simp_all [b2n_true, b2n_false] <;> omega)) <;> (try grind)
  | bgLockClk _ b w hb hl =>
    clear h4
    cases b <;> (try simp only [St.setDone, St.setBg, ↓reduceIte, Bool.false_eq_true, Bool.and_false, Bool.and_true, Bool.false_and, Bool.true_and]) <;> (repeat' split) <;> simp_all [tot_ackWs_srw', tot_ackWs_lgw, tot_ackWs_clall, tot_ackWs_clpre, b2n_true, b2n_false, clearW_idle, clearW_exited, clearW_parked, clearW_eq_exited, clearW_eq_parked, srW, lgW, clAllW, clPreW, St.bg, onOk, onErr, selNext, afterSetErr, srAllW, nextC, roSets] <;> (try omega) <;> (try (cases hk : s.ehTok <;> cases hc0 : s.closed <;> simp_all [b2n_true, b2n_false] <;> omega)) <;> (try grind)
  | bgAck _ b w hb =>
    clear h4
    have hp := afterCmd_parked cfg s b
    rcases afterCmd_cases cfg s b with hac | hac <;> rw [hac] at hp ⊢ <;> cases b <;> (try simp only [St.setDone, St.setBg]) <;> simp_all [tot_ackWs_srw', tot_ackWs_lgw, tot_ackWs_clall, tot_ackWs_clpre, b2n_true, b2n_false, clearW_idle, clearW_exited, clearW_parked, clearW_eq_exited, clearW_eq_parked, srW, lgW, clAllW, clPreW, St.bg, onOk, onErr, selNext, afterSetErr, srAllW, nextC, roSets] <;> (try omega) <;> (try (cases hk : s.ehTok <;> cases hc0 : s.closed <;> simp_all [b2n_true, b2n_false] <;> omega)) <;> (try grind)
  | bgExit _ b w ph hb hx =>
    clear h4
    cases b <;> cases ph <;> (try simp only [St.setDone, St.setBg, ↓reduceIte, Bool.false_eq_true, Bool.and_false, Bool.and_true, Bool.false_and, Bool.true_and]) <;> (repeat' split) <;> simp_all [tot_ackWs_srw', tot_ackWs_lgw, tot_ackWs_clall, tot_ackWs_clpre, b2n_true, b2n_false, clearW_idle, clearW_exited, clearW_parked, clearW_eq_exited, clearW_eq_parked, srW, lgW, clAllW, clPreW, St.bg, onOk, onErr, selNext, afterSetErr, srAllW, nextC, roSets] <;> (try omega) <;> (try (rcases hx with hx | hx <;> simp_all))

end GoLevel.Locks
