import GoLevel.Proofs.TableTop
/-! C13, the reader repairs of wp64 on the shape level: a written table whose metaindex block region holds
arbitrary bytes that do not read as a block still opens (without filter) and answers like the undamaged table;
footer handles outside the file; handles reaching beyond the end of the file. -/
namespace GoLevel.C13
open GoLevel GoLevel.TableAux BlockWriter TableWriter TableR

/-- without a filter a filtered lookup is the unfiltered one -/
theorem find_no_filter (t : TableR) (hf : t.filter = none) (key : Bytes) (f : Bool) :
    t.find key f = t.find key false := by
  cases f with
  | false => rfl
  | true =>
    unfold TableR.find
    simp only [hf]

/-- the stored checksum of a written block is the checksum of payload ‖ type -/
theorem withTrailer_cksum_ok {cksum : Bytes → Nat} (hck : Cksum32 cksum) (P : Bytes) :
    rd32 ((withTrailer cksum P).drop (P.length + 1)) = cksum ((withTrailer cksum P).take (P.length + 1)) := by
  have hd1 : (withTrailer cksum P).drop (P.length + 1) = le32 (cksum (P ++ [blockTypeByte])) ++ [] := by
    simp only [withTrailer, List.append_nil]
    rw [List.drop_left' (by simp)]
  have ht1 : (withTrailer cksum P).take (P.length + 1) = P ++ [blockTypeByte] := by
    simp only [withTrailer]
    rw [List.take_left' (by simp)]
  rw [hd1, ht1, rd32_le32 _ (hck _)]

/-- `NewReader` on a written file whose metaindex block region holds bytes that do not read as a block -/
theorem open_damaged_meta (cfg : TableCfg) (hck : Cksum32 cfg.cksum) (cs : List (List KV)) (fb : Option Bytes)
    (M : Bytes) (hM : M.length = (metaB cfg cs fb).length + 5) (hsz : (tableFile cfg cs fb).length < 2 ^ 32) (v : Bool)
    (hbad : readBlock cfg.cksum (tableFileM cfg cs fb M) (metaBHOf cfg cs fb) true = none) :
    ∃ t, Table.open cfg v (tableFileM cfg cs fb M) = some t ∧ t.cmp = cfg.cmp ∧ t.cksum = cfg.cksum ∧
      t.verify = v ∧ t.file = tableFileM cfg cs fb M ∧
      t.index = layoutR (enc 1 (ixE cfg 0 cs [])) (restartsOf 1 (ixE cfg 0 cs [])) ∧
      t.dataEnd = (metaBHOf cfg cs fb).offset ∧ t.filter = none ∧
      t.metaBH = metaBHOf cfg cs fb ∧ t.indexBH = indexBHOf cfg cs fb := by
  obtain ⟨hfh, hinM, hinI, hri⟩ := open_facts cfg hck cs fb M hM hsz
  unfold Table.open Table.openE Table.openX
  rw [hfh]
  simp only [Table.openBody, hinM, hinI, ReaderFix.repaired, readBlockX, if_true, hbad, hri, Bool.and_self, Bool.not_true,
    Bool.and_false, Bool.false_eq_true, if_false]
  exact ⟨_, rfl, rfl, rfl, rfl, rfl, rfl, rfl, rfl, rfl, rfl⟩

/-- what such a reader answers -/
theorem damaged_meta_answers (cfg : TableCfg) (hc : LawfulCmp cfg.cmp) (hsep : SepOK cfg) (hsucc : SuccOK cfg)
    (hck : Cksum32 cfg.cksum) (cs : List (List KV)) (fb : Option Bytes)
    (M : Bytes) (hM : M.length = (metaB cfg cs fb).length + 5) (hsz : (tableFile cfg cs fb).length < 2 ^ 32) (v : Bool)
    (hbad : readBlock cfg.cksum (tableFileM cfg cs fb M) (metaBHOf cfg cs fb) true = none)
    (hshape : cs = [[]] ∨ ChunksOK cfg cs []) (hsm : SmallKV cs.flatten) :
    ∃ t, Table.open cfg v (tableFileM cfg cs fb M) = some t ∧ t.cmp = cfg.cmp ∧ t.filter = none ∧
      t.dataEnd = (metaBHOf cfg cs fb).offset ∧
      (∀ key f, t.find key f = resultOf (cs.flatten.find? fun e => cfg.cmp e.1 key != .lt)) ∧
      (∀ start limit, t.entriesInRange start limit = some (sliceBlock cfg.cmp start limit cs.flatten)) := by
  obtain ⟨t, ho, hcmp, hcks, _, hfile, hidx, hde, hflt, _, _⟩ := open_damaged_meta cfg hck cs fb M hM hsz v hbad
  have hpost : ∃ post, t.file = dataBytes cfg cs ++ post :=
    ⟨filterSection cfg fb ++ (M ++ (withTrailer cfg.cksum (ixB cfg cs) ++
        footer (metaBHOf cfg cs fb) (indexBHOf cfg cs fb))), by
      rw [hfile]; simp only [tableFileM, List.append_assoc]⟩
  have hfsz : t.file.length < 2 ^ 32 := by rw [hfile, tableFileM_length cfg cs fb M hM]; exact hsz
  have hixl : (ixB cfg cs).length < 2 ^ 32 := (sizes_of cfg cs fb hsz).iLen
  refine ⟨t, ho, hcmp, hflt, hde, ?_, ?_⟩
  · intro key f
    rw [find_no_filter t hflt]
    exact find_reader cfg hc hsep hsucc hck cs t hcmp hcks hpost hidx hfsz hixl hshape hsm key
  · intro start limit
    exact range_reader cfg hc hsep hsucc hck cs t hcmp hcks hpost hidx hfsz hixl hshape hsm start limit

/-- a file cut as `pre ++ M ++ post` at the metaindex handle is cut at the metaindex block -/
theorem split_at_meta (cfg : TableCfg) (cs : List (List KV)) (fb : Option Bytes) (pre M post : Bytes)
    (hsplit : tableFile cfg cs fb = pre ++ M ++ post) (hpre : pre.length = (metaBHOf cfg cs fb).offset)
    (hMl : M.length = (metaBHOf cfg cs fb).length + 5) (M' : Bytes) :
    pre ++ M' ++ post = tableFileM cfg cs fb M' := by
  have e : tableFile cfg cs fb = (dataBytes cfg cs ++ filterSection cfg fb) ++
      (withTrailer cfg.cksum (metaB cfg cs fb) ++
        (withTrailer cfg.cksum (ixB cfg cs) ++ footer (metaBHOf cfg cs fb) (indexBHOf cfg cs fb))) := by
    rw [tableFile_eq]; simp only [List.append_assoc]
  have hs2 : (dataBytes cfg cs ++ filterSection cfg fb) ++
      (withTrailer cfg.cksum (metaB cfg cs fb) ++
        (withTrailer cfg.cksum (ixB cfg cs) ++ footer (metaBHOf cfg cs fb) (indexBHOf cfg cs fb))) =
      pre ++ (M ++ post) := by rw [← e, hsplit, List.append_assoc]
  have h1 := List.append_inj hs2 (by rw [hpre]; rfl)
  have h2 := List.append_inj h1.2 (by rw [hMl, withTrailer_length]; rfl)
  rw [← h1.1, ← h2.2]
  simp only [tableFileM, List.append_assoc]

theorem set_mid (A Mw B : Bytes) (i : Nat) (b : UInt8) (hlo : A.length ≤ i) (hhi : i < A.length + Mw.length) :
    (A ++ Mw ++ B).set i b = A ++ Mw.set (i - A.length) b ++ B := by
  rw [List.append_assoc, List.set_append, if_neg (by omega), List.set_append, if_pos (by omega), List.append_assoc]

/-- one altered byte inside the metaindex block of a written file: the block no longer reads -/
theorem meta_byte_unreadable (cfg : TableCfg) (hck : Cksum32 cfg.cksum) (hd : DetectsSingle cfg.cksum)
    (cs : List (List KV)) (fb : Option Bytes) (hsz : (tableFile cfg cs fb).length < 2 ^ 32)
    (i : Nat) (b : UInt8) (hlo : (metaBHOf cfg cs fb).offset ≤ i)
    (hhi : i < (metaBHOf cfg cs fb).offset + (metaBHOf cfg cs fb).length + 5)
    (hne : (tableFile cfg cs fb)[i]? ≠ some b) :
    (tableFile cfg cs fb).set i b =
        tableFileM cfg cs fb ((withTrailer cfg.cksum (metaB cfg cs fb)).set (i - (metaBHOf cfg cs fb).offset) b) ∧
      readBlock cfg.cksum ((tableFile cfg cs fb).set i b) (metaBHOf cfg cs fb) true = none := by
  have S := sizes_of cfg cs fb hsz
  have hlen := tableFile_length cfg cs fb (BH.encode_length_le _ S.mOff S.mLen) (BH.encode_length_le _ S.iOff S.iLen)
  have hoff : (metaBHOf cfg cs fb).offset = (dataBytes cfg cs ++ filterSection cfg fb).length := rfl
  have hl : (metaBHOf cfg cs fb).length = (metaB cfg cs fb).length := rfl
  have hin : (metaBHOf cfg cs fb).offset + (metaBHOf cfg cs fb).length + Gen.blockTrailerLen ≤ (tableFile cfg cs fb).length := by
    have h5 : Gen.blockTrailerLen = 5 := rfl
    rw [hlen, hoff, hl, h5, List.length_append]; omega
  have hilt : i < (tableFile cfg cs fb).length := by
    have h5 : Gen.blockTrailerLen = 5 := rfl
    rw [h5] at hin; omega
  have hne' : b ≠ (tableFile cfg cs fb)[i]'hilt := by
    intro e
    apply hne
    rw [List.getElem?_eq_getElem hilt, e]
  have e3 : tableFile cfg cs fb = (dataBytes cfg cs ++ filterSection cfg fb) ++ withTrailer cfg.cksum (metaB cfg cs fb) ++
      (withTrailer cfg.cksum (ixB cfg cs) ++ footer (metaBHOf cfg cs fb) (indexBHOf cfg cs fb)) := by
    rw [tableFile_eq]; simp only [List.append_assoc]
  constructor
  · conv => lhs; rw [e3]
    rw [set_mid _ _ _ i b (by rw [← hoff]; exact hlo) (by rw [← hoff, withTrailer_length, ← hl]; omega), ← hoff]
    simp only [tableFileM, List.append_assoc]
  · have hraw : rawSlice (tableFile cfg cs fb) (metaBHOf cfg cs fb) = withTrailer cfg.cksum (metaB cfg cs fb) := by
      have h5 : Gen.blockTrailerLen = 5 := rfl
      unfold rawSlice
      rw [e3, hoff, List.append_assoc, List.drop_left, hl, h5]
      exact List.take_left' (withTrailer_length _ _)
    have hok : rd32 ((rawSlice (tableFile cfg cs fb) (metaBHOf cfg cs fb)).drop ((metaBHOf cfg cs fb).length + 1)) =
        cfg.cksum ((rawSlice (tableFile cfg cs fb) (metaBHOf cfg cs fb)).take ((metaBHOf cfg cs fb).length + 1)) := by
      rw [hraw, hl]; exact withTrailer_cksum_ok hck _
    have := readRawBlock_damage hd (tableFile cfg cs fb) (metaBHOf cfg cs fb) hin hok i b hlo
      (by have h5 : Gen.blockTrailerLen = 5 := rfl
          rw [h5]; exact hhi) hne'
    unfold readBlock
    rw [this]

/-- the written table, its footer handles, and what the reader answers once the metaindex block region holds bytes
`M` that do not read as a block -/
theorem damaged_meta_of_write (cfg : TableCfg) (hok : CfgOK cfg) (kvs : List KV) (hs : SmallKV kvs)
    (hsorted : StrictSorted cfg.cmp kvs) (hk : TailKeysNonempty kvs)
    (hsz : (Table.write cfg kvs).length < 2 ^ 32) (verify : Bool) :
    ∃ cs fb, Table.write cfg kvs = tableFile cfg cs fb ∧ (tableFile cfg cs fb).length < 2 ^ 32 ∧
      Table.footerHandles (Table.write cfg kvs) = some (metaBHOf cfg cs fb, indexBHOf cfg cs fb) ∧
      ∀ M, M.length = (metaB cfg cs fb).length + 5 →
        readBlock cfg.cksum (tableFileM cfg cs fb M) (metaBHOf cfg cs fb) true = none →
        ∃ t, Table.open cfg verify (tableFileM cfg cs fb M) = some t ∧ t.cmp = cfg.cmp ∧ t.filter = none ∧
          t.dataEnd = (metaBHOf cfg cs fb).offset ∧
          (∀ key f, t.find key f = resultOf (kvs.find? fun e => cfg.cmp e.1 key != .lt)) ∧
          (∀ start limit, t.entriesInRange start limit = some (kvs.filter (inRange cfg.cmp start limit))) := by
  obtain ⟨cs, hfile, hflat, hshape⟩ := write_shape cfg kvs
  rw [hfile] at hsz ⊢
  have hsh : cs = [[]] ∨ ChunksOK cfg cs [] := by
    rcases hshape with ⟨_, h⟩ | ⟨_, h⟩
    · exact Or.inl h
    · exact Or.inr (chunksOK_of hflat h hsorted hk)
  refine ⟨cs, _, rfl, hsz, ?_, ?_⟩
  · obtain ⟨hfh, _⟩ := open_facts cfg hok.ck cs _ (withTrailer cfg.cksum (metaB cfg cs _)) (withTrailer_length _ _) hsz
    rw [← tableFile_eqM] at hfh
    unfold Table.footerHandles
    rw [hfh]
  · intro M hM hbad
    obtain ⟨t, ho, hcmp, hflt, hde, hf, hr⟩ := damaged_meta_answers cfg hok.cmp hok.sep hok.succ hok.ck cs _ M hM hsz verify
      hbad hsh (hflat ▸ hs)
    refine ⟨t, ho, hcmp, hflt, hde, ?_, ?_⟩
    · intro key f; rw [hf, hflat]
    · intro start limit; rw [hr, hflat, sliceBlock_sorted hok.cmp start limit kvs hsorted]

/-- a reader that answers by the specification answers like the reader of the undamaged written table -/
theorem same_answers (cfg : TableCfg) (hok : CfgOK cfg) (kvs : List KV) (hs : SmallKV kvs)
    (hsorted : StrictSorted cfg.cmp kvs) (hk : TailKeysNonempty kvs)
    (hsz : (Table.write cfg kvs).length < 2 ^ 32) (verify : Bool) (t : TableR) (hcmp : t.cmp = cfg.cmp)
    (hf : ∀ key f, t.find key f = resultOf (kvs.find? fun e => cfg.cmp e.1 key != .lt))
    (hr : ∀ start limit, t.entriesInRange start limit = some (kvs.filter (inRange cfg.cmp start limit))) :
    ∃ t0, Table.open cfg verify (Table.write cfg kvs) = some t0 ∧
      (∀ key filtered, t.find key filtered = t0.find key false) ∧
      (∀ key, t.get key = t0.get key) ∧
      (∀ start limit, t.entriesInRange start limit = t0.entriesInRange start limit) ∧
      t.entries = t0.entries := by
  obtain ⟨t0, ho0, hcmp0, _⟩ := table_find_spec' cfg hok kvs hs hsorted hk hsz verify []
  have hf0 : ∀ key, t0.find key false = resultOf (kvs.find? fun e => cfg.cmp e.1 key != .lt) := by
    intro key
    obtain ⟨t1, ho1, _, h1⟩ := table_find_spec' cfg hok kvs hs hsorted hk hsz verify key
    have : t0 = t1 := Option.some.inj (ho0.symm.trans ho1)
    rw [this]; exact h1
  have hr0 : ∀ start limit, t0.entriesInRange start limit = some (kvs.filter (inRange cfg.cmp start limit)) := by
    intro start limit
    obtain ⟨t1, ho1, h1⟩ := range_of_write cfg hok kvs hs hsorted hk hsz verify start limit
    have : t0 = t1 := Option.some.inj (ho0.symm.trans ho1)
    rw [this]; exact h1
  refine ⟨t0, ho0, ?_, ?_, ?_, ?_⟩
  · intro key f; rw [hf, hf0]
  · intro key; unfold TableR.get; rw [hf key false, hf0 key, hcmp, hcmp0]
  · intro start limit; rw [hr, hr0]
  · rw [← entriesInRange_none, ← entriesInRange_none, hr, hr0]

end GoLevel.C13
