import GoLevel.Proofs.CacheLocksInv
/-! The lock-level cache system (C17), part 3: `LInv` is preserved by the steps that only move a thread through
`Close`'s locking (no base step). -/
namespace GoLevel.CacheL
open GoLevel.CacheM

set_option linter.unusedSimpArgs false

/-- A step that changes thread `t`'s phase and the writer fields only. -/
theorem linv_phase {ls : LSys} {t : Nat} {th : LThread} {T : List Instr} {p' : Phase} {mu' un' : RW}
    (h : LInv ls) (hth : ls.tl[t]? = some th) (hT : ls.base.threads[t]? = some T)
    (hmr : mu'.readers = ls.mu.readers) (hur : un'.readers = ls.un.readers)
    (c3 : p' ≠ .idle → th.held = [] ∧ (preBody p' = true → ∃ f, T = [Instr.closeLock f]))
    (c5a : p' ≠ .idle → mu'.writer = some t)
    (c5a' : ∀ t2, t2 ≠ t → ∀ th2, ls.tl[t2]? = some th2 → th2.phase ≠ .idle → mu'.writer = some t2)
    (c5b : ∀ t2, mu'.writer = some t2 → (t2 = t ∧ p' ≠ .idle) ∨ (t2 ≠ t ∧ ls.mu.writer = some t2))
    (c5c : unPhase p' = true → un'.writer = some t)
    (c5c' : ∀ t2, t2 ≠ t → ∀ th2, ls.tl[t2]? = some th2 → unPhase th2.phase = true → un'.writer = some t2)
    (c5d : ∀ t2, un'.writer = some t2 → (t2 = t ∧ unPhase p' = true) ∨ (t2 ≠ t ∧ ls.un.writer = some t2))
    (c5e : muHeld p' = true → ls.mu.readers = 0)
    (c5f : unHeld p' = true → ls.un.readers = 0) :
    LInv { ls with tl := ls.tl.set t { th with phase := p' }, mu := mu', un := un' } := by
  have hcm : ∀ l, cnt l (ls.tl.set t { th with phase := p' }) = cnt l ls.tl :=
    fun l => cnt_set_same hth rfl
  refine ⟨by simp [h.len], ?_, by simp only []; rw [hmr, hcm, h.k2m], by simp only []; rw [hur, hcm, h.k2u],
    ?_, ?_, ?_, ?_, ?_, ?_, ?_, ?_, by simp only []; rw [hmr, hur]; exact h.k7⟩
  · intro t2 th2 T2 h1 h2
    rcases set_cases h1 with ⟨rfl, rfl⟩ | ⟨_, h1'⟩
    · exact h.k1 _ th T2 hth h2
    · exact h.k1 _ th2 T2 h1' h2
  · intro t2 th2 T2 h1 h2 hp
    rcases set_cases h1 with ⟨rfl, rfl⟩ | ⟨_, h1'⟩
    · simp only [] at h2 hp ⊢
      rw [hT] at h2; cases h2
      exact c3 hp
    · exact h.k3 _ th2 T2 h1' h2 hp
  · intro t2 th2 h1 hp
    rcases set_cases h1 with ⟨rfl, rfl⟩ | ⟨hne, h1'⟩
    · exact c5a hp
    · exact c5a' t2 hne th2 h1' hp
  · intro t2 hw
    rcases c5b t2 hw with ⟨rfl, hp⟩ | ⟨hne, hw'⟩
    · exact ⟨_, get_set_self hth, hp⟩
    · obtain ⟨th2, h1, h2⟩ := h.k5b t2 hw'
      exact ⟨th2, (get_set_ne hne).trans h1, h2⟩
  · intro t2 th2 h1 hp
    rcases set_cases h1 with ⟨rfl, rfl⟩ | ⟨hne, h1'⟩
    · exact c5c hp
    · exact c5c' t2 hne th2 h1' hp
  · intro t2 hw
    rcases c5d t2 hw with ⟨rfl, hp⟩ | ⟨hne, hw'⟩
    · exact ⟨_, get_set_self hth, hp⟩
    · obtain ⟨th2, h1, h2⟩ := h.k5d t2 hw'
      exact ⟨th2, (get_set_ne hne).trans h1, h2⟩
  · intro t2 th2 h1 hp
    simp only [] at hp ⊢
    rw [hmr]
    rcases set_cases h1 with ⟨rfl, rfl⟩ | ⟨_, h1'⟩
    · exact c5e hp
    · exact h.k5e _ th2 h1' hp
  · intro t2 th2 h1 hp
    simp only [] at hp ⊢
    rw [hur]
    rcases set_cases h1 with ⟨rfl, rfl⟩ | ⟨_, h1'⟩
    · exact c5f hp
    · exact h.k5f _ th2 h1' hp
  · intro t2 th2 T2 h1 h2 hu
    rcases set_cases h1 with ⟨rfl, rfl⟩ | ⟨_, h1'⟩
    · exact h.k6 _ th T2 hth h2 hu
    · exact h.k6 _ th2 T2 h1' h2 hu

/-- A base step of thread `t` (phase `idle` or not) that may change the read locks the thread holds. -/
theorem linv_thread {ls : LSys} {t : Nat} {th : LThread} {T T' : List Instr} {b' : Sys} {held' : List LockId}
    {mu' un' : RW} (h : LInv ls) (hth : ls.tl[t]? = some th) (hT : ls.base.threads[t]? = some T)
    (hthr : b'.threads = ls.base.threads.set t T')
    (hmw : mu'.writer = ls.mu.writer) (huw : un'.writer = ls.un.writer)
    (hm : mu'.readers + th.held.count .mu = ls.mu.readers + held'.count .mu)
    (hu : un'.readers + th.held.count .un = ls.un.readers + held'.count .un)
    (hml : mu'.readers ≤ ls.mu.readers ∨ ls.mu.writer = none)
    (hul : un'.readers ≤ ls.un.readers ∨ ls.un.writer = none)
    (hk1 : held'.length = T'.count .runlock)
    (hk3 : th.phase ≠ .idle → held' = [] ∧ (preBody th.phase = true → ∃ f, T' = [Instr.closeLock f]))
    (hk6 : LockId.un ∈ held' → (∃ hs, held' = LockId.un :: hs ∧ LockId.un ∉ hs) ∧ unShape T')
    (hk7 : b'.sh.rlock = mu'.readers + un'.readers) :
    LInv { ls with base := b', tl := ls.tl.set t { th with held := held' }, mu := mu', un := un' } := by
  have hcm := cnt_set (l := .mu) (th' := { th with held := held' }) hth
  have hcu := cnt_set (l := .un) (th' := { th with held := held' }) hth
  have h2m := h.k2m
  have h2u := h.k2u
  have hother : ∀ {t2 : Nat} {T2 : List Instr}, t2 ≠ t → b'.threads[t2]? = some T2 →
      ls.base.threads[t2]? = some T2 := by
    intro t2 T2 hne h2; rw [hthr, get_set_ne hne] at h2; exact h2
  have hself : ∀ {T2 : List Instr}, b'.threads[t]? = some T2 → T2 = T' := by
    intro T2 h2; rw [hthr, get_set_self hT] at h2; exact (Option.some.inj h2).symm
  refine ⟨by simp [h.len, hthr], ?_, by simp only [] at hcm ⊢; omega, by simp only [] at hcu ⊢; omega,
    ?_, ?_, ?_, ?_, ?_, ?_, ?_, ?_, hk7⟩
  · intro t2 th2 T2 h1 h2
    rcases set_cases h1 with ⟨rfl, rfl⟩ | ⟨hne, h1'⟩
    · rw [hself h2]; exact hk1
    · exact h.k1 _ th2 T2 h1' (hother hne h2)
  · intro t2 th2 T2 h1 h2 hp
    rcases set_cases h1 with ⟨rfl, rfl⟩ | ⟨hne, h1'⟩
    · rw [hself h2]; exact hk3 hp
    · exact h.k3 _ th2 T2 h1' (hother hne h2) hp
  · intro t2 th2 h1 hp
    simp only []; rw [hmw]
    rcases set_cases h1 with ⟨rfl, rfl⟩ | ⟨_, h1'⟩
    · exact h.k5a _ th hth hp
    · exact h.k5a _ th2 h1' hp
  · intro t2 hw
    simp only [] at hw; rw [hmw] at hw
    obtain ⟨th2, h1, h2⟩ := h.k5b t2 hw
    by_cases hne : t2 = t
    · subst hne; rw [hth] at h1; cases h1
      exact ⟨_, get_set_self hth, h2⟩
    · exact ⟨th2, (get_set_ne hne).trans h1, h2⟩
  · intro t2 th2 h1 hp
    simp only []; rw [huw]
    rcases set_cases h1 with ⟨rfl, rfl⟩ | ⟨_, h1'⟩
    · exact h.k5c _ th hth hp
    · exact h.k5c _ th2 h1' hp
  · intro t2 hw
    simp only [] at hw; rw [huw] at hw
    obtain ⟨th2, h1, h2⟩ := h.k5d t2 hw
    by_cases hne : t2 = t
    · subst hne; rw [hth] at h1; cases h1
      exact ⟨_, get_set_self hth, h2⟩
    · exact ⟨th2, (get_set_ne hne).trans h1, h2⟩
  · intro t2 th2 h1 hp
    simp only []
    have hold : ls.mu.readers = 0 ∧ ls.mu.writer ≠ none := by
      rcases set_cases h1 with ⟨rfl, rfl⟩ | ⟨_, h1'⟩
      · have hne : th.phase ≠ .idle := by intro h0; simp only [] at hp; rw [h0] at hp; cases hp
        exact ⟨h.k5e _ th hth hp, by rw [h.k5a _ th hth hne]; simp⟩
      · have hne : th2.phase ≠ .idle := by intro h0; rw [h0] at hp; cases hp
        exact ⟨h.k5e _ th2 h1' hp, by rw [h.k5a _ th2 h1' hne]; simp⟩
    rcases hml with h1 | h1
    · omega
    · exact absurd h1 hold.2
  · intro t2 th2 h1 hp
    simp only []
    have hold : ls.un.readers = 0 ∧ ls.un.writer ≠ none := by
      rcases set_cases h1 with ⟨rfl, rfl⟩ | ⟨_, h1'⟩
      · have hup : unPhase th.phase = true := by
          simp only [] at hp; cases hph : th.phase <;> simp_all [unHeld, unPhase]
        exact ⟨h.k5f _ th hth hp, by rw [h.k5c _ th hth hup]; simp⟩
      · have hup : unPhase th2.phase = true := by
          cases hph : th2.phase <;> simp_all [unHeld, unPhase]
        exact ⟨h.k5f _ th2 h1' hp, by rw [h.k5c _ th2 h1' hup]; simp⟩
    rcases hul with h1 | h1
    · omega
    · exact absurd h1 hold.2
  · intro t2 th2 T2 h1 h2 hu2
    rcases set_cases h1 with ⟨rfl, rfl⟩ | ⟨hne, h1'⟩
    · rw [hself h2]; exact hk6 hu2
    · exact h.k6 _ th2 T2 h1' (hother hne h2) hu2

end GoLevel.CacheL
