import GoLevel.Proofs.DurableStepRot
/-!
Frame lemmas for the phase facts (`RunOK`, `RecOK`) under the steps of a job.
-/
namespace GoLevel.Dur

/-- the fields of the state a job step may change -/
def St.upd (s : St) (j' : Job) (nf' : Nat) (l' : List Nat) (a' b' : Nat) (m' : Option Nat) (o' : Bool) : St :=
  { s with job := some j', nextFile := nf', live := l', stJn := a', stSq := b', manifestFd := m', manifestOpen := o' }

/-- `RunOK` under a job step that leaves the journals alone -/
theorem RunOK.job_step {cfg : Cfg} {s : St} {d d' : Disk} (h : RunOK cfg s d)
    (j' : Job) (nf' : Nat) (l' : List Nat) (a' b' : Nat) (m' : Option Nat) (o' : Bool)
    (hnf : s.nextFile ≤ nf') (hj : d'.journals = d.journals)
    (hmfd : MfdOK (s.upd j' nf' l' a' b' m' o') d' ∧ o' = true)
    (hcur : Holds d'.current (· < nf'))
    (hnc : s.frozen ≠ none → FlushPending (s.upd j' nf' l' a' b' m' o') → FlushPending s ∧ a' = s.stJn ∧ b' = s.stSq)
    (hrel : Holds (curManifest d') fun mf' => Holds (viewAt cfg mf' 0) fun v0' =>
      Holds (curManifest d) fun mf => Holds (viewAt cfg mf 0) fun v0 => v0.jn ≤ v0'.jn)
    (hlimbo : LimboOK (s.upd j' nf' l' a' b' m' o') d') :
    RunOK cfg (s.upd j' nf' l' a' b' m' o') d' := by
  obtain ⟨r1, r2, r3, r4, r5, r6, r7, r8, r9, _⟩ := h
  refine ⟨r1, hmfd, by rw [hj]; exact r3, by rw [hj]; exact ⟨Nat.lt_of_lt_of_le r4.1 hnf, r4.2⟩,
    ⟨by rw [hj]; exact nums_le r5.1 hnf, hcur⟩, r6, ?_, ?_, (fun hc => by cases hc), hlimbo⟩
  · rcases frozenOK_iff.1 r7 with ⟨h1, h2⟩ | ⟨fz, jf, h1, h2, f1, f2, f3, f4, f5, f6⟩
    · exact frozenOK_iff.2 (Or.inl ⟨h1, h2⟩)
    · refine frozenOK_iff.2 (Or.inr ⟨fz, jf, h1, h2, f1, f2, f3, by rw [hj]; exact f4, by rw [hj]; exact f5, ?_⟩)
      intro hn
      obtain ⟨hn', ea, eb⟩ := hnc (by rw [h1]; exact fun hx => nomatch hx) hn
      obtain ⟨hp, hv⟩ := f6 hn'
      rw [hj]
      refine ⟨hp, ?_⟩
      show a' ≤ jf ∧ b' ≤ s.frozenSeq
      rw [ea, eb]
      exact hv
  · refine hrel.imp (fun mf' hmf' => hmf'.imp (fun v0' hv0' p hp hjn => ?_))
    rw [holds_iff] at hv0'
    obtain ⟨mf, hmf, hv0'⟩ := hv0'
    rw [holds_iff] at hv0'
    obtain ⟨v0, hv0, hle⟩ := hv0'
    rw [hj] at hp
    have q1 := holds_some r8 hmf
    have q2 := holds_some q1 hv0
    exact q2 p hp (Nat.le_trans hle hjn)

/-- … and sets the ghost edit (it is cleared when `SetMeta` has made the new manifest current) -/
theorem RunOK.job_step_lb {cfg : Cfg} {s : St} {d d' : Disk} (h : RunOK cfg s d)
    (j' : Job) (nf' : Nat) (l' : List Nat) (a' b' : Nat) (m' : Option Nat) (o' : Bool) (lb : Option MRec)
    (hnf : s.nextFile ≤ nf') (hj : d'.journals = d.journals)
    (hmfd : MfdOK ({ s.upd j' nf' l' a' b' m' o' with limbo := lb }) d' ∧ o' = true)
    (hcur : Holds d'.current (· < nf'))
    (hnc : s.frozen ≠ none → FlushPending ({ s.upd j' nf' l' a' b' m' o' with limbo := lb }) → FlushPending s ∧ a' = s.stJn ∧ b' = s.stSq)
    (hrel : Holds (curManifest d') fun mf' => Holds (viewAt cfg mf' 0) fun v0' =>
      Holds (curManifest d) fun mf => Holds (viewAt cfg mf 0) fun v0 => v0.jn ≤ v0'.jn)
    (hlimbo : LimboOK ({ s.upd j' nf' l' a' b' m' o' with limbo := lb }) d') :
    RunOK cfg ({ s.upd j' nf' l' a' b' m' o' with limbo := lb }) d' := by
  obtain ⟨r1, r2, r3, r4, r5, r6, r7, r8, r9, _⟩ := h
  refine ⟨r1, hmfd, by rw [hj]; exact r3, by rw [hj]; exact ⟨Nat.lt_of_lt_of_le r4.1 hnf, r4.2⟩,
    ⟨by rw [hj]; exact nums_le r5.1 hnf, hcur⟩, r6, ?_, ?_, (fun hc => by cases hc), hlimbo⟩
  · rcases frozenOK_iff.1 r7 with ⟨h1, h2⟩ | ⟨fz, jf, h1, h2, f1, f2, f3, f4, f5, f6⟩
    · exact frozenOK_iff.2 (Or.inl ⟨h1, h2⟩)
    · refine frozenOK_iff.2 (Or.inr ⟨fz, jf, h1, h2, f1, f2, f3, by rw [hj]; exact f4, by rw [hj]; exact f5, ?_⟩)
      intro hn
      obtain ⟨hn', ea, eb⟩ := hnc (by rw [h1]; exact fun hx => nomatch hx) hn
      obtain ⟨hp, hv⟩ := f6 hn'
      rw [hj]
      refine ⟨hp, ?_⟩
      show a' ≤ jf ∧ b' ≤ s.frozenSeq
      rw [ea, eb]
      exact hv
  · refine hrel.imp (fun mf' hmf' => hmf'.imp (fun v0' hv0' p hp hjn => ?_))
    rw [holds_iff] at hv0'
    obtain ⟨mf, hmf, hv0'⟩ := hv0'
    rw [holds_iff] at hv0'
    obtain ⟨v0, hv0, hle⟩ := hv0'
    rw [hj] at hp
    have q1 := holds_some r8 hmf
    have q2 := holds_some q1 hv0
    exact q2 p hp (Nat.le_trans hle hjn)

/-- `RecOK` under a job step that leaves the journals alone -/
theorem RecOK.job_step {cfg : Cfg} {s : St} {d d' : Disk} {r : Recov} (h : RecOK cfg s d r)
    (j' : Job) (nf' : Nat) (l' : List Nat) (a' b' : Nat) (m' : Option Nat) (o' : Bool)
    (hnf : s.nextFile ≤ nf') (hj : d'.journals = d.journals)
    (hmfd : MfdOK (s.upd j' nf' l' a' b' m' o') d')
    (hcur : Holds d'.current (· < nf'))
    (hnc : j'.pc.beforeCommit = true → NoCommitYet s ∧ curManifest d' = curManifest d ∧
      l' = s.live ∧ a' = s.stJn ∧ b' = s.stSq ∧ o' = s.manifestOpen)
    (hrel : Holds (lastView cfg d') fun v' => Holds (lastView cfg d) fun v => v.jn ≤ v'.jn)
    (htg : Holds (lastView cfg d') fun v' => ∀ n ∈ r.todo, v'.jn ≤ n) :
    RecOK cfg (s.upd j' nf' l' a' b' m' o') d' r := by
  obtain ⟨r1, r2, r3, r4, r5, r6, r7, r8, r9, r10⟩ := h
  refine ⟨hmfd, r2, r3, r4, ⟨by rw [hj]; exact fun p hp => Nat.lt_of_lt_of_le (r5.1 p hp) hnf, hcur,
      fun n hn => Nat.lt_of_lt_of_le (r5.2.2 n hn) hnf⟩,
    by rw [hj]; exact r6, ?_, ?_, ?_, fun o ho => Nat.lt_of_lt_of_le (r10 o ho) hnf⟩
  · unfold MdbOK at r7 ⊢
    split
    · rename_i o ho
      rw [ho] at r7
      simp only at r7
      refine ⟨by rw [hj]; exact r7.1, r7.2.1, fun hn => ?_⟩
      rw [hj]
      have hbc : j'.pc.beforeCommit = true := hn
      obtain ⟨hn', _, _, _, hb, _⟩ := hnc hbc
      have := r7.2.2 hn'
      exact ⟨this.1, by rw [hb]; exact this.2⟩
    · rename_i ho; rw [ho] at r7; exact r7
  · intro hn
    have hbc : j'.pc.beforeCommit = true := hn
    obtain ⟨hn', hcm, rfl, rfl, rfl, rfl⟩ := hnc hbc
    have := r8 hn'
    unfold Settled lastView at this ⊢
    rw [hcm]
    exact this
  · rw [holds_iff] at hrel htg ⊢
    obtain ⟨v', hv', hrel⟩ := hrel
    obtain ⟨v'', hv'', htg⟩ := htg
    rw [hv'] at hv''; cases hv''
    refine ⟨v', hv', fun p hp hjn => ?_, htg⟩
    rw [holds_iff] at hrel
    obtain ⟨v, hv, hle⟩ := hrel
    rw [hj] at hp
    exact (holds_some r9 hv).1 p hp (Nat.le_trans hle hjn)

/-- a step of the job that keeps its kind and does not go back behind the commit keeps `FlushPending` backwards -/
theorem flushPending_of_step {s : St} {j j' : Job} {nf' : Nat} {l' : List Nat} {a' b' : Nat} {m' : Option Nat}
    {o' : Bool} (hj : s.job = some j) (hk : j'.kind = j.kind)
    (hpc : j.kind = .flush → j.pc.uninstalled = false → j'.pc.uninstalled = false)
    (h : FlushPending (s.upd j' nf' l' a' b' m' o')) : FlushPending s := by
  unfold FlushPending at h ⊢
  rw [hj]
  intro hf
  have h' : j'.kind = .flush → j'.pc.uninstalled = true := h
  have := h' (by rw [hk]; exact hf)
  cases hb : j.pc.uninstalled with
  | true => rfl
  | false => rw [hpc hf hb] at this; cases this

/-- both phase facts at once, for steps that change neither journals nor the manifest `CURRENT` names -/
theorem phase_frame {cfg : Cfg} {s : St} {d d' : Disk} (h : Inv cfg s d) (j' : Job) (nf' : Nat)
    (hnf : s.nextFile ≤ nf') (hj : d'.journals = d.journals) (hc : d'.current = d.current)
    (hcm : curManifest d' = curManifest d)
    (hpc : ∀ m, j'.pc ≠ .rotRemove m) (hjob : ∃ j, s.job = some j ∧ ∀ m, j.pc ≠ .rotRemove m)
    (hbc : j'.pc.beforeCommit = true → NoCommitYet s)
    (hkind : ∀ j, s.job = some j → j'.kind = j.kind ∧ (j.kind = .flush → j.pc.uninstalled = false → j'.pc.uninstalled = false))
    (hlimbo : s.phase = .running → LimboOK { s with job := some j', nextFile := nf' } d') :
    (s.phase = .running → RunOK cfg { s with job := some j', nextFile := nf' } d') ∧
    (s.phase = .recovering → Holds s.recov (RecOK cfg { s with job := some j', nextFile := nf' } d')) := by
  obtain ⟨j, hsj, hjpc⟩ := hjob
  have hmfd0 : MfdOK s d → MfdOK { s with job := some j', nextFile := nf' } d' := fun hm =>
    hm.transport (by rw [hsj]; intro m hm'; exact hjpc m (Option.some.inj hm'))
      (by intro m hm'; exact hpc m (Option.some.inj hm')) rfl hc rfl
  have hlv : lastView cfg d' = lastView cfg d := by unfold lastView; rw [hcm]
  obtain ⟨mf, vl, hcur, hlast, hvl⟩ := h.lastView_some
  obtain ⟨mf0, v0, hparts⟩ := h.disk.parts
  constructor
  · intro hph
    have hrun := h.run hph
    exact hrun.job_step j' nf' s.live s.stJn s.stSq s.manifestFd s.manifestOpen hnf hj
      ⟨hmfd0 hrun.mfd.1, hrun.mfd.2⟩ (by rw [hc]; exact hrun.nums.2.imp (fun m hm => Nat.lt_of_lt_of_le hm hnf))
      (fun _ hfp => ⟨flushPending_of_step hsj (hkind j hsj).1 (hkind j hsj).2 hfp, rfl, rfl⟩)
      (by
        rw [hcm]
        exact holds_of_some hparts.cur (holds_of_some hparts.hv0 (holds_of_some hparts.cur
          (holds_of_some hparts.hv0 (Nat.le_refl _)))))
      (hlimbo hph)
  · intro hph
    have hrec := h.recov hph
    refine hrec.imp (fun r hr => ?_)
    exact hr.job_step j' nf' s.live s.stJn s.stSq s.manifestFd s.manifestOpen hnf hj (hmfd0 hr.mfd)
      (by rw [hc]; exact hr.nums.2.1.imp (fun m hm => Nat.lt_of_lt_of_le hm hnf))
      (fun hb => ⟨hbc hb, hcm, rfl, rfl, rfl, rfl⟩)
      (by rw [hlv]; exact holds_of_some hlast (holds_of_some hlast (Nat.le_refl _)))
      (by rw [hlv]; exact hr.rel.imp (fun v hv => hv.2))

end GoLevel.Dur
