import GoLevel.Proofs.TableF
import GoLevel.Proofs.TableWF
import GoLevel.Proofs.FilterR
/-! C13(f), table level: a filtered lookup of a stored key is never answered "absent". -/
namespace GoLevel.C13
open GoLevel GoLevel.TableAux BlockWriter TableWriter

/-- if the filter passes the key for the block the index seek lands on, `filtered` makes no difference -/
theorem find_true_eq (t : TableR) (key : Bytes)
    (h : ∀ ic bh n, t.index.seekCursor t.cmp key = some (some ic) → BH.decode ic.value = some (bh, n) →
      ∀ pol fb, t.filter = some (pol, fb) → fb.contains pol bh.offset key = true) :
    t.find key true = t.find key false := by
  unfold TableR.find
  cases hs : t.index.seekCursor t.cmp key with
  | none => rfl
  | some r =>
    cases r with
    | none => rfl
    | some ic =>
      simp only
      cases hd : BH.decode ic.value with
      | none => rfl
      | some p =>
        obtain ⟨bh, n⟩ := p
        simp only
        cases hfl : t.filter with
        | none => rfl
        | some pf =>
          obtain ⟨pol, fb⟩ := pf
          have := h ic bh n hs hd pol fb hfl
          simp [this]

/-- where the start offset of a chunk shows up in the history of the filter writer -/
theorem histOf_fblocks_mem (cfg : TableCfg) (c : List KV) (rest : List (List KV)) : ∀ (csL : List (List KV)) (s : Nat),
    (s + (dataBytes cfg csL).length, keysOf c) ∈ histOf s (fblocks cfg s (csL ++ c :: rest)) := by
  intro csL
  induction csL with
  | nil => intro s; simp [fblocks, histOf, dataBytes]
  | cons a t ih =>
    intro s
    simp only [List.cons_append, fblocks, histOf, dataBytes_cons, List.length_append, List.mem_cons]
    right
    have := ih (s + (blockBytes cfg a).length)
    rw [Nat.add_assoc] at this
    exact this

theorem monoEnds_fblocks (cfg : TableCfg) : ∀ (cs : List (List KV)) (s : Nat), MonoEnds s (fblocks cfg s cs) := by
  intro cs
  induction cs with
  | nil => intro s; trivial
  | cons c rest ih => intro s; exact ⟨by omega, ih _⟩

/-- where the index seek lands on a written table -/
theorem index_seek_written (cfg : TableCfg) (hc : LawfulCmp cfg.cmp) (cs : List (List KV))
    (fb : Option Bytes) (t : TableR) (hcmp : t.cmp = cfg.cmp)
    (hidx : t.index = layoutR (enc 1 (ixE cfg 0 cs [])) (restartsOf 1 (ixE cfg 0 cs [])))
    (hsz : (tableFile cfg cs fb).length < 2 ^ 32)
    (hixs : StrictSorted cfg.cmp (ixE cfg 0 cs [])) (key : Bytes) :
    ∃ csL csR, cs = csL ++ csR ∧
      (∀ e ∈ ixE cfg 0 csL (csR.flatten ++ []), (cfg.cmp e.1 key == .lt) = true) ∧
      (∀ e, (ixE cfg (0 + (dataBytes cfg csL).length) csR []).head? = some e → (cfg.cmp e.1 key == .lt) = false) ∧
      ∀ ic, t.index.seekCursor t.cmp key = some (some ic) →
        ∃ c rest, csR = c :: rest ∧
          ic.value = BH.encode ⟨(dataBytes cfg csL).length, (Block.build cfg.restartInterval c).length⟩ := by
  obtain ⟨csL, csR, hsplit, hall, hdw, hhd⟩ := ixE_split cfg (fun e => cfg.cmp e.1 key == .lt) [] cs 0
  refine ⟨csL, csR, hsplit, hall, hhd, ?_⟩
  have S := sizes_of cfg cs fb hsz
  have hsix := smallKV_ix cfg cs fb hsz
  have hseek := seekCursor_build hc 1 (ixE cfg 0 cs []) hsix hixs S.iLen key
  intro ic hic
  rw [hidx, hcmp, hseek, hdw] at hic
  cases csR with
  | nil => simp [ixE, cursorAt] at hic
  | cons c rest =>
    refine ⟨c, rest, rfl, ?_⟩
    simp only [ixE, cursorAt, Nat.zero_add, Option.some.injEq] at hic
    rw [← hic]

theorem find?_ge_of_mem {cmp : Bytes → Bytes → Ordering} (hc : LawfulCmp cmp) (kvs : List KV)
    (hsorted : StrictSorted cmp kvs) (kv : KV) (hm : kv ∈ kvs) :
    kvs.find? (fun e => cmp e.1 kv.1 != .lt) = some kv := by
  obtain ⟨A, B, rfl⟩ := List.append_of_mem hm
  have hA : ∀ a ∈ A, cmp a.1 kv.1 = .lt := fun a ha =>
    (List.pairwise_append.mp hsorted).2.2 a ha kv (List.mem_cons_self ..)
  rw [List.find?_append, find?_none_of_all_lt kv.1 A hA]
  simp [hc.refl]

/-- the filter block a table with policy `pol` carries for the chunks `cs` -/
def filterOf (cfg : TableCfg) (pol : FilterPolicy) (cs : List (List KV)) : Bytes :=
  (feedAll pol cfg.filterBaseLg {} (fblocks cfg 0 cs)).finish pol cfg.filterBaseLg

/-- C13(f) on the shape level: a filtered `find` of a stored key returns that pair -/
theorem find_filtered_stored (cfg : TableCfg) (pol : FilterPolicy) (hf : cfg.filter = some pol)
    (hc : LawfulCmp cfg.cmp) (hsep : SepOK cfg) (hsucc : SuccOK cfg) (hck : Cksum32 cfg.cksum)
    (hlaw : LawfulFilter pol) (hgen : GenNonempty pol) (hlg : cfg.filterBaseLg < 256)
    (cs : List (List KV)) (hok : ChunksOK cfg cs []) (hsm : SmallKV cs.flatten)
    (hsz : (tableFile cfg cs (some (filterOf cfg pol cs))).length < 2 ^ 32) (v : Bool)
    (kv : KV) (hm : kv ∈ cs.flatten) :
    ∃ t, Table.open cfg v (tableFile cfg cs (some (filterOf cfg pol cs))) = some t ∧ t.find kv.1 true = .ok kv := by
  obtain ⟨segs, hb, hfwd, _⟩ := filter_partition_writer pol cfg.filterBaseLg (fblocks cfg 0 cs) (monoEnds_fblocks cfg cs 0)
  have hbe : filterOf cfg pol cs = filterBlockBytes pol cfg.filterBaseLg segs := hb
  have hfb : (some (filterOf cfg pol cs)).isSome = cfg.filter.isSome := by simp [hf]
  have hname := name_small cfg cs _ hfb hsz
  obtain ⟨t, ho, hcmp, hcks, _, hfile, hidx, _, hfilt⟩ := open_shape cfg hck cs _ hfb hsz hname v
  refine ⟨t, ho, ?_⟩
  have hsorted : StrictSorted cfg.cmp cs.flatten := by simpa using hok.sorted
  have hixs := ixE_sorted hc hsep hsucc [] cs 0 hok
  -- the unfiltered answer
  obtain ⟨hpost, hfsz, hixl⟩ := written_file_facts cfg cs _ t hfile hsz
  obtain ⟨csL0, csR0, hsplit0, hall0, hhd0, hfind0⟩ := find_core cfg hc hck cs t hcmp hcks hpost hidx hfsz hixl hixs
    (fun c hm => ⟨sorted_chunk cs hsorted c hm, small_chunk cs hsm c hm⟩) kv.1
  have hunf : t.find kv.1 false = .ok kv := by
    rw [hfind0, findTail_spec hc hsep hsucc kv.1 csL0 csR0 (hsplit0 ▸ hok) hall0 hhd0, ← hsplit0,
      find?_ge_of_mem hc cs.flatten hsorted kv hm]
    rfl
  rw [← hunf]
  -- the filter block
  have hflatsz : (flat pol segs).length < 2 ^ 32 := by
    have h1 : (filterBlockBytes pol cfg.filterBaseLg segs).length ≤
        (tableFile cfg cs (some (filterOf cfg pol cs))).length := by
      rw [tableFile_eq, ← hbe]
      simp only [filterSection, List.length_append, withTrailer_length]; omega
    have h2 : (flat pol segs).length ≤ (filterBlockBytes pol cfg.filterBaseLg segs).length := by
      simp only [filterBlockBytes, List.length_append]; omega
    omega
  have hrf : readFilterBlock cfg.cksum (tableFile cfg cs (some (filterOf cfg pol cs)))
      ⟨(dataBytes cfg cs).length, (filterOf cfg pol cs).length⟩ =
      some ⟨filterBlockBytes pol cfg.filterBaseLg segs, (flat pol segs).length, cfg.filterBaseLg, segs.length⟩ := by
    have e : tableFile cfg cs (some (filterOf cfg pol cs)) = dataBytes cfg cs ++
        (withTrailer cfg.cksum (filterBlockBytes pol cfg.filterBaseLg segs) ++
          (withTrailer cfg.cksum (metaB cfg cs (some (filterOf cfg pol cs))) ++
            (withTrailer cfg.cksum (ixB cfg cs) ++
              footer (metaBHOf cfg cs (some (filterOf cfg pol cs))) (indexBHOf cfg cs (some (filterOf cfg pol cs)))))) := by
      rw [tableFile_eq]; simp only [filterSection, List.append_assoc, hbe]
    rw [e, hbe]
    exact readFilterBlock_at hck _ _ pol _ segs hlg hflatsz
  simp only [hf, hrf, Option.map_some] at hfilt
  apply find_true_eq
  intro ic bh n hic hdec pol' fbr hfl
  rw [hfilt] at hfl
  simp only [Option.some.injEq, Prod.mk.injEq] at hfl
  obtain ⟨hp, hfbr⟩ := hfl
  subst hp; subst hfbr
  obtain ⟨csL, csR, hsplit, hall, hhd, hland⟩ := index_seek_written cfg hc cs _ t hcmp hidx hsz hixs kv.1
  obtain ⟨c, rest, hcsR, hval⟩ := hland ic hic
  subst hcsR
  have hdl := dataBytes_le_file cfg cs (some (filterOf cfg pol cs))
  have hbl : (dataBytes cfg csL).length + (blockBytes cfg c).length ≤ (dataBytes cfg cs).length := by
    rw [hsplit, dataBytes_append, dataBytes_cons]; simp only [List.length_append]; omega
  have hbb : (blockBytes cfg c).length = (Block.build cfg.restartInterval c).length + 5 := by
    simp [blockBytes, withTrailer_length]
  rw [hval, BH.decode_encode' _ (by simp only; omega) (by simp only; omega)] at hdec
  simp only [Option.some.injEq, Prod.mk.injEq] at hdec
  obtain ⟨hbh, _⟩ := hdec
  subst hbh
  simp only
  -- the key is in the chunk the seek landed on
  have hokS : ChunksOK cfg (csL ++ c :: rest) [] := hsplit ▸ hok
  have hinc : kv ∈ c := by
    rw [hsplit, List.flatten_append, List.flatten_cons] at hm
    rcases List.mem_append.mp hm with h1 | h1
    · have := below_of_ix_below hc hsep hsucc kv.1 ((c :: rest).flatten ++ []) csL 0 hokS.left
        (fun e he => by simpa using hall e he) kv h1
      rw [hc.refl] at this; exact absurd this (by decide)
    · rcases List.mem_append.mp h1 with h2 | h2
      · exact h2
      · have h3 := (hokS.right.head hc hsep hsucc).2 kv (by simp only [List.append_nil]; exact h2)
        have h4 := hhd _ (by simp only [ixE, List.head?_cons]; rfl)
        simp only [List.append_nil] at h3
        simp [h3] at h4
  have hkin : kv.1 ∈ keysOf c := List.mem_map.mpr ⟨kv, hinc, rfl⟩
  have hhist := histOf_fblocks_mem cfg c rest csL 0
  rw [← hsplit, Nat.zero_add] at hhist
  obtain ⟨hlt, hmem⟩ := hfwd _ hhist kv.1 hkin
  have hsegne : segs.getD ((dataBytes cfg csL).length >>> cfg.filterBaseLg) [] ≠ [] := List.ne_nil_of_mem hmem
  have hsb : segBytes pol (segs.getD ((dataBytes cfg csL).length >>> cfg.filterBaseLg) []) =
      pol.generate (segs.getD ((dataBytes cfg csL).length >>> cfg.filterBaseLg) []) := by
    unfold segBytes
    have : (segs.getD ((dataBytes cfg csL).length >>> cfg.filterBaseLg) []).isEmpty = false := by
      cases hx : segs.getD ((dataBytes cfg csL).length >>> cfg.filterBaseLg) [] with
      | nil => exact absurd hx hsegne
      | cons a l => rfl
    rw [this]
    simp only [Bool.false_eq_true, if_false]
  rw [contains_written pol cfg.filterBaseLg segs hflatsz _ kv.1 hlt (by rw [hsb]; exact hgen _ hsegne), hsb]
  exact hlaw _ _ hmem

end GoLevel.C13
