import GoLevel.Proofs.LocksRO
/-! The write lock of a read-only (or corrupted) DB is kept through `Close` (wp51, repair of D42).

Configuration: `compactionError`'s `closeC` case does `close(db.compLockedC)` instead of giving the lock back
(`cfg.m = .asCoded true`) and `Close` selects on `writeLockC <-` / `<-compLockedC` (`cfg.closeSel = true`), with the
hand-over of 832d000.  Once `compWriteLocking` is set the token never leaves `writeLockC` again — it belongs to the
machine until the machine returns, and to `Close` from then on (`KeepInv`, `kept_locked`) — so no thread is ever again
between acquiring and releasing the write lock, and a thread at the first `select` of a write-side call can only
return (`sel_thread_step_tok`), before `Close`, during `Close` and after it. -/
namespace GoLevel.Locks
open CompErr
set_option linter.unusedSimpArgs false

/-- `compWriteLocking`, once set, stays set -/
theorem step_cwl (cfg : Cfg) (s t : St) (f : Bool) (h : Step cfg f s t) (hr : s.cwl = true) : t.cwl = true := by
  cases h <;> (try simp only [St.setDone, St.setBg]) <;> (repeat' split) <;> simp_all

theorem steps_cwl (cfg : Cfg) (s t : St) (h : Steps cfg s t) (hr : s.cwl = true) : t.cwl = true :=
  steps_inv_of_step (fun s => s.cwl = true) (fun s t f h => step_cwl cfg s t f h) s t h hr

/-- the lock is kept: a read-only DB has `compWriteLocking` set; with `compWriteLocking` set the machine is in (or
past) its persistent-error loop; and when it has returned, `Close` owns the lock -/
def KeepInv (s : St) : Prop :=
  (s.ro = true → s.cwl = true) ∧
  (s.cwl = true → s.eh = .hasperr ∨ s.eh = .closing ∨ s.eh = .exited) ∧
  (s.cwl = true → s.eh = .exited → s.closeTok = true)

theorem step_keepInv (cfg : Cfg) (hm : cfg.m = .asCoded true) (hh : cfg.HandsOver) (s t : St) (f : Bool)
    (h : Step cfg f s t) (inv : KeepInv s) : KeepInv t := by
  unfold KeepInv at *
  obtain ⟨k1, k2, k3⟩ := inv
  obtain ⟨s1, s2, s3, s4⟩ := hh
  cases h <;> (try simp only [St.setDone, St.setBg]) <;> (repeat' split) <;>
    simp_all [roSets, recvs_asCoded, closes_asCoded, offLock_asCoded, onClose_asCoded, next_asCoded] <;>
    (try (rename_i he; rcases he with he | he <;> simp_all [nextC])) <;> (try grind)

theorem keepInv_init (n : Nat) : KeepInv (init n) := by simp [KeepInv, init]

/-- the repaired configurations: the three leaks and the `SetReadOnly`∥`Close` leak closed, the hand-over of 832d000,
the machine keeps the lock on `closeC`, `Close` selects on `compLockedC` -/
def Cfg.Keeps (cfg : Cfg) : Prop :=
  Fixed3 cfg ∧ cfg.m = .asCoded true ∧ cfg.closeSel = true ∧ cfg.HandsOver ∧ cfg.setReadOnlyReleasesOnClose = true

theorem keeps_covered (cfg : Cfg) (hk : cfg.Keeps) (s : St) (hr : Reachable cfg s) : Covered cfg s :=
  ⟨hk.1, by rw [hk.2.2.1]; exact hk.2.1, Or.inl hk.2.2.2.1, Or.inl ⟨hk.2.2.2.2, Or.inl hr⟩⟩

theorem keepInv_reachable (cfg : Cfg) (hk : cfg.Keeps) (s : St) (hr : Reachable cfg s) : KeepInv s := by
  obtain ⟨n, hs⟩ := hr
  exact steps_inv_of_step KeepInv (fun s t f h => step_keepInv cfg hk.2.1 hk.2.2.2.1 s t f h) _ _ hs (keepInv_init n)

/-- **the lock is kept**: in every reachable state of a repaired configuration in which `compWriteLocking` is set —
in particular once `SetReadOnly` returned nil (`compReadOnly` set) — the token is in `writeLockC`, it belongs to
`compactionError` or to `Close`, no thread is between acquiring and releasing the write lock, none is between the two
`select`s of `SetReadOnly`, no transaction is open: whether `Close` has been called or not. -/
theorem kept_locked (cfg : Cfg) (hk : cfg.Keeps) (s : St) (hr : Reachable cfg s)
    (hw : s.cwl = true ∨ s.ro = true) :
    s.cwl = true ∧ s.tok = true ∧ (s.ehTok = true ∨ s.closeTok = true) ∧ tot tokW s.ws = 0 ∧ tot srW s.ws = 0 ∧
    s.trOpen = false := by
  have ki := keepInv_reachable cfg hk s hr
  have hcw : s.cwl = true := hw.elim id ki.1
  have hx := exact_handsOver cfg hk.1 (by rw [hk.2.2.1]; exact hk.2.1) hk.2.2.2.1 hk.2.2.2.2 s (Or.inl hr)
  have hE : tot tokW s.ws + b2n s.trOpen + b2n s.ehTok + b2n s.closeTok = b2n s.tok := hx.1
  have hsr : tot srW s.ws ≤ b2n s.ehTok := hx.2.2.1
  have c1 := b2n_le s.tok
  have c2 := b2n_le s.trOpen
  have own : (s.ehTok = true ∧ tot srW s.ws = 0) ∨ s.closeTok = true := by
    by_cases he : s.eh = .exited
    · exact Or.inr (ki.2.2 hcw he)
    · exact Or.inl (hx.2.1 hcw he)
  rcases own with ⟨h1, h2⟩ | h1
  · rw [h1] at hE; simp only [b2n_true] at hE
    have htok : s.tok = true := by cases h : s.tok <;> simp_all [b2n] <;> omega
    have htr : s.trOpen = false := by cases h : s.trOpen <;> simp_all [b2n] <;> omega
    rw [htok] at hE; simp only [b2n_true] at hE
    exact ⟨hcw, htok, Or.inl h1, by omega, h2, htr⟩
  · rw [h1] at hE; simp only [b2n_true] at hE
    have htok : s.tok = true := by cases h : s.tok <;> simp_all [b2n] <;> omega
    have htr : s.trOpen = false := by cases h : s.trOpen <;> simp_all [b2n] <;> omega
    have hk0 : s.ehTok = false := by cases h : s.ehTok <;> simp_all [b2n] <;> omega
    rw [htok] at hE; simp only [b2n_true] at hE
    rw [hk0] at hsr; simp only [b2n_false] at hsr
    exact ⟨hcw, htok, Or.inr h1, by omega, by omega, htr⟩

/-- while the token is in `writeLockC` — the DB open, closing or closed — a thread at the first `select` of a
write-side call stays there, or returns the error it receives from `compPerErrC`, or returns `ErrClosed`: it does
not get the lock -/
theorem sel_thread_step_tok (cfg : Cfg) (s t : St) (f : Bool) (h : Step cfg f s t) (i' : Nat) (p' q' : Pc)
    (hi' : s.ws[i']? = some p') (hsel : selNext p' = some q') (htok : s.tok = true) :
    t.ws[i']? = some p' ∨ t.ws[i']? = some (.retE s.ehErr) ∨ t.ws[i']? = some (.ret false) := by
  cases h with
  | startPut _ i hi =>
    (try simp only [St.setDone, St.setBg, ↓reduceIte, Bool.false_eq_true, Bool.and_false, Bool.and_true, Bool.false_and, Bool.true_and]) <;> (repeat' split) <;> (try simp only [List.getElem?_set]) <;> grind [St.setBg, St.setDone, St.bg, clearW, onOk, onErr, selNext, afterSetErr]
  | startWrite _ i hi =>
    (try simp only [St.setDone, St.setBg, ↓reduceIte, Bool.false_eq_true, Bool.and_false, Bool.and_true, Bool.false_and, Bool.true_and]) <;> (repeat' split) <;> (try simp only [List.getElem?_set]) <;> grind [St.setBg, St.setDone, St.bg, clearW, onOk, onErr, selNext, afterSetErr]
  | startOtx _ i hi =>
    (try simp only [St.setDone, St.setBg, ↓reduceIte, Bool.false_eq_true, Bool.and_false, Bool.and_true, Bool.false_and, Bool.true_and]) <;> (repeat' split) <;> (try simp only [List.getElem?_set]) <;> grind [St.setBg, St.setDone, St.bg, clearW, onOk, onErr, selNext, afterSetErr]
  | startCommit _ i hi hu =>
    (try simp only [St.setDone, St.setBg, ↓reduceIte, Bool.false_eq_true, Bool.and_false, Bool.and_true, Bool.false_and, Bool.true_and]) <;> (repeat' split) <;> (try simp only [List.getElem?_set]) <;> grind [St.setBg, St.setDone, St.bg, clearW, onOk, onErr, selNext, afterSetErr]
  | startDiscard _ i hi hu =>
    (try simp only [St.setDone, St.setBg, ↓reduceIte, Bool.false_eq_true, Bool.and_false, Bool.and_true, Bool.false_and, Bool.true_and]) <;> (repeat' split) <;> (try simp only [List.getElem?_set]) <;> grind [St.setBg, St.setDone, St.bg, clearW, onOk, onErr, selNext, afterSetErr]
  | startCR _ i hi =>
    (try simp only [St.setDone, St.setBg, ↓reduceIte, Bool.false_eq_true, Bool.and_false, Bool.and_true, Bool.false_and, Bool.true_and]) <;> (repeat' split) <;> (try simp only [List.getElem?_set]) <;> grind [St.setBg, St.setDone, St.bg, clearW, onOk, onErr, selNext, afterSetErr]
  | startSR _ i hi ha =>
    (try simp only [St.setDone, St.setBg, ↓reduceIte, Bool.false_eq_true, Bool.and_false, Bool.and_true, Bool.false_and, Bool.true_and]) <;> (repeat' split) <;> (try simp only [List.getElem?_set]) <;> grind [St.setBg, St.setDone, St.bg, clearW, onOk, onErr, selNext, afterSetErr]
  | startClose _ i hi =>
    (try simp only [St.setDone, St.setBg, ↓reduceIte, Bool.false_eq_true, Bool.and_false, Bool.and_true, Bool.false_and, Bool.true_and]) <;> (repeat' split) <;> (try simp only [List.getElem?_set]) <;> grind [St.setBg, St.setDone, St.bg, clearW, onOk, onErr, selNext, afterSetErr]
  | selTok _ i p q hi hq ht =>
    cases p <;> simp only [selNext] at hq <;> (try contradiction) <;> cases hq <;> (try simp only [List.getElem?_set]) <;> grind [St.setBg, St.setDone, St.bg, clearW, onOk, onErr, selNext, afterSetErr]
  | selPerErr _ i p q hi hq he =>
    cases p <;> simp only [selNext] at hq <;> (try contradiction) <;> cases hq <;> (try simp only [List.getElem?_set]) <;> grind [St.setBg, St.setDone, St.bg, clearW, onOk, onErr, selNext, afterSetErr]
  | selClosed _ i p q hi hq hc =>
    cases p <;> simp only [selNext] at hq <;> (try contradiction) <;> cases hq <;> (try simp only [List.getElem?_set]) <;> grind [St.setBg, St.setDone, St.bg, clearW, onOk, onErr, selNext, afterSetErr]
  | putNoWait _ i hi =>
    (try simp only [St.setDone, St.setBg, ↓reduceIte, Bool.false_eq_true, Bool.and_false, Bool.and_true, Bool.false_and, Bool.true_and]) <;> (repeat' split) <;> (try simp only [List.getElem?_set]) <;> grind [St.setBg, St.setDone, St.bg, clearW, onOk, onErr, selNext, afterSetErr]
  | putWait _ i b hi =>
    (try simp only [St.setDone, St.setBg, ↓reduceIte, Bool.false_eq_true, Bool.and_false, Bool.and_true, Bool.false_and, Bool.true_and]) <;> (repeat' split) <;> (try simp only [List.getElem?_set]) <;> grind [St.setBg, St.setDone, St.bg, clearW, onOk, onErr, selNext, afterSetErr]
  | putJournalOk _ i hi =>
    (try simp only [St.setDone, St.setBg, ↓reduceIte, Bool.false_eq_true, Bool.and_false, Bool.and_true, Bool.false_and, Bool.true_and]) <;> (repeat' split) <;> (try simp only [List.getElem?_set]) <;> grind [St.setBg, St.setDone, St.bg, clearW, onOk, onErr, selNext, afterSetErr]
  | putJournalFail _ i hi =>
    (try simp only [St.setDone, St.setBg, ↓reduceIte, Bool.false_eq_true, Bool.and_false, Bool.and_true, Bool.false_and, Bool.true_and]) <;> (repeat' split) <;> (try simp only [List.getElem?_set]) <;> grind [St.setBg, St.setDone, St.bg, clearW, onOk, onErr, selNext, afterSetErr]
  | putUnlock _ i r hi =>
    (try simp only [St.setDone, St.setBg, ↓reduceIte, Bool.false_eq_true, Bool.and_false, Bool.and_true, Bool.false_and, Bool.true_and]) <;> (repeat' split) <;> (try simp only [List.getElem?_set]) <;> grind [St.setBg, St.setDone, St.bg, clearW, onOk, onErr, selNext, afterSetErr]
  | cwSendGo _ i b site lg hi hb hro =>
    cases site <;> (try simp only [St.setDone, St.setBg, ↓reduceIte, Bool.false_eq_true, Bool.and_false, Bool.and_true, Bool.false_and, Bool.true_and]) <;> (repeat' split) <;> (try simp only [List.getElem?_set]) <;> grind [St.setBg, St.setDone, St.bg, clearW, onOk, onErr, selNext, afterSetErr]
  | cwSendRO _ i site lg hi hb hp hro =>
    cases site <;> (try simp only [St.setDone, St.setBg, ↓reduceIte, Bool.false_eq_true, Bool.and_false, Bool.and_true, Bool.false_and, Bool.true_and]) <;> (repeat' split) <;> (try simp only [List.getElem?_set]) <;> grind [St.setBg, St.setDone, St.bg, clearW, onOk, onErr, selNext, afterSetErr]
  | cwSendErr _ i b site lg hi he =>
    cases site <;> (try simp only [St.setDone, St.setBg, ↓reduceIte, Bool.false_eq_true, Bool.and_false, Bool.and_true, Bool.false_and, Bool.true_and]) <;> (repeat' split) <;> (try simp only [List.getElem?_set]) <;> grind [St.setBg, St.setDone, St.bg, clearW, onOk, onErr, selNext, afterSetErr]
  | cwAckErr _ i b site lg hi he =>
    cases site <;> (try simp only [St.setDone, St.setBg, ↓reduceIte, Bool.false_eq_true, Bool.and_false, Bool.and_true, Bool.false_and, Bool.true_and]) <;> (repeat' split) <;> (try simp only [List.getElem?_set]) <;> grind [St.setBg, St.setDone, St.bg, clearW, onOk, onErr, selNext, afterSetErr]
  | otxRotate _ i lg hi =>
    (try simp only [St.setDone, St.setBg, ↓reduceIte, Bool.false_eq_true, Bool.and_false, Bool.and_true, Bool.false_and, Bool.true_and]) <;> (repeat' split) <;> (try simp only [List.getElem?_set]) <;> grind [St.setBg, St.setDone, St.bg, clearW, onOk, onErr, selNext, afterSetErr]
  | otxNoRotate _ i lg hi =>
    (try simp only [St.setDone, St.setBg, ↓reduceIte, Bool.false_eq_true, Bool.and_false, Bool.and_true, Bool.false_and, Bool.true_and]) <;> (repeat' split) <;> (try simp only [List.getElem?_set]) <;> grind [St.setBg, St.setDone, St.bg, clearW, onOk, onErr, selNext, afterSetErr]
  | otxNewMemOk _ i lg hi =>
    (try simp only [St.setDone, St.setBg, ↓reduceIte, Bool.false_eq_true, Bool.and_false, Bool.and_true, Bool.false_and, Bool.true_and]) <;> (repeat' split) <;> (try simp only [List.getElem?_set]) <;> grind [St.setBg, St.setDone, St.bg, clearW, onOk, onErr, selNext, afterSetErr]
  | otxNewMemFail _ i lg hi =>
    (try simp only [St.setDone, St.setBg, ↓reduceIte, Bool.false_eq_true, Bool.and_false, Bool.and_true, Bool.false_and, Bool.true_and]) <;> (repeat' split) <;> (try simp only [List.getElem?_set]) <;> grind [St.setBg, St.setDone, St.bg, clearW, onOk, onErr, selNext, afterSetErr]
  | otxNoWaitComp _ i lg hi =>
    (try simp only [St.setDone, St.setBg, ↓reduceIte, Bool.false_eq_true, Bool.and_false, Bool.and_true, Bool.false_and, Bool.true_and]) <;> (repeat' split) <;> (try simp only [List.getElem?_set]) <;> grind [St.setBg, St.setDone, St.bg, clearW, onOk, onErr, selNext, afterSetErr]
  | otxWaitComp _ i lg hi =>
    (try simp only [St.setDone, St.setBg, ↓reduceIte, Bool.false_eq_true, Bool.and_false, Bool.and_true, Bool.false_and, Bool.true_and]) <;> (repeat' split) <;> (try simp only [List.getElem?_set]) <;> grind [St.setBg, St.setDone, St.bg, clearW, onOk, onErr, selNext, afterSetErr]
  | otxFail _ i lg hi =>
    (try simp only [St.setDone, St.setBg, ↓reduceIte, Bool.false_eq_true, Bool.and_false, Bool.and_true, Bool.false_and, Bool.true_and]) <;> (repeat' split) <;> (try simp only [List.getElem?_set]) <;> grind [St.setBg, St.setDone, St.bg, clearW, onOk, onErr, selNext, afterSetErr]
  | otxRel _ i lg hi =>
    (try simp only [St.setDone, St.setBg, ↓reduceIte, Bool.false_eq_true, Bool.and_false, Bool.and_true, Bool.false_and, Bool.true_and]) <;> (repeat' split) <;> (try simp only [List.getElem?_set]) <;> grind [St.setBg, St.setDone, St.bg, clearW, onOk, onErr, selNext, afterSetErr]
  | otxDone _ i lg hi =>
    (try simp only [St.setDone, St.setBg, ↓reduceIte, Bool.false_eq_true, Bool.and_false, Bool.and_true, Bool.false_and, Bool.true_and]) <;> (repeat' split) <;> (try simp only [List.getElem?_set]) <;> grind [St.setBg, St.setDone, St.bg, clearW, onOk, onErr, selNext, afterSetErr]
  | lgWriteOk _ i hi =>
    (try simp only [St.setDone, St.setBg, ↓reduceIte, Bool.false_eq_true, Bool.and_false, Bool.and_true, Bool.false_and, Bool.true_and]) <;> (repeat' split) <;> (try simp only [List.getElem?_set]) <;> grind [St.setBg, St.setDone, St.bg, clearW, onOk, onErr, selNext, afterSetErr]
  | lgWriteFail _ i hi =>
    (try simp only [St.setDone, St.setBg, ↓reduceIte, Bool.false_eq_true, Bool.and_false, Bool.and_true, Bool.false_and, Bool.true_and]) <;> (repeat' split) <;> (try simp only [List.getElem?_set]) <;> grind [St.setBg, St.setDone, St.bg, clearW, onOk, onErr, selNext, afterSetErr]
  | cmLockTr _ i lg hi hl =>
    (try simp only [St.setDone, St.setBg, ↓reduceIte, Bool.false_eq_true, Bool.and_false, Bool.and_true, Bool.false_and, Bool.true_and]) <;> (repeat' split) <;> (try simp only [List.getElem?_set]) <;> grind [St.setBg, St.setDone, St.bg, clearW, onOk, onErr, selNext, afterSetErr]
  | cmFlushOk _ i lg hi =>
    (try simp only [St.setDone, St.setBg, ↓reduceIte, Bool.false_eq_true, Bool.and_false, Bool.and_true, Bool.false_and, Bool.true_and]) <;> (repeat' split) <;> (try simp only [List.getElem?_set]) <;> grind [St.setBg, St.setDone, St.bg, clearW, onOk, onErr, selNext, afterSetErr]
  | cmFlushEmpty _ i lg hi =>
    (try simp only [St.setDone, St.setBg, ↓reduceIte, Bool.false_eq_true, Bool.and_false, Bool.and_true, Bool.false_and, Bool.true_and]) <;> (repeat' split) <;> (try simp only [List.getElem?_set]) <;> grind [St.setBg, St.setDone, St.bg, clearW, onOk, onErr, selNext, afterSetErr]
  | cmFlushFail _ i lg hi =>
    (try simp only [St.setDone, St.setBg, ↓reduceIte, Bool.false_eq_true, Bool.and_false, Bool.and_true, Bool.false_and, Bool.true_and]) <;> (repeat' split) <;> (try simp only [List.getElem?_set]) <;> grind [St.setBg, St.setDone, St.bg, clearW, onOk, onErr, selNext, afterSetErr]
  | cmLockClk _ i lg hi hl =>
    (try simp only [St.setDone, St.setBg, ↓reduceIte, Bool.false_eq_true, Bool.and_false, Bool.and_true, Bool.false_and, Bool.true_and]) <;> (repeat' split) <;> (try simp only [List.getElem?_set]) <;> grind [St.setBg, St.setDone, St.bg, clearW, onOk, onErr, selNext, afterSetErr]
  | cmTryOk _ i k lg hi =>
    (try simp only [St.setDone, St.setBg, ↓reduceIte, Bool.false_eq_true, Bool.and_false, Bool.and_true, Bool.false_and, Bool.true_and]) <;> (repeat' split) <;> (try simp only [List.getElem?_set]) <;> grind [St.setBg, St.setDone, St.bg, clearW, onOk, onErr, selNext, afterSetErr]
  | cmTryFail _ i k lg hi =>
    (try simp only [St.setDone, St.setBg, ↓reduceIte, Bool.false_eq_true, Bool.and_false, Bool.and_true, Bool.false_and, Bool.true_and]) <;> (repeat' split) <;> (try simp only [List.getElem?_set]) <;> grind [St.setBg, St.setDone, St.bg, clearW, onOk, onErr, selNext, afterSetErr]
  | cmSleepTimer _ i k lg hi =>
    (try simp only [St.setDone, St.setBg, ↓reduceIte, Bool.false_eq_true, Bool.and_false, Bool.and_true, Bool.false_and, Bool.true_and]) <;> (repeat' split) <;> (try simp only [List.getElem?_set]) <;> grind [St.setBg, St.setDone, St.bg, clearW, onOk, onErr, selNext, afterSetErr]
  | cmSleepClosed _ i k lg hi hc =>
    (try simp only [St.setDone, St.setBg, ↓reduceIte, Bool.false_eq_true, Bool.and_false, Bool.and_true, Bool.false_and, Bool.true_and]) <;> (repeat' split) <;> (try simp only [List.getElem?_set]) <;> grind [St.setBg, St.setDone, St.bg, clearW, onOk, onErr, selNext, afterSetErr]
  | cmFail3 _ i lg hi =>
    (try simp only [St.setDone, St.setBg, ↓reduceIte, Bool.false_eq_true, Bool.and_false, Bool.and_true, Bool.false_and, Bool.true_and]) <;> (repeat' split) <;> (try simp only [List.getElem?_set]) <;> grind [St.setBg, St.setDone, St.bg, clearW, onOk, onErr, selNext, afterSetErr]
  | cmAfterOk _ i lg hi =>
    (try simp only [St.setDone, St.setBg, ↓reduceIte, Bool.false_eq_true, Bool.and_false, Bool.and_true, Bool.false_and, Bool.true_and]) <;> (repeat' split) <;> (try simp only [List.getElem?_set]) <;> grind [St.setBg, St.setDone, St.bg, clearW, onOk, onErr, selNext, afterSetErr]
  | cmNoWaitComp _ i lg hi =>
    (try simp only [St.setDone, St.setBg, ↓reduceIte, Bool.false_eq_true, Bool.and_false, Bool.and_true, Bool.false_and, Bool.true_and]) <;> (repeat' split) <;> (try simp only [List.getElem?_set]) <;> grind [St.setBg, St.setDone, St.bg, clearW, onOk, onErr, selNext, afterSetErr]
  | cmWaitComp _ i lg hi =>
    (try simp only [St.setDone, St.setBg, ↓reduceIte, Bool.false_eq_true, Bool.and_false, Bool.and_true, Bool.false_and, Bool.true_and]) <;> (repeat' split) <;> (try simp only [List.getElem?_set]) <;> grind [St.setBg, St.setDone, St.bg, clearW, onOk, onErr, selNext, afterSetErr]
  | cmDone _ i lg hi =>
    (try simp only [St.setDone, St.setBg, ↓reduceIte, Bool.false_eq_true, Bool.and_false, Bool.and_true, Bool.false_and, Bool.true_and]) <;> (repeat' split) <;> (try simp only [List.getElem?_set]) <;> grind [St.setBg, St.setDone, St.bg, clearW, onOk, onErr, selNext, afterSetErr]
  | cmRet _ i ok lg hi =>
    (try simp only [St.setDone, St.setBg, ↓reduceIte, Bool.false_eq_true, Bool.and_false, Bool.and_true, Bool.false_and, Bool.true_and]) <;> (repeat' split) <;> (try simp only [List.getElem?_set]) <;> grind [St.setBg, St.setDone, St.bg, clearW, onOk, onErr, selNext, afterSetErr]
  | dcLockTr _ i lg hi hl =>
    (try simp only [St.setDone, St.setBg, ↓reduceIte, Bool.false_eq_true, Bool.and_false, Bool.and_true, Bool.false_and, Bool.true_and]) <;> (repeat' split) <;> (try simp only [List.getElem?_set]) <;> grind [St.setBg, St.setDone, St.bg, clearW, onOk, onErr, selNext, afterSetErr]
  | dcBody _ i lg hi =>
    (try simp only [St.setDone, St.setBg, ↓reduceIte, Bool.false_eq_true, Bool.and_false, Bool.and_true, Bool.false_and, Bool.true_and]) <;> (repeat' split) <;> (try simp only [List.getElem?_set]) <;> grind [St.setBg, St.setDone, St.bg, clearW, onOk, onErr, selNext, afterSetErr]
  | crNoOverlap _ i hi =>
    (try simp only [St.setDone, St.setBg, ↓reduceIte, Bool.false_eq_true, Bool.and_false, Bool.and_true, Bool.false_and, Bool.true_and]) <;> (repeat' split) <;> (try simp only [List.getElem?_set]) <;> grind [St.setBg, St.setDone, St.bg, clearW, onOk, onErr, selNext, afterSetErr]
  | crOverlap _ i hi =>
    (try simp only [St.setDone, St.setBg, ↓reduceIte, Bool.false_eq_true, Bool.and_false, Bool.and_true, Bool.false_and, Bool.true_and]) <;> (repeat' split) <;> (try simp only [List.getElem?_set]) <;> grind [St.setBg, St.setDone, St.bg, clearW, onOk, onErr, selNext, afterSetErr]
  | crNewMemOk _ i hi =>
    (try simp only [St.setDone, St.setBg, ↓reduceIte, Bool.false_eq_true, Bool.and_false, Bool.and_true, Bool.false_and, Bool.true_and]) <;> (repeat' split) <;> (try simp only [List.getElem?_set]) <;> grind [St.setBg, St.setDone, St.bg, clearW, onOk, onErr, selNext, afterSetErr]
  | crNewMemFail _ i hi =>
    (try simp only [St.setDone, St.setBg, ↓reduceIte, Bool.false_eq_true, Bool.and_false, Bool.and_true, Bool.false_and, Bool.true_and]) <;> (repeat' split) <;> (try simp only [List.getElem?_set]) <;> grind [St.setBg, St.setDone, St.bg, clearW, onOk, onErr, selNext, afterSetErr]
  | crRelM _ i hi =>
    (try simp only [St.setDone, St.setBg, ↓reduceIte, Bool.false_eq_true, Bool.and_false, Bool.and_true, Bool.false_and, Bool.true_and]) <;> (repeat' split) <;> (try simp only [List.getElem?_set]) <;> grind [St.setBg, St.setDone, St.bg, clearW, onOk, onErr, selNext, afterSetErr]
  | crRelOk _ i hi =>
    (try simp only [St.setDone, St.setBg, ↓reduceIte, Bool.false_eq_true, Bool.and_false, Bool.and_true, Bool.false_and, Bool.true_and]) <;> (repeat' split) <;> (try simp only [List.getElem?_set]) <;> grind [St.setBg, St.setDone, St.bg, clearW, onOk, onErr, selNext, afterSetErr]
  | crRelFail _ i hi =>
    (try simp only [St.setDone, St.setBg, ↓reduceIte, Bool.false_eq_true, Bool.and_false, Bool.and_true, Bool.false_and, Bool.true_and]) <;> (repeat' split) <;> (try simp only [List.getElem?_set]) <;> grind [St.setBg, St.setDone, St.bg, clearW, onOk, onErr, selNext, afterSetErr]
  | srSend _ i hi he =>
    (try simp only [St.setDone, St.setBg, ↓reduceIte, Bool.false_eq_true, Bool.and_false, Bool.and_true, Bool.false_and, Bool.true_and]) <;> (repeat' split) <;> (try simp only [List.getElem?_set]) <;> grind [St.setBg, St.setDone, St.bg, clearW, onOk, onErr, selNext, afterSetErr]
  | srPerErr _ i hi he =>
    (try simp only [St.setDone, St.setBg, ↓reduceIte, Bool.false_eq_true, Bool.and_false, Bool.and_true, Bool.false_and, Bool.true_and]) <;> (repeat' split) <;> (try simp only [List.getElem?_set]) <;> grind [St.setBg, St.setDone, St.bg, clearW, onOk, onErr, selNext, afterSetErr]
  | srClosed _ i hi hc =>
    (try simp only [St.setDone, St.setBg, ↓reduceIte, Bool.false_eq_true, Bool.and_false, Bool.and_true, Bool.false_and, Bool.true_and]) <;> (repeat' split) <;> (try simp only [List.getElem?_set]) <;> grind [St.setBg, St.setDone, St.bg, clearW, onOk, onErr, selNext, afterSetErr]
  | clCheckTr _ i hi =>
    (try simp only [St.setDone, St.setBg, ↓reduceIte, Bool.false_eq_true, Bool.and_false, Bool.and_true, Bool.false_and, Bool.true_and]) <;> (repeat' split) <;> (try simp only [List.getElem?_set]) <;> grind [St.setBg, St.setDone, St.bg, clearW, onOk, onErr, selNext, afterSetErr]
  | clLockTr _ i hi hl =>
    (try simp only [St.setDone, St.setBg, ↓reduceIte, Bool.false_eq_true, Bool.and_false, Bool.and_true, Bool.false_and, Bool.true_and]) <;> (repeat' split) <;> (try simp only [List.getElem?_set]) <;> grind [St.setBg, St.setDone, St.bg, clearW, onOk, onErr, selNext, afterSetErr]
  | clBody _ i hi =>
    (try simp only [St.setDone, St.setBg, ↓reduceIte, Bool.false_eq_true, Bool.and_false, Bool.and_true, Bool.false_and, Bool.true_and]) <;> (repeat' split) <;> (try simp only [List.getElem?_set]) <;> grind [St.setBg, St.setDone, St.bg, clearW, onOk, onErr, selNext, afterSetErr]
  | clAcq _ i hi ht =>
    (try simp only [St.setDone, St.setBg, ↓reduceIte, Bool.false_eq_true, Bool.and_false, Bool.and_true, Bool.false_and, Bool.true_and]) <;> (repeat' split) <;> (try simp only [List.getElem?_set]) <;> grind [St.setBg, St.setDone, St.bg, clearW, onOk, onErr, selNext, afterSetErr]
  | clAcqKept _ i hi he hk hs =>
    (try simp only [St.setDone, St.setBg, ↓reduceIte, Bool.false_eq_true, Bool.and_false, Bool.and_true, Bool.false_and, Bool.true_and]) <;> (repeat' split) <;> (try simp only [List.getElem?_set]) <;> grind [St.setBg, St.setDone, St.bg, clearW, onOk, onErr, selNext, afterSetErr]
  | clWait _ i hi hm ht =>
    (try simp only [St.setDone, St.setBg, ↓reduceIte, Bool.false_eq_true, Bool.and_false, Bool.and_true, Bool.false_and, Bool.true_and]) <;> (repeat' split) <;> (try simp only [List.getElem?_set]) <;> grind [St.setBg, St.setDone, St.bg, clearW, onOk, onErr, selNext, afterSetErr]
  | ehAcquire _ he ht =>
    (try simp only [St.setDone, St.setBg, ↓reduceIte, Bool.false_eq_true, Bool.and_false, Bool.and_true, Bool.false_and, Bool.true_and]) <;> (repeat' split) <;> (try simp only [List.getElem?_set]) <;> grind [St.setBg, St.setDone, St.bg, clearW, onOk, onErr, selNext, afterSetErr]
  | ehClose _ he hc =>
    (try simp only [St.setDone, St.setBg, ↓reduceIte, Bool.false_eq_true, Bool.and_false, Bool.and_true, Bool.false_and, Bool.true_and]) <;> (repeat' split) <;> (try simp only [List.getElem?_set]) <;> grind [St.setBg, St.setDone, St.bg, clearW, onOk, onErr, selNext, afterSetErr]
  | ehTake _ he ht =>
    (try simp only [St.setDone, St.setBg, ↓reduceIte, Bool.false_eq_true, Bool.and_false, Bool.and_true, Bool.false_and, Bool.true_and]) <;> (repeat' split) <;> (try simp only [List.getElem?_set]) <;> grind [St.setBg, St.setDone, St.bg, clearW, onOk, onErr, selNext, afterSetErr]
  | bgExitIdle _ b hb hc =>
    (try simp only [St.setDone, St.setBg, ↓reduceIte, Bool.false_eq_true, Bool.and_false, Bool.and_true, Bool.false_and, Bool.true_and]) <;> (repeat' split) <;> (try simp only [List.getElem?_set]) <;> grind [St.setBg, St.setDone, St.bg, clearW, onOk, onErr, selNext, afterSetErr]
  | bgExitParked _ hb hc =>
    (try simp only [St.setDone, St.setBg, ↓reduceIte, Bool.false_eq_true, Bool.and_false, Bool.and_true, Bool.false_and, Bool.true_and]) <;> (repeat' split) <;> (try simp only [List.getElem?_set]) <;> grind [St.setBg, St.setDone, St.bg, clearW, onOk, onErr, selNext, afterSetErr]
  | bgWorkCorrupt _ b w hb hk =>
    (try simp only [St.setDone, St.setBg, ↓reduceIte, Bool.false_eq_true, Bool.and_false, Bool.and_true, Bool.false_and, Bool.true_and]) <;> (repeat' split) <;> (try simp only [List.getElem?_set]) <;> grind [St.setBg, St.setDone, St.bg, clearW, onOk, onErr, selNext, afterSetErr]
  | bgCommitCorrupt _ b w hb hk =>
    (try simp only [St.setDone, St.setBg, ↓reduceIte, Bool.false_eq_true, Bool.and_false, Bool.and_true, Bool.false_and, Bool.true_and]) <;> (repeat' split) <;> (try simp only [List.getElem?_set]) <;> grind [St.setBg, St.setDone, St.bg, clearW, onOk, onErr, selNext, afterSetErr]
  | bgSetErrCorrupt _ b w c hb he =>
    (try simp only [St.setDone, St.setBg, ↓reduceIte, Bool.false_eq_true, Bool.and_false, Bool.and_true, Bool.false_and, Bool.true_and]) <;> (repeat' split) <;> (try simp only [List.getElem?_set]) <;> grind [St.setBg, St.setDone, St.bg, clearW, onOk, onErr, selNext, afterSetErr]
  | bgWorkOk _ b w hb =>
    (try simp only [St.setDone, St.setBg, ↓reduceIte, Bool.false_eq_true, Bool.and_false, Bool.and_true, Bool.false_and, Bool.true_and]) <;> (repeat' split) <;> (try simp only [List.getElem?_set]) <;> grind [St.setBg, St.setDone, St.bg, clearW, onOk, onErr, selNext, afterSetErr]
  | bgWorkFail _ b w hb =>
    (try simp only [St.setDone, St.setBg, ↓reduceIte, Bool.false_eq_true, Bool.and_false, Bool.and_true, Bool.false_and, Bool.true_and]) <;> (repeat' split) <;> (try simp only [List.getElem?_set]) <;> grind [St.setBg, St.setDone, St.bg, clearW, onOk, onErr, selNext, afterSetErr]
  | bgCommitOk _ b w hb =>
    (try simp only [St.setDone, St.setBg, ↓reduceIte, Bool.false_eq_true, Bool.and_false, Bool.and_true, Bool.false_and, Bool.true_and]) <;> (repeat' split) <;> (try simp only [List.getElem?_set]) <;> grind [St.setBg, St.setDone, St.bg, clearW, onOk, onErr, selNext, afterSetErr]
  | bgCommitFail _ b w hb =>
    (try simp only [St.setDone, St.setBg, ↓reduceIte, Bool.false_eq_true, Bool.and_false, Bool.and_true, Bool.false_and, Bool.true_and]) <;> (repeat' split) <;> (try simp only [List.getElem?_set]) <;> grind [St.setBg, St.setDone, St.bg, clearW, onOk, onErr, selNext, afterSetErr]
  | bgSetErr _ b w ok c hb he =>
    (try simp only [St.setDone, St.setBg, ↓reduceIte, Bool.false_eq_true, Bool.and_false, Bool.and_true, Bool.false_and, Bool.true_and]) <;> (repeat' split) <;> (try simp only [List.getElem?_set]) <;> grind [St.setBg, St.setDone, St.bg, clearW, onOk, onErr, selNext, afterSetErr]
  | bgSetErrPer _ b w c hb he =>
    (try simp only [St.setDone, St.setBg, ↓reduceIte, Bool.false_eq_true, Bool.and_false, Bool.and_true, Bool.false_and, Bool.true_and]) <;> (repeat' split) <;> (try simp only [List.getElem?_set]) <;> grind [St.setBg, St.setDone, St.bg, clearW, onOk, onErr, selNext, afterSetErr]
  | bgBackoff _ b w c hb =>
    (try simp only [St.setDone, St.setBg, ↓reduceIte, Bool.false_eq_true, Bool.and_false, Bool.and_true, Bool.false_and, Bool.true_and]) <;> (repeat' split) <;> (try simp only [List.getElem?_set]) <;> grind [St.setBg, St.setDone, St.bg, clearW, onOk, onErr, selNext, afterSetErr]
  | bgLockClk _ b w hb hl =>
    (try simp only [St.setDone, St.setBg, ↓reduceIte, Bool.false_eq_true, Bool.and_false, Bool.and_true, Bool.false_and, Bool.true_and]) <;> (repeat' split) <;> (try simp only [List.getElem?_set]) <;> grind [St.setBg, St.setDone, St.bg, clearW, onOk, onErr, selNext, afterSetErr]
  | bgAck _ b w hb =>
    left
    have := ackWs_sel s.ws w b i' p' q' hi' hsel
    cases b <;> simpa [St.setBg] using this
  | bgExit _ b w ph hb hx =>
    (try simp only [St.setDone, St.setBg, ↓reduceIte, Bool.false_eq_true, Bool.and_false, Bool.and_true, Bool.false_and, Bool.true_and]) <;> (repeat' split) <;> (try simp only [List.getElem?_set]) <;> grind [St.setBg, St.setDone, St.bg, clearW, onOk, onErr, selNext, afterSetErr]

end GoLevel.Locks
