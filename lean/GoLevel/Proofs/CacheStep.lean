import GoLevel.Proofs.CacheLog
/-! Step-level facts about the cache system used by the property theorems (C17). -/
namespace GoLevel.CacheM

set_option linter.unusedSimpArgs false

theorem same_of_id {ns : List Node} (hnd : (ns.map (·.id)).Nodup) {n m : Node} (hn : n ∈ ns) (hm : m ∈ ns)
    (h : n.id = m.id) : n = m := by
  have h1 := findId_of_mem hnd hn
  have h2 := findId_of_mem hnd hm
  rw [h, h2] at h1
  exact (Option.some.inj h1).symm

theorem mem_finEvents {n : Node} {f : Bool} {e : Ev} (h : e ∈ finEvents n f) :
    (∃ v, n.value = some v ∧ e = .fin n.id v f) ∨ (∃ d, d ∈ n.delFuncs ∧ e = .delf d (some n.id) f) := by
  unfold finEvents at h
  rcases List.mem_append.mp h with h | h
  · left
    cases hv : n.value with
    | none => rw [hv] at h; cases h
    | some v => rw [hv] at h; simp at h; exact ⟨v, rfl, h⟩
  · right
    obtain ⟨d, hd, rfl⟩ := List.mem_map.mp h
    exact ⟨d, hd, rfl⟩

/-- The events about node `id` that mean "the value was released / a delFunc of the node ran". -/
def isFinOf (id : Nat) : Ev → Bool
  | .fin j _ _ => j == id
  | .delf _ (some j) _ => j == id
  | _ => false

/-- When a finaliser or a node's delFunc runs (and the cache was not force-closed), nothing references the
node. -/
theorem fin_refs_zero {g sh Q log sh' i push evs} (h : InvP g sh (i :: Q) log)
    (he : exec sh i = some (sh', push, evs)) (hf : sh.forced = false) (hg : Eff g sh = true ∨ sh.closed = false)
    {e : Ev} {id : Nat} (hev : e ∈ evs) (hfin : isFinOf id e = true) : refsP sh (i :: Q) id = 0 := by
  cases i
  case delz k =>
    simp only [exec, execDelz] at he
    by_cases hc : sh.closed = true
    · simp [hc] at he; obtain ⟨_, _, rfl⟩ := he; cases hev
    · simp only [hc, if_false] at he
      cases hfind : findKey sh.nodes k with
      | none => simp [hfind] at he; obtain ⟨_, _, rfl⟩ := he; cases hev
      | some n0 =>
        have hfs := findKey_some hfind
        by_cases h0 : n0.ref = 0
        · simp [hfind, h0] at he; obtain ⟨_, _, rfl⟩ := he
          have hid : n0.id = id := by
            rcases mem_finEvents hev with ⟨v, _, rfl⟩ | ⟨d, _, rfl⟩ <;> simpa [isFinOf] using hfin
          have := h.rc hf n0 hfs.1
          rw [← hid]; omega
        · simp [hfind, h0] at he; obtain ⟨_, _, rfl⟩ := he; cases hev
  case fin fid ff =>
    have hclosed : sh.closed = true := by
      cases hc : sh.closed with
      | true => rfl
      | false => have := (h.op hc).1 _ List.mem_cons_self; simp [closedOnly] at this
    have hgt : Eff g sh = true := by
      rcases hg with hg | hg
      · exact hg
      · rw [hclosed] at hg; cases hg
    have hff : ff = false := by
      cases ff with
      | false => rfl
      | true => have := h.fo hf _ List.mem_cons_self; simp [forcedOnly] at this
    subst hff
    simp only [exec, execFin] at he
    cases hfind : findId sh.nodes fid with
    | none =>
      -- a stale pointer: the node is not in the table, so nothing references it
      simp only [hfind] at he
      have hid : id = fid := by
        unfold execFinStale at he
        split at he
        · simp only [Option.some.injEq, Prod.mk.injEq] at he; obtain ⟨_, _, rfl⟩ := he; cases hev
        · rename_i n hn
          simp only [Option.some.injEq, Prod.mk.injEq] at he; obtain ⟨_, _, rfl⟩ := he
          obtain ⟨d, _, rfl⟩ := List.mem_map.mp hev
          have := (findId_some hn).2
          simp [isFinOf] at hfin
          omega
      rcases Nat.eq_zero_or_pos (refsP sh (Instr.fin fid false :: Q) id) with h0 | hpos
      · exact h0
      · obtain ⟨m, hm, hmid⟩ := h.ex id hpos
        exact absurd (hmid.trans hid) (findId_none hfind m hm)
    | some n0 =>
      have hfs := findId_some hfind
      simp [hfind] at he; obtain ⟨_, _, rfl⟩ := he
      have hid : n0.id = id := by
        rcases mem_finEvents hev with ⟨v, _, rfl⟩ | ⟨d, _, rfl⟩ <;> simpa [isFinOf] using hfin
      have hz := h.zr hgt hclosed hf _ List.mem_cons_self fid (by simp [zeroRef]) n0 hfs.1 hfs.2
      have := h.rc hf n0 hfs.1
      rw [← hid]; omega
  all_goals (exfalso; exec_split he)
  all_goals (simp only [List.mem_cons, List.not_mem_nil, or_false] at hev)
  all_goals first
    | (subst hev; simp [isFinOf] at hfin; done)
    | (cases hev; done)
    | (rcases hev with rfl | rfl <;> simp [isFinOf] at hfin; done)
    | skip

/-- One instruction never replaces a present value by another one (it can only disappear through its
finaliser), leaves banned nodes banned, and never changes a key. -/
theorem node_step {g sh Q log sh' i push evs} (h : InvP g sh (i :: Q) log)
    (he : exec sh i = some (sh', push, evs)) {n n' : Node} (hn : n ∈ sh.nodes) (hn' : n' ∈ sh'.nodes)
    (hid : n'.id = n.id) :
    (∀ v, n.value = some v → n'.value = some v ∨ (n'.value = none ∧ ∃ f, Ev.fin n.id v f ∈ evs)) ∧
    (n.lru = .banned → n'.lru = .banned) ∧ n'.key = n.key := by
  have hnd := h.ids.1
  have hlr := h.lr.2
  have hu : ∀ m ∈ sh.nodes, m.id = n.id → m = n := fun m hm h => same_of_id hnd hm hn h
  have triv : ∀ {evs : List Ev}, (∀ v, n.value = some v → n.value = some v ∨ (n.value = none ∧
      ∃ f, Ev.fin n.id v f ∈ evs)) ∧ (n.lru = .banned → n.lru = .banned) ∧ n.key = n.key :=
    ⟨fun v hv => Or.inl hv, fun hb => hb, rfl⟩
  -- an evicted node was on the list, hence not banned
  have hev : ∀ {ns cap l used}, l.reverse ⊆ n.id :: sh.lru.recent → n.lru = .banned →
      (∀ x ∈ sh.nodes, x.id = n.id → x.lru = .banned) →
      n.id ∈ (evictTail ns cap l used).2.2.1 → n.id ∈ sh.lru.recent → False := by
    intro ns cap l used _ hb _ _ hrec
    obtain ⟨m, hm, hmid, hml⟩ := (hlr n.id).mp hrec
    have := hu m hm hmid; subst this; rw [hb] at hml; cases hml
  cases i
  case promote pid =>
    simp only [exec, execPromote] at he
    cases hfind : findId sh.nodes pid with
    | none => simp [hfind] at he; obtain ⟨rfl, _, _⟩ := he; have := hu n' hn' hid; subst this; exact triv
    | some n0 =>
      have hfs := findId_some hfind
      cases hl : n0.lru with
      | none =>
        by_cases hfit : n0.size ≤ sh.lru.capacity
        · simp only [hfind, hl, hfit, if_true, Option.some.injEq, Prod.mk.injEq] at he
          obtain ⟨rfl, _, _⟩ := he
          obtain ⟨m1, hm1, hid1, _, hk1, hval1, _, _, hlru1⟩ := mem_clearLru_proj hn'
          obtain ⟨m, hm, rfl⟩ := mem_upd.mp hm1
          have hmid : m.id = n.id := by rw [← hid, hid1]; split <;> rfl
          have := hu m hm hmid; subst this
          refine ⟨fun v hv => Or.inl ?_, fun hb => ?_, ?_⟩
          · rw [hval1]; split <;> exact hv
          · have hne : ¬ m.id = pid := by
              intro h1; have := hu n0 hfs.1 (by rw [hfs.2, h1]); subst this; rw [hl] at hb; cases hb
            simp only [hne, if_false] at hlru1
            rcases hlru1 with ⟨h1, _⟩ | ⟨_, h2⟩
            · rw [h1]; exact hb
            · exfalso
              have := evicted_mem h2
              simp only [List.mem_reverse, List.mem_cons] at this
              rcases this with h3 | h3
              · exact hne h3
              · obtain ⟨x, hx, hxid, hxl⟩ := (hlr m.id).mp h3
                have := hu x hx hxid; subst this; rw [hb] at hxl; cases hxl
          · rw [hk1]; split <;> rfl
        · simp only [hfind, hl, hfit, if_false, Option.some.injEq, Prod.mk.injEq] at he
          obtain ⟨rfl, _, _⟩ := he; have := hu n' hn' hid; subst this; exact triv
      | inList =>
        simp only [hfind, hl, Option.some.injEq, Prod.mk.injEq] at he
        obtain ⟨rfl, _, _⟩ := he; have := hu n' hn' hid; subst this; exact triv
      | banned =>
        simp only [hfind, hl, Option.some.injEq, Prod.mk.injEq] at he
        obtain ⟨rfl, _, _⟩ := he; have := hu n' hn' hid; subst this; exact triv
  case setcap c =>
    simp only [exec, execSetcap, Option.some.injEq, Prod.mk.injEq] at he
    obtain ⟨rfl, _, _⟩ := he
    obtain ⟨m, hm, hid1, _, hk1, hval1, _, _, hlru1⟩ := mem_clearLru_proj hn'
    have := hu m hm (by rw [← hid1]; exact hid); subst this
    refine ⟨fun v hv => Or.inl (by rw [hval1]; exact hv), fun hb => ?_, hk1⟩
    rcases hlru1 with ⟨h1, _⟩ | ⟨_, h2⟩
    · rw [h1]; exact hb
    · exfalso
      have := evicted_mem h2
      simp only [List.mem_reverse] at this
      obtain ⟨x, hx, hxid, hxl⟩ := (hlr m.id).mp this
      have := hu x hx hxid; subst this; rw [hb] at hxl; cases hxl
  case setv sid sf =>
    simp only [exec, execSetv] at he
    cases hfind : findId sh.nodes sid with
    | none => simp [hfind] at he; obtain ⟨rfl, _, _⟩ := he; have := hu n' hn' hid; subst this; exact triv
    | some n0 =>
      have hfs := findId_some hfind
      cases hval : n0.value with
      | some v =>
        simp [hfind, hval] at he; obtain ⟨rfl, _, _⟩ := he; have := hu n' hn' hid; subst this; exact triv
      | none =>
        cases sf with
        | none =>
          simp [hfind, hval] at he; obtain ⟨rfl, _, _⟩ := he; have := hu n' hn' hid; subst this; exact triv
        | nilv sz =>
          simp [hfind, hval] at he; obtain ⟨rfl, _, _⟩ := he
          obtain ⟨m, hm, rfl⟩ := mem_upd.mp hn'
          have hmid : m.id = n.id := by rw [← hid]; split <;> rfl
          have := hu m hm hmid; subst this
          split <;> exact triv
        | val sz =>
          simp [hfind, hval] at he; obtain ⟨rfl, _, _⟩ := he
          obtain ⟨m, hm, rfl⟩ := mem_upd.mp hn'
          have hmid : m.id = n.id := by rw [← hid]; split <;> rfl
          have := hu m hm hmid; subst this
          by_cases hms : m.id = sid
          · have := hu n0 hfs.1 (by rw [hfs.2, hms]); subst this
            rw [if_pos hms]
            exact ⟨fun v hv => (by rw [hval] at hv; cases hv), fun hb => hb, rfl⟩
          · rw [if_neg hms]; exact triv
  case levict lid =>
    simp only [exec, execLevict] at he
    cases hfind : findId sh.nodes lid with
    | none => simp [hfind] at he; obtain ⟨rfl, _, _⟩ := he; have := hu n' hn' hid; subst this; exact triv
    | some n0 =>
      have hfs := findId_some hfind
      cases hl : n0.lru with
      | none => simp [hfind, hl] at he; obtain ⟨rfl, _, _⟩ := he; have := hu n' hn' hid; subst this; exact triv
      | banned => simp [hfind, hl] at he; obtain ⟨rfl, _, _⟩ := he; have := hu n' hn' hid; subst this; exact triv
      | inList =>
        simp [hfind, hl] at he; obtain ⟨rfl, _, _⟩ := he
        obtain ⟨m, hm, rfl⟩ := mem_upd.mp hn'
        have hmid : m.id = n.id := by rw [← hid]; split <;> rfl
        have := hu m hm hmid; subst this
        by_cases hms : m.id = lid
        · have := hu n0 hfs.1 (by rw [hfs.2, hms]); subst this
          rw [if_pos hms]
          exact ⟨fun v hv => Or.inl hv, fun hb => (by rw [hl] at hb; cases hb), rfl⟩
        · rw [if_neg hms]; exact triv
  case delz k =>
    simp only [exec, execDelz] at he
    by_cases hc : sh.closed = true
    · simp [hc] at he; obtain ⟨rfl, _, _⟩ := he; have := hu n' hn' hid; subst this; exact triv
    · simp only [hc, if_false] at he
      cases hfind : findKey sh.nodes k with
      | none => simp [hfind] at he; obtain ⟨rfl, _, _⟩ := he; have := hu n' hn' hid; subst this; exact triv
      | some n0 =>
        by_cases h0 : n0.ref = 0
        · simp [hfind, h0] at he; obtain ⟨rfl, _, _⟩ := he
          have := hu n' (mem_eraseId.mp hn').1 hid; subst this; exact triv
        · simp [hfind, h0] at he; obtain ⟨rfl, _, _⟩ := he; have := hu n' hn' hid; subst this; exact triv
  case fin fid ff =>
    simp only [exec, execFin] at he
    cases hfind : findId sh.nodes fid with
    | none =>
      simp only [hfind] at he; obtain ⟨st, dd, rfl, rfl⟩ := execFinStale_cases he
      have := hu n' hn' hid; subst this; exact triv
    | some n0 =>
      have hfs := findId_some hfind
      simp [hfind] at he; obtain ⟨rfl, _, rfl⟩ := he
      obtain ⟨m, hm, rfl⟩ := mem_upd.mp hn'
      have hmid : m.id = n.id := by rw [← hid]; split <;> rfl
      have := hu m hm hmid; subst this
      by_cases hms : m.id = fid
      · have := hu n0 hfs.1 (by rw [hfs.2, hms]); subst this
        rw [if_pos hms]
        refine ⟨fun v hv => Or.inr ⟨rfl, ff, ?_⟩, fun hb => hb, rfl⟩
        unfold finEvents; rw [hv]; simp
      · rw [if_neg hms]; exact triv
  all_goals exec_split he
  all_goals (try simp only [] at hn')
  all_goals first
    | (have := hu n' hn' hid; subst this; exact triv)
    | (obtain ⟨m, hm, rfl⟩ := mem_upd.mp hn'
       have hmid : m.id = n.id := by rw [← hid]; split <;> rfl
       have := hu m hm hmid; subst this
       split <;> simp_all; done)
    | (-- a node is created: its id is new
       rcases List.mem_cons.mp hn' with rfl | hn'
       · have := h.ids.2 n hn; simp only [] at hid; omega
       · have := hu n' hn' hid; subst this; exact triv)

/-- The constructor (`setFunc`) runs only for a node that has no value, and installs the value it returns. -/
theorem ctor_step {sh sh' : Shared} {i push evs} (he : exec sh i = some (sh', push, evs)) {id v : Nat}
    (hev : Ev.ctor id v ∈ evs) :
    (∃ n ∈ sh.nodes, n.id = id ∧ n.value = none) ∧ v = sh.nextVal ∧
      ∃ n' ∈ sh'.nodes, n'.id = id ∧ n'.value = some v := by
  cases i
  case setv sid sf =>
    simp only [exec, execSetv] at he
    cases hfind : findId sh.nodes sid with
    | none => simp [hfind] at he; obtain ⟨_, _, rfl⟩ := he; cases hev
    | some n0 =>
      have hfs := findId_some hfind
      cases hval : n0.value with
      | some v => simp [hfind, hval] at he; obtain ⟨_, _, rfl⟩ := he; cases hev
      | none =>
        cases sf with
        | none => simp [hfind, hval] at he; obtain ⟨_, _, rfl⟩ := he; cases hev
        | nilv sz =>
          simp [hfind, hval] at he; obtain ⟨_, _, rfl⟩ := he
          simp at hev
        | val sz =>
          simp [hfind, hval] at he; obtain ⟨rfl, _, rfl⟩ := he
          simp only [List.mem_singleton, Ev.ctor.injEq] at hev
          obtain ⟨rfl, rfl⟩ := hev
          refine ⟨⟨n0, hfs.1, hfs.2, hval⟩, rfl, ?_⟩
          refine ⟨_, mem_upd.mpr ⟨n0, hfs.1, rfl⟩, ?_⟩
          rw [if_pos hfs.2]; exact ⟨hfs.2, rfl⟩
  case delz k =>
    exfalso
    simp only [exec, execDelz] at he
    repeat' (split at he)
    all_goals (simp only [Option.some.injEq, Prod.mk.injEq, reduceCtorEq] at he)
    all_goals (obtain ⟨_, _, rfl⟩ := he)
    all_goals first
      | (cases hev; done)
      | (rcases mem_finEvents hev with ⟨_, _, h⟩ | ⟨_, _, h⟩ <;> cases h)
  case fin fid ff =>
    exfalso
    simp only [exec, execFin, execFinStale] at he
    repeat' (split at he)
    all_goals (simp only [Option.some.injEq, Prod.mk.injEq, reduceCtorEq] at he)
    all_goals (obtain ⟨_, _, rfl⟩ := he)
    all_goals first
      | (cases hev; done)
      | (obtain ⟨_, _, h⟩ := List.mem_map.mp hev; cases h; done)
      | (rcases mem_finEvents hev with ⟨_, _, h⟩ | ⟨_, _, h⟩ <;> cases h)
  all_goals (exfalso; exec_split he)
  all_goals (simp only [List.mem_cons, List.not_mem_nil, or_false] at hev)
  all_goals first
    | (cases hev; done)
    | (rcases hev with h | h <;> cases h)

/-! ### from `sysStep` to `exec` -/

/-- What a scheduling step is made of. -/
theorem sysStep_cases {g : Bool} {s s' : Sys} {a : Act} (hs : sysStep g s a = some s') :
    (∃ t c, a = .call t c ∧ s.threads[t]? = some [] ∧ emitted s a = [] ∧
        s' = { s with threads := s.threads.set t (startCall c) }) ∨
    (∃ t i rest sh' push evs, a = .step t ∧ s.threads[t]? = some (i :: rest) ∧
        exec s.sh i = some (sh', push, evs) ∧ emitted s a = evs ∧
        s' = { sh := sh', threads := s.threads.set t (push ++ rest), log := s.log ++ evs }) := by
  cases a with
  | call t c =>
    left
    simp only [sysStep] at hs
    cases ht : s.threads[t]? with
    | none => rw [ht] at hs; cases hs
    | some l =>
      cases l with
      | cons _ _ => rw [ht] at hs; cases hs
      | nil =>
        rw [ht] at hs
        simp only [Option.some.injEq] at hs
        exact ⟨t, c, rfl, ht, rfl, hs.symm⟩
  | step t =>
    right
    simp only [sysStep] at hs
    cases ht : s.threads[t]? with
    | none => rw [ht] at hs; cases hs
    | some l =>
      cases l with
      | nil => rw [ht] at hs; cases hs
      | cons i rest =>
        rw [ht] at hs
        simp only [] at hs
        by_cases hok : stepOK g s.threads i = true
        · rw [if_pos hok] at hs
          cases he : exec s.sh i with
          | none => rw [he] at hs; cases hs
          | some r =>
            obtain ⟨sh', push, evs⟩ := r
            rw [he] at hs
            simp only [Option.some.injEq] at hs
            refine ⟨t, i, rest, sh', push, evs, rfl, ht, he, ?_, hs.symm⟩
            simp only [emitted, ht, he]
        · rw [if_neg hok] at hs; cases hs

/-- The invariant seen from the executing thread. -/
theorem invP_at {g : Bool} {s : Sys} (h : Inv g s) {t : Nat} {i : Instr} {rest : List Instr}
    (ht : s.threads[t]? = some (i :: rest)) :
    InvP g s.sh (i :: (pending s).erase i) s.log ∧ (pending s).Perm (i :: (pending s).erase i) := by
  have hi : i ∈ pending s := mem_of_getElem?_flatten s.threads t _ i ht List.mem_cons_self
  have hp1 : (pending s).Perm (i :: (pending s).erase i) := List.perm_cons_erase hi
  exact ⟨invP_perm h.core hp1, hp1⟩

theorem holdsHandle_owns {id : Nat} {j : Instr} (h : holdsHandle id j = true) : owns id j = true := by
  cases j <;> simp_all [holdsHandle, owns]

theorem outstanding_le_refs (s : Sys) (id : Nat) : outstanding s id ≤ refsP s.sh (pending s) id := by
  unfold outstanding refsP
  have : (pending s).countP (holdsHandle id) ≤ (pending s).countP (owns id) :=
    List.countP_mono_left (fun j _ hj => holdsHandle_owns hj)
  omega

theorem reachable_of_runSched {g : Bool} {s s' : Sys} {sched : List Act} (hr : Reachable g s)
    (h : runSched g s sched = some s') : Reachable g s' := by
  induction sched generalizing s with
  | nil => simp only [runSched, Option.some.injEq] at h; subst h; exact hr
  | cons a as ih =>
    simp only [runSched] at h
    cases hs : sysStep g s a with
    | none => rw [hs] at h; cases h
    | some s1 => rw [hs] at h; exact ih (Reachable.step a hr hs) h

/-- The sequential API (`runInstrs`, used by the driver) is a run of the interleaving system with one thread. -/
theorem runInstrs_reachable {f : Nat} {sh sh' : Shared} {is : List Instr} {evs0 evs log : List Ev}
    (hr : Reachable false { sh := sh, threads := [is], log := log })
    (h : runInstrs f sh is evs0 = some (sh', evs)) :
    ∃ log', Reachable false { sh := sh', threads := [[]], log := log' } := by
  induction f generalizing sh is evs0 log with
  | zero => simp [runInstrs] at h
  | succ f ih =>
    cases is with
    | nil =>
      simp only [runInstrs, Option.some.injEq, Prod.mk.injEq] at h
      obtain ⟨rfl, _⟩ := h
      exact ⟨log, hr⟩
    | cons i rest =>
      simp only [runInstrs] at h
      cases he : exec sh i with
      | none => rw [he] at h; cases h
      | some r =>
        obtain ⟨sh1, push, e⟩ := r
        rw [he] at h
        refine ih (log := log ++ e) (Reachable.step (.step 0) hr ?_) h
        simp [sysStep, stepOK, he]
        cases i <;> rfl
end GoLevel.CacheM
