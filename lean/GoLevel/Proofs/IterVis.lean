import GoLevel.Proofs.IterRank
/-!
# Visible entries of a sorted raw list, by index

`Vis es seq i e`: the entry `e` at index `i` is a value with `seq ≤ seq`, and no earlier entry of its user
key has `seq ≤ seq` — in an `ecmp`-sorted list that is `isVisible`.  Core Lean only.
-/
namespace GoLevel

theorem keyTypeDel_eq : Gen.keyTypeDel = 0 := by decide
theorem keyTypeVal_eq : Gen.keyTypeVal = 1 := by decide

theorem kind_cases (e : Entry) (h : e.kind ≤ Gen.keyTypeVal) :
    e.kind = Gen.keyTypeDel ∨ e.kind = Gen.keyTypeVal := by
  rw [keyTypeVal_eq] at h; rw [keyTypeDel_eq, keyTypeVal_eq]; omega

theorem kind_del_ne_val (e : Entry) (h : e.kind = Gen.keyTypeDel) : e.kind ≠ Gen.keyTypeVal := by
  rw [h, keyTypeDel_eq, keyTypeVal_eq]; omega

section
variable {c : UCmp} (hl : LawfulUCmp c) {es : List Entry} (hs : SortedEntries c es)
include hl hs

omit hl in
theorem sorted_idx (i j : Nat) (a b : Entry) (hij : i < j) (ha : es[i]? = some a) (hb : es[j]? = some b) :
    icmp c a.key b.key = .lt := by
  have hj : j < es.length := by
    rcases Nat.lt_or_ge j es.length with hlt | hge
    · exact hlt
    · rw [List.getElem?_eq_none hge] at hb; exact absurd hb (by simp)
  have hi : i < es.length := by omega
  rw [List.getElem?_eq_getElem hi] at ha
  rw [List.getElem?_eq_getElem hj] at hb
  have := (List.pairwise_iff_getElem.1 hs) i j hi hj hij
  rw [Option.some.inj ha, Option.some.inj hb] at this
  exact this

/-- user keys do not decrease along the list -/
theorem ukey_le_idx (i j : Nat) (a b : Entry) (hij : i ≤ j) (ha : es[i]? = some a) (hb : es[j]? = some b) :
    c.cmp a.ukey b.ukey ≠ .gt := by
  rcases Nat.lt_or_ge i j with hlt | hge
  · have := sorted_idx hs i j a b hlt ha hb
    rcases (icmp_order hl _ _).1 this with h | ⟨h, _⟩
    · show c.cmp a.key.ukey b.key.ukey ≠ .gt
      rw [h]; exact fun h => Ordering.noConfusion h
    · show c.cmp a.key.ukey b.key.ukey ≠ .gt
      rw [h, hl.refl]; exact fun h => Ordering.noConfusion h
  · have : i = j := by omega
    subst this
    rw [ha] at hb; cases hb
    rw [hl.refl]; exact fun h => Ordering.noConfusion h

/-- same user key: the earlier entry has the larger packed number -/
theorem num_lt_idx (i j : Nat) (a b : Entry) (hij : i < j) (ha : es[i]? = some a) (hb : es[j]? = some b)
    (hu : a.ukey = b.ukey) : b.key.num < a.key.num := by
  have := sorted_idx hs i j a b hij ha hb
  rw [icmp_same_ukey hl a.key b.key hu, Nat.compare_eq_lt] at this
  exact this

omit hl hs in
theorem cmp_lt_ne (hl : LawfulUCmp c) (a b : Bytes) (h : c.cmp a b = .lt) : a ≠ b := by
  rintro rfl; rw [hl.refl] at h; exact Ordering.noConfusion h

omit hl hs in
theorem cmp_gt_ne (hl : LawfulUCmp c) (a b : Bytes) (h : c.cmp a b = .gt) : a ≠ b := by
  rintro rfl; rw [hl.refl] at h; exact Ordering.noConfusion h

omit hs in
/-- `a ≤ b` and `a ≠ b` give `a < b` -/
theorem cmp_lt_of_le_ne (a b : Bytes) (hle : c.cmp a b ≠ .gt) (hne : a ≠ b) : c.cmp a b = .lt := by
  cases h : c.cmp a b with
  | lt => rfl
  | eq => exact absurd (hl.eq_of _ _ h) hne
  | gt => exact absurd h hle

omit hs in
theorem cmp_lt_trans_le (a b d : Bytes) (h1 : c.cmp a b = .lt) (h2 : c.cmp b d ≠ .gt) : c.cmp a d = .lt := by
  cases h : c.cmp b d with
  | lt => exact hl.trans _ _ _ h1 h
  | eq => rw [← hl.eq_of _ _ h]; exact h1
  | gt => exact absurd h h2

omit hs in
theorem cmp_le_trans_lt (a b d : Bytes) (h1 : c.cmp a b ≠ .gt) (h2 : c.cmp b d = .lt) : c.cmp a d = .lt := by
  cases h : c.cmp a b with
  | lt => exact hl.trans _ _ _ h h2
  | eq => rw [hl.eq_of _ _ h]; exact h2
  | gt => exact absurd h h1

end

/-- no entry of user key `u` with `seq ≤ seq` before index `j` -/
def NoEarlier (es : List Entry) (seq : Nat) (j : Nat) (u : Bytes) : Prop :=
  ∀ (i : Nat) (e : Entry), i < j → es[i]? = some e → e.ukey = u → seq < e.seq

/-- the entry `e` at index `i` is what a reader at `seq` sees for its user key -/
def Vis (es : List Entry) (seq : Nat) (i : Nat) (e : Entry) : Prop :=
  e.seq ≤ seq ∧ e.kind = Gen.keyTypeVal ∧ NoEarlier es seq i e.ukey

theorem isVisible_iff {c : UCmp} (hl : LawfulUCmp c) {es : List Entry} (hs : SortedEntries c es) (seq : Nat)
    (i : Nat) (e : Entry) (he : es[i]? = some e) :
    isVisible c es seq e = true ↔ Vis es seq i e := by
  simp only [isVisible, Bool.and_eq_true, decide_eq_true_eq, List.all_eq_true, Bool.or_eq_true,
    Bool.not_eq_true', Bool.and_eq_false_iff, beq_eq_false_iff_ne, ne_eq, decide_eq_false_iff_not, Vis]
  constructor
  · rintro ⟨⟨h1, h2⟩, h3⟩
    refine ⟨h1, h2, ?_⟩
    intro i' e' hi' he' hu
    have hmem : e' ∈ es := List.mem_of_getElem? he'
    have hn := num_lt_idx hl hs i' i e' e hi' he' he hu
    rcases h3 e' hmem with (h | h) | h
    · rw [hu, hl.refl] at h; exact absurd rfl h
    · omega
    · omega
  · rintro ⟨h1, h2, h3⟩
    refine ⟨⟨h1, h2⟩, ?_⟩
    intro e' hmem
    obtain ⟨i', hi', rfl⟩ := List.getElem_of_mem hmem
    have he' : es[i']? = some es[i'] := List.getElem?_eq_getElem hi'
    by_cases hc : c.cmp es[i'].ukey e.ukey = .eq
    · have hu := hl.eq_of _ _ hc
      rcases Nat.lt_trichotomy i' i with hlt | heq | hgt
      · exact .inl (.inr (by have := h3 i' _ hlt he' hu; omega))
      · subst heq; rw [he'] at he; cases he; exact .inr (Nat.le_refl _)
      · have := num_lt_idx hl hs i i' e _ hgt he he' hu.symm
        exact .inr (by omega)
    · exact .inl (.inl hc)

end GoLevel
