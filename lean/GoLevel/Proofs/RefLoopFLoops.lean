import GoLevel.Proofs.RefLoopFRelLoop
/-! `processTasks` and one whole message over the full history (C07). -/
namespace GoLevel.RefLoop

theorem convertLoop_succ (fuel : Nat) (s : State) : convertLoop (fuel + 1) s =
    if s.next ∈ s.abandoned then
      convertLoop fuel { s with abandoned := s.abandoned.erase s.next, next := s.next + 1 }
    else if (s.released.lookup s.next).isSome then some (s, [])
    else
      match s.ref.lookup s.next with
      | none => some (s, [])
      | some files =>
        if s.last - s.next < Gen.maxCachedNumber ∧ s.next ∉ s.old then some (s, [])
        else
          match optApply (s.deltas.lookup s.next) (incrAll s.fileRef files) with
          | none => none
          | some (m2, rm) =>
            match convertLoop fuel (convState s m2) with
            | none => none
            | some (s', rm') => some (s', rm ++ rm') := rfl

theorem releaseLoop_succ (fuel : Nat) (s : State) : releaseLoop (fuel + 1) s =
    if s.next ∈ s.abandoned then
      releaseLoop fuel { s with abandoned := s.abandoned.erase s.next, next := s.next + 1 }
    else
      match s.released.lookup s.next with
      | none => some (s, [])
      | some od =>
        match optApply od s.fileRef with
        | none => none
        | some (m, rm) =>
          match releaseLoop fuel (relState s m) with
          | none => none
          | some (s', rm') => some (s', rm ++ rm') := rfl

/-- The conversion loop of `processTasks` (it never removes anything). -/
theorem convert_invF {G : EnvF} (fuel : Nat) {S : State} {R : List Nat} (hI : InvF S G) (hH : HistC S G R) :
    ∃ S', convertLoop fuel S = some (S', []) ∧ InvF S' G ∧ S.next ≤ S'.next ∧ HistC S' G R := by
  induction fuel generalizing S R with
  | zero => exact ⟨S, rfl, hI, Nat.le_refl _, hH⟩
  | succ fuel ih =>
    have stop : ∃ S', some (S, ([] : List Nat)) = some (S', []) ∧ InvF S' G ∧ S.next ≤ S'.next ∧ HistC S' G R :=
      ⟨S, rfl, hI, Nat.le_refl _, hH⟩
    rw [convertLoop_succ]
    by_cases hab : S.next ∈ S.abandoned
    · simp only [hab, if_true]
      obtain ⟨h1, h2⟩ := skip_abandonedF hI hH hab
      obtain ⟨S', h3, h4, h5, h6⟩ := ih h1 h2
      exact ⟨S', h3, h4, by have : S.next + 1 ≤ S'.next := h5; omega, h6⟩
    · simp only [hab, if_false]
      by_cases hrel : S.next ∈ G.rel
      · have : (S.released.lookup S.next).isSome = true := by rw [hI.rld]; simp [hrel]
        simp only [this, if_true]; exact stop
      · have hnone : (S.released.lookup S.next).isSome = false := by rw [hI.rld]; simp [hrel]
        simp only [hnone, Bool.false_eq_true, if_false]
        by_cases hi : G.inst S.next
        · have hlook : S.ref.lookup S.next = some (G.T S.next) := by rw [hI.ref]; simp [hi, hrel]
          simp only [hlook]
          by_cases hkeep : S.last - S.next < Gen.maxCachedNumber ∧ S.next ∉ S.old
          · simp only [hkeep, and_self, if_true, not_false_eq_true]; exact stop
          · simp only [hkeep, if_false]
            obtain ⟨m2, rm, h1, h2, h3, h4⟩ := convert_oneF hI hH hi hrel
            subst h3
            simp only [h1]
            obtain ⟨S', h5, h6, h7, h8⟩ := ih (S := convState S m2) h2 (by simpa using h4)
            simp only [h5]
            exact ⟨S', rfl, h6, by have : S.next + 1 ≤ S'.next := h7; omega, h8⟩
        · have hlook : S.ref.lookup S.next = none := by rw [hI.ref]; simp [hi]
          simp only [hlook]; exact stop

/-- The release loop of `processTasks`. -/
theorem release_invF {G : EnvF} (fuel : Nat) {S : State} {R : List Nat} (hI : InvF S G) (hG : GL G S.next)
    (hH : HistC S G R) :
    ∃ S' rm, releaseLoop fuel S = some (S', rm) ∧ InvF S' G ∧ S.next ≤ S'.next ∧ SafeF G S'.next rm ∧
      HistC S' G (R ++ rm) := by
  induction fuel generalizing S R with
  | zero => exact ⟨S, [], rfl, hI, Nat.le_refl _, safeF_nil _ _, by rw [List.append_nil]; exact hH⟩
  | succ fuel ih =>
    rw [releaseLoop_succ]
    by_cases hab : S.next ∈ S.abandoned
    · simp only [hab, if_true]
      obtain ⟨h1, h2⟩ := skip_abandonedF hI hH hab
      obtain ⟨S', rm, h3, h4, h5, h6, h7⟩ := ih h1 (gl_next hG (Nat.le_succ _)) h2
      exact ⟨S', rm, h3, h4, by have : S.next + 1 ≤ S'.next := h5; omega, h6, h7⟩
    · simp only [hab, if_false]
      by_cases hrel : S.next ∈ G.rel
      · obtain ⟨od, m, rm, h1, h2, h3, h4, h5⟩ := release_oneF hI hG hH hrel
        simp only [h1, h2]
        obtain ⟨S', rm', h6, h7, h8, h9, h10⟩ := ih (S := relState S m) h3 (gl_next hG (Nat.le_succ _)) h5
        simp only [h6]
        have h8' : S.next + 1 ≤ S'.next := h8
        exact ⟨S', rm ++ rm', rfl, h7, by omega, safeF_append (safeF_mono h8' h4) h9, by
          rw [← List.append_assoc]; exact h10⟩
      · have hlook : S.released.lookup S.next = none := by rw [hI.rld]; simp [hrel]
        simp only [hlook]
        exact ⟨S, [], rfl, hI, Nat.le_refl _, safeF_nil _ _, by rw [List.append_nil]; exact hH⟩

theorem processTasks_invF {G : EnvF} {S : State} {R : List Nat} (hI : InvF S G) (hG : GL G S.next)
    (hH : HistC S G R) :
    ∃ S' rm, processTasks S = some (S', rm) ∧ InvF S' G ∧ S.next ≤ S'.next ∧ SafeF G S'.next rm ∧
      HistC S' G (R ++ rm) := by
  obtain ⟨S1, h1, h2, h3, h3'⟩ := convert_invF (S.abandoned.length + S.ref.length + 1) hI hH
  obtain ⟨S2, rm2, h4, h5, h6, h7, h8⟩ :=
    release_invF (S1.abandoned.length + S1.released.length + 1) h2 (gl_next hG h3) h3'
  exact ⟨S2, rm2, by simp [processTasks, h1, h4], h5, by omega, h7, h8⟩

/-- The `select` case of any message of the full environment (`next` does not move). -/
theorem handle_invF {S : State} {G G' : EnvF} {m : Msg} {R : List Nat} (hI : InvF S G) (hG : GL G S.next)
    (hH : HistC S G R) (hs : EnvStepF S.next G m G') :
    ∃ S1 rm, handle S m = some (S1, rm) ∧ InvF S1 G' ∧ S1.next = S.next ∧ GL G' S.next ∧
      SafeF G' S.next rm ∧ HistC S1 G' (R ++ rm) := by
  have hw := wf_stepF hI.wf hs
  cases hs with
  | expire v =>
    have hI' : InvF { S with old := v :: S.old } G :=
      ⟨hI.wf, hI.nx, hI.ab, hI.ref, hI.rld, hI.dl, hI.rfd, hI.cnt⟩
    refine ⟨_, [], rfl, hI', rfl, hG, safeF_nil _ _, fun hc hnu => ?_⟩
    rw [List.append_nil]
    exact hist_congrF (fun f => Iff.rfl) rfl (hH hc hnu)
  | ref fs L din hc hnd hnl hsub hfirst _ hmono hleft =>
    have hL0 : G.N = 0 → L = [] := fun h => by
      have := hfirst h; subst this
      cases L with
      | nil => rfl
      | cons a _ => exact absurd (hsub a List.mem_cons_self) (by simp)
    obtain ⟨hlook, hI'⟩ := inv_refF hI hw hL0
    refine ⟨{ S with ref := (G.N, fs) :: S.ref, last := if G.N > S.last then G.N else S.last }, [],
      by simp [handle, hlook], hI' _, rfl, gl_push_inst hI hG hmono hleft, safeF_nil _ _, fun _ hnu => ?_⟩
    rw [List.append_nil]
    exact hist_congrF (acc_pushF hI (fun h => ⟨rfl, hL0 h⟩) rfl) rfl (hH hc (noReuse_push hnu))
  | abandon hc hN =>
    obtain ⟨hna, hI'⟩ := inv_abandonF hI hw hN
    refine ⟨_, [], by simp [handle, hI.nx, hna], hI', rfl, gl_push_failed hI hG hN, safeF_nil _ _,
      fun _ hnu => ?_⟩
    rw [List.append_nil]
    exact hist_congrF (acc_pushF hI (fun h => by omega) rfl) rfl (hH hc (noReuse_push hnu))
  | delta hc hlt hex hkeep =>
    obtain ⟨S1, rm, h1, h2, h3, h4⟩ := handle_deltaF hI hG hH hc hlt hex hw
    have hnx : S1.next = S.next := by
      simp only [handle] at h1
      split at h1
      · simp only [Option.some.injEq, Prod.mk.injEq] at h1; rw [← h1.1]
      · split at h1
        · split at h1
          · cases h1
          · simp only [Option.some.injEq, Prod.mk.injEq] at h1; rw [← h1.1]
        · cases h1
    refine ⟨S1, rm, h1, h2, hnx, ?_, h3, h4⟩
    exact gl_shrink hG rfl (fun _ h => h) (G.up_mono (by
      show min G.dn S.next ≤ min (G.up (G.dn + 1)) S.next
      have := G.up_ge_self (G.dn + 1); omega))
  | rel k hik hk hnot =>
    obtain ⟨S1, rm, h1, h2, h3, h4⟩ := handle_relF hI hG hH hik hnot (Or.inl hk) hw
    have hnx : S1.next = S.next := by
      simp only [handle] at h1
      split at h1
      · split at h1
        · cases h1
        · simp only [Option.some.injEq, Prod.mk.injEq] at h1; rw [← h1.1]
      · split at h1
        · simp only [Option.some.injEq, Prod.mk.injEq] at h1; rw [← h1.1]
        · cases h1
    exact ⟨S1, rm, h1, h2, hnx, gl_shrink hG rfl (fun _ h => List.mem_cons_of_mem _ h) (Nat.le_refl _), h3, h4⟩
  | relClose hc hnot =>
    have hN := (hI.wf.cls hc).1
    have hdi : G.inst G.dn := by rcases hI.wf.dn with h1 | h1; omega; exact h1
    obtain ⟨S1, rm, h1, h2, h3, h4⟩ := handle_relF hI hG hH hdi hnot (Or.inr ⟨hc, rfl⟩) hw
    have hnx : S1.next = S.next := by
      simp only [handle] at h1
      split at h1
      · split at h1
        · cases h1
        · simp only [Option.some.injEq, Prod.mk.injEq] at h1; rw [← h1.1]
      · split at h1
        · simp only [Option.some.injEq, Prod.mk.injEq] at h1; rw [← h1.1]
        · cases h1
    exact ⟨S1, rm, h1, h2, hnx, gl_shrink hG rfl (fun _ h => List.mem_cons_of_mem _ h) (Nat.le_refl _), h3, h4⟩
  | refClose hc hN hup =>
    have hwp : (G.push (.inst [] [] ⟨[], []⟩)).WF :=
      wf_push_inst hI.wf hc List.nodup_nil List.nodup_nil (fun _ hf => hf) (fun _ => rfl)
    obtain ⟨hlook, hI'⟩ := inv_refF hI hwp (fun _ => rfl)
    have hG' : GL (G.push (.inst [] [] ⟨[], []⟩)) S.next :=
      gl_push_inst hI hG (fun f hf => by cases hf) (fun f hf => by cases hf)
    refine ⟨{ S with ref := (G.N, []) :: S.ref, last := if G.N > S.last then G.N else S.last }, [],
      by simp [handle, hlook], invF_flag (hI' _) hw, rfl, ⟨hG'.gone, hG'.left⟩, safeF_nil _ _, fun hc' => ?_⟩
    cases hc'

end GoLevel.RefLoop
