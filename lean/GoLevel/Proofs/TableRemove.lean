import GoLevel.Model.TableRemove
import GoLevel.Proofs.RefLoopBasic
/-! A deferred removal never deletes a file created later under the same number, because the number is given
back (`reuseFileNum`) only inside the delete callback (C07). -/
namespace GoLevel.TableRemove
open GoLevel.RefLoop (lookup_filter_ne lookup_cons_eq)

structure Inv (s : St) : Prop where
  /-- every table number on storage has been allocated -/
  lt : ∀ p ∈ s.files, p.1 < s.next
  /-- a pending removal still names the file it was requested for -/
  pend : ∀ p ∈ s.pending, s.files.lookup p.1 = some p.2
  /-- a removal is pending only while a handle is open -/
  held : ∀ p ∈ s.pending, p.1 ∈ s.handles
  closedp : s.closed = true → s.pending = []
  log : LogOK s

theorem lookup_mem {l : List (Nat × Nat)} {n w : Nat} (h : l.lookup n = some w) : (n, w) ∈ l := by
  induction l with
  | nil => cases h
  | cons p l ih =>
    obtain ⟨a, b⟩ := p
    rw [lookup_cons_eq] at h
    by_cases hna : n = a
    · subst hna
      simp only [if_true, Option.some.injEq] at h
      subst h; exact List.mem_cons_self
    · simp only [hna, if_false] at h
      exact List.mem_cons_of_mem _ (ih h)

theorem lookup_none_ne {l : List (Nat × Nat)} {n : Nat} (h : l.lookup n = none) : ∀ p ∈ l, p.1 ≠ n := by
  induction l with
  | nil => intro p hp; cases hp
  | cons q l ih =>
    obtain ⟨a, b⟩ := q
    rw [lookup_cons_eq] at h
    by_cases hna : n = a
    · simp [hna] at h
    · simp only [hna, if_false] at h
      intro p hp
      rcases List.mem_cons.mp hp with rfl | hp
      · exact fun h1 => hna h1.symm
      · exact ih h p hp

/-- the files left when the name `n` is gone are below a reused `next` -/
theorem lt_reuse {files : List (Nat × Nat)} {next n : Nat} (h : ∀ p ∈ files, p.1 < next)
    (hn : ∀ p ∈ files, p.1 ≠ n) : ∀ p ∈ files, p.1 < reuse next n := by
  intro p hp
  unfold reuse
  split
  · have := h p hp; have := hn p hp; omega
  · exact h p hp

/-- The delete callback of the code (`Remove` then `reuseFileNum`). -/
theorem delFunc_spec (s : St) (n want : Nat) (hlt : ∀ p ∈ s.files, p.1 < s.next) (hlog : LogOK s)
    (hw : ∀ got, s.files.lookup n = some got → got = want) :
    (∀ p ∈ (delFunc true s n want).files, p.1 < (delFunc true s n want).next) ∧
    LogOK (delFunc true s n want) ∧
    (delFunc true s n want).pending = s.pending ∧ (delFunc true s n want).handles = s.handles ∧
    (delFunc true s n want).closed = s.closed ∧
    (∀ m, (delFunc true s n want).files.lookup m = if m = n then none else s.files.lookup m) := by
  unfold delFunc
  cases hl : s.files.lookup n with
  | none =>
    simp only [if_true]
    refine ⟨lt_reuse hlt (lookup_none_ne hl), hlog, trivial, trivial, trivial, fun m => ?_⟩
    by_cases hm : m = n
    · subst hm; simp [hl]
    · simp [hm]
  | some got =>
    have hg := hw got hl
    subst hg
    simp only [if_true]
    refine ⟨?_, ?_, trivial, trivial, trivial, fun m => lookup_filter_ne _ _ _⟩
    · apply lt_reuse
      · intro p hp; exact hlt p (List.mem_filter.mp hp).1
      · intro p hp; simpa using (List.mem_filter.mp hp).2
    · intro e he
      rcases List.mem_append.mp he with he | he
      · exact hlog e he
      · simp only [List.mem_singleton] at he; subst he; rfl

/-- `Cache.Close(true)`: all pending callbacks run -/
theorem fold_delFunc (ps : List (Nat × Nat)) (s : St) (hlt : ∀ p ∈ s.files, p.1 < s.next) (hlog : LogOK s)
    (hw : ∀ p ∈ ps, ∀ got, s.files.lookup p.1 = some got → got = p.2) :
    (∀ p ∈ (ps.foldl (fun a p => delFunc true a p.1 p.2) s).files,
        p.1 < (ps.foldl (fun a p => delFunc true a p.1 p.2) s).next) ∧
    LogOK (ps.foldl (fun a p => delFunc true a p.1 p.2) s) ∧
    (ps.foldl (fun a p => delFunc true a p.1 p.2) s).pending = s.pending := by
  induction ps generalizing s with
  | nil => exact ⟨hlt, hlog, rfl⟩
  | cons q ps ih =>
    obtain ⟨h1, h2, h3, _, _, h6⟩ := delFunc_spec s q.1 q.2 hlt hlog (hw q List.mem_cons_self)
    have := ih (delFunc true s q.1 q.2) h1 h2 (by
      intro p hp got hg
      rw [h6] at hg
      split at hg
      · cases hg
      · exact hw p (List.mem_cons_of_mem _ hp) got hg)
    rw [List.foldl_cons]
    exact ⟨this.1, this.2.1, by rw [this.2.2, h3]⟩

theorem step_inv {s : St} (h : Inv s) (o : Op) : Inv (step true s o) := by
  cases o with
  | create =>
    refine ⟨?_, ?_, h.held, h.closedp, h.log⟩
    · intro p hp
      show p.1 < s.next + 1
      rcases List.mem_cons.mp hp with rfl | hp
      · exact Nat.lt_succ_self _
      · have := h.lt p (List.mem_filter.mp hp).1; omega
    · intro p hp
      have h1 := h.pend p hp
      have h2 := h.lt _ (lookup_mem h1)
      show ((s.next, s.stamp) :: s.files.filter (·.1 != s.next)).lookup p.1 = some p.2
      rw [lookup_cons_eq, lookup_filter_ne]
      have : p.1 ≠ s.next := by have : p.1 < s.next := h2; omega
      simp [this, h1]
  | acquire n =>
    simp only [step]
    split
    · exact h
    · exact ⟨h.lt, h.pend, fun p hp => List.mem_cons_of_mem _ (h.held p hp), h.closedp, h.log⟩
  | release n =>
    simp only [step]
    split
    · exact h
    · split
      · rename_i hor
        refine ⟨h.lt, h.pend, ?_, h.closedp, h.log⟩
        intro p hp
        rcases hor with hor | hor
        · by_cases hpn : p.1 = n
          · rw [hpn]; exact hor
          · exact (List.mem_erase_of_ne hpn).mpr (h.held p hp)
        · have := h.closedp hor
          have hp' : p ∈ s.pending := hp
          rw [this] at hp'; cases hp'
      · rename_i hnor
        have hcl : s.closed = false := by
          cases hc : s.closed with
          | false => rfl
          | true => exact absurd (Or.inr hc) hnor
        split
        · rename_i want hw
          have hp : (n, want) ∈ s.pending := lookup_mem hw
          have hf := h.pend _ hp
          obtain ⟨h1, h2, h3, h4, h5, h6⟩ := delFunc_spec
            { s with handles := s.handles.erase n, pending := s.pending.filter (·.1 != n) } n want h.lt h.log
            (by intro got hg; rw [show s.files.lookup n = some want from hf] at hg; simpa using hg.symm)
          refine ⟨h1, ?_, ?_, ?_, h2⟩
          · intro p hp'
            rw [h3] at hp'
            obtain ⟨hp1, hp2⟩ := List.mem_filter.mp hp'
            rw [h6]
            have : p.1 ≠ n := by simpa using hp2
            simp only [this, if_false]
            exact h.pend p hp1
          · intro p hp'
            rw [h3] at hp'
            rw [h4]
            obtain ⟨hp1, hp2⟩ := List.mem_filter.mp hp'
            have : p.1 ≠ n := by simpa using hp2
            exact (List.mem_erase_of_ne this).mpr (h.held p hp1)
          · intro hc; rw [h5] at hc; rw [show s.closed = false from hcl] at hc; cases hc
        · rename_i hw
          refine ⟨h.lt, h.pend, ?_, h.closedp, h.log⟩
          intro p hp
          have hpn : p.1 ≠ n := by
            intro hpn
            have := lookup_none_ne (l := s.pending) (n := n) (by
              cases hl : s.pending.lookup n with
              | none => rfl
              | some w => exact absurd hl (by rw [show List.lookup n s.pending = _ from rfl] at *; exact fun h => by simp_all)) p hp
            exact this hpn
          exact (List.mem_erase_of_ne hpn).mpr (h.held p hp)
  | remove n =>
    simp only [step]
    split
    · exact h
    · rename_i hcl
      split
      · exact h
      · rename_i want hw
        simp only [if_true]
        split
        · rename_i hin
          split
          · exact h
          · refine ⟨h.lt, ?_, ?_, ?_, h.log⟩
            · intro p hp
              rcases List.mem_cons.mp hp with rfl | hp
              · exact hw
              · exact h.pend p hp
            · intro p hp
              rcases List.mem_cons.mp hp with rfl | hp
              · exact hin
              · exact h.held p hp
            · intro hc; exact absurd hc hcl
        · rename_i hin
          obtain ⟨h1, h2, h3, h4, h5, h6⟩ := delFunc_spec s n want h.lt h.log
            (by intro got hg; rw [hw] at hg; simpa using hg.symm)
          refine ⟨h1, ?_, ?_, ?_, h2⟩
          · intro p hp
            rw [h3] at hp
            rw [h6]
            have hne : p.1 ≠ n := fun hpn => hin (by rw [← hpn]; exact h.held p hp)
            simp only [hne, if_false]
            exact h.pend p hp
          · intro p hp; rw [h3] at hp; rw [h4]; exact h.held p hp
          · intro hc; rw [h5] at hc; exact absurd hc hcl
  | close =>
    simp only [step]
    obtain ⟨h1, h2, h3⟩ := fold_delFunc s.pending { s with pending := [], handles := [] } h.lt h.log
      (by intro p hp got hg; rw [show s.files.lookup p.1 = some p.2 from h.pend p hp] at hg; simpa using hg.symm)
    have hnil : ∀ p, p ∉ (s.pending.foldl (fun a p => delFunc true a p.1 p.2)
        { s with pending := [], handles := [] }).pending := by
      intro p hp; rw [h3] at hp; cases hp
    refine ⟨h1, fun p hp => absurd hp (hnil p), fun p hp => absurd hp (hnil p), fun _ => ?_, h2⟩
    exact List.eq_nil_iff_forall_not_mem.mpr hnil

theorem inv_init (n0 : Nat) : Inv (St.init n0) := by
  refine ⟨?_, ?_, ?_, fun _ => rfl, ?_⟩ <;> intro p hp <;> cases hp

theorem run_inv {s : St} (h : Inv s) (ops : List Op) : Inv (run true s ops) := by
  induction ops generalizing s with
  | nil => exact h
  | cons o ops ih => exact ih (step_inv h o)

/-- After `tOps.close()` nothing is removed from storage any more, whatever the reference loop requests. -/
theorem closed_removes_nothing {s : St} (h : Inv s) (hc : s.closed = true) (o : Op) :
    (step true s o).log = s.log ∧ (step true s o).closed = true ∧
      ∀ p ∈ s.files, p.1 ∈ (step true s o).files.map (·.1) := by
  have hp := h.closedp hc
  have hsame : ∀ p ∈ s.files, p.1 ∈ s.files.map (·.1) := fun p hp' => List.mem_map_of_mem hp'
  cases o with
  | create =>
    refine ⟨rfl, hc, fun p hp' => ?_⟩
    show p.1 ∈ ((s.next, s.stamp) :: s.files.filter (·.1 != s.next)).map (·.1)
    have := h.lt p hp'
    exact List.mem_map.mpr ⟨p, List.mem_cons_of_mem _ (List.mem_filter.mpr ⟨hp', by simp; omega⟩), rfl⟩
  | acquire n =>
    have : step true s (.acquire n) = s := by simp [step, hc]
    rw [this]; exact ⟨rfl, hc, hsame⟩
  | release n =>
    by_cases hn : n ∈ s.handles
    · have : step true s (.release n) = { s with handles := s.handles.erase n } := by simp [step, hc, hn]
      rw [this]; exact ⟨rfl, hc, hsame⟩
    · have : step true s (.release n) = s := by simp [step, hn]
      rw [this]; exact ⟨rfl, hc, hsame⟩
  | remove n =>
    have : step true s (.remove n) = s := by simp [step, hc]
    rw [this]; exact ⟨rfl, hc, hsame⟩
  | close =>
    have : step true s .close = { s with pending := [], handles := [], closed := true } := by
      simp [step, hp]
    rw [this]; exact ⟨rfl, rfl, hsame⟩

end GoLevel.TableRemove
