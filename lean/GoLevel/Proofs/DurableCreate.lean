import GoLevel.Proofs.DurableStepFault
/-!
The creation of the DB in front of the machine (`Dur.bigStep`): while `session.create` runs the storage holds at
most manifest 1 and no `CURRENT`, every crash image of it is "no DB" for the next `Open`
(`Cfg.manifestsAloneAreNoDB`, the repair of D12); when `SetMeta` has taken effect the storage is that of
`Dur.created`, where the invariant of the machine holds.
-/
namespace GoLevel.Dur

/-- the storage while the DB is being created -/
def CDisk (pc : CPc) (d : Disk) : Prop :=
  d.current = none ∧ d.journals = [] ∧ d.tables = [] ∧
  match pc with
  | .idle => d.manifests = [] ∨ ∃ f, d.manifests = [(1, f)]
  | .made => d.manifests = [(1, ⟨[], []⟩)]
  | .written => d.manifests = [(1, ⟨[], [snap0]⟩)]
  | .synced => d.manifests = [(1, ⟨[snap0], []⟩)]

/-- what `Open` returns when it finds no DB -/
def freshR : RState := ⟨⟨[], 0, 0, 0⟩, [], [], [], 0⟩

theorem recoverR_nodata {cfg : Cfg} (hc : cfg.manifestsAloneAreNoDB = true) {d : Disk} (h1 : d.current = none)
    (h2 : d.journals = []) (h3 : d.tables = []) : recoverR cfg d = .ok freshR := by
  unfold recoverR
  simp only [h1, h2, h3, hc, List.isEmpty_nil, Bool.and_self, Bool.not_true, if_true, Bool.false_eq_true, if_false]
  rfl

theorem CDisk.crash {pc : CPc} {d : Disk} (h : CDisk pc d) (ch : CrashChoice) : CDisk .idle (crashWith ch d) := by
  obtain ⟨h1, h2, h3, h4⟩ := h
  refine ⟨h1, by simp [crashWith, h2], by simp [crashWith, h3], ?_⟩
  show (d.manifests.map _) = [] ∨ ∃ f, (d.manifests.map _) = [(1, f)]
  cases pc <;> simp only at h4
  · rcases h4 with h4 | ⟨f, h4⟩ <;> rw [h4]
    · exact Or.inl rfl
    · exact Or.inr ⟨_, rfl⟩
  all_goals (rw [h4]; exact Or.inr ⟨_, rfl⟩)

theorem CDisk.toIdle {pc : CPc} {d : Disk} (h : CDisk pc d) : CDisk .idle d := by
  obtain ⟨h1, h2, h3, h4⟩ := h
  refine ⟨h1, h2, h3, ?_⟩
  cases pc <;> simp only at h4
  · exact h4
  all_goals exact Or.inr ⟨_, h4⟩

/-- every crash image of a storage on which the DB is being created is "no DB" -/
theorem CDisk.open_fresh {cfg : Cfg} (hc : cfg.manifestsAloneAreNoDB = true) {pc : CPc} {d : Disk} (h : CDisk pc d) :
    recoverR cfg d = .ok freshR :=
  recoverR_nodata hc h.1 h.2.1 h.2.2.1

theorem set1 (m : Files (LogFile MRec)) (h : m = [] ∨ ∃ f, m = [(1, f)]) (a : LogFile MRec) : m.set 1 a = [(1, a)] := by
  rcases h with rfl | ⟨f, rfl⟩ <;> simp [Files.set]

theorem erase1 (a : LogFile MRec) : Files.erase [(1, a)] 1 = [] := by simp [Files.erase]

/-- the cleanup of a failed `newManifest(nil, nil)`: manifest 1 is gone (or was never made) -/
theorem CDisk.undo {d : Disk} (h1 : d.current = none) (h2 : d.journals = []) (h3 : d.tables = [])
    (h4 : d.manifests = [] ∨ ∃ f, d.manifests = [(1, f)]) : CDisk .idle (d.apply (.remove .manifest 1)) := by
  refine ⟨h1, h2, h3, Or.inl ?_⟩
  show d.manifests.erase 1 = []
  rcases h4 with h4 | ⟨f, h4⟩ <;> rw [h4]
  · rfl
  · exact erase1 f

theorem inv_created (cfg : Cfg) : Inv cfg created.1 created.2 := by
  obtain ⟨a, b, c, e, f, g, h, i, k⟩ := cfg
  cases a <;> cases b <;> cases c <;> cases e <;> cases f <;> cases g <;> cases h <;> cases i <;> cases k <;> decide

theorem inv_created_crashed (cfg : Cfg) : Inv cfg { phase := .crashed } created.2 := by
  obtain ⟨a, b, c, e, f, g, h, i, k⟩ := cfg
  cases a <;> cases b <;> cases c <;> cases e <;> cases f <;> cases g <;> cases h <;> cases i <;> cases k <;> decide

/-- the invariant of the machine with the creation in front; nothing has been issued while the DB is created -/
def BigInv (cfg : Cfg) : Big → Prop
  | .creating pc d => CDisk pc d
  | .db s d => InvL cfg s d

theorem synced_setMeta {d : Disk} (h : CDisk .synced d) : d.apply (.setMeta 1) = created.2 := by
  obtain ⟨h1, h2, h3, h4⟩ := h
  obtain ⟨c, m, j, t⟩ := d
  simp only at h1 h2 h3 h4
  subst h1 h2 h3 h4
  rfl

/-- one step of the creation -/
theorem bigInv_cstep {cfg : Cfg} {pc : CPc} {d : Disk} (h : CDisk pc d) {o : Outcome} {gm : Bool}
    (hok : pc = .synced → o = .failEffect →
      (cfg.cleanupChecksCurrent && (if gm then cfg.cleanupKeepsWhenGetMetaFails else true)) = true)
    {b : Big} (hs : bigStep cfg (.creating pc d) (.c o gm) = some b) : BigInv cfg b := by
  obtain ⟨h1, h2, h3, h4⟩ := h
  cases pc with
  | idle =>
    simp only [bigStep, h1] at hs
    split at hs
    rotate_left
    · cases hs
    rename_i heq
    cases o <;> simp only [Outcome.failed, Disk.exec, Disk.apply, if_true, Bool.false_eq_true, if_false,
      Option.some.injEq] at hs <;> subst hs
    · exact ⟨h1, h2, h3, by show _ = [(1, (⟨[], []⟩ : LogFile MRec))]; exact set1 _ h4 _⟩
    · exact CDisk.undo h1 h2 h3 h4
    · exact CDisk.undo (d := { d with manifests := d.manifests.set 1 {} }) h1 h2 h3 (Or.inr ⟨_, set1 _ h4 _⟩)
  | made =>
    simp only at h4
    simp only [bigStep] at hs
    cases o <;> simp only [Outcome.failed, Disk.exec, Disk.apply, if_true, Bool.false_eq_true, if_false,
      Option.some.injEq] at hs <;> subst hs
    · exact ⟨h1, h2, h3, by show _ = [(1, (⟨[], [snap0]⟩ : LogFile MRec))]; rw [h4]; rfl⟩
    · exact CDisk.undo h1 h2 h3 (Or.inr ⟨_, h4⟩)
    · exact CDisk.undo (d := { d with manifests := d.manifests.modify 1 (·.append snap0) }) h1 h2 h3
        (Or.inr ⟨_, by rw [h4]; rfl⟩)
  | written =>
    simp only at h4
    simp only [bigStep] at hs
    cases o <;> simp only [Outcome.failed, Disk.exec, Disk.apply, if_true, Bool.false_eq_true, if_false,
      Option.some.injEq] at hs <;> subst hs
    · exact ⟨h1, h2, h3, by show _ = [(1, (⟨[snap0], []⟩ : LogFile MRec))]; rw [h4]; rfl⟩
    · exact CDisk.undo h1 h2 h3 (Or.inr ⟨_, h4⟩)
    · exact CDisk.undo (d := { d with manifests := d.manifests.modify 1 (·.sync) }) h1 h2 h3
        (Or.inr ⟨_, by rw [h4]; rfl⟩)
  | synced =>
    have hsm := synced_setMeta ⟨h1, h2, h3, h4⟩
    simp only at h4
    simp only [bigStep] at hs
    cases o with
    | ok =>
      simp only [Outcome.failed, Disk.exec, if_true, Bool.false_eq_true, if_false, Option.some.injEq,
        reduceCtorEq] at hs
      subst hs
      rw [hsm]
      exact ⟨inv_created cfg, Or.inl rfl⟩
    | failNoEffect =>
      simp only [Outcome.failed, Disk.exec, if_true] at hs
      have A : BigInv cfg (Big.creating CPc.idle d) := CDisk.toIdle (pc := .synced) ⟨h1, h2, h3, h4⟩
      have B : BigInv cfg (Big.creating CPc.idle (d.apply (Op.remove FKind.manifest 1))) :=
        CDisk.undo h1 h2 h3 (Or.inr ⟨_, h4⟩)
      repeat' split at hs
      all_goals first
        | (simp only [Option.some.injEq] at hs; subst hs; first | exact A | exact B)
        | (rename_i hx; cases hx)
        | (rename_i hx _; cases hx)
        | (rename_i hx _ _; cases hx)
    | failEffect =>
      have hk := hok rfl rfl
      simp only [Outcome.failed, Disk.exec, if_true, decide_true] at hs
      rw [if_pos hk] at hs
      simp only [Option.some.injEq] at hs
      subst hs
      rw [hsm]
      exact ⟨inv_created_crashed cfg, Or.inl rfl⟩

theorem bigInv_init0 (cfg : Cfg) : BigInv cfg init0 := ⟨rfl, rfl, rfl, Or.inl rfl⟩

/-- the invariant along a run of the machine with the creation in front: `P` are the admitted faults of the DB's
    actions (`hstep`: they preserve the invariant of the machine), `Q` those of the creation -/
theorem bigInv_run {cfg : Cfg} {P : St × Disk → Act → Bool} {Q : CPc → Outcome → Bool → Bool}
    (hstep : ∀ s d a s' d', InvL cfg s d → P (s, d) a = true → step cfg s d a = some (s', d') → InvL cfg s' d')
    (hQ : ∀ pc o gm, Q pc o gm = true → pc = .synced → o = .failEffect →
      (cfg.cleanupChecksCurrent && (if gm then cfg.cleanupKeepsWhenGetMetaFails else true)) = true)
    {b b' : Big} (h : BigInv cfg b) (xs : List BAct)
    (hal : bigAllowed cfg P Q b xs = true) (hr : bigRun cfg b xs = some b') : BigInv cfg b' := by
  induction xs generalizing b with
  | nil => simp only [bigRun, Option.some.injEq] at hr; subst hr; exact h
  | cons x xs ih =>
    simp only [bigRun] at hr
    unfold bigAllowed at hal
    rw [Bool.and_eq_true] at hal
    obtain ⟨hx, hrest⟩ := hal
    cases hs : bigStep cfg b x with
    | none => rw [hs] at hr; cases hr
    | some b1 =>
      rw [hs] at hr hrest
      simp only at hr hrest
      refine ih ?_ hrest hr
      cases b with
      | creating pc d =>
        cases x with
        | c o gm => exact bigInv_cstep h (hQ pc o gm hx) hs
        | ccrash ch =>
          simp only [bigStep, Option.some.injEq] at hs
          subst hs
          exact CDisk.crash h ch
        | a act => simp [bigStep] at hs
      | db s d =>
        cases x with
        | a act =>
          simp only [bigStep, Option.map_eq_some_iff] at hs
          obtain ⟨sd, hsd, rfl⟩ := hs
          exact hstep s d act sd.1 sd.2 h hx hsd
        | c o gm => simp [bigStep] at hs
        | ccrash ch => simp [bigStep] at hs

/-- every crash image of every state of the machine with the creation in front opens: as "no DB" while the DB is
    being created, with everything that must survive afterwards -/
theorem BigInv.open_ok {cfg : Cfg} (hn : cfg.failedRecordLeavesNoTrace = true) (hc : cfg.manifestsAloneAreNoDB = true)
    {b : Big} (h : BigInv cfg b) (ch : CrashChoice) :
    ∃ r, recoverR cfg (crashWith ch b.disk) = .ok r ∧ GoodOpen (must b.st) (issuedGrps b.st) r := by
  cases b with
  | creating pc d =>
    refine ⟨freshR, (CDisk.crash h ch).open_fresh hc, ?_⟩
    constructor <;> intro g hg <;> cases hg
  | db s d => exact ((h : InvL cfg s d).1.disk.crash hn ch).open_ok

end GoLevel.Dur
