import GoLevel.Proofs.LocksProgress
import GoLevel.Proofs.LocksNoSR
import GoLevel.Proofs.LocksNoCorr
/-! The exact accounting of the write-lock token (`TokE`: the token is in `writeLockC` iff exactly one owner
claims it), for the machine as coded.

Both take-backs of `compWriteLocking` are blind (`SetReadOnly`: `select { case <-db.writeLockC: default: }`,
`compactionError`: `<-db.writeLockC`).  They find the token they are meant for
* while the DB is open (`step_openE`: neither can run before `Close` has closed `closeC`), and
* in runs without corruption errors (`step_exactJ`): then `compactionError` enters `hasperr` only through a
  `SetReadOnly` that hands its token over, so that no `SetReadOnly` is between its two `select`s while the
  machine is in `hasperr` (`ExactJ`).
Before 832d000, with a corruption error the two could both be poised to take the one token back; see
`Props/C09.lean`, `write_lock_lost`.  Since 832d000 (`Cfg.HandsOver`) `compWriteLocking` is set only by
`compactionError` itself — when it takes `ErrReadOnly` from a `SetReadOnly` that thereby hands its token over,
or when it puts its own token into `writeLockC` — and a `SetReadOnly` that gives up takes its own token back:
the accounting is exact in every run (`step_exactH`). -/
namespace GoLevel.Locks
open CompErr
set_option linter.unusedSimpArgs false

/-- `closeC` is never reopened -/
theorem step_closed (cfg : Cfg) (s t : St) (f : Bool) (h : Step cfg f s t) (hc : s.closed = true) : t.closed = true := by
  cases h <;> (try simp only [St.setDone, St.setBg]) <;> (repeat' split) <;> simp_all

theorem step_openE (cfg : Cfg) (h3 : Fixed3 cfg) (s t : St) (f : Bool)
    (h4 : cfg.setReadOnlyReleasesOnClose = true ∨ NoSR s) (ia : PInvA s) (ie : PInvE s) (h : Step cfg f s t)
    (inv : OpenE s) : OpenE t := by
  intro hc
  have hcs : s.closed = false := by
    cases hs : s.closed with
    | false => rfl
    | true => rw [step_closed cfg s t f h hs] at hc; cases hc
  refine step_tokE s t f cfg h3 h4 (fun hp => ?_) (fun h => ?_) h (inv hcs)
  · have := ie.1 hcs
    cases hk : s.ehTok with
    | true => rfl
    | false => rw [hk] at this; simp only [b2n_false] at this; omega
  · have := ia.2.2.2.1 h
    rw [hcs] at this; cases this

/-- in runs without corruption errors: `compactionError` in (or leaving) `hasperr` has the token and no
`SetReadOnly` is between its two `select`s; a `SetReadOnly` between its two `select`s has its token -/
def JInv (s : St) : Prop :=
  ((s.eh = .hasperr ∨ s.eh = .closing) → s.ehTok = true ∧ tot srW s.ws = 0) ∧ tot srW s.ws ≤ b2n s.ehTok

theorem step_jinv (s t : St) (f : Bool) (cfg : Cfg) (hm : cfg.m = .asCoded cfg.closeSel)
    (h4 : cfg.setReadOnlyReleasesOnClose = true ∨ NoSR s) (nc : NoCorr s) (hE : TokE s)
    (h : Step cfg f s t) (inv : JInv s) : JInv t := by
  unfold JInv TokE NoCorr at *
  obtain ⟨j2, j3⟩ := inv
  obtain ⟨n1, n2, n3⟩ := nc
  have c1 := b2n_le s.trOpen
  have c2 := b2n_le s.ehTok
  have c3 := b2n_le s.closeTok
  have c4 := b2n_le s.tok
  cases h with
  | startPut _ i hi =>
    clear h4
    have l0 := le_tot srW _ _ _ hi
    have l1 := le_tot tokW _ _ _ hi
    (try simp only [St.setDone, St.setBg, ↓reduceIte, Bool.false_eq_true, Bool.and_false, Bool.and_true, Bool.false_and, Bool.true_and]) <;> (repeat' split) <;> simp_all [tot_set_eq _ _ _ _ _ hi, tot_ackWs_srw', tot_ackWs_tok, b2n_true, b2n_false, srW, tokW, St.bg, onOk, onErr, selNext, afterSetErr, srAllW, nextC, corrB, corrPh_run] <;> (try omega) <;> (try (cases hk : s.ehTok <;> simp_all [b2n_true, b2n_false] <;> omega))
  | startWrite _ i hi =>
    clear h4
    have l0 := le_tot srW _ _ _ hi
    have l1 := le_tot tokW _ _ _ hi
    (try simp only [St.setDone, St.setBg, ↓reduceIte, Bool.false_eq_true, Bool.and_false, Bool.and_true, Bool.false_and, Bool.true_and]) <;> (repeat' split) <;> simp_all [tot_set_eq _ _ _ _ _ hi, tot_ackWs_srw', tot_ackWs_tok, b2n_true, b2n_false, srW, tokW, St.bg, onOk, onErr, selNext, afterSetErr, srAllW, nextC, corrB, corrPh_run] <;> (try omega) <;> (try (cases hk : s.ehTok <;> simp_all [b2n_true, b2n_false] <;> omega))
  | startOtx _ i hi =>
    clear h4
    have l0 := le_tot srW _ _ _ hi
    have l1 := le_tot tokW _ _ _ hi
    (try simp only [St.setDone, St.setBg, ↓reduceIte, Bool.false_eq_true, Bool.and_false, Bool.and_true, Bool.false_and, Bool.true_and]) <;> (repeat' split) <;> simp_all [tot_set_eq _ _ _ _ _ hi, tot_ackWs_srw', tot_ackWs_tok, b2n_true, b2n_false, srW, tokW, St.bg, onOk, onErr, selNext, afterSetErr, srAllW, nextC, corrB, corrPh_run] <;> (try omega) <;> (try (cases hk : s.ehTok <;> simp_all [b2n_true, b2n_false] <;> omega))
  | startCommit _ i hi hu =>
    clear h4
    have l0 := le_tot srW _ _ _ hi
    have l1 := le_tot tokW _ _ _ hi
    (try simp only [St.setDone, St.setBg, ↓reduceIte, Bool.false_eq_true, Bool.and_false, Bool.and_true, Bool.false_and, Bool.true_and]) <;> (repeat' split) <;> simp_all [tot_set_eq _ _ _ _ _ hi, tot_ackWs_srw', tot_ackWs_tok, b2n_true, b2n_false, srW, tokW, St.bg, onOk, onErr, selNext, afterSetErr, srAllW, nextC, corrB, corrPh_run] <;> (try omega) <;> (try (cases hk : s.ehTok <;> simp_all [b2n_true, b2n_false] <;> omega))
  | startDiscard _ i hi hu =>
    clear h4
    have l0 := le_tot srW _ _ _ hi
    have l1 := le_tot tokW _ _ _ hi
    (try simp only [St.setDone, St.setBg, ↓reduceIte, Bool.false_eq_true, Bool.and_false, Bool.and_true, Bool.false_and, Bool.true_and]) <;> (repeat' split) <;> simp_all [tot_set_eq _ _ _ _ _ hi, tot_ackWs_srw', tot_ackWs_tok, b2n_true, b2n_false, srW, tokW, St.bg, onOk, onErr, selNext, afterSetErr, srAllW, nextC, corrB, corrPh_run] <;> (try omega) <;> (try (cases hk : s.ehTok <;> simp_all [b2n_true, b2n_false] <;> omega))
  | startCR _ i hi =>
    clear h4
    have l0 := le_tot srW _ _ _ hi
    have l1 := le_tot tokW _ _ _ hi
    (try simp only [St.setDone, St.setBg, ↓reduceIte, Bool.false_eq_true, Bool.and_false, Bool.and_true, Bool.false_and, Bool.true_and]) <;> (repeat' split) <;> simp_all [tot_set_eq _ _ _ _ _ hi, tot_ackWs_srw', tot_ackWs_tok, b2n_true, b2n_false, srW, tokW, St.bg, onOk, onErr, selNext, afterSetErr, srAllW, nextC, corrB, corrPh_run] <;> (try omega) <;> (try (cases hk : s.ehTok <;> simp_all [b2n_true, b2n_false] <;> omega))
  | startSR _ i hi ha =>
    clear h4
    have l0 := le_tot srW _ _ _ hi
    have l1 := le_tot tokW _ _ _ hi
    (try simp only [St.setDone, St.setBg, ↓reduceIte, Bool.false_eq_true, Bool.and_false, Bool.and_true, Bool.false_and, Bool.true_and]) <;> (repeat' split) <;> simp_all [tot_set_eq _ _ _ _ _ hi, tot_ackWs_srw', tot_ackWs_tok, b2n_true, b2n_false, srW, tokW, St.bg, onOk, onErr, selNext, afterSetErr, srAllW, nextC, corrB, corrPh_run] <;> (try omega) <;> (try (cases hk : s.ehTok <;> simp_all [b2n_true, b2n_false] <;> omega))
  | startClose _ i hi =>
    clear h4
    have l0 := le_tot srW _ _ _ hi
    have l1 := le_tot tokW _ _ _ hi
    (try simp only [St.setDone, St.setBg, ↓reduceIte, Bool.false_eq_true, Bool.and_false, Bool.and_true, Bool.false_and, Bool.true_and]) <;> (repeat' split) <;> simp_all [tot_set_eq _ _ _ _ _ hi, tot_ackWs_srw', tot_ackWs_tok, b2n_true, b2n_false, srW, tokW, St.bg, onOk, onErr, selNext, afterSetErr, srAllW, nextC, corrB, corrPh_run] <;> (try omega) <;> (try (cases hk : s.ehTok <;> simp_all [b2n_true, b2n_false] <;> omega))
  | selTok _ i p q hi hq ht =>
    clear h4
    have l0 := le_tot srW _ _ _ hi
    have l1 := le_tot tokW _ _ _ hi
    cases p <;> simp only [selNext] at hq <;> (try contradiction) <;> cases hq <;> simp_all [tot_set_eq _ _ _ _ _ hi, tot_ackWs_srw', tot_ackWs_tok, b2n_true, b2n_false, srW, tokW, St.bg, onOk, onErr, selNext, afterSetErr, srAllW, nextC, corrB, corrPh_run] <;> (try omega) <;> (try (cases hk : s.ehTok <;> simp_all [b2n_true, b2n_false] <;> omega))
  | selPerErr _ i p q hi hq he =>
    clear h4
    have l0 := le_tot srW _ _ _ hi
    have l1 := le_tot tokW _ _ _ hi
    cases p <;> simp only [selNext] at hq <;> (try contradiction) <;> cases hq <;> simp_all [tot_set_eq _ _ _ _ _ hi, tot_ackWs_srw', tot_ackWs_tok, b2n_true, b2n_false, srW, tokW, St.bg, onOk, onErr, selNext, afterSetErr, srAllW, nextC, corrB, corrPh_run] <;> (try omega) <;> (try (cases hk : s.ehTok <;> simp_all [b2n_true, b2n_false] <;> omega))
  | selClosed _ i p q hi hq hc =>
    clear h4
    have l0 := le_tot srW _ _ _ hi
    have l1 := le_tot tokW _ _ _ hi
    cases p <;> simp only [selNext] at hq <;> (try contradiction) <;> cases hq <;> simp_all [tot_set_eq _ _ _ _ _ hi, tot_ackWs_srw', tot_ackWs_tok, b2n_true, b2n_false, srW, tokW, St.bg, onOk, onErr, selNext, afterSetErr, srAllW, nextC, corrB, corrPh_run] <;> (try omega) <;> (try (cases hk : s.ehTok <;> simp_all [b2n_true, b2n_false] <;> omega))
  | putNoWait _ i hi =>
    clear h4
    have l0 := le_tot srW _ _ _ hi
    have l1 := le_tot tokW _ _ _ hi
    (try simp only [St.setDone, St.setBg, ↓reduceIte, Bool.false_eq_true, Bool.and_false, Bool.and_true, Bool.false_and, Bool.true_and]) <;> (repeat' split) <;> simp_all [tot_set_eq _ _ _ _ _ hi, tot_ackWs_srw', tot_ackWs_tok, b2n_true, b2n_false, srW, tokW, St.bg, onOk, onErr, selNext, afterSetErr, srAllW, nextC, corrB, corrPh_run] <;> (try omega) <;> (try (cases hk : s.ehTok <;> simp_all [b2n_true, b2n_false] <;> omega))
  | putWait _ i b hi =>
    clear h4
    have l0 := le_tot srW _ _ _ hi
    have l1 := le_tot tokW _ _ _ hi
    cases b <;> (try simp only [St.setDone, St.setBg, ↓reduceIte, Bool.false_eq_true, Bool.and_false, Bool.and_true, Bool.false_and, Bool.true_and]) <;> (repeat' split) <;> simp_all [tot_set_eq _ _ _ _ _ hi, tot_ackWs_srw', tot_ackWs_tok, b2n_true, b2n_false, srW, tokW, St.bg, onOk, onErr, selNext, afterSetErr, srAllW, nextC, corrB, corrPh_run] <;> (try omega) <;> (try (cases hk : s.ehTok <;> simp_all [b2n_true, b2n_false] <;> omega))
  | putJournalOk _ i hi =>
    clear h4
    have l0 := le_tot srW _ _ _ hi
    have l1 := le_tot tokW _ _ _ hi
    (try simp only [St.setDone, St.setBg, ↓reduceIte, Bool.false_eq_true, Bool.and_false, Bool.and_true, Bool.false_and, Bool.true_and]) <;> (repeat' split) <;> simp_all [tot_set_eq _ _ _ _ _ hi, tot_ackWs_srw', tot_ackWs_tok, b2n_true, b2n_false, srW, tokW, St.bg, onOk, onErr, selNext, afterSetErr, srAllW, nextC, corrB, corrPh_run] <;> (try omega) <;> (try (cases hk : s.ehTok <;> simp_all [b2n_true, b2n_false] <;> omega))
  | putJournalFail _ i hi =>
    clear h4
    have l0 := le_tot srW _ _ _ hi
    have l1 := le_tot tokW _ _ _ hi
    (try simp only [St.setDone, St.setBg, ↓reduceIte, Bool.false_eq_true, Bool.and_false, Bool.and_true, Bool.false_and, Bool.true_and]) <;> (repeat' split) <;> simp_all [tot_set_eq _ _ _ _ _ hi, tot_ackWs_srw', tot_ackWs_tok, b2n_true, b2n_false, srW, tokW, St.bg, onOk, onErr, selNext, afterSetErr, srAllW, nextC, corrB, corrPh_run] <;> (try omega) <;> (try (cases hk : s.ehTok <;> simp_all [b2n_true, b2n_false] <;> omega))
  | putUnlock _ i r hi =>
    clear h4
    have l0 := le_tot srW _ _ _ hi
    have l1 := le_tot tokW _ _ _ hi
    cases r <;> (try simp only [St.setDone, St.setBg, ↓reduceIte, Bool.false_eq_true, Bool.and_false, Bool.and_true, Bool.false_and, Bool.true_and]) <;> (repeat' split) <;> simp_all [tot_set_eq _ _ _ _ _ hi, tot_ackWs_srw', tot_ackWs_tok, b2n_true, b2n_false, srW, tokW, St.bg, onOk, onErr, selNext, afterSetErr, srAllW, nextC, corrB, corrPh_run] <;> (try omega) <;> (try (cases hk : s.ehTok <;> simp_all [b2n_true, b2n_false] <;> omega))
  | cwSendGo _ i b site lg hi hb hro =>
    clear h4
    have l0 := le_tot srW _ _ _ hi
    have l1 := le_tot tokW _ _ _ hi
    cases site <;> cases b <;> cases lg <;> (try simp only [St.setDone, St.setBg, ↓reduceIte, Bool.false_eq_true, Bool.and_false, Bool.and_true, Bool.false_and, Bool.true_and]) <;> (repeat' split) <;> simp_all [tot_set_eq _ _ _ _ _ hi, tot_ackWs_srw', tot_ackWs_tok, b2n_true, b2n_false, srW, tokW, St.bg, onOk, onErr, selNext, afterSetErr, srAllW, nextC, corrB, corrPh_run] <;> (try omega) <;> (try (cases hk : s.ehTok <;> simp_all [b2n_true, b2n_false] <;> omega))
  | cwSendRO _ i site lg hi hb hp hro =>
    clear h4
    have l0 := le_tot srW _ _ _ hi
    have l1 := le_tot tokW _ _ _ hi
    cases site <;> cases lg <;> (try simp only [St.setDone, St.setBg, ↓reduceIte, Bool.false_eq_true, Bool.and_false, Bool.and_true, Bool.false_and, Bool.true_and]) <;> (repeat' split) <;> simp_all [tot_set_eq _ _ _ _ _ hi, tot_ackWs_srw', tot_ackWs_tok, b2n_true, b2n_false, srW, tokW, St.bg, onOk, onErr, selNext, afterSetErr, srAllW, nextC, corrB, corrPh_run] <;> (try omega) <;> (try (cases hk : s.ehTok <;> simp_all [b2n_true, b2n_false] <;> omega))
  | cwSendErr _ i b site lg hi he =>
    clear h4
    have l0 := le_tot srW _ _ _ hi
    have l1 := le_tot tokW _ _ _ hi
    cases site <;> cases b <;> cases lg <;> (try simp only [St.setDone, St.setBg, ↓reduceIte, Bool.false_eq_true, Bool.and_false, Bool.and_true, Bool.false_and, Bool.true_and]) <;> (repeat' split) <;> simp_all [tot_set_eq _ _ _ _ _ hi, tot_ackWs_srw', tot_ackWs_tok, b2n_true, b2n_false, srW, tokW, St.bg, onOk, onErr, selNext, afterSetErr, srAllW, nextC, corrB, corrPh_run] <;> (try omega) <;> (try (cases hk : s.ehTok <;> simp_all [b2n_true, b2n_false] <;> omega))
  | cwAckErr _ i b site lg hi he =>
    clear h4
    have l0 := le_tot srW _ _ _ hi
    have l1 := le_tot tokW _ _ _ hi
    cases site <;> cases b <;> cases lg <;> (try simp only [St.setDone, St.setBg, ↓reduceIte, Bool.false_eq_true, Bool.and_false, Bool.and_true, Bool.false_and, Bool.true_and]) <;> (repeat' split) <;> simp_all [tot_set_eq _ _ _ _ _ hi, tot_ackWs_srw', tot_ackWs_tok, b2n_true, b2n_false, srW, tokW, St.bg, onOk, onErr, selNext, afterSetErr, srAllW, nextC, corrB, corrPh_run] <;> (try omega) <;> (try (cases hk : s.ehTok <;> simp_all [b2n_true, b2n_false] <;> omega))
  | otxRotate _ i lg hi =>
    clear h4
    have l0 := le_tot srW _ _ _ hi
    have l1 := le_tot tokW _ _ _ hi
    cases lg <;> (try simp only [St.setDone, St.setBg, ↓reduceIte, Bool.false_eq_true, Bool.and_false, Bool.and_true, Bool.false_and, Bool.true_and]) <;> (repeat' split) <;> simp_all [tot_set_eq _ _ _ _ _ hi, tot_ackWs_srw', tot_ackWs_tok, b2n_true, b2n_false, srW, tokW, St.bg, onOk, onErr, selNext, afterSetErr, srAllW, nextC, corrB, corrPh_run] <;> (try omega) <;> (try (cases hk : s.ehTok <;> simp_all [b2n_true, b2n_false] <;> omega))
  | otxNoRotate _ i lg hi =>
    clear h4
    have l0 := le_tot srW _ _ _ hi
    have l1 := le_tot tokW _ _ _ hi
    cases lg <;> (try simp only [St.setDone, St.setBg, ↓reduceIte, Bool.false_eq_true, Bool.and_false, Bool.and_true, Bool.false_and, Bool.true_and]) <;> (repeat' split) <;> simp_all [tot_set_eq _ _ _ _ _ hi, tot_ackWs_srw', tot_ackWs_tok, b2n_true, b2n_false, srW, tokW, St.bg, onOk, onErr, selNext, afterSetErr, srAllW, nextC, corrB, corrPh_run] <;> (try omega) <;> (try (cases hk : s.ehTok <;> simp_all [b2n_true, b2n_false] <;> omega))
  | otxNewMemOk _ i lg hi =>
    clear h4
    have l0 := le_tot srW _ _ _ hi
    have l1 := le_tot tokW _ _ _ hi
    cases lg <;> (try simp only [St.setDone, St.setBg, ↓reduceIte, Bool.false_eq_true, Bool.and_false, Bool.and_true, Bool.false_and, Bool.true_and]) <;> (repeat' split) <;> simp_all [tot_set_eq _ _ _ _ _ hi, tot_ackWs_srw', tot_ackWs_tok, b2n_true, b2n_false, srW, tokW, St.bg, onOk, onErr, selNext, afterSetErr, srAllW, nextC, corrB, corrPh_run] <;> (try omega) <;> (try (cases hk : s.ehTok <;> simp_all [b2n_true, b2n_false] <;> omega))
  | otxNewMemFail _ i lg hi =>
    clear h4
    have l0 := le_tot srW _ _ _ hi
    have l1 := le_tot tokW _ _ _ hi
    cases lg <;> (try simp only [St.setDone, St.setBg, ↓reduceIte, Bool.false_eq_true, Bool.and_false, Bool.and_true, Bool.false_and, Bool.true_and]) <;> (repeat' split) <;> simp_all [tot_set_eq _ _ _ _ _ hi, tot_ackWs_srw', tot_ackWs_tok, b2n_true, b2n_false, srW, tokW, St.bg, onOk, onErr, selNext, afterSetErr, srAllW, nextC, corrB, corrPh_run] <;> (try omega) <;> (try (cases hk : s.ehTok <;> simp_all [b2n_true, b2n_false] <;> omega))
  | otxNoWaitComp _ i lg hi =>
    clear h4
    have l0 := le_tot srW _ _ _ hi
    have l1 := le_tot tokW _ _ _ hi
    cases lg <;> (try simp only [St.setDone, St.setBg, ↓reduceIte, Bool.false_eq_true, Bool.and_false, Bool.and_true, Bool.false_and, Bool.true_and]) <;> (repeat' split) <;> simp_all [tot_set_eq _ _ _ _ _ hi, tot_ackWs_srw', tot_ackWs_tok, b2n_true, b2n_false, srW, tokW, St.bg, onOk, onErr, selNext, afterSetErr, srAllW, nextC, corrB, corrPh_run] <;> (try omega) <;> (try (cases hk : s.ehTok <;> simp_all [b2n_true, b2n_false] <;> omega))
  | otxWaitComp _ i lg hi =>
    clear h4
    have l0 := le_tot srW _ _ _ hi
    have l1 := le_tot tokW _ _ _ hi
    cases lg <;> (try simp only [St.setDone, St.setBg, ↓reduceIte, Bool.false_eq_true, Bool.and_false, Bool.and_true, Bool.false_and, Bool.true_and]) <;> (repeat' split) <;> simp_all [tot_set_eq _ _ _ _ _ hi, tot_ackWs_srw', tot_ackWs_tok, b2n_true, b2n_false, srW, tokW, St.bg, onOk, onErr, selNext, afterSetErr, srAllW, nextC, corrB, corrPh_run] <;> (try omega) <;> (try (cases hk : s.ehTok <;> simp_all [b2n_true, b2n_false] <;> omega))
  | otxFail _ i lg hi =>
    clear h4
    have l0 := le_tot srW _ _ _ hi
    have l1 := le_tot tokW _ _ _ hi
    cases lg <;> (try simp only [St.setDone, St.setBg, ↓reduceIte, Bool.false_eq_true, Bool.and_false, Bool.and_true, Bool.false_and, Bool.true_and]) <;> (repeat' split) <;> simp_all [tot_set_eq _ _ _ _ _ hi, tot_ackWs_srw', tot_ackWs_tok, b2n_true, b2n_false, srW, tokW, St.bg, onOk, onErr, selNext, afterSetErr, srAllW, nextC, corrB, corrPh_run] <;> (try omega) <;> (try (cases hk : s.ehTok <;> simp_all [b2n_true, b2n_false] <;> omega))
  | otxRel _ i lg hi =>
    clear h4
    have l0 := le_tot srW _ _ _ hi
    have l1 := le_tot tokW _ _ _ hi
    cases lg <;> (try simp only [St.setDone, St.setBg, ↓reduceIte, Bool.false_eq_true, Bool.and_false, Bool.and_true, Bool.false_and, Bool.true_and]) <;> (repeat' split) <;> simp_all [tot_set_eq _ _ _ _ _ hi, tot_ackWs_srw', tot_ackWs_tok, b2n_true, b2n_false, srW, tokW, St.bg, onOk, onErr, selNext, afterSetErr, srAllW, nextC, corrB, corrPh_run] <;> (try omega) <;> (try (cases hk : s.ehTok <;> simp_all [b2n_true, b2n_false] <;> omega))
  | otxDone _ i lg hi =>
    clear h4
    have l0 := le_tot srW _ _ _ hi
    have l1 := le_tot tokW _ _ _ hi
    cases lg <;> (try simp only [St.setDone, St.setBg, ↓reduceIte, Bool.false_eq_true, Bool.and_false, Bool.and_true, Bool.false_and, Bool.true_and]) <;> (repeat' split) <;> simp_all [tot_set_eq _ _ _ _ _ hi, tot_ackWs_srw', tot_ackWs_tok, b2n_true, b2n_false, srW, tokW, St.bg, onOk, onErr, selNext, afterSetErr, srAllW, nextC, corrB, corrPh_run] <;> (try omega) <;> (try (cases hk : s.ehTok <;> simp_all [b2n_true, b2n_false] <;> omega))
  | lgWriteOk _ i hi =>
    clear h4
    have l0 := le_tot srW _ _ _ hi
    have l1 := le_tot tokW _ _ _ hi
    (try simp only [St.setDone, St.setBg, ↓reduceIte, Bool.false_eq_true, Bool.and_false, Bool.and_true, Bool.false_and, Bool.true_and]) <;> (repeat' split) <;> simp_all [tot_set_eq _ _ _ _ _ hi, tot_ackWs_srw', tot_ackWs_tok, b2n_true, b2n_false, srW, tokW, St.bg, onOk, onErr, selNext, afterSetErr, srAllW, nextC, corrB, corrPh_run] <;> (try omega) <;> (try (cases hk : s.ehTok <;> simp_all [b2n_true, b2n_false] <;> omega))
  | lgWriteFail _ i hi =>
    clear h4
    have l0 := le_tot srW _ _ _ hi
    have l1 := le_tot tokW _ _ _ hi
    (try simp only [St.setDone, St.setBg, ↓reduceIte, Bool.false_eq_true, Bool.and_false, Bool.and_true, Bool.false_and, Bool.true_and]) <;> (repeat' split) <;> simp_all [tot_set_eq _ _ _ _ _ hi, tot_ackWs_srw', tot_ackWs_tok, b2n_true, b2n_false, srW, tokW, St.bg, onOk, onErr, selNext, afterSetErr, srAllW, nextC, corrB, corrPh_run] <;> (try omega) <;> (try (cases hk : s.ehTok <;> simp_all [b2n_true, b2n_false] <;> omega))
  | cmLockTr _ i lg hi hl =>
    clear h4
    have l0 := le_tot srW _ _ _ hi
    have l1 := le_tot tokW _ _ _ hi
    cases lg <;> (try simp only [St.setDone, St.setBg, ↓reduceIte, Bool.false_eq_true, Bool.and_false, Bool.and_true, Bool.false_and, Bool.true_and]) <;> (repeat' split) <;> simp_all [tot_set_eq _ _ _ _ _ hi, tot_ackWs_srw', tot_ackWs_tok, b2n_true, b2n_false, srW, tokW, St.bg, onOk, onErr, selNext, afterSetErr, srAllW, nextC, corrB, corrPh_run] <;> (try omega) <;> (try (cases hk : s.ehTok <;> simp_all [b2n_true, b2n_false] <;> omega))
  | cmFlushOk _ i lg hi =>
    clear h4
    have l0 := le_tot srW _ _ _ hi
    have l1 := le_tot tokW _ _ _ hi
    cases lg <;> (try simp only [St.setDone, St.setBg, ↓reduceIte, Bool.false_eq_true, Bool.and_false, Bool.and_true, Bool.false_and, Bool.true_and]) <;> (repeat' split) <;> simp_all [tot_set_eq _ _ _ _ _ hi, tot_ackWs_srw', tot_ackWs_tok, b2n_true, b2n_false, srW, tokW, St.bg, onOk, onErr, selNext, afterSetErr, srAllW, nextC, corrB, corrPh_run] <;> (try omega) <;> (try (cases hk : s.ehTok <;> simp_all [b2n_true, b2n_false] <;> omega))
  | cmFlushEmpty _ i lg hi =>
    clear h4
    have l0 := le_tot srW _ _ _ hi
    have l1 := le_tot tokW _ _ _ hi
    cases lg <;> (try simp only [St.setDone, St.setBg, ↓reduceIte, Bool.false_eq_true, Bool.and_false, Bool.and_true, Bool.false_and, Bool.true_and]) <;> (repeat' split) <;> simp_all [tot_set_eq _ _ _ _ _ hi, tot_ackWs_srw', tot_ackWs_tok, b2n_true, b2n_false, srW, tokW, St.bg, onOk, onErr, selNext, afterSetErr, srAllW, nextC, corrB, corrPh_run] <;> (try omega) <;> (try (cases hk : s.ehTok <;> simp_all [b2n_true, b2n_false] <;> omega))
  | cmFlushFail _ i lg hi =>
    clear h4
    have l0 := le_tot srW _ _ _ hi
    have l1 := le_tot tokW _ _ _ hi
    cases lg <;> (try simp only [St.setDone, St.setBg, ↓reduceIte, Bool.false_eq_true, Bool.and_false, Bool.and_true, Bool.false_and, Bool.true_and]) <;> (repeat' split) <;> simp_all [tot_set_eq _ _ _ _ _ hi, tot_ackWs_srw', tot_ackWs_tok, b2n_true, b2n_false, srW, tokW, St.bg, onOk, onErr, selNext, afterSetErr, srAllW, nextC, corrB, corrPh_run] <;> (try omega) <;> (try (cases hk : s.ehTok <;> simp_all [b2n_true, b2n_false] <;> omega))
  | cmLockClk _ i lg hi hl =>
    clear h4
    have l0 := le_tot srW _ _ _ hi
    have l1 := le_tot tokW _ _ _ hi
    cases lg <;> (try simp only [St.setDone, St.setBg, ↓reduceIte, Bool.false_eq_true, Bool.and_false, Bool.and_true, Bool.false_and, Bool.true_and]) <;> (repeat' split) <;> simp_all [tot_set_eq _ _ _ _ _ hi, tot_ackWs_srw', tot_ackWs_tok, b2n_true, b2n_false, srW, tokW, St.bg, onOk, onErr, selNext, afterSetErr, srAllW, nextC, corrB, corrPh_run] <;> (try omega) <;> (try (cases hk : s.ehTok <;> simp_all [b2n_true, b2n_false] <;> omega))
  | cmTryOk _ i k lg hi =>
    clear h4
    have l0 := le_tot srW _ _ _ hi
    have l1 := le_tot tokW _ _ _ hi
    cases lg <;> (try simp only [St.setDone, St.setBg, ↓reduceIte, Bool.false_eq_true, Bool.and_false, Bool.and_true, Bool.false_and, Bool.true_and]) <;> (repeat' split) <;> simp_all [tot_set_eq _ _ _ _ _ hi, tot_ackWs_srw', tot_ackWs_tok, b2n_true, b2n_false, srW, tokW, St.bg, onOk, onErr, selNext, afterSetErr, srAllW, nextC, corrB, corrPh_run] <;> (try omega) <;> (try (cases hk : s.ehTok <;> simp_all [b2n_true, b2n_false] <;> omega))
  | cmTryFail _ i k lg hi =>
    clear h4
    have l0 := le_tot srW _ _ _ hi
    have l1 := le_tot tokW _ _ _ hi
    cases lg <;> (try simp only [St.setDone, St.setBg, ↓reduceIte, Bool.false_eq_true, Bool.and_false, Bool.and_true, Bool.false_and, Bool.true_and]) <;> (repeat' split) <;> simp_all [tot_set_eq _ _ _ _ _ hi, tot_ackWs_srw', tot_ackWs_tok, b2n_true, b2n_false, srW, tokW, St.bg, onOk, onErr, selNext, afterSetErr, srAllW, nextC, corrB, corrPh_run] <;> (try omega) <;> (try (cases hk : s.ehTok <;> simp_all [b2n_true, b2n_false] <;> omega))
  | cmSleepTimer _ i k lg hi =>
    clear h4
    have l0 := le_tot srW _ _ _ hi
    have l1 := le_tot tokW _ _ _ hi
    cases lg <;> (try simp only [St.setDone, St.setBg, ↓reduceIte, Bool.false_eq_true, Bool.and_false, Bool.and_true, Bool.false_and, Bool.true_and]) <;> (repeat' split) <;> simp_all [tot_set_eq _ _ _ _ _ hi, tot_ackWs_srw', tot_ackWs_tok, b2n_true, b2n_false, srW, tokW, St.bg, onOk, onErr, selNext, afterSetErr, srAllW, nextC, corrB, corrPh_run] <;> (try omega) <;> (try (cases hk : s.ehTok <;> simp_all [b2n_true, b2n_false] <;> omega))
  | cmSleepClosed _ i k lg hi hc =>
    clear h4
    have l0 := le_tot srW _ _ _ hi
    have l1 := le_tot tokW _ _ _ hi
    cases lg <;> (try simp only [St.setDone, St.setBg, ↓reduceIte, Bool.false_eq_true, Bool.and_false, Bool.and_true, Bool.false_and, Bool.true_and]) <;> (repeat' split) <;> simp_all [tot_set_eq _ _ _ _ _ hi, tot_ackWs_srw', tot_ackWs_tok, b2n_true, b2n_false, srW, tokW, St.bg, onOk, onErr, selNext, afterSetErr, srAllW, nextC, corrB, corrPh_run] <;> (try omega) <;> (try (cases hk : s.ehTok <;> simp_all [b2n_true, b2n_false] <;> omega))
  | cmFail3 _ i lg hi =>
    clear h4
    have l0 := le_tot srW _ _ _ hi
    have l1 := le_tot tokW _ _ _ hi
    cases lg <;> (try simp only [St.setDone, St.setBg, ↓reduceIte, Bool.false_eq_true, Bool.and_false, Bool.and_true, Bool.false_and, Bool.true_and]) <;> (repeat' split) <;> simp_all [tot_set_eq _ _ _ _ _ hi, tot_ackWs_srw', tot_ackWs_tok, b2n_true, b2n_false, srW, tokW, St.bg, onOk, onErr, selNext, afterSetErr, srAllW, nextC, corrB, corrPh_run] <;> (try omega) <;> (try (cases hk : s.ehTok <;> simp_all [b2n_true, b2n_false] <;> omega))
  | cmAfterOk _ i lg hi =>
    clear h4
    have l0 := le_tot srW _ _ _ hi
    have l1 := le_tot tokW _ _ _ hi
    cases lg <;> (try simp only [St.setDone, St.setBg, ↓reduceIte, Bool.false_eq_true, Bool.and_false, Bool.and_true, Bool.false_and, Bool.true_and]) <;> (repeat' split) <;> simp_all [tot_set_eq _ _ _ _ _ hi, tot_ackWs_srw', tot_ackWs_tok, b2n_true, b2n_false, srW, tokW, St.bg, onOk, onErr, selNext, afterSetErr, srAllW, nextC, corrB, corrPh_run] <;> (try omega) <;> (try (cases hk : s.ehTok <;> simp_all [b2n_true, b2n_false] <;> omega))
  | cmNoWaitComp _ i lg hi =>
    clear h4
    have l0 := le_tot srW _ _ _ hi
    have l1 := le_tot tokW _ _ _ hi
    cases lg <;> (try simp only [St.setDone, St.setBg, ↓reduceIte, Bool.false_eq_true, Bool.and_false, Bool.and_true, Bool.false_and, Bool.true_and]) <;> (repeat' split) <;> simp_all [tot_set_eq _ _ _ _ _ hi, tot_ackWs_srw', tot_ackWs_tok, b2n_true, b2n_false, srW, tokW, St.bg, onOk, onErr, selNext, afterSetErr, srAllW, nextC, corrB, corrPh_run] <;> (try omega) <;> (try (cases hk : s.ehTok <;> simp_all [b2n_true, b2n_false] <;> omega))
  | cmWaitComp _ i lg hi =>
    clear h4
    have l0 := le_tot srW _ _ _ hi
    have l1 := le_tot tokW _ _ _ hi
    cases lg <;> (try simp only [St.setDone, St.setBg, ↓reduceIte, Bool.false_eq_true, Bool.and_false, Bool.and_true, Bool.false_and, Bool.true_and]) <;> (repeat' split) <;> simp_all [tot_set_eq _ _ _ _ _ hi, tot_ackWs_srw', tot_ackWs_tok, b2n_true, b2n_false, srW, tokW, St.bg, onOk, onErr, selNext, afterSetErr, srAllW, nextC, corrB, corrPh_run] <;> (try omega) <;> (try (cases hk : s.ehTok <;> simp_all [b2n_true, b2n_false] <;> omega))
  | cmDone _ i lg hi =>
    clear h4
    have l0 := le_tot srW _ _ _ hi
    have l1 := le_tot tokW _ _ _ hi
    cases lg <;> (try simp only [St.setDone, St.setBg, ↓reduceIte, Bool.false_eq_true, Bool.and_false, Bool.and_true, Bool.false_and, Bool.true_and]) <;> (repeat' split) <;> simp_all [tot_set_eq _ _ _ _ _ hi, tot_ackWs_srw', tot_ackWs_tok, b2n_true, b2n_false, srW, tokW, St.bg, onOk, onErr, selNext, afterSetErr, srAllW, nextC, corrB, corrPh_run] <;> (try omega) <;> (try (cases hk : s.ehTok <;> simp_all [b2n_true, b2n_false] <;> omega))
  | cmRet _ i ok lg hi =>
    clear h4
    have l0 := le_tot srW _ _ _ hi
    have l1 := le_tot tokW _ _ _ hi
    cases ok <;> cases lg <;> (try simp only [St.setDone, St.setBg, ↓reduceIte, Bool.false_eq_true, Bool.and_false, Bool.and_true, Bool.false_and, Bool.true_and]) <;> (repeat' split) <;> simp_all [tot_set_eq _ _ _ _ _ hi, tot_ackWs_srw', tot_ackWs_tok, b2n_true, b2n_false, srW, tokW, St.bg, onOk, onErr, selNext, afterSetErr, srAllW, nextC, corrB, corrPh_run] <;> (try omega) <;> (try (cases hk : s.ehTok <;> simp_all [b2n_true, b2n_false] <;> omega))
  | dcLockTr _ i lg hi hl =>
    clear h4
    have l0 := le_tot srW _ _ _ hi
    have l1 := le_tot tokW _ _ _ hi
    cases lg <;> (try simp only [St.setDone, St.setBg, ↓reduceIte, Bool.false_eq_true, Bool.and_false, Bool.and_true, Bool.false_and, Bool.true_and]) <;> (repeat' split) <;> simp_all [tot_set_eq _ _ _ _ _ hi, tot_ackWs_srw', tot_ackWs_tok, b2n_true, b2n_false, srW, tokW, St.bg, onOk, onErr, selNext, afterSetErr, srAllW, nextC, corrB, corrPh_run] <;> (try omega) <;> (try (cases hk : s.ehTok <;> simp_all [b2n_true, b2n_false] <;> omega))
  | dcBody _ i lg hi =>
    clear h4
    have l0 := le_tot srW _ _ _ hi
    have l1 := le_tot tokW _ _ _ hi
    cases lg <;> (try simp only [St.setDone, St.setBg, ↓reduceIte, Bool.false_eq_true, Bool.and_false, Bool.and_true, Bool.false_and, Bool.true_and]) <;> (repeat' split) <;> simp_all [tot_set_eq _ _ _ _ _ hi, tot_ackWs_srw', tot_ackWs_tok, b2n_true, b2n_false, srW, tokW, St.bg, onOk, onErr, selNext, afterSetErr, srAllW, nextC, corrB, corrPh_run] <;> (try omega) <;> (try (cases hk : s.ehTok <;> simp_all [b2n_true, b2n_false] <;> omega))
  | crNoOverlap _ i hi =>
    clear h4
    have l0 := le_tot srW _ _ _ hi
    have l1 := le_tot tokW _ _ _ hi
    (try simp only [St.setDone, St.setBg, ↓reduceIte, Bool.false_eq_true, Bool.and_false, Bool.and_true, Bool.false_and, Bool.true_and]) <;> (repeat' split) <;> simp_all [tot_set_eq _ _ _ _ _ hi, tot_ackWs_srw', tot_ackWs_tok, b2n_true, b2n_false, srW, tokW, St.bg, onOk, onErr, selNext, afterSetErr, srAllW, nextC, corrB, corrPh_run] <;> (try omega) <;> (try (cases hk : s.ehTok <;> simp_all [b2n_true, b2n_false] <;> omega))
  | crOverlap _ i hi =>
    clear h4
    have l0 := le_tot srW _ _ _ hi
    have l1 := le_tot tokW _ _ _ hi
    (try simp only [St.setDone, St.setBg, ↓reduceIte, Bool.false_eq_true, Bool.and_false, Bool.and_true, Bool.false_and, Bool.true_and]) <;> (repeat' split) <;> simp_all [tot_set_eq _ _ _ _ _ hi, tot_ackWs_srw', tot_ackWs_tok, b2n_true, b2n_false, srW, tokW, St.bg, onOk, onErr, selNext, afterSetErr, srAllW, nextC, corrB, corrPh_run] <;> (try omega) <;> (try (cases hk : s.ehTok <;> simp_all [b2n_true, b2n_false] <;> omega))
  | crNewMemOk _ i hi =>
    clear h4
    have l0 := le_tot srW _ _ _ hi
    have l1 := le_tot tokW _ _ _ hi
    (try simp only [St.setDone, St.setBg, ↓reduceIte, Bool.false_eq_true, Bool.and_false, Bool.and_true, Bool.false_and, Bool.true_and]) <;> (repeat' split) <;> simp_all [tot_set_eq _ _ _ _ _ hi, tot_ackWs_srw', tot_ackWs_tok, b2n_true, b2n_false, srW, tokW, St.bg, onOk, onErr, selNext, afterSetErr, srAllW, nextC, corrB, corrPh_run] <;> (try omega) <;> (try (cases hk : s.ehTok <;> simp_all [b2n_true, b2n_false] <;> omega))
  | crNewMemFail _ i hi =>
    clear h4
    have l0 := le_tot srW _ _ _ hi
    have l1 := le_tot tokW _ _ _ hi
    (try simp only [St.setDone, St.setBg, ↓reduceIte, Bool.false_eq_true, Bool.and_false, Bool.and_true, Bool.false_and, Bool.true_and]) <;> (repeat' split) <;> simp_all [tot_set_eq _ _ _ _ _ hi, tot_ackWs_srw', tot_ackWs_tok, b2n_true, b2n_false, srW, tokW, St.bg, onOk, onErr, selNext, afterSetErr, srAllW, nextC, corrB, corrPh_run] <;> (try omega) <;> (try (cases hk : s.ehTok <;> simp_all [b2n_true, b2n_false] <;> omega))
  | crRelM _ i hi =>
    clear h4
    have l0 := le_tot srW _ _ _ hi
    have l1 := le_tot tokW _ _ _ hi
    (try simp only [St.setDone, St.setBg, ↓reduceIte, Bool.false_eq_true, Bool.and_false, Bool.and_true, Bool.false_and, Bool.true_and]) <;> (repeat' split) <;> simp_all [tot_set_eq _ _ _ _ _ hi, tot_ackWs_srw', tot_ackWs_tok, b2n_true, b2n_false, srW, tokW, St.bg, onOk, onErr, selNext, afterSetErr, srAllW, nextC, corrB, corrPh_run] <;> (try omega) <;> (try (cases hk : s.ehTok <;> simp_all [b2n_true, b2n_false] <;> omega))
  | crRelOk _ i hi =>
    clear h4
    have l0 := le_tot srW _ _ _ hi
    have l1 := le_tot tokW _ _ _ hi
    (try simp only [St.setDone, St.setBg, ↓reduceIte, Bool.false_eq_true, Bool.and_false, Bool.and_true, Bool.false_and, Bool.true_and]) <;> (repeat' split) <;> simp_all [tot_set_eq _ _ _ _ _ hi, tot_ackWs_srw', tot_ackWs_tok, b2n_true, b2n_false, srW, tokW, St.bg, onOk, onErr, selNext, afterSetErr, srAllW, nextC, corrB, corrPh_run] <;> (try omega) <;> (try (cases hk : s.ehTok <;> simp_all [b2n_true, b2n_false] <;> omega))
  | crRelFail _ i hi =>
    clear h4
    have l0 := le_tot srW _ _ _ hi
    have l1 := le_tot tokW _ _ _ hi
    (try simp only [St.setDone, St.setBg, ↓reduceIte, Bool.false_eq_true, Bool.and_false, Bool.and_true, Bool.false_and, Bool.true_and]) <;> (repeat' split) <;> simp_all [tot_set_eq _ _ _ _ _ hi, tot_ackWs_srw', tot_ackWs_tok, b2n_true, b2n_false, srW, tokW, St.bg, onOk, onErr, selNext, afterSetErr, srAllW, nextC, corrB, corrPh_run] <;> (try omega) <;> (try (cases hk : s.ehTok <;> simp_all [b2n_true, b2n_false] <;> omega))
  | srSend _ i hi he =>
    clear h4
    have l0 := le_tot srW _ _ _ hi
    have l1 := le_tot tokW _ _ _ hi
    simp only [hm, recvs_asCoded] at he
    rcases he with he | he <;> (try simp only [St.setDone, St.setBg, ↓reduceIte, Bool.false_eq_true, Bool.and_false, Bool.and_true, Bool.false_and, Bool.true_and]) <;> (repeat' split) <;> simp_all [tot_set_eq _ _ _ _ _ hi, tot_ackWs_srw', tot_ackWs_tok, b2n_true, b2n_false, srW, tokW, St.bg, onOk, onErr, selNext, afterSetErr, srAllW, nextC, corrB, corrPh_run] <;> (try omega) <;> (try (cases hk : s.ehTok <;> simp_all [b2n_true, b2n_false] <;> omega))
  | srPerErr _ i hi he =>
    clear h4
    have l0 := le_tot srW _ _ _ hi
    have l1 := le_tot tokW _ _ _ hi
    (try simp only [St.setDone, St.setBg, ↓reduceIte, Bool.false_eq_true, Bool.and_false, Bool.and_true, Bool.false_and, Bool.true_and]) <;> (repeat' split) <;> simp_all [tot_set_eq _ _ _ _ _ hi, tot_ackWs_srw', tot_ackWs_tok, b2n_true, b2n_false, srW, tokW, St.bg, onOk, onErr, selNext, afterSetErr, srAllW, nextC, corrB, corrPh_run] <;> (try omega) <;> (try (cases hk : s.ehTok <;> simp_all [b2n_true, b2n_false] <;> omega))
  | srClosed _ i hi hc =>
    have l0 := le_tot srW _ _ _ hi
    have l1 := le_tot tokW _ _ _ hi
    have ls := le_tot srAllW _ _ _ hi
    have hne : ¬ (s.eh = .hasperr ∨ s.eh = .closing) := fun hh => by have := (j2 hh).2; simp only [srW] at l0; omega
    rcases h4 with h4 | ⟨_, h4⟩ <;> (try simp only [St.setDone, St.setBg, ↓reduceIte, Bool.false_eq_true, Bool.and_false, Bool.and_true, Bool.false_and, Bool.true_and]) <;> (repeat' split) <;> simp_all [tot_set_eq _ _ _ _ _ hi, tot_ackWs_srw', tot_ackWs_tok, b2n_true, b2n_false, srW, tokW, St.bg, onOk, onErr, selNext, afterSetErr, srAllW, nextC, corrB, corrPh_run] <;> (try omega) <;> (try (cases hk : s.ehTok <;> simp_all [b2n_true, b2n_false] <;> omega))
  | clCheckTr _ i hi =>
    clear h4
    have l0 := le_tot srW _ _ _ hi
    have l1 := le_tot tokW _ _ _ hi
    (try simp only [St.setDone, St.setBg, ↓reduceIte, Bool.false_eq_true, Bool.and_false, Bool.and_true, Bool.false_and, Bool.true_and]) <;> (repeat' split) <;> simp_all [tot_set_eq _ _ _ _ _ hi, tot_ackWs_srw', tot_ackWs_tok, b2n_true, b2n_false, srW, tokW, St.bg, onOk, onErr, selNext, afterSetErr, srAllW, nextC, corrB, corrPh_run] <;> (try omega) <;> (try (cases hk : s.ehTok <;> simp_all [b2n_true, b2n_false] <;> omega))
  | clLockTr _ i hi hl =>
    clear h4
    have l0 := le_tot srW _ _ _ hi
    have l1 := le_tot tokW _ _ _ hi
    (try simp only [St.setDone, St.setBg, ↓reduceIte, Bool.false_eq_true, Bool.and_false, Bool.and_true, Bool.false_and, Bool.true_and]) <;> (repeat' split) <;> simp_all [tot_set_eq _ _ _ _ _ hi, tot_ackWs_srw', tot_ackWs_tok, b2n_true, b2n_false, srW, tokW, St.bg, onOk, onErr, selNext, afterSetErr, srAllW, nextC, corrB, corrPh_run] <;> (try omega) <;> (try (cases hk : s.ehTok <;> simp_all [b2n_true, b2n_false] <;> omega))
  | clBody _ i hi =>
    clear h4
    have l0 := le_tot srW _ _ _ hi
    have l1 := le_tot tokW _ _ _ hi
    (try simp only [St.setDone, St.setBg, ↓reduceIte, Bool.false_eq_true, Bool.and_false, Bool.and_true, Bool.false_and, Bool.true_and]) <;> (repeat' split) <;> simp_all [tot_set_eq _ _ _ _ _ hi, tot_ackWs_srw', tot_ackWs_tok, b2n_true, b2n_false, srW, tokW, St.bg, onOk, onErr, selNext, afterSetErr, srAllW, nextC, corrB, corrPh_run] <;> (try omega) <;> (try (cases hk : s.ehTok <;> simp_all [b2n_true, b2n_false] <;> omega))
  | clAcq _ i hi ht =>
    clear h4
    have l0 := le_tot srW _ _ _ hi
    have l1 := le_tot tokW _ _ _ hi
    (try simp only [St.setDone, St.setBg, ↓reduceIte, Bool.false_eq_true, Bool.and_false, Bool.and_true, Bool.false_and, Bool.true_and]) <;> (repeat' split) <;> simp_all [tot_set_eq _ _ _ _ _ hi, tot_ackWs_srw', tot_ackWs_tok, b2n_true, b2n_false, srW, tokW, St.bg, onOk, onErr, selNext, afterSetErr, srAllW, nextC, corrB, corrPh_run] <;> (try omega) <;> (try (cases hk : s.ehTok <;> simp_all [b2n_true, b2n_false] <;> omega))
  | clAcqKept _ i hi he hk hs =>
    clear h4
    have l0 := le_tot srW _ _ _ hi
    have l1 := le_tot tokW _ _ _ hi
    (try simp only [St.setDone, St.setBg, ↓reduceIte, Bool.false_eq_true, Bool.and_false, Bool.and_true, Bool.false_and, Bool.true_and]) <;> (repeat' split) <;> simp_all [tot_set_eq _ _ _ _ _ hi, tot_ackWs_srw', tot_ackWs_tok, b2n_true, b2n_false, srW, tokW, St.bg, onOk, onErr, selNext, afterSetErr, srAllW, nextC, corrB, corrPh_run] <;> (try omega) <;> (try (cases hk : s.ehTok <;> simp_all [b2n_true, b2n_false] <;> omega))
  | clWait _ i hi hm ht =>
    clear h4
    have l0 := le_tot srW _ _ _ hi
    have l1 := le_tot tokW _ _ _ hi
    (try simp only [St.setDone, St.setBg, ↓reduceIte, Bool.false_eq_true, Bool.and_false, Bool.and_true, Bool.false_and, Bool.true_and]) <;> (repeat' split) <;> simp_all [tot_set_eq _ _ _ _ _ hi, tot_ackWs_srw', tot_ackWs_tok, b2n_true, b2n_false, srW, tokW, St.bg, onOk, onErr, selNext, afterSetErr, srAllW, nextC, corrB, corrPh_run] <;> (try omega) <;> (try (cases hk : s.ehTok <;> simp_all [b2n_true, b2n_false] <;> omega))
  | ehAcquire _ he ht =>
    clear h4
    (try simp only [St.setDone, St.setBg, ↓reduceIte, Bool.false_eq_true, Bool.and_false, Bool.and_true, Bool.false_and, Bool.true_and]) <;> (repeat' split) <;> simp_all [tot_ackWs_srw', tot_ackWs_tok, b2n_true, b2n_false, srW, tokW, St.bg, onOk, onErr, selNext, afterSetErr, srAllW, nextC, corrB, corrPh_run] <;> (try omega) <;> (try (cases hk : s.ehTok <;> simp_all [b2n_true, b2n_false] <;> omega))
  | ehClose _ he hc =>
    clear h4
    simp only [hm, closes_asCoded] at he
    rcases he with he | he | he <;> (try simp only [St.setDone, St.setBg, ↓reduceIte, Bool.false_eq_true, Bool.and_false, Bool.and_true, Bool.false_and, Bool.true_and]) <;> (repeat' split) <;> simp_all [tot_ackWs_srw', tot_ackWs_tok, b2n_true, b2n_false, srW, tokW, St.bg, onOk, onErr, selNext, afterSetErr, srAllW, nextC, corrB, corrPh_run] <;> (try omega) <;> (try (cases hk : s.ehTok <;> simp_all [b2n_true, b2n_false] <;> omega))
  | ehTake _ he ht =>
    clear h4
    (try simp only [St.setDone, St.setBg, ↓reduceIte, Bool.false_eq_true, Bool.and_false, Bool.and_true, Bool.false_and, Bool.true_and]) <;> (repeat' split) <;> simp_all [tot_ackWs_srw', tot_ackWs_tok, b2n_true, b2n_false, srW, tokW, St.bg, onOk, onErr, selNext, afterSetErr, srAllW, nextC, corrB, corrPh_run] <;> (try omega) <;> (try (cases hk : s.ehTok <;> simp_all [b2n_true, b2n_false] <;> omega))
  | bgExitIdle _ b hb hc =>
    clear h4
    cases b <;> (try simp only [St.setDone, St.setBg, ↓reduceIte, Bool.false_eq_true, Bool.and_false, Bool.and_true, Bool.false_and, Bool.true_and]) <;> (repeat' split) <;> simp_all [tot_ackWs_srw', tot_ackWs_tok, b2n_true, b2n_false, srW, tokW, St.bg, onOk, onErr, selNext, afterSetErr, srAllW, nextC, corrB, corrPh_run] <;> (try omega) <;> (try (cases hk : s.ehTok <;> simp_all [b2n_true, b2n_false] <;> omega))
  | bgExitParked _ hb hc =>
    clear h4
    (try simp only [St.setDone, St.setBg, ↓reduceIte, Bool.false_eq_true, Bool.and_false, Bool.and_true, Bool.false_and, Bool.true_and]) <;> (repeat' split) <;> simp_all [tot_ackWs_srw', tot_ackWs_tok, b2n_true, b2n_false, srW, tokW, St.bg, onOk, onErr, selNext, afterSetErr, srAllW, nextC, corrB, corrPh_run] <;> (try omega) <;> (try (cases hk : s.ehTok <;> simp_all [b2n_true, b2n_false] <;> omega))
  | bgWorkCorrupt _ b w hb hk =>
    clear h4
    cases b <;> (try simp only [St.setDone, St.setBg, ↓reduceIte, Bool.false_eq_true, Bool.and_false, Bool.and_true, Bool.false_and, Bool.true_and]) <;> (repeat' split) <;> simp_all [tot_ackWs_srw', tot_ackWs_tok, b2n_true, b2n_false, srW, tokW, St.bg, onOk, onErr, selNext, afterSetErr, srAllW, nextC, corrB, corrPh_run] <;> (try omega) <;> (try (cases hk : s.ehTok <;> simp_all [b2n_true, b2n_false] <;> omega))
  | bgCommitCorrupt _ b w hb hk =>
    clear h4
    cases b <;> (try simp only [St.setDone, St.setBg, ↓reduceIte, Bool.false_eq_true, Bool.and_false, Bool.and_true, Bool.false_and, Bool.true_and]) <;> (repeat' split) <;> simp_all [tot_ackWs_srw', tot_ackWs_tok, b2n_true, b2n_false, srW, tokW, St.bg, onOk, onErr, selNext, afterSetErr, srAllW, nextC, corrB, corrPh_run] <;> (try omega) <;> (try (cases hk : s.ehTok <;> simp_all [b2n_true, b2n_false] <;> omega))
  | bgSetErrCorrupt _ b w c hb he =>
    clear h4
    simp only [hm, recvs_asCoded] at he
    rcases he with he | he <;> cases b <;> cases c <;> (try simp only [St.setDone, St.setBg, ↓reduceIte, Bool.false_eq_true, Bool.and_false, Bool.and_true, Bool.false_and, Bool.true_and]) <;> (repeat' split) <;> simp_all [tot_ackWs_srw', tot_ackWs_tok, b2n_true, b2n_false, srW, tokW, St.bg, onOk, onErr, selNext, afterSetErr, srAllW, nextC, corrB, corrPh_run] <;> (try omega) <;> (try (cases hk : s.ehTok <;> simp_all [b2n_true, b2n_false] <;> omega))
  | bgWorkOk _ b w hb =>
    clear h4
    cases b <;> (try simp only [St.setDone, St.setBg, ↓reduceIte, Bool.false_eq_true, Bool.and_false, Bool.and_true, Bool.false_and, Bool.true_and]) <;> (repeat' split) <;> simp_all [tot_ackWs_srw', tot_ackWs_tok, b2n_true, b2n_false, srW, tokW, St.bg, onOk, onErr, selNext, afterSetErr, srAllW, nextC, corrB, corrPh_run] <;> (try omega) <;> (try (cases hk : s.ehTok <;> simp_all [b2n_true, b2n_false] <;> omega))
  | bgWorkFail _ b w hb =>
    clear h4
    cases b <;> (try simp only [St.setDone, St.setBg, ↓reduceIte, Bool.false_eq_true, Bool.and_false, Bool.and_true, Bool.false_and, Bool.true_and]) <;> (repeat' split) <;> simp_all [tot_ackWs_srw', tot_ackWs_tok, b2n_true, b2n_false, srW, tokW, St.bg, onOk, onErr, selNext, afterSetErr, srAllW, nextC, corrB, corrPh_run] <;> (try omega) <;> (try (cases hk : s.ehTok <;> simp_all [b2n_true, b2n_false] <;> omega))
  | bgCommitOk _ b w hb =>
    clear h4
    cases b <;> (try simp only [St.setDone, St.setBg, ↓reduceIte, Bool.false_eq_true, Bool.and_false, Bool.and_true, Bool.false_and, Bool.true_and]) <;> (repeat' split) <;> simp_all [tot_ackWs_srw', tot_ackWs_tok, b2n_true, b2n_false, srW, tokW, St.bg, onOk, onErr, selNext, afterSetErr, srAllW, nextC, corrB, corrPh_run] <;> (try omega) <;> (try (cases hk : s.ehTok <;> simp_all [b2n_true, b2n_false] <;> omega))
  | bgCommitFail _ b w hb =>
    clear h4
    cases b <;> (try simp only [St.setDone, St.setBg, ↓reduceIte, Bool.false_eq_true, Bool.and_false, Bool.and_true, Bool.false_and, Bool.true_and]) <;> (repeat' split) <;> simp_all [tot_ackWs_srw', tot_ackWs_tok, b2n_true, b2n_false, srW, tokW, St.bg, onOk, onErr, selNext, afterSetErr, srAllW, nextC, corrB, corrPh_run] <;> (try omega) <;> (try (cases hk : s.ehTok <;> simp_all [b2n_true, b2n_false] <;> omega))
  | bgSetErr _ b w ok c hb he =>
    clear h4
    simp only [hm, recvs_asCoded] at he
    rcases he with he | he <;> cases b <;> cases ok <;> cases c <;> (try simp only [St.setDone, St.setBg, ↓reduceIte, Bool.false_eq_true, Bool.and_false, Bool.and_true, Bool.false_and, Bool.true_and]) <;> (repeat' split) <;> simp_all [tot_ackWs_srw', tot_ackWs_tok, b2n_true, b2n_false, srW, tokW, St.bg, onOk, onErr, selNext, afterSetErr, srAllW, nextC, corrB, corrPh_run] <;> (try omega) <;> (try (cases hk : s.ehTok <;> simp_all [b2n_true, b2n_false] <;> omega))
  | bgSetErrPer _ b w c hb he =>
    clear h4
    cases b <;> cases c <;> (try simp only [St.setDone, St.setBg, ↓reduceIte, Bool.false_eq_true, Bool.and_false, Bool.and_true, Bool.false_and, Bool.true_and]) <;> (repeat' split) <;> simp_all [tot_ackWs_srw', tot_ackWs_tok, b2n_true, b2n_false, srW, tokW, St.bg, onOk, onErr, selNext, afterSetErr, srAllW, nextC, corrB, corrPh_run] <;> (try omega) <;> (try (cases hk : s.ehTok <;> simp_all [b2n_true, b2n_false] <;> omega))
  | bgBackoff _ b w c hb =>
    clear h4
    cases b <;> cases c <;> (try simp only [St.setDone, St.setBg, ↓reduceIte, Bool.false_eq_true, Bool.and_false, Bool.and_true, Bool.false_and, Bool.true_and]) <;> (repeat' split) <;> simp_all [tot_ackWs_srw', tot_ackWs_tok, b2n_true, b2n_false, srW, tokW, St.bg, onOk, onErr, selNext, afterSetErr, srAllW, nextC, corrB, corrPh_run] <;> (try omega) <;> (try (cases hk : s.ehTok <;> simp_all [b2n_true, b2n_false] <;> omega))
  | bgLockClk _ b w hb hl =>
    clear h4
    cases b <;> (try simp only [St.setDone, St.setBg, ↓reduceIte, Bool.false_eq_true, Bool.and_false, Bool.and_true, Bool.false_and, Bool.true_and]) <;> (repeat' split) <;> simp_all [tot_ackWs_srw', tot_ackWs_tok, b2n_true, b2n_false, srW, tokW, St.bg, onOk, onErr, selNext, afterSetErr, srAllW, nextC, corrB, corrPh_run] <;> (try omega) <;> (try (cases hk : s.ehTok <;> simp_all [b2n_true, b2n_false] <;> omega))
  | bgAck _ b w hb =>
    clear h4
    cases b <;> (try simp only [St.setDone, St.setBg, ↓reduceIte, Bool.false_eq_true, Bool.and_false, Bool.and_true, Bool.false_and, Bool.true_and]) <;> (repeat' split) <;> simp_all [tot_ackWs_srw', tot_ackWs_tok, b2n_true, b2n_false, srW, tokW, St.bg, onOk, onErr, selNext, afterSetErr, srAllW, nextC, corrB, corrPh_run] <;> (try omega) <;> (try (cases hk : s.ehTok <;> simp_all [b2n_true, b2n_false] <;> omega))
  | bgExit _ b w ph hb hx =>
    clear h4
    cases b <;> cases ph <;> (try simp only [St.setDone, St.setBg, ↓reduceIte, Bool.false_eq_true, Bool.and_false, Bool.and_true, Bool.false_and, Bool.true_and]) <;> (repeat' split) <;> simp_all [tot_ackWs_srw', tot_ackWs_tok, b2n_true, b2n_false, srW, tokW, St.bg, onOk, onErr, selNext, afterSetErr, srAllW, nextC, corrB, corrPh_run] <;> (try omega) <;> (try (cases hk : s.ehTok <;> simp_all [b2n_true, b2n_false] <;> omega))

/-- exact accounting in runs without corruption errors -/
def ExactJ (s : St) : Prop := TokE s ∧ JInv s ∧ NoCorr s

theorem step_exactJ (cfg : Cfg) (h3 : Fixed3 cfg) (hm : cfg.m = .asCoded cfg.closeSel) (s t : St) (f : Bool)
    (h4 : cfg.setReadOnlyReleasesOnClose = true ∨ NoSR s) (h : Step cfg f s t) (inv : ExactJ s) : ExactJ t := by
  obtain ⟨hE, hJ, hN⟩ := inv
  refine ⟨step_tokE s t f cfg h3 h4 (fun hp => ?_) (fun hc => (hJ.1 (Or.inr hc)).1) h hE,
    step_jinv s t f cfg hm h4 hN hE h hJ, step_noCorr cfg s t f h hN⟩
  have := hJ.2
  cases he : s.ehTok with
  | true => rfl
  | false => rw [he] at this; simp only [b2n_false] at this; omega

/-- in runs without `SetReadOnly` only the `hasperr` loop sets `compWriteLocking`, together with putting its
token into `writeLockC`, and only its `closeC` case takes that token out again -/
def KInv (s : St) : Prop :=
  (s.eh ≠ .exited → s.cwl = true → s.ehTok = true) ∧ (s.eh = .closing → s.cwl = true)

theorem step_kinv (s t : St) (f : Bool) (cfg : Cfg) (hm : cfg.m = .asCoded cfg.closeSel) (ns : NoSR s)
    (h : Step cfg f s t) (inv : KInv s) : KInv t := by
  unfold KInv NoSR at *
  obtain ⟨k1, k2⟩ := inv
  obtain ⟨ns1, ns2⟩ := ns
  cases h with
  | startPut _ i hi =>
    (try simp only [St.setDone, St.setBg, ↓reduceIte, Bool.false_eq_true, Bool.and_false, Bool.and_true, Bool.false_and, Bool.true_and]) <;> (repeat' split) <;> simp_all [srAllW, St.bg, onOk, onErr, selNext, afterSetErr, nextC, tot_ackWs_srall]
  | startWrite _ i hi =>
    (try simp only [St.setDone, St.setBg, ↓reduceIte, Bool.false_eq_true, Bool.and_false, Bool.and_true, Bool.false_and, Bool.true_and]) <;> (repeat' split) <;> simp_all [srAllW, St.bg, onOk, onErr, selNext, afterSetErr, nextC, tot_ackWs_srall]
  | startOtx _ i hi =>
    (try simp only [St.setDone, St.setBg, ↓reduceIte, Bool.false_eq_true, Bool.and_false, Bool.and_true, Bool.false_and, Bool.true_and]) <;> (repeat' split) <;> simp_all [srAllW, St.bg, onOk, onErr, selNext, afterSetErr, nextC, tot_ackWs_srall]
  | startCommit _ i hi hu =>
    (try simp only [St.setDone, St.setBg, ↓reduceIte, Bool.false_eq_true, Bool.and_false, Bool.and_true, Bool.false_and, Bool.true_and]) <;> (repeat' split) <;> simp_all [srAllW, St.bg, onOk, onErr, selNext, afterSetErr, nextC, tot_ackWs_srall]
  | startDiscard _ i hi hu =>
    (try simp only [St.setDone, St.setBg, ↓reduceIte, Bool.false_eq_true, Bool.and_false, Bool.and_true, Bool.false_and, Bool.true_and]) <;> (repeat' split) <;> simp_all [srAllW, St.bg, onOk, onErr, selNext, afterSetErr, nextC, tot_ackWs_srall]
  | startCR _ i hi =>
    (try simp only [St.setDone, St.setBg, ↓reduceIte, Bool.false_eq_true, Bool.and_false, Bool.and_true, Bool.false_and, Bool.true_and]) <;> (repeat' split) <;> simp_all [srAllW, St.bg, onOk, onErr, selNext, afterSetErr, nextC, tot_ackWs_srall]
  | startSR _ i hi ha =>
    (try simp only [St.setDone, St.setBg, ↓reduceIte, Bool.false_eq_true, Bool.and_false, Bool.and_true, Bool.false_and, Bool.true_and]) <;> (repeat' split) <;> simp_all [srAllW, St.bg, onOk, onErr, selNext, afterSetErr, nextC, tot_ackWs_srall]
  | startClose _ i hi =>
    (try simp only [St.setDone, St.setBg, ↓reduceIte, Bool.false_eq_true, Bool.and_false, Bool.and_true, Bool.false_and, Bool.true_and]) <;> (repeat' split) <;> simp_all [srAllW, St.bg, onOk, onErr, selNext, afterSetErr, nextC, tot_ackWs_srall]
  | selTok _ i p q hi hq ht =>
    have ls := le_tot srAllW _ _ _ hi
    cases p <;> simp only [selNext] at hq <;> (try contradiction) <;> cases hq <;> simp_all [srAllW, St.bg, onOk, onErr, selNext, afterSetErr, nextC, tot_ackWs_srall]
  | selPerErr _ i p q hi hq he =>
    have ls := le_tot srAllW _ _ _ hi
    cases p <;> simp only [selNext] at hq <;> (try contradiction) <;> cases hq <;> simp_all [srAllW, St.bg, onOk, onErr, selNext, afterSetErr, nextC, tot_ackWs_srall]
  | selClosed _ i p q hi hq hc =>
    have ls := le_tot srAllW _ _ _ hi
    cases p <;> simp only [selNext] at hq <;> (try contradiction) <;> cases hq <;> simp_all [srAllW, St.bg, onOk, onErr, selNext, afterSetErr, nextC, tot_ackWs_srall]
  | putNoWait _ i hi =>
    (try simp only [St.setDone, St.setBg, ↓reduceIte, Bool.false_eq_true, Bool.and_false, Bool.and_true, Bool.false_and, Bool.true_and]) <;> (repeat' split) <;> simp_all [srAllW, St.bg, onOk, onErr, selNext, afterSetErr, nextC, tot_ackWs_srall]
  | putWait _ i b hi =>
    cases b <;> (try simp only [St.setDone, St.setBg, ↓reduceIte, Bool.false_eq_true, Bool.and_false, Bool.and_true, Bool.false_and, Bool.true_and]) <;> (repeat' split) <;> simp_all [srAllW, St.bg, onOk, onErr, selNext, afterSetErr, nextC, tot_ackWs_srall]
  | putJournalOk _ i hi =>
    (try simp only [St.setDone, St.setBg, ↓reduceIte, Bool.false_eq_true, Bool.and_false, Bool.and_true, Bool.false_and, Bool.true_and]) <;> (repeat' split) <;> simp_all [srAllW, St.bg, onOk, onErr, selNext, afterSetErr, nextC, tot_ackWs_srall]
  | putJournalFail _ i hi =>
    (try simp only [St.setDone, St.setBg, ↓reduceIte, Bool.false_eq_true, Bool.and_false, Bool.and_true, Bool.false_and, Bool.true_and]) <;> (repeat' split) <;> simp_all [srAllW, St.bg, onOk, onErr, selNext, afterSetErr, nextC, tot_ackWs_srall]
  | putUnlock _ i r hi =>
    cases r <;> (try simp only [St.setDone, St.setBg, ↓reduceIte, Bool.false_eq_true, Bool.and_false, Bool.and_true, Bool.false_and, Bool.true_and]) <;> (repeat' split) <;> simp_all [srAllW, St.bg, onOk, onErr, selNext, afterSetErr, nextC, tot_ackWs_srall]
  | cwSendGo _ i b site lg hi hb hro =>
    cases b <;> cases lg <;> (try simp only [St.setDone, St.setBg, ↓reduceIte, Bool.false_eq_true, Bool.and_false, Bool.and_true, Bool.false_and, Bool.true_and]) <;> (repeat' split) <;> simp_all [srAllW, St.bg, onOk, onErr, selNext, afterSetErr, nextC, tot_ackWs_srall]
  | cwSendRO _ i site lg hi hb hp hro =>
    cases lg <;> (try simp only [St.setDone, St.setBg, ↓reduceIte, Bool.false_eq_true, Bool.and_false, Bool.and_true, Bool.false_and, Bool.true_and]) <;> (repeat' split) <;> simp_all [srAllW, St.bg, onOk, onErr, selNext, afterSetErr, nextC, tot_ackWs_srall]
  | cwSendErr _ i b site lg hi he =>
    cases b <;> cases lg <;> (try simp only [St.setDone, St.setBg, ↓reduceIte, Bool.false_eq_true, Bool.and_false, Bool.and_true, Bool.false_and, Bool.true_and]) <;> (repeat' split) <;> simp_all [srAllW, St.bg, onOk, onErr, selNext, afterSetErr, nextC, tot_ackWs_srall]
  | cwAckErr _ i b site lg hi he =>
    cases b <;> cases lg <;> (try simp only [St.setDone, St.setBg, ↓reduceIte, Bool.false_eq_true, Bool.and_false, Bool.and_true, Bool.false_and, Bool.true_and]) <;> (repeat' split) <;> simp_all [srAllW, St.bg, onOk, onErr, selNext, afterSetErr, nextC, tot_ackWs_srall]
  | otxRotate _ i lg hi =>
    cases lg <;> (try simp only [St.setDone, St.setBg, ↓reduceIte, Bool.false_eq_true, Bool.and_false, Bool.and_true, Bool.false_and, Bool.true_and]) <;> (repeat' split) <;> simp_all [srAllW, St.bg, onOk, onErr, selNext, afterSetErr, nextC, tot_ackWs_srall]
  | otxNoRotate _ i lg hi =>
    cases lg <;> (try simp only [St.setDone, St.setBg, ↓reduceIte, Bool.false_eq_true, Bool.and_false, Bool.and_true, Bool.false_and, Bool.true_and]) <;> (repeat' split) <;> simp_all [srAllW, St.bg, onOk, onErr, selNext, afterSetErr, nextC, tot_ackWs_srall]
  | otxNewMemOk _ i lg hi =>
    cases lg <;> (try simp only [St.setDone, St.setBg, ↓reduceIte, Bool.false_eq_true, Bool.and_false, Bool.and_true, Bool.false_and, Bool.true_and]) <;> (repeat' split) <;> simp_all [srAllW, St.bg, onOk, onErr, selNext, afterSetErr, nextC, tot_ackWs_srall]
  | otxNewMemFail _ i lg hi =>
    cases lg <;> (try simp only [St.setDone, St.setBg, ↓reduceIte, Bool.false_eq_true, Bool.and_false, Bool.and_true, Bool.false_and, Bool.true_and]) <;> (repeat' split) <;> simp_all [srAllW, St.bg, onOk, onErr, selNext, afterSetErr, nextC, tot_ackWs_srall]
  | otxNoWaitComp _ i lg hi =>
    cases lg <;> (try simp only [St.setDone, St.setBg, ↓reduceIte, Bool.false_eq_true, Bool.and_false, Bool.and_true, Bool.false_and, Bool.true_and]) <;> (repeat' split) <;> simp_all [srAllW, St.bg, onOk, onErr, selNext, afterSetErr, nextC, tot_ackWs_srall]
  | otxWaitComp _ i lg hi =>
    cases lg <;> (try simp only [St.setDone, St.setBg, ↓reduceIte, Bool.false_eq_true, Bool.and_false, Bool.and_true, Bool.false_and, Bool.true_and]) <;> (repeat' split) <;> simp_all [srAllW, St.bg, onOk, onErr, selNext, afterSetErr, nextC, tot_ackWs_srall]
  | otxFail _ i lg hi =>
    cases lg <;> (try simp only [St.setDone, St.setBg, ↓reduceIte, Bool.false_eq_true, Bool.and_false, Bool.and_true, Bool.false_and, Bool.true_and]) <;> (repeat' split) <;> simp_all [srAllW, St.bg, onOk, onErr, selNext, afterSetErr, nextC, tot_ackWs_srall]
  | otxRel _ i lg hi =>
    cases lg <;> (try simp only [St.setDone, St.setBg, ↓reduceIte, Bool.false_eq_true, Bool.and_false, Bool.and_true, Bool.false_and, Bool.true_and]) <;> (repeat' split) <;> simp_all [srAllW, St.bg, onOk, onErr, selNext, afterSetErr, nextC, tot_ackWs_srall]
  | otxDone _ i lg hi =>
    cases lg <;> (try simp only [St.setDone, St.setBg, ↓reduceIte, Bool.false_eq_true, Bool.and_false, Bool.and_true, Bool.false_and, Bool.true_and]) <;> (repeat' split) <;> simp_all [srAllW, St.bg, onOk, onErr, selNext, afterSetErr, nextC, tot_ackWs_srall]
  | lgWriteOk _ i hi =>
    (try simp only [St.setDone, St.setBg, ↓reduceIte, Bool.false_eq_true, Bool.and_false, Bool.and_true, Bool.false_and, Bool.true_and]) <;> (repeat' split) <;> simp_all [srAllW, St.bg, onOk, onErr, selNext, afterSetErr, nextC, tot_ackWs_srall]
  | lgWriteFail _ i hi =>
    (try simp only [St.setDone, St.setBg, ↓reduceIte, Bool.false_eq_true, Bool.and_false, Bool.and_true, Bool.false_and, Bool.true_and]) <;> (repeat' split) <;> simp_all [srAllW, St.bg, onOk, onErr, selNext, afterSetErr, nextC, tot_ackWs_srall]
  | cmLockTr _ i lg hi hl =>
    cases lg <;> (try simp only [St.setDone, St.setBg, ↓reduceIte, Bool.false_eq_true, Bool.and_false, Bool.and_true, Bool.false_and, Bool.true_and]) <;> (repeat' split) <;> simp_all [srAllW, St.bg, onOk, onErr, selNext, afterSetErr, nextC, tot_ackWs_srall]
  | cmFlushOk _ i lg hi =>
    cases lg <;> (try simp only [St.setDone, St.setBg, ↓reduceIte, Bool.false_eq_true, Bool.and_false, Bool.and_true, Bool.false_and, Bool.true_and]) <;> (repeat' split) <;> simp_all [srAllW, St.bg, onOk, onErr, selNext, afterSetErr, nextC, tot_ackWs_srall]
  | cmFlushEmpty _ i lg hi =>
    cases lg <;> (try simp only [St.setDone, St.setBg, ↓reduceIte, Bool.false_eq_true, Bool.and_false, Bool.and_true, Bool.false_and, Bool.true_and]) <;> (repeat' split) <;> simp_all [srAllW, St.bg, onOk, onErr, selNext, afterSetErr, nextC, tot_ackWs_srall]
  | cmFlushFail _ i lg hi =>
    cases lg <;> (try simp only [St.setDone, St.setBg, ↓reduceIte, Bool.false_eq_true, Bool.and_false, Bool.and_true, Bool.false_and, Bool.true_and]) <;> (repeat' split) <;> simp_all [srAllW, St.bg, onOk, onErr, selNext, afterSetErr, nextC, tot_ackWs_srall]
  | cmLockClk _ i lg hi hl =>
    cases lg <;> (try simp only [St.setDone, St.setBg, ↓reduceIte, Bool.false_eq_true, Bool.and_false, Bool.and_true, Bool.false_and, Bool.true_and]) <;> (repeat' split) <;> simp_all [srAllW, St.bg, onOk, onErr, selNext, afterSetErr, nextC, tot_ackWs_srall]
  | cmTryOk _ i k lg hi =>
    cases lg <;> (try simp only [St.setDone, St.setBg, ↓reduceIte, Bool.false_eq_true, Bool.and_false, Bool.and_true, Bool.false_and, Bool.true_and]) <;> (repeat' split) <;> simp_all [srAllW, St.bg, onOk, onErr, selNext, afterSetErr, nextC, tot_ackWs_srall]
  | cmTryFail _ i k lg hi =>
    cases lg <;> (try simp only [St.setDone, St.setBg, ↓reduceIte, Bool.false_eq_true, Bool.and_false, Bool.and_true, Bool.false_and, Bool.true_and]) <;> (repeat' split) <;> simp_all [srAllW, St.bg, onOk, onErr, selNext, afterSetErr, nextC, tot_ackWs_srall]
  | cmSleepTimer _ i k lg hi =>
    cases lg <;> (try simp only [St.setDone, St.setBg, ↓reduceIte, Bool.false_eq_true, Bool.and_false, Bool.and_true, Bool.false_and, Bool.true_and]) <;> (repeat' split) <;> simp_all [srAllW, St.bg, onOk, onErr, selNext, afterSetErr, nextC, tot_ackWs_srall]
  | cmSleepClosed _ i k lg hi hc =>
    cases lg <;> (try simp only [St.setDone, St.setBg, ↓reduceIte, Bool.false_eq_true, Bool.and_false, Bool.and_true, Bool.false_and, Bool.true_and]) <;> (repeat' split) <;> simp_all [srAllW, St.bg, onOk, onErr, selNext, afterSetErr, nextC, tot_ackWs_srall]
  | cmFail3 _ i lg hi =>
    cases lg <;> (try simp only [St.setDone, St.setBg, ↓reduceIte, Bool.false_eq_true, Bool.and_false, Bool.and_true, Bool.false_and, Bool.true_and]) <;> (repeat' split) <;> simp_all [srAllW, St.bg, onOk, onErr, selNext, afterSetErr, nextC, tot_ackWs_srall]
  | cmAfterOk _ i lg hi =>
    cases lg <;> (try simp only [St.setDone, St.setBg, ↓reduceIte, Bool.false_eq_true, Bool.and_false, Bool.and_true, Bool.false_and, Bool.true_and]) <;> (repeat' split) <;> simp_all [srAllW, St.bg, onOk, onErr, selNext, afterSetErr, nextC, tot_ackWs_srall]
  | cmNoWaitComp _ i lg hi =>
    cases lg <;> (try simp only [St.setDone, St.setBg, ↓reduceIte, Bool.false_eq_true, Bool.and_false, Bool.and_true, Bool.false_and, Bool.true_and]) <;> (repeat' split) <;> simp_all [srAllW, St.bg, onOk, onErr, selNext, afterSetErr, nextC, tot_ackWs_srall]
  | cmWaitComp _ i lg hi =>
    cases lg <;> (try simp only [St.setDone, St.setBg, ↓reduceIte, Bool.false_eq_true, Bool.and_false, Bool.and_true, Bool.false_and, Bool.true_and]) <;> (repeat' split) <;> simp_all [srAllW, St.bg, onOk, onErr, selNext, afterSetErr, nextC, tot_ackWs_srall]
  | cmDone _ i lg hi =>
    cases lg <;> (try simp only [St.setDone, St.setBg, ↓reduceIte, Bool.false_eq_true, Bool.and_false, Bool.and_true, Bool.false_and, Bool.true_and]) <;> (repeat' split) <;> simp_all [srAllW, St.bg, onOk, onErr, selNext, afterSetErr, nextC, tot_ackWs_srall]
  | cmRet _ i ok lg hi =>
    cases ok <;> cases lg <;> (try simp only [St.setDone, St.setBg, ↓reduceIte, Bool.false_eq_true, Bool.and_false, Bool.and_true, Bool.false_and, Bool.true_and]) <;> (repeat' split) <;> simp_all [srAllW, St.bg, onOk, onErr, selNext, afterSetErr, nextC, tot_ackWs_srall]
  | dcLockTr _ i lg hi hl =>
    cases lg <;> (try simp only [St.setDone, St.setBg, ↓reduceIte, Bool.false_eq_true, Bool.and_false, Bool.and_true, Bool.false_and, Bool.true_and]) <;> (repeat' split) <;> simp_all [srAllW, St.bg, onOk, onErr, selNext, afterSetErr, nextC, tot_ackWs_srall]
  | dcBody _ i lg hi =>
    cases lg <;> (try simp only [St.setDone, St.setBg, ↓reduceIte, Bool.false_eq_true, Bool.and_false, Bool.and_true, Bool.false_and, Bool.true_and]) <;> (repeat' split) <;> simp_all [srAllW, St.bg, onOk, onErr, selNext, afterSetErr, nextC, tot_ackWs_srall]
  | crNoOverlap _ i hi =>
    (try simp only [St.setDone, St.setBg, ↓reduceIte, Bool.false_eq_true, Bool.and_false, Bool.and_true, Bool.false_and, Bool.true_and]) <;> (repeat' split) <;> simp_all [srAllW, St.bg, onOk, onErr, selNext, afterSetErr, nextC, tot_ackWs_srall]
  | crOverlap _ i hi =>
    (try simp only [St.setDone, St.setBg, ↓reduceIte, Bool.false_eq_true, Bool.and_false, Bool.and_true, Bool.false_and, Bool.true_and]) <;> (repeat' split) <;> simp_all [srAllW, St.bg, onOk, onErr, selNext, afterSetErr, nextC, tot_ackWs_srall]
  | crNewMemOk _ i hi =>
    (try simp only [St.setDone, St.setBg, ↓reduceIte, Bool.false_eq_true, Bool.and_false, Bool.and_true, Bool.false_and, Bool.true_and]) <;> (repeat' split) <;> simp_all [srAllW, St.bg, onOk, onErr, selNext, afterSetErr, nextC, tot_ackWs_srall]
  | crNewMemFail _ i hi =>
    (try simp only [St.setDone, St.setBg, ↓reduceIte, Bool.false_eq_true, Bool.and_false, Bool.and_true, Bool.false_and, Bool.true_and]) <;> (repeat' split) <;> simp_all [srAllW, St.bg, onOk, onErr, selNext, afterSetErr, nextC, tot_ackWs_srall]
  | crRelM _ i hi =>
    (try simp only [St.setDone, St.setBg, ↓reduceIte, Bool.false_eq_true, Bool.and_false, Bool.and_true, Bool.false_and, Bool.true_and]) <;> (repeat' split) <;> simp_all [srAllW, St.bg, onOk, onErr, selNext, afterSetErr, nextC, tot_ackWs_srall]
  | crRelOk _ i hi =>
    (try simp only [St.setDone, St.setBg, ↓reduceIte, Bool.false_eq_true, Bool.and_false, Bool.and_true, Bool.false_and, Bool.true_and]) <;> (repeat' split) <;> simp_all [srAllW, St.bg, onOk, onErr, selNext, afterSetErr, nextC, tot_ackWs_srall]
  | crRelFail _ i hi =>
    (try simp only [St.setDone, St.setBg, ↓reduceIte, Bool.false_eq_true, Bool.and_false, Bool.and_true, Bool.false_and, Bool.true_and]) <;> (repeat' split) <;> simp_all [srAllW, St.bg, onOk, onErr, selNext, afterSetErr, nextC, tot_ackWs_srall]
  | srSend _ i hi he =>
    have ls := le_tot srAllW _ _ _ hi
    simp only [srAllW] at ls
    omega
  | srPerErr _ i hi he =>
    have ls := le_tot srAllW _ _ _ hi
    simp only [srAllW] at ls
    omega
  | srClosed _ i hi hc =>
    have ls := le_tot srAllW _ _ _ hi
    simp only [srAllW] at ls
    omega
  | clCheckTr _ i hi =>
    (try simp only [St.setDone, St.setBg, ↓reduceIte, Bool.false_eq_true, Bool.and_false, Bool.and_true, Bool.false_and, Bool.true_and]) <;> (repeat' split) <;> simp_all [srAllW, St.bg, onOk, onErr, selNext, afterSetErr, nextC, tot_ackWs_srall]
  | clLockTr _ i hi hl =>
    (try simp only [St.setDone, St.setBg, ↓reduceIte, Bool.false_eq_true, Bool.and_false, Bool.and_true, Bool.false_and, Bool.true_and]) <;> (repeat' split) <;> simp_all [srAllW, St.bg, onOk, onErr, selNext, afterSetErr, nextC, tot_ackWs_srall]
  | clBody _ i hi =>
    (try simp only [St.setDone, St.setBg, ↓reduceIte, Bool.false_eq_true, Bool.and_false, Bool.and_true, Bool.false_and, Bool.true_and]) <;> (repeat' split) <;> simp_all [srAllW, St.bg, onOk, onErr, selNext, afterSetErr, nextC, tot_ackWs_srall]
  | clAcq _ i hi ht =>
    (try simp only [St.setDone, St.setBg, ↓reduceIte, Bool.false_eq_true, Bool.and_false, Bool.and_true, Bool.false_and, Bool.true_and]) <;> (repeat' split) <;> simp_all [srAllW, St.bg, onOk, onErr, selNext, afterSetErr, nextC, tot_ackWs_srall]
  | clAcqKept _ i hi he hk hs =>
    (try simp only [St.setDone, St.setBg, ↓reduceIte, Bool.false_eq_true, Bool.and_false, Bool.and_true, Bool.false_and, Bool.true_and]) <;> (repeat' split) <;> simp_all [srAllW, St.bg, onOk, onErr, selNext, afterSetErr, nextC, tot_ackWs_srall]
  | clWait _ i hi hm ht =>
    (try simp only [St.setDone, St.setBg, ↓reduceIte, Bool.false_eq_true, Bool.and_false, Bool.and_true, Bool.false_and, Bool.true_and]) <;> (repeat' split) <;> simp_all [srAllW, St.bg, onOk, onErr, selNext, afterSetErr, nextC, tot_ackWs_srall]
  | ehAcquire _ he ht =>
    (try simp only [St.setDone, St.setBg, ↓reduceIte, Bool.false_eq_true, Bool.and_false, Bool.and_true, Bool.false_and, Bool.true_and]) <;> (repeat' split) <;> simp_all [srAllW, St.bg, onOk, onErr, selNext, afterSetErr, nextC, tot_ackWs_srall]
  | ehClose _ he hc =>
    simp only [hm, closes_asCoded] at he
    rcases he with he | he | he <;> (try simp only [St.setDone, St.setBg, ↓reduceIte, Bool.false_eq_true, Bool.and_false, Bool.and_true, Bool.false_and, Bool.true_and]) <;> (repeat' split) <;> simp_all [srAllW, St.bg, onOk, onErr, selNext, afterSetErr, nextC, tot_ackWs_srall]
  | ehTake _ he ht =>
    (try simp only [St.setDone, St.setBg, ↓reduceIte, Bool.false_eq_true, Bool.and_false, Bool.and_true, Bool.false_and, Bool.true_and]) <;> (repeat' split) <;> simp_all [srAllW, St.bg, onOk, onErr, selNext, afterSetErr, nextC, tot_ackWs_srall]
  | bgExitIdle _ b hb hc =>
    cases b <;> (try simp only [St.setDone, St.setBg, ↓reduceIte, Bool.false_eq_true, Bool.and_false, Bool.and_true, Bool.false_and, Bool.true_and]) <;> (repeat' split) <;> simp_all [srAllW, St.bg, onOk, onErr, selNext, afterSetErr, nextC, tot_ackWs_srall]
  | bgExitParked _ hb hc =>
    (try simp only [St.setDone, St.setBg, ↓reduceIte, Bool.false_eq_true, Bool.and_false, Bool.and_true, Bool.false_and, Bool.true_and]) <;> (repeat' split) <;> simp_all [srAllW, St.bg, onOk, onErr, selNext, afterSetErr, nextC, tot_ackWs_srall]
  | bgWorkCorrupt _ b w hb hk =>
    cases b <;> (try simp only [St.setDone, St.setBg, ↓reduceIte, Bool.false_eq_true, Bool.and_false, Bool.and_true, Bool.false_and, Bool.true_and]) <;> (repeat' split) <;> simp_all [srAllW, St.bg, onOk, onErr, selNext, afterSetErr, nextC, tot_ackWs_srall]
  | bgCommitCorrupt _ b w hb hk =>
    cases b <;> (try simp only [St.setDone, St.setBg, ↓reduceIte, Bool.false_eq_true, Bool.and_false, Bool.and_true, Bool.false_and, Bool.true_and]) <;> (repeat' split) <;> simp_all [srAllW, St.bg, onOk, onErr, selNext, afterSetErr, nextC, tot_ackWs_srall]
  | bgSetErrCorrupt _ b w c hb he =>
    simp only [hm, recvs_asCoded] at he
    rcases he with he | he <;> cases b <;> cases c <;> (try simp only [St.setDone, St.setBg, ↓reduceIte, Bool.false_eq_true, Bool.and_false, Bool.and_true, Bool.false_and, Bool.true_and]) <;> (repeat' split) <;> simp_all [srAllW, St.bg, onOk, onErr, selNext, afterSetErr, nextC, tot_ackWs_srall]
  | bgWorkOk _ b w hb =>
    cases b <;> (try simp only [St.setDone, St.setBg, ↓reduceIte, Bool.false_eq_true, Bool.and_false, Bool.and_true, Bool.false_and, Bool.true_and]) <;> (repeat' split) <;> simp_all [srAllW, St.bg, onOk, onErr, selNext, afterSetErr, nextC, tot_ackWs_srall]
  | bgWorkFail _ b w hb =>
    cases b <;> (try simp only [St.setDone, St.setBg, ↓reduceIte, Bool.false_eq_true, Bool.and_false, Bool.and_true, Bool.false_and, Bool.true_and]) <;> (repeat' split) <;> simp_all [srAllW, St.bg, onOk, onErr, selNext, afterSetErr, nextC, tot_ackWs_srall]
  | bgCommitOk _ b w hb =>
    cases b <;> (try simp only [St.setDone, St.setBg, ↓reduceIte, Bool.false_eq_true, Bool.and_false, Bool.and_true, Bool.false_and, Bool.true_and]) <;> (repeat' split) <;> simp_all [srAllW, St.bg, onOk, onErr, selNext, afterSetErr, nextC, tot_ackWs_srall]
  | bgCommitFail _ b w hb =>
    cases b <;> (try simp only [St.setDone, St.setBg, ↓reduceIte, Bool.false_eq_true, Bool.and_false, Bool.and_true, Bool.false_and, Bool.true_and]) <;> (repeat' split) <;> simp_all [srAllW, St.bg, onOk, onErr, selNext, afterSetErr, nextC, tot_ackWs_srall]
  | bgSetErr _ b w ok c hb he =>
    simp only [hm, recvs_asCoded] at he
    rcases he with he | he <;> cases b <;> cases ok <;> cases c <;> (try simp only [St.setDone, St.setBg, ↓reduceIte, Bool.false_eq_true, Bool.and_false, Bool.and_true, Bool.false_and, Bool.true_and]) <;> (repeat' split) <;> simp_all [srAllW, St.bg, onOk, onErr, selNext, afterSetErr, nextC, tot_ackWs_srall]
  | bgSetErrPer _ b w c hb he =>
    cases b <;> cases c <;> (try simp only [St.setDone, St.setBg, ↓reduceIte, Bool.false_eq_true, Bool.and_false, Bool.and_true, Bool.false_and, Bool.true_and]) <;> (repeat' split) <;> simp_all [srAllW, St.bg, onOk, onErr, selNext, afterSetErr, nextC, tot_ackWs_srall]
  | bgBackoff _ b w c hb =>
    cases b <;> cases c <;> (try simp only [St.setDone, St.setBg, ↓reduceIte, Bool.false_eq_true, Bool.and_false, Bool.and_true, Bool.false_and, Bool.true_and]) <;> (repeat' split) <;> simp_all [srAllW, St.bg, onOk, onErr, selNext, afterSetErr, nextC, tot_ackWs_srall]
  | bgLockClk _ b w hb hl =>
    cases b <;> (try simp only [St.setDone, St.setBg, ↓reduceIte, Bool.false_eq_true, Bool.and_false, Bool.and_true, Bool.false_and, Bool.true_and]) <;> (repeat' split) <;> simp_all [srAllW, St.bg, onOk, onErr, selNext, afterSetErr, nextC, tot_ackWs_srall]
  | bgAck _ b w hb =>
    cases b <;> (try simp only [St.setDone, St.setBg, ↓reduceIte, Bool.false_eq_true, Bool.and_false, Bool.and_true, Bool.false_and, Bool.true_and]) <;> (repeat' split) <;> simp_all [srAllW, St.bg, onOk, onErr, selNext, afterSetErr, nextC, tot_ackWs_srall]
  | bgExit _ b w ph hb hx =>
    cases b <;> (try simp only [St.setDone, St.setBg, ↓reduceIte, Bool.false_eq_true, Bool.and_false, Bool.and_true, Bool.false_and, Bool.true_and]) <;> (repeat' split) <;> simp_all [srAllW, St.bg, onOk, onErr, selNext, afterSetErr, nextC, tot_ackWs_srall]

theorem noSR_closing (cfg : Cfg) (hm : cfg.m = .asCoded cfg.closeSel) (s : St) (hr : ReachableNoSR cfg s) :
    s.eh = .closing → s.ehTok = true := by
  obtain ⟨n, hs⟩ := hr
  have key : ∀ s, Steps cfg (initNoSR n) s → NoSR s ∧ KInv s := by
    intro s hs
    induction hs with
    | refl => exact ⟨initNoSR_noSR n, (fun _ (h : false = true) => by cases h), (fun h => by cases h)⟩
    | tail _ h ih => exact ⟨step_noSR cfg _ _ _ h ih.1, step_kinv _ _ _ cfg hm ih.1 h ih.2⟩
  intro hc
  have k := (key s hs).2
  exact k.1 (by rw [hc]; simp) (k.2 hc)

/-- since 832d000 (`Cfg.HandsOver`), in every run: when `compWriteLocking` is set and `compactionError` has not
returned, its token is in `writeLockC` and no `SetReadOnly` is between its two `select`s; a `SetReadOnly` between
its two `select`s (at most one) has its token there; the machine is in its `closeC` case only with
`compWriteLocking` set -/
def HInv (s : St) : Prop :=
  (s.cwl = true → s.eh ≠ .exited → s.ehTok = true ∧ tot srW s.ws = 0) ∧ tot srW s.ws ≤ b2n s.ehTok ∧
  (s.eh = .closing → s.cwl = true)

theorem step_hinv (s t : St) (f : Bool) (cfg : Cfg) (hm : cfg.m = .asCoded cfg.closeSel) (hh : cfg.HandsOver)
    (h4 : cfg.setReadOnlyReleasesOnClose = true) (hE : TokE s) (h : Step cfg f s t) (inv : HInv s) : HInv t := by
  unfold HInv TokE at *
  obtain ⟨k1, k2, k3⟩ := inv
  obtain ⟨s1, s2, s3, s4⟩ := hh
  have c1 := b2n_le s.trOpen
  have c2 := b2n_le s.ehTok
  have c3 := b2n_le s.closeTok
  have c4 := b2n_le s.tok
  cases h with
  | startPut _ i hi =>
    have l0 := le_tot srW _ _ _ hi
    have l1 := le_tot tokW _ _ _ hi
    (try simp only [St.setDone, St.setBg, ↓reduceIte, Bool.false_eq_true, Bool.and_false, Bool.and_true, Bool.false_and, Bool.true_and]) <;> (repeat' split) <;> simp_all [tot_set_eq _ _ _ _ _ hi, tot_ackWs_srw', tot_ackWs_tok, b2n_true, b2n_false, srW, tokW, St.bg, onOk, onErr, selNext, afterSetErr, srAllW, nextC, roSets] <;> (try omega) <;> (try (cases hk : s.ehTok <;> cases hk2 : s.cwl <;> simp_all [b2n_true, b2n_false] <;> omega))
  | startWrite _ i hi =>
    have l0 := le_tot srW _ _ _ hi
    have l1 := le_tot tokW _ _ _ hi
    (try simp only [St.setDone, St.setBg, ↓reduceIte, Bool.false_eq_true, Bool.and_false, Bool.and_true, Bool.false_and, Bool.true_and]) <;> (repeat' split) <;> simp_all [tot_set_eq _ _ _ _ _ hi, tot_ackWs_srw', tot_ackWs_tok, b2n_true, b2n_false, srW, tokW, St.bg, onOk, onErr, selNext, afterSetErr, srAllW, nextC, roSets] <;> (try omega) <;> (try (cases hk : s.ehTok <;> cases hk2 : s.cwl <;> simp_all [b2n_true, b2n_false] <;> omega))
  | startOtx _ i hi =>
    have l0 := le_tot srW _ _ _ hi
    have l1 := le_tot tokW _ _ _ hi
    (try simp only [St.setDone, St.setBg, ↓reduceIte, Bool.false_eq_true, Bool.and_false, Bool.and_true, Bool.false_and, Bool.true_and]) <;> (repeat' split) <;> simp_all [tot_set_eq _ _ _ _ _ hi, tot_ackWs_srw', tot_ackWs_tok, b2n_true, b2n_false, srW, tokW, St.bg, onOk, onErr, selNext, afterSetErr, srAllW, nextC, roSets] <;> (try omega) <;> (try (cases hk : s.ehTok <;> cases hk2 : s.cwl <;> simp_all [b2n_true, b2n_false] <;> omega))
  | startCommit _ i hi hu =>
    have l0 := le_tot srW _ _ _ hi
    have l1 := le_tot tokW _ _ _ hi
    (try simp only [St.setDone, St.setBg, ↓reduceIte, Bool.false_eq_true, Bool.and_false, Bool.and_true, Bool.false_and, Bool.true_and]) <;> (repeat' split) <;> simp_all [tot_set_eq _ _ _ _ _ hi, tot_ackWs_srw', tot_ackWs_tok, b2n_true, b2n_false, srW, tokW, St.bg, onOk, onErr, selNext, afterSetErr, srAllW, nextC, roSets] <;> (try omega) <;> (try (cases hk : s.ehTok <;> cases hk2 : s.cwl <;> simp_all [b2n_true, b2n_false] <;> omega))
  | startDiscard _ i hi hu =>
    have l0 := le_tot srW _ _ _ hi
    have l1 := le_tot tokW _ _ _ hi
    (try simp only [St.setDone, St.setBg, ↓reduceIte, Bool.false_eq_true, Bool.and_false, Bool.and_true, Bool.false_and, Bool.true_and]) <;> (repeat' split) <;> simp_all [tot_set_eq _ _ _ _ _ hi, tot_ackWs_srw', tot_ackWs_tok, b2n_true, b2n_false, srW, tokW, St.bg, onOk, onErr, selNext, afterSetErr, srAllW, nextC, roSets] <;> (try omega) <;> (try (cases hk : s.ehTok <;> cases hk2 : s.cwl <;> simp_all [b2n_true, b2n_false] <;> omega))
  | startCR _ i hi =>
    have l0 := le_tot srW _ _ _ hi
    have l1 := le_tot tokW _ _ _ hi
    (try simp only [St.setDone, St.setBg, ↓reduceIte, Bool.false_eq_true, Bool.and_false, Bool.and_true, Bool.false_and, Bool.true_and]) <;> (repeat' split) <;> simp_all [tot_set_eq _ _ _ _ _ hi, tot_ackWs_srw', tot_ackWs_tok, b2n_true, b2n_false, srW, tokW, St.bg, onOk, onErr, selNext, afterSetErr, srAllW, nextC, roSets] <;> (try omega) <;> (try (cases hk : s.ehTok <;> cases hk2 : s.cwl <;> simp_all [b2n_true, b2n_false] <;> omega))
  | startSR _ i hi ha =>
    have l0 := le_tot srW _ _ _ hi
    have l1 := le_tot tokW _ _ _ hi
    (try simp only [St.setDone, St.setBg, ↓reduceIte, Bool.false_eq_true, Bool.and_false, Bool.and_true, Bool.false_and, Bool.true_and]) <;> (repeat' split) <;> simp_all [tot_set_eq _ _ _ _ _ hi, tot_ackWs_srw', tot_ackWs_tok, b2n_true, b2n_false, srW, tokW, St.bg, onOk, onErr, selNext, afterSetErr, srAllW, nextC, roSets] <;> (try omega) <;> (try (cases hk : s.ehTok <;> cases hk2 : s.cwl <;> simp_all [b2n_true, b2n_false] <;> omega))
  | startClose _ i hi =>
    have l0 := le_tot srW _ _ _ hi
    have l1 := le_tot tokW _ _ _ hi
    (try simp only [St.setDone, St.setBg, ↓reduceIte, Bool.false_eq_true, Bool.and_false, Bool.and_true, Bool.false_and, Bool.true_and]) <;> (repeat' split) <;> simp_all [tot_set_eq _ _ _ _ _ hi, tot_ackWs_srw', tot_ackWs_tok, b2n_true, b2n_false, srW, tokW, St.bg, onOk, onErr, selNext, afterSetErr, srAllW, nextC, roSets] <;> (try omega) <;> (try (cases hk : s.ehTok <;> cases hk2 : s.cwl <;> simp_all [b2n_true, b2n_false] <;> omega))
  | selTok _ i p q hi hq ht =>
    have l0 := le_tot srW _ _ _ hi
    have l1 := le_tot tokW _ _ _ hi
    cases hk : s.ehTok <;> cases hk2 : s.cwl <;> simp only [hk, hk2, b2n_true, b2n_false] at hE k1 k2 <;> cases p <;> simp only [selNext] at hq <;> (try contradiction) <;> cases hq <;> simp_all [tot_set_eq _ _ _ _ _ hi, tot_ackWs_srw', tot_ackWs_tok, b2n_true, b2n_false, srW, tokW, St.bg, onOk, onErr, selNext, afterSetErr, srAllW, nextC, roSets] <;> (try omega) <;> (try (cases hk : s.ehTok <;> cases hk2 : s.cwl <;> simp_all [b2n_true, b2n_false] <;> omega))
  | selPerErr _ i p q hi hq he =>
    have l0 := le_tot srW _ _ _ hi
    have l1 := le_tot tokW _ _ _ hi
    cases p <;> simp only [selNext] at hq <;> (try contradiction) <;> cases hq <;> simp_all [tot_set_eq _ _ _ _ _ hi, tot_ackWs_srw', tot_ackWs_tok, b2n_true, b2n_false, srW, tokW, St.bg, onOk, onErr, selNext, afterSetErr, srAllW, nextC, roSets] <;> (try omega) <;> (try (cases hk : s.ehTok <;> cases hk2 : s.cwl <;> simp_all [b2n_true, b2n_false] <;> omega))
  | selClosed _ i p q hi hq hc =>
    have l0 := le_tot srW _ _ _ hi
    have l1 := le_tot tokW _ _ _ hi
    cases p <;> simp only [selNext] at hq <;> (try contradiction) <;> cases hq <;> simp_all [tot_set_eq _ _ _ _ _ hi, tot_ackWs_srw', tot_ackWs_tok, b2n_true, b2n_false, srW, tokW, St.bg, onOk, onErr, selNext, afterSetErr, srAllW, nextC, roSets] <;> (try omega) <;> (try (cases hk : s.ehTok <;> cases hk2 : s.cwl <;> simp_all [b2n_true, b2n_false] <;> omega))
  | putNoWait _ i hi =>
    have l0 := le_tot srW _ _ _ hi
    have l1 := le_tot tokW _ _ _ hi
    (try simp only [St.setDone, St.setBg, ↓reduceIte, Bool.false_eq_true, Bool.and_false, Bool.and_true, Bool.false_and, Bool.true_and]) <;> (repeat' split) <;> simp_all [tot_set_eq _ _ _ _ _ hi, tot_ackWs_srw', tot_ackWs_tok, b2n_true, b2n_false, srW, tokW, St.bg, onOk, onErr, selNext, afterSetErr, srAllW, nextC, roSets] <;> (try omega) <;> (try (cases hk : s.ehTok <;> cases hk2 : s.cwl <;> simp_all [b2n_true, b2n_false] <;> omega))
  | putWait _ i b hi =>
    have l0 := le_tot srW _ _ _ hi
    have l1 := le_tot tokW _ _ _ hi
    cases b <;> (try simp only [St.setDone, St.setBg, ↓reduceIte, Bool.false_eq_true, Bool.and_false, Bool.and_true, Bool.false_and, Bool.true_and]) <;> (repeat' split) <;> simp_all [tot_set_eq _ _ _ _ _ hi, tot_ackWs_srw', tot_ackWs_tok, b2n_true, b2n_false, srW, tokW, St.bg, onOk, onErr, selNext, afterSetErr, srAllW, nextC, roSets] <;> (try omega) <;> (try (cases hk : s.ehTok <;> cases hk2 : s.cwl <;> simp_all [b2n_true, b2n_false] <;> omega))
  | putJournalOk _ i hi =>
    have l0 := le_tot srW _ _ _ hi
    have l1 := le_tot tokW _ _ _ hi
    (try simp only [St.setDone, St.setBg, ↓reduceIte, Bool.false_eq_true, Bool.and_false, Bool.and_true, Bool.false_and, Bool.true_and]) <;> (repeat' split) <;> simp_all [tot_set_eq _ _ _ _ _ hi, tot_ackWs_srw', tot_ackWs_tok, b2n_true, b2n_false, srW, tokW, St.bg, onOk, onErr, selNext, afterSetErr, srAllW, nextC, roSets] <;> (try omega) <;> (try (cases hk : s.ehTok <;> cases hk2 : s.cwl <;> simp_all [b2n_true, b2n_false] <;> omega))
  | putJournalFail _ i hi =>
    have l0 := le_tot srW _ _ _ hi
    have l1 := le_tot tokW _ _ _ hi
    (try simp only [St.setDone, St.setBg, ↓reduceIte, Bool.false_eq_true, Bool.and_false, Bool.and_true, Bool.false_and, Bool.true_and]) <;> (repeat' split) <;> simp_all [tot_set_eq _ _ _ _ _ hi, tot_ackWs_srw', tot_ackWs_tok, b2n_true, b2n_false, srW, tokW, St.bg, onOk, onErr, selNext, afterSetErr, srAllW, nextC, roSets] <;> (try omega) <;> (try (cases hk : s.ehTok <;> cases hk2 : s.cwl <;> simp_all [b2n_true, b2n_false] <;> omega))
  | putUnlock _ i r hi =>
    have l0 := le_tot srW _ _ _ hi
    have l1 := le_tot tokW _ _ _ hi
    cases r <;> (try simp only [St.setDone, St.setBg, ↓reduceIte, Bool.false_eq_true, Bool.and_false, Bool.and_true, Bool.false_and, Bool.true_and]) <;> (repeat' split) <;> simp_all [tot_set_eq _ _ _ _ _ hi, tot_ackWs_srw', tot_ackWs_tok, b2n_true, b2n_false, srW, tokW, St.bg, onOk, onErr, selNext, afterSetErr, srAllW, nextC, roSets] <;> (try omega) <;> (try (cases hk : s.ehTok <;> cases hk2 : s.cwl <;> simp_all [b2n_true, b2n_false] <;> omega))
  | cwSendGo _ i b site lg hi hb hro =>
    have l0 := le_tot srW _ _ _ hi
    have l1 := le_tot tokW _ _ _ hi
    cases site <;> cases b <;> cases lg <;> (try simp only [St.setDone, St.setBg, ↓reduceIte, Bool.false_eq_true, Bool.and_false, Bool.and_true, Bool.false_and, Bool.true_and]) <;> (repeat' split) <;> simp_all [tot_set_eq _ _ _ _ _ hi, tot_ackWs_srw', tot_ackWs_tok, b2n_true, b2n_false, srW, tokW, St.bg, onOk, onErr, selNext, afterSetErr, srAllW, nextC, roSets] <;> (try omega) <;> (try (cases hk : s.ehTok <;> cases hk2 : s.cwl <;> simp_all [b2n_true, b2n_false] <;> omega))
  | cwSendRO _ i site lg hi hb hp hro =>
    have l0 := le_tot srW _ _ _ hi
    have l1 := le_tot tokW _ _ _ hi
    cases site <;> cases lg <;> (try simp only [St.setDone, St.setBg, ↓reduceIte, Bool.false_eq_true, Bool.and_false, Bool.and_true, Bool.false_and, Bool.true_and]) <;> (repeat' split) <;> simp_all [tot_set_eq _ _ _ _ _ hi, tot_ackWs_srw', tot_ackWs_tok, b2n_true, b2n_false, srW, tokW, St.bg, onOk, onErr, selNext, afterSetErr, srAllW, nextC, roSets] <;> (try omega) <;> (try (cases hk : s.ehTok <;> cases hk2 : s.cwl <;> simp_all [b2n_true, b2n_false] <;> omega))
  | cwSendErr _ i b site lg hi he =>
    have l0 := le_tot srW _ _ _ hi
    have l1 := le_tot tokW _ _ _ hi
    cases site <;> cases b <;> cases lg <;> (try simp only [St.setDone, St.setBg, ↓reduceIte, Bool.false_eq_true, Bool.and_false, Bool.and_true, Bool.false_and, Bool.true_and]) <;> (repeat' split) <;> simp_all [tot_set_eq _ _ _ _ _ hi, tot_ackWs_srw', tot_ackWs_tok, b2n_true, b2n_false, srW, tokW, St.bg, onOk, onErr, selNext, afterSetErr, srAllW, nextC, roSets] <;> (try omega) <;> (try (cases hk : s.ehTok <;> cases hk2 : s.cwl <;> simp_all [b2n_true, b2n_false] <;> omega))
  | cwAckErr _ i b site lg hi he =>
    have l0 := le_tot srW _ _ _ hi
    have l1 := le_tot tokW _ _ _ hi
    cases site <;> cases b <;> cases lg <;> (try simp only [St.setDone, St.setBg, ↓reduceIte, Bool.false_eq_true, Bool.and_false, Bool.and_true, Bool.false_and, Bool.true_and]) <;> (repeat' split) <;> simp_all [tot_set_eq _ _ _ _ _ hi, tot_ackWs_srw', tot_ackWs_tok, b2n_true, b2n_false, srW, tokW, St.bg, onOk, onErr, selNext, afterSetErr, srAllW, nextC, roSets] <;> (try omega) <;> (try (cases hk : s.ehTok <;> cases hk2 : s.cwl <;> simp_all [b2n_true, b2n_false] <;> omega))
  | otxRotate _ i lg hi =>
    have l0 := le_tot srW _ _ _ hi
    have l1 := le_tot tokW _ _ _ hi
    cases lg <;> (try simp only [St.setDone, St.setBg, ↓reduceIte, Bool.false_eq_true, Bool.and_false, Bool.and_true, Bool.false_and, Bool.true_and]) <;> (repeat' split) <;> simp_all [tot_set_eq _ _ _ _ _ hi, tot_ackWs_srw', tot_ackWs_tok, b2n_true, b2n_false, srW, tokW, St.bg, onOk, onErr, selNext, afterSetErr, srAllW, nextC, roSets] <;> (try omega) <;> (try (cases hk : s.ehTok <;> cases hk2 : s.cwl <;> simp_all [b2n_true, b2n_false] <;> omega))
  | otxNoRotate _ i lg hi =>
    have l0 := le_tot srW _ _ _ hi
    have l1 := le_tot tokW _ _ _ hi
    cases lg <;> (try simp only [St.setDone, St.setBg, ↓reduceIte, Bool.false_eq_true, Bool.and_false, Bool.and_true, Bool.false_and, Bool.true_and]) <;> (repeat' split) <;> simp_all [tot_set_eq _ _ _ _ _ hi, tot_ackWs_srw', tot_ackWs_tok, b2n_true, b2n_false, srW, tokW, St.bg, onOk, onErr, selNext, afterSetErr, srAllW, nextC, roSets] <;> (try omega) <;> (try (cases hk : s.ehTok <;> cases hk2 : s.cwl <;> simp_all [b2n_true, b2n_false] <;> omega))
  | otxNewMemOk _ i lg hi =>
    have l0 := le_tot srW _ _ _ hi
    have l1 := le_tot tokW _ _ _ hi
    cases lg <;> (try simp only [St.setDone, St.setBg, ↓reduceIte, Bool.false_eq_true, Bool.and_false, Bool.and_true, Bool.false_and, Bool.true_and]) <;> (repeat' split) <;> simp_all [tot_set_eq _ _ _ _ _ hi, tot_ackWs_srw', tot_ackWs_tok, b2n_true, b2n_false, srW, tokW, St.bg, onOk, onErr, selNext, afterSetErr, srAllW, nextC, roSets] <;> (try omega) <;> (try (cases hk : s.ehTok <;> cases hk2 : s.cwl <;> simp_all [b2n_true, b2n_false] <;> omega))
  | otxNewMemFail _ i lg hi =>
    have l0 := le_tot srW _ _ _ hi
    have l1 := le_tot tokW _ _ _ hi
    cases lg <;> (try simp only [St.setDone, St.setBg, ↓reduceIte, Bool.false_eq_true, Bool.and_false, Bool.and_true, Bool.false_and, Bool.true_and]) <;> (repeat' split) <;> simp_all [tot_set_eq _ _ _ _ _ hi, tot_ackWs_srw', tot_ackWs_tok, b2n_true, b2n_false, srW, tokW, St.bg, onOk, onErr, selNext, afterSetErr, srAllW, nextC, roSets] <;> (try omega) <;> (try (cases hk : s.ehTok <;> cases hk2 : s.cwl <;> simp_all [b2n_true, b2n_false] <;> omega))
  | otxNoWaitComp _ i lg hi =>
    have l0 := le_tot srW _ _ _ hi
    have l1 := le_tot tokW _ _ _ hi
    cases lg <;> (try simp only [St.setDone, St.setBg, ↓reduceIte, Bool.false_eq_true, Bool.and_false, Bool.and_true, Bool.false_and, Bool.true_and]) <;> (repeat' split) <;> simp_all [tot_set_eq _ _ _ _ _ hi, tot_ackWs_srw', tot_ackWs_tok, b2n_true, b2n_false, srW, tokW, St.bg, onOk, onErr, selNext, afterSetErr, srAllW, nextC, roSets] <;> (try omega) <;> (try (cases hk : s.ehTok <;> cases hk2 : s.cwl <;> simp_all [b2n_true, b2n_false] <;> omega))
  | otxWaitComp _ i lg hi =>
    have l0 := le_tot srW _ _ _ hi
    have l1 := le_tot tokW _ _ _ hi
    cases lg <;> (try simp only [St.setDone, St.setBg, ↓reduceIte, Bool.false_eq_true, Bool.and_false, Bool.and_true, Bool.false_and, Bool.true_and]) <;> (repeat' split) <;> simp_all [tot_set_eq _ _ _ _ _ hi, tot_ackWs_srw', tot_ackWs_tok, b2n_true, b2n_false, srW, tokW, St.bg, onOk, onErr, selNext, afterSetErr, srAllW, nextC, roSets] <;> (try omega) <;> (try (cases hk : s.ehTok <;> cases hk2 : s.cwl <;> simp_all [b2n_true, b2n_false] <;> omega))
  | otxFail _ i lg hi =>
    have l0 := le_tot srW _ _ _ hi
    have l1 := le_tot tokW _ _ _ hi
    cases lg <;> (try simp only [St.setDone, St.setBg, ↓reduceIte, Bool.false_eq_true, Bool.and_false, Bool.and_true, Bool.false_and, Bool.true_and]) <;> (repeat' split) <;> simp_all [tot_set_eq _ _ _ _ _ hi, tot_ackWs_srw', tot_ackWs_tok, b2n_true, b2n_false, srW, tokW, St.bg, onOk, onErr, selNext, afterSetErr, srAllW, nextC, roSets] <;> (try omega) <;> (try (cases hk : s.ehTok <;> cases hk2 : s.cwl <;> simp_all [b2n_true, b2n_false] <;> omega))
  | otxRel _ i lg hi =>
    have l0 := le_tot srW _ _ _ hi
    have l1 := le_tot tokW _ _ _ hi
    cases lg <;> (try simp only [St.setDone, St.setBg, ↓reduceIte, Bool.false_eq_true, Bool.and_false, Bool.and_true, Bool.false_and, Bool.true_and]) <;> (repeat' split) <;> simp_all [tot_set_eq _ _ _ _ _ hi, tot_ackWs_srw', tot_ackWs_tok, b2n_true, b2n_false, srW, tokW, St.bg, onOk, onErr, selNext, afterSetErr, srAllW, nextC, roSets] <;> (try omega) <;> (try (cases hk : s.ehTok <;> cases hk2 : s.cwl <;> simp_all [b2n_true, b2n_false] <;> omega))
  | otxDone _ i lg hi =>
    have l0 := le_tot srW _ _ _ hi
    have l1 := le_tot tokW _ _ _ hi
    cases lg <;> (try simp only [St.setDone, St.setBg, ↓reduceIte, Bool.false_eq_true, Bool.and_false, Bool.and_true, Bool.false_and, Bool.true_and]) <;> (repeat' split) <;> simp_all [tot_set_eq _ _ _ _ _ hi, tot_ackWs_srw', tot_ackWs_tok, b2n_true, b2n_false, srW, tokW, St.bg, onOk, onErr, selNext, afterSetErr, srAllW, nextC, roSets] <;> (try omega) <;> (try (cases hk : s.ehTok <;> cases hk2 : s.cwl <;> simp_all [b2n_true, b2n_false] <;> omega))
  | lgWriteOk _ i hi =>
    have l0 := le_tot srW _ _ _ hi
    have l1 := le_tot tokW _ _ _ hi
    (try simp only [St.setDone, St.setBg, ↓reduceIte, Bool.false_eq_true, Bool.and_false, Bool.and_true, Bool.false_and, Bool.true_and]) <;> (repeat' split) <;> simp_all [tot_set_eq _ _ _ _ _ hi, tot_ackWs_srw', tot_ackWs_tok, b2n_true, b2n_false, srW, tokW, St.bg, onOk, onErr, selNext, afterSetErr, srAllW, nextC, roSets] <;> (try omega) <;> (try (cases hk : s.ehTok <;> cases hk2 : s.cwl <;> simp_all [b2n_true, b2n_false] <;> omega))
  | lgWriteFail _ i hi =>
    have l0 := le_tot srW _ _ _ hi
    have l1 := le_tot tokW _ _ _ hi
    (try simp only [St.setDone, St.setBg, ↓reduceIte, Bool.false_eq_true, Bool.and_false, Bool.and_true, Bool.false_and, Bool.true_and]) <;> (repeat' split) <;> simp_all [tot_set_eq _ _ _ _ _ hi, tot_ackWs_srw', tot_ackWs_tok, b2n_true, b2n_false, srW, tokW, St.bg, onOk, onErr, selNext, afterSetErr, srAllW, nextC, roSets] <;> (try omega) <;> (try (cases hk : s.ehTok <;> cases hk2 : s.cwl <;> simp_all [b2n_true, b2n_false] <;> omega))
  | cmLockTr _ i lg hi hl =>
    have l0 := le_tot srW _ _ _ hi
    have l1 := le_tot tokW _ _ _ hi
    cases lg <;> (try simp only [St.setDone, St.setBg, ↓reduceIte, Bool.false_eq_true, Bool.and_false, Bool.and_true, Bool.false_and, Bool.true_and]) <;> (repeat' split) <;> simp_all [tot_set_eq _ _ _ _ _ hi, tot_ackWs_srw', tot_ackWs_tok, b2n_true, b2n_false, srW, tokW, St.bg, onOk, onErr, selNext, afterSetErr, srAllW, nextC, roSets] <;> (try omega) <;> (try (cases hk : s.ehTok <;> cases hk2 : s.cwl <;> simp_all [b2n_true, b2n_false] <;> omega))
  | cmFlushOk _ i lg hi =>
    have l0 := le_tot srW _ _ _ hi
    have l1 := le_tot tokW _ _ _ hi
    cases lg <;> (try simp only [St.setDone, St.setBg, ↓reduceIte, Bool.false_eq_true, Bool.and_false, Bool.and_true, Bool.false_and, Bool.true_and]) <;> (repeat' split) <;> simp_all [tot_set_eq _ _ _ _ _ hi, tot_ackWs_srw', tot_ackWs_tok, b2n_true, b2n_false, srW, tokW, St.bg, onOk, onErr, selNext, afterSetErr, srAllW, nextC, roSets] <;> (try omega) <;> (try (cases hk : s.ehTok <;> cases hk2 : s.cwl <;> simp_all [b2n_true, b2n_false] <;> omega))
  | cmFlushEmpty _ i lg hi =>
    have l0 := le_tot srW _ _ _ hi
    have l1 := le_tot tokW _ _ _ hi
    cases lg <;> (try simp only [St.setDone, St.setBg, ↓reduceIte, Bool.false_eq_true, Bool.and_false, Bool.and_true, Bool.false_and, Bool.true_and]) <;> (repeat' split) <;> simp_all [tot_set_eq _ _ _ _ _ hi, tot_ackWs_srw', tot_ackWs_tok, b2n_true, b2n_false, srW, tokW, St.bg, onOk, onErr, selNext, afterSetErr, srAllW, nextC, roSets] <;> (try omega) <;> (try (cases hk : s.ehTok <;> cases hk2 : s.cwl <;> simp_all [b2n_true, b2n_false] <;> omega))
  | cmFlushFail _ i lg hi =>
    have l0 := le_tot srW _ _ _ hi
    have l1 := le_tot tokW _ _ _ hi
    cases lg <;> (try simp only [St.setDone, St.setBg, ↓reduceIte, Bool.false_eq_true, Bool.and_false, Bool.and_true, Bool.false_and, Bool.true_and]) <;> (repeat' split) <;> simp_all [tot_set_eq _ _ _ _ _ hi, tot_ackWs_srw', tot_ackWs_tok, b2n_true, b2n_false, srW, tokW, St.bg, onOk, onErr, selNext, afterSetErr, srAllW, nextC, roSets] <;> (try omega) <;> (try (cases hk : s.ehTok <;> cases hk2 : s.cwl <;> simp_all [b2n_true, b2n_false] <;> omega))
  | cmLockClk _ i lg hi hl =>
    have l0 := le_tot srW _ _ _ hi
    have l1 := le_tot tokW _ _ _ hi
    cases lg <;> (try simp only [St.setDone, St.setBg, ↓reduceIte, Bool.false_eq_true, Bool.and_false, Bool.and_true, Bool.false_and, Bool.true_and]) <;> (repeat' split) <;> simp_all [tot_set_eq _ _ _ _ _ hi, tot_ackWs_srw', tot_ackWs_tok, b2n_true, b2n_false, srW, tokW, St.bg, onOk, onErr, selNext, afterSetErr, srAllW, nextC, roSets] <;> (try omega) <;> (try (cases hk : s.ehTok <;> cases hk2 : s.cwl <;> simp_all [b2n_true, b2n_false] <;> omega))
  | cmTryOk _ i k lg hi =>
    have l0 := le_tot srW _ _ _ hi
    have l1 := le_tot tokW _ _ _ hi
    cases lg <;> (try simp only [St.setDone, St.setBg, ↓reduceIte, Bool.false_eq_true, Bool.and_false, Bool.and_true, Bool.false_and, Bool.true_and]) <;> (repeat' split) <;> simp_all [tot_set_eq _ _ _ _ _ hi, tot_ackWs_srw', tot_ackWs_tok, b2n_true, b2n_false, srW, tokW, St.bg, onOk, onErr, selNext, afterSetErr, srAllW, nextC, roSets] <;> (try omega) <;> (try (cases hk : s.ehTok <;> cases hk2 : s.cwl <;> simp_all [b2n_true, b2n_false] <;> omega))
  | cmTryFail _ i k lg hi =>
    have l0 := le_tot srW _ _ _ hi
    have l1 := le_tot tokW _ _ _ hi
    cases lg <;> (try simp only [St.setDone, St.setBg, ↓reduceIte, Bool.false_eq_true, Bool.and_false, Bool.and_true, Bool.false_and, Bool.true_and]) <;> (repeat' split) <;> simp_all [tot_set_eq _ _ _ _ _ hi, tot_ackWs_srw', tot_ackWs_tok, b2n_true, b2n_false, srW, tokW, St.bg, onOk, onErr, selNext, afterSetErr, srAllW, nextC, roSets] <;> (try omega) <;> (try (cases hk : s.ehTok <;> cases hk2 : s.cwl <;> simp_all [b2n_true, b2n_false] <;> omega))
  | cmSleepTimer _ i k lg hi =>
    have l0 := le_tot srW _ _ _ hi
    have l1 := le_tot tokW _ _ _ hi
    cases lg <;> (try simp only [St.setDone, St.setBg, ↓reduceIte, Bool.false_eq_true, Bool.and_false, Bool.and_true, Bool.false_and, Bool.true_and]) <;> (repeat' split) <;> simp_all [tot_set_eq _ _ _ _ _ hi, tot_ackWs_srw', tot_ackWs_tok, b2n_true, b2n_false, srW, tokW, St.bg, onOk, onErr, selNext, afterSetErr, srAllW, nextC, roSets] <;> (try omega) <;> (try (cases hk : s.ehTok <;> cases hk2 : s.cwl <;> simp_all [b2n_true, b2n_false] <;> omega))
  | cmSleepClosed _ i k lg hi hc =>
    have l0 := le_tot srW _ _ _ hi
    have l1 := le_tot tokW _ _ _ hi
    cases lg <;> (try simp only [St.setDone, St.setBg, ↓reduceIte, Bool.false_eq_true, Bool.and_false, Bool.and_true, Bool.false_and, Bool.true_and]) <;> (repeat' split) <;> simp_all [tot_set_eq _ _ _ _ _ hi, tot_ackWs_srw', tot_ackWs_tok, b2n_true, b2n_false, srW, tokW, St.bg, onOk, onErr, selNext, afterSetErr, srAllW, nextC, roSets] <;> (try omega) <;> (try (cases hk : s.ehTok <;> cases hk2 : s.cwl <;> simp_all [b2n_true, b2n_false] <;> omega))
  | cmFail3 _ i lg hi =>
    have l0 := le_tot srW _ _ _ hi
    have l1 := le_tot tokW _ _ _ hi
    cases lg <;> (try simp only [St.setDone, St.setBg, ↓reduceIte, Bool.false_eq_true, Bool.and_false, Bool.and_true, Bool.false_and, Bool.true_and]) <;> (repeat' split) <;> simp_all [tot_set_eq _ _ _ _ _ hi, tot_ackWs_srw', tot_ackWs_tok, b2n_true, b2n_false, srW, tokW, St.bg, onOk, onErr, selNext, afterSetErr, srAllW, nextC, roSets] <;> (try omega) <;> (try (cases hk : s.ehTok <;> cases hk2 : s.cwl <;> simp_all [b2n_true, b2n_false] <;> omega))
  | cmAfterOk _ i lg hi =>
    have l0 := le_tot srW _ _ _ hi
    have l1 := le_tot tokW _ _ _ hi
    cases lg <;> (try simp only [St.setDone, St.setBg, ↓reduceIte, Bool.false_eq_true, Bool.and_false, Bool.and_true, Bool.false_and, Bool.true_and]) <;> (repeat' split) <;> simp_all [tot_set_eq _ _ _ _ _ hi, tot_ackWs_srw', tot_ackWs_tok, b2n_true, b2n_false, srW, tokW, St.bg, onOk, onErr, selNext, afterSetErr, srAllW, nextC, roSets] <;> (try omega) <;> (try (cases hk : s.ehTok <;> cases hk2 : s.cwl <;> simp_all [b2n_true, b2n_false] <;> omega))
  | cmNoWaitComp _ i lg hi =>
    have l0 := le_tot srW _ _ _ hi
    have l1 := le_tot tokW _ _ _ hi
    cases lg <;> (try simp only [St.setDone, St.setBg, ↓reduceIte, Bool.false_eq_true, Bool.and_false, Bool.and_true, Bool.false_and, Bool.true_and]) <;> (repeat' split) <;> simp_all [tot_set_eq _ _ _ _ _ hi, tot_ackWs_srw', tot_ackWs_tok, b2n_true, b2n_false, srW, tokW, St.bg, onOk, onErr, selNext, afterSetErr, srAllW, nextC, roSets] <;> (try omega) <;> (try (cases hk : s.ehTok <;> cases hk2 : s.cwl <;> simp_all [b2n_true, b2n_false] <;> omega))
  | cmWaitComp _ i lg hi =>
    have l0 := le_tot srW _ _ _ hi
    have l1 := le_tot tokW _ _ _ hi
    cases lg <;> (try simp only [St.setDone, St.setBg, ↓reduceIte, Bool.false_eq_true, Bool.and_false, Bool.and_true, Bool.false_and, Bool.true_and]) <;> (repeat' split) <;> simp_all [tot_set_eq _ _ _ _ _ hi, tot_ackWs_srw', tot_ackWs_tok, b2n_true, b2n_false, srW, tokW, St.bg, onOk, onErr, selNext, afterSetErr, srAllW, nextC, roSets] <;> (try omega) <;> (try (cases hk : s.ehTok <;> cases hk2 : s.cwl <;> simp_all [b2n_true, b2n_false] <;> omega))
  | cmDone _ i lg hi =>
    have l0 := le_tot srW _ _ _ hi
    have l1 := le_tot tokW _ _ _ hi
    cases lg <;> (try simp only [St.setDone, St.setBg, ↓reduceIte, Bool.false_eq_true, Bool.and_false, Bool.and_true, Bool.false_and, Bool.true_and]) <;> (repeat' split) <;> simp_all [tot_set_eq _ _ _ _ _ hi, tot_ackWs_srw', tot_ackWs_tok, b2n_true, b2n_false, srW, tokW, St.bg, onOk, onErr, selNext, afterSetErr, srAllW, nextC, roSets] <;> (try omega) <;> (try (cases hk : s.ehTok <;> cases hk2 : s.cwl <;> simp_all [b2n_true, b2n_false] <;> omega))
  | cmRet _ i ok lg hi =>
    have l0 := le_tot srW _ _ _ hi
    have l1 := le_tot tokW _ _ _ hi
    cases ok <;> cases lg <;> (try simp only [St.setDone, St.setBg, ↓reduceIte, Bool.false_eq_true, Bool.and_false, Bool.and_true, Bool.false_and, Bool.true_and]) <;> (repeat' split) <;> simp_all [tot_set_eq _ _ _ _ _ hi, tot_ackWs_srw', tot_ackWs_tok, b2n_true, b2n_false, srW, tokW, St.bg, onOk, onErr, selNext, afterSetErr, srAllW, nextC, roSets] <;> (try omega) <;> (try (cases hk : s.ehTok <;> cases hk2 : s.cwl <;> simp_all [b2n_true, b2n_false] <;> omega))
  | dcLockTr _ i lg hi hl =>
    have l0 := le_tot srW _ _ _ hi
    have l1 := le_tot tokW _ _ _ hi
    cases lg <;> (try simp only [St.setDone, St.setBg, ↓reduceIte, Bool.false_eq_true, Bool.and_false, Bool.and_true, Bool.false_and, Bool.true_and]) <;> (repeat' split) <;> simp_all [tot_set_eq _ _ _ _ _ hi, tot_ackWs_srw', tot_ackWs_tok, b2n_true, b2n_false, srW, tokW, St.bg, onOk, onErr, selNext, afterSetErr, srAllW, nextC, roSets] <;> (try omega) <;> (try (cases hk : s.ehTok <;> cases hk2 : s.cwl <;> simp_all [b2n_true, b2n_false] <;> omega))
  | dcBody _ i lg hi =>
    have l0 := le_tot srW _ _ _ hi
    have l1 := le_tot tokW _ _ _ hi
    cases lg <;> (try simp only [St.setDone, St.setBg, ↓reduceIte, Bool.false_eq_true, Bool.and_false, Bool.and_true, Bool.false_and, Bool.true_and]) <;> (repeat' split) <;> simp_all [tot_set_eq _ _ _ _ _ hi, tot_ackWs_srw', tot_ackWs_tok, b2n_true, b2n_false, srW, tokW, St.bg, onOk, onErr, selNext, afterSetErr, srAllW, nextC, roSets] <;> (try omega) <;> (try (cases hk : s.ehTok <;> cases hk2 : s.cwl <;> simp_all [b2n_true, b2n_false] <;> omega))
  | crNoOverlap _ i hi =>
    have l0 := le_tot srW _ _ _ hi
    have l1 := le_tot tokW _ _ _ hi
    (try simp only [St.setDone, St.setBg, ↓reduceIte, Bool.false_eq_true, Bool.and_false, Bool.and_true, Bool.false_and, Bool.true_and]) <;> (repeat' split) <;> simp_all [tot_set_eq _ _ _ _ _ hi, tot_ackWs_srw', tot_ackWs_tok, b2n_true, b2n_false, srW, tokW, St.bg, onOk, onErr, selNext, afterSetErr, srAllW, nextC, roSets] <;> (try omega) <;> (try (cases hk : s.ehTok <;> cases hk2 : s.cwl <;> simp_all [b2n_true, b2n_false] <;> omega))
  | crOverlap _ i hi =>
    have l0 := le_tot srW _ _ _ hi
    have l1 := le_tot tokW _ _ _ hi
    (try simp only [St.setDone, St.setBg, ↓reduceIte, Bool.false_eq_true, Bool.and_false, Bool.and_true, Bool.false_and, Bool.true_and]) <;> (repeat' split) <;> simp_all [tot_set_eq _ _ _ _ _ hi, tot_ackWs_srw', tot_ackWs_tok, b2n_true, b2n_false, srW, tokW, St.bg, onOk, onErr, selNext, afterSetErr, srAllW, nextC, roSets] <;> (try omega) <;> (try (cases hk : s.ehTok <;> cases hk2 : s.cwl <;> simp_all [b2n_true, b2n_false] <;> omega))
  | crNewMemOk _ i hi =>
    have l0 := le_tot srW _ _ _ hi
    have l1 := le_tot tokW _ _ _ hi
    (try simp only [St.setDone, St.setBg, ↓reduceIte, Bool.false_eq_true, Bool.and_false, Bool.and_true, Bool.false_and, Bool.true_and]) <;> (repeat' split) <;> simp_all [tot_set_eq _ _ _ _ _ hi, tot_ackWs_srw', tot_ackWs_tok, b2n_true, b2n_false, srW, tokW, St.bg, onOk, onErr, selNext, afterSetErr, srAllW, nextC, roSets] <;> (try omega) <;> (try (cases hk : s.ehTok <;> cases hk2 : s.cwl <;> simp_all [b2n_true, b2n_false] <;> omega))
  | crNewMemFail _ i hi =>
    have l0 := le_tot srW _ _ _ hi
    have l1 := le_tot tokW _ _ _ hi
    (try simp only [St.setDone, St.setBg, ↓reduceIte, Bool.false_eq_true, Bool.and_false, Bool.and_true, Bool.false_and, Bool.true_and]) <;> (repeat' split) <;> simp_all [tot_set_eq _ _ _ _ _ hi, tot_ackWs_srw', tot_ackWs_tok, b2n_true, b2n_false, srW, tokW, St.bg, onOk, onErr, selNext, afterSetErr, srAllW, nextC, roSets] <;> (try omega) <;> (try (cases hk : s.ehTok <;> cases hk2 : s.cwl <;> simp_all [b2n_true, b2n_false] <;> omega))
  | crRelM _ i hi =>
    have l0 := le_tot srW _ _ _ hi
    have l1 := le_tot tokW _ _ _ hi
    (try simp only [St.setDone, St.setBg, ↓reduceIte, Bool.false_eq_true, Bool.and_false, Bool.and_true, Bool.false_and, Bool.true_and]) <;> (repeat' split) <;> simp_all [tot_set_eq _ _ _ _ _ hi, tot_ackWs_srw', tot_ackWs_tok, b2n_true, b2n_false, srW, tokW, St.bg, onOk, onErr, selNext, afterSetErr, srAllW, nextC, roSets] <;> (try omega) <;> (try (cases hk : s.ehTok <;> cases hk2 : s.cwl <;> simp_all [b2n_true, b2n_false] <;> omega))
  | crRelOk _ i hi =>
    have l0 := le_tot srW _ _ _ hi
    have l1 := le_tot tokW _ _ _ hi
    (try simp only [St.setDone, St.setBg, ↓reduceIte, Bool.false_eq_true, Bool.and_false, Bool.and_true, Bool.false_and, Bool.true_and]) <;> (repeat' split) <;> simp_all [tot_set_eq _ _ _ _ _ hi, tot_ackWs_srw', tot_ackWs_tok, b2n_true, b2n_false, srW, tokW, St.bg, onOk, onErr, selNext, afterSetErr, srAllW, nextC, roSets] <;> (try omega) <;> (try (cases hk : s.ehTok <;> cases hk2 : s.cwl <;> simp_all [b2n_true, b2n_false] <;> omega))
  | crRelFail _ i hi =>
    have l0 := le_tot srW _ _ _ hi
    have l1 := le_tot tokW _ _ _ hi
    (try simp only [St.setDone, St.setBg, ↓reduceIte, Bool.false_eq_true, Bool.and_false, Bool.and_true, Bool.false_and, Bool.true_and]) <;> (repeat' split) <;> simp_all [tot_set_eq _ _ _ _ _ hi, tot_ackWs_srw', tot_ackWs_tok, b2n_true, b2n_false, srW, tokW, St.bg, onOk, onErr, selNext, afterSetErr, srAllW, nextC, roSets] <;> (try omega) <;> (try (cases hk : s.ehTok <;> cases hk2 : s.cwl <;> simp_all [b2n_true, b2n_false] <;> omega))
  | srSend _ i hi he =>
    have l0 := le_tot srW _ _ _ hi
    have l1 := le_tot tokW _ _ _ hi
    simp only [hm, recvs_asCoded] at he
    rcases he with he | he <;> (try simp only [St.setDone, St.setBg, ↓reduceIte, Bool.false_eq_true, Bool.and_false, Bool.and_true, Bool.false_and, Bool.true_and]) <;> (repeat' split) <;> simp_all [tot_set_eq _ _ _ _ _ hi, tot_ackWs_srw', tot_ackWs_tok, b2n_true, b2n_false, srW, tokW, St.bg, onOk, onErr, selNext, afterSetErr, srAllW, nextC, roSets] <;> (try omega) <;> (try (cases hk : s.ehTok <;> cases hk2 : s.cwl <;> simp_all [b2n_true, b2n_false] <;> omega))
  | srPerErr _ i hi he =>
    have l0 := le_tot srW _ _ _ hi
    have l1 := le_tot tokW _ _ _ hi
    cases hk : s.ehTok <;> cases hk2 : s.cwl <;> simp only [hk, hk2, b2n_true, b2n_false] at hE k1 k2 <;> (try simp only [St.setDone, St.setBg, ↓reduceIte, Bool.false_eq_true, Bool.and_false, Bool.and_true, Bool.false_and, Bool.true_and]) <;> (repeat' split) <;> simp_all [tot_set_eq _ _ _ _ _ hi, tot_ackWs_srw', tot_ackWs_tok, b2n_true, b2n_false, srW, tokW, St.bg, onOk, onErr, selNext, afterSetErr, srAllW, nextC, roSets] <;> (try omega) <;> (try (cases hk : s.ehTok <;> cases hk2 : s.cwl <;> simp_all [b2n_true, b2n_false] <;> omega)) <;> (try (by_cases hx : s.eh = .exited <;> simp_all <;> omega))
  | srClosed _ i hi hc =>
    have l0 := le_tot srW _ _ _ hi
    have l1 := le_tot tokW _ _ _ hi
    cases hk : s.ehTok <;> cases hk2 : s.cwl <;> simp only [hk, hk2, b2n_true, b2n_false] at hE k1 k2 <;> (try simp only [St.setDone, St.setBg, ↓reduceIte, Bool.false_eq_true, Bool.and_false, Bool.and_true, Bool.false_and, Bool.true_and]) <;> (repeat' split) <;> simp_all [tot_set_eq _ _ _ _ _ hi, tot_ackWs_srw', tot_ackWs_tok, b2n_true, b2n_false, srW, tokW, St.bg, onOk, onErr, selNext, afterSetErr, srAllW, nextC, roSets] <;> (try omega) <;> (try (cases hk : s.ehTok <;> cases hk2 : s.cwl <;> simp_all [b2n_true, b2n_false] <;> omega)) <;> (try (by_cases hx : s.eh = .exited <;> simp_all <;> omega))
  | clCheckTr _ i hi =>
    have l0 := le_tot srW _ _ _ hi
    have l1 := le_tot tokW _ _ _ hi
    (try simp only [St.setDone, St.setBg, ↓reduceIte, Bool.false_eq_true, Bool.and_false, Bool.and_true, Bool.false_and, Bool.true_and]) <;> (repeat' split) <;> simp_all [tot_set_eq _ _ _ _ _ hi, tot_ackWs_srw', tot_ackWs_tok, b2n_true, b2n_false, srW, tokW, St.bg, onOk, onErr, selNext, afterSetErr, srAllW, nextC, roSets] <;> (try omega) <;> (try (cases hk : s.ehTok <;> cases hk2 : s.cwl <;> simp_all [b2n_true, b2n_false] <;> omega))
  | clLockTr _ i hi hl =>
    have l0 := le_tot srW _ _ _ hi
    have l1 := le_tot tokW _ _ _ hi
    (try simp only [St.setDone, St.setBg, ↓reduceIte, Bool.false_eq_true, Bool.and_false, Bool.and_true, Bool.false_and, Bool.true_and]) <;> (repeat' split) <;> simp_all [tot_set_eq _ _ _ _ _ hi, tot_ackWs_srw', tot_ackWs_tok, b2n_true, b2n_false, srW, tokW, St.bg, onOk, onErr, selNext, afterSetErr, srAllW, nextC, roSets] <;> (try omega) <;> (try (cases hk : s.ehTok <;> cases hk2 : s.cwl <;> simp_all [b2n_true, b2n_false] <;> omega))
  | clBody _ i hi =>
    have l0 := le_tot srW _ _ _ hi
    have l1 := le_tot tokW _ _ _ hi
    (try simp only [St.setDone, St.setBg, ↓reduceIte, Bool.false_eq_true, Bool.and_false, Bool.and_true, Bool.false_and, Bool.true_and]) <;> (repeat' split) <;> simp_all [tot_set_eq _ _ _ _ _ hi, tot_ackWs_srw', tot_ackWs_tok, b2n_true, b2n_false, srW, tokW, St.bg, onOk, onErr, selNext, afterSetErr, srAllW, nextC, roSets] <;> (try omega) <;> (try (cases hk : s.ehTok <;> cases hk2 : s.cwl <;> simp_all [b2n_true, b2n_false] <;> omega))
  | clAcq _ i hi ht =>
    have l0 := le_tot srW _ _ _ hi
    have l1 := le_tot tokW _ _ _ hi
    (try simp only [St.setDone, St.setBg, ↓reduceIte, Bool.false_eq_true, Bool.and_false, Bool.and_true, Bool.false_and, Bool.true_and]) <;> (repeat' split) <;> simp_all [tot_set_eq _ _ _ _ _ hi, tot_ackWs_srw', tot_ackWs_tok, b2n_true, b2n_false, srW, tokW, St.bg, onOk, onErr, selNext, afterSetErr, srAllW, nextC, roSets] <;> (try omega) <;> (try (cases hk : s.ehTok <;> cases hk2 : s.cwl <;> simp_all [b2n_true, b2n_false] <;> omega))
  | clAcqKept _ i hi he hk hs =>
    have l0 := le_tot srW _ _ _ hi
    have l1 := le_tot tokW _ _ _ hi
    (try simp only [St.setDone, St.setBg, ↓reduceIte, Bool.false_eq_true, Bool.and_false, Bool.and_true, Bool.false_and, Bool.true_and]) <;> (repeat' split) <;> simp_all [tot_set_eq _ _ _ _ _ hi, tot_ackWs_srw', tot_ackWs_tok, b2n_true, b2n_false, srW, tokW, St.bg, onOk, onErr, selNext, afterSetErr, srAllW, nextC, roSets] <;> (try omega) <;> (try (cases hk : s.ehTok <;> cases hk2 : s.cwl <;> simp_all [b2n_true, b2n_false] <;> omega))
  | clWait _ i hi hm ht =>
    have l0 := le_tot srW _ _ _ hi
    have l1 := le_tot tokW _ _ _ hi
    (try simp only [St.setDone, St.setBg, ↓reduceIte, Bool.false_eq_true, Bool.and_false, Bool.and_true, Bool.false_and, Bool.true_and]) <;> (repeat' split) <;> simp_all [tot_set_eq _ _ _ _ _ hi, tot_ackWs_srw', tot_ackWs_tok, b2n_true, b2n_false, srW, tokW, St.bg, onOk, onErr, selNext, afterSetErr, srAllW, nextC, roSets] <;> (try omega) <;> (try (cases hk : s.ehTok <;> cases hk2 : s.cwl <;> simp_all [b2n_true, b2n_false] <;> omega))
  | ehAcquire _ he ht =>
    (try simp only [St.setDone, St.setBg, ↓reduceIte, Bool.false_eq_true, Bool.and_false, Bool.and_true, Bool.false_and, Bool.true_and]) <;> (repeat' split) <;> simp_all [tot_ackWs_srw', tot_ackWs_tok, b2n_true, b2n_false, srW, tokW, St.bg, onOk, onErr, selNext, afterSetErr, srAllW, nextC, roSets] <;> (try omega) <;> (try (cases hk : s.ehTok <;> cases hk2 : s.cwl <;> simp_all [b2n_true, b2n_false] <;> omega))
  | ehClose _ he hc =>
    simp only [hm, closes_asCoded] at he
    rcases he with he | he | he <;> (try simp only [St.setDone, St.setBg, ↓reduceIte, Bool.false_eq_true, Bool.and_false, Bool.and_true, Bool.false_and, Bool.true_and]) <;> (repeat' split) <;> simp_all [tot_ackWs_srw', tot_ackWs_tok, b2n_true, b2n_false, srW, tokW, St.bg, onOk, onErr, selNext, afterSetErr, srAllW, nextC, roSets] <;> (try omega) <;> (try (cases hk : s.ehTok <;> cases hk2 : s.cwl <;> simp_all [b2n_true, b2n_false] <;> omega))
  | ehTake _ he ht =>
    (try simp only [St.setDone, St.setBg, ↓reduceIte, Bool.false_eq_true, Bool.and_false, Bool.and_true, Bool.false_and, Bool.true_and]) <;> (repeat' split) <;> simp_all [tot_ackWs_srw', tot_ackWs_tok, b2n_true, b2n_false, srW, tokW, St.bg, onOk, onErr, selNext, afterSetErr, srAllW, nextC, roSets] <;> (try omega) <;> (try (cases hk : s.ehTok <;> cases hk2 : s.cwl <;> simp_all [b2n_true, b2n_false] <;> omega))
  | bgExitIdle _ b hb hc =>
    cases b <;> (try simp only [St.setDone, St.setBg, ↓reduceIte, Bool.false_eq_true, Bool.and_false, Bool.and_true, Bool.false_and, Bool.true_and]) <;> (repeat' split) <;> simp_all [tot_ackWs_srw', tot_ackWs_tok, b2n_true, b2n_false, srW, tokW, St.bg, onOk, onErr, selNext, afterSetErr, srAllW, nextC, roSets] <;> (try omega) <;> (try (cases hk : s.ehTok <;> cases hk2 : s.cwl <;> simp_all [b2n_true, b2n_false] <;> omega))
  | bgExitParked _ hb hc =>
    (try simp only [St.setDone, St.setBg, ↓reduceIte, Bool.false_eq_true, Bool.and_false, Bool.and_true, Bool.false_and, Bool.true_and]) <;> (repeat' split) <;> simp_all [tot_ackWs_srw', tot_ackWs_tok, b2n_true, b2n_false, srW, tokW, St.bg, onOk, onErr, selNext, afterSetErr, srAllW, nextC, roSets] <;> (try omega) <;> (try (cases hk : s.ehTok <;> cases hk2 : s.cwl <;> simp_all [b2n_true, b2n_false] <;> omega))
  | bgWorkCorrupt _ b w hb hk =>
    cases b <;> (try simp only [St.setDone, St.setBg, ↓reduceIte, Bool.false_eq_true, Bool.and_false, Bool.and_true, Bool.false_and, Bool.true_and]) <;> (repeat' split) <;> simp_all [tot_ackWs_srw', tot_ackWs_tok, b2n_true, b2n_false, srW, tokW, St.bg, onOk, onErr, selNext, afterSetErr, srAllW, nextC, roSets] <;> (try omega) <;> (try (cases hk : s.ehTok <;> cases hk2 : s.cwl <;> simp_all [b2n_true, b2n_false] <;> omega))
  | bgCommitCorrupt _ b w hb hk =>
    cases b <;> (try simp only [St.setDone, St.setBg, ↓reduceIte, Bool.false_eq_true, Bool.and_false, Bool.and_true, Bool.false_and, Bool.true_and]) <;> (repeat' split) <;> simp_all [tot_ackWs_srw', tot_ackWs_tok, b2n_true, b2n_false, srW, tokW, St.bg, onOk, onErr, selNext, afterSetErr, srAllW, nextC, roSets] <;> (try omega) <;> (try (cases hk : s.ehTok <;> cases hk2 : s.cwl <;> simp_all [b2n_true, b2n_false] <;> omega))
  | bgSetErrCorrupt _ b w c hb he =>
    simp only [hm, recvs_asCoded] at he
    rcases he with he | he <;> cases b <;> cases c <;> (try simp only [St.setDone, St.setBg, ↓reduceIte, Bool.false_eq_true, Bool.and_false, Bool.and_true, Bool.false_and, Bool.true_and]) <;> (repeat' split) <;> simp_all [tot_ackWs_srw', tot_ackWs_tok, b2n_true, b2n_false, srW, tokW, St.bg, onOk, onErr, selNext, afterSetErr, srAllW, nextC, roSets] <;> (try omega) <;> (try (cases hk : s.ehTok <;> cases hk2 : s.cwl <;> simp_all [b2n_true, b2n_false] <;> omega))
  | bgWorkOk _ b w hb =>
    cases b <;> (try simp only [St.setDone, St.setBg, ↓reduceIte, Bool.false_eq_true, Bool.and_false, Bool.and_true, Bool.false_and, Bool.true_and]) <;> (repeat' split) <;> simp_all [tot_ackWs_srw', tot_ackWs_tok, b2n_true, b2n_false, srW, tokW, St.bg, onOk, onErr, selNext, afterSetErr, srAllW, nextC, roSets] <;> (try omega) <;> (try (cases hk : s.ehTok <;> cases hk2 : s.cwl <;> simp_all [b2n_true, b2n_false] <;> omega))
  | bgWorkFail _ b w hb =>
    cases b <;> (try simp only [St.setDone, St.setBg, ↓reduceIte, Bool.false_eq_true, Bool.and_false, Bool.and_true, Bool.false_and, Bool.true_and]) <;> (repeat' split) <;> simp_all [tot_ackWs_srw', tot_ackWs_tok, b2n_true, b2n_false, srW, tokW, St.bg, onOk, onErr, selNext, afterSetErr, srAllW, nextC, roSets] <;> (try omega) <;> (try (cases hk : s.ehTok <;> cases hk2 : s.cwl <;> simp_all [b2n_true, b2n_false] <;> omega))
  | bgCommitOk _ b w hb =>
    cases b <;> (try simp only [St.setDone, St.setBg, ↓reduceIte, Bool.false_eq_true, Bool.and_false, Bool.and_true, Bool.false_and, Bool.true_and]) <;> (repeat' split) <;> simp_all [tot_ackWs_srw', tot_ackWs_tok, b2n_true, b2n_false, srW, tokW, St.bg, onOk, onErr, selNext, afterSetErr, srAllW, nextC, roSets] <;> (try omega) <;> (try (cases hk : s.ehTok <;> cases hk2 : s.cwl <;> simp_all [b2n_true, b2n_false] <;> omega))
  | bgCommitFail _ b w hb =>
    cases b <;> (try simp only [St.setDone, St.setBg, ↓reduceIte, Bool.false_eq_true, Bool.and_false, Bool.and_true, Bool.false_and, Bool.true_and]) <;> (repeat' split) <;> simp_all [tot_ackWs_srw', tot_ackWs_tok, b2n_true, b2n_false, srW, tokW, St.bg, onOk, onErr, selNext, afterSetErr, srAllW, nextC, roSets] <;> (try omega) <;> (try (cases hk : s.ehTok <;> cases hk2 : s.cwl <;> simp_all [b2n_true, b2n_false] <;> omega))
  | bgSetErr _ b w ok c hb he =>
    simp only [hm, recvs_asCoded] at he
    rcases he with he | he <;> cases b <;> cases ok <;> cases c <;> (try simp only [St.setDone, St.setBg, ↓reduceIte, Bool.false_eq_true, Bool.and_false, Bool.and_true, Bool.false_and, Bool.true_and]) <;> (repeat' split) <;> simp_all [tot_ackWs_srw', tot_ackWs_tok, b2n_true, b2n_false, srW, tokW, St.bg, onOk, onErr, selNext, afterSetErr, srAllW, nextC, roSets] <;> (try omega) <;> (try (cases hk : s.ehTok <;> cases hk2 : s.cwl <;> simp_all [b2n_true, b2n_false] <;> omega))
  | bgSetErrPer _ b w c hb he =>
    cases b <;> cases c <;> (try simp only [St.setDone, St.setBg, ↓reduceIte, Bool.false_eq_true, Bool.and_false, Bool.and_true, Bool.false_and, Bool.true_and]) <;> (repeat' split) <;> simp_all [tot_ackWs_srw', tot_ackWs_tok, b2n_true, b2n_false, srW, tokW, St.bg, onOk, onErr, selNext, afterSetErr, srAllW, nextC, roSets] <;> (try omega) <;> (try (cases hk : s.ehTok <;> cases hk2 : s.cwl <;> simp_all [b2n_true, b2n_false] <;> omega))
  | bgBackoff _ b w c hb =>
    cases b <;> cases c <;> (try simp only [St.setDone, St.setBg, ↓reduceIte, Bool.false_eq_true, Bool.and_false, Bool.and_true, Bool.false_and, Bool.true_and]) <;> (repeat' split) <;> simp_all [tot_ackWs_srw', tot_ackWs_tok, b2n_true, b2n_false, srW, tokW, St.bg, onOk, onErr, selNext, afterSetErr, srAllW, nextC, roSets] <;> (try omega) <;> (try (cases hk : s.ehTok <;> cases hk2 : s.cwl <;> simp_all [b2n_true, b2n_false] <;> omega))
  | bgLockClk _ b w hb hl =>
    cases b <;> (try simp only [St.setDone, St.setBg, ↓reduceIte, Bool.false_eq_true, Bool.and_false, Bool.and_true, Bool.false_and, Bool.true_and]) <;> (repeat' split) <;> simp_all [tot_ackWs_srw', tot_ackWs_tok, b2n_true, b2n_false, srW, tokW, St.bg, onOk, onErr, selNext, afterSetErr, srAllW, nextC, roSets] <;> (try omega) <;> (try (cases hk : s.ehTok <;> cases hk2 : s.cwl <;> simp_all [b2n_true, b2n_false] <;> omega))
  | bgAck _ b w hb =>
    cases b <;> (try simp only [St.setDone, St.setBg, ↓reduceIte, Bool.false_eq_true, Bool.and_false, Bool.and_true, Bool.false_and, Bool.true_and]) <;> (repeat' split) <;> simp_all [tot_ackWs_srw', tot_ackWs_tok, b2n_true, b2n_false, srW, tokW, St.bg, onOk, onErr, selNext, afterSetErr, srAllW, nextC, roSets] <;> (try omega) <;> (try (cases hk : s.ehTok <;> cases hk2 : s.cwl <;> simp_all [b2n_true, b2n_false] <;> omega))
  | bgExit _ b w ph hb hx =>
    cases b <;> cases ph <;> (try simp only [St.setDone, St.setBg, ↓reduceIte, Bool.false_eq_true, Bool.and_false, Bool.and_true, Bool.false_and, Bool.true_and]) <;> (repeat' split) <;> simp_all [tot_ackWs_srw', tot_ackWs_tok, b2n_true, b2n_false, srW, tokW, St.bg, onOk, onErr, selNext, afterSetErr, srAllW, nextC, roSets] <;> (try omega) <;> (try (cases hk : s.ehTok <;> cases hk2 : s.cwl <;> simp_all [b2n_true, b2n_false] <;> omega))

/-- exact accounting in every run of a configuration with the hand-over of 832d000 -/
def ExactH (s : St) : Prop := TokE s ∧ HInv s

theorem step_exactH (cfg : Cfg) (h3 : Fixed3 cfg) (hm : cfg.m = .asCoded cfg.closeSel) (hh : cfg.HandsOver)
    (h4 : cfg.setReadOnlyReleasesOnClose = true) (s t : St) (f : Bool) (h : Step cfg f s t) (inv : ExactH s) :
    ExactH t := by
  obtain ⟨hE, hH⟩ := inv
  refine ⟨step_tokE s t f cfg h3 (Or.inl h4) (fun hp => ?_) (fun hc => (hH.1 (hH.2.2 hc) (by rw [hc]; simp)).1) h hE,
    step_hinv s t f cfg hm hh h4 hE h hH⟩
  have := hH.2.1
  cases he : s.ehTok with
  | true => rfl
  | false => rw [he] at this; simp only [b2n_false] at this; omega

end GoLevel.Locks
