import GoLevel.Proofs.JournalZero
/-! One damaged block: the tolerant reader loses only records that have a chunk in the dropped part of that
block, and resynchronises at the next block. -/
namespace GoLevel.Journal
open GoLevel.Gen (journalBlockSize journalHeaderSize fullChunkType firstChunkType middleChunkType lastChunkType)

local notation "blockSize" => journalBlockSize
local notation "headerSize" => journalHeaderSize

/-! ### the acceptance test of `nextChunk` -/

/-- the chunk at the head of `rest` (in-block offset `pos`, block valid up to `n`) passes the four tests of
    `nextChunk`: not a zero header, valid type, length within the block, checksum (if checked) -/
def Accepts (checksum : Bool) (pos : Nat) (rest : Bytes) (n : Nat) : Prop :=
  ¬ (rd32 rest = 0 ∧ rd16 (rest.drop 4) = 0 ∧ (rest.getD 6 0).toNat = 0) ∧
  ¬ ((rest.getD 6 0).toNat < fullChunkType ∨ (rest.getD 6 0).toNat > lastChunkType) ∧
  ¬ (pos + headerSize + rd16 (rest.drop 4) > n) ∧
  ¬ (checksum = true ∧ rd32 rest ≠
      (CRC.crcValue (rest.getD 6 0 :: (rest.drop headerSize).take (rd16 (rest.drop 4)))).toNat)

instance (c : Bool) (pos : Nat) (rest : Bytes) (n : Nat) : Decidable (Accepts c pos rest n) := by
  unfold Accepts; infer_instance

/-- a chunk that fails the test makes the reader drop the rest of the block (strict: stop with an error) -/
theorem parseChunk_reject (s c first : Bool) (pos : Nat) (rest : Bytes) (n : Nat) (h : ¬ Accepts c pos rest n) :
    ∃ w, w ≠ DropReason.orphan ∧ w ≠ DropReason.missingPart ∧
      parseChunk s c first pos rest n = corrupt s (n - pos) w false ⟨n, rest.drop (n - pos)⟩ := by
  unfold Accepts at h
  unfold parseChunk
  simp only
  split
  · exact ⟨.zeroHeader, by simp, by simp, rfl⟩
  · split
    · exact ⟨.invalidType, by simp, by simp, rfl⟩
    · split
      · exact ⟨.lengthOverflow, by simp, by simp, rfl⟩
      · split
        · exact ⟨.checksumMismatch, by simp, by simp, rfl⟩
        · rename_i h1 h2 h3 h4
          exact absurd ⟨h1, h2, h3, h4⟩ h

/-! ### orphan chunks are skipped -/

def AllOrphanDrops (es : List Event) : Prop := ∀ e ∈ es, ∃ x, e = .drop x .orphan

theorem decodeLoop_orphans (s c : Bool) (y more : Bytes) :
    ∃ ds, AllOrphanDrops ds ∧ decodeLoop s c ⟨blockSize, (restChunks y).1 ++ more⟩ none =
      ⟨ds ++ (decodeLoop s c ⟨(restChunks y).2, more⟩ none).events,
        (decodeLoop s c ⟨(restChunks y).2, more⟩ none).final⟩ := by
  have hlt := headerSize_lt_blockSize
  fun_induction restChunks y with
  | case1 y h =>
    have hn := nextChunk_boundary_chunk s c true false true y more (by omega)
    refine ⟨[.drop (y.length + headerSize) .orphan], ?_, ?_⟩
    · intro e he; exact ⟨_, List.mem_singleton.mp he⟩
    · rw [decodeLoop_skip (cur := none) (by simpa using hn)]
      rfl
  | case2 y h r ih =>
    obtain ⟨ds, hds, e⟩ := ih
    have hn := nextChunk_boundary_chunk s c true false false (y.take (blockSize - headerSize))
      (r.1 ++ more) (by simp only [List.length_take]; omega)
    refine ⟨.drop ((y.take (blockSize - headerSize)).length + headerSize) .orphan :: ds, ?_, ?_⟩
    · intro ev hev
      rcases List.mem_cons.mp hev with h | h
      · exact ⟨_, h⟩
      · exact hds ev h
    · simp only [List.append_assoc]
      rw [decodeLoop_skip (cur := none) (by simpa using hn)]
      rw [show headerSize + min (blockSize - headerSize) y.length = blockSize by omega, e]
      simp [DecodeResult.cons, List.length_take, r]

/-! ### the stream from a chunk boundary on -/

/-- bytes from a chunk boundary to the end: the remaining payload `y` of a record in progress (its chunks
    start at a block boundary), then the records `rs` -/
def tailBytes (pos : Nat) (y : Option Bytes) (rs : List Bytes) : Bytes :=
  match y with
  | none => encodeFrom pos rs
  | some y => (restChunks y).1 ++ encodeFrom (restChunks y).2 rs

theorem encodeFrom_blockSize (rs : List Bytes) : encodeFrom blockSize rs = encodeFrom 0 rs := by
  have h7 := headerSize_eq
  have hlt := headerSize_lt_blockSize
  cases rs with
  | nil => rfl
  | cons r rs =>
    have : emitRecord blockSize r = emitRecord 0 r := by
      unfold emitRecord
      rw [pad_blockSize, pad_fit (by omega)]
    simp only [encodeFrom, this]

/-- after a resynchronisation at a block boundary the reader skips the orphans and delivers every record -/
theorem decodeLoop_tail (s c : Bool) (y : Option Bytes) (rs : List Bytes) :
    ∃ ds, AllOrphanDrops ds ∧
      decodeLoop s c ⟨blockSize, tailBytes 0 y rs⟩ none = ⟨ds ++ rs.map .record, .eof⟩ := by
  have hfin : ∀ pos, pos ≤ blockSize → decodeLoop s c ⟨pos, encodeFrom pos rs⟩ none = ⟨rs.map .record, .eof⟩ := by
    intro pos hpos
    have := decodeLoop_encodeFrom s c pos rs [] hpos
    simp only [List.append_nil] at this
    rw [this, decodeLoop_eof (cur := none) (by simpa using nextChunk_nil s c _ (endPos_le pos rs hpos))]
    simp
  cases y with
  | none =>
    refine ⟨[], by simp [AllOrphanDrops], ?_⟩
    simp only [tailBytes, List.nil_append]
    rw [← encodeFrom_blockSize]
    exact hfin _ (Nat.le_refl _)
  | some y =>
    obtain ⟨ds, hds, e⟩ := decodeLoop_orphans s c y (encodeFrom (restChunks y).2 rs)
    refine ⟨ds, hds, ?_⟩
    simp only [tailBytes]
    rw [e, hfin _ (restChunks_pos y).2]

/-- what is left of `rs` (written from offset `pos`) after the current block: `none` if the stream ends in
    this block, else the payload still to come of the record that straddles the boundary and the records
    that start in later blocks -/
def afterBlock : Nat → List Bytes → Option (Option Bytes × List Bytes)
  | _, [] => none
  | pos, r :: rs =>
    if pos + headerSize > blockSize then some (none, r :: rs)
    else if r.length ≤ blockSize - (pos + headerSize) then afterBlock (pos + headerSize + r.length) rs
    else some (some (r.drop (blockSize - (pos + headerSize))), rs)

theorem afterBlock_none (pos : Nat) (rs : List Bytes) (hpos : pos ≤ blockSize) (h : afterBlock pos rs = none) :
    (encodeFrom pos rs).length ≤ blockSize - pos := by
  induction rs generalizing pos with
  | nil => simp [encodeFrom]
  | cons r rs ih =>
    unfold afterBlock at h
    split at h
    · simp at h
    · split at h
      · rename_i h1 h2
        have := ih _ (by omega) h
        simp only [encodeFrom, emitRecord, pad_fit (Nat.le_of_not_gt h1), emitChunks, if_pos h2, List.nil_append,
          List.length_append, chunk_length]
        omega
      · simp at h

theorem afterBlock_some (pos : Nat) (rs : List Bytes) (hpos : pos ≤ blockSize) (y : Option Bytes)
    (rs3 : List Bytes) (h : afterBlock pos rs = some (y, rs3)) :
    blockSize - pos ≤ (encodeFrom pos rs).length ∧
    (encodeFrom pos rs).drop (blockSize - pos) = tailBytes 0 y rs3 ∧
    ∃ lost, rs = lost ++ rs3 := by
  have h7 := headerSize_eq
  have hlt := headerSize_lt_blockSize
  induction rs generalizing pos with
  | nil => simp [afterBlock] at h
  | cons r rs ih =>
    unfold afterBlock at h
    split at h
    · rename_i h1
      simp only [Option.some.injEq, Prod.mk.injEq] at h
      obtain ⟨rfl, rfl⟩ := h
      have e0 : encodeFrom 0 (r :: rs) = (emitChunks 0 r).1 ++ encodeFrom (emitChunks 0 r).2 rs := by
        simp only [encodeFrom, emitRecord]; rw [pad_fit (by omega)]; simp
      have e1 : encodeFrom pos (r :: rs) =
          List.replicate (blockSize - pos) 0 ++ ((emitChunks 0 r).1 ++ encodeFrom (emitChunks 0 r).2 rs) := by
        simp only [encodeFrom, emitRecord, pad, if_pos h1, List.append_assoc]
      simp only [tailBytes]
      rw [e0, e1]
      refine ⟨by simp only [List.length_append, List.length_replicate]; omega, ?_, [], rfl⟩
      rw [List.drop_left' (by simp)]
    · split at h
      · rename_i h1 h2
        obtain ⟨a, b, lost, hl⟩ := ih _ (by omega) h
        simp only [encodeFrom, emitRecord, pad_fit (Nat.le_of_not_gt h1), emitChunks, if_pos h2, List.nil_append,
          List.length_append, chunk_length]
        refine ⟨by omega, ?_, r :: lost, by simp [hl]⟩
        rw [List.drop_append, chunk_length, List.drop_eq_nil_of_le (by rw [chunk_length]; omega), List.nil_append,
          ← b]
        congr 1; omega
      · rename_i h1 h2
        simp only [Option.some.injEq, Prod.mk.injEq] at h
        obtain ⟨rfl, rfl⟩ := h
        have hlen : (r.take (blockSize - (pos + headerSize))).length = blockSize - (pos + headerSize) := by
          simp only [List.length_take]; omega
        simp only [encodeFrom, emitRecord, pad_fit (Nat.le_of_not_gt h1), emitChunks, if_neg h2, List.nil_append,
          List.length_append, chunk_length, hlen, tailBytes, List.append_assoc]
        refine ⟨by omega, ?_, [r], rfl⟩
        rw [List.drop_left' (by rw [chunk_length, hlen]; omega)]

/-- `afterBlock` for a stream that starts at a chunk boundary -/
def afterBlockT (pos : Nat) : Option Bytes → List Bytes → Option (Option Bytes × List Bytes)
  | none, rs => afterBlock pos rs
  | some y, rs =>
    if y.length ≤ blockSize - headerSize then afterBlock (headerSize + y.length) rs
    else some (some (y.drop (blockSize - headerSize)), rs)

/-- the records that start after the block in which the chunk boundary lies -/
def survivors (pos : Nat) (y : Option Bytes) (rs : List Bytes) : List Bytes :=
  match afterBlockT pos y rs with
  | none => []
  | some (_, rs3) => rs3

/-- in-block offset of the chunk at a chunk boundary (`blockSize` stands for offset 0 of the next block) -/
def zoneStart (pos : Nat) (y : Option Bytes) : Nat := if y.isSome then 0 else pos

/-- number of bytes from the chunk boundary to the end of its block (or of the stream) -/
def zoneLen (pos : Nat) (y : Option Bytes) (rs : List Bytes) : Nat :=
  min (blockSize - zoneStart pos y) (tailBytes pos y rs).length

theorem tail_after (pos : Nat) (y : Option Bytes) (rs : List Bytes)
    (hy : y = none → pos + headerSize ≤ blockSize ∧ rs ≠ []) :
    headerSize ≤ zoneLen pos y rs ∧
    (match afterBlockT pos y rs with
     | none => (tailBytes pos y rs).drop (zoneLen pos y rs) = []
     | some (y', rs3) => zoneStart pos y + zoneLen pos y rs = blockSize ∧
         (tailBytes pos y rs).drop (zoneLen pos y rs) = tailBytes 0 y' rs3) ∧
    ∃ lost, rs = lost ++ survivors pos y rs := by
  have h7 := headerSize_eq
  have hlt := headerSize_lt_blockSize
  unfold zoneLen zoneStart survivors
  cases y with
  | none =>
    obtain ⟨hp, hne⟩ := hy rfl
    obtain ⟨r, rs', rfl⟩ := List.exists_cons_of_ne_nil hne
    have hT : headerSize ≤ (encodeFrom pos (r :: rs')).length := by
      have := emitChunks_length_pos (pad pos).2 r
      simp only [encodeFrom, emitRecord, List.length_append]; omega
    simp only [tailBytes, afterBlockT, Option.isSome_none, Bool.false_eq_true, if_false]
    refine ⟨by omega, ?_⟩
    cases h : afterBlock pos (r :: rs') with
    | none =>
      have := afterBlock_none pos _ (by omega) h
      exact ⟨List.drop_eq_nil_of_le (by omega), _, (List.append_nil _).symm⟩
    | some v =>
      obtain ⟨y', rs3⟩ := v
      obtain ⟨a, b, lost, hl⟩ := afterBlock_some pos _ (by omega) y' rs3 h
      simp only
      rw [Nat.min_eq_left a]
      exact ⟨⟨by omega, b⟩, lost, hl⟩
  | some yy =>
    simp only [tailBytes, afterBlockT, Option.isSome_some, if_true, Nat.sub_zero, Nat.zero_add]
    have hT := restChunks_length_pos yy
    refine ⟨by simp only [List.length_append]; omega, ?_⟩
    by_cases hs : yy.length ≤ blockSize - headerSize
    · have e : restChunks yy = (chunk (chunkType false true) yy, headerSize + yy.length) := by
        rw [restChunks, if_pos hs]
      simp only [if_pos hs, e, List.length_append, chunk_length]
      cases h : afterBlock (headerSize + yy.length) rs with
      | none =>
        have := afterBlock_none _ _ (by omega) h
        exact ⟨List.drop_eq_nil_of_le (by simp only [List.length_append, chunk_length]; omega), _,
          (List.append_nil _).symm⟩
      | some v =>
        obtain ⟨y', rs3⟩ := v
        obtain ⟨a, b, lost, hl⟩ := afterBlock_some _ _ (by omega) y' rs3 h
        simp only
        rw [show min blockSize (headerSize + yy.length + (encodeFrom (headerSize + yy.length) rs).length) = blockSize by omega]
        refine ⟨⟨rfl, ?_⟩, lost, hl⟩
        rw [List.drop_append, chunk_length, List.drop_eq_nil_of_le (by rw [chunk_length]; omega), List.nil_append]
        exact b
    · have e : restChunks yy = (chunk (chunkType false false) (yy.take (blockSize - headerSize)) ++
          (restChunks (yy.drop (blockSize - headerSize))).1, (restChunks (yy.drop (blockSize - headerSize))).2) := by
        rw [restChunks, if_neg hs]
      have hlen : (yy.take (blockSize - headerSize)).length = blockSize - headerSize := by
        simp only [List.length_take]; omega
      simp only [if_neg hs, e, List.length_append, chunk_length, hlen, List.append_assoc]
      rw [show min blockSize (headerSize + (blockSize - headerSize) +
        ((restChunks (yy.drop (blockSize - headerSize))).1.length +
          (encodeFrom (restChunks (yy.drop (blockSize - headerSize))).2 rs).length)) = blockSize by omega]
      refine ⟨⟨rfl, ?_⟩, [], rfl⟩
      rw [List.drop_left' (by rw [chunk_length, hlen]; omega)]

/-- `nextChunk` at a chunk boundary with at least a header left: the header at the boundary is examined -/
theorem nextChunk_at (s c f : Bool) (pos : Nat) (y : Option Bytes) (R : Bytes)
    (hpos : if y.isSome then pos = blockSize else pos + headerSize ≤ blockSize) (hR : headerSize ≤ R.length) :
    nextChunk s c f ⟨pos, R⟩ =
      parseChunk s c f (zoneStart pos y) R (zoneStart pos y + min (blockSize - zoneStart pos y) R.length) := by
  have h7 := headerSize_eq
  have hlt := headerSize_lt_blockSize
  unfold zoneStart
  cases y with
  | none =>
    simp only [Option.isSome_none, Bool.false_eq_true, if_false] at hpos ⊢
    unfold nextChunk nextChunkLoop
    simp only
    rw [if_pos (by omega)]
  | some yy =>
    simp only [Option.isSome_some, if_true] at hpos ⊢
    subst hpos
    unfold nextChunk nextChunkLoop
    simp only [Nat.sub_self, Nat.zero_min, Nat.add_zero, List.drop_zero]
    rw [if_neg (by omega), if_neg (by omega), if_neg (by omega)]
    unfold nextChunkLoop
    simp only
    rw [if_pos (by omega)]

end GoLevel.Journal
