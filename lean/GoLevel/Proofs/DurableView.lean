import GoLevel.Proofs.DurableMain
import GoLevel.Proofs.LSMOrder
/-!
From groups to entries: the entries of pairwise disjoint, well-formed groups carry unique internal keys, so a
reader's view depends only on the *set* of groups recovered.
-/
namespace GoLevel.Dur
open GoLevel

/-- a well-formed group: every record is a put or a delete -/
def Grp.wf (g : Grp) : Prop := ∀ r ∈ g.recs, r.kind ≤ Gen.keyTypeVal

theorem keyTypeVal_lt : Gen.keyTypeVal < 256 := by decide

theorem mem_entriesFrom {seq i : Nat} {rs : List Batch.Rec} {e : Entry} :
    e ∈ Batch.entriesFrom seq i rs ↔ ∃ k r, rs[k]? = some r ∧ e = Batch.entryOf seq (i + k) r := by
  induction rs generalizing i with
  | nil => simp [Batch.entriesFrom]
  | cons x xs ih =>
    simp only [Batch.entriesFrom, List.mem_cons, ih]
    constructor
    · rintro (rfl | ⟨k, r, hk, rfl⟩)
      · exact ⟨0, x, rfl, rfl⟩
      · exact ⟨k + 1, r, by simpa using hk, by rw [show i + 1 + k = i + (k + 1) by omega]⟩
    · rintro ⟨k, r, hk, rfl⟩
      cases k with
      | zero => simp at hk; subst hk; exact Or.inl rfl
      | succ k => exact Or.inr ⟨k, r, by simpa using hk, by rw [show i + 1 + k = i + (k + 1) by omega]⟩

theorem mem_ents {g : Grp} {e : Entry} :
    e ∈ g.ents ↔ ∃ k r, g.recs[k]? = some r ∧ e = Batch.entryOf g.seq k r := by
  unfold Grp.ents Batch.entries
  rw [mem_entriesFrom]
  simp

theorem entryOf_seq {seq i : Nat} {r : Batch.Rec} (h : r.kind ≤ Gen.keyTypeVal) :
    (Batch.entryOf seq i r).seq = seq + i ∧ (Batch.entryOf seq i r).key.num / 256 = seq + i := by
  have := keyTypeVal_lt
  simp only [Batch.entryOf, Entry.seq, IKey.seq, mkIKey]
  omega

/-- an entry of a well-formed group has its sequence number inside the group's range -/
theorem ents_seq_range {g : Grp} (hw : g.wf) {e : Entry} (he : e ∈ g.ents) :
    g.seq ≤ e.key.num / 256 ∧ e.key.num / 256 < g.fin ∧ e.seq = e.key.num / 256 := by
  obtain ⟨k, r, hk, rfl⟩ := mem_ents.1 he
  have hr : r ∈ g.recs := List.mem_of_getElem? hk
  obtain ⟨h1, h2⟩ := entryOf_seq (seq := g.seq) (i := k) (hw r hr)
  have hlt : k < g.recs.length := (List.getElem?_eq_some_iff.1 hk).1
  refine ⟨by omega, by unfold Grp.fin Grp.n; omega, by rw [h1, h2]⟩

theorem uniqNum_of_disj {gs : List Grp} (hw : ∀ g ∈ gs, g.wf) (hd : ∀ g ∈ gs, ∀ h ∈ gs, Disj g h) :
    UniqNum (gs.flatMap Grp.ents) := by
  intro a ha b hb _ hn
  obtain ⟨g, hg, hag⟩ := List.mem_flatMap.1 ha
  obtain ⟨h, hh, hbh⟩ := List.mem_flatMap.1 hb
  obtain ⟨a1, a2, _⟩ := ents_seq_range (hw g hg) hag
  obtain ⟨b1, b2, _⟩ := ents_seq_range (hw h hh) hbh
  have hgh : g = h := by
    rcases hd g hg h hh with e | e | e
    · exact e
    · rw [hn] at a2; omega
    · rw [hn] at a1; omega
  subst hgh
  obtain ⟨k, r, hk, rfl⟩ := mem_ents.1 hag
  obtain ⟨k', r', hk', rfl⟩ := mem_ents.1 hbh
  have hr : r ∈ g.recs := List.mem_of_getElem? hk
  have hr' : r' ∈ g.recs := List.mem_of_getElem? hk'
  have e1 := (entryOf_seq (seq := g.seq) (i := k) (hw g hg r hr)).2
  have e2 := (entryOf_seq (seq := g.seq) (i := k') (hw g hg r' hr')).2
  rw [hn] at e1
  have : k = k' := by omega
  subst this
  rw [hk] at hk'
  cases hk'
  rfl

/-- the reader's view of the recovered groups is the view of any list with the same groups -/
theorem view_groups_congr {c : UCmp} (hl : LawfulUCmp c) {gs sel : List Grp} (hw : ∀ g ∈ gs, g.wf)
    (hd : ∀ g ∈ gs, ∀ h ∈ gs, Disj g h) (hm : ∀ g, g ∈ sel ↔ g ∈ gs) (k : Bytes) (s : Nat) :
    view c (gs.flatMap Grp.ents) k s = view c (sel.flatMap Grp.ents) k s := by
  apply view_congr hl (uniqNum_of_disj hw hd)
  intro e
  simp only [List.mem_flatMap]
  constructor
  · rintro ⟨g, hg, he⟩; exact ⟨g, (hm g).2 hg, he⟩
  · rintro ⟨g, hg, he⟩; exact ⟨g, (hm g).1 hg, he⟩

end GoLevel.Dur
